(* C12 — SafeKV is data-race free and every operation is atomic.
   Property theorems only; each is closed by [exact] of a lemma from Proofs/, with Print Assumptions beneath.
   Machine (Model/SafeKV.v): any number of threads over one RWMutex (writer flag + reader count) and one map; a step executes
   one event (Acq/Rel R|W, Rd/Wr Hdr|Entries, CallUser) of one thread; how often a repeated part runs and what a write does
   are chosen by the schedule entry, so "for all schedules" covers every data-dependent control flow and every effect. *)
From Coq Require Import List ZArith Bool Permutation.
From V Require Import Lib.Enc Gen.SafeKVSkel Model.SafeKV Model.SafeKVCalls Model.SafeKVHist Run.C12 Proofs.SafeKVCalls Proofs.SafeKVInv Proofs.SafeKVConc Proofs.SafeKVSeq Proofs.SafeKVSkelOk Proofs.SafeKVExec Proofs.SafeKVRun Proofs.SafeKVLin
  Proofs.SafeKVLinearize Proofs.SafeKVLinearizeThm Proofs.SafeKVLinearizeCor Proofs.SafeKVLinearizeSnap Proofs.SafeKVLinearizeRun Proofs.SafeKVLinearizeLog
  Lib.MapLang Gen.SafeKVCode Model.SafeKVCode Proofs.SafeKVCode.
Import ListNotations.

(* the skeletons extracted from the current mapz/safekv.go and mapz/iter.go obey the lock discipline (all of them, also
   methods the effect table does not know) *)
Theorem c12_all_methods_well_locked : forallb well_locked all_skels = true.
Proof. exact all_methods_well_locked. Qed.
Print Assumptions c12_all_methods_well_locked.

Theorem c12_all_methods_one_section : forallb one_section all_skels = true.
Proof. exact all_methods_one_section. Qed.
Print Assumptions c12_all_methods_one_section.

(* well-locked skeletons => for every thread count, initial map and schedule: no data race in the reached configuration,
   every critical section is atomic (a reader has seen one unchanging snapshot, a writer's section is exactly its own writes
   applied to the map it found), and outside write sections the map is the initial map with the completed write sections
   applied whole in unlock order *)
Theorem c12_welllocked_sound : forall methods, forallb well_locked methods = true ->
  forall n m0 sched, let c := run methods (init n m0) sched in
  ~ race c /\
  (forall t, In t (ths c) ->
     match hold t with
     | Some R => mp c = snap t /\ Forall (fun x => x = snap t) (seen t)
     | Some W => mp c = apply_all (done_ t) (snap t)
     | None => True
     end) /\
  (writer (lk c) = false -> mp c = apply_all (commits methods (init n m0) sched) m0).
Proof. exact welllocked_sound. Qed.
Print Assumptions c12_welllocked_sound.

(* instantiated with the generated skeletons: SafeKV as it is now *)
Theorem c12_safekv_sound : forall n m0 sched, let c := run all_skels (init n m0) sched in
  ~ race c /\
  (forall t, In t (ths c) ->
     match hold t with
     | Some R => mp c = snap t /\ Forall (fun x => x = snap t) (seen t)
     | Some W => mp c = apply_all (done_ t) (snap t)
     | None => True
     end) /\
  (writer (lk c) = false -> mp c = apply_all (commits all_skels (init n m0) sched) m0).
Proof. exact (welllocked_sound all_skels all_methods_well_locked). Qed.
Print Assumptions c12_safekv_sound.

(* on the sequential map every run reduces to: exactly one of several SetNx calls on an absent key returns true; SetX never creates a key *)
Theorem c12_setnx_unique : forall m k v vs, has m k = false ->
  snd (run_calls (map (CSetNx k) (v :: vs)) m) = [1%Z] :: repeat [0%Z] (length vs).
Proof. exact setnx_unique. Qed.
Print Assumptions c12_setnx_unique.
Theorem c12_setx_never_creates : forall m k v k', has (fst (sem (CSetX k v) m)) k' = true -> has m k' = true.
Proof. exact setx_never_creates. Qed.
Print Assumptions c12_setx_never_creates.

(* every method, walked over its generated skeleton with the effect table (how often a repeated part runs, what a write does,
   what is returned from what the reads observed) against a private map, computes exactly the plain-map specification:
   for every call, every map, every operation sequence — the model output of the run (sub 0) is the specification output (sub 1) *)
Theorem c12_exec_call_is_sem : forall c m, exec_call c m = Some (sem c m).
Proof. exact exec_call_is_sem. Qed.
Print Assumptions c12_exec_call_is_sem.
(* CODE = MODEL for what the methods DO.  Gen/SafeKVCode.v is produced on every run by gen/safekv_code.go from the bodies of
   Get, Has, Contains, Set, SetNx, SetX, Delete, Len, Clear, Keys and Values in mapz/safekv.go: every statement (comma-ok index,
   if/else, index assignment, delete, len, make, range over the variadic keys, range over the map with append, return) dumped into the map-statement language of
   Lib/MapLang.v, Go's scoping applied; Model/SafeKVCode.v gives that language its semantics on the model's map
   ([run_method body args variadic_args map] = (map left, values returned)).  Each regenerated body equals the hand-written
   specification [sem] - and therefore the interpreted skeleton [exec_call] - for ALL arguments and ALL maps (Values: up to the order of the returned slice, which
   Go leaves unspecified and the specification sorts: [sort_out]).  The callback methods
   GetWithLock, Map, Range, All (the closure All returns) are translated with the callback as a parameter of the semantics
   ([run_cb cb mcb body args m] = (map left, number of callback calls, log of what the callbacks were handed)): GetWithLock for
   ANY callback, Map for the model's map callback [map_cb f a b] (= user_fn, observing the size), Range / All for the model's
   callback [stop_cb stop] that answers false on its stop-th call (never for stop = 0); [lock_enc] / [iter_enc] read the
   model's result off the count and the log (pairs in the model's key order; for stop > 0 the count).  GetWithMap is not
   translated.  One Gen file per method (Gen/SafeKVCode<Method>.v): a method outside the fragment falls back to its own
   validated default.  [translated c] = the calls with an exact equation through [code_effect]. *)
Theorem c12_code_is_model :
  (forall k m, run_method code_Get [k] [] m = sem (CGet k) m) /\
  (forall k m, run_method code_Has [k] [] m = sem (CHas k) m) /\
  (forall k m, run_method code_Contains [k] [] m = sem (CContains k) m) /\
  (forall k v m, run_method code_Set [k; v] [] m = sem (CSet k v) m) /\
  (forall k v m, run_method code_SetNx [k; v] [] m = sem (CSetNx k v) m) /\
  (forall k v m, run_method code_SetX [k; v] [] m = sem (CSetX k v) m) /\
  (forall ks m, run_method code_Delete [] ks m = sem (CDelete ks) m) /\
  (forall m, run_method code_Len [] [] m = sem CLen m) /\
  (forall m, run_method code_Clear [] [] m = sem CClear m) /\
  (forall m, run_method code_Keys [] [] m = sem CKeys m) /\
  (forall m, let '(m', r) := run_method code_Values [] [] m in (m', sort_out r) = sem CValues m) /\
  (forall cb k m, let '(m', n, lg) := run_cb cb no_mcb code_GetWithLock [k] m in (m', lock_enc n lg) = sem (CGetWithLock k) m) /\
  (forall cb f a b m, let '(m', n, lg) := run_cb cb (map_cb f a b) code_Map [] m in (m', lg) = sem (CMap f a b) m) /\
  (forall stop m, let '(m', n, lg) := run_cb (stop_cb stop) no_mcb code_Range [] m in (m', iter_enc stop n lg) = sem (CRange stop) m) /\
  (forall stop m, let '(m', n, lg) := run_cb (stop_cb stop) no_mcb code_All [] m in (m', iter_enc stop n lg) = sem (CAll stop) m) /\
  (forall c m, translated c = true -> code_effect c m = Some (sem c m) /\ code_effect c m = exec_call c m).
Proof. exact code_is_model. Qed.
Print Assumptions c12_code_is_model.
Theorem c12_run_model_is_spec : forall cs m, run_model cs m = run_spec cs m.
Proof. exact run_model_is_spec. Qed.
Print Assumptions c12_run_model_is_spec.
Theorem c12_entry_seq_model_is_spec : forall cap ops, entry 0 (0 :: cap :: ops)%Z = entry 1 (0 :: cap :: ops)%Z.
Proof. exact entry_seq_model_is_spec. Qed.
Print Assumptions c12_entry_seq_model_is_spec.

(* the step machine driven by calls (Model/SafeKVCalls.v): threads execute SafeKV calls over the generated skeletons, the
   control flow and the writes come from the effect table evaluated on what the call's own reads saw in the SHARED map.
   For every thread count, initial map and schedule: every completed call (cl, s, f, r in the ghost log = call, map found
   when the lock was taken, map left when it was released, result) returned what the specification returns on s and left
   what the specification leaves — each call takes effect atomically with respect to a plain map *)
Theorem c12_calls_atomic : forall n m0 sched, let c := crun (cinit n m0) sched in
  forall t, In t (cths c) -> forall cl s f r, In (cl, s, f, r) (clog t) -> f = fst (sem cl s) /\ r = snd (sem cl s).
Proof. exact calls_atomic. Qed.
Print Assumptions c12_calls_atomic.
(* ... and its configurations are configurations of the generic machine over the generated skeletons: no data race *)
Theorem c12_calls_race_free : forall n m0 sched, ~ race (proj (crun (cinit n m0) sched)).
Proof. exact calls_race_free. Qed.
Print Assumptions c12_calls_race_free.

(* run mode 1: the judge of observed histories answers 1 exactly when the history has a linearisation — an ordering of all its
   calls in which nobody stands before a call that had already returned when he was invoked, and every call returns what the
   specification returns on the map its predecessors left (legal) *)
Theorem c12_history_judge_iff : forall hist m0, linearizable hist m0 = true <-> exists l, Permutation l hist /\ legal l m0.
Proof. exact linearizable_iff. Qed.
Print Assumptions c12_history_judge_iff.

(* ================================================================== linearizability, in one piece
   The history of a run of the call-driven machine (Model/SafeKVHist.v): steps of the schedule are numbered from 0; the step on
   which an idle thread starts a call is its invocation, the step on which it goes back to idle is its response; [chistory] is
   the list of completed calls (invocation step, response step, call, result), [cpending] the calls invoked and not returned
   at the end.  A schedule entry (i, c) says "thread i moves; if it is idle it starts c", so quantifying over schedules
   quantifies over all per-thread programs, all argument values and all interleavings.

   For every thread count, initial map and schedule there is ONE total order l of the completed calls (together with a
   completion of pending calls: some are given a response at the end of the run, the others dropped) that
   (a) respects real time: a call that had returned before another was invoked stands before it, and
   (b) is a legal sequential execution of the plain-map specification [sem] from the initial map, every call returning
       exactly the result that was observed. *)
Theorem c12_linearizable : forall n m0 sched,
  exists extra l,
    completion (Z.of_nat (length sched)) (cpending n m0 sched) extra /\
    Permutation l (chistory n m0 sched ++ extra) /\
    (forall a b, In a l -> In b l -> (h_resp a < h_inv b)%Z -> before l a b) /\
    seq_legal l m0.
Proof. exact crun_linearizable. Qed.
Print Assumptions c12_linearizable.

(* when no call is pending at the end (every thread idle: the histories the harness records), it is the history itself *)
Theorem c12_linearizable_quiescent : forall n m0 sched, cpending n m0 sched = [] ->
  exists l,
    Permutation l (chistory n m0 sched) /\
    (forall a b, In a l -> In b l -> (h_resp a < h_inv b)%Z -> before l a b) /\
    seq_legal l m0.
Proof. exact crun_linearizable_quiescent. Qed.
Print Assumptions c12_linearizable_quiescent.

(* the same order in the judge's vocabulary ([legal], c12_history_judge_iff) *)
Theorem c12_linearizable_legal : forall n m0 sched,
  exists extra l, completion (Z.of_nat (length sched)) (cpending n m0 sched) extra /\
                  Permutation l (chistory n m0 sched ++ extra) /\ legal l m0.
Proof. exact crun_linearizable_legal. Qed.
Print Assumptions c12_linearizable_legal.

(* hence the executable judge that the run applies to the histories observed on the real SafeKV accepts every history of the
   model: the model never produces a history the judge would report *)
Theorem c12_model_histories_accepted : forall n m0 sched, cpending n m0 sched = [] ->
  linearizable (chistory n m0 sched) m0 = true.
Proof. exact model_histories_accepted_quiescent. Qed.
Print Assumptions c12_model_histories_accepted.
Theorem c12_model_histories_accepted_pending : forall n m0 sched,
  exists extra, completion (Z.of_nat (length sched)) (cpending n m0 sched) extra /\
                linearizable (chistory n m0 sched ++ extra) m0 = true.
Proof. exact model_histories_accepted. Qed.
Print Assumptions c12_model_histories_accepted_pending.
(* ... at the level of the run (mode 1 of Run/C12.v starts from the empty map): a case that decodes to the history of a complete
   run of the model is answered [1; number of calls] *)
Theorem c12_entry_model_history_accepted : forall n sched nth args, cpending n [] sched = [] ->
  dec_hist (length args) args = Some (chistory n [] sched) ->
  entry 0 (1 :: nth :: args)%Z = [1%Z; Z.of_nat (length (chistory n [] sched))].
Proof. exact entry_model_history_accepted. Qed.
Print Assumptions c12_entry_model_history_accepted.

(* the calls of a history are calls the schedule carries (so a premise on the schedule is a premise on the calls made) *)
Theorem c12_history_calls_from_schedule : forall (P : call -> Prop) n m0 sched K extra,
  Forall (fun sc => P (snd sc)) sched -> completion K (cpending n m0 sched) extra ->
  Forall (fun hp => P (h_call hp)) (chistory n m0 sched ++ extra).
Proof. exact history_calls. Qed.
Print Assumptions c12_history_calls_from_schedule.

(* the history is the machine's own log: its (call, result) pairs are, as a multiset, the (call, result) pairs of the threads'
   ghost logs that c12_calls_atomic speaks about *)
Theorem c12_history_is_the_log : forall n m0 sched,
  Permutation (map (fun h => (h_call h, h_res h)) (chistory n m0 sched))
              (flat_map (fun t => map (fun en : call * map_ * map_ * list Z => let '(cl, _, _, r) := en in (cl, r)) (clog t))
                        (cths (crun (cinit n m0) sched))).
Proof. exact history_is_the_log. Qed.
Print Assumptions c12_history_is_the_log.

(* corollaries on histories.  Exactly one of several concurrent SetNx on an absent key returns true: in a run from a map
   without k whose calls are SetNx on k (any values) and calls that do not change whether k is present, every SetNx on k
   reported true or false, at most one reported true, and exactly one did if there was any *)
Theorem c12_history_setnx_unique : forall n m0 sched k, has m0 k = false ->
  Forall (fun sc => is_setnx k (snd sc) = true \/ keeps_key k (snd sc)) sched -> cpending n m0 sched = [] ->
  let H := chistory n m0 sched in
  (forall h, In h H -> is_setnx k (h_call h) = true -> h_res h = [1%Z] \/ h_res h = [0%Z]) /\
  length (filter (setnx_win k) H) <= 1 /\
  ((exists h, In h H /\ is_setnx k (h_call h) = true) -> length (filter (setnx_win k) H) = 1).
Proof. exact run_setnx_unique_quiescent. Qed.
Print Assumptions c12_history_setnx_unique.
(* ... and with calls still pending at the end: the same about the history plus the completed pending calls *)
Theorem c12_history_setnx_unique_pending : forall n m0 sched k, has m0 k = false ->
  Forall (fun sc => is_setnx k (snd sc) = true \/ keeps_key k (snd sc)) sched ->
  exists extra, completion (Z.of_nat (length sched)) (cpending n m0 sched) extra /\
    let H := chistory n m0 sched ++ extra in
    (forall h, In h H -> is_setnx k (h_call h) = true -> h_res h = [1%Z] \/ h_res h = [0%Z]) /\
    length (filter (setnx_win k) H) <= 1 /\
    ((exists h, In h H /\ is_setnx k (h_call h) = true) -> length (filter (setnx_win k) H) = 1).
Proof. exact run_setnx_unique. Qed.
Print Assumptions c12_history_setnx_unique_pending.

(* SetX never creates a key: in a run from a map without k whose calls are SetX (any key, any value) and calls that cannot
   create k, every completed call saw a map without k *)
Theorem c12_history_setx_never_creates : forall n m0 sched k, has m0 k = false ->
  Forall (fun sc => (exists a v, snd sc = CSetX a v) \/ never_creates k (snd sc)) sched ->
  forall h, In h (chistory n m0 sched) ->
    (exists s, has s k = false /\ h_res h = snd (sem (h_call h) s)) /\
    (h_call h = CHas k \/ h_call h = CContains k -> h_res h = [0%Z]) /\
    (forall v, h_call h = CSetX k v -> h_res h = [0%Z]) /\
    (h_call h = CGet k -> h_res h = [0%Z; 0%Z]) /\
    (h_call h = CGetWithLock k -> h_res h = [0%Z]).
Proof. exact run_setx_never_creates. Qed.
Print Assumptions c12_history_setx_never_creates.

(* one snapshot: every completed call of every run returned what the specification returns on the SHARED map as it was after
   j steps of the schedule, for one j strictly between its invocation and its response; for Keys / Values / Range / All / Len /
   Map the number of entries reported is the size of the map at that instant, GetWithMap reads every key from it *)
Theorem c12_history_one_snapshot : forall n m0 sched h, In h (chistory n m0 sched) ->
  exists j, (h_inv h < Z.of_nat j < h_resp h)%Z /\ j < length sched /\
    let s := map_at n m0 sched j in
    h_res h = snd (sem (h_call h) s) /\
    (h_call h = CKeys -> h_res h = put_list (map fst s)) /\
    (h_call h = CKeys \/ h_call h = CValues -> hd0 (h_res h) = Z.of_nat (length s)) /\
    (h_call h = CRange 0 \/ h_call h = CAll 0 -> h_res h = put_list (flat s) /\ hd0 (h_res h) = Z.of_nat (2 * length s)) /\
    (h_call h = CLen \/ (exists f a b, h_call h = CMap f a b) -> h_res h = [Z.of_nat (length s)]) /\
    (forall ks, h_call h = CGetWithMap ks ->
       h_res h = put_list (flat_map (fun k => [k; match get s k with Some v => v | None => (-1)%Z end]) (zdedup (zsort ks)))).
Proof. exact run_one_snapshot. Qed.
Print Assumptions c12_history_one_snapshot.
