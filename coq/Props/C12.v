(* C12 — SafeKV is data-race free and every operation is atomic.
   Property theorems only; each is closed by [exact] of a lemma from Proofs/, with Print Assumptions beneath.
   Machine (Model/SafeKV.v): any number of threads over one RWMutex (writer flag + reader count) and one map; a step executes
   one event (Acq/Rel R|W, Rd/Wr Hdr|Entries, CallUser) of one thread; how often a repeated part runs and what a write does
   are chosen by the schedule entry, so "for all schedules" covers every data-dependent control flow and every effect. *)
From Coq Require Import List ZArith Bool Permutation.
From V Require Import Lib.Enc Gen.SafeKVSkel Model.SafeKV Model.SafeKVCalls Run.C12 Proofs.SafeKVCalls Proofs.SafeKVInv Proofs.SafeKVConc Proofs.SafeKVSeq Proofs.SafeKVSkelOk Proofs.SafeKVExec Proofs.SafeKVRun Proofs.SafeKVLin.
Import ListNotations.

(* the skeletons extracted from the current mapz/safekv.go and mapz/iter.go obey the lock discipline (all of them, also
   methods the effect table does not know) *)
Theorem c12_all_methods_well_locked : forallb well_locked all_skels = true.
Proof. exact all_methods_well_locked. Qed.
Print Assumptions c12_all_methods_well_locked.

Theorem c12_all_methods_one_section : forallb one_section all_skels = true.
Proof. exact all_methods_one_section. Qed.
Print Assumptions c12_all_methods_one_section.

(* well-locked skeletons => for every thread count, initial map and schedule: no data race in the reached configuration,
   every critical section is atomic (a reader has seen one unchanging snapshot, a writer's section is exactly its own writes
   applied to the map it found), and outside write sections the map is the initial map with the completed write sections
   applied whole in unlock order *)
Theorem c12_welllocked_sound : forall methods, forallb well_locked methods = true ->
  forall n m0 sched, let c := run methods (init n m0) sched in
  ~ race c /\
  (forall t, In t (ths c) ->
     match hold t with
     | Some R => mp c = snap t /\ Forall (fun x => x = snap t) (seen t)
     | Some W => mp c = apply_all (done_ t) (snap t)
     | None => True
     end) /\
  (writer (lk c) = false -> mp c = apply_all (commits methods (init n m0) sched) m0).
Proof. exact welllocked_sound. Qed.
Print Assumptions c12_welllocked_sound.

(* instantiated with the generated skeletons: SafeKV as it is now *)
Theorem c12_safekv_sound : forall n m0 sched, let c := run all_skels (init n m0) sched in
  ~ race c /\
  (forall t, In t (ths c) ->
     match hold t with
     | Some R => mp c = snap t /\ Forall (fun x => x = snap t) (seen t)
     | Some W => mp c = apply_all (done_ t) (snap t)
     | None => True
     end) /\
  (writer (lk c) = false -> mp c = apply_all (commits all_skels (init n m0) sched) m0).
Proof. exact (welllocked_sound all_skels all_methods_well_locked). Qed.
Print Assumptions c12_safekv_sound.

(* on the sequential map every run reduces to: exactly one of several SetNx calls on an absent key returns true; SetX never creates a key *)
Theorem c12_setnx_unique : forall m k v vs, has m k = false ->
  snd (run_calls (map (CSetNx k) (v :: vs)) m) = [1%Z] :: repeat [0%Z] (length vs).
Proof. exact setnx_unique. Qed.
Print Assumptions c12_setnx_unique.
Theorem c12_setx_never_creates : forall m k v k', has (fst (sem (CSetX k v) m)) k' = true -> has m k' = true.
Proof. exact setx_never_creates. Qed.
Print Assumptions c12_setx_never_creates.

(* every method, walked over its generated skeleton with the effect table (how often a repeated part runs, what a write does,
   what is returned from what the reads observed) against a private map, computes exactly the plain-map specification:
   for every call, every map, every operation sequence — the model output of the run (sub 0) is the specification output (sub 1) *)
Theorem c12_exec_call_is_sem : forall c m, exec_call c m = Some (sem c m).
Proof. exact exec_call_is_sem. Qed.
Print Assumptions c12_exec_call_is_sem.
Theorem c12_run_model_is_spec : forall cs m, run_model cs m = run_spec cs m.
Proof. exact run_model_is_spec. Qed.
Print Assumptions c12_run_model_is_spec.
Theorem c12_entry_seq_model_is_spec : forall cap ops, entry 0 (0 :: cap :: ops)%Z = entry 1 (0 :: cap :: ops)%Z.
Proof. exact entry_seq_model_is_spec. Qed.
Print Assumptions c12_entry_seq_model_is_spec.

(* the step machine driven by calls (Model/SafeKVCalls.v): threads execute SafeKV calls over the generated skeletons, the
   control flow and the writes come from the effect table evaluated on what the call's own reads saw in the SHARED map.
   For every thread count, initial map and schedule: every completed call (cl, s, f, r in the ghost log = call, map found
   when the lock was taken, map left when it was released, result) returned what the specification returns on s and left
   what the specification leaves — each call takes effect atomically with respect to a plain map *)
Theorem c12_calls_atomic : forall n m0 sched, let c := crun (cinit n m0) sched in
  forall t, In t (cths c) -> forall cl s f r, In (cl, s, f, r) (clog t) -> f = fst (sem cl s) /\ r = snd (sem cl s).
Proof. exact calls_atomic. Qed.
Print Assumptions c12_calls_atomic.
(* ... and its configurations are configurations of the generic machine over the generated skeletons: no data race *)
Theorem c12_calls_race_free : forall n m0 sched, ~ race (proj (crun (cinit n m0) sched)).
Proof. exact calls_race_free. Qed.
Print Assumptions c12_calls_race_free.

(* run mode 1: the judge of observed histories answers 1 exactly when the history has a linearisation — an ordering of all its
   calls in which nobody stands before a call that had already returned when he was invoked, and every call returns what the
   specification returns on the map its predecessors left (legal) *)
Theorem c12_history_judge_iff : forall hist m0, linearizable hist m0 = true <-> exists l, Permutation l hist /\ legal l m0.
Proof. exact linearizable_iff. Qed.
Print Assumptions c12_history_judge_iff.
