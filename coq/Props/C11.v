(* C11 — SyncList is a linearizable unbounded FIFO queue with a sane length.
   Model: V.Model.SyncListConc (one step = one sync/atomic call, one runtime.Gosched, or one plain access of one
   thread; nodes numbered in link order).  [run c sched] executes any schedule for any number of threads. *)
From Coq Require Import List ZArith Bool.
Import ListNotations.
From V Require Import Model.SyncListConc Proofs.SyncListConc Proofs.SyncListTop.
From V Require Lib.Enc Run.C11 Proofs.SyncListJudgeBase Proofs.SyncListJudgeLive Proofs.SyncListJudgeTop.
Local Open Scope Z_scope.

Theorem c11_init_invariant : forall n, Inv (init n).
Proof. exact init_inv. Qed.
Print Assumptions c11_init_invariant.

Theorem c11_invariant_preserved : forall sched c, Inv c -> Inv (run c sched).
Proof. exact run_inv. Qed.
Print Assumptions c11_invariant_preserved.

(* For every thread count and every schedule, from any invariant state:
   - the operations in the order of their linearisation points (Push: its tail store; Pop: its successful CAS on head;
     a Pop that answers "empty": its tail load, an instant at which the queue is empty) are a legal run of an unbounded FIFO
     ending in the current content: every pushed value is popped exactly once or still stored, in FIFO order;
   - a successful Pop returns the value the FIFO had at its head at that instant;
   - every Len() result z satisfies 0 <= poppable-at-that-instant <= z, the counter is never below the number of poppable
     values at any instant, and it equals the number of stored values whenever no operation is in flight. *)
Theorem c11_linearizable_fifo_sane_len : forall c0 sched, Inv c0 -> let c := run c0 sched in
  Inv c /\
  replay (lin (sh c)) [] = Some (q (sh c)) /\
  (forall i v g, In (i, RPop v g) (hist c) -> v = Some g) /\
  (forall i z g, In (i, RLen z g) (hist c) -> 0 <= g <= z) /\
  0 <= Z.of_nat (length (q (sh c))) <= len (sh c) /\
  (Forall (fun p => p = Idle) (ths c) -> len (sh c) = Z.of_nat (length (q (sh c)))).
Proof. exact synclist_from_inv. Qed.
Print Assumptions c11_linearizable_fifo_sane_len.

(* no two goroutines are ever inside the read/clear window of one node, and a node that has just been linked by a pusher
   lies beyond head, so no popper's window is on it: the plain accesses to node.value never conflict *)
Theorem c11_race_free : forall c, Inv c ->
  (forall a b p1 p2 m, a <> b -> nth_error (ths c) a = Some p1 -> nth_error (ths c) b = Some p2 ->
     owns p1 = Some m -> owns p2 <> Some m) /\
  (forall a b p1 p2 m k v, nth_error (ths c) a = Some p1 -> nth_error (ths c) b = Some p2 ->
     owns p1 = Some m -> (p2 = PushAdd k v \/ p2 = PushStoreTail k v) -> (m < k)%nat).
Proof. exact synclist_race_free_inv. Qed.
Print Assumptions c11_race_free.

(* every state the correspondence run starts from satisfies the invariant (the premises above are satisfiable there) *)
Theorem c11_sequential_states_invariant : forall npre n, Inv (seq_state npre n).
Proof. exact seq_state_inv. Qed.
Print Assumptions c11_sequential_states_invariant.

(* Push always completes once in-flight pushes are allowed to finish: a pusher inside the link..publish window needs two
   unconditional steps of its own; with nobody in that window, a Push running alone returns after six steps, having
   appended its value and counted it *)
Theorem c11_push_completes : forall c i v,
  Inv c -> nlinked (ths c) = 0 -> nth_error (ths c) i = Some Idle ->
  let c' := run c (solo i (OpPush v) 6) in
  hist c' = hist c ++ [(i, RPush)] /\ nth_error (ths c') i = Some Idle /\
  q (sh c') = q (sh c) ++ [v] /\ len (sh c') = len (sh c) + 1.
Proof. exact push_completes. Qed.
Print Assumptions c11_push_completes.
Theorem c11_linked_pusher_publishes : forall c i n v,
  nth_error (ths c) i = Some (PushAdd n v) -> nth_error (ths (run c (solo i OpPop 2))) i = Some Idle.
Proof. exact linked_pusher_publishes. Qed.
Print Assumptions c11_linked_pusher_publishes.

(* Pop returns false only if the list was empty at an instant of the call (the LEmpty entries of the log above replay
   only on an empty FIFO) or it was overtaken by another Pop between its head load and its CAS *)
Theorem c11_pop_busy_was_overtaken : forall c i h nx, Inv c -> nth_error (ths c) i = Some (PopCas h nx) ->
  head (sh c) <> h -> (h < head (sh c))%nat.
Proof. exact pop_busy_was_overtaken. Qed.
Print Assumptions c11_pop_busy_was_overtaken.

(* Termination of the run (round-robin fairness): for programs without the blocking PopWait(-1) and with timed PopWaits
   of at most 3 further tries ([op_live], Run/C11.v), after ANY schedule prefix the completion tail of the run -- round
   robin over all threads, 40 * (number of calls) + 40 rounds -- ends with no call in flight: every Push has completed
   (a spinning pusher fails at most once per node linked by another thread under round robin), every Pop/PopWait/Len has
   returned.  gos = the run of Run/C11.v with a forward token list (Proofs/SyncListJudgeBase.v: go_gos). *)
Theorem c11_round_robin_quiescent : forall progs npre sched,
  Forall (Forall (fun x => V.Run.C11.op_live x = true)) progs ->
  let '(c, rts', _) := V.Proofs.SyncListJudgeBase.gos (seq_state npre (length progs)) (V.Run.C11.init_rts progs)
                         (sched ++ V.Run.C11.completion (length progs) progs) in
  V.Run.C11.quiescent c rts' = true.
Proof. exact V.Proofs.SyncListJudgeLive.completion_quiescent. Qed.
Print Assumptions c11_round_robin_quiescent.

(* Refinement of the specification-side history judge (Run/C11.v, sub 2 -- the executable reading of the property text that
   the check applies to the real implementation's traces): on every well-formed case the judge accepts the run of the
   proved step model (Run/C11.v, sub 0, incl. the run-level PopWait loops): trace walk (linearisation points, FIFO ghost
   queue, excuses of failed Pops), per-thread results, final Len and stored values.
   [wf_case] (Run/C11.v): documented op codes, non-negative schedule entries, and EITHER all programs are [op_live]
   (quiescence is then the theorem above) OR no call is still in flight when the completion tail of the model's run is
   over (evaluated on the run; needed for the blocking PopWait(-1), which spins forever when no value arrives). *)
Theorem c11_judge_accepts_model : forall args, V.Run.C11.wf_case args = true ->
  V.Run.C11.judge (V.Lib.Enc.put_list args ++ V.Lib.Enc.put_list (V.Run.C11.run_case args)) = [1].
Proof. exact V.Proofs.SyncListJudgeTop.judge_accepts_model. Qed.
Print Assumptions c11_judge_accepts_model.
