From Coq Require Import List ZArith.
From V Require Import Model.Crypt.
