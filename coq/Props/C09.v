(* C09 — secret-based encryption: round trip, OpenSSL format, totality, chunking independence.
   Property theorems only (each closed by [exact] of a lemma of Proofs/Crypt*.v, Print Assumptions beneath).
   The Go standard library primitives are quantified variables; every fact used about them is a visible premise:
     md5 : bytes -> bytes          |md5 m| = 16
     E D : key -> block -> block   D k (E k b) = b and |E k b| = 16 for 16/24/32-byte keys and 16-byte blocks
     seal / open (AES-GCM)         open k n (seal k n p a) a = Some p, |seal| = |p| + 16, open = Some p -> |c| = |p| + 16
     b64enc / b64dec               b64dec (b64enc x) = Some x
   The random salt is an argument ([Some salt]; [None] = the entropy source failed). *)
From Coq Require Import List ZArith Bool Arith.
From V Require Import Lib.GoSem Gen.CryptCode Run.C09Code Proofs.CryptCode.
From V Require Import Lib.Enc Gen.Cryptz Model.Aes Model.Crypt Proofs.AesPkcs7 Proofs.CryptKdf Proofs.CryptEnv Proofs.CryptStream Proofs.CryptRefine.
Import ListNotations.

(* ---- fillCred is OpenSSL's EVP_BytesToKey(MD5, count 1) producing 48 bytes *)
Theorem c09_fill_cred_is_evp : forall (md5 : bytes -> bytes), (forall m, length (md5 m) = 16) ->
  forall secret salt, fill_cred md5 secret salt = Ok (evp md5 secret salt) /\ length (evp md5 secret salt) = 48.
Proof. exact fill_cred_evp. Qed.
Print Assumptions c09_fill_cred_is_evp.

(* ---- format: Encrypt = base64 ("Salted__" ++ salt ++ AES-256-CBC(key, iv, PKCS#7 p)), (key, iv) = EVP(secret, salt) *)
Theorem c09_salt_cbc_encrypt_format : forall (E D : bytes -> bytes -> bytes) (md5 : bytes -> bytes),
  (forall m, length (md5 m) = 16) ->
  (forall k b, good_key k = true -> length b = 16 -> D k (E k b) = b) ->
  (forall k b, good_key k = true -> length b = 16 -> length (E k b) = 16) ->
  forall salt p s, length salt = 8 ->
  salt_cbc_encrypt E md5 (Some salt) p s =
    Ok (header ++ salt ++ cbc_enc_bytes E (firstn 32 (evp md5 s salt)) (skipn 32 (evp md5 s salt)) (pkcs7_padded p (16 - length p mod 16))) /\
  length (cbc_enc_bytes E (firstn 32 (evp md5 s salt)) (skipn 32 (evp md5 s salt)) (pkcs7_padded p (16 - length p mod 16)))
    = length p + (16 - length p mod 16).
Proof. exact salt_cbc_encrypt_format. Qed.
Print Assumptions c09_salt_cbc_encrypt_format.
Theorem c09_encrypt_format : forall (E D : bytes -> bytes -> bytes) (md5 : bytes -> bytes),
  (forall m, length (md5 m) = 16) ->
  (forall k b, good_key k = true -> length b = 16 -> D k (E k b) = b) ->
  (forall k b, good_key k = true -> length b = 16 -> length (E k b) = 16) ->
  forall (b64enc : bytes -> bytes) salt p s, length salt = 8 ->
  encrypt E md5 b64enc (Some salt) p s =
    Ok (b64enc (header ++ salt ++ cbc_enc_bytes E (firstn 32 (evp md5 s salt)) (skipn 32 (evp md5 s salt)) (pkcs7_padded p (16 - length p mod 16)))).
Proof. exact encrypt_format. Qed.
Print Assumptions c09_encrypt_format.

(* ---- Decrypt (Encrypt p s) s = p; SaltBySecretCBCDecrypt inverts SaltBySecretCBCEncrypt with and without reuse *)
Theorem c09_decrypt_encrypt : forall (E D : bytes -> bytes -> bytes) (md5 : bytes -> bytes),
  (forall m, length (md5 m) = 16) ->
  (forall k b, good_key k = true -> length b = 16 -> D k (E k b) = b) ->
  (forall k b, good_key k = true -> length b = 16 -> length (E k b) = 16) ->
  forall (b64enc : bytes -> bytes) (b64dec : bytes -> option bytes), (forall x, b64dec (b64enc x) = Some x) ->
  forall salt p s, length salt = 8 ->
  exists c, encrypt E md5 b64enc (Some salt) p s = Ok c /\ decrypt D md5 b64dec c s = Ok p.
Proof. exact decrypt_encrypt. Qed.
Print Assumptions c09_decrypt_encrypt.
Theorem c09_salt_cbc_roundtrip : forall (E D : bytes -> bytes -> bytes) (md5 : bytes -> bytes),
  (forall m, length (md5 m) = 16) ->
  (forall k b, good_key k = true -> length b = 16 -> D k (E k b) = b) ->
  (forall k b, good_key k = true -> length b = 16 -> length (E k b) = 16) ->
  forall salt p s reuse, length salt = 8 ->
  exists c, salt_cbc_encrypt E md5 (Some salt) p s = Ok c /\
  exists buf, salt_cbc_decrypt D md5 c s reuse = Ok (p, buf).
Proof. exact salt_cbc_roundtrip. Qed.
Print Assumptions c09_salt_cbc_roundtrip.

(* ---- GCM: format, round trips (raw and through hex), no acceptance path besides the library's Open *)
Theorem c09_salt_gcm_encrypt_format : forall (md5 : bytes -> bytes), (forall m, length (md5 m) = 16) ->
  forall (seal : bytes -> bytes -> bytes -> bytes -> bytes) (open : bytes -> bytes -> bytes -> bytes -> option bytes),
  (forall k n p a, good_key k = true -> n <> [] -> open k n (seal k n p a) a = Some p) ->
  (forall k n p a, length (seal k n p a) = length p + 16) ->
  forall salt p s ad, length salt = 8 ->
  salt_gcm_encrypt seal md5 (Some salt) p s ad =
    Ok (header ++ salt ++ seal (firstn 32 (evp md5 s salt)) (firstn 12 (skipn 32 (evp md5 s salt))) p ad).
Proof. intros md5 Hm seal open. exact (salt_gcm_encrypt_format md5 Hm seal open). Qed.
Print Assumptions c09_salt_gcm_encrypt_format.
Theorem c09_salt_gcm_roundtrip : forall (md5 : bytes -> bytes), (forall m, length (md5 m) = 16) ->
  forall (seal : bytes -> bytes -> bytes -> bytes -> bytes) (open : bytes -> bytes -> bytes -> bytes -> option bytes),
  (forall k n p a, good_key k = true -> n <> [] -> open k n (seal k n p a) a = Some p) ->
  (forall k n p a, length (seal k n p a) = length p + 16) ->
  forall salt p s ad reuse, length salt = 8 ->
  exists c, salt_gcm_encrypt seal md5 (Some salt) p s ad = Ok c /\
  exists buf, salt_gcm_decrypt open md5 c s ad reuse = Ok (p, buf).
Proof. intros md5 Hm seal open. exact (salt_gcm_roundtrip md5 Hm seal open). Qed.
Print Assumptions c09_salt_gcm_roundtrip.
Theorem c09_gcm_decrypt_encrypt : forall (md5 : bytes -> bytes), (forall m, length (md5 m) = 16) ->
  forall (seal : bytes -> bytes -> bytes -> bytes -> bytes) (open : bytes -> bytes -> bytes -> bytes -> option bytes),
  (forall k n p a, good_key k = true -> n <> [] -> open k n (seal k n p a) a = Some p) ->
  (forall k n p a, length (seal k n p a) = length p + 16) ->
  forall salt p s ad, length salt = 8 -> Forall is_byte salt -> (forall k n, Forall is_byte (seal k n p ad)) ->
  exists c, gcm_encrypt_s seal md5 (Some salt) p s ad = Ok c /\ gcm_decrypt_s open md5 c s ad = Ok p.
Proof. intros md5 Hm seal open. exact (gcm_decrypt_encrypt md5 Hm seal open). Qed.
Print Assumptions c09_gcm_decrypt_encrypt.
Theorem c09_salt_gcm_decrypt_only_if_open : forall (md5 : bytes -> bytes), (forall m, length (md5 m) = 16) ->
  forall (open : bytes -> bytes -> bytes -> bytes -> option bytes) ct secret ad reuse r,
  salt_gcm_decrypt open md5 ct secret ad reuse = Ok r ->
  16 <= length ct /\ firstn 8 ct = header /\
  let c := evp md5 secret (firstn 8 (skipn 8 ct)) in
  exists p, open (firstn 32 c) (firstn 12 (skipn 32 c)) (skipn 16 ct) ad = Some p.
Proof. intros md5 Hm open. exact (salt_gcm_decrypt_only_if_open md5 Hm open). Qed.
Print Assumptions c09_salt_gcm_decrypt_only_if_open.

(* ---- every decryption entry point answers every input with a result or an error, never a panic *)
Theorem c09_salt_cbc_decrypt_total : forall (D : bytes -> bytes -> bytes) (md5 : bytes -> bytes), (forall m, length (md5 m) = 16) ->
  forall ct secret reuse, salt_cbc_decrypt D md5 ct secret reuse <> Panic.
Proof. exact salt_cbc_decrypt_total. Qed.
Print Assumptions c09_salt_cbc_decrypt_total.
Theorem c09_decrypt_total : forall (D : bytes -> bytes -> bytes) (md5 : bytes -> bytes), (forall m, length (md5 m) = 16) ->
  forall (b64dec : bytes -> option bytes) input secret, decrypt D md5 b64dec input secret <> Panic.
Proof. exact decrypt_total. Qed.
Print Assumptions c09_decrypt_total.
Theorem c09_salt_gcm_decrypt_total : forall (md5 : bytes -> bytes), (forall m, length (md5 m) = 16) ->
  forall (open : bytes -> bytes -> bytes -> bytes -> option bytes),
  (forall k n c a p, open k n c a = Some p -> length c = length p + 16) ->
  forall ct secret ad reuse, salt_gcm_decrypt open md5 ct secret ad reuse <> Panic.
Proof. exact salt_gcm_decrypt_total. Qed.
Print Assumptions c09_salt_gcm_decrypt_total.
Theorem c09_gcm_decrypt_total : forall (md5 : bytes -> bytes), (forall m, length (md5 m) = 16) ->
  forall (open : bytes -> bytes -> bytes -> bytes -> option bytes),
  (forall k n c a p, open k n c a = Some p -> length c = length p + 16) ->
  forall input secret ad, gcm_decrypt_s open md5 input secret ad <> Panic.
Proof. exact gcm_decrypt_s_total. Qed.
Print Assumptions c09_gcm_decrypt_total.

(* ---- hex layer *)
Theorem c09_hex_roundtrip : forall x, Forall is_byte x -> hex_decode (hex_encode x) = Some x.
Proof. exact hex_roundtrip. Qed.
Print Assumptions c09_hex_roundtrip.

(* ---- stream mode: for every reader (any chunk list incl. zero-length reads, EOF alone or with the last data), every
        read-buffer size B > 0 and a writer that accepts enough writes *)
Theorem c09_decrypt_stream_any_chunking : forall (E : bytes -> bytes -> bytes) (md5 : bytes -> bytes),
  (forall m, length (md5 m) = 16) ->
  (forall k b, good_key k = true -> length b = 16 -> length (E k b) = 16) ->
  forall B, 0 < B -> forall r wb secret, r_term r <> 2%Z -> (Z.of_nat (length (r_data r)) <= wb)%Z ->
  16 <= length (r_data r) -> firstn 8 (r_data r) = header ->
  let data := r_data r in
  let c := evp md5 secret (firstn 8 (skipn 8 data)) in
  exists w', decrypt_stream E md5 B r (new_writer wb) secret = Ok (0%Z, w') /\
             w_out w' = xor (skipn 16 data) (keystream E (firstn 32 c) (skipn 32 c) (nblocks_for r)).
Proof. exact decrypt_stream_any_chunking. Qed.
Print Assumptions c09_decrypt_stream_any_chunking.
Theorem c09_decrypt_stream_short : forall (E : bytes -> bytes -> bytes) (md5 : bytes -> bytes) B, 0 < B ->
  forall r wb secret, length (r_data r) < 16 ->
  decrypt_stream E md5 B r (new_writer wb) secret = Ok (E_RDHDR, new_writer wb).
Proof. exact decrypt_stream_short. Qed.
Print Assumptions c09_decrypt_stream_short.
Theorem c09_decrypt_stream_bad_magic : forall (E : bytes -> bytes -> bytes) (md5 : bytes -> bytes) B, 0 < B ->
  forall r wb secret, 16 <= length (r_data r) -> firstn 8 (r_data r) <> header ->
  decrypt_stream E md5 B r (new_writer wb) secret = Ok (E_HDR, new_writer wb).
Proof. exact decrypt_stream_bad_magic. Qed.
Print Assumptions c09_decrypt_stream_bad_magic.
Theorem c09_encrypt_stream_any_chunking : forall (E : bytes -> bytes -> bytes) (md5 : bytes -> bytes),
  (forall m, length (md5 m) = 16) ->
  (forall k b, good_key k = true -> length b = 16 -> length (E k b) = 16) ->
  forall B, 0 < B -> forall salt r wb s, r_term r <> 2%Z -> length salt = 8 ->
  (Z.of_nat (length (r_data r)) + 2 <= wb)%Z ->
  let c := evp md5 s salt in
  exists w', encrypt_stream E md5 B (Some salt) r (new_writer wb) s = Ok (0%Z, w') /\
             w_out w' = header ++ salt ++ xor (r_data r) (keystream E (firstn 32 c) (skipn 32 c) (nblocks_for r)).
Proof. exact encrypt_stream_any_chunking. Qed.
Print Assumptions c09_encrypt_stream_any_chunking.
Theorem c09_stream_roundtrip_any_chunking : forall (E : bytes -> bytes -> bytes) (md5 : bytes -> bytes),
  (forall m, length (md5 m) = 16) ->
  (forall k b, good_key k = true -> length b = 16 -> length (E k b) = 16) ->
  forall B, 0 < B -> forall salt r1 r2 wb1 wb2 s, length salt = 8 ->
  r_term r1 <> 2%Z -> r_term r2 <> 2%Z ->
  (Z.of_nat (length (r_data r1)) + 2 <= wb1)%Z -> (Z.of_nat (length (r_data r2)) <= wb2)%Z ->
  exists w1, encrypt_stream E md5 B (Some salt) r1 (new_writer wb1) s = Ok (0%Z, w1) /\
  (r_data r2 = w_out w1 ->
   exists w2, decrypt_stream E md5 B r2 (new_writer wb2) s = Ok (0%Z, w2) /\ w_out w2 = r_data r1).
Proof. exact stream_roundtrip_any_chunking. Qed.
Print Assumptions c09_stream_roundtrip_any_chunking.

(* ---- refinement: for EVERY case the model's output passes the judge [spec_ok] that `sub 2` of Run/C09 applies to the
        implementation's output (independent derivation: EVP definition, PKCS#7 definition, library whole-message
        CBC / CTR / GCM, base64), provided the library's CBC and CTR are the SP 800-38A constructions over the block
        function.  [op_wf9]: salts have 8 bytes, the read buffer is positive, and a case flagged "corrupted, must be
        rejected" is one the judge's own derivation rejects. *)
Theorem c09_model_meets_spec : forall (E D : bytes -> bytes -> bytes)
  (seal : bytes -> bytes -> bytes -> bytes -> bytes) (open : bytes -> bytes -> bytes -> bytes -> option bytes)
  (md5 b64enc : bytes -> bytes) (b64dec : bytes -> option bytes) (std_enc std_dec std_ctr : bytes -> bytes -> bytes -> bytes),
  (forall m, length (md5 m) = 16) ->
  (forall k b, good_key k = true -> length b = 16 -> D k (E k b) = b) ->
  (forall k b, good_key k = true -> length b = 16 -> length (E k b) = 16) ->
  (forall k b, good_key k = true -> length b = 16 -> length (D k b) = 16) ->
  (forall k n p a, good_key k = true -> n <> [] -> open k n (seal k n p a) a = Some p) ->
  (forall k n p a, length (seal k n p a) = length p + 16) ->
  (forall k n c a p, open k n c a = Some p -> length c = length p + 16) ->
  (forall k iv d, good_key k = true -> length iv = 16 -> length d mod 16 = 0 -> std_enc k iv d = cbc_enc_bytes E k iv d) ->
  (forall k iv d, good_key k = true -> length iv = 16 -> length d mod 16 = 0 -> std_dec k iv d = cbc_dec_bytes D k iv d) ->
  (forall k iv d n, good_key k = true -> length iv = 16 -> length d <= 16 * n -> std_ctr k iv d = xor d (keystream E k iv n)) ->
  forall o, op_wf9 open md5 o ->
  spec_ok std_enc std_dec std_ctr seal open md5 b64enc b64dec o (run_op E D seal open md5 b64enc b64dec o) = true.
Proof. exact model_meets_spec9. Qed.
Print Assumptions c09_model_meets_spec.

(* ---- translator tie: golib's own code in cryptz/crypt.go, translated to Gallina by gen/ on every run (coq/Gen/CryptCode.v,
        go2v + [ext:T08] + [ext:T09]), is equal to the hand model Model/Crypt.v, function by function, for all arguments.
        What is not code of crypt.go is the parameter [Foreign]; it is instantiated with [stdc E D seal open md5 osalt]
        (Run/C09Code.v): md5.Sum = md5, io.ReadFull(rand.Reader, buf) = the salt input [osalt] (None: error, buffer
        untouched), bytes.Equal = beq, the four AES functions of cryptz/aes.go = cbc_encrypt / cbc_decrypt / gcm_encrypt /
        gcm_decrypt of Model/Aes.v on the buffer handed over (C08 ties those to the code of aes.go).
   - fillCred: with fuel >= 4 (three rounds + the exit test) the final content of cred is what fill_loop says, a panic
     where it says Panic (cred shorter than i*16 in round i), for every cred / salt / secret; in particular on the zeroed
     48-byte array it is fill_cred (= EVP_BytesToKey by c09_fill_cred_is_evp);
   - fillSaltAndCred: error 19 and nothing written when the random source fails, else (salt, cred after fillCred, nil);
   - SaltBySecretCBCEncrypt / SaltBySecretGCMEncrypt = salt_cbc_encrypt / salt_gcm_encrypt (value, error code or panic;
     premise: the random source delivers the 8 bytes asked for);
   - SaltBySecretCBCDecrypt / SaltBySecretGCMDecrypt: the Go results (plaintext, error) = the first component of
     salt_cbc_decrypt / salt_gcm_decrypt, for every input, both values of reuseCipherText (the model's second component,
     the final content of the caller's array, is not in the translation: dead-alias rule of [ext:T09]). *)
Theorem c09_code_is_model : forall (E D : bytes -> bytes -> bytes)
  (seal : bytes -> bytes -> bytes -> bytes -> bytes) (open : bytes -> bytes -> bytes -> bytes -> option bytes)
  (md5 : bytes -> bytes), (forall m, length (md5 m) = 16) ->
  forall osalt : option bytes,
  let X := stdc E D seal open md5 osalt in
  (forall fuel cred salt secret, 4 <= fuel ->
     g_fillCred fuel X cred salt secret = cred_res (fill_loop md5 ROUNDS 0 (zeros 16) secret salt cred)) /\
  (forall fuel salt secret, 4 <= fuel ->
     g_fillCred fuel X (zeros CRED) salt secret = cred_res (fill_cred md5 secret salt)) /\
  (forall fuel salt cred secret, 4 <= fuel ->
     g_fillSaltAndCred fuel X salt cred secret =
     match osalt with
     | None => Ret (salt, (cred, E_SALT))
     | Some s => GoSem.bind (cred_res (fill_loop md5 ROUNDS 0 (zeros 16) secret s cred)) (fun c => Ret (s, (c, 0%Z)))
     end) /\
  (forall fuel p secret, 4 <= fuel -> (forall s, osalt = Some s -> length s = 8) ->
     g_SaltBySecretCBCEncrypt fuel X p secret = bytes_res9 (salt_cbc_encrypt E md5 osalt p secret)) /\
  (forall fuel ct secret reuse, 4 <= fuel ->
     g_SaltBySecretCBCDecrypt fuel X ct secret reuse = bytes_res9 (plain_of (salt_cbc_decrypt D md5 ct secret reuse))) /\
  (forall fuel p secret ad, 4 <= fuel -> (forall s, osalt = Some s -> length s = 8) ->
     g_SaltBySecretGCMEncrypt fuel X p secret ad = bytes_res9 (salt_gcm_encrypt seal md5 osalt p secret ad)) /\
  (forall fuel ct secret ad reuse, 4 <= fuel ->
     g_SaltBySecretGCMDecrypt fuel X ct secret ad reuse = bytes_res9 (plain_of (salt_gcm_decrypt open md5 ct secret ad reuse))).
Proof.
  intros E D seal open md5 Hmd5 osalt X.
  exact (conj (code_fillCred E D seal open md5 Hmd5 osalt)
        (conj (fun fuel salt secret => code_fillCred E D seal open md5 Hmd5 osalt fuel (zeros CRED) salt secret)
        (conj (code_fillSaltAndCred E D seal open md5 Hmd5 osalt)
        (conj (code_SaltBySecretCBCEncrypt E D seal open md5 Hmd5 osalt)
        (conj (code_SaltBySecretCBCDecrypt E D seal open md5 Hmd5 osalt)
        (conj (code_SaltBySecretGCMEncrypt E D seal open md5 Hmd5 osalt)
              (code_SaltBySecretGCMDecrypt E D seal open md5 Hmd5 osalt))))))).
Qed.
Print Assumptions c09_code_is_model.
