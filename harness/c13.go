package main

import (
	"container/list"
	"fmt"
	"iter"
	"math/rand"

	"github.com/welllog/golib/listz"
)

// C13: listz.DList (three-way: implementation / container/list / model+specification) and listz.SList.
// case = kind :: z0 :: z1 :: ops, op = [code L a b]          (see coq/Run/C13.v for the codes)
// DList: two lists; node handles are ids >= 2 in allocation order; the output ends with 1 iff container/list, driven
// with the same operations, gave the same observations at every step.

const c13MaxWalk = 100000

type c13D struct {
	l     [2]*listz.DList[int]
	std   [2]*list.List
	nodes []*listz.DNode[int] // id-2
	elems []*list.Element     // container/list counterpart; nil while a NewNode was never inserted
	pend  []int               // Value of such a node
	nid   map[*listz.DNode[int]]int
	eid   map[*list.Element]int
	agree bool
}

func (d *c13D) id(n *listz.DNode[int]) int64 {
	if n == nil {
		return -1
	}
	if i, ok := d.nid[n]; ok {
		return int64(i)
	}
	return -2
}
func (d *c13D) sid(e *list.Element) int64 {
	if e == nil {
		return -1
	}
	if i, ok := d.eid[e]; ok {
		return int64(i)
	}
	return -2
}
func (d *c13D) reg(n *listz.DNode[int], e *list.Element) int {
	id := len(d.nodes) + 2
	d.nodes = append(d.nodes, n)
	d.elems = append(d.elems, e)
	d.pend = append(d.pend, 0)
	if n != nil {
		d.nid[n] = id
	}
	if e != nil {
		d.eid[e] = id
	}
	return id
}
func (d *c13D) sval(id int) int {
	if e := d.elems[id-2]; e != nil {
		return e.Value.(int)
	}
	return d.pend[id-2]
}
func (d *c13D) rebind(id int, e *list.Element) {
	if e != nil {
		d.elems[id-2] = e
		d.eid[e] = id
	}
}
func (d *c13D) cmp(a, b []int64) {
	if !eqTok(a, b) {
		d.agree = false
	}
}

func c13ImplD(z0, z1 int64, ops []int64) []int64 {
	d := &c13D{nid: map[*listz.DNode[int]]int{}, eid: map[*list.Element]int{}, agree: true}
	var zv [2]listz.DList[int]
	var zs [2]list.List
	for i, z := range []int64{z0, z1} {
		if z != 0 {
			d.l[i] = &zv[i]
			d.std[i] = &zs[i]
		} else {
			d.l[i] = listz.NewDoubly[int]()
			d.std[i] = list.New()
		}
	}
	out := []int64{}
	heldD := [2]iter.Seq[int]{d.l[0].All(), d.l[1].All()} // All() sequences obtained EARLIER than they are walked
	for i := 0; i+3 < len(ops); i += 4 {
		code, L, a, b := ops[i], ops[i+1], ops[i+2], ops[i+3]
		if L < 0 || L > 1 {
			return []int64{BADCASE}
		}
		l, s := d.l[L], d.std[L]
		node := func(x int64) (*listz.DNode[int], *list.Element, bool) {
			if x < 2 || int(x-2) >= len(d.nodes) {
				return nil, nil, false
			}
			return d.nodes[x-2], d.elems[x-2], true
		}
		var r, rs []int64 // this step's observations: implementation / container/list
		switch code {
		case 0:
			l.Init()
			s.Init()
		case 1:
			r, rs = []int64{int64(l.Len())}, []int64{int64(s.Len())}
		case 2:
			r, rs = []int64{d.id(l.Front())}, []int64{d.sid(s.Front())}
		case 3:
			r, rs = []int64{d.id(l.Back())}, []int64{d.sid(s.Back())}
		case 4, 5, 6:
			n, e, ok := node(a)
			if !ok {
				return []int64{BADCASE}
			}
			switch code {
			case 4:
				r = []int64{d.id(n.Next())}
				if e == nil {
					rs = []int64{-1}
				} else {
					rs = []int64{d.sid(e.Next())}
				}
			case 5:
				r = []int64{d.id(n.Prev())}
				if e == nil {
					rs = []int64{-1}
				} else {
					rs = []int64{d.sid(e.Prev())}
				}
			case 6:
				r, rs = []int64{int64(n.Value)}, []int64{int64(d.sval(int(a)))}
			}
		case 7:
			n, e, ok := node(a)
			if !ok {
				return []int64{BADCASE}
			}
			r = []int64{int64(l.Remove(n))}
			if e == nil {
				rs = []int64{int64(d.sval(int(a)))}
			} else {
				rs = []int64{int64(s.Remove(e).(int))}
			}
		case 8, 9:
			var n *listz.DNode[int]
			var e *list.Element
			if code == 8 {
				n, e = l.PushFront(int(a)), s.PushFront(int(a))
			} else {
				n, e = l.PushBack(int(a)), s.PushBack(int(a))
			}
			id := int64(d.reg(n, e))
			r, rs = []int64{id}, []int64{id}
		case 10, 11:
			mn, me, ok := node(b)
			if !ok {
				return []int64{BADCASE}
			}
			var n *listz.DNode[int]
			var e *list.Element
			if code == 10 {
				n = l.InsertBefore(int(a), mn)
				if me != nil {
					e = s.InsertBefore(int(a), me)
				}
			} else {
				n = l.InsertAfter(int(a), mn)
				if me != nil {
					e = s.InsertAfter(int(a), me)
				}
			}
			if n == nil || e == nil {
				r, rs = []int64{d.id(n)}, []int64{d.sid(e)}
				if (n == nil) != (e == nil) {
					d.agree = false
				}
				if n != nil { // keep the handle tables aligned with the model's allocation
					d.reg(n, nil)
				}
			} else {
				id := int64(d.reg(n, e))
				r, rs = []int64{id}, []int64{id}
			}
		case 12, 13, 14, 15:
			n, _, ok := node(a)
			if !ok {
				return []int64{BADCASE}
			}
			v := d.sval(int(a))
			switch code {
			case 12:
				l.PushFrontNode(n)
				d.rebind(int(a), s.PushFront(v))
			case 13:
				l.PushBackNode(n)
				d.rebind(int(a), s.PushBack(v))
			default:
				mn, me, ok := node(b)
				if !ok {
					return []int64{BADCASE}
				}
				if code == 14 {
					l.InsertNodeBefore(n, mn)
					if me != nil {
						d.rebind(int(a), s.InsertBefore(v, me))
					}
				} else {
					l.InsertNodeAfter(n, mn)
					if me != nil {
						d.rebind(int(a), s.InsertAfter(v, me))
					}
				}
			}
		case 16, 17:
			n, e, ok := node(a)
			if !ok {
				return []int64{BADCASE}
			}
			if code == 16 {
				l.MoveToFront(n)
				if e != nil {
					s.MoveToFront(e)
				}
			} else {
				l.MoveToBack(n)
				if e != nil {
					s.MoveToBack(e)
				}
			}
		case 18, 19:
			n, e, ok := node(a)
			mn, me, ok2 := node(b)
			if !ok || !ok2 {
				return []int64{BADCASE}
			}
			if code == 18 {
				l.MoveBefore(n, mn)
				if e != nil && me != nil {
					s.MoveBefore(e, me)
				}
			} else {
				l.MoveAfter(n, mn)
				if e != nil && me != nil {
					s.MoveAfter(e, me)
				}
			}
		case 20, 21:
			if a < 0 || a > 1 {
				return []int64{BADCASE}
			}
			o, so := d.l[a], d.std[a]
			k := o.Len()
			if k != so.Len() {
				d.agree = false
			}
			if code == 20 {
				l.PushBackDList(o)
				s.PushBackList(so)
				// the k new nodes are the last k, created front to back
				ns := make([]*listz.DNode[int], k)
				es := make([]*list.Element, k)
				n, e := l.Back(), s.Back()
				for j := k - 1; j >= 0; j-- {
					ns[j], es[j] = n, e
					if n != nil {
						n = n.Prev()
					}
					if e != nil {
						e = e.Prev()
					}
				}
				for j := 0; j < k; j++ {
					d.reg(ns[j], es[j])
				}
			} else {
				l.PushFrontDList(o)
				s.PushFrontList(so)
				// the k new nodes are the first k, created back to front
				ns := make([]*listz.DNode[int], k)
				es := make([]*list.Element, k)
				n, e := l.Front(), s.Front()
				for j := 0; j < k; j++ {
					ns[j], es[j] = n, e
					if n != nil {
						n = n.Next()
					}
					if e != nil {
						e = e.Next()
					}
				}
				for j := k - 1; j >= 0; j-- {
					d.reg(ns[j], es[j])
				}
			}
		case 22:
			var w, ws []int64
			cnt := 0
			for n := l.Front(); n != nil && cnt < c13MaxWalk; n = n.Next() {
				w = append(w, d.id(n), int64(n.Value))
				cnt++
			}
			if cnt >= c13MaxWalk {
				return []int64{HANG}
			}
			for e := s.Front(); e != nil; e = e.Next() {
				ws = append(ws, d.sid(e), int64(e.Value.(int)))
			}
			r, rs = PutList(w), PutList(ws)
		case 23:
			var w, ws []int64
			cnt := 0
			for n := l.Back(); n != nil && cnt < c13MaxWalk; n = n.Prev() {
				w = append(w, d.id(n), int64(n.Value))
				cnt++
			}
			if cnt >= c13MaxWalk {
				return []int64{HANG}
			}
			for e := s.Back(); e != nil; e = e.Prev() {
				ws = append(ws, d.sid(e), int64(e.Value.(int)))
			}
			r, rs = PutList(w), PutList(ws)
		case 24:
			var w, ws []int64
			seqD := l.All()
			if (i/4)%2 == 0 {
				seqD = heldD[L]
			}
			heldD[L] = l.All()
			for v := range seqD {
				w = append(w, int64(v))
				if (a > 0 && int64(len(w)) >= a) || len(w) >= c13MaxWalk {
					break
				}
				if len(w) == 1+(i/4)%3 && (i/4)%5 < 3 {
					// the SAME sequence value walked again while this walk is under way (nested range, two iter.Pull
					// cursors): runs of one Seq are independent, the outer walk must go on where it was
					k := 0
					for range seqD {
						if k++; k >= 1+(i/4)%4 && (i/4)%2 == 1 || k >= c13MaxWalk {
							break
						}
					}
				}
			}
			if len(w) >= c13MaxWalk {
				return []int64{HANG}
			}
			for e := s.Front(); e != nil; e = e.Next() {
				ws = append(ws, int64(e.Value.(int)))
				if a > 0 && int64(len(ws)) >= a {
					break
				}
			}
			r, rs = PutList(w), PutList(ws)
		case 25:
			id := d.reg(&listz.DNode[int]{Value: int(a)}, nil)
			d.pend[id-2] = int(a)
			r, rs = []int64{int64(id)}, []int64{int64(id)}
		default:
			return []int64{BADCASE}
		}
		d.cmp(r, rs)
		out = append(out, r...)
	}
	return append(out, B(d.agree))
}

func c13ImplS(z0 int64, ops []int64) []int64 {
	var zv listz.SList[int]
	l := &zv
	if z0 == 0 {
		l = listz.NewSingly[int]()
	}
	heldS := l.All() // an All() sequence obtained EARLIER than it is walked
	var nodes []*listz.SNode[int]
	nid := map[*listz.SNode[int]]int{}
	reg := func(n *listz.SNode[int]) int {
		id := len(nodes) + 2
		nodes = append(nodes, n)
		if n != nil {
			nid[n] = id
		}
		return id
	}
	id := func(n *listz.SNode[int]) int64 {
		if n == nil {
			return -1
		}
		if i, ok := nid[n]; ok {
			return int64(i)
		}
		return -2
	}
	out := []int64{}
	var fusedAll []int64
	for i := 0; i+3 < len(ops); i += 4 {
		code, a, b := ops[i], ops[i+2], ops[i+3]
		node := func(x int64) (*listz.SNode[int], bool) {
			if x < 2 || int(x-2) >= len(nodes) {
				return nil, false
			}
			return nodes[x-2], true
		}
		switch code {
		case 0:
			out = append(out, int64(l.Len()))
		case 1:
			out = append(out, id(l.Front()))
		case 2:
			out = append(out, id(l.Back()))
		case 3:
			out = append(out, id(l.Get(int(a))))
		case 4:
			out = append(out, id(l.Remove(int(a))))
		case 5:
			out = append(out, id(l.RemoveFront()))
		case 6:
			l.PushFront(int(a))
			reg(l.Front())
		case 7:
			// PushBack immediately followed by an unbounded All(): in every other such pair the push is made from INSIDE the walk,
			// while it visits the last node (the work-queue idiom: range over the list, append work while processing the
			// tail).  The walk follows the live links, so it must end with the pushed value, exactly what All() after the
			// push yields; the All op that follows is answered with this walk.
			if i+7 < len(ops) && ops[i+4] == 16 && ops[i+6] == 0 && (i/4)%2 == 0 && l.Len() > 0 {
				n0 := l.Len()
				var w []int64
				for v := range l.All() {
					w = append(w, int64(v))
					if len(w) == n0 {
						l.PushBack(int(a))
						reg(l.Back())
					}
					if len(w) >= c13MaxWalk {
						return []int64{HANG}
					}
				}
				fusedAll = w
				break
			}
			l.PushBack(int(a))
			reg(l.Back())
		case 8:
			n := l.Len()
			l.InsertAt(int(a), int(b))
			switch {
			case a <= 0:
				reg(l.Front())
			case int(a) >= n:
				reg(l.Back())
			default:
				reg(l.Get(int(a)))
			}
		case 9, 10:
			n, ok := node(a)
			if !ok {
				return []int64{BADCASE}
			}
			if code == 9 {
				l.PushFrontNode(n)
			} else {
				l.PushBackNode(n)
			}
		case 11:
			n, ok := node(b)
			if !ok {
				return []int64{BADCASE}
			}
			l.InsertNodeAt(int(a), n)
		case 12:
			l.Swap(int(a), int(b))
		case 13:
			n, ok := node(a)
			if !ok {
				return []int64{BADCASE}
			}
			out = append(out, id(n.Next()))
		case 14:
			n, ok := node(a)
			if !ok {
				return []int64{BADCASE}
			}
			out = append(out, int64(n.Value))
		case 15:
			var w []int64
			cnt := 0
			for n := l.Front(); n != nil && cnt < c13MaxWalk; n = n.Next() {
				w = append(w, id(n), int64(n.Value))
				cnt++
			}
			if cnt >= c13MaxWalk {
				return []int64{HANG}
			}
			out = append(out, PutList(w)...)
		case 16:
			if fusedAll != nil {
				out = append(out, PutList(fusedAll)...)
				fusedAll = nil
				heldS = l.All()
				break
			}
			var w []int64
			seqS := l.All()
			if (i/4)%2 == 0 {
				seqS = heldS
			}
			heldS = l.All()
			for v := range seqS {
				w = append(w, int64(v))
				if (a > 0 && int64(len(w)) >= a) || len(w) >= c13MaxWalk {
					break
				}
				if len(w) == 1+(i/4)%3 && (i/4)%5 < 3 {
					// the SAME sequence value walked again while this walk is under way (nested range, two iter.Pull
					// cursors): runs of one Seq are independent, the outer walk must go on where it was
					k := 0
					for range seqS {
						if k++; k >= 1+(i/4)%4 && (i/4)%2 == 1 || k >= c13MaxWalk {
							break
						}
					}
				}
			}
			if len(w) >= c13MaxWalk {
				return []int64{HANG}
			}
			out = append(out, PutList(w)...)
		case 17:
			out = append(out, int64(reg(&listz.SNode[int]{Value: int(a)})))
		default:
			return []int64{BADCASE}
		}
	}
	return out
}

func c13Impl(in []int64) []int64 {
	if len(in) < 3 {
		return []int64{BADCASE}
	}
	switch in[0] {
	case 0:
		return c13ImplD(in[1], in[2], in[3:])
	case 1:
		return c13ImplS(in[1], in[3:])
	}
	return []int64{BADCASE}
}

// ---------------------------------------------------------------- generator-side bookkeeping (which id is where)
type c13Abs struct {
	seq   [2][]int
	fresh int
}

func (a *c13Abs) clone() *c13Abs {
	b := &c13Abs{fresh: a.fresh}
	b.seq[0] = append([]int{}, a.seq[0]...)
	b.seq[1] = append([]int{}, a.seq[1]...)
	return b
}
func c13Idx(s []int, x int) int {
	for i, y := range s {
		if y == x {
			return i
		}
	}
	return -1
}
func (a *c13Abs) where(x int) int {
	for L := 0; L < 2; L++ {
		if c13Idx(a.seq[L], x) >= 0 {
			return L
		}
	}
	return -1
}
func (a *c13Abs) detached() []int {
	var d []int
	for x := 2; x < a.fresh; x++ {
		if a.where(x) < 0 {
			d = append(d, x)
		}
	}
	return d
}
func c13Del(s []int, x int) []int {
	i := c13Idx(s, x)
	if i < 0 {
		return s
	}
	return append(append([]int{}, s[:i]...), s[i+1:]...)
}
func c13InsAt(s []int, i int, x int) []int {
	r := append([]int{}, s[:i]...)
	r = append(r, x)
	return append(r, s[i:]...)
}

// apply mirrors the sequence specification (only what the generator needs: membership and order)
func (a *c13Abs) apply(o [4]int64) {
	code, L, x, y := o[0], int(o[1]), int(o[2]), int(o[3])
	switch code {
	case 7:
		a.seq[L] = c13Del(a.seq[L], x)
	case 8:
		a.seq[L] = c13InsAt(a.seq[L], 0, a.fresh)
		a.fresh++
	case 9:
		a.seq[L] = append(a.seq[L], a.fresh)
		a.fresh++
	case 10, 11:
		if i := c13Idx(a.seq[L], y); i >= 0 {
			if code == 11 {
				i++
			}
			a.seq[L] = c13InsAt(a.seq[L], i, a.fresh)
			a.fresh++
		}
	case 12:
		a.seq[L] = c13InsAt(a.seq[L], 0, x)
	case 13:
		a.seq[L] = append(a.seq[L], x)
	case 14, 15:
		if i := c13Idx(a.seq[L], y); i >= 0 {
			if code == 15 {
				i++
			}
			a.seq[L] = c13InsAt(a.seq[L], i, x)
		}
	case 16:
		if c13Idx(a.seq[L], x) >= 0 {
			a.seq[L] = c13InsAt(c13Del(a.seq[L], x), 0, x)
		}
	case 17:
		if c13Idx(a.seq[L], x) >= 0 {
			a.seq[L] = append(c13Del(a.seq[L], x), x)
		}
	case 18, 19:
		if c13Idx(a.seq[L], x) >= 0 && c13Idx(a.seq[L], y) >= 0 && x != y {
			s := c13Del(a.seq[L], x)
			i := c13Idx(s, y)
			if code == 19 {
				i++
			}
			a.seq[L] = c13InsAt(s, i, x)
		}
	case 20:
		k := len(a.seq[x])
		for j := 0; j < k; j++ {
			a.seq[L] = append(a.seq[L], a.fresh)
			a.fresh++
		}
	case 21:
		k := len(a.seq[x])
		for j := 0; j < k; j++ {
			a.seq[L] = c13InsAt(a.seq[L], 0, a.fresh)
			a.fresh++
		}
	case 25:
		a.fresh++
	}
}

// every operation the specification defines in this state, with every handle choice (live here, live in the other
// list, removed, never inserted)
func (a *c13Abs) allOps(withObservers bool) [][4]int64 {
	var ops [][4]int64
	det := a.detached()
	for L := int64(0); L < 2; L++ {
		if len(a.seq[L]) == 0 {
			ops = append(ops, [4]int64{0, L, 0, 0})
		}
		ops = append(ops, [4]int64{8, L, 7, 0}, [4]int64{9, L, 8, 0})
		for x := 2; x < a.fresh; x++ {
			X := int64(x)
			ops = append(ops, [4]int64{7, L, X, 0}, [4]int64{10, L, 5, X}, [4]int64{11, L, 6, X}, [4]int64{16, L, X, 0}, [4]int64{17, L, X, 0})
			for y := 2; y < a.fresh; y++ {
				ops = append(ops, [4]int64{18, L, X, int64(y)}, [4]int64{19, L, X, int64(y)})
			}
			for _, e := range det {
				ops = append(ops, [4]int64{14, L, int64(e), X}, [4]int64{15, L, int64(e), X})
			}
			// a node that is still in a list may be passed when the mark makes the call a no-op
			if a.where(x) >= 0 {
				for y := 2; y < a.fresh; y++ {
					if c13Idx(a.seq[L], y) < 0 {
						ops = append(ops, [4]int64{14, L, X, int64(y)}, [4]int64{15, L, X, int64(y)})
					}
				}
			}
		}
		for _, e := range det {
			ops = append(ops, [4]int64{12, L, int64(e), 0}, [4]int64{13, L, int64(e), 0})
		}
		ops = append(ops, [4]int64{20, L, 0, 0}, [4]int64{20, L, 1, 0}, [4]int64{21, L, 0, 0}, [4]int64{21, L, 1, 0})
	}
	ops = append(ops, [4]int64{25, 0, 9, 0})
	if withObservers {
		for L := int64(0); L < 2; L++ {
			ops = append(ops, [4]int64{1, L, 0, 0}, [4]int64{2, L, 0, 0}, [4]int64{3, L, 0, 0}, [4]int64{22, L, 0, 0}, [4]int64{23, L, 0, 0}, [4]int64{24, L, 2, 0})
		}
	}
	return ops
}

// full observation of both lists and of every handle
func (a *c13Abs) observe() []int64 {
	var l []int64
	for L := int64(0); L < 2; L++ {
		l = append(l, 1, L, 0, 0, 2, L, 0, 0, 3, L, 0, 0, 22, L, 0, 0, 23, L, 0, 0, 24, L, 0, 0, 24, L, 2, 0, 24, L, 1, 0)
	}
	for x := 2; x < a.fresh; x++ {
		l = append(l, 4, 0, int64(x), 0, 5, 0, int64(x), 0, 6, 0, int64(x), 0)
	}
	return l
}

func c13Flat(ops [][4]int64) []int64 {
	var l []int64
	for _, o := range ops {
		l = append(l, o[0], o[1], o[2], o[3])
	}
	return l
}

// setup: list 0 gets na nodes, list 1 nb nodes, then one node of list 0 (if any) is removed and one node is allocated
// without being inserted
func c13Setup(na, nb int) (*c13Abs, [][4]int64) {
	a := &c13Abs{fresh: 2}
	var ops [][4]int64
	do := func(o [4]int64) { ops = append(ops, o); a.apply(o) }
	for i := 0; i < na+1; i++ {
		do([4]int64{9, 0, int64(10 + i), 0})
	}
	for i := 0; i < nb; i++ {
		do([4]int64{9, 1, int64(20 + i), 0})
	}
	// remove the middle-ish node of list 0 -> a removed handle; list 0 keeps na nodes
	do([4]int64{7, 0, int64(a.seq[0][na/2]), 0})
	do([4]int64{25, 0, 30, 0})
	return a, ops
}

func c13DListRandom(r *rand.Rand, n int) (int64, int64, []int64, int) {
	a := &c13Abs{fresh: 2}
	z0, z1 := int64(r.Intn(2)), int64(r.Intn(2))
	var in []int64
	kinds := map[int64]bool{}
	pick := func(L int) int64 { // a handle: mostly live in L, sometimes elsewhere
		if a.fresh == 2 {
			return -1
		}
		x := r.Intn(100)
		switch {
		case x < 60 && len(a.seq[L]) > 0:
			return int64(a.seq[L][r.Intn(len(a.seq[L]))])
		case x < 75 && len(a.seq[1-L]) > 0:
			return int64(a.seq[1-L][r.Intn(len(a.seq[1-L]))])
		case x < 92:
			if d := a.detached(); len(d) > 0 {
				return int64(d[r.Intn(len(d))])
			}
		}
		return int64(2 + r.Intn(a.fresh-2))
	}
	for j := 0; j < n; j++ {
		L := r.Intn(2)
		var o [4]int64
		x := r.Intn(100)
		switch {
		case x < 14:
			o = [4]int64{int64(8 + r.Intn(2)), int64(L), int64(100 + j), 0}
		case x < 26:
			m := pick(L)
			if m < 0 {
				continue
			}
			o = [4]int64{int64(10 + r.Intn(2)), int64(L), int64(100 + j), m}
		case x < 38:
			e := pick(L)
			if e < 0 {
				continue
			}
			o = [4]int64{7, int64(L), e, 0}
		case x < 48:
			e := pick(L)
			if e < 0 {
				continue
			}
			o = [4]int64{int64(16 + r.Intn(2)), int64(L), e, 0}
		case x < 62:
			e, m := pick(L), pick(L)
			if e < 0 {
				continue
			}
			o = [4]int64{int64(18 + r.Intn(2)), int64(L), e, m}
		case x < 72: // node insertion with a detached node (or a new one)
			d := a.detached()
			if len(d) == 0 || r.Intn(4) == 0 {
				o = [4]int64{25, 0, int64(100 + j), 0}
			} else {
				e := int64(d[r.Intn(len(d))])
				c := int64(12 + r.Intn(4))
				m := int64(0)
				if c >= 14 {
					m = pick(L)
				}
				o = [4]int64{c, int64(L), e, m}
			}
		case x < 78:
			if len(a.seq[0])+len(a.seq[1]) > 40 {
				continue
			}
			o = [4]int64{int64(20 + r.Intn(2)), int64(L), int64(r.Intn(2)), 0}
		case x < 80:
			if len(a.seq[L]) != 0 {
				continue
			}
			o = [4]int64{0, int64(L), 0, 0}
		case x < 90:
			o = [4]int64{int64([]int{1, 2, 3, 22, 23, 24}[r.Intn(6)]), int64(L), int64(r.Intn(4)), 0}
		default:
			e := pick(L)
			if e < 0 {
				continue
			}
			o = [4]int64{int64(4 + r.Intn(3)), 0, e, 0}
		}
		in = append(in, o[0], o[1], o[2], o[3])
		a.apply(o)
		kinds[o[0]] = true
	}
	in = append(in, a.observe()...)
	return z0, z1, in, len(kinds)
}

var c13DNames = []string{"Init", "Len", "Front", "Back", "Next", "Prev", "Value", "Remove", "PushFront", "PushBack", "InsertBefore", "InsertAfter",
	"PushFrontNode", "PushBackNode", "InsertNodeBefore", "InsertNodeAfter", "MoveToFront", "MoveToBack", "MoveBefore", "MoveAfter",
	"PushBackDList", "PushFrontDList", "Fwd", "Bwd", "All", "NewNode"}
var c13SNames = []string{"Len", "Front", "Back", "Get", "Remove", "RemoveFront", "PushFront", "PushBack", "InsertAt", "PushFrontNode", "PushBackNode",
	"InsertNodeAt", "Swap", "Next", "Value", "Fwd", "All", "NewNode"}

// ---------------------------------------------------------------- SList generator-side bookkeeping
type c13SAbs struct {
	seq   []int
	fresh int
}

func (a *c13SAbs) clone() *c13SAbs { return &c13SAbs{append([]int{}, a.seq...), a.fresh} }
func (a *c13SAbs) detached() []int {
	var d []int
	for x := 2; x < a.fresh; x++ {
		if c13Idx(a.seq, x) < 0 {
			d = append(d, x)
		}
	}
	return d
}
func (a *c13SAbs) insAt(i int, x int) {
	if i <= 0 {
		a.seq = c13InsAt(a.seq, 0, x)
	} else if i >= len(a.seq) {
		a.seq = append(a.seq, x)
	} else {
		a.seq = c13InsAt(a.seq, i, x)
	}
}
func (a *c13SAbs) apply(o [4]int64) {
	code, x, y := o[0], int(o[2]), int(o[3])
	switch code {
	case 4:
		if x >= 0 && x < len(a.seq) {
			a.seq = append(append([]int{}, a.seq[:x]...), a.seq[x+1:]...)
		}
	case 5:
		if len(a.seq) > 0 {
			a.seq = append([]int{}, a.seq[1:]...)
		}
	case 6:
		a.insAt(0, a.fresh)
		a.fresh++
	case 7:
		a.seq = append(a.seq, a.fresh)
		a.fresh++
	case 8:
		a.insAt(x, a.fresh)
		a.fresh++
	case 9:
		a.insAt(0, x)
	case 10:
		a.seq = append(a.seq, x)
	case 11:
		a.insAt(x, y)
	case 17:
		a.fresh++
	}
}
func (a *c13SAbs) allOps() [][4]int64 {
	n := len(a.seq)
	ops := [][4]int64{{5, 0, 0, 0}, {6, 0, 41, 0}, {7, 0, 42, 0}, {17, 0, 43, 0}}
	// indices in -1..n+1, and indices far outside the range whose LOW 32 (or 16, 8) bits look like a valid index: an index
	// narrowed to a smaller integer type somewhere would accept them
	idxs := []int64{}
	for i := -1; i <= n+1; i++ {
		idxs = append(idxs, int64(i))
	}
	for _, j := range []int64{0, 1, int64(n) - 1} {
		if j >= 0 {
			idxs = append(idxs, 1<<32+j, -(1<<32)+j, 1<<60+j, -(1<<60)+j, 1<<16+j, 1<<8+j, 1<<31+j, -(1<<31)+j)
		}
	}
	for _, I := range idxs {
		ops = append(ops, [4]int64{3, 0, I, 0}, [4]int64{4, 0, I, 0}, [4]int64{8, 0, I, 44})
		for _, e := range a.detached() {
			ops = append(ops, [4]int64{11, 0, I, int64(e)})
		}
		for j := -1; j <= n; j++ {
			ops = append(ops, [4]int64{12, 0, I, int64(j)})
		}
		if I >= 0 && I < int64(n) {
			ops = append(ops, [4]int64{12, 0, I, 1 << 32}, [4]int64{12, 0, I, -(1 << 32)}, [4]int64{12, 0, 1<<32 + 1, I})
		}
	}
	for _, e := range a.detached() {
		ops = append(ops, [4]int64{9, 0, int64(e), 0}, [4]int64{10, 0, int64(e), 0})
	}
	return ops
}
func (a *c13SAbs) observe() []int64 {
	l := []int64{0, 0, 0, 0, 1, 0, 0, 0, 2, 0, 0, 0, 15, 0, 0, 0, 16, 0, 0, 0, 16, 0, 2, 0}
	for i := -1; i <= len(a.seq); i++ {
		l = append(l, 3, 0, int64(i), 0)
	}
	for x := 2; x < a.fresh; x++ {
		l = append(l, 13, 0, int64(x), 0, 14, 0, int64(x), 0)
	}
	return l
}
func c13SSetup(n int) (*c13SAbs, [][4]int64) {
	a := &c13SAbs{fresh: 2}
	var ops [][4]int64
	do := func(o [4]int64) { ops = append(ops, o); a.apply(o) }
	for i := 0; i < n+1; i++ {
		do([4]int64{7, 0, int64(10 + i), 0})
	}
	do([4]int64{4, 0, int64(n / 2), 0}) // a removed handle
	do([4]int64{17, 0, 30, 0})          // a node that was never inserted
	return a, ops
}

func c13Gen(c *Ctx) {
	c13InitFamily(c)
	// ---------------- DList: every defined operation x every handle choice on every small state
	type job struct {
		family string
		in     []int64
		nt     bool
	}
	run := func(jobs []job) {
		c.Each(len(jobs), func(i int, t *T) { t.Try(jobs[i].family, jobs[i].in, jobs[i].nt) })
	}
	var jobs []job
	maxA, maxB := 4, 2
	for na := 0; na <= maxA; na++ {
		for nb := 0; nb <= maxB; nb++ {
			for z := int64(0); z < 4; z++ {
				if z != 0 && z != 3 && (na+nb)%2 == 0 {
					continue // mixed zero/initialised headers on half of the setups
				}
				a0, setup := c13Setup(na, nb)
				for _, o := range a0.allOps(false) {
					a := a0.clone()
					a.apply(o)
					in := append([]int64{0, z & 1, z >> 1}, c13Flat(setup)...)
					in = append(in, o[0], o[1], o[2], o[3])
					in = append(in, a.observe()...)
					jobs = append(jobs, job{fmt.Sprintf("dlist-1op-a%d-b%d", na, nb), in, true})
				}
			}
		}
	}
	run(jobs)
	jobs = nil
	// two operations exhaustively on the smaller states
	a2, b2 := c.N(2, 3), c.N(1, 2)
	for na := 0; na <= a2; na++ {
		for nb := 0; nb <= b2; nb++ {
			a0, setup := c13Setup(na, nb)
			z := int64((na + nb) % 2)
			for _, o1 := range a0.allOps(false) {
				a1 := a0.clone()
				a1.apply(o1)
				for _, o2 := range a1.allOps(false) {
					a := a1.clone()
					a.apply(o2)
					in := append([]int64{0, z, 1 - z}, c13Flat(setup)...)
					in = append(in, o1[0], o1[1], o1[2], o1[3], o2[0], o2[1], o2[2], o2[3])
					in = append(in, a.observe()...)
					jobs = append(jobs, job{fmt.Sprintf("dlist-2op-a%d-b%d", na, nb), in, true})
				}
			}
			run(jobs)
			jobs = nil
		}
	}
	// zero values: every single operation on two untouched lists (zero / initialised in all four combinations)
	for z := int64(0); z < 4; z++ {
		a0 := &c13Abs{fresh: 2}
		ops := a0.allOps(true)
		for _, o1 := range ops {
			a1 := a0.clone()
			a1.apply(o1)
			for _, o2 := range a1.allOps(true) {
				a := a1.clone()
				a.apply(o2)
				in := []int64{0, z & 1, z >> 1, o1[0], o1[1], o1[2], o1[3], o2[0], o2[1], o2[2], o2[3]}
				in = append(in, a.observe()...)
				jobs = append(jobs, job{"dlist-zero-values", in, true})
			}
		}
	}
	run(jobs)
	jobs = nil

	// ---------------- SList: every operation x every index (incl. out of range) on every small state, 1 and 2 (3) deep
	depth := c.N(2, 3)
	for n := 0; n <= 4; n++ {
		a0, setup := c13SSetup(n)
		var rec func(a *c13SAbs, pre []int64, d int)
		rec = func(a *c13SAbs, pre []int64, d int) {
			in := append([]int64{1, int64(n % 2), 0}, c13Flat(setup)...)
			in = append(in, pre...)
			in = append(in, a.observe()...)
			jobs = append(jobs, job{fmt.Sprintf("slist-exhaustive-n%d", n), in, d < depth})
			if d == 0 || (d < depth && n > 2 && depth > 2 && d <= 1) {
				return
			}
			for _, o := range a.allOps() {
				b := a.clone()
				b.apply(o)
				rec(b, append(append([]int64{}, pre...), o[0], o[1], o[2], o[3]), d-1)
			}
		}
		rec(a0, nil, depth)
		run(jobs)
		jobs = nil
	}
	c.SetExhaustive()
	c.Note(fmt.Sprintf("exhaustive part: DList — for every state (list 0 with 0..%d nodes, list 1 with 0..%d nodes, one removed node, one never-inserted node) every operation the specification defines with every handle choice (live, foreign, removed, new), followed by a full observation of both lists and all handles; two such operations in sequence for list 0 <= %d, list 1 <= %d nodes; all pairs of operations on untouched zero-value / initialised lists. SList — sizes 0..4, every operation with every index in -1..n+1 (Swap: all pairs) and every detached node, sequences of %d operations", maxA, maxB, a2, b2, depth))

	// ---------------- long lists copied onto themselves and onto each other (block-wise copying, counted loops)
	sizes := []int{40, 63, 64, 65, 100, 127, 128, 129, 200, 255, 256, 257, 300}
	c.Each(len(sizes)*8, func(i int, t *T) {
		r := t.R
		k := sizes[i/8]
		a := &c13Abs{fresh: 2}
		var in []int64
		put := func(o [4]int64) { in = append(in, o[0], o[1], o[2], o[3]); a.apply(o) }
		for j := 0; j < k; j++ {
			put([4]int64{int64(8 + j%2), 0, int64(100 + j), 0}) // PushFront / PushBack on list 0
		}
		for j, m := 0, []int{0, 1, 3, 70}[(i/2)%4]; j < m; j++ {
			put([4]int64{9, 1, int64(1000 + j), 0})
		}
		L, other := int64(0), int64(0) // self-copy of the long list ...
		switch i % 8 {
		case 2, 3:
			L, other = 1, 0 // ... the long list copied onto the other one
		case 4, 5:
			L, other = 0, 1
		case 6, 7:
			L, other = 1, 1
		}
		put([4]int64{int64(20 + i%2), L, other, 0})
		if r.Intn(2) == 0 {
			put([4]int64{int64(20 + r.Intn(2)), L, other, 0})
		}
		in = append(in, a.observe()...)
		t.Try("dlist-long-copies", append([]int64{0, int64(i % 2), int64((i / 2) % 2)}, in...), true)
	})

	// ---------------- random long sequences
	nr := c.N(4000, 400000)
	c.Each(nr, func(i int, t *T) {
		r := t.R
		if i%3 != 2 {
			n := 10 + r.Intn(60)
			z0, z1, ops, kinds := c13DListRandom(r, n)
			t.Try("dlist-random", append([]int64{0, z0, z1}, ops...), kinds >= 4)
		} else {
			a := &c13SAbs{fresh: 2}
			in := []int64{1, int64(r.Intn(2)), 0}
			n := 10 + r.Intn(60)
			kinds := map[int64]bool{}
			for j := 0; j < n; j++ {
				ln := len(a.seq)
				idx := func() int64 {
					if r.Intn(6) == 0 {
						return int64(r.Intn(ln+4) - 2)
					}
					if ln == 0 {
						return 0
					}
					switch r.Intn(4) {
					case 0:
						return 0
					case 1:
						return int64(ln - 1)
					}
					return int64(r.Intn(ln))
				}
				var o [4]int64
				x := r.Intn(100)
				switch {
				case x < 12:
					o = [4]int64{6, 0, int64(100 + j), 0}
				case x < 24:
					o = [4]int64{7, 0, int64(100 + j), 0}
				case x < 36:
					o = [4]int64{8, 0, idx(), int64(100 + j)}
				case x < 50:
					o = [4]int64{4, 0, idx(), 0}
				case x < 56:
					o = [4]int64{5, 0, 0, 0}
				case x < 68:
					o = [4]int64{12, 0, idx(), idx()}
				case x < 80:
					d := a.detached()
					if len(d) == 0 || r.Intn(5) == 0 {
						o = [4]int64{17, 0, int64(100 + j), 0}
					} else {
						e := int64(d[r.Intn(len(d))])
						switch r.Intn(3) {
						case 0:
							o = [4]int64{9, 0, e, 0}
						case 1:
							o = [4]int64{10, 0, e, 0}
						default:
							o = [4]int64{11, 0, idx(), e}
						}
					}
				case x < 90:
					o = [4]int64{int64([]int{0, 1, 2, 15, 16}[r.Intn(5)]), 0, int64(r.Intn(4)), 0}
				default:
					if a.fresh == 2 {
						continue
					}
					o = [4]int64{int64(13 + r.Intn(2)), 0, int64(2 + r.Intn(a.fresh-2)), 0}
				}
				if o[0] == 3 {
					o[2] = idx()
				}
				in = append(in, o[0], o[1], o[2], o[3])
				a.apply(o)
				kinds[o[0]] = true
			}
			in = append(in, a.observe()...)
			t.Try("slist-random", in, len(kinds) >= 4)
		}
	})
}

// c13Valid: the case stays inside the specification (known handles, Init only of an empty list, node insertion only
// of detached nodes) — used to keep the shrinker from "minimising" a failure into a precondition violation
// Init of a NON-empty DList is outside the sequence specification (the old nodes keep pointing at the list, exactly as in
// container/list) but inside the pointer-level model: such cases are compared with the model (and container/list) only.
func c13InitNonEmpty(in []int64) bool {
	if len(in) < 3 || in[0] != 0 {
		return false
	}
	n := [2]int{}
	for i := 3; i+3 < len(in); i += 4 {
		L := in[i+1]
		if L < 0 || L > 1 {
			return false
		}
		switch in[i] {
		case 8, 9:
			n[L]++
		case 0:
			if n[L] > 0 {
				return true
			}
		case 1, 2, 3, 12, 13, 23, 24:
		default:
			return false // the family below uses pushes, Init, node pushes and observers only
		}
	}
	return false
}

func c13InitFamily(c *Ctx) {
	var cases [][]int64
	obs := func(in []int64, L int64) []int64 {
		return append(in, 1, L, 0, 0, 2, L, 0, 0, 3, L, 0, 0, 23, L, 0, 0, 24, L, 0, 0)
	}
	for n0 := 1; n0 <= 4; n0++ {
		for n1 := 0; n1 <= 2; n1++ {
			for after := 0; after <= 3; after++ {
				for mix := 0; mix < 4; mix++ {
					for z := int64(0); z < 2; z++ {
						in := []int64{0, z, z}
						v := int64(10)
						for j := 0; j < n0; j++ {
							in = append(in, 8+int64((j+mix)%2), 0, v, 0)
							v++
						}
						for j := 0; j < n1; j++ {
							in = append(in, 9, 1, v, 0)
							v++
						}
						in = append(in, 0, 0, 0, 0) // Init of the non-empty list 0
						in = obs(in, 0)
						for j := 0; j < after; j++ {
							in = append(in, 8+int64((j+mix/2)%2), 0, v, 0)
							v++
						}
						if mix%2 == 1 {
							in = append(in, 0, 0, 0, 0)
						}
						in = obs(obs(in, 0), 1)
						cases = append(cases, in)
						// the handles kept from before the Init are free nodes again: pushed as nodes into the same / the other list
						in2 := append([]int64{}, in...)
						in2 = append(in2, 13, 0, 2, 0)
						if n0 >= 2 {
							in2 = append(in2, 12, int64(mix%2), 3, 0)
						}
						in2 = obs(obs(in2, 0), 1)
						cases = append(cases, in2)
					}
				}
			}
		}
	}
	c.Each(len(cases), func(i int, t *T) {
		t.Try("dlist-init-of-a-non-empty-list (model and container/list only)", cases[i], true)
	})
}

func c13Valid(in []int64) bool {
	if len(in) < 3 || (len(in)-3)%4 != 0 {
		return false
	}
	if in[0] == 0 {
		a := &c13Abs{fresh: 2}
		for i := 3; i+3 < len(in); i += 4 {
			o := [4]int64{in[i], in[i+1], in[i+2], in[i+3]}
			if o[1] < 0 || o[1] > 1 || o[0] < 0 || o[0] > 25 {
				return false
			}
			h := func(x int64) bool { return x >= 2 && int(x) < a.fresh }
			det := func(x int64) bool { return a.where(int(x)) < 0 }
			L := int(o[1])
			switch o[0] {
			case 0:
				if len(a.seq[L]) != 0 {
					return false
				}
			case 4, 5, 6, 7, 16, 17:
				if !h(o[2]) {
					return false
				}
			case 10, 11:
				if !h(o[3]) {
					return false
				}
			case 12, 13:
				if !h(o[2]) || !det(o[2]) {
					return false
				}
			case 14, 15:
				if !h(o[2]) || !h(o[3]) || (c13Idx(a.seq[L], int(o[3])) >= 0 && !det(o[2])) {
					return false
				}
			case 18, 19:
				if !h(o[2]) || !h(o[3]) {
					return false
				}
			case 20, 21:
				if o[2] < 0 || o[2] > 1 {
					return false
				}
			case 24:
				if o[2] < 0 {
					return false
				}
			}
			a.apply(o)
		}
		return true
	}
	if in[0] == 1 {
		a := &c13SAbs{fresh: 2}
		for i := 3; i+3 < len(in); i += 4 {
			o := [4]int64{in[i], in[i+1], in[i+2], in[i+3]}
			h := func(x int64) bool { return x >= 2 && int(x) < a.fresh }
			switch o[0] {
			case 9, 10:
				if !h(o[2]) || c13Idx(a.seq, int(o[2])) >= 0 {
					return false
				}
			case 11:
				if !h(o[3]) || c13Idx(a.seq, int(o[3])) >= 0 {
					return false
				}
			case 13, 14:
				if !h(o[2]) {
					return false
				}
			case 16:
				if o[2] < 0 {
					return false
				}
			}
			if o[0] < 0 || o[0] > 17 {
				return false
			}
			a.apply(o)
		}
		return true
	}
	return false
}

func c13Shrink(in []int64) [][]int64 {
	var out [][]int64
	for _, c := range ShrinkOps(3, 4)(in) {
		if c13Valid(c) {
			out = append(out, c)
		}
	}
	return out
}

func c13Describe(in []int64) string {
	if len(in) < 3 {
		return "malformed"
	}
	s := ""
	names := c13DNames
	if in[0] == 0 {
		s = fmt.Sprintf("DList (list0 zero-value=%d, list1 zero-value=%d):", in[1], in[2])
	} else {
		s = "SList:"
		names = c13SNames
	}
	for i := 3; i+3 < len(in); i += 4 {
		n := "?"
		if in[i] >= 0 && int(in[i]) < len(names) {
			n = names[in[i]]
		}
		if in[0] == 0 {
			s += fmt.Sprintf(" l%d.%s(%d,%d)", in[i+1], n, in[i+2], in[i+3])
		} else {
			s += fmt.Sprintf(" %s(%d,%d)", n, in[i+2], in[i+3])
		}
	}
	return s
}

func init() {
	Register(&Prop{ID: "C13", Pure: true, SpecSkip: c13InitNonEmpty, Num: 13, SpecMode: "equal", Gen: c13Gen, Impl: c13Impl,
		Shrink: c13Shrink, Describe: c13Describe,
		Rule: "DList (implementation vs container/list vs model vs sequence specification): every defined operation with every handle choice (live, foreign, removed, never inserted; self-copies) on every state with list 0 <= 4 and list 1 <= 2 nodes, pairs of operations on the smaller states, all pairs on untouched zero-value / initialised lists, random sequences of 10-70 operations; each case ends with a full observation (Len, Front, Back, both traversals, All with early stops, Next/Prev/Value of every handle). SList: sizes 0..4 x every operation x every index in -1..n+1 and indices +-2^8, 2^16, 2^31, 2^32, 2^60 (+j) far outside the range (Swap all pairs) x every detached node, sequences up to the tier's depth; random sequences. distinct = distinct case; non-trivial = exhaustive cases with at least one mutating operation after the setup, random cases with at least 4 operation kinds"})
}
