package main

import (
	"fmt"
	"math/rand"
	"strings"
	"unicode/utf8"

	"github.com/welllog/golib/strz"
	"github.com/welllog/golib/typez"
)

// C07: the backslash escape codecs of strz/enc.go.
// case = [op variant dl n b1..bn]
//   op 0..3  Octal/Hex/Unicode/Utf16 Format   variant 0 Format(string) 1 Format([]byte) 2 FormatToString(string) 3 FormatToString([]byte)
//   op 4..7  ... Parse                         variant 0 Parse(dst, src), len(dst)=cap(dst)=dl   1 ParseToString(string)  2 ParseToString([]byte)
//   op 8..11 Parse(Format(s))                  variant bit 0: format from []byte, bit 1: parse from []byte
// Every []byte handed to the implementation has cap == len, so that an index past the length panics in Go where the
// model says PANIC.

func c07Exact(b []byte) []byte {
	c := make([]byte, len(b))
	copy(c, b)
	return c[:len(b):len(b)]
}

func c07Format(k int, variant int64, b []byte) []byte {
	if len(b)%2 == 1 { // every second input: the defined types
		if variant&1 == 0 {
			return c07FormatG(k, variant&2 != 0, c07Str(b))
		}
		return c07FormatG(k, variant&2 != 0, c07Bytes(c07Exact(b)))
	}
	s := string(b)
	switch k {
	case 0:
		switch variant & 3 {
		case 0:
			return strz.OctalFormat(s)
		case 1:
			return strz.OctalFormat(c07Exact(b))
		case 2:
			return []byte(strz.OctalFormatToString(s))
		default:
			return []byte(strz.OctalFormatToString(c07Exact(b)))
		}
	case 1:
		switch variant & 3 {
		case 0:
			return strz.HexFormat(s)
		case 1:
			return strz.HexFormat(c07Exact(b))
		case 2:
			return []byte(strz.HexFormatToString(s))
		default:
			return []byte(strz.HexFormatToString(c07Exact(b)))
		}
	case 2:
		switch variant & 3 {
		case 0:
			return strz.UnicodeFormat(s)
		case 1:
			return strz.UnicodeFormat(c07Exact(b))
		case 2:
			return []byte(strz.UnicodeFormatToString(s))
		default:
			return []byte(strz.UnicodeFormatToString(c07Exact(b)))
		}
	default:
		switch variant & 3 {
		case 0:
			return strz.Utf16Format(s)
		case 1:
			return strz.Utf16Format(c07Exact(b))
		case 2:
			return []byte(strz.Utf16FormatToString(s))
		default:
			return []byte(strz.Utf16FormatToString(c07Exact(b)))
		}
	}
}

// defined types over string / []byte: typez.StrOrBytes is ~string | ~[]byte, so json.RawMessage, template.HTML or a
// caller's own `type Line string` are legal type arguments and must behave like the underlying type
type c07Str string
type c07Bytes []byte

func c07FormatG[T typez.StrOrBytes](k int, toString bool, s T) []byte {
	if toString {
		switch k {
		case 0:
			return []byte(strz.OctalFormatToString(s))
		case 1:
			return []byte(strz.HexFormatToString(s))
		case 2:
			return []byte(strz.UnicodeFormatToString(s))
		default:
			return []byte(strz.Utf16FormatToString(s))
		}
	}
	switch k {
	case 0:
		return strz.OctalFormat(s)
	case 1:
		return strz.HexFormat(s)
	case 2:
		return strz.UnicodeFormat(s)
	default:
		return strz.Utf16Format(s)
	}
}

func c07ParseToStringG[T typez.StrOrBytes](k int, s T) string {
	switch k {
	case 0:
		return strz.OctalParseToString(s)
	case 1:
		return strz.HexParseToString(s)
	case 2:
		return strz.UnicodeParseToString(s)
	default:
		return strz.Utf16ParseToString(s)
	}
}

func c07Parse(k int, variant int64, dl int, b []byte) []byte {
	if len(b)%2 == 1 && variant == 1 { // every second input: a defined string type
		return []byte(c07ParseToStringG(k, c07Str(b)))
	}
	if len(b)%2 == 1 && variant == 2 { // a defined byte-slice type, overwritten before the result is read
		src := c07Bytes(c07Exact(b))
		res := c07ParseToStringG(k, src)
		for i := range src {
			src[i] = '#'
		}
		return []byte(res)
	}
	switch variant {
	case 0:
		dst := make([]byte, dl)[:dl:dl]
		src := c07Exact(b)
		var n int
		switch k {
		case 0:
			n = strz.OctalParse(dst, src)
		case 1:
			n = strz.HexParse(dst, src)
		case 2:
			n = strz.UnicodeParse(dst, src)
		default:
			n = strz.Utf16Parse(dst, src)
		}
		return dst[:n]
	case 1:
		s := string(b)
		switch k {
		case 0:
			return []byte(strz.OctalParseToString(s))
		case 1:
			return []byte(strz.HexParseToString(s))
		case 2:
			return []byte(strz.UnicodeParseToString(s))
		default:
			return []byte(strz.Utf16ParseToString(s))
		}
	default:
		// the returned string is read only after the caller has overwritten the byte slice it passed in: the result must not
		// be a view of the argument (not even when nothing was decoded and the two are equal)
		src := c07Exact(b)
		var res string
		switch k {
		case 0:
			res = strz.OctalParseToString(src)
		case 1:
			res = strz.HexParseToString(src)
		case 2:
			res = strz.UnicodeParseToString(src)
		default:
			res = strz.Utf16ParseToString(src)
		}
		for i := range src {
			src[i] = '#'
		}
		return []byte(res)
	}
}

func c07Impl(in []int64) []int64 {
	if len(in) < 4 {
		return []int64{BADCASE}
	}
	op, variant, dl, n := int(in[0]), in[1], int(in[2]), int(in[3])
	if n < 0 || n > len(in)-4 {
		n = len(in) - 4
	}
	b := ToBytes(in[4 : 4+n])
	switch {
	case op < 4:
		return Bytes(c07Format(op, variant, b))
	case op < 8:
		return Bytes(c07Parse(op-4, variant, dl, b))
	default:
		k := op - 8
		e := c07Format(k, 2+(variant&1), b)
		return Bytes(c07Parse(k, 1+((variant>>1)&1), 0, e))
	}
}

func c07Case(op int, variant int64, dl int, b []byte) []int64 {
	in := []int64{int64(op), variant, int64(dl), int64(len(b))}
	return append(in, Bytes(b)...)
}

var c07Names = []string{"OctalFormat", "HexFormat", "UnicodeFormat", "Utf16Format", "OctalParse", "HexParse", "UnicodeParse", "Utf16Parse",
	"OctalParse∘OctalFormat", "HexParse∘HexFormat", "UnicodeParse∘UnicodeFormat", "Utf16Parse∘Utf16Format"}

// ---------------------------------------------------------------- generators

var c07W = []int{4, 4, 10, 6}
var c07Prefix = []string{"\\", "\\x", "\\U", "\\u"}

// the two 6-symbol alphabets of each codec for the exhaustive part: single characters, and tokens that let five
// symbols build complete, truncated, out-of-range and adjacent escapes of the wider codecs
var c07Alpha = [4][2][]string{
	{{"\\", "0", "1", "7", "8", "a"}, {"\\101", "\\7", "\\", "10", "777", "x"}},
	{{"\\", "x", "4", "a", "F", "g"}, {"\\x41", "\\x", "\\", "4", "fF", "g"}},
	{{"\\U", "0000", "0041", "0011", "g", "\\"}, {"\\U0001F600", "\\U0000D800", "\\U", "00", "FFFFFF", "é"}},
	{{"\\u", "D83D", "DE00", "0041", "g", "\\"}, {"\\uD83D", "\\uDE00", "\\u0041", "\\u00", "\\", "é"}},
}

const c07HexDigits = "0123456789abcdefABCDEF"

// characters at the edges of the digit classes of parseUint ('0'-1, '9'+1, 'A'-1, 'F'+1, 'Z', 'Z'+1, 'a'-1, 'f'+1, 'z', 'z'+1)
var c07Edge = []byte{'/', ':', '@', 'G', 'Z', '[', '`', 'g', 'z', '{', ' ', 0x00, 0x80, 0xff, 0x11, 0xc1}

func c07Digits(r *rand.Rand, k, n int) string {
	var sb strings.Builder
	for i := 0; i < n; i++ {
		if k == 0 {
			sb.WriteByte(byte('0' + r.Intn(8)))
		} else {
			sb.WriteByte(c07HexDigits[r.Intn(len(c07HexDigits))])
		}
	}
	return sb.String()
}

func c07Hex(v uint32, w int, r *rand.Rand) string {
	s := fmt.Sprintf("%0*X", w, v)
	if r != nil && r.Intn(3) == 0 {
		s = strings.ToLower(s)
	} else if r != nil && r.Intn(4) == 0 {
		b := []byte(s)
		for i := range b {
			if r.Intn(2) == 0 {
				b[i] = strings.ToLower(string(b[i]))[0]
			}
		}
		s = string(b)
	}
	return s
}

var c07Runes = []rune{0, 1, 0x41, 0x5c, 0x7f, 0x80, 0xe9, 0x7ff, 0x800, 0x4e2d, 0xd7ff, 0xe000, 0xfffd, 0xffff, 0x10000, 0x1f600, 0x10ffff}

func c07Rune(r *rand.Rand) rune {
	switch r.Intn(6) {
	case 0:
		return c07Runes[r.Intn(len(c07Runes))]
	case 1:
		return rune(r.Intn(0x80))
	case 2:
		return rune(0x80 + r.Intn(0x780))
	case 3:
		x := rune(0x800 + r.Intn(0xf800))
		if x >= 0xd800 && x < 0xe000 {
			x -= 0x800
		}
		return x
	default:
		return rune(0x10000 + r.Intn(0x100000))
	}
}

// one well-formed escape of codec k
func c07Valid(r *rand.Rand, k int) string {
	switch k {
	case 0:
		return fmt.Sprintf("\\%03o", r.Intn(256))
	case 1:
		return "\\x" + c07Hex(uint32(r.Intn(256)), 2, r)
	case 2:
		return "\\U" + c07Hex(uint32(c07Rune(r)), 8, r)
	default:
		c := c07Rune(r)
		if c >= 0x10000 {
			c -= 0x10000
			return "\\u" + c07Hex(uint32(0xd800+(c>>10)), 4, r) + "\\u" + c07Hex(uint32(0xdc00+(c&0x3ff)), 4, r)
		}
		return "\\u" + c07Hex(uint32(c), 4, r)
	}
}

// a piece of the malformed stream of codec k
func c07Piece(r *rand.Rand, k int) (string, string) {
	w := c07W[k]
	pre := c07Prefix[k]
	nd := w - len(pre)
	switch x := r.Intn(100); {
	case x < 22:
		return c07Valid(r, k), "valid"
	case x < 30: // truncated
		e := c07Valid(r, k)
		return e[:r.Intn(len(e))], "truncated"
	case x < 42: // a bad digit somewhere
		e := []byte(pre + c07Digits(r, k, nd))
		p := len(pre) + r.Intn(nd)
		if r.Intn(2) == 0 {
			e[p] = c07Edge[r.Intn(len(c07Edge))]
		} else if k == 0 {
			e[p] = "89afAF\\"[r.Intn(7)]
		} else {
			e[p] = "gGzZ\\xuU"[r.Intn(8)]
		}
		return string(e), "bad-digit"
	case x < 52: // out of range / boundary values
		switch k {
		case 0:
			return []string{"\\777", "\\400", "\\377", "\\378", "\\000", "\\477", "\\3777"}[r.Intn(7)], "range"
		case 1:
			return []string{"\\xFF", "\\xff", "\\x00", "\\xfg", "\\x7F", "\\x80", "\\X41"}[r.Intn(7)], "range"
		case 2:
			return []string{"\\U00110000", "\\U0010FFFF", "\\UFFFFFFFF", "\\U0000D800", "\\U0000DFFF", "\\U0000D7FF", "\\U0000E000",
				"\\U0000007F", "\\U00000080", "\\U000007FF", "\\U00000800", "\\U0000FFFF", "\\U00010000", "\\U80000000", "\\U00000000", "\\u00000041"}[r.Intn(16)], "range"
		default:
			return []string{"\\uD800", "\\uDBFF", "\\uDC00", "\\uDFFF", "\\uD7FF", "\\uE000", "\\uFFFF", "\\u0000", "\\u007F", "\\u0080", "\\u07FF", "\\u0800", "\\U0041"}[r.Intn(13)], "range"
		}
	case x < 62: // surrogate games (utf16), other codecs: adjacent escapes
		if k == 3 {
			hi := "\\u" + c07Hex(uint32(0xd800+r.Intn(0x400)), 4, r)
			lo := "\\u" + c07Hex(uint32(0xdc00+r.Intn(0x400)), 4, r)
			bmp := "\\u" + c07Hex(uint32(r.Intn(0xd800)), 4, r)
			switch r.Intn(12) {
			case 10:
				return hi + "\\" + bmp, "high-backslash-bmp"
			case 11:
				return hi + "q" + bmp, "high-text-bmp"
			case 0:
				return hi, "lone-high"
			case 1:
				return lo, "lone-low"
			case 2:
				return lo + hi, "reversed"
			case 3:
				return hi + hi + lo, "high-high-low"
			case 4:
				return hi + bmp, "high-bmp"
			case 5:
				return hi + "q" + lo, "high-text-low"
			case 6:
				return hi + lo[:1+r.Intn(5)], "high-truncated-low"
			case 7:
				return hi + "\\" + lo, "high-backslash-low"
			case 8:
				return hi + "\\u" + c07Digits(r, 3, 3) + "g", "high-bad-second"
			default:
				return hi + lo + lo, "pair-low"
			}
		}
		return c07Valid(r, k) + c07Valid(r, k) + c07Valid(r, k), "adjacent"
	case x < 70:
		return []string{"\\", "\\\\", pre, pre + pre, "\\\\" + pre[1:], "x", "u", "U", "\\x", "\\u", "\\U"}[r.Intn(11)], "prefix-bits"
	case x < 84:
		n := 1 + r.Intn(6)
		b := make([]byte, n)
		for i := range b {
			b[i] = "abcXYZ 019._-"[r.Intn(13)]
		}
		return string(b), "text"
	case x < 92:
		return string(c07Rune(r)), "utf8"
	default:
		return string([]byte{byte(0x80 + r.Intn(0x80))}), "raw-byte"
	}
}

func c07Stream(r *rand.Rand, k int, maxPieces int) ([]byte, map[string]bool) {
	kinds := map[string]bool{}
	var sb strings.Builder
	n := 1 + r.Intn(maxPieces)
	limit := 220
	if maxPieces > 10 {
		limit = 9000
	}
	for i := 0; i < n && sb.Len() < limit; i++ {
		p, kind := c07Piece(r, k)
		sb.WriteString(p)
		kinds[kind] = true
	}
	return []byte(sb.String()), kinds
}

// byte strings for Format and the round trip
func c07Text(r *rand.Rand) ([]byte, string) { return c07TextN(r, r.Intn(40)) }
func c07TextN(r *rand.Rand, n int) ([]byte, string) {
	switch r.Intn(5) {
	case 0: // arbitrary bytes
		b := make([]byte, n)
		for i := range b {
			b[i] = byte(r.Intn(256))
		}
		return b, "random-bytes"
	case 1, 2: // valid UTF-8, all four widths
		var sb strings.Builder
		for i := 0; i < n; i++ {
			sb.WriteRune(c07Rune(r))
		}
		return []byte(sb.String()), "valid-utf8"
	case 3: // valid UTF-8 with damage: surrogate encodings, overlongs, > MaxRune, truncated sequences, lone continuation bytes
		var b []byte
		for i := 0; i < n; i++ {
			switch r.Intn(8) {
			case 0:
				b = append(b, [][]byte{{0xed, 0xa0, 0x80}, {0xed, 0xbf, 0xbf}, {0xc0, 0x80}, {0xc1, 0xbf}, {0xe0, 0x9f, 0xbf}, {0xf0, 0x8f, 0xbf, 0xbf},
					{0xf4, 0x90, 0x80, 0x80}, {0xf5, 0x80, 0x80, 0x80}, {0xef, 0xbf, 0xbd}, {0x80}, {0xbf}, {0xff}, {0xfe}}[r.Intn(13)]...)
			case 1:
				e := []byte(string(c07Rune(r)))
				b = append(b, e[:r.Intn(len(e)+1)]...)
			default:
				b = utf8.AppendRune(b, c07Rune(r))
			}
		}
		return b, "damaged-utf8"
	default: // escapes as text: Format of something that looks like an escape
		s, _ := c07Stream(r, r.Intn(4), 4)
		return s, "escape-text"
	}
}

func c07Gen(c *Ctx) {
	// ---- exhaustive small scope: every sequence of at most L symbols over each codec's two 6-symbol alphabets
	L := c.N(5, 7)
	sizes := []int{1}
	tot := 1
	all := 1
	for l := 1; l <= L; l++ {
		tot *= 6
		sizes = append(sizes, tot)
		all += tot
	}
	for k := 0; k < 4; k++ {
		for a := 0; a < 2; a++ {
			k, a := k, a
			al := c07Alpha[k][a]
			c.Each(all, func(i int, t *T) {
				idx := i
				l := 0
				for i >= sizes[l] {
					i -= sizes[l]
					l++
				}
				var sb strings.Builder
				for j := 0; j < l; j++ {
					sb.WriteString(al[i%6])
					i /= 6
				}
				b := []byte(sb.String())
				variant := int64(idx % 3)
				in := c07Case(4+k, variant, len(b), b)
				t.Try(fmt.Sprintf("exhaustive-%s-alphabet%d", c07Names[4+k], a), in, len(b) >= c07W[k] && strings.Contains(sb.String(), "\\"))
			})
		}
	}
	c.SetExhaustive()
	c.Note(fmt.Sprintf("exhaustive part: for each of the four parsers, every sequence of at most %d symbols over two 6-symbol alphabets (%v), entry point rotating over Parse(dst,src) / ParseToString(string) / ParseToString([]byte)", L, c07Alpha))

	// ---- every escape value once (octal, hex: all 256 bytes in upper and lower case)
	c.Each(256, func(i int, t *T) {
		for k := 0; k < 2; k++ {
			var e string
			if k == 0 {
				e = fmt.Sprintf("\\%03o", i)
			} else {
				e = fmt.Sprintf("\\x%02X", i)
			}
			t.Try("all-byte-values", c07Case(4+k, 1, 0, []byte(e)), true)
			if k == 1 {
				t.Try("all-byte-values", c07Case(4+k, 2, 0, []byte(strings.ToLower(e))), true)
			}
			t.Try("all-byte-values", c07Case(k, int64(i&3), 0, []byte{byte(i)}), true)
			t.Try("all-byte-values", c07Case(8+k, int64(i&3), 0, []byte{byte(i), byte(255 - i)}), true)
		}
	})

	// ---- every sequence of at most three \u escapes over the code units at the edges of the surrogate ranges, bare and
	// with a separator (text, a backslash) between them; the same units as \U escapes for UnicodeParse
	{
		units := []uint32{0xd7ff, 0xd800, 0xdbff, 0xdc00, 0xdfff, 0xe000}
		seps := []string{"", "q", "\\"}
		var seqs [][]uint32
		for _, a := range units {
			seqs = append(seqs, []uint32{a})
			for _, b := range units {
				seqs = append(seqs, []uint32{a, b})
				for _, d := range units {
					seqs = append(seqs, []uint32{a, b, d})
				}
			}
		}
		c.Each(len(seqs)*len(seps), func(i int, t *T) {
			sq := seqs[i/len(seps)]
			sep := seps[i%len(seps)]
			var u16, u32 []string
			for _, u := range sq {
				u16 = append(u16, fmt.Sprintf("\\u%04X", u))
				u32 = append(u32, fmt.Sprintf("\\U%08X", u))
			}
			t.Try("surrogate-boundaries", c07Case(7, int64(i%3), len(strings.Join(u16, sep)), []byte(strings.Join(u16, sep))), true)
			t.Try("surrogate-boundaries", c07Case(6, int64(i%3), len(strings.Join(u32, sep)), []byte(strings.Join(u32, sep))), true)
		})
	}

	// ---- parsers on the grammar-based malformed stream, cut at every distance from the end
	n := c.N(30000, 600000)
	c.Each(n, func(i int, t *T) {
		r := t.R
		k := i % 4
		mp := 7
		if i%400 == 11 { // long inputs: output buffers sized from the input, scratch arrays, growth
			mp = []int{40, 150, 400}[r.Intn(3)]
			t.C.Count("long-inputs", "parser stream")
		}
		b, kinds := c07Stream(r, k, mp)
		variant := int64(r.Intn(3))
		fam := "stream-" + c07Names[4+k]
		for kind := range kinds {
			t.C.Count("piece", kind)
		}
		nontriv := func(b []byte) bool { return len(b) >= c07W[k] && strings.IndexByte(string(b), '\\') >= 0 }
		dl := len(b)
		if variant == 0 {
			switch r.Intn(10) {
			case 0:
				dl = r.Intn(len(b) + 1) // a destination that is too short: copy truncates, writes may panic
				fam += "-short-dst"
			case 1:
				dl = len(b) + 1 + r.Intn(8)
				fam += "-long-dst"
			}
		}
		t.Try(fam, c07Case(4+k, variant, dl, b), nontriv(b))
		if i%5 == 0 { // the same input with the last escape cut at every distance from the end
			for cut := 1; cut <= c07W[k]+2 && cut <= len(b); cut++ {
				bb := b[:len(b)-cut]
				t.Try("truncated-"+c07Names[4+k], c07Case(4+k, int64((i+cut)%3), len(bb), bb), nontriv(bb))
			}
		}
	})

	// ---- Format and the round trip
	m := c.N(16000, 300000)
	c.Each(m, func(i int, t *T) {
		r := t.R
		k := i % 4
		b, kind := c07Text(r)
		if i%400 == 13 {
			b, kind = c07TextN(r, 50+r.Intn([]int{100, 400, 1500}[r.Intn(3)]))
			t.C.Count("long-inputs", "format text")
		}
		t.C.Count("text", kind)
		v := int64(r.Intn(4))
		nt := len(b) >= 2
		t.Try("format-"+c07Names[k], c07Case(k, v, 0, b), nt)
		t.Try("roundtrip-"+c07Names[8+k], c07Case(8+k, v, 0, b), nt)
	})

	// ---- thorough: every code point through the Unicode and UTF-16 round trips
	if !c.Quick() {
		c.Each(0x110000/64, func(i int, t *T) {
			var b []byte
			for j := 0; j < 64; j++ {
				cp := rune(i*64 + j)
				if cp >= 0xd800 && cp < 0xe000 {
					// not a scalar value: its three-byte pattern is invalid UTF-8 and must come back as U+FFFD U+FFFD U+FFFD
					b = append(b, 0xed, byte(0x80|(cp>>6)&0x3f), byte(0x80|cp&0x3f))
					continue
				}
				b = utf8.AppendRune(b, cp)
			}
			t.Try("all-code-points", c07Case(10, int64(i&3), 0, b), true)
			t.Try("all-code-points", c07Case(11, int64(i&3), 0, b), true)
		})
		c.Note("thorough: all 0x110000 code points (64 per case) through UnicodeParse∘UnicodeFormat and Utf16Parse∘Utf16Format")
	}
}

func c07Describe(in []int64) string {
	if len(in) < 4 {
		return "malformed case"
	}
	op := int(in[0]) % 12
	b := ToBytes(in[4:])
	s := fmt.Sprintf("%s variant=%d", c07Names[op], in[1])
	if op >= 4 && op < 8 && in[1] == 0 {
		s += fmt.Sprintf(" len(dst)=%d", in[2])
	}
	return s + fmt.Sprintf(" arg=%q", string(b))
}

// shrink: drop runs of bytes / single bytes; keep op and variant; dl follows the length unless it was different on purpose
func c07Shrink(in []int64) [][]int64 {
	if len(in) < 4 {
		return nil
	}
	b := in[4:]
	n := len(b)
	var out [][]int64
	mk := func(nb []int64) []int64 {
		dl := in[2]
		if in[2] == int64(n) || in[0] < 4 || in[0] >= 8 || in[1] != 0 {
			dl = int64(len(nb))
		}
		c := []int64{in[0], in[1], dl, int64(len(nb))}
		return append(c, nb...)
	}
	for chunk := n / 2; chunk >= 1; chunk /= 2 {
		for s := 0; s+chunk <= n; s += chunk {
			nb := append(append([]int64{}, b[:s]...), b[s+chunk:]...)
			out = append(out, mk(nb))
		}
	}
	if in[0] >= 4 && in[0] < 8 && in[1] == 0 && in[2] > 0 {
		c := append([]int64{}, in...)
		c[2] = in[2] - 1
		out = append(out, c)
	}
	for i := 0; i < n; i++ { // simplify bytes towards 'a' / '0'
		if b[i] != 'a' && b[i] != '\\' && b[i] != '0' {
			nb := append([]int64{}, b...)
			if b[i] >= '0' && b[i] <= '9' {
				nb[i] = '0'
			} else {
				nb[i] = 'a'
			}
			out = append(out, mk(nb))
		}
	}
	return out
}

func init() {
	Register(&Prop{ID: "C07", Pure: true, Num: 7, SpecMode: "equal", Gen: c07Gen, Impl: c07Impl, Shrink: c07Shrink, Describe: c07Describe,
		Rule: "parsers: (a) exhaustive: every sequence of <= 5 (thorough: 7) symbols over two 6-symbol alphabets per codec (characters; tokens building complete / truncated / out-of-range / adjacent escapes); (b) every byte value as an escape in both cases; every sequence of <= 3 escapes over the code units D7FF D800 DBFF DC00 DFFF E000 (bare, text-separated, backslash-separated) for Utf16Parse and UnicodeParse; (c) random concatenations of pieces {well-formed escape with random digit case, truncated escape, escape with one bad digit incl. the characters at the edges of the digit classes, boundary and out-of-range values (\\777, \\400, \\U00110000, \\UFFFFFFFF, \\U0000D800), lone / reversed / unpaired / doubled surrogates, a high surrogate followed by text, a backslash, a damaged or a BMP escape (directly, behind text, behind a backslash), adjacent escapes, bare backslashes and prefixes, text, raw UTF-8, raw bytes >= 0x80}, each fifth input also cut at every distance 1..W+2 from its end; entry points Parse(dst,src) (len(dst) = len(src), longer, or shorter), ParseToString(string), ParseToString([]byte), all slices with cap = len; inputs of odd length go through defined types (type c07Str string, type c07Bytes []byte) in every generic entry point. Format and Parse∘Format: random bytes, valid UTF-8 of all four widths incl. the boundary scalars, damaged UTF-8 (surrogate encodings, overlongs, > U+10FFFF, truncated sequences), escape-looking text; all four entry points. Output compared byte for byte with the model (sub 0) and with the list-level specification (sub 1). distinct = distinct (op, variant, len(dst), argument); non-trivial = parser input of at least one escape width containing a backslash; Format / round-trip argument of at least 2 bytes"})
}
