package main

import (
	"bytes"
	"context"
	"crypto/hmac"
	"crypto/md5"
	"crypto/sha1"
	"crypto/sha256"
	"crypto/sha512"
	"encoding/base64"
	"encoding/hex"
	"errors"
	"fmt"
	"hash"
	"io"
	"math/big"
	"os"
	"regexp"
	"runtime"
	"strconv"
	"strings"
	"sync"
	"sync/atomic"

	"github.com/welllog/golib/hashz"
	"github.com/welllog/golib/strz"
)

// C15: re-implemented standard routines.  case = kind :: a :: b :: put_list(l1) ++ put_list(l2)   (see coq/Run/C15.v)
// Every output ends with three flags: agrees with the standard library; string and []byte instantiations agree;
// input unchanged afterwards.

func c15Case(k, a, b int64, l1, l2 []int64) []int64 {
	in := []int64{k, a, b}
	in = append(in, PutList(l1)...)
	return append(in, PutList(l2)...)
}

var (
	c15reBase = regexp.MustCompile(`invalid base -?\d+$`)
	c15reBits = regexp.MustCompile(`invalid bit size -?\d+$`)
	c15reByte = regexp.MustCompile(`^encoding/hex: invalid byte: U\+([0-9A-F]{4})`)
)

func c15GolibKind(err error) int64 {
	if err == nil {
		return 0
	}
	m := err.Error()
	switch {
	case strings.HasSuffix(m, "invalid syntax"):
		return 1
	case strings.HasSuffix(m, "value out of range"):
		return 2
	case c15reBase.MatchString(m):
		return 3
	case c15reBits.MatchString(m):
		return 4
	}
	return 9
}
func c15StdKind(err error) int64 {
	if err == nil {
		return 0
	}
	switch {
	case errors.Is(err, strconv.ErrSyntax):
		return 1
	case errors.Is(err, strconv.ErrRange):
		return 2
	case strings.Contains(err.Error(), "invalid base"):
		return 3
	case strings.Contains(err.Error(), "invalid bit size"):
		return 4
	}
	return 8
}
func c15HexErr(err error) (int64, int64) {
	if err == nil {
		return 0, 0
	}
	if err == hex.ErrLength {
		return 2, 0
	}
	if m := c15reByte.FindStringSubmatch(err.Error()); m != nil {
		v, _ := strconv.ParseInt(m[1], 16, 32)
		return 1, v
	}
	return 9, 0
}
func c15SameErr(a, b error) bool {
	if (a == nil) != (b == nil) {
		return false
	}
	if a == nil {
		return true
	}
	if (a == hex.ErrLength) != (b == hex.ErrLength) {
		return false
	}
	return a.Error() == b.Error()
}

var c15Encs = []*base64.Encoding{base64.StdEncoding, base64.URLEncoding, base64.RawStdEncoding, base64.RawURLEncoding}

func c15Hash(alg int64) func() hash.Hash {
	switch alg {
	case 0:
		return md5.New
	case 1:
		return sha1.New
	case 2:
		return sha256.New224
	case 3:
		return sha256.New
	case 4:
		return sha512.New384
	case 5:
		return sha512.New
	case 6:
		return sha512.New512_224
	}
	return sha512.New512_256
}

func c15Oracle(q []int64) []int64 {
	switch q[0] {
	case 1:
		h := c15Hash(q[1])()
		h.Write(ToBytes(q[2:]))
		return Bytes(h.Sum(nil))
	case 2:
		kl := int(q[2])
		key, data := ToBytes(q[3:3+kl]), ToBytes(q[3+kl:])
		h := hmac.New(c15Hash(q[1]), key)
		h.Write(data)
		return Bytes(h.Sum(nil))
	case 3:
		enc := c15Encs[q[1]&3]
		return Bytes([]byte(enc.EncodeToString(ToBytes(q[2:]))))
	case 4:
		enc := c15Encs[q[1]&3]
		src := ToBytes(q[2:])
		dst := make([]byte, enc.DecodedLen(len(src)))
		n, err := enc.Decode(dst, src)
		return append([]int64{B(err != nil)}, Bytes(dst[:n])...)
	}
	return nil
}

type c15Reader struct {
	chunks [][]byte
	i      int
	fail   bool
	style  int64
	one    []byte
	err    error
}

var errC15 = errors.New("c15: reader failed")

// the error value a failing reader reports: its identity must not matter (only io.EOF ends a stream normally)
var c15Errs = []error{errC15, io.ErrUnexpectedEOF, io.ErrClosedPipe, io.ErrShortWrite, io.ErrNoProgress, io.ErrShortBuffer,
	fmt.Errorf("wrapped: %w", io.EOF), os.ErrDeadlineExceeded, context.Canceled}

func (r *c15Reader) Read(p []byte) (int, error) {
	if r.style == 2 { // one byte per call
		if len(r.one) > 0 {
			p[0] = r.one[0]
			r.one = r.one[1:]
			return 1, nil
		}
		if r.fail {
			return 0, r.err
		}
		return 0, io.EOF
	}
	if r.i >= len(r.chunks) {
		if r.fail {
			return 0, r.err
		}
		return 0, io.EOF
	}
	c := r.chunks[r.i]
	n := copy(p, c)
	if n < len(c) {
		r.chunks[r.i] = c[n:]
		return n, nil
	}
	r.i++
	if (r.style == 1 || r.style == 3) && r.i == len(r.chunks) && !r.fail {
		return n, io.EOF // data together with EOF
	}
	if r.style == 3 && r.i == len(r.chunks) && r.fail {
		return n, r.err // data together with the error
	}
	return n, nil
}

// named types: the helpers are generic over ~string | ~[]byte, so a defined type must give the same result as the plain one
type c15Str string
type c15Bytes []byte

var c15NamedDigest = []func(s c15Str, b c15Bytes) ([]byte, []byte, string){
	func(s c15Str, b c15Bytes) ([]byte, []byte, string) {
		return hashz.Md5(s), hashz.Md5(b), hashz.Md5ToString(s)
	},
	func(s c15Str, b c15Bytes) ([]byte, []byte, string) {
		return hashz.Sha1(s), hashz.Sha1(b), hashz.Sha1ToString(b)
	},
	func(s c15Str, b c15Bytes) ([]byte, []byte, string) {
		return hashz.Sha224(s), hashz.Sha224(b), hashz.Sha224ToString(s)
	},
	func(s c15Str, b c15Bytes) ([]byte, []byte, string) {
		return hashz.Sha256(s), hashz.Sha256(b), hashz.Sha256ToString(b)
	},
	func(s c15Str, b c15Bytes) ([]byte, []byte, string) {
		return hashz.Sha384(s), hashz.Sha384(b), hashz.Sha384ToString(s)
	},
	func(s c15Str, b c15Bytes) ([]byte, []byte, string) {
		return hashz.Sha512(s), hashz.Sha512(b), hashz.Sha512ToString(b)
	},
	func(s c15Str, b c15Bytes) ([]byte, []byte, string) {
		return hashz.Sha512_224(s), hashz.Sha512_224(b), hashz.Sha512_224ToString(s)
	},
	func(s c15Str, b c15Bytes) ([]byte, []byte, string) {
		return hashz.Sha512_256(s), hashz.Sha512_256(b), hashz.Sha512_256ToString(b)
	},
}

func c15Exact(b []byte) []byte { c := make([]byte, len(b)); copy(c, b); return c[:len(b):len(b)] }

func c15Impl(in []int64) []int64 {
	k, a, b := in[0], in[1], in[2]
	l1i, rest := GetList(in[3:])
	l2i, _ := GetList(rest)
	d1 := ToBytes(l1i)
	d2 := ToBytes(l2i)
	s1 := string(d1)
	b1 := c15Exact(d1)
	flags := func(std, both bool, extra ...[]byte) []int64 {
		un := bytes.Equal(b1, d1) && s1 == string(d1)
		return []int64{B(std), B(both), B(un)}
	}
	switch k {
	case 0:
		v1, e1 := strz.ParseUint(s1, int(a), int(b))
		v2, e2 := strz.ParseUint(b1, int(a), int(b))
		v3, e3 := strconv.ParseUint(s1, int(a), int(b))
		k1, k2, k3 := c15GolibKind(e1), c15GolibKind(e2), c15StdKind(e3)
		out := []int64{k1, int64(v1 >> 32), int64(v1 & 0xffffffff)}
		v4, e4 := strz.ParseUint(c15Str(s1), int(a), int(b))
		v5, e5 := strz.ParseUint(c15Bytes(c15Exact(d1)), int(a), int(b))
		named := v4 == v1 && v5 == v1 && c15GolibKind(e4) == k1 && c15GolibKind(e5) == k1
		return append(out, flags(v1 == v3 && k1 == k3, named && v1 == v2 && k1 == k2)...)
	case 1:
		o1 := strz.HexEncode(s1)
		o2 := strz.HexEncode(b1)
		o3 := strz.HexEncodeToString(s1)
		o4 := strz.HexEncodeToString(b1)
		std := hex.EncodeToString(d1)
		out := PutList(Bytes(o1))
		named := string(strz.HexEncode(c15Str(s1))) == std && strz.HexEncodeToString(c15Bytes(c15Exact(d1))) == std
		return append(out, flags(string(o1) == std, named && string(o2) == std && o3 == std && o4 == std)...)
	case 2:
		o1, e1 := strz.HexDecode(s1)
		o2, e2 := strz.HexDecode(b1)
		o3, e3 := strz.HexDecodeToString(s1)
		o4, e4 := strz.HexDecodeToString(b1)
		so, se := hex.DecodeString(s1)
		ek, eb := c15HexErr(e1)
		out := append(PutList(Bytes(o1)), ek, eb)
		both := bytes.Equal(o1, o2) && string(o1) == o3 && o3 == o4 && c15SameErr(e1, e2) && c15SameErr(e1, e3) && c15SameErr(e1, e4)
		return append(out, flags(bytes.Equal(o1, so) && c15SameErr(e1, se), both)...)
	case 3:
		buf := c15Exact(d1)
		n, e := strz.HexDecodeInPlace(buf)
		dst := make([]byte, len(d1)/2+1)
		sn, se := hex.Decode(dst, c15Exact(d1))
		ek, eb := c15HexErr(e)
		out := append(PutList(Bytes(buf)), int64(n), ek, eb)
		std := n == sn && c15SameErr(e, se) && n <= len(buf) && bytes.Equal(buf[:n], dst[:sn])
		return append(out, B(std), 1, 1)
	case 4:
		var o1, o2 []byte
		var o3, o4 string
		switch a {
		case 0:
			o1, o2, o3, o4 = hashz.Md5(s1), hashz.Md5(b1), hashz.Md5ToString(s1), hashz.Md5ToString(b1)
		case 1:
			o1, o2, o3, o4 = hashz.Sha1(s1), hashz.Sha1(b1), hashz.Sha1ToString(s1), hashz.Sha1ToString(b1)
		case 2:
			o1, o2, o3, o4 = hashz.Sha224(s1), hashz.Sha224(b1), hashz.Sha224ToString(s1), hashz.Sha224ToString(b1)
		case 3:
			o1, o2, o3, o4 = hashz.Sha256(s1), hashz.Sha256(b1), hashz.Sha256ToString(s1), hashz.Sha256ToString(b1)
		case 4:
			o1, o2, o3, o4 = hashz.Sha384(s1), hashz.Sha384(b1), hashz.Sha384ToString(s1), hashz.Sha384ToString(b1)
		case 5:
			o1, o2, o3, o4 = hashz.Sha512(s1), hashz.Sha512(b1), hashz.Sha512ToString(s1), hashz.Sha512ToString(b1)
		case 6:
			o1, o2, o3, o4 = hashz.Sha512_224(s1), hashz.Sha512_224(b1), hashz.Sha512_224ToString(s1), hashz.Sha512_224ToString(b1)
		default:
			o1, o2, o3, o4 = hashz.Sha512_256(s1), hashz.Sha512_256(b1), hashz.Sha512_256ToString(s1), hashz.Sha512_256ToString(b1)
		}
		ai := int(a)
		if ai < 0 || ai > 7 {
			ai = 7
		}
		n1, n2, n3 := c15NamedDigest[ai](c15Str(s1), c15Bytes(c15Exact(d1)))
		named := bytes.Equal(o1, n1) && bytes.Equal(o1, n2) && o3 == n3
		return append(PutList(Bytes(o1)), flags(true, named && bytes.Equal(o1, o2) && string(o1) == o3 && o3 == o4)...)
	case 5:
		h := c15Hash(a)
		s2, b2 := string(d2), c15Exact(d2)
		o1 := hashz.Hmac(s1, s2, h)
		o2 := hashz.Hmac(b1, b2, h)
		o3 := hashz.Hmac(s1, b2, h)
		o4 := hashz.HmacToString(b1, s2, h)
		both := bytes.Equal(o1, o2) && bytes.Equal(o1, o3) && string(o1) == o4
		un := bytes.Equal(b2, d2)
		f := flags(true, both)
		f[2] &= B(un)
		return append(PutList(Bytes(o1)), f...)
	case 6:
		var chunks [][]byte
		data := d1
		for _, sz := range l2i {
			if len(data) == 0 {
				break
			}
			n := int(sz)
			if n > len(data) {
				n = len(data)
			}
			if n < 0 {
				n = 0
			}
			chunks = append(chunks, append([]byte{}, data[:n]...))
			data = data[n:]
		}
		if len(data) > 0 {
			chunks = append(chunks, append([]byte{}, data...))
		}
		r := &c15Reader{chunks: chunks, fail: b&1 != 0, style: (b >> 1) & 3, one: append([]byte{}, d1...), err: c15Errs[int(b>>3)%len(c15Errs)]}
		// without an injected error, three cases in five read from a standard in-memory reader that has already been
		// partly consumed (a header read first, a Seek, a section): the digest is that of the UNREAD rest, whatever
		// Size(), Len() or WriteTo the reader offers
		var rd io.Reader = r
		if b&1 == 0 {
			switch (int64(len(d1)) + (b >> 1)) % 5 {
			case 1:
				sr := strings.NewReader("HDR!" + string(d1))
				_, _ = sr.Read(make([]byte, 4))
				rd = sr
			case 2:
				br := bytes.NewReader(append([]byte("0123456789"), d1...))
				_, _ = br.Seek(10, io.SeekStart)
				rd = br
			case 3:
				sec := io.NewSectionReader(bytes.NewReader(append([]byte("xy"), d1...)), 0, int64(len(d1)+2))
				_, _ = sec.Read(make([]byte, 2))
				rd = sec
			}
		}
		var o []byte
		var err error
		switch a {
		case 0:
			o, err = hashz.Md5Stream(rd)
		case 1:
			o, err = hashz.Sha1Stream(rd)
		case 2:
			o, err = hashz.Sha224Stream(rd)
		case 3:
			o, err = hashz.Sha256Stream(rd)
		case 4:
			o, err = hashz.Sha384Stream(rd)
		default:
			o, err = hashz.Sha512Stream(rd)
		}
		if err != nil {
			return []int64{1, B(err == r.err && o == nil), 1, 1}
		}
		return append(append([]int64{0}, PutList(Bytes(o))...), 1, 1, 1)
	case 7:
		enc := c15Encs[a&3]
		o1 := strz.Base64Encode(s1, enc)
		o2 := strz.Base64Encode(b1, enc)
		o3 := strz.Base64EncodeToString(s1, enc)
		o4 := strz.Base64EncodeToString(b1, enc)
		named := bytes.Equal(o1, strz.Base64Encode(c15Str(s1), enc)) && o3 == strz.Base64EncodeToString(c15Bytes(c15Exact(d1)), enc)
		return append(PutList(Bytes(o1)), flags(true, named && bytes.Equal(o1, o2) && string(o1) == o3 && o3 == o4)...)
	case 8:
		enc := c15Encs[a&3]
		o1, e1 := strz.Base64Decode(s1, enc)
		o2, e2 := strz.Base64Decode(b1, enc)
		o3, e3 := strz.Base64DecodeToString(s1, enc)
		o4, e4 := strz.Base64DecodeToString(b1, enc)
		same := func(x, y error) bool { return (x == nil) == (y == nil) && (x == nil || x.Error() == y.Error()) }
		both := bytes.Equal(o1, o2) && string(o1) == o3 && o3 == o4 && same(e1, e2) && same(e1, e3) && same(e1, e4)
		out := append(PutList(Bytes(o1)), B(e1 != nil))
		return append(out, flags(true, both)...)
	case 9:
		return []int64{int64(strz.IPv4ToLong(s1)), 1, 1, 1}
	case 10:
		s := strz.LongToIPv4(uint32(a))
		out := append(PutList(Bytes([]byte(s))), int64(strz.IPv4ToLong(s)))
		return append(out, 1, 1, 1)
	}
	return []int64{BADCASE}
}

func c15RandCase(r interface{ Intn(int) int }, s string) string {
	b := []byte(s)
	for i := range b {
		if b[i] >= 'a' && b[i] <= 'z' && r.Intn(2) == 0 {
			b[i] -= 32
		}
	}
	return string(b)
}

func c15Gen(c *Ctx) {
	str := func(s string) []int64 { return Bytes([]byte(s)) }
	// ---- ParseUint (a): boundary family for every base 2..36 and bit size 1..64 (and 0)
	type bb struct{ base, bits int }
	var grid []bb
	for base := 2; base <= 36; base++ {
		for bits := 0; bits <= 64; bits++ {
			grid = append(grid, bb{base, bits})
		}
	}
	two64 := new(big.Int).Lsh(big.NewInt(1), 64)
	c.Each(len(grid), func(i int, t *T) {
		g := grid[i]
		eb := g.bits
		if eb == 0 {
			eb = 64
		}
		maxVal := new(big.Int).Sub(new(big.Int).Lsh(big.NewInt(1), uint(eb)), big.NewInt(1))
		cut := new(big.Int).Add(new(big.Int).Div(new(big.Int).Sub(two64, big.NewInt(1)), big.NewInt(int64(g.base))), big.NewInt(1))
		cb := new(big.Int).Mul(cut, big.NewInt(int64(g.base)))
		cands := []*big.Int{
			new(big.Int).Sub(maxVal, big.NewInt(1)), maxVal, new(big.Int).Add(maxVal, big.NewInt(1)),
			new(big.Int).Sub(cb, big.NewInt(1)), cb, new(big.Int).Sub(two64, big.NewInt(1)), two64,
			new(big.Int).Sub(new(big.Int).Mul(new(big.Int).Sub(cut, big.NewInt(1)), big.NewInt(int64(g.base))), big.NewInt(0)), // (cutoff-1)*base: last n that may still take a digit
			new(big.Int).Add(new(big.Int).Mul(new(big.Int).Sub(cut, big.NewInt(1)), big.NewInt(int64(g.base))), big.NewInt(int64(g.base-1))),
			new(big.Int).Add(two64, big.NewInt(int64(t.R.Intn(g.base)))),
		}
		full := t.C.Tier == "thorough" || g.bits == 8 || g.bits == 32 || g.bits >= 63 || g.base == 10 || g.base == 16 || g.base == 36
		for j, v := range cands {
			if !full && t.R.Intn(3) != 0 && j != 1 && j != 2 {
				continue
			}
			s := c15RandCase(t.R, v.Text(g.base))
			if t.R.Intn(3) == 0 {
				s = strings.Repeat("0", 1+t.R.Intn(3)) + s
			}
			t.C.Count("parseuint-boundary", []string{"maxVal-1", "maxVal", "maxVal+1", "cutoff*base-1", "cutoff*base", "2^64-1", "2^64", "(cutoff-1)*base", "(cutoff-1)*base+base-1", "2^64+d"}[j])
			t.Try("parseuint-boundary", c15Case(0, int64(g.base), int64(g.bits), str(s), nil), true)
		}
	})
	// ---- ParseUint (d): every text of length <= L over a small alphabet, several bases
	alpha := []byte("0179afz_xbo+-")
	L := c.N(3, 4)
	tot := 0
	pw := 1
	for l := 0; l <= L; l++ {
		tot += pw
		pw *= len(alpha)
	}
	bases := []int64{0, 2, 8, 10, 16, 36}
	c.Each(tot*len(bases), func(i int, t *T) {
		base := bases[i%len(bases)]
		j := i / len(bases)
		l := 0
		p := 1
		for j >= p {
			j -= p
			p *= len(alpha)
			l++
		}
		s := make([]int64, l)
		for x := 0; x < l; x++ {
			s[x] = int64(alpha[j%len(alpha)])
			j /= len(alpha)
		}
		t.Try(fmt.Sprintf("parseuint-exhaustive-small-base%d", base), c15Case(0, base, 8, s, nil), l >= 1)
	})
	c.Note(fmt.Sprintf("ParseUint: every text of length <= %d over \"0179afz_xbo+-\" for bases 0,2,8,10,16,36 (bit size 8)", L))
	// ---- ParseUint (b) base-0 grammar stream, (c) garbage, odd bases / bit sizes
	c.Each(c.N(30000, 600000), func(i int, t *T) {
		r := t.R
		var s string
		base, bits := int64(0), int64([]int{0, 1, 7, 8, 16, 31, 32, 33, 63, 64}[r.Intn(10)])
		fam := "parseuint-base0-grammar"
		switch x := r.Intn(10); {
		case x < 6:
			pre := []string{"", "0", "0x", "0X", "0o", "0O", "0b", "0B", "0_", "0x_", "00"}[r.Intn(11)]
			digs := "0123456789abcdefABCDEF"
			switch strings.ToLower(pre) {
			case "0b":
				digs = "01"
			case "0o", "0", "0_", "00":
				digs = "01234567"
			case "":
				digs = "0123456789"
			}
			if r.Intn(8) == 0 {
				digs += "89afg"
			}
			n := r.Intn(24)
			var sb strings.Builder
			sb.WriteString(pre)
			for j := 0; j < n; j++ {
				if r.Intn(6) == 0 {
					sb.WriteByte('_')
					if r.Intn(8) == 0 {
						sb.WriteByte('_')
					}
				}
				sb.WriteByte(digs[r.Intn(len(digs))])
			}
			if r.Intn(12) == 0 {
				sb.WriteByte('_')
			}
			s = sb.String()
			if r.Intn(6) == 0 { // the same text under an explicit base: underscores and prefixes are then syntax errors
				base = []int64{2, 8, 10, 16, 36}[r.Intn(5)]
				fam = "parseuint-grammar-text-explicit-base"
			}
		case x < 8:
			n := r.Intn(10)
			bs := make([]byte, n)
			for j := range bs {
				if r.Intn(2) == 0 {
					bs[j] = byte(r.Intn(256))
				} else {
					bs[j] = "0123456789abcxyzABCXYZ_+- \x00\x7f\x80\xff@[`{/:"[r.Intn(34)]
				}
			}
			s = string(bs)
			base = int64(r.Intn(39) - 1)
			bits = int64(r.Intn(67) - 1)
			fam = "parseuint-garbage-any-base-bitsize"
		default:
			base = int64(r.Intn(39) - 1)
			bits = int64(r.Intn(67) - 1)
			b2 := int(base)
			if b2 < 2 || b2 > 36 {
				b2 = 10
			}
			v := new(big.Int).Rand(r, new(big.Int).Lsh(big.NewInt(1), uint(1+r.Intn(70))))
			s = c15RandCase(r, v.Text(b2))
			fam = "parseuint-random-numeral-any-base-bitsize"
		}
		t.C.Count("parseuint-base", fmt.Sprint(base))
		t.Try(fam, c15Case(0, base, bits, str(s), nil), len(s) >= 1)
	})
	// ---- hex: every text of length <= 4 over {0,9,a,f,A,F,g,G,/,:}, for HexDecode and HexDecodeInPlace
	ha := []byte("09afAFgG/:`@")
	HL := c.N(3, 4)
	htot, hp := 0, 1
	for l := 0; l <= HL; l++ {
		htot += hp
		hp *= len(ha)
	}
	c.Each(htot*2, func(i int, t *T) {
		kind := int64(2 + i%2)
		j := i / 2
		l, p := 0, 1
		for j >= p {
			j -= p
			p *= len(ha)
			l++
		}
		s := make([]int64, l)
		for x := 0; x < l; x++ {
			s[x] = int64(ha[j%len(ha)])
			j /= len(ha)
		}
		t.Try(map[int64]string{2: "hexdecode-exhaustive-small", 3: "hexdecode-inplace-exhaustive-small"}[kind], c15Case(kind, 0, 0, s, nil), l >= 1)
	})
	c.Note(fmt.Sprintf("hex: every text of length <= %d over \"09afAFgG/:`@\" for HexDecode and HexDecodeInPlace", HL))
	// ---- hex: every byte value in either position of a two-character text (quick: against three fixed partners;
	//      thorough: all 65 536 two-byte texts): a decoder that folds case or masks bits accepts bytes outside 0-9a-fA-F
	partners := []byte("0aF")
	if !c.Quick() {
		partners = make([]byte, 256)
		for i := range partners {
			partners[i] = byte(i)
		}
	}
	c.Each(256*len(partners)*2*2, func(i int, t *T) {
		kind := int64(2 + i%2)
		first := (i/2)%2 == 0
		j := i / 4
		b, q := int64(j%256), int64(partners[j/256])
		s := []int64{b, q}
		if !first {
			s = []int64{q, b}
		}
		t.Try(map[int64]string{2: "hexdecode-all-bytes", 3: "hexdecode-inplace-all-bytes"}[kind], c15Case(kind, 0, 0, s, nil), true)
	})
	c.Each(c.N(12000, 300000), func(i int, t *T) {
		r := t.R
		n := r.Intn(40)
		data := make([]byte, n)
		r.Read(data)
		switch i % 3 {
		case 0:
			if r.Intn(4) == 0 {
				for j := range data {
					data[j] = []byte{0, 0x0f, 0x10, 0x7f, 0x80, 0xf0, 0xff, 0x9a, 0xa9}[r.Intn(9)]
				}
			}
			t.Try("hexencode-random", c15Case(1, 0, 0, Bytes(data), nil), n >= 1)
		default:
			txt := []byte(c15RandCase(r, hex.EncodeToString(data)))
			fam := "valid"
			if len(txt) > 0 && r.Intn(2) == 0 {
				txt[r.Intn(len(txt))] = "gG/:`@ \x00\xff_x"[r.Intn(11)]
				fam = "one-bad-char"
			}
			if r.Intn(3) == 0 {
				txt = append(txt, "0aFg:"[r.Intn(5)])
				fam += "-odd-length"
			}
			kind := int64(2 + r.Intn(2))
			t.Try(map[int64]string{2: "hexdecode-", 3: "hexdecode-inplace-"}[kind]+fam, c15Case(kind, 0, 0, Bytes(txt), nil), len(txt) >= 1)
		}
	})
	// ---- digests, HMAC, streams, base64
	lens := []int{0, 1, 2, 3, 54, 55, 56, 57, 63, 64, 65, 111, 112, 113, 119, 120, 127, 128, 129, 200}
	c.Each(c.N(6000, 120000), func(i int, t *T) {
		r := t.R
		n := lens[r.Intn(len(lens))]
		if r.Intn(3) == 0 {
			n = r.Intn(300)
		}
		data := make([]byte, n)
		r.Read(data)
		switch i % 5 {
		case 0:
			alg := int64(r.Intn(8))
			t.C.Count("digest-alg", fmt.Sprint(alg))
			t.Try("digest-oneshot", c15Case(4, alg, 0, Bytes(data), nil), true)
		case 1:
			alg := int64([]int{0, 1, 3, 5, 2, 4}[r.Intn(6)])
			kl := []int{0, 1, 16, 63, 64, 65, 128, 129, 200}[r.Intn(9)]
			key := make([]byte, kl)
			r.Read(key)
			t.Try("hmac", c15Case(5, alg, 0, Bytes(key), Bytes(data)), true)
		case 2:
			alg := int64(r.Intn(6))
			var sizes []int64
			for j := 0; j < r.Intn(8); j++ {
				sizes = append(sizes, int64(1+r.Intn(70)))
			}
			b := int64(r.Intn(4)) << 1
			fam := "digest-stream"
			if r.Intn(4) == 0 {
				b |= 1 | int64(r.Intn(len(c15Errs)))<<3
				fam = "digest-stream-reader-error"
				t.C.Count("stream-reader-error", fmt.Sprint(c15Errs[b>>3]))
			}
			t.C.Count("stream-reader-style", []string{"chunks", "last-chunk-with-EOF", "one-byte-reads", "last-chunk-with-EOF-or-error"}[(b>>1)&3])
			t.Try(fam, c15Case(6, alg, b, Bytes(data), sizes), true)
		case 3:
			if r.Intn(2) == 0 {
				data = data[:r.Intn(len(data)+1)%40]
			}
			t.Try("base64-encode", c15Case(7, int64(r.Intn(4)), 0, Bytes(data), nil), len(data) >= 1)
		default:
			if len(data) > 60 {
				data = data[:r.Intn(60)]
			}
			e := int64(r.Intn(4))
			txt := []byte(c15Encs[r.Intn(4)].EncodeToString(data)) // often a different alphabet / padding than the decoder's
			if r.Intn(2) == 0 {
				txt = []byte(c15Encs[e].EncodeToString(data))
			}
			fam := "base64-decode"
			if len(txt) > 0 {
				switch r.Intn(6) {
				case 0:
					txt[r.Intn(len(txt))] = "=-_+/ \n\r!A"[r.Intn(10)]
					fam += "-corrupted"
				case 1:
					txt = txt[:r.Intn(len(txt))]
					fam += "-truncated"
				case 2:
					p := r.Intn(len(txt))
					txt = append(txt[:p:p], append([]byte("\r\n"), txt[p:]...)...)
					fam += "-newline"
				case 3:
					txt = append(txt, '=')
					fam += "-extra-padding"
				}
			}
			t.Try(fam, c15Case(8, e, 0, Bytes(txt), nil), len(txt) >= 1)
		}
	})
	// ---- IPv4
	c.Each(c.N(8000, 200000), func(i int, t *T) {
		r := t.R
		if i%2 == 0 {
			var x uint32
			switch r.Intn(4) {
			case 0:
				x = r.Uint32()
			case 1:
				x = uint32([]uint32{0, 1, 9, 10, 99, 100, 199, 200, 255}[r.Intn(9)])<<uint(8*r.Intn(4)) | uint32(r.Intn(2))*0xff
			case 2:
				for j := 0; j < 4; j++ {
					x = x<<8 | []uint32{0, 9, 10, 99, 100, 255}[r.Intn(6)]
				}
			default:
				x = ^uint32(0) - uint32(r.Intn(3))
			}
			t.Try("ipv4-roundtrip", c15Case(10, int64(x), 0, nil, nil), true)
			return
		}
		parts := r.Intn(7)
		var ps []string
		for j := 0; j < parts; j++ {
			ps = append(ps, []string{"0", "1", "255", "256", "-1", "+7", "", "99999999999", "2147483647", "2147483648", "-2147483649", "1_0", "0x10", "08", "a", " 1", "4294967295", "18446744073709551616", "-0"}[r.Intn(19)])
			if r.Intn(2) == 0 {
				ps[j] = strconv.Itoa(r.Intn(300))
			}
		}
		t.Try("ipv4-tolong-any-text", c15Case(9, 0, 0, str(strings.Join(ps, ".")), nil), parts >= 1)
	})
	// ---- thorough: IPv4ToLong(LongToIPv4(x)) for all 2^32 x, run directly on the implementation
	if !c.Quick() {
		var bad atomic.Int64
		bad.Store(-1)
		var wg sync.WaitGroup
		nw := runtime.NumCPU()
		for w := 0; w < nw; w++ {
			wg.Add(1)
			go func(w int) {
				defer wg.Done()
				for x := uint64(w); x < 1<<32; x += uint64(nw) {
					if strz.IPv4ToLong(strz.LongToIPv4(uint32(x))) != uint32(x) {
						bad.CompareAndSwap(-1, int64(x))
						return
					}
				}
			}(w)
		}
		wg.Wait()
		if v := bad.Load(); v >= 0 {
			c.Each(1, func(i int, t *T) { t.Try("ipv4-roundtrip-all-2^32", c15Case(10, v, 0, nil, nil), true) })
			c.Note(fmt.Sprintf("exhaustive IPv4 sweep of the implementation: FAILED at x = %d", v))
		} else {
			c.Note("exhaustive run of the implementation (not of the model): IPv4ToLong(LongToIPv4(x)) = x for all 2^32 values of x")
		}
	}
}

func c15Shrink(in []int64) [][]int64 {
	if len(in) < 3 {
		return nil
	}
	k, a, b := in[0], in[1], in[2]
	l1, rest := GetList(in[3:])
	l2, _ := GetList(rest)
	var out [][]int64
	for i := range l1 {
		out = append(out, c15Case(k, a, b, append(append([]int64{}, l1[:i]...), l1[i+1:]...), l2))
	}
	for i := range l2 {
		out = append(out, c15Case(k, a, b, l1, append(append([]int64{}, l2[:i]...), l2[i+1:]...)))
	}
	if k == 10 && a > 0 {
		out = append(out, c15Case(k, a/2, b, l1, l2), c15Case(k, a-1, b, l1, l2))
	}
	return out
}

func c15Describe(in []int64) string {
	if len(in) < 3 {
		return "?"
	}
	k, a, b := in[0], in[1], in[2]
	l1, rest := GetList(in[3:])
	l2, _ := GetList(rest)
	s1, s2 := string(ToBytes(l1)), string(ToBytes(l2))
	switch k {
	case 0:
		return fmt.Sprintf("ParseUint(%q, %d, %d) vs model vs strconv.ParseUint", s1, a, b)
	case 1:
		return fmt.Sprintf("HexEncode(%q)", s1)
	case 2:
		return fmt.Sprintf("HexDecode(%q) vs encoding/hex (prefix, error, error text)", s1)
	case 3:
		return fmt.Sprintf("HexDecodeInPlace(%q)", s1)
	case 4:
		return fmt.Sprintf("digest helper #%d of %q", a, s1)
	case 5:
		return fmt.Sprintf("Hmac(key %q, data %q, hash #%d)", s1, s2, a)
	case 6:
		return fmt.Sprintf("stream digest #%d of %q, chunk sizes %v, reader style %d, reader error %v (%v)", a, s1, l2, (b>>1)&3, b&1 != 0, c15Errs[int(b>>3)%len(c15Errs)])
	case 7:
		return fmt.Sprintf("Base64Encode(%q, encoding #%d)", s1, a)
	case 8:
		return fmt.Sprintf("Base64Decode(%q, encoding #%d)", s1, a)
	case 9:
		return fmt.Sprintf("IPv4ToLong(%q)", s1)
	case 10:
		return fmt.Sprintf("IPv4ToLong(LongToIPv4(%d))", a)
	}
	return "?"
}

func init() {
	Register(&Prop{ID: "C15", Pure: true, Num: 15, SpecMode: "equal", Gen: c15Gen, Impl: c15Impl, Oracle: c15Oracle, Shrink: c15Shrink, Describe: c15Describe,
		Rule: "three-way: golib = extracted model = Go standard library (strconv.ParseUint value + error kind; encoding/hex prefix, error identity and error text; encoding/base64 and crypto/* through the oracle), each function called with the string and the []byte instantiation and the input compared afterwards. " +
			"ParseUint: for every base 2..36 and bit size 0..64 the numerals of maxVal-1, maxVal, maxVal+1, cutoff*base-1, cutoff*base, 2^64-1, 2^64, (cutoff-1)*base(+base-1) with random case and leading zeros; every text of length <= 3 (4 thorough) over \"0179afz_xbo+-\" for bases 0,2,8,10,16,36; base-0 grammar stream (prefixes, underscores in every position); garbage and numerals with bases -1..37 and bit sizes -1..65. " +
			"Hex: every text of length <= 3 (4 thorough) over \"09afAFgG/:`@\" for HexDecode and HexDecodeInPlace, random encodings with one bad character / odd length, random HexEncode. Digests (8), HMAC, stream digests (chunk plans, data+EOF, one-byte reads, failing reader), base64 (4 encodings, corrupted / truncated / newline / extra padding). IPv4: boundary and random addresses round trip, arbitrary dotted texts; thorough: all 2^32 addresses on the implementation. distinct = distinct case; non-trivial = non-empty input text"})
}
