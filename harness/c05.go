package main

import (
	"fmt"
	"strings"
)

// C05: algz.Trie queries — Match, FindAll, PrefixSearch, FuzzySearch.
// case = nops :: ops ++ put_list(text);  the text is also the key of PrefixSearch / FuzzySearch.
// output = match(0|1|PANIC) ++ section(FindAll) ++ section(PrefixSearch) ++ section(FuzzySearch),
// section = PANIC | n :: put_list(s1) ++ ... ++ put_list(sn)
// a case with the trailing Dump flag: output ++ trieDump(t)  (the built structure, see trie_common.go)
func c05Section(f func() []string) (out []int64) {
	defer func() {
		if r := recover(); r != nil {
			out = []int64{PANIC}
		}
	}()
	l := f()
	out = []int64{int64(len(l))}
	for _, s := range l {
		out = append(out, PutList(Bytes([]byte(s)))...)
	}
	return out
}

func c05Impl(in []int64) []int64 {
	if len(in) > 0 && in[0] == -5 {
		return wideImpl(in)
	}
	if len(in) > 0 && in[0] == -7 {
		return longImpl(in)
	}
	tc, ok := decodeTrieCase(in, false)
	if !ok {
		return []int64{BADCASE}
	}
	t := tc.trie()
	text := string(tc.text)
	var out []int64
	func() {
		defer func() {
			if r := recover(); r != nil {
				out = append(out, PANIC)
			}
		}()
		out = append(out, B(t.Match(text)))
	}()
	out = append(out, c05Section(func() []string { return t.FindAll(text) })...)
	out = append(out, c05Section(func() []string { return t.PrefixSearch(text) })...)
	out = append(out, c05Section(func() []string { return t.FuzzySearch(text) })...)
	if tc.dump {
		out = append(out, trieDump(t)...)
	}
	return out
}

// pattern sets over the full unit alphabet (1-4 byte runes, raw bytes), incl. the shapes of the repaired defects
var c05UnitSets = [][]string{
	{"a中", "a国"},
	{"\xff"},
	{"\ufffd"},
	{"é", "中é", "é中😀"},
	{"a\xff", "\xff\xfe", "\xfe"},
	{"😀", "😀a", "a😀", "a"},
	{"中", "中中", "a中b", "b"},
	{"éa", "aé", "é", "éaé"},
	{"\xfe\xfe", "\xfe", "a\xfe"},
	{"中é😀", "é😀", "😀", "é"},
	{"ab", "bé", "é中", "中\xff", "\xffa"},
	{"😀😀", "😀", "é😀😀a"},
}

// sets containing truncated sequences / stray continuation bytes (rune-aligned reading applies)
var c05RawSets = [][]string{
	{"中", "\xe4\xb8"},
	{"é", "\xc3"},
	{"\xa9", "\x80"},
	{"\xe4", "\xb8\xad", "a"},
	{"\xf0\x9f", "\x9f\x98\x80", "😀"},
	{"\xef\xbf\xbd", "\xff", "\xef\xbf"},
	{"a\xe4", "\xe4\xb8\xada", "\xad"},
	{"\xef\xbf", "a"},
	{"\xbf\xbd", "\xbd"},
}

// share of the cases of a family that also observe the built structure (Dump): numerator out of 8, drawn from the
// case's own PRNG after the case is complete (the case itself does not depend on the draw)
var c05DumpShare = map[string]int{
	"late-long": 3, "rebuild": 8, "wide": 8, "dense": 5, "many-irregular": 6, "rebuild-suffix-extension": 6, "no-final-build": 5,
}

func c05Try(t *T, family string, tc *trieCase) {
	if !tc.dump {
		sh, ok := c05DumpShare[family]
		if !ok {
			sh = 4 // the random-* families
		}
		tc.dump = t.R.Intn(8) < sh
	}
	if tc.dump {
		t.C.Count("dump", family)
	}
	ps := tc.patterns()
	text := string(tc.text)
	nt := tc.canonical() && (anyOccurs(ps, text) || (text != "" && anyHasPrefix(ps, text)))
	t.Try(family, tc.encode(false), nt)
}

// exhaustive families: the structure depends on the pattern set only; it is observed with the first four texts of every
// set (the other texts run without the flag, as before)
func c05TryExh(t *T, family string, tc *trieCase, textIdx int) {
	if textIdx < 4 {
		tc.dump = true
		t.C.Count("dump", family)
	}
	ps := tc.patterns()
	text := string(tc.text)
	nt := tc.canonical() && (anyOccurs(ps, text) || (text != "" && anyHasPrefix(ps, text)))
	t.Try(family, tc.encode(false), nt)
}

func c05Gen(c *Ctx) {
	wideGen(c, -5) // very wide / very large tries, judged by the closed form of Run/C106.v
	longGen(c)     // very long patterns (more than 65535 bytes), judged by the direct evaluation of Run/C107.v
	if cs := trieCollisionCases(); true {
		_, note := trieCollisionHits()
		c.Note(note)
		c.Each(len(cs), func(i int, t *T) { c05Try(t, "code-point-taken-for-lone-byte", cs[i]) })
	}
	// 1. exhaustive: hand-written sets over {a,b,c} x all texts up to length L
	L := c.N(6, 8)
	nw := countWords(3, L)
	c.Each(len(trieSmallSets)*nw, func(i int, t *T) {
		set := trieSmallSets[i/nw]
		tc := &trieCase{ops: opsOf(set), text: []byte(wordByIndex(trieASCII, i%nw))}
		c05TryExh(t, "exh-abc", tc, i%nw)
	})
	c.Note(fmt.Sprintf("exhaustive part: %d hand-written pattern sets over {a,b,c} x all %d texts of length <= %d; %d sets over 1-4 byte runes and raw bytes x all texts of <= %d units",
		len(trieSmallSets), nw, L, len(c05UnitSets)+len(c05RawSets), c.N(3, 4)))
	// 2. exhaustive over the unit alphabet (2-, 3-, 4-byte rune, 0xff, 0xfe)
	LU := c.N(3, 4)
	nu := countWords(len(trieUnits), LU)
	c.Each(len(c05UnitSets)*nu, func(i int, t *T) {
		set := c05UnitSets[i/nu]
		tc := &trieCase{ops: opsOf(set), text: []byte(wordByIndex(trieUnits, i%nu))}
		c05TryExh(t, "exh-units", tc, i%nu)
	})
	// raw sets x texts over raw pieces
	nr := countWords(len(trieRaw), c.N(2, 3))
	c.Each(len(c05RawSets)*nr, func(i int, t *T) {
		set := c05RawSets[i/nr]
		tc := &trieCase{ops: opsOf(set), text: []byte(wordByIndex(trieRaw, i%nr))}
		c05TryExh(t, "exh-raw", tc, i%nr)
	})
	// 3. the late long occurrence over several earlier disjoint ones
	c.Each(c.N(2500, 40000), func(i int, t *T) {
		r := t.R
		var tc trieCase
		if i == 0 {
			tc = trieCase{ops: opsOf([]string{"a", "c", "abcde"}), text: []byte("abcde")}
		} else {
			units := trieASCII
			if r.Intn(3) == 0 {
				units = trieUnits
			}
			long := randWord(r, units, 3, 8)
			lu := splitUnits(long, units)
			var ps []string
			// disjoint short pieces inside the long word, left to right
			for p := r.Intn(2); p < len(lu); {
				w := 1 + r.Intn(2)
				if p+w > len(lu) {
					w = len(lu) - p
				}
				if p+w == len(lu) && p == 0 {
					break
				}
				ps = append(ps, strings.Join(lu[p:p+w], ""))
				p += w + r.Intn(3)
			}
			ps = append(ps, long)
			if r.Intn(3) == 0 {
				ps = append(ps, strings.Join(lu[1:], ""))
			}
			r.Shuffle(len(ps), func(a, b int) { ps[a], ps[b] = ps[b], ps[a] })
			text := randWord(r, units, 0, 2) + long
			if r.Intn(2) == 0 {
				text += randWord(r, units, 0, 2) + long[:r.Intn(len(long)+1)]
			}
			if r.Intn(4) == 0 {
				text += long
			}
			tc = trieCase{ops: opsOf(ps), text: []byte(text)}
		}
		c05Try(t, "late-long", &tc)
	})
	// 4. random sets, random longer texts; keys that are prefixes of patterns
	c.Each(c.N(9000, 200000), func(i int, t *T) {
		r := t.R
		units := trieUnits
		fam := "random-units"
		switch r.Intn(5) {
		case 0:
			units = trieASCII
			fam = "random-abc"
		case 1:
			units = trieRaw
			fam = "random-raw"
		case 2:
			units = trieBoundary
			fam = "random-boundary-runes"
		case 3:
			if r.Intn(2) == 0 {
				units = trieOverlong
				fam = "random-rejected-lead-bytes"
			} else {
				units = trieCollide
				fam = "random-collision-candidates"
			}
		}
		ps := randPatternSet(r, units, 8, 5)
		var text string
		switch r.Intn(5) {
		case 0: // a key: a prefix of a pattern (byte cut) possibly extended
			p := ps[r.Intn(len(ps))]
			text = p[:r.Intn(len(p)+1)]
			if r.Intn(4) == 0 {
				text += units[r.Intn(len(units))]
			}
			fam += "-key"
		case 1: // a key whose tail is a prefix of a pattern (FuzzySearch)
			p := ps[r.Intn(len(ps))]
			text = randWord(r, units, 0, 2) + p[:r.Intn(len(p)+1)]
			fam += "-key"
		default:
			text = randText(r, units, ps, c.N(12, 30))
		}
		tc := trieCase{ops: opsOf(ps), text: []byte(text)}
		// sometimes build twice (rebuild after more inserts): still canonical
		if r.Intn(12) == 0 && len(ps) > 1 {
			k := 1 + r.Intn(len(ps)-1)
			var ops []trieOp
			for j, p := range ps {
				if j == k {
					ops = append(ops, trieOp{build: true})
				}
				ops = append(ops, trieOp{pat: []byte(p)})
			}
			tc.ops = append(ops, trieOp{build: true})
			fam = "rebuild"
		}
		c05Try(t, fam, &tc)
	})
	// 5. wide tries: the BFS queue grows (capacity 10 -> 20 -> 40) with its head in the middle of the ring
	c.Each(c.N(1500, 30000), func(i int, t *T) {
		r := t.R
		ps := widePatternSet(r)
		var text string
		if r.Intn(3) == 0 {
			p := ps[r.Intn(len(ps))]
			text = p[:r.Intn(len(p)+1)]
		} else {
			text = randText(r, []string{"a", "b", "c", "d", "e", "f", "g", "h"}, ps, 10)
		}
		tc := trieCase{ops: opsOf(ps), text: []byte(text)}
		c05Try(t, "wide", &tc)
	})
	// 5b. one node with very many children (60..140, above the 64 / 128 marks), enumerated through PrefixSearch / FuzzySearch
	//     of the prefix that leads to it: explicit stacks and queues of the enumeration grow while a whole level is pushed
	c.Each(c.N(60, 600), func(i int, t *T) {
		r := t.R
		nch := []int{60, 63, 64, 65, 66, 90, 127, 128, 129, 140}[i%10]
		prefix := []string{"", "k", "id:", "中"}[(i/10)%4]
		var ps []string
		for j := 0; j < nch; j++ {
			var ch string
			if j < 90 {
				ch = string(rune(33 + j)) // printable ASCII
			} else {
				ch = string(rune(0x4E00 + j)) // CJK
			}
			p := prefix + ch
			if r.Intn(3) == 0 {
				p += []string{"z", "zz", "é"}[r.Intn(3)]
			}
			ps = append(ps, p)
		}
		r.Shuffle(len(ps), func(a, b int) { ps[a], ps[b] = ps[b], ps[a] })
		text := prefix
		if r.Intn(4) == 0 && len(ps) > 0 {
			text = ps[r.Intn(len(ps))]
		}
		tc := trieCase{ops: opsOf(ps), text: []byte(text)}
		c05Try(t, "broad-node", &tc)
	})
	// dense tries (frontier above 20 nodes, second wrapped growth of the queue) and targeted rebuilds
	c.Each(c.N(30000, 300000), func(i int, t *T) {
		r := t.R
		if i%4 != 3 {
			ps, letters := densePatternSet(r)
			famd := "dense"
			if i%2 == 0 {
				ps, letters = manyPatternSet(r)
				famd = "many-irregular"
			}
			var text string
			if r.Intn(2) == 0 {
				text = randWord(r, letters, 3, 12)
			} else { // pieces of patterns glued together: walks deep into the trie
				for len(text) < 8 {
					q := ps[r.Intn(len(ps))]
					text += q[:1+r.Intn(len(q))]
				}
			}
			tc := trieCase{ops: opsOf(ps), text: []byte(text)}
			
			c05Try(t, famd, &tc)
			return
		}
		units := trieASCII
		if r.Intn(3) == 0 {
			units = trieUnits
		}
		first, second := rebuildBatches(r, units)
		var ops []trieOp
		for _, p := range first {
			ops = append(ops, trieOp{pat: []byte(p)})
		}
		ops = append(ops, trieOp{build: true})
		for _, p := range second {
			ops = append(ops, trieOp{pat: []byte(p)})
		}
		ops = append(ops, trieOp{build: true})
		all := append(append([]string{}, first...), second...)
		tc := trieCase{ops: ops, text: []byte(randText(r, units, all, 10))}
		
		c05Try(t, "rebuild-suffix-extension", &tc)
	})
	// large irregular tries, always with the Dump observation: 40-80 words of length 3..7 over 3-4 letters; the BFS frontier
	// passes 40 nodes (third growth of the queue, 40 -> 80); a BFS order that is not first-in first-out leaves wrong or nil
	// fail links in about 6 % of these sets, and the structure comparison sees every one of them without a text that walks there
	c.Each(c.N(1200, 20000), func(i int, t *T) {
		r := t.R
		ps, letters := largePatternSet(r)
		var text string
		for len(text) < 6 {
			q := ps[r.Intn(len(ps))]
			text += q[:1+r.Intn(len(q))]
		}
		if r.Intn(3) == 0 {
			text = randWord(r, letters, 0, 8)
		}
		tc := trieCase{ops: opsOf(ps), text: []byte(text), dump: true}
		c05Try(t, "many-large", &tc)
	})
	// 6. not canonical: no build at all, or inserts after the last build (nil fail links: panics are compared with the model)
	c.Each(c.N(1200, 20000), func(i int, t *T) {
		r := t.R
		ps := randPatternSet(r, trieASCII, 5, 4)
		var ops []trieOp
		cut := r.Intn(len(ps) + 1)
		for j, p := range ps {
			if j == cut && r.Intn(3) != 0 {
				ops = append(ops, trieOp{build: true})
			}
			ops = append(ops, trieOp{pat: []byte(p)})
		}
		tc := trieCase{ops: ops, text: []byte(randText(r, trieASCII, ps, 6))}
		c05Try(t, "no-final-build", &tc)
	})
}

func init() {
	Register(&Prop{ID: "C05", Pure: true, Num: 5, NumOf: longNum(5), SpecMode: "rel", Gen: c05Gen, Impl: c05Impl,
		Shrink: func(in []int64) [][]int64 {
			if len(in) > 0 && in[0] == -7 {
				return longShrink(in)
			}
			return trieShrink(false)(in)
		},
		Describe: func(in []int64) string {
			if len(in) > 0 && in[0] == -7 {
				return longDescribe(in)
			}
			if len(in) > 3 && (in[0] == -5 || in[0] == -6) {
				return fmt.Sprintf("wide trie: all %d-rune patterns over the %d runes from U+%X; text runes, replacement, mask: %v", in[3], in[2], in[1], in[4:])
			}
			tc, _ := decodeTrieCase(in, false)
			return tc.describe(false)
		},
		Rule: "pattern sets (shared prefixes, patterns nested as suffixes/infixes, duplicates, empty pattern) over {a,b,c}, a 2-, 3- and 4-byte rune and raw bytes 0xff/0xfe, plus truncated-sequence sets; " +
			"all texts up to length 6 over {a,b,c} for 25 hand-written sets, all texts up to 3 units for the multi-byte sets, random longer texts, keys cut out of patterns, the late-long-occurrence family, wide tries (queue growth), one node with 60..140 children enumerated by PrefixSearch / FuzzySearch of its prefix, dense / many-irregular / many-large tries (second and third growth of the BFS queue), rebuilds, and tries without a final BuildFailureLinks (model comparison only). " +
			"About 3 cases in 8 (histogram `dump`; all of many-large, wide, rebuild; the first four texts of every exhaustive set) also observe the BUILT STRUCTURE: every node's word, isEnd, size, number of children and fail target, read from the real trie through reflect/unsafe, compared with the model's node table and with the automaton computed from the patterns alone. " +
			"Very long patterns (family very-long-patterns, Run/C107.v): tries with one or two patterns of 65530..70200 bytes (1-, 2-, 3-byte runes; the second pattern a prefix, an extension or a late branch of the first), keys/texts cut out of the pattern by position (empty key, full pattern, long prefix, branching point, pattern twice); every returned string is compared as (byte length, checksum) with the specification evaluated on strings given as functions of the position; the same shapes with 100..300 runes also run as ordinary cases through the table model. " +
			"Non-trivial: the trie ends with BuildFailureLinks and some pattern occurs in the text or has the text as a prefix"})
}
