package main

func stdOracleC09(q []int64) []int64 { return []int64{-1} }
