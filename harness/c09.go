package main

import (
	"bufio"
	"bytes"
	"crypto/aes"
	"crypto/cipher"
	"crypto/md5"
	"crypto/rand"
	"encoding/base64"
	"encoding/binary"
	"encoding/hex"
	"errors"
	"fmt"
	"io"
	"os"
	"os/exec"
	"strings"
	"sync"
	"sync/atomic"
	"syscall"

	"github.com/welllog/golib/cryptz"
)

// C09: cryptz/crypt.go — Encrypt/Decrypt, GCMEncrypt/GCMDecrypt, SaltBySecret*, EncryptStreamTo/DecryptStreamTo.
// case = kind a b c d e put_list(l1..l5)           (see coq/Run/C09.v)
// For kinds 0..7 the field c carries presentation flags the model ignores: bit0 secret passed as string,
// bit1 text passed as string, bit2 additional data passed as string.

func c09Case(kind, a, b, c, d, e int64, l1, l2, l3, l4 []byte, l5 []int64) []int64 {
	in := []int64{kind, a, b, c, d, e}
	in = append(in, PutList(Bytes(l1))...)
	in = append(in, PutList(Bytes(l2))...)
	in = append(in, PutList(Bytes(l3))...)
	in = append(in, PutList(Bytes(l4))...)
	in = append(in, PutList(l5)...)
	return in
}

// ---- pinning the random salt: crypto/rand.Reader is a package variable
var randMu sync.Mutex

type fixedRand struct {
	b    []byte
	fail bool
}

func (f *fixedRand) Read(p []byte) (int, error) {
	if f.fail {
		return 0, errors.New("entropy source failed")
	}
	n := copy(p, f.b)
	f.b = f.b[n:]
	if n == 0 {
		return 0, io.EOF
	}
	return n, nil
}

// runs f with rand.Reader pinned to salt (or failing); afterwards runs g (if not nil) with the real source, reads the
// salt back from g's result with saltOf and checks that a run pinned to that salt reproduces it byte for byte.
func withSalt(salt []byte, ok bool, f func() ([]byte, error), saltOf func([]byte) []byte) (out []byte, err error, consistent bool) {
	randMu.Lock()
	old := rand.Reader
	defer func() { rand.Reader = old; randMu.Unlock() }()
	rand.Reader = &fixedRand{b: append([]byte{}, salt...), fail: !ok}
	out, err = f()
	consistent = true
	if ok && err == nil && saltOf != nil {
		rand.Reader = old
		r1, e1 := f()
		if e1 != nil {
			return out, err, false
		}
		s := saltOf(r1)
		if len(s) != 8 {
			return out, err, false
		}
		rand.Reader = &fixedRand{b: append([]byte{}, s...)}
		r2, e2 := f()
		consistent = e2 == nil && bytes.Equal(r1, r2)
	}
	return
}

// ---- stream readers / writers of the harness
var errInjected = errors.New("injected failure")

type planReader struct {
	data []byte
	plan []int64
	term int64
	cur  int
	have bool
}

func (r *planReader) Read(p []byte) (int, error) {
	if !r.have {
		if len(r.plan) == 0 {
			if len(r.data) > 0 { // what the plan did not cover is one last chunk
				r.cur = len(r.data)
				r.have = true
			} else {
				if r.term == 2 {
					return 0, errInjected
				}
				return 0, io.EOF
			}
		} else {
			n := int(r.plan[0])
			r.plan = r.plan[1:]
			if n > len(r.data) {
				n = len(r.data)
			}
			if n <= 0 {
				return 0, nil // a zero-length read
			}
			r.cur = n
			r.have = true
		}
	}
	n := r.cur
	if n > len(p) {
		n = len(p)
	}
	copy(p, r.data[:n])
	r.data = r.data[n:]
	r.cur -= n
	if r.cur == 0 {
		r.have = false
		if len(r.plan) == 0 && len(r.data) == 0 && r.term == 1 {
			return n, io.EOF
		}
	}
	return n, nil
}

// planWriterTo is planReader with io.WriterTo, the way bytes.Reader, bytes.Buffer, strings.Reader, bufio.Reader have it:
// io.Copy then does not read through its own 32 KiB buffer but lets the source write; every chunk of the plan arrives in ONE
// Write of its full size (pieces of at most max bytes: max is the d of the case, the generator makes it >= every chunk).
type planWriterTo struct {
	planReader
	max int
}

func (r *planWriterTo) WriteTo(w io.Writer) (int64, error) {
	var total int64
	emit := func(b []byte) error {
		for len(b) > 0 {
			k := len(b)
			if r.max > 0 && k > r.max {
				k = r.max
			}
			m, err := w.Write(b[:k])
			if m > k || m < 0 {
				panic("planWriterTo: invalid Write count")
			}
			total += int64(m)
			if err != nil {
				return err
			}
			if m != k {
				return io.ErrShortWrite
			}
			b = b[k:]
		}
		return nil
	}
	for _, n := range r.plan {
		k := int(n)
		if k > len(r.data) {
			k = len(r.data)
		}
		if k <= 0 {
			continue
		}
		if err := emit(r.data[:k]); err != nil {
			return total, err
		}
		r.data = r.data[k:]
	}
	r.plan = nil
	if err := emit(r.data); err != nil {
		return total, err
	}
	r.data = nil
	if r.term == 2 {
		return total, errInjected
	}
	return total, nil
}

// the source of an EncryptStreamTo case (field e)
func c09Source(e int64, text []byte, plan []int64, term int64, d int64) io.Reader {
	switch e {
	case 1:
		return &planWriterTo{planReader: planReader{data: text, plan: append([]int64{}, plan...), term: term}, max: int(d)}
	case 2:
		return bytes.NewReader(text)
	case 3:
		return bytes.NewBuffer(append([]byte{}, text...))
	case 4:
		return strings.NewReader(string(text))
	case 5:
		return bufio.NewReader(bytes.NewReader(text))
	}
	return &planReader{data: text, plan: append([]int64{}, plan...), term: term}
}

var c09SourceNames = []string{"chunking reader (io.Copy's buffer)", "chunking source with io.WriterTo", "bytes.Reader", "bytes.Buffer", "strings.Reader", "bufio.Reader over bytes.Reader"}

// What the model predicts of the implementation's output (the judge always sees all of it):
//   - kinds 10, 11: code, number of bytes written, write sizes (see coq/Run/C09.v);
//   - source 5 (bufio.Reader): its WriteTo first flushes its own (empty) buffer with a zero-length Write (go1.23), which the
//     model's reader does not have: the write sizes are compared without the zero entries.
func c09XProj(in, impl []int64) []int64 {
	if len(in) < 6 || len(impl) < 3 || impl[0] != 0 {
		return impl
	}
	big := in[0] == 10 || in[0] == 11
	bufioSrc := (in[0] == 8 || in[0] == 10) && in[5] == 5
	if !big && !bufioSrc {
		return impl
	}
	written, rest := GetList(impl[2:])
	sizes, tail := GetList(rest)
	o := []int64{0, impl[1]}
	if big {
		o = append(o, int64(len(written)))
	} else {
		o = append(o, PutList(written)...)
	}
	if bufioSrc {
		var nz []int64
		for _, x := range sizes {
			if x != 0 {
				nz = append(nz, x)
			}
		}
		sizes = nz
	}
	o = append(o, PutList(sizes)...)
	return append(o, tail...)
}

type planWriter struct {
	budget int64
	out    []byte
	sizes  []int64
}

func (w *planWriter) Write(p []byte) (int, error) {
	if w.budget <= 0 {
		return 0, errInjected
	}
	w.budget--
	w.out = append(w.out, p...)
	w.sizes = append(w.sizes, int64(len(p)))
	return len(p), nil
}

// a writer that also implements io.ReaderFrom with a buffer of B bytes (io.Copy then offers B-byte buffers to the source)
type rfWriter struct {
	planWriter
	B int
}

func (w *rfWriter) ReadFrom(r io.Reader) (int64, error) {
	buf := make([]byte, w.B)
	var total int64
	for {
		n, err := r.Read(buf)
		if n > 0 {
			if _, ew := w.Write(buf[:n]); ew != nil {
				return total, ew
			}
			total += int64(n)
		}
		if err == io.EOF {
			return total, nil
		}
		if err != nil {
			return total, err
		}
	}
}

func streamOut(err error, w *planWriter) []int64 {
	code := int64(0)
	if err != nil {
		code = cryptErrCode(err)
	}
	o := []int64{0, code}
	o = append(o, PutList(Bytes(w.out))...)
	return append(o, PutList(w.sizes)...)
}

// ---- lifetime of a result.  A returned []byte must stay what it was when the call returned: it must not share memory with
// anything a LATER call writes to (a pooled / package-level scratch buffer the result is a sub-slice of).  For half of the
// cases (c09Delayed, a fixed function of the case) the result of the observed call is read only after the same function
// and its sibling entry point have been called again on two other well-formed inputs (another message and secret, one of
// the size of the observed result, one larger), results discarded; the other half reads it at once as before.
func c09Delayed(text, secret []byte) bool {
	x := len(text)
	for _, b := range text {
		x += int(b)
	}
	for _, b := range secret {
		x += int(b)
	}
	return x&1 == 1
}

func c09Disturb(kind int64, n int) {
	secret, salt, ad := []byte("a disturbing secret"), []byte("DISTURB!"), []byte("other ad")
	for _, m := range []int{n, 2*n + 100} {
		p := bytes.Repeat([]byte{0xA5}, m)
		switch kind {
		case 1, 5:
			raw := refCBCMessage(p, secret, salt)
			_, _ = cryptz.SaltBySecretCBCDecrypt(append([]byte{}, raw...), secret, kind == 5 && m == n)
			_, _ = cryptz.Decrypt([]byte(base64.StdEncoding.EncodeToString(raw)), secret)
			if kind == 5 {
				_, _ = cryptz.SaltBySecretCBCDecrypt(raw, string(secret), false)
			}
		case 3, 7:
			raw := refGCMMessage(p, secret, salt, ad)
			_, _ = cryptz.SaltBySecretGCMDecrypt(append([]byte{}, raw...), secret, ad, kind == 7 && m == n)
			_, _ = cryptz.GCMDecrypt([]byte(hex.EncodeToString(raw)), secret, ad)
			if kind == 7 {
				_, _ = cryptz.SaltBySecretGCMDecrypt(raw, string(secret), ad, false)
			}
		case 0, 4: // the real random source, under the lock that guards the pinned one
			randMu.Lock()
			_, _ = cryptz.SaltBySecretCBCEncrypt(p, secret)
			_, _ = cryptz.Encrypt(p, secret)
			if kind == 4 {
				_, _ = cryptz.SaltBySecretCBCEncrypt(string(p), secret)
			}
			randMu.Unlock()
		case 2, 6:
			randMu.Lock()
			_, _ = cryptz.SaltBySecretGCMEncrypt(p, secret, ad)
			_, _ = cryptz.GCMEncrypt(p, secret, ad)
			if kind == 6 {
				_, _ = cryptz.SaltBySecretGCMEncrypt(string(p), secret, ad)
			}
			randMu.Unlock()
		}
	}
}

func c09Impl(in []int64) []int64 {
	kind, a, b, c, d := in[0], in[1], in[2], in[3], in[4]
	l1, r := GetList(in[6:])
	l2, r := GetList(r)
	l3, r := GetList(r)
	l4, r := GetList(r)
	l5, _ := GetList(r)
	text, secret, salt, ad := exact(ToBytes(l1)), exact(ToBytes(l2)), ToBytes(l3), exact(ToBytes(l4))
	sStr, tStr, aStr := c&1 != 0, c&2 != 0, c&4 != 0
	delayed := kind >= 0 && kind <= 7 && c09Delayed(text, secret)
	res := func(out []byte, err error) []int64 {
		if err != nil {
			return []int64{1, cryptErrCode(err)}
		}
		if delayed {
			c09Disturb(kind, len(out))
		}
		return append([]int64{0}, Bytes(out)...)
	}
	inconsistent := []int64{-555}
	switch kind {
	case 0, 4: // Encrypt / SaltBySecretCBCEncrypt
		f := func() ([]byte, error) {
			switch {
			case kind == 0 && sStr && tStr:
				return cryptz.Encrypt(string(text), string(secret))
			case kind == 0 && sStr:
				return cryptz.Encrypt(text, string(secret))
			case kind == 0 && tStr:
				return cryptz.Encrypt(string(text), secret)
			case kind == 0:
				return cryptz.Encrypt(text, secret)
			case sStr:
				return cryptz.SaltBySecretCBCEncrypt(text, string(secret))
			default:
				return cryptz.SaltBySecretCBCEncrypt(string(text), secret)
			}
		}
		saltOf := func(o []byte) []byte {
			if kind == 0 {
				raw, err := base64.StdEncoding.DecodeString(string(o))
				if err != nil || len(raw) < 16 {
					return nil
				}
				return raw[8:16]
			}
			if len(o) < 16 {
				return nil
			}
			return o[8:16]
		}
		out, err, ok := withSalt(salt, b != 0, f, saltOf)
		if !ok {
			return inconsistent
		}
		return res(out, err)
	case 2, 6: // GCMEncrypt / SaltBySecretGCMEncrypt
		f := func() ([]byte, error) {
			switch {
			case kind == 2 && sStr && aStr:
				return cryptz.GCMEncrypt(text, string(secret), string(ad))
			case kind == 2 && tStr:
				return cryptz.GCMEncrypt(string(text), secret, ad)
			case kind == 2:
				return cryptz.GCMEncrypt(text, secret, ad)
			case sStr:
				return cryptz.SaltBySecretGCMEncrypt(text, string(secret), ad)
			default:
				return cryptz.SaltBySecretGCMEncrypt(string(text), secret, string(ad))
			}
		}
		saltOf := func(o []byte) []byte {
			if kind == 2 {
				raw, err := hex.DecodeString(string(o))
				if err != nil || len(raw) < 16 {
					return nil
				}
				return raw[8:16]
			}
			if len(o) < 16 {
				return nil
			}
			return o[8:16]
		}
		out, err, ok := withSalt(salt, b != 0, f, saltOf)
		if !ok {
			return inconsistent
		}
		return res(out, err)
	case 1, 3, 5, 7, 9, 11:
		// Every decryption is preceded by a decryption of the SAME message with ANOTHER secret (result ignored): the
		// answer must depend on the arguments only, not on what the previous call derived (a memo keyed by the salt,
		// say).  It is made on the caller's OWN buffer (none of these calls asks for in-place operation): an entry point
		// that scribbles over its input makes the real call below fail, as a second use of the same message would.
		other := append(append([]byte{}, secret...), 'x')
		msg := text
		switch kind {
		case 1:
			_, _ = cryptz.Decrypt(msg, other)
		case 3:
			_, _ = cryptz.GCMDecrypt(msg, other, ad)
		case 5:
			_, _ = cryptz.SaltBySecretCBCDecrypt(msg, other, false)
		case 7:
			_, _ = cryptz.SaltBySecretGCMDecrypt(msg, other, ad, false)
		default:
			_ = cryptz.DecryptStreamTo(io.Discard, bytes.NewReader(msg), other)
		}
	}
	switch kind {
	case 1:
		switch {
		case sStr && tStr:
			return res(cryptz.Decrypt(string(text), string(secret)))
		case sStr:
			return res(cryptz.Decrypt(text, string(secret)))
		case tStr:
			return res(cryptz.Decrypt(string(text), secret))
		}
		return res(cryptz.Decrypt(text, secret))
	case 3:
		switch {
		case sStr && tStr && aStr:
			return res(cryptz.GCMDecrypt(string(text), string(secret), string(ad)))
		case tStr:
			return res(cryptz.GCMDecrypt(string(text), secret, ad))
		case aStr:
			return res(cryptz.GCMDecrypt(text, secret, string(ad)))
		}
		return res(cryptz.GCMDecrypt(text, secret, ad))
	case 5, 7:
		var out []byte
		var err error
		if kind == 5 {
			if sStr {
				out, err = cryptz.SaltBySecretCBCDecrypt(text, string(secret), a != 0)
			} else {
				out, err = cryptz.SaltBySecretCBCDecrypt(text, secret, a != 0)
			}
		} else {
			if sStr {
				out, err = cryptz.SaltBySecretGCMDecrypt(text, string(secret), string(ad), a != 0)
			} else {
				out, err = cryptz.SaltBySecretGCMDecrypt(text, secret, ad, a != 0)
			}
		}
		if err != nil {
			return []int64{1, cryptErrCode(err)}
		}
		if delayed {
			c09Disturb(kind, len(out))
		}
		o := append([]int64{0}, PutList(Bytes(out))...)
		return append(o, PutList(Bytes(text))...)
	case 8, 10:
		rd := c09Source(in[5], text, l5, a, d)
		w := &planWriter{budget: c}
		var err error
		withSalt(salt, b != 0, func() ([]byte, error) {
			err = cryptz.EncryptStreamTo(w, rd, secret)
			return nil, err
		}, nil)
		return streamOut(err, w)
	case 9, 11:
		rd := &planReader{data: text, plan: append([]int64{}, l5...), term: a}
		if d == 32768 {
			w := &planWriter{budget: c}
			err := cryptz.DecryptStreamTo(w, rd, string(secret))
			return streamOut(err, w)
		}
		w := &rfWriter{planWriter: planWriter{budget: c}, B: int(d)}
		err := cryptz.DecryptStreamTo(w, rd, secret)
		return streamOut(err, &w.planWriter)
	}
	return []int64{BADCASE}
}

func stdOracleC09(q []int64) []int64 {
	switch q[0] {
	case 7:
		a := qLists(q[1:], 1)
		s := md5.Sum(a[0])
		return Bytes(s[:])
	case 8:
		a := qLists(q[1:], 1)
		return Bytes([]byte(base64.StdEncoding.EncodeToString(a[0])))
	case 9:
		a := qLists(q[1:], 1)
		dst := make([]byte, base64.StdEncoding.DecodedLen(len(a[0])))
		n, err := base64.StdEncoding.Decode(dst, a[0])
		if err != nil {
			return []int64{0}
		}
		return append([]int64{1}, Bytes(dst[:n])...)
	case 10:
		a := qLists(q[1:], 3)
		blk, err := aes.NewCipher(a[0])
		if err != nil || len(a[1]) != 16 {
			return []int64{-1}
		}
		o := make([]byte, len(a[2]))
		cipher.NewCTR(blk, a[1]).XORKeyStream(o, a[2])
		return Bytes(o)
	}
	return []int64{-1}
}

// ---- independent reference constructions (standard library only)
func evpRef(secret, salt []byte) (key, iv []byte) {
	var cred, prev []byte
	for len(cred) < 48 {
		h := md5.New()
		h.Write(prev)
		h.Write(secret)
		h.Write(salt)
		prev = h.Sum(nil)
		cred = append(cred, prev...)
	}
	return cred[:32], cred[32:48]
}
func refCBCMessage(p, secret, salt []byte) []byte {
	key, iv := evpRef(secret, salt)
	return append(append([]byte("Salted__"), salt...), stdCBC(key, iv, pkcs7Ref(p, 16), true)...)
}
func refGCMMessage(p, secret, salt, ad []byte) []byte {
	key, iv := evpRef(secret, salt)
	blk, _ := aes.NewCipher(key)
	g, _ := cipher.NewGCM(blk)
	return g.Seal(append([]byte("Salted__"), salt...), iv[:12], p, ad)
}
func refStream(p, secret, salt []byte) []byte {
	key, iv := evpRef(secret, salt)
	blk, _ := aes.NewCipher(key)
	o := make([]byte, len(p))
	cipher.NewCTR(blk, iv).XORKeyStream(o, p)
	return append(append([]byte("Salted__"), salt...), o...)
}

const c09CarrySecret = "correct horse battery staple"

var c09Carry struct {
	once     sync.Once
	salt, iv []byte
}

func c09CarrySalt() ([]byte, []byte) {
	c09Carry.once.Do(func() {
		var mu sync.Mutex
		var wg sync.WaitGroup
		var stop atomic.Bool
		for w := 0; w < 16; w++ {
			wg.Add(1)
			go func(w uint64) {
				defer wg.Done()
				salt := make([]byte, 8)
				for x := w; x < 1<<30 && !stop.Load(); x += 16 {
					binary.BigEndian.PutUint64(salt, x*0x9e3779b97f4a7c15+1)
					_, iv := evpRef([]byte(c09CarrySecret), salt)
					if iv[12] == 0xff && iv[13] == 0xff && iv[14] == 0xff {
						mu.Lock()
						if c09Carry.salt == nil {
							c09Carry.salt, c09Carry.iv = append([]byte{}, salt...), append([]byte{}, iv...)
						}
						mu.Unlock()
						stop.Store(true)
					}
				}
			}(uint64(w))
		}
		wg.Wait()
	})
	return c09Carry.salt, c09Carry.iv
}

func c09Secret(t *T) []byte {
	switch t.R.Intn(6) {
	case 0:
		return nil
	case 1:
		return []byte("secret")
	case 2:
		return rbytes(t, 1+t.R.Intn(4))
	case 3: // lengths around the MD5 block boundaries of secret||salt and prevSum||secret||salt (8-byte salt, 16-byte prefix)
		return rbytes(t, []int{39, 40, 41, 47, 48, 55, 56, 57, 63, 64, 65, 103, 104, 111, 112, 119, 120, 127, 128, 129}[t.R.Intn(20)])
	case 4:
		return rbytes(t, 41+t.R.Intn(160)*(1+t.R.Intn(5)))
	default:
		return rbytes(t, t.R.Intn(41))
	}
}

func c09Plan(t *T, n int, style int) []int64 {
	var plan []int64
	switch style {
	case 0: // whole
		plan = []int64{int64(n)}
	case 1: // one byte at a time
		for i := 0; i < n; i++ {
			plan = append(plan, 1)
		}
	case 2: // 7 bytes
		for i := 0; i < n; i += 7 {
			plan = append(plan, 7)
		}
	case 3: // 16 then the rest
		plan = []int64{16, int64(n)}
	case 4: // random with zero-length reads
		for left := n; left > 0; {
			if t.R.Intn(4) == 0 {
				plan = append(plan, 0)
				continue
			}
			k := 1 + t.R.Intn(20)
			if k > left {
				k = left
			}
			plan = append(plan, int64(k))
			left -= k
		}
		if t.R.Intn(3) == 0 {
			plan = append(plan, 0)
		}
	default: // random
		for left := n; left > 0; {
			k := 1 + t.R.Intn(40)
			if k > left {
				k = left
			}
			plan = append(plan, int64(k))
			left -= k
		}
	}
	return plan
}

var c09PlanNames = []string{"whole", "1-byte", "7-byte", "16+rest", "random+zero-reads", "random"}

func c09Gen(c *Ctx) {
	maxLen := c.N(80, 160)
	// A. encryption, every plaintext length, pinned salt: Encrypt, SaltBySecretCBCEncrypt, GCMEncrypt, SaltBySecretGCMEncrypt
	c.Each(4*(maxLen+1)*c.N(2, 6), func(i int, t *T) {
		kind := int64([]int{0, 4, 2, 6}[i%4])
		n := (i / 4) % (maxLen + 1)
		ad := rbytes(t, t.R.Intn(20))
		if kind == 0 || kind == 4 {
			ad = nil
		}
		t.Try([]string{"encrypt", "", "gcm-encrypt", "", "salt-cbc-encrypt", "", "salt-gcm-encrypt"}[kind],
			c09Case(kind, 0, 1, int64(t.R.Intn(8)), 0, 0, rbytes(t, n), c09Secret(t), rbytes(t, 8), ad, nil), true)
	})
	// the random source fails
	c.Each(40, func(i int, t *T) {
		kind := int64([]int{0, 4, 2, 6, 8}[i%5])
		t.Try("random-source-fails", c09Case(kind, 0, 0, 5, 32768, 0, rbytes(t, t.R.Intn(20)), c09Secret(t), nil, nil, []int64{3}), true)
	})
	// B. decryption of well-formed messages built independently (EVP_BytesToKey + library CBC/GCM)
	c.Each(4*(maxLen+1)*c.N(2, 6), func(i int, t *T) {
		kind := int64([]int{1, 5, 3, 7}[i%4])
		n := (i / 4) % (maxLen + 1)
		p, secret, salt := rbytes(t, n), c09Secret(t), rbytes(t, 8)
		flags := int64(t.R.Intn(8))
		switch kind {
		case 1:
			msg := []byte(base64.StdEncoding.EncodeToString(refCBCMessage(p, secret, salt)))
			t.Try("decrypt-valid", c09Case(1, 0, 0, flags, 0, 0, msg, secret, nil, nil, nil), true)
		case 5:
			t.Try("salt-cbc-decrypt-valid", c09Case(5, int64(t.R.Intn(2)), 0, flags, 0, 0, refCBCMessage(p, secret, salt), secret, nil, nil, nil), true)
		case 3:
			ad := rbytes(t, t.R.Intn(20))
			msg := []byte(hex.EncodeToString(refGCMMessage(p, secret, salt, ad)))
			if t.R.Intn(4) == 0 {
				msg = bytes.ToUpper(msg)
			}
			t.Try("gcm-decrypt-valid", c09Case(3, 0, 0, flags, 0, 0, msg, secret, nil, ad, nil), true)
		default:
			ad := rbytes(t, t.R.Intn(20))
			t.Try("salt-gcm-decrypt-valid", c09Case(7, int64(t.R.Intn(2)), 0, flags, 0, 0, refGCMMessage(p, secret, salt, ad), secret, nil, ad, nil), true)
		}
	})
	// B1. messages laid out the way `openssl enc -a` writes them: base64 wrapped at 64 columns (LF or CRLF, with and without
	// the final line break); every plaintext length 0..120 so that the number of line breaks takes every residue mod 4
	c.Each(121*c.N(2, 6), func(i int, t *T) {
		n := i % 121
		p, secret, salt := rbytes(t, n), c09Secret(t), rbytes(t, 8)
		b64 := base64.StdEncoding.EncodeToString(refCBCMessage(p, secret, salt))
		nl := []string{"\n", "\r\n"}[t.R.Intn(2)]
		width := []int{64, 64, 76, 4, 1}[t.R.Intn(5)]
		var sb strings.Builder
		for len(b64) > width {
			sb.WriteString(b64[:width])
			sb.WriteString(nl)
			b64 = b64[width:]
		}
		sb.WriteString(b64)
		if t.R.Intn(2) == 0 {
			sb.WriteString(nl)
		}
		t.Try("decrypt-line-wrapped-base64", c09Case(1, 0, 0, int64(t.R.Intn(8)), 0, 0, []byte(sb.String()), secret, nil, nil, nil), true)
	})
	// B2. the key derivation over EVERY secret length up to a bound and around larger powers of two (a scratch buffer of
	// 256/512/1024/4096 bytes for prevSum||secret||salt misjudged by a few bytes only shows for secrets in an 8-byte
	// window below that size); message built independently, so a wrong key/IV is a decryption failure
	var slen []int
	for l := 0; l <= c.N(1100, 4300); l++ {
		slen = append(slen, l)
	}
	for _, p2 := range []int{2048, 4096, 8192} {
		for d := -48; d <= 8; d++ {
			slen = append(slen, p2+d)
		}
	}
	c.Each(len(slen), func(i int, t *T) {
		secret, salt := rbytes(t, slen[i]), rbytes(t, 8)
		p := rbytes(t, 1+t.R.Intn(20))
		flags := int64(t.R.Intn(8))
		if i%2 == 0 {
			msg := []byte(base64.StdEncoding.EncodeToString(refCBCMessage(p, secret, salt)))
			t.Try("secret-length-sweep", c09Case(1, 0, 0, flags, 0, 0, msg, secret, nil, nil, nil), true)
		} else {
			ad := rbytes(t, t.R.Intn(6))
			t.Try("secret-length-sweep", c09Case(7, int64(t.R.Intn(2)), 0, flags, 0, 0, refGCMMessage(p, secret, salt, ad), secret, nil, ad, nil), true)
		}
	})
	// E. streams: every chunk-plan style x terminal behaviour x data lengths around the header and block boundaries
	slens := []int{0, 1, 15, 16, 17, 31, 32, 33, 48, 100}
	if !c.Quick() {
		slens = append(slens, 255, 256, 700)
	}
	Bs := []int64{32768, 1, 5, 16, 17, 64}
	c.Each(len(slens)*6*3*2*c.N(4, 12), func(i int, t *T) {
		n := slens[i%len(slens)]
		style := (i / len(slens)) % 6
		term := int64((i / (len(slens) * 6)) % 3)
		enc := (i/(len(slens)*6*3))%2 == 0
		secret, salt := c09Secret(t), rbytes(t, 8)
		p := rbytes(t, n)
		budget := int64(1 << 30)
		switch t.R.Intn(8) {
		case 0:
			budget = int64(t.R.Intn(2)) // not even the header goes through
		case 1:
			budget = int64(2 + t.R.Intn(6)) // fails somewhere in the body (or not at all)
		case 2:
			budget = int64(n + 18) // exactly enough for one write per byte
		}
		t.C.Count("stream-writer", map[bool]string{true: "accepts-all", false: "limited"}[budget >= int64(n+18)])
		t.C.Count("stream-plan", c09PlanNames[style])
		t.C.Count("stream-term", fmt.Sprint(term))
		if enc {
			t.Try("stream-encrypt", c09Case(8, term, 1, budget, 32768, 0, p, secret, salt, nil, c09Plan(t, n, style)), true)
		} else {
			msg := refStream(p, secret, salt)
			B := Bs[t.R.Intn(len(Bs))]
			t.C.Count("stream-B", fmt.Sprint(B))
			t.Try("stream-decrypt", c09Case(9, term, 0, budget, B, 0, msg, secret, nil, nil, c09Plan(t, len(msg), style)), true)
		}
	})
	// E2. the stream cipher's counter: CTR increments the whole 128-bit block, so an IV whose low 32 bits are close to 2^32 carries
	// into the next word after a few blocks.  The IV is the third MD5 of the key derivation: salts that give an IV ending in
	// ff ff ff xx are found by search (2^24 trials on average, all cores, once per run), the stream is long enough to cross.
	if salt, iv := c09CarrySalt(); salt != nil {
		n := 16*(256-int(iv[15])) + 40
		c.Note(fmt.Sprintf("counter carry: salt %x gives IV %x for the secret %q; streams of %d bytes cross the 2^32 boundary of its low word", salt, iv, c09CarrySecret, n))
		c.Each(4, func(i int, t *T) {
			p := rbytes(t, n+i*7)
			if i%2 == 0 {
				t.Try("stream-counter-carry", c09Case(8, 0, 1, 1<<30, 32768, 0, p, []byte(c09CarrySecret), salt, nil, c09Plan(t, len(p), 0)), true)
			} else {
				msg := refStream(p, []byte(c09CarrySecret), salt)
				t.Try("stream-counter-carry", c09Case(9, 0, 0, 1<<30, 32768, 0, msg, []byte(c09CarrySecret), nil, nil, c09Plan(t, len(msg), 0)), true)
			}
		})
	}
	// E3. who decides the size of one Write / one Read: a source with io.WriterTo (bytes.Reader, bytes.Buffer, strings.Reader,
	// bufio.Reader, the harness's own) makes io.Copy skip its 32 KiB buffer and hands every chunk to the cipher writer in ONE
	// Write of any size; a destination with io.ReaderFrom offers the cipher reader a buffer of any size.  Small streams go
	// through the full model (kind 8, d >= every chunk) ...
	wsl := []int{0, 1, 15, 16, 17, 33, 100, 255, 256, 257}
	if !c.Quick() {
		wsl = append(wsl, 511, 512, 513, 700)
	}
	c.Each(len(wsl)*(6*3+4)*c.N(1, 3), func(i int, t *T) {
		n := wsl[i%len(wsl)]
		j := (i / len(wsl)) % (6*3 + 4)
		p, secret, salt := rbytes(t, n), c09Secret(t), rbytes(t, 8)
		src, style, term := int64(1), 0, int64(0)
		if j < 18 {
			style, term = j%6, int64(j/6)
		} else {
			src = int64(j - 18 + 2)
		}
		plan := c09Plan(t, n, style)
		if n == 0 && src >= 2 {
			plan = nil
		}
		budget := int64(1 << 30)
		if t.R.Intn(6) == 0 && src != 5 {
			budget = int64(t.R.Intn(5))
		}
		t.C.Count("stream-source", c09SourceNames[src])
		t.Try("stream-encrypt-writerto-source", c09Case(8, term, 1, budget, int64(n)+B(n == 0), src, p, secret, salt, nil, plan), true)
	})
	// ... long ones (kinds 10 / 11: every byte judged, the model compared on code / length / write sizes).  One evaluation
	// costs about a second per 30 KiB, so the quick tier takes a selection: every kind of source with ONE Write just above
	// 32 KiB (io.Copy's buffer size) and, rotating with the seed, just above 64 KiB or of an arbitrary length; the lengths
	// 2^k+1 (k = 10..14: a scratch buffer of such a size assumed to bound a Write shows one byte above it); streams of
	// several io.Copy buffers through the plain reader; plans whole / 32 KiB pieces / a few large pieces; decryption into
	// buffers of 32768 (io.Copy), 40000, 65536 and stream size.  The thorough tier: the whole grid 2^k-1, 2^k, 2^k+1
	// (k = 10..17), 40000, 100000, 200000 x source x plan.
	bigPlan := func(t *T, n, style int) []int64 {
		switch style {
		case 0:
			return []int64{int64(n)}
		case 1: // pieces of io.Copy's buffer size
			var pl []int64
			for left := n; left > 0; left -= 32768 {
				pl = append(pl, 32768)
			}
			return pl
		default: // a few pieces, small and large
			var pl []int64
			for left := n; left > 0; {
				k := []int{1, 16, 1000, 4096, 32767, 32768, 32769, 40000, 70000}[t.R.Intn(9)]
				if t.R.Intn(3) == 0 {
					k = 1 + t.R.Intn(left)
				}
				if k > left {
					k = left
				}
				pl = append(pl, int64(k))
				left -= k
			}
			return pl
		}
	}
	type longSpec struct {
		enc         bool
		n           int   // plaintext length; -1: random in 32770..70000
		src         int64 // encryption: the source; decryption: 0
		style, term int   // -1: random
		B           int64 // decryption: 0 = random choice
	}
	var specs []longSpec
	if c.Quick() {
		rot := int(c.Seed % 5)
		if rot < 0 {
			rot = 0
		}
		for src := int64(1); src <= 5; src++ {
			specs = append(specs, longSpec{true, 32769, src, 0, 0, 0})
			switch (int(src) + rot) % 5 {
			case 0:
				specs = append(specs, longSpec{true, 65537, src, 0, 0, 0})
			case 1:
				specs = append(specs, longSpec{true, -1, src, 0, 0, 0})
			}
			specs = append(specs, longSpec{true, []int{1025, 4097, 8193, 16385, 32768}[(int(src)+rot)%5], src, 0, 0, 0})
		}
		specs = append(specs,
			longSpec{true, 32768, 1 + int64(rot), 0, 0, 0},
			longSpec{true, -1, 0, -1, -1, 0}, // several io.Copy buffers
			longSpec{true, -1, 1, 1, -1, 0},
			longSpec{true, -1, 1, 2, -1, 0},
			longSpec{false, 32769, 0, 0, -1, 32768},
			longSpec{false, -1, 0, 2, -1, 32768},
			longSpec{false, 40001, 0, 0, -1, 40000},
			longSpec{false, -1, 0, -1, -1, 65536},
			longSpec{false, 32769 + rot, 0, 0, -1, -1})
	} else {
		var big []int
		for _, p2 := range []int{1024, 4096, 8192, 16384, 32768, 65536, 131072} {
			big = append(big, p2-1, p2, p2+1)
		}
		big = append(big, 40000, 100000, 2*32768-16, 2*32768+16, 3*32768+5, 200000, -1)
		for _, n := range big {
			specs = append(specs, longSpec{true, n, 0, -1, -1, 0})
			for style := 0; style < 3; style++ {
				specs = append(specs, longSpec{true, n, 1, style, -1, 0}, longSpec{false, n, 0, style, -1, 0})
			}
			for src := int64(2); src <= 5; src++ {
				specs = append(specs, longSpec{true, n, src, 0, 0, 0})
			}
		}
	}
	c.Each(len(specs), func(i int, t *T) {
		sp := specs[i]
		n, style, term := sp.n, sp.style, int64(sp.term)
		if n < 0 {
			n = 32770 + t.R.Intn(37231)
		}
		if style < 0 {
			style = t.R.Intn(3)
		}
		if term < 0 {
			term = int64(t.R.Intn(3))
		}
		p, secret, salt := rbytes(t, n), c09Secret(t), rbytes(t, 8)
		if sp.enc {
			d := int64(n)
			if sp.src == 0 {
				d = 32768
			}
			t.C.Count("stream-source", c09SourceNames[sp.src]+" (long)")
			t.Try("stream-encrypt-long", c09Case(10, term, 1, 1<<30, d, sp.src, p, secret, salt, nil, bigPlan(t, n, style)), true)
			return
		}
		msg := refStream(p, secret, salt)
		B := sp.B
		if B == 0 {
			B = []int64{32768, 32768, 40000, 65536, int64(len(msg)), int64(len(msg)) + 1}[t.R.Intn(6)]
		} else if B < 0 {
			B = int64(len(msg)) + int64(t.R.Intn(2))
		}
		t.C.Count("stream-B", fmt.Sprint(B)+" (long)")
		t.Try("stream-decrypt-long", c09Case(11, term, 0, 1<<30, B, 0, msg, secret, nil, nil, bigPlan(t, len(msg), style)), true)
	})
	// C. every single-character corruption and every truncation of every kind of ciphertext
	nm := c.N(4, 12)
	type cmsg struct {
		kind       int64
		msg        []byte
		secret, ad []byte
	}
	var msgs []cmsg
	c.Each(1, func(_ int, t *T) {
		for j := 0; j < nm; j++ {
			n := []int{0, 5, 16, 21, 32, 47}[j%6]
			secret, salt, ad := c09Secret(t), rbytes(t, 8), rbytes(t, 1+t.R.Intn(8))
			p := rbytes(t, n)
			msgs = append(msgs,
				cmsg{1, []byte(base64.StdEncoding.EncodeToString(refCBCMessage(p, secret, salt))), secret, nil},
				cmsg{5, refCBCMessage(p, secret, salt), secret, nil},
				cmsg{3, []byte(hex.EncodeToString(refGCMMessage(p, secret, salt, ad))), secret, ad},
				cmsg{7, refGCMMessage(p, secret, salt, ad), secret, ad},
				cmsg{9, refStream(p, secret, salt), secret, nil})
		}
	})
	var cidx []int // start index of each message's corruptions: 2 per position + truncations
	tot := 0
	for _, m := range msgs {
		cidx = append(cidx, tot)
		tot += 3 * len(m.msg)
	}
	cidx = append(cidx, tot)
	c.Each(tot, func(i int, t *T) {
		j := 0
		for cidx[j+1] <= i {
			j++
		}
		m := msgs[j]
		k := i - cidx[j]
		pos, mode := k/3, k%3
		msg := append([]byte{}, m.msg...)
		must := int64(0)
		fam := ""
		switch mode {
		case 0: // truncation to pos characters
			msg = msg[:pos]
			fam = "truncate"
			must = 1
		case 1: // another valid symbol of the alphabet / one bit
			switch m.kind {
			case 1:
				const b64 = "ABCDEFGHIJKLMNOPQRSTUVWXYZabcdefghijklmnopqrstuvwxyz0123456789+/"
				for {
					ch := b64[t.R.Intn(64)]
					if ch != msg[pos] {
						msg[pos] = ch
						break
					}
				}
			case 3:
				const hx = "0123456789abcdef"
				cur := bytes.IndexByte([]byte(hx), bytes.ToLower(msg[pos : pos+1])[0])
				v := t.R.Intn(15)
				if v >= cur {
					v++
				}
				msg[pos] = hx[v]
			default:
				msg[pos] ^= 1 << uint(t.R.Intn(8))
			}
			fam = "corrupt-valid-symbol"
			must = 1
		default: // a symbol outside the alphabet / another byte
			switch m.kind {
			case 1:
				// any byte outside the standard base64 alphabet; half of the time a single-bit neighbour of the original
				for {
					b := byte(t.R.Intn(256))
					if t.R.Intn(2) == 0 {
						b = msg[pos] ^ (1 << uint(t.R.Intn(8)))
					}
					if !(b >= '0' && b <= '9' || b >= 'a' && b <= 'z' || b >= 'A' && b <= 'Z' || b == '+' || b == '/' || b == '=') {
						msg[pos] = b
						break
					}
				}
			case 3:
				// any byte that is not a hex digit; half of the time a single-bit neighbour of the original digit
				for {
					b := byte(t.R.Intn(256))
					if t.R.Intn(2) == 0 {
						b = msg[pos] ^ (1 << uint(t.R.Intn(8)))
					}
					if !(b >= '0' && b <= '9' || b >= 'a' && b <= 'f' || b >= 'A' && b <= 'F') {
						msg[pos] = b
						break
					}
				}
			default:
				msg[pos] = byte(int(msg[pos]) + 1 + t.R.Intn(255))
			}
			fam = "corrupt-other-symbol"
			must = 1
		}
		t.C.Count("corruption", fmt.Sprintf("kind%d-%s", m.kind, fam))
		switch m.kind {
		case 1:
			t.Try("decrypt-corrupted", c09Case(1, 0, 0, int64(t.R.Intn(4)), 0, 0, msg, m.secret, nil, nil, nil), true)
		case 5:
			t.Try("salt-cbc-decrypt-corrupted", c09Case(5, int64(t.R.Intn(2)), 0, 0, 0, 0, msg, m.secret, nil, nil, nil), true)
		case 3:
			t.Try("gcm-decrypt-corrupted", c09Case(3, 0, 0, int64(t.R.Intn(8)), 0, must, msg, m.secret, nil, m.ad, nil), true)
		case 7:
			t.Try("salt-gcm-decrypt-corrupted", c09Case(7, int64(t.R.Intn(2)), 0, 0, 0, must, msg, m.secret, nil, m.ad, nil), true)
		default:
			style := t.R.Intn(6)
			t.Try("stream-decrypt-corrupted", c09Case(9, int64(t.R.Intn(2)), 0, 1<<30, []int64{32768, 1, 5, 16}[t.R.Intn(4)], 0, msg, m.secret, nil, nil, c09Plan(t, len(msg), style)), true)
		}
	})
	// changed secret / additional data for the authenticated forms: must be rejected
	c.Each(c.N(200, 2000), func(i int, t *T) {
		p, secret, salt, ad := rbytes(t, t.R.Intn(40)), rbytes(t, 1+t.R.Intn(20)), rbytes(t, 8), rbytes(t, 1+t.R.Intn(10))
		msg := refGCMMessage(p, secret, salt, ad)
		s2, a2 := append([]byte{}, secret...), append([]byte{}, ad...)
		fam := "secret-changed"
		switch i % 4 {
		case 0:
			s2[t.R.Intn(len(s2))] ^= 1 << uint(t.R.Intn(8))
		case 1:
			a2[t.R.Intn(len(a2))] ^= 1 << uint(t.R.Intn(8))
			fam = "ad-changed"
		case 2:
			a2 = a2[:len(a2)-1]
			fam = "ad-truncated"
		default:
			s2 = append(s2, 0)
			fam = "secret-extended"
		}
		t.C.Count("gcm-tamper", fam)
		if i%2 == 0 {
			t.Try("gcm-secret-or-ad-changed", c09Case(7, int64(t.R.Intn(2)), 0, 0, 0, 1, msg, s2, nil, a2, nil), true)
		} else {
			t.Try("gcm-secret-or-ad-changed", c09Case(3, 0, 0, int64(t.R.Intn(8)), 0, 1, []byte(hex.EncodeToString(msg)), s2, nil, a2, nil), true)
		}
	})
	// D. garbage and boundary-length inputs for every decryption entry point
	lens := []int{0, 1, 7, 8, 9, 15, 16, 17, 31, 32, 33, 47, 48, 49, 64}
	c.Each(c.N(4000, 60000), func(i int, t *T) {
		kind := int64([]int{1, 3, 5, 7, 9}[i%5])
		n := lens[t.R.Intn(len(lens))]
		if t.R.Intn(4) == 0 {
			n = t.R.Intn(100)
		}
		raw := rbytes(t, n)
		fam := "garbage"
		if t.R.Intn(2) == 0 { // the right magic in front
			copy(raw, "Salted__")
			fam = "garbage-with-magic"
		}
		msg := raw
		switch kind {
		case 1:
			switch t.R.Intn(3) {
			case 0:
				msg = []byte(base64.StdEncoding.EncodeToString(raw))
			case 1:
				msg = []byte(base64.StdEncoding.EncodeToString(raw))
				if len(msg) > 0 {
					msg = msg[:len(msg)-1-t.R.Intn(minInt(len(msg), 3))]
				}
				fam += "-b64-cut"
			default:
				fam += "-raw"
			}
		case 3:
			switch t.R.Intn(3) {
			case 0:
				msg = []byte(hex.EncodeToString(raw))
			case 1:
				msg = []byte(hex.EncodeToString(raw))
				if len(msg) > 0 {
					msg = msg[:len(msg)-1]
				}
				fam += "-hex-odd"
			default:
				fam += "-raw"
			}
		}
		t.C.Count("garbage", fmt.Sprintf("kind%d-%s", kind, fam))
		if kind == 9 {
			t.Try("garbage", c09Case(9, int64(t.R.Intn(3)), 0, 1<<30, []int64{32768, 1, 5, 16, 17}[t.R.Intn(5)], 0, msg, c09Secret(t), nil, nil, c09Plan(t, len(msg), t.R.Intn(6))), n >= 16)
			return
		}
		t.Try("garbage", c09Case(kind, int64(t.R.Intn(2)), 0, int64(t.R.Intn(8)), 0, 0, msg, c09Secret(t), nil, rbytes(t, t.R.Intn(4)), nil), n >= 16)
	})
	// thorough: the Go output is piped through `openssl enc -d -aes-256-cbc -md md5` when the binary exists
	if !c.Quick() {
		c09OpenSSL(c)
	}
}

func c09OpenSSL(c *Ctx) {
	bin := "/root/miniconda/bin/openssl"
	if _, err := os.Stat(bin); err != nil {
		c.Note("openssl binary not present: interoperability sample skipped")
		return
	}
	okc, bad := 0, 0
	c.Each(1, func(_ int, t *T) {
		for j := 0; j < 40; j++ {
			p, secret := rbytes(t, t.R.Intn(100)), []byte(fmt.Sprintf("pw%d-%d", j, t.R.Intn(1000)))
			ct, err := cryptz.Encrypt(p, secret)
			if err != nil {
				bad++
				continue
			}
			raw, _ := base64.StdEncoding.DecodeString(string(ct))
			cmd := exec.Command(bin, "enc", "-d", "-aes-256-cbc", "-md", "md5", "-pass", "pass:"+string(secret))
			cmd.Stdin = bytes.NewReader(raw)
			out, err := cmd.Output()
			if err == nil && bytes.Equal(out, p) {
				okc++
			} else {
				bad++
			}
		}
	})
	c.Note(fmt.Sprintf("openssl enc -d -aes-256-cbc -md md5 on 40 outputs of cryptz.Encrypt: %d decrypted to the plaintext, %d did not", okc, bad))
	if bad > 0 {
		// make it a failure: a case whose implementation output can never match
		c.Each(1, func(_ int, t *T) { t.Try("openssl-interop", []int64{-1}, true) })
	}
}

func c09Describe(in []int64) string {
	if len(in) < 6 {
		return "?"
	}
	names := []string{"Encrypt", "Decrypt", "GCMEncrypt", "GCMDecrypt", "SaltBySecretCBCEncrypt", "SaltBySecretCBCDecrypt", "SaltBySecretGCMEncrypt", "SaltBySecretGCMDecrypt", "EncryptStreamTo", "DecryptStreamTo", "EncryptStreamTo (long stream)", "DecryptStreamTo (long stream)"}
	k := int(in[0])
	if k < 0 || k >= len(names) {
		return "?"
	}
	l1, r := GetList(in[6:])
	l2, r := GetList(r)
	l3, r := GetList(r)
	l4, r := GetList(r)
	l5, _ := GetList(r)
	s := fmt.Sprintf("%s: text %q (%d bytes), secret %q", names[k], ToBytes(l1), len(l1), ToBytes(l2))
	if k >= 10 {
		s = fmt.Sprintf("%s: text of %d bytes beginning %q, secret %q", names[k], len(l1), ToBytes(clip(l1, 32)), ToBytes(l2))
	}
	if k <= 7 && c09Delayed(exact(ToBytes(l1)), exact(ToBytes(l2))) {
		s += "; the result is read AFTER further calls of the same function and its sibling on other inputs (c09Disturb): it must not share memory with what a later call writes"
	}
	if k == 0 || k == 2 || k == 4 || k == 6 || k == 8 || k == 10 {
		s += fmt.Sprintf(", salt %x, random source ok=%d", ToBytes(l3), in[2])
	}
	if k == 2 || k == 3 || k == 6 || k == 7 {
		s += fmt.Sprintf(", ad %x, mustfail=%d", ToBytes(l4), in[5])
	}
	if k == 5 || k == 7 {
		s += fmt.Sprintf(", reuseCipherText=%d", in[1])
	}
	if k >= 8 {
		s += fmt.Sprintf(", reader plan %v, terminal %d (0 EOF alone, 1 EOF with last data, 2 error), writer accepts %d writes, read buffer %d", clip(l5, 40), in[1], in[3], in[4])
		if (k == 8 || k == 10) && in[5] >= 0 && int(in[5]) < len(c09SourceNames) {
			s += ", source: " + c09SourceNames[in[5]]
			if in[5] >= 1 {
				s += " (every chunk of the plan reaches the cipher writer in one Write)"
			}
		}
	}
	return s
}

func c09Shrink(in []int64) [][]int64 {
	if len(in) < 6 {
		return nil
	}
	l1, r := GetList(in[6:])
	l2, r := GetList(r)
	l3, r := GetList(r)
	l4, r := GetList(r)
	l5, _ := GetList(r)
	mk := func(t, s, a []int64, plan []int64) []int64 {
		return c09Case(in[0], in[1], in[2], in[3], in[4], in[5], ToBytes(t), ToBytes(s), ToBytes(l3), ToBytes(a), plan)
	}
	var out [][]int64
	if len(l5) > 1 {
		out = append(out, mk(l1, l2, l4, []int64{int64(len(l1))}))
		out = append(out, mk(l1, l2, l4, l5[:len(l5)/2]))
	}
	if len(l2) > 0 {
		out = append(out, mk(l1, nil, l4, l5), mk(l1, l2[:len(l2)/2], l4, l5))
	}
	if len(l4) > 0 {
		out = append(out, mk(l1, l2, nil, l5))
	}
	if len(l1) > 0 && (in[0]%2 == 0 || in[0] == 9 || in[0] == 11) {
		out = append(out, mk(l1[:len(l1)/2], l2, l4, l5), mk(l1[:len(l1)-1], l2, l4, l5))
	}
	return out
}

// Long streams (kinds 10 / 11: cases of up to a few 10^5 integers): the OCaml driver and the extracted model recurse once
// per list element (List.map, app, firstn, ...) and the default 8 MiB stack of the driver process does not suffice.  The
// model processes are children of this one and inherit its limits: raise the soft stack limit before they are started
// (the Go runtime itself does not use it).
func init() {
	isC09 := false
	for _, a := range os.Args[1:] {
		isC09 = isC09 || a == "C09"
	}
	if !isC09 {
		return
	}
	var l syscall.Rlimit
	if syscall.Getrlimit(syscall.RLIMIT_STACK, &l) != nil {
		return
	}
	want := uint64(4 << 30)
	if l.Max < want {
		want = l.Max
	}
	if l.Cur < want {
		l.Cur = want
		syscall.Setrlimit(syscall.RLIMIT_STACK, &l)
	}
}

func init() {
	Register(&Prop{ID: "C09", Num: 9, SpecMode: "rel", Gen: c09Gen, Impl: c09Impl, Oracle: stdOracle, Pure: true,
		Shrink: c09Shrink, Describe: c09Describe, XProj: c09XProj,
		Rule: "Encrypt / SaltBySecretCBCEncrypt / GCMEncrypt / SaltBySecretGCMEncrypt on every plaintext length 0..80 (thorough 0..160) with the salt pinned through crypto/rand.Reader (plus a run with the real source whose salt is read back and re-pinned: outputs must agree), string and []byte secrets; Decrypt / GCMDecrypt / SaltBySecret*Decrypt (reuse on/off, final buffer compared) on messages built independently (EVP_BytesToKey + library CBC/GCM); every single-character corruption (another symbol of the alphabet / a foreign symbol / one bit) and every truncation of base64, hex, raw CBC, raw GCM and stream ciphertexts; changed secret / additional data for GCM (must be rejected); garbage and boundary-length inputs with and without the magic; streams: chunk plans whole / 1-byte / 7-byte / 16+rest / random with zero-length reads / random, terminal EOF alone / EOF with the last data / injected error, read buffers 32768 (io.Copy) and 1,5,16,17,64 (io.ReaderFrom), writers failing after k writes; a failing random source; sources with io.WriterTo (the harness's own with every plan, bytes.Reader, bytes.Buffer, strings.Reader, bufio.Reader: io.Copy bypasses its buffer, each chunk is one Write of its full size) on short streams (0..257 bytes, full model) and on long ones (quick: each source with one Write of 32769 bytes, two of them also 65537 / a random length up to 70000, lengths 2^k+1 for k = 10..14 and 32768, several-buffer streams through the plain reader, plans whole / 32 KiB pieces / mixed large pieces, decryption into buffers of 32768, 40000, 65536, stream size; thorough: the grid 2^k-1, 2^k, 2^k+1 for k = 10..17, 40000, 100000, 200000 x source x plan): there every byte is judged, the model is compared on result code, number of bytes and write sizes (kinds 10/11). The model computes with the real AES/GCM/MD5/base64 through the oracle table; the judge derives the expected bytes independently (EVP definition, PKCS#7 definition, library whole-message CBC/CTR/GCM). Lifetime of results: for half of the cases of kinds 0..7 (parity of length + byte sum of text and secret) the returned slice is read only after the same function and its sibling were called again on two other well-formed inputs (same and larger size), for the other half at once; a sample of the cases is re-run from 16 goroutines at the same time (Prop.Pure; crypto/rand.Reader pinned under a mutex). distinct = distinct case; non-trivial = the input is at least a header long or an encryption/stream case"})
}
