package main

import (
	"fmt"
	"iter"
	"math"
	"math/bits"
	"math/rand"
	"reflect"
	"strings"
	"sync"
	"sync/atomic"
	"unsafe"

	"github.com/welllog/golib/listz"
	"github.com/welllog/golib/typez"
)

// C02: listz.SkipList / listz.SkipListWithCmp as ordered maps.
// case = kind :: nw :: (hi lo) x nw :: ops, op = [code a b c]     (see coq/Run/C02.v for the codes)
// The private *rand.Rand of the list is replaced (reflect + unsafe) by one whose Source64 replays the
// scripted words; the model receives the same words.  Tower heights (len(node.next)) and the `level`
// field are read back through reflection by op 18.
// Op 19 g R as the first operation ("independent lists", c02Rep): the rest of the sequence is executed R times in a row
// on each of g+1 lists, every list by its own goroutine, all at once, and NOTHING of the lists is touched by the harness
// (they keep the random source the library gave them): a list used by one goroutine is a sorted map whatever other lists
// of the process are doing.

// Op 20 o (SkipListWithCmp over int keys, kinds 4-6): Init with ANOTHER comparator (0 ascending, 1 descending, 2 composite
// (k%4, k)) on the key representation of the kind; the list must from then on be the sorted map of the new order.

// ---- scripted Source64
type c02Script struct {
	ws []uint64
	i  int
}

func (s *c02Script) Int63() int64 { return int64(s.Uint64() >> 1) }
func (s *c02Script) Seed(int64)   {}
func (s *c02Script) Uint64() uint64 {
	if s.i < len(s.ws) {
		k := s.ws[s.i]
		s.i++
		return k
	}
	return 0
}
func (s *c02Script) peek() uint64 {
	if s.i < len(s.ws) {
		return s.ws[s.i]
	}
	return 0
}

// string keys: bijective base-3 numerals over "abc", least significant digit first
func c02Str(z int64) string {
	var b []byte
	for z > 0 {
		b = append(b, byte('a'+(z-1)%3))
		z = (z - 1) / 3
	}
	return string(b)
}
func c02StrBack(s string) int64 {
	var z int64
	for i := len(s) - 1; i >= 0; i-- {
		z = z*3 + int64(s[i]-'a') + 1
	}
	return z
}

// ---- reflection helpers on *SkipList[K,V] / *SkipListWithCmp[K,V]
var c02HookOK = true // false when the private fields could not be found: heights are then not compared

// fields are found by type (names are hints, harness/fields.go): rand = the *rand.Rand field; head = the field that is a
// node (a struct with a slice of pointers to itself) or a pointer to one; next = that slice; level = the int field that
// reads 1 on a list made by the constructor (len reads 0)
func c02Field(ptr interface{}, name string) (v reflect.Value, ok bool) {
	defer func() {
		if recover() != nil {
			ok = false
		}
	}()
	return c02FieldV(reflect.ValueOf(ptr).Elem(), name)
}
func c02FieldV(e reflect.Value, name string) (v reflect.Value, ok bool) {
	defer func() {
		if recover() != nil {
			ok = false
		}
	}()
	t := e.Type()
	isNode := func(nt reflect.Type) bool {
		if nt.Kind() == reflect.Ptr {
			nt = nt.Elem()
		}
		if nt.Kind() != reflect.Struct {
			return false
		}
		for i := 0; i < nt.NumField(); i++ {
			ft := nt.Field(i).Type
			if ft.Kind() == reflect.Slice && ft.Elem().Kind() == reflect.Ptr && ft.Elem().Elem() == nt {
				return true
			}
		}
		return false
	}
	var f reflect.StructField
	switch name {
	case "rand":
		f, ok = PickField(t, []string{"rand", "rnd", "rng"}, func(g reflect.StructField) bool { return g.Type == reflect.TypeOf((*rand.Rand)(nil)) })
	case "head":
		f, ok = PickField(t, []string{"head", "root"}, func(g reflect.StructField) bool { return isNode(g.Type) })
	case "next":
		f, ok = PickField(t, []string{"next", "forward", "tower"}, func(g reflect.StructField) bool {
			return g.Type.Kind() == reflect.Slice && g.Type.Elem().Kind() == reflect.Ptr && g.Type.Elem().Elem() == t
		})
	case "level":
		f, ok = PickField(t, []string{"level", "height"}, func(g reflect.StructField) bool {
			return g.Type.Kind() == reflect.Int && !strings.Contains(strings.ToLower(g.Name), "len") && g.Name != "size" && g.Name != "count" && g.Name != "n"
		})
	default:
		f, ok = t.FieldByName(name)
	}
	if !ok {
		return reflect.Value{}, false
	}
	return e.FieldByIndex(f.Index), true
}
func c02Inject(ptr interface{}, src *c02Script) bool {
	f, ok := c02Field(ptr, "rand")
	if !ok || f.Type() != reflect.TypeOf((*rand.Rand)(nil)) {
		return false
	}
	reflect.NewAt(f.Type(), unsafe.Pointer(f.UnsafeAddr())).Elem().Set(reflect.ValueOf(rand.New(src)))
	return true
}
func c02IsZero(ptr interface{}) bool { // s.head.next == nil
	h, ok := c02Field(ptr, "head")
	if !ok {
		return false
	}
	if h.Kind() == reflect.Ptr {
		if h.IsNil() {
			return true
		}
		h = h.Elem()
	}
	n, ok := c02FieldV(h, "next")
	return ok && n.Kind() == reflect.Slice && n.IsNil()
}
func c02Level(ptr interface{}) int64 {
	f, ok := c02Field(ptr, "level")
	if !ok {
		return -1
	}
	return f.Int()
}
func c02Height(node interface{}) int64 {
	f, ok := c02Field(node, "next")
	if !ok {
		return -1
	}
	return int64(f.Len())
}
func c02RawLevel(w uint64) int { // what the model computes for the word (only used to steer the lazy-init retry)
	k := w & (1<<32 - 1)
	return ((32 - bits.Len64(k)) & 31) + 1
}

// ---- the two variants behind one interface
type c02List interface {
	Do(code, a, b, c int64, out []int64) []int64
}

type c02Plain[K typez.Ordered] struct {
	held iter.Seq2[K, int64] // an All() sequence obtained EARLIER (at the first operation, then after every All): consumed by the next All op — the sequence is a view of the list at the time it is walked, not at the time it was made
	s    *listz.SkipList[K, int64]
	to   func(int64) K
	back func(K) int64
	src  *c02Script
	own  bool // the list keeps the random source the library gave it (op 19)
}
type c02Cmp[K any] struct {
	held iter.Seq2[K, int64]
	s    *listz.SkipListWithCmp[K, int64]
	cmp  func(K, K) int
	to   func(int64) K
	back func(K) int64
	src  *c02Script
	own  bool
	// optional: the comparator of order o (0 ascending, 1 descending, 2 composite) on this list's key representation (op 20)
	cmps func(o int64) func(K, K) int
	// optional: the representative of a key handed to the QUERYING calls (Get, GetNode, Remove, RangeWithStart/Range): equal
	// to to(k) under the comparator but a different value.  Keys the list hands out must be the stored ones.
	probe func(int64) K
}

func (p *c02Cmp[K]) q(k int64) K {
	if p.probe != nil {
		return p.probe(k)
	}
	return p.to(k)
}

func (p *c02Plain[K]) set(mode int, k K, v int64) bool {
	if p.own {
		return c02SetMode(p.s, mode, k, v)
	}
	zero := c02IsZero(p.s)
	if zero && c02HookOK {
		// lazyInit creates a time-seeded generator inside this very call: the first tower (height 1 or 2)
		// cannot be scripted.  Redo the call on fresh zero values until the drawn height is the scripted one.
		want := c02RawLevel(p.src.peek())
		if want > 2 {
			want = 2
		}
		var r bool
		for try := 0; try < 400; try++ {
			var f listz.SkipList[K, int64]
			early := f.All() // taken from the zero value, before the first binding exists
			r = c02SetMode(&f, mode, k, v)
			p.s = &f
			p.held = early
			h := f.Head()
			if h == nil || int(c02Height(h)) == want {
				break
			}
		}
		if p.s.Len() > 0 {
			p.src.Uint64() // the model consumed the word
		}
		c02Inject(p.s, p.src)
		return r
	}
	r := c02SetMode(p.s, mode, k, v)
	if zero {
		c02Inject(p.s, p.src)
	}
	return r
}
func c02SetMode[K typez.Ordered](s *listz.SkipList[K, int64], mode int, k K, v int64) bool {
	switch mode {
	case 0:
		s.Set(k, v)
		return true
	case 1:
		return s.SetX(k, v)
	}
	return s.SetNx(k, v)
}

func (p *c02Plain[K]) Do(code, a, b, c int64, out []int64) []int64 {
	s := p.s
	if p.held == nil {
		p.held = s.All()
	}
	cb := func(l *[]int64, stop int64) func(K, int64) bool {
		n := int64(0)
		return func(k K, v int64) bool {
			*l = append(*l, p.back(k), v)
			n++
			return !(stop > 0 && n >= stop)
		}
	}
	node := func(n *listz.SkipNode[K, int64]) []int64 {
		if n == nil {
			return []int64{0}
		}
		o := []int64{1, p.back(n.Key()), n.Value()}
		if nx := n.Next(); nx != nil {
			return append(o, 1, p.back(nx.Key()))
		}
		return append(o, 0)
	}
	switch code {
	case 0:
		s.Init()
		if !p.own {
			c02Inject(s, p.src)
		}
	case 1:
		p.set(0, p.to(a), b)
	case 2:
		out = append(out, B(p.set(2, p.to(a), b)))
	case 3:
		out = append(out, B(p.set(1, p.to(a), b)))
	case 4:
		v, ok := s.Get(p.to(a))
		out = append(out, v, B(ok))
	case 5:
		out = append(out, node(s.GetNode(p.to(a)))...)
	case 6:
		n := s.GetNode(p.to(a))
		if n != nil {
			n.SetValue(b)
		}
		out = append(out, B(n != nil))
	case 7:
		out = append(out, int64(s.Len()))
	case 8:
		out = append(out, node(s.Head())...)
	case 9:
		var l []int64
		for n, i := s.Head(), 0; n != nil && i < 1<<20; n, i = n.Next(), i+1 {
			l = append(l, p.back(n.Key()), n.Value())
		}
		out = append(out, PutList(l)...)
	case 10:
		v, ok := s.Remove(p.to(a))
		out = append(out, v, B(ok))
	case 11:
		s.Clear()
	case 12:
		var l []int64
		s.Range(cb(&l, a))
		out = append(out, PutList(l)...)
	case 13:
		var l []int64
		n := int64(0)
		seq := s.All()
		if p.held != nil && (a+b+c)%2 == 0 {
			seq = p.held
		}
		for k, v := range seq {
			l = append(l, p.back(k), v)
			n++
			if a > 0 && n >= a {
				break
			}
		}
		p.held = s.All()
		out = append(out, PutList(l)...)
	case 14:
		var l []int64
		for _, k := range s.Keys() {
			l = append(l, p.back(k))
		}
		out = append(out, PutList(l)...)
	case 15:
		out = append(out, PutList(s.Values())...)
	case 16:
		var l []int64
		s.RangeWithStart(p.to(a), cb(&l, b))
		out = append(out, PutList(l)...)
	case 17:
		var l []int64
		s.RangeWithRange(p.to(a), p.to(b), cb(&l, c))
		out = append(out, PutList(l)...)
	case 18:
		var hs []int64
		for n, i := s.Head(), 0; n != nil && i < 1<<20; n, i = n.Next(), i+1 {
			hs = append(hs, c02Height(n))
		}
		out = append(out, c02Level(s))
		out = append(out, PutList(hs)...)
	}
	return out
}

func (p *c02Cmp[K]) Do(code, a, b, c int64, out []int64) []int64 {
	s := p.s
	if p.held == nil {
		p.held = s.All()
	}
	cb := func(l *[]int64, stop int64) func(K, int64) bool {
		n := int64(0)
		return func(k K, v int64) bool {
			*l = append(*l, p.back(k), v)
			n++
			return !(stop > 0 && n >= stop)
		}
	}
	node := func(n *listz.SkipNodeCmp[K, int64]) []int64 {
		if n == nil {
			return []int64{0}
		}
		o := []int64{1, p.back(n.Key()), n.Value()}
		if nx := n.Next(); nx != nil {
			return append(o, 1, p.back(nx.Key()))
		}
		return append(o, 0)
	}
	switch code {
	case 0:
		s.Init(p.cmp)
		if !p.own {
			c02Inject(s, p.src)
		}
	case 20:
		p.cmp = p.cmps(a)
		s.Init(p.cmp)
		if !p.own {
			c02Inject(s, p.src)
		}
	case 1:
		s.Set(p.to(a), b)
	case 2:
		out = append(out, B(s.SetNx(p.to(a), b)))
	case 3:
		out = append(out, B(s.SetX(p.to(a), b)))
	case 4:
		v, ok := s.Get(p.q(a))
		out = append(out, v, B(ok))
	case 5:
		out = append(out, node(s.GetNode(p.q(a)))...)
	case 6:
		n := s.GetNode(p.q(a))
		if n != nil {
			n.SetValue(b)
		}
		out = append(out, B(n != nil))
	case 7:
		out = append(out, int64(s.Len()))
	case 8:
		out = append(out, node(s.Head())...)
	case 9:
		var l []int64
		for n, i := s.Head(), 0; n != nil && i < 1<<20; n, i = n.Next(), i+1 {
			l = append(l, p.back(n.Key()), n.Value())
		}
		out = append(out, PutList(l)...)
	case 10:
		v, ok := s.Remove(p.q(a))
		out = append(out, v, B(ok))
	case 11:
		s.Clear()
	case 12:
		var l []int64
		s.Range(cb(&l, a))
		out = append(out, PutList(l)...)
	case 13:
		var l []int64
		n := int64(0)
		seq := s.All()
		if p.held != nil && (a+b+c)%2 == 0 {
			seq = p.held
		}
		for k, v := range seq {
			l = append(l, p.back(k), v)
			n++
			if a > 0 && n >= a {
				break
			}
		}
		p.held = s.All()
		out = append(out, PutList(l)...)
	case 14:
		var l []int64
		for _, k := range s.Keys() {
			l = append(l, p.back(k))
		}
		out = append(out, PutList(l)...)
	case 15:
		out = append(out, PutList(s.Values())...)
	case 16:
		var l []int64
		s.RangeWithStart(p.q(a), cb(&l, b))
		out = append(out, PutList(l)...)
	case 17:
		var l []int64
		s.RangeWithRange(p.q(a), p.q(b), cb(&l, c))
		out = append(out, PutList(l)...)
	case 18:
		var hs []int64
		for n, i := s.Head(), 0; n != nil && i < 1<<20; n, i = n.Next(), i+1 {
			hs = append(hs, c02Height(n))
		}
		out = append(out, c02Level(s))
		out = append(out, PutList(hs)...)
	}
	return out
}

func c02Sign(x int64) int {
	if x < 0 {
		return -1
	}
	if x > 0 {
		return 1
	}
	return 0
}

// the comparator of order o on the keys k = key(x) (0 ascending, 1 descending with magnitudes other than 1, 2 composite (k%4, k))
func c02Order(o int64, key func(int64) int64) func(a, b int64) int {
	switch o {
	case 0:
		return func(a, b int64) int { return c02Sign(key(a) - key(b)) }
	case 1:
		return func(a, b int64) int { return int(key(b) - key(a)) }
	}
	return func(a, b int64) int {
		a, b = key(a), key(b)
		if a%4 != b%4 {
			return c02Sign(a%4 - b%4)
		}
		return c02Sign(a - b)
	}
}

// c02Parse splits a case; ok=false when it is malformed
func c02Parse(in []int64) (kind int64, ws []uint64, ops []int64, ok bool) {
	if len(in) < 2 || in[0] < 0 || in[0] > 7 || in[0] == 1 || in[0] == 2 || in[1] < 0 || int64(len(in)) < 2+2*in[1] {
		return 0, nil, nil, false
	}
	nw := int(in[1])
	for i := 0; i < nw; i++ {
		ws = append(ws, uint64(in[2+2*i])<<32+uint64(in[3+2*i]))
	}
	ops = in[2+2*nw:]
	if len(ops)%4 != 0 {
		return 0, nil, nil, false
	}
	return in[0], ws, ops, true
}

func c02Impl(in []int64) []int64 {
	kind, ws, ops, ok := c02Parse(in)
	if !ok {
		return []int64{BADCASE}
	}
	for i := 0; i+3 < len(ops); i += 4 {
		if ops[i] < 0 || ops[i] > 20 || (ops[i] == 19 && i > 0) {
			return []int64{BADCASE}
		}
		if ops[i] == 20 && (kind < 4 || kind > 6 || ops[i+1] < 0 || ops[i+1] > 2 || ops[0] == 19) {
			return []int64{BADCASE}
		}
	}
	if len(ops) >= 4 && ops[0] == 19 {
		return c02Rep(kind, ws, ops)
	}
	l := c02Make(kind, ws, ops, false)
	var out []int64
	for i := 0; i+3 < len(ops); i += 4 {
		out = l.Do(ops[i], ops[i+1], ops[i+2], ops[i+3], out)
	}
	if kind == 0 && len(ops)%8 == 0 && !c02ValueTypesOK() {
		out = append(out, -1000036) // see c02ValueTypesOK
	}
	return out
}

// c02Rep: op 19 g R followed by the round.  g+1 lists of the case's instantiation, each made and driven by a goroutine of its
// own (the round R times in a row), all started together; the harness does not touch the lists (no scripted source, no
// reflection).  Per list: results of rounds 1, 2, 3 ++ [how many of the rounds 4..R gave the results of round 3 -- a round
// starts in the state its predecessor left, which is the same from round 3 on (Run/C02.v checks that)]; the case's output is that of the first list ++ [how many of the other lists gave exactly the same].  A panic
// in any of the goroutines is a panic of the case.
func c02Rep(kind int64, ws []uint64, ops []int64) []int64 {
	g, R, body := ops[1], ops[2], ops[4:]
	if g < 1 || g > 63 || R < 3 || R > 10000000 {
		return []int64{BADCASE}
	}
	for i := 0; i+3 < len(body); i += 4 {
		if body[i] == 18 {
			return []int64{BADCASE}
		}
	}
	n := int(g) + 1
	outs := make([][]int64, n)
	var stop atomic.Bool
	var panicked atomic.Value
	start := make(chan struct{})
	var wg sync.WaitGroup
	for j := 0; j < n; j++ {
		wg.Add(1)
		go func(j int) {
			defer wg.Done()
			defer func() {
				if r := recover(); r != nil {
					panicked.CompareAndSwap(nil, fmt.Sprint(r))
					stop.Store(true)
				}
			}()
			l := c02Make(kind, ws, ops, true)
			<-start
			var o12, o3, buf []int64
			same := int64(0)
			for r := int64(1); r <= R && !stop.Load(); r++ {
				buf = buf[:0]
				for i := 0; i+3 < len(body); i += 4 {
					buf = l.Do(body[i], body[i+1], body[i+2], body[i+3], buf)
				}
				switch {
				case r <= 2:
					o12 = append(o12, buf...)
				case r == 3:
					o3 = append([]int64{}, buf...)
				case eqTok(buf, o3):
					same++
				}
			}
			outs[j] = append(append(o12, o3...), same)
		}(j)
	}
	close(start)
	wg.Wait()
	if p := panicked.Load(); p != nil {
		panic("a list driven by one goroutine alone panicked while other lists were in use: " + p.(string))
	}
	eq := int64(0)
	for j := 1; j < n; j++ {
		if eqTok(outs[j], outs[0]) {
			eq++
		}
	}
	return append(outs[0], eq)
}

// the list of a case (own: it keeps the random source the library gave it)
func c02Make(kind int64, ws []uint64, ops []int64, own bool) c02List {
	src := &c02Script{ws: ws}
	ident := func(x int64) int64 { return x }
	var l c02List
	switch kind {
	case 0:
		l = &c02Plain[int64]{s: new(listz.SkipList[int64, int64]), to: ident, back: ident, src: src, own: own}
	case 3:
		l = &c02Plain[string]{s: new(listz.SkipList[string, int64]), to: c02Str, back: c02StrBack, src: src, own: own}
	case 4:
		// keys 2^31 apart, comparator `a - b` (a legal total order on these keys; the differences are multiples of 2^31):
		// a comparator result narrowed to 32 bits flips its sign or becomes 0
		l = &c02Cmp[int64]{s: new(listz.SkipListWithCmp[int64, int64]), to: func(x int64) int64 { return x << 31 }, back: func(k int64) int64 { return k >> 31 }, src: src, own: own,
			cmps: func(o int64) func(a, b int64) int { return c02Order(o, func(x int64) int64 { return x >> 31 }) },
			cmp:  func(a, b int64) int { return int(a - b) }}
	case 5:
		rev := func(a, b int64) int { return int(b - a) } // reversed; magnitude other than 1 on purpose
		if (len(ws)+len(ops)/4)%2 == 1 {
			// the extreme results a comparator may return: math.MinInt for "less" (its negation is itself), MaxInt for "greater"
			rev = func(a, b int64) int {
				switch {
				case b < a:
					return math.MinInt
				case b > a:
					return math.MaxInt
				}
				return 0
			}
		}
		l = &c02Cmp[int64]{s: new(listz.SkipListWithCmp[int64, int64]), to: ident, back: ident, src: src, cmp: rev, own: own,
			cmps: func(o int64) func(a, b int64) int { return c02Order(o, ident) }}
	case 6:
		// keys are stored as 2k and asked for as 2k+1; the comparator looks at k only (values that are equal under the
		// comparator but distinguishable: case-insensitive strings, records ordered by an id).  An odd key coming out of the
		// list is a probe handed back instead of the stored key: token -1000034.
		l = &c02Cmp[int64]{s: new(listz.SkipListWithCmp[int64, int64]), src: src, own: own,
			cmps: func(o int64) func(a, b int64) int { return c02Order(o, func(x int64) int64 { return x >> 1 }) },
			to:   func(k int64) int64 { return 2 * k }, probe: func(k int64) int64 { return 2*k + 1 },
			back: func(x int64) int64 {
				if x&1 != 0 {
					return -1000034
				}
				return x >> 1
			},
			cmp: func(a, b int64) int {
				a, b = a>>1, b>>1
				if a%4 != b%4 {
					return c02Sign(a%4 - b%4)
				}
				return c02Sign(a - b)
			}}
	default:
		l = &c02Cmp[string]{s: new(listz.SkipListWithCmp[string, int64]), to: c02Str, back: c02StrBack, src: src, own: own,
			cmp: strings.Compare}
	}
	return l
}

// The value type of the map is arbitrary (V any): values that are == but distinguishable (+0 and -0), values that cannot
// be compared at all (slices, maps, funcs).  A fixed script on SkipList[int, float64], SkipList[int, []int] and
// SkipListWithCmp[int, map[int]int]: Set over an existing key stores exactly the value given, nothing panics.  It is not a case
// of the model (whose values are integers); a failure is reported as the token -1000036 at the end of a case's output.
func c02ValueTypesOK() (ok bool) {
	defer func() {
		if recover() != nil {
			ok = false
		}
	}()
	negZero := math.Copysign(0, -1)
	f := listz.NewSkipList[int, float64]()
	f.Set(1, 0)
	f.Set(1, negZero)
	if v, _ := f.Get(1); !math.Signbit(v) {
		return false
	}
	f.SetX(1, 0)
	if v, _ := f.Get(1); math.Signbit(v) {
		return false
	}
	f.Set(2, math.NaN())
	f.Set(2, 5)
	if v, _ := f.Get(2); v != 5 {
		return false
	}
	sl := listz.NewSkipList[int, []int]()
	sl.Set(1, []int{1})
	sl.Set(1, []int{2, 3})
	sl.SetX(1, []int{4})
	sl.SetNx(1, []int{5})
	if v, _ := sl.Get(1); len(v) != 1 || v[0] != 4 {
		return false
	}
	var m listz.SkipListWithCmp[int, map[int]int]
	m.Init(func(a, b int) int { return a - b })
	m.Set(3, map[int]int{1: 1})
	m.Set(3, map[int]int{2: 2})
	if v, _ := m.Get(3); v[2] != 2 {
		return false
	}
	return true
}

var c02Names = []string{"Init", "Set", "SetNx", "SetX", "Get", "GetNode", "NodeSetValue", "Len", "Head", "HeadNextWalk", "Remove", "Clear",
	"Range", "All", "Keys", "Values", "RangeWithStart", "RangeWithRange", "Shape", "IndependentLists", "InitWithCmp"}
var c02Kinds = map[int64]string{0: "SkipList[int]", 3: "SkipList[string]", 4: "SkipListWithCmp[int] ascending, keys scaled by 2^31, cmp = a-b", 5: "SkipListWithCmp[int] reversed (cmp = b-a, or MinInt/0/MaxInt when words+ops is odd)",
	6: "SkipListWithCmp[int] composite(k%4,k), keys stored as 2k and queried as 2k+1 (equal under the comparator)", 7: "SkipListWithCmp[string]"}

func c02Describe(in []int64) string {
	kind, ws, ops, ok := c02Parse(in)
	if !ok {
		return "malformed"
	}
	s := "zero-value " + c02Kinds[kind] + "; raw words"
	for _, w := range ws {
		s += fmt.Sprintf(" %#x(h%d)", w, c02RawLevel(w))
	}
	s += ":"
	for i := 0; i+3 < len(ops); i += 4 {
		c := ops[i]
		if c < 0 || c >= int64(len(c02Names)) {
			s += " ?"
			continue
		}
		if n := len(ops) / 4; n > 90 && i/4 == 60 {
			s += fmt.Sprintf(" ... (%d more operations, see the input) ...", n-70)
			i = (n - 11) * 4
			continue
		}
		switch c {
		case 20:
			if o := ops[i+1]; o >= 0 && o <= 2 {
				s += " Init(" + []string{"ascending", "descending", "composite (k%4,k)"}[o] + " comparator)"
			} else {
				s += " Init(?)"
			}
		case 19:
			s += fmt.Sprintf(" [%d independent lists of the library's own making (random source untouched), each driven by its own goroutine, all at once; on each of them %d times in a row:]", ops[i+1]+1, ops[i+2])
		case 1, 2, 3, 6, 17:
			s += fmt.Sprintf(" %s(%d,%d", c02Names[c], ops[i+1], ops[i+2])
			if c == 17 {
				s += fmt.Sprintf(",stop=%d", ops[i+3])
			}
			s += ")"
		case 4, 5, 10:
			s += fmt.Sprintf(" %s(%d)", c02Names[c], ops[i+1])
		case 12, 13:
			s += fmt.Sprintf(" %s(stop=%d)", c02Names[c], ops[i+1])
		case 16:
			s += fmt.Sprintf(" %s(%d,stop=%d)", c02Names[c], ops[i+1], ops[i+2])
		default:
			s += " " + c02Names[c]
		}
	}
	return s
}

// a case is in the property's scope when a SkipListWithCmp is not written before it got its comparator
func c02Valid(in []int64) bool {
	kind, _, ops, ok := c02Parse(in)
	if !ok {
		return false
	}
	if kind < 4 {
		return true
	}
	for i := 0; i+3 < len(ops); i += 4 {
		switch ops[i] {
		case 0, 20:
			return true
		case 1, 2:
			return false
		}
	}
	return true
}

func c02Shrink(in []int64) [][]int64 {
	kind, _, ops, ok := c02Parse(in)
	if !ok {
		return nil
	}
	nw := int(in[1])
	hdr := 2 + 2*nw
	var out [][]int64
	add := func(c []int64) {
		if c02Valid(c) {
			out = append(out, c)
		}
	}
	n := len(ops) / 4
	for chunk := n / 2; chunk >= 1; chunk /= 2 {
		for s := 0; s+chunk <= n; s += chunk {
			c := append([]int64{}, in[:hdr+s*4]...)
			c = append(c, in[hdr+(s+chunk)*4:]...)
			add(c)
		}
	}
	// drop a word / simplify a word
	for i := 0; i < nw; i++ {
		c := append([]int64{kind, int64(nw - 1)}, in[2:2+2*i]...)
		c = append(c, in[4+2*i:]...)
		add(c)
		if in[2+2*i] != 0 {
			c2 := append([]int64{}, in...)
			c2[2+2*i] = 0
			add(c2)
		}
		if in[3+2*i] != 0 {
			c2 := append([]int64{}, in...)
			c2[3+2*i] = 0
			add(c2)
		}
	}
	for i := hdr; i < len(in); i++ {
		if (i-hdr)%4 != 0 && in[i] > 0 {
			c := append([]int64{}, in...)
			c[i] = in[i] / 2
			add(c)
			c2 := append([]int64{}, in...)
			c2[i] = in[i] - 1
			add(c2)
		}
	}
	return out
}

// ---- generators
// word whose raw height is h (1..32), optionally with noise in the bits the mask must discard
func c02Word(h int, r *rand.Rand) (hi, lo int64) {
	if h <= 1 {
		lo = 0
		if r != nil && r.Intn(2) == 0 {
			lo = int64(1)<<31 | r.Int63n(1<<31)
		}
	} else {
		lo = int64(1) << (32 - h)
		if r != nil && h < 32 {
			lo |= r.Int63n(lo)
		}
	}
	if r != nil && r.Intn(3) == 0 {
		hi = r.Int63n(1 << 32)
	}
	return
}

// builder: tracks membership so that exactly the inserting operations get a scripted word
type c02B struct {
	kind  int64
	words []int64
	ops   []int64
	mem   map[int64]bool
	inits bool
	clrd  bool
	ins   int
	codes map[int64]bool
}

func c02New(kind int64) *c02B {
	return &c02B{kind: kind, mem: map[int64]bool{}, codes: map[int64]bool{}}
}
func (b *c02B) op(code, a, x, c int64) {
	b.ops = append(b.ops, code, a, x, c)
	b.codes[code] = true
	switch code {
	case 0, 11, 20:
		b.mem = map[int64]bool{}
		if code != 11 {
			b.inits = true
		} else {
			b.clrd = true
		}
	case 10:
		delete(b.mem, a)
	}
}

// set-family op with the raw tower height to script if it inserts
func (b *c02B) set(code, k, v int64, h int, r *rand.Rand) {
	if b.kind >= 4 && !b.inits && code != 3 {
		b.op(0, 0, 0, 0)
	}
	inserts := !b.mem[k] && code != 3
	if inserts {
		hi, lo := c02Word(h, r)
		b.words = append(b.words, hi, lo)
		b.mem[k] = true
		b.ins++
		if b.kind < 4 {
			b.inits = true
		}
	}
	b.op(code, k, v, 0)
}
func (b *c02B) in() []int64 {
	o := []int64{b.kind, int64(len(b.words) / 2)}
	o = append(o, b.words...)
	return append(o, b.ops...)
}
func (b *c02B) observe() {
	b.op(7, 0, 0, 0)
	b.op(18, 0, 0, 0)
	b.op(9, 0, 0, 0)
}

// a round for the independent-lists families: random insert / remove / read phases over the keys 0..nk-1.
// dense: nearly every operation is an insertion of an unbound key or a removal of a bound one (the calls between two draws
// from the random source are few and cheap)
func c02Round(b *c02B, r *rand.Rand, nops int, nk int64, dense bool) {
	if b.kind >= 4 {
		b.op(0, 0, 0, 0)
		b.inits = true
	}
	perm := func() []int64 {
		ks := make([]int64, nk)
		for i, j := range r.Perm(int(nk)) {
			ks[i] = int64(j)
		}
		return ks[:1+r.Intn(int(nk))]
	}
	height := func() int {
		h := 1
		for h < 32 && r.Intn(2) == 0 {
			h++
		}
		return h
	}
	some := func(bound bool) []int64 {
		var ks []int64
		for _, j := range r.Perm(int(nk)) {
			if b.mem[int64(j)] == bound {
				ks = append(ks, int64(j))
			}
		}
		if len(ks) > 2 && r.Intn(3) == 0 {
			ks = ks[:len(ks)/2+r.Intn(len(ks)/2)]
		}
		return ks
	}
	for len(b.ops)/4 < nops+1 {
		x := r.Intn(20)
		if dense {
			switch {
			case x < 9:
				for _, k := range some(false) {
					b.set(int64(1+r.Intn(4)/3), k, r.Int63n(1000), height(), r)
				}
				continue
			case x < 18:
				for _, k := range some(true) {
					b.op(10, k, 0, 0)
				}
				continue
			case x < 19:
				x = 15 // a few reads
			}
		}
		switch {
		case x < 8:
			for _, k := range perm() {
				b.set(int64(1+r.Intn(4)/3), k, r.Int63n(1000), height(), r) // Set, one in four SetNx
			}
		case x < 14:
			ks := perm()
			if r.Intn(2) == 0 { // everything that is bound, in random order: the next insert phase draws for every key
				ks = ks[:0]
				for _, j := range r.Perm(int(nk)) {
					if b.mem[int64(j)] {
						ks = append(ks, int64(j))
					}
				}
			}
			for _, k := range ks {
				b.op(10, k, 0, 0)
			}
		case x < 19:
			for j := 2 + r.Intn(6); j > 0; j-- {
				k := r.Int63n(nk + 1)
				switch r.Intn(12) {
				case 0:
					b.op(4, k, 0, 0)
				case 1:
					b.op(5, k, 0, 0)
				case 2:
					b.op(6, k, r.Int63n(1000), 0)
				case 3:
					b.op(7, 0, 0, 0)
				case 4:
					b.op(8, 0, 0, 0)
				case 5:
					b.set(3, k, r.Int63n(1000), 1, r)
				case 6:
					b.op(12, int64(r.Intn(4)), 0, 0)
				case 7:
					b.op(13, int64(r.Intn(4)), int64(r.Intn(2)), 0)
				case 8:
					b.op(16, k, int64(r.Intn(4)), 0)
				case 9:
					b.op(17, k, k+int64(r.Intn(5))-1, int64(r.Intn(3)))
				case 10:
					b.op(14+int64(r.Intn(2)), 0, 0, 0)
				default:
					b.op(9, 0, 0, 0)
				}
			}
		default:
			if b.kind < 4 && r.Intn(3) == 0 {
				b.op(0, 0, 0, 0)
			} else if r.Intn(2) == 0 {
				b.op(11, 0, 0, 0)
			}
		}
	}
}

func c02Gen(c *Ctx) {
	// is the private generator reachable?
	{
		// the probe must not depend on values the code under test chooses (a changed initial level must show up as a
		// difference in Shape, not switch the observation off): with the scripted source the first insert gets a tower
		// of height 2 (a new tower is at most one level above the current one), after which the level field and the tower of the first node must both read 2
		s := listz.NewSkipList[int64, int64]()
		okInject := c02Inject(s, &c02Script{ws: []uint64{1 << 30}})
		if okInject {
			s.Set(1, 1)
		}
		if !okInject || c02Level(s) != 2 || s.Head() == nil || c02Height(s.Head()) != 2 || !c02IsZero(new(listz.SkipList[int64, int64])) {
			c02HookOK = false
			c.Note("private fields rand/level/head.next not reachable by reflection: tower heights are NOT scripted and NOT compared in this run (Shape replaced by Len)")
		} else {
			c.Note("private *rand.Rand replaced by a scripted Source64 through reflection; level and len(node.next) read back and compared")
		}
	}
	shape := int64(18)
	if !c02HookOK {
		shape = 7
	}
	kinds := []int64{0, 3, 4, 5, 6, 7}

	// ---- 1. zero-value method matrix: every method on a zero value, before and after Clear, alone and in pairs
	type op4 [4]int64
	reads := []op4{{4, 1, 0, 0}, {5, 1, 0, 0}, {6, 1, 5, 0}, {7, 0, 0, 0}, {8, 0, 0, 0}, {9, 0, 0, 0}, {10, 1, 0, 0}, {11, 0, 0, 0}, {12, 0, 0, 0}, {13, 1, 0, 0},
		{14, 0, 0, 0}, {15, 0, 0, 0}, {16, 1, 0, 0}, {16, 0, 1, 0}, {17, 0, 5, 0}, {17, 3, 1, 2}, {3, 1, 7, 0}, {18, 0, 0, 0}}
	writes := []op4{{1, 2, 20, 0}, {2, 2, 21, 0}, {1, 0, 5, 0}}
	var zcases [][]int64
	var zfam []string
	for _, k := range kinds {
		all := append([]op4{}, reads...)
		if k < 4 {
			all = append(all, writes...)
		}
		emit := func(seq []op4, fam string) {
			for _, h := range []int{1, 2, 32} {
				b := c02New(k)
				for _, o := range seq {
					if o[0] >= 1 && o[0] <= 3 {
						b.set(o[0], o[1], o[2], h, nil)
					} else if o[0] == 18 {
						b.op(shape, 0, 0, 0)
					} else {
						b.op(o[0], o[1], o[2], o[3])
					}
				}
				b.op(7, 0, 0, 0)
				b.op(14, 0, 0, 0)
				b.op(15, 0, 0, 0)
				b.op(16, 1, 0, 0)
				if b.ins == 0 && h > 1 {
					continue
				}
				zcases = append(zcases, b.in())
				zfam = append(zfam, fam)
			}
		}
		for _, o := range all {
			emit([]op4{o}, "zero-1")
			emit([]op4{{11, 0, 0, 0}, o}, "zero-clear-1")
			for _, o2 := range all {
				emit([]op4{o, o2}, "zero-2")
				emit([]op4{o, {11, 0, 0, 0}, o2}, "zero-clear-2")
			}
		}
		// zero value of the cmp variant after Init: written, cleared, written again
		if k >= 4 {
			for _, o := range reads {
				emit([]op4{{0, 0, 0, 0}, o, {1, 2, 20, 0}, {11, 0, 0, 0}, o, {2, 1, 10, 0}, o}, "init-clear")
			}
		} else {
			for _, o := range reads {
				emit([]op4{o, {1, 2, 20, 0}, {11, 0, 0, 0}, o, {2, 1, 10, 0}, o, {0, 0, 0, 0}, o, {1, 3, 30, 0}, o}, "init-clear")
			}
		}
	}
	// two batches: first the cases without a Shape observation (a failure there is a map-level one and is
	// recorded, hence shrunk and reported, before any height-only disagreement)
	for pass := 0; pass < 2; pass++ {
		var idx []int
		for i, zc := range zcases {
			_, _, ops, _ := c02Parse(zc)
			has := false
			for j := 0; j+3 < len(ops); j += 4 {
				if ops[j] == 18 {
					has = true
				}
			}
			if has == (pass == 1) {
				idx = append(idx, i)
			}
		}
		c.Each(len(idx), func(j int, t *T) {
			i := idx[j]
			t.Try(zfam[i]+"-"+c02Kinds[zcases[i][0]], zcases[i], true)
		})
	}
	c.Note(fmt.Sprintf("zero-value matrix: %d cases (every method alone / after Clear / in pairs on the zero value of the six instantiations)", len(zcases)))

	// ---- 2. exhaustive small scope: keys {1,2,3} x raw heights {1,2,3,32}, reduced alphabet, all sequences of length <= L
	type aop struct {
		code, k int64
		h       int
	}
	var alpha []aop
	for _, k := range []int64{1, 2, 3} {
		for _, h := range []int{1, 2, 3, 32} {
			alpha = append(alpha, aop{1, k, h})
		}
		alpha = append(alpha, aop{10, k, 0})
	}
	alpha = append(alpha, aop{11, 0, 0}, aop{3, 2, 0}, aop{2, 2, 2}, aop{16, 2, 0}, aop{0, 0, 0})
	L := c.N(3, 4)
	for _, kind := range []int64{0, 4} {
		sizes := []int{1}
		total, all := 1, 1
		for l := 1; l <= L; l++ {
			total *= len(alpha)
			sizes = append(sizes, total)
			all += total
		}
		kd := kind
		c.Each(all, func(i int, t *T) {
			l := 0
			for i >= sizes[l] {
				i -= sizes[l]
				l++
			}
			b := c02New(kd)
			if kd >= 4 {
				b.op(0, 0, 0, 0)
			}
			for j := 0; j < l; j++ {
				o := alpha[i%len(alpha)]
				i /= len(alpha)
				switch o.code {
				case 1, 2, 3:
					b.set(o.code, o.k, o.k*10+int64(j), o.h, nil)
				case 16:
					b.op(16, o.k, 0, 0)
				default:
					b.op(o.code, o.k, 0, 0)
				}
			}
			b.op(7, 0, 0, 0)
			b.op(shape, 0, 0, 0)
			b.op(9, 0, 0, 0)
			b.op(5, 2, 0, 0)
			b.op(17, 2, 3, 0)
			t.Try(fmt.Sprintf("exhaustive-%s", c02Kinds[kd]), b.in(), l >= 2 && b.ins >= 1 && len(b.codes) >= 4)
		})
	}
	c.SetExhaustive()
	c.Note(fmt.Sprintf("exhaustive part: all sequences of length <= %d over %d operations (Set k with raw height h for k in {1,2,3}, h in {1,2,3,32}; Remove k; Clear; SetX 2; SetNx 2; RangeWithStart 2; Init) for SkipList (from the zero value) and SkipListWithCmp (after Init), each followed by Len, Shape, Head/Next walk, GetNode 2, RangeWithRange(2,3)", L, len(alpha)))

	// ---- 2b. sampled longer sequences over the same small alphabet (lengths 4..8)
	ns := c.N(16000, 200000)
	c.Each(ns, func(i int, t *T) {
		r := t.R
		kd := []int64{0, 4, 5, 6}[i%4]
		b := c02New(kd)
		if kd >= 4 {
			b.op(0, 0, 0, 0)
		}
		l := 4 + r.Intn(5)
		for j := 0; j < l; j++ {
			o := alpha[r.Intn(len(alpha))]
			switch o.code {
			case 1, 2, 3:
				b.set(o.code, o.k, o.k*10+int64(j), o.h, nil)
			case 16:
				b.op(16, o.k, int64(r.Intn(3)), 0)
			default:
				b.op(o.code, o.k, 0, 0)
			}
		}
		b.op(7, 0, 0, 0)
		b.op(shape, 0, 0, 0)
		b.op(9, 0, 0, 0)
		b.op(5, int64(1+r.Intn(3)), 0, 0)
		b.op(17, int64(r.Intn(5)), int64(r.Intn(5)), 0)
		t.Try(fmt.Sprintf("alphabet-sample-%s", c02Kinds[kd]), b.in(), b.ins >= 1 && len(b.codes) >= 4)
	})

	// ---- 3. random sequences
	n := c.N(24000, 400000)
	c.Each(n, func(i int, t *T) {
		r := t.R
		kind := kinds[i%len(kinds)]
		b := c02New(kind)
		style := r.Intn(6) // 0,1 geometric heights; 2 all tall (level grows by one per insert); 3 tall-then-flat; 4 mixed extremes; 5 grow then shrink
		nkeys := int64(4 + r.Intn(12))
		if style == 2 || style == 5 {
			nkeys = int64(20 + r.Intn(25))
		}
		neg := kind != 3 && kind != 7 && r.Intn(3) == 0
		key := func() int64 {
			k := r.Int63n(nkeys)
			if neg {
				k -= nkeys / 2
			}
			return k
		}
		height := func() int {
			switch style {
			case 2:
				return 32 - r.Intn(2)*r.Intn(3)
			case 3:
				if b.ins < 6 {
					return 32
				}
				return 1
			case 4:
				return []int{1, 2, 31, 32, 16, 3}[r.Intn(6)]
			case 5:
				return 25 + r.Intn(8)
			}
			h := 1
			for h < 32 && r.Intn(2) == 0 {
				h++
			}
			return h
		}
		if kind >= 4 || r.Intn(3) == 0 {
			if kind >= 4 && r.Intn(4) == 0 {
				// a few reads on the zero value first
				b.op([]int64{4, 7, 8, 10, 12, 14, 16, 17}[r.Intn(8)], key(), int64(r.Intn(3)), 0)
			}
			b.op(0, 0, 0, 0)
		}
		nops := 8 + r.Intn(53)
		if style == 5 {
			nops = 70
		}
		var removed []int64
		for j := 0; j < nops; j++ {
			x := r.Intn(100)
			if style == 5 {
				// ascending inserts, then remove everything from the tallest end, observing the shape on the way
				switch {
				case j < 34:
					b.set(1, int64(j), int64(j), height(), r)
				case j%3 == 0:
					b.op(shape, 0, 0, 0)
				default:
					k := int64(33 - (j-34)*2/3)
					if r.Intn(4) == 0 {
						k = key()
					}
					b.op(10, k, 0, 0)
					removed = append(removed, k)
				}
				continue
			}
			switch {
			case x < 30:
				b.set(1, key(), r.Int63n(1000), height(), r)
			case x < 36:
				b.set(2, key(), r.Int63n(1000), height(), r)
			case x < 41:
				b.set(3, key(), r.Int63n(1000), height(), r)
			case x < 58:
				k := key()
				b.op(10, k, 0, 0)
				removed = append(removed, k)
			case x < 63:
				b.op(4, key(), 0, 0)
			case x < 67:
				b.op(5, key(), 0, 0)
			case x < 70:
				b.op(6, key(), r.Int63n(1000), 0)
			case x < 72:
				b.op(7, 0, 0, 0)
			case x < 74:
				b.op(8, 0, 0, 0)
			case x < 76:
				b.op(9, 0, 0, 0)
			case x < 77:
				b.op(11, 0, 0, 0)
			case x < 78 && r.Intn(3) == 0:
				b.op(0, 0, 0, 0)
			case x < 81:
				b.op(12, int64(r.Intn(5)), 0, 0)
			case x < 83:
				b.op(13, int64(r.Intn(5)), 0, 0)
			case x < 84:
				b.op(14, 0, 0, 0)
			case x < 85:
				b.op(15, 0, 0, 0)
			case x < 93:
				// start keys: removed keys and their neighbours, absent and present keys, beyond both ends
				s := key()
				if len(removed) > 0 && r.Intn(2) == 0 {
					s = removed[r.Intn(len(removed))] + int64(r.Intn(3)-1)
				}
				if kind == 3 || kind == 7 {
					if s < 0 {
						s = 0
					}
				}
				if r.Intn(2) == 0 {
					b.op(16, s, int64(r.Intn(5)), 0)
				} else {
					e := s + int64(r.Intn(7)) - 2
					if r.Intn(3) == 0 {
						e = key()
					}
					if (kind == 3 || kind == 7) && e < 0 {
						e = 0
					}
					b.op(17, s, e, int64(r.Intn(4)))
				}
			default:
				b.op(shape, 0, 0, 0)
			}
		}
		b.observe()
		if !c02HookOK {
			b.ops[len(b.ops)-8] = 7
		}
		for code := range b.codes {
			t.C.Count("op", c02Names[code])
		}
		t.C.Count("style", []string{"geometric", "geometric", "all-tall", "tall-then-flat", "extremes", "grow-then-shrink"}[style])
		t.Try("random-"+c02Kinds[kind], b.in(), b.ins >= 2 && len(b.codes) >= 3)
	})

	// ---- 3b. one list object initialised again with ANOTHER comparator (op 20): ascending / descending / composite toggled
	// one to four times in a case; after every Init the list must be the sorted map of the comparator given last
	c.Each(c.N(6000, 80000), func(i int, t *T) {
		r := t.R
		kind := []int64{4, 5, 6}[i%3]
		b := c02New(kind)
		cur := kind - 4
		nkeys := int64(3 + r.Intn(8))
		key := func() int64 { return r.Int63n(nkeys) }
		height := func() int {
			h := 1
			for h < 32 && r.Intn(2) == 0 {
				h++
			}
			return h
		}
		if r.Intn(3) > 0 {
			b.op(0, 0, 0, 0)
		}
		nsw := 1 + r.Intn(4)
		for sw := 0; sw <= nsw; sw++ {
			if sw > 0 || !b.inits {
				o := int64(r.Intn(3))
				if o == cur && r.Intn(4) > 0 {
					o = (o + 1 + int64(r.Intn(2))) % 3
				}
				cur = o
				b.op(20, o, 0, 0)
			}
			for j := 2 + r.Intn(9); j > 0; j-- {
				switch x := r.Intn(20); {
				case x < 8:
					b.set(int64(1+r.Intn(4)/3), key(), r.Int63n(1000), height(), r)
				case x < 10:
					b.op(10, key(), 0, 0)
				case x < 11:
					b.set(3, key(), r.Int63n(1000), 1, r)
				case x < 12:
					b.op(4+int64(r.Intn(2)), key(), 0, 0)
				case x < 13:
					b.op(11, 0, 0, 0)
				case x < 14:
					b.op(0, 0, 0, 0) // Init with the comparator in force
				default:
					k := key()
					switch r.Intn(6) {
					case 0:
						b.op(14, 0, 0, 0)
					case 1:
						b.op(12+int64(r.Intn(2)), int64(r.Intn(4)), 0, 0)
					case 2:
						b.op(16, k, int64(r.Intn(4)), 0)
					case 3:
						b.op(17, k, key(), int64(r.Intn(3)))
					case 4:
						b.op(8+int64(r.Intn(2)), 0, 0, 0)
					default:
						b.op(shape, 0, 0, 0)
					}
				}
			}
			b.op(14, 0, 0, 0)
		}
		b.observe()
		if !c02HookOK {
			b.ops[len(b.ops)-8] = 7
		}
		t.Try("init-with-another-comparator-"+c02Kinds[kind], b.in(), b.ins >= 2 && len(b.codes) >= 4)
	})

	// ---- 4. independent lists (op 19): g+1 lists that the harness does not touch, each driven by a goroutine of its own, all
	// at once, the round R times in a row on each.  What one list answers must not depend on other lists being in use
	// (a generator, an update buffer, a node pool shared by the lists of the package).  The rounds are random
	// insert / remove / read phases over a small key set, so the lists stay small and the number of insertions (the only
	// calls that reach the random source) grows with R.
	c.Each(c.N(3000, 40000), func(i int, t *T) {
		r := t.R
		kind := kinds[i%len(kinds)]
		b := c02New(kind)
		g, R := int64(1+r.Intn(3)), int64(3+r.Intn(10))
		b.op(19, g, R, 0)
		c02Round(b, r, 4+r.Intn(36), int64(2+r.Intn(7)), i%5 == 4)
		t.C.Count("independent-lists", fmt.Sprintf("short rounds, %d lists", g+1))
		t.Try("independent-lists-short-"+c02Kinds[kind], b.in(), b.ins >= 2 && len(b.codes) >= 4)
	})
	// long rounds (more than 750 operations: such a case is longer than 3000 integers, which keeps it out of the framework's
	// concurrent phase and out of the shrinker -- its failure is a race between lists and does not shrink reliably),
	// 2.5*10^5..4*10^5 insertions on every list (most of these rounds are dense: little else than insertions and removals); these cases run in a batch of their own, so that all the lists in use at
	// the same time are independent ones
	c.Each(c.N(12, 36), func(i int, t *T) {
		r := t.R
		kind := kinds[i%len(kinds)]
		b := c02New(kind)
		g, target := int64(15), 400000
		if i >= len(kinds) {
			g, target = []int64{1, 2, 3, 7}[r.Intn(4)], 250000
		}
		b.op(19, g, 3, 0)
		c02Round(b, r, 750+r.Intn(150), int64(6+r.Intn(19)), i%len(kinds) != i/len(kinds)%len(kinds))
		R := int64(target / (b.ins + 1))
		if R < 3 {
			R = 3
		}
		b.ops[2] = R
		t.C.Count("independent-lists", fmt.Sprintf("long rounds, %d lists", g+1))
		t.Try("independent-lists-long-"+c02Kinds[kind], b.in(), int(R)*b.ins >= 100000)
	})
	c.Note("independent lists: 2..16 lists made by the library and left alone by the harness (random source not replaced), each driven by its own goroutine at the same time, a round of operations repeated on each (short rounds 2-12 times; long rounds of 750-900 operations until every list has seen 2.5*10^5..4*10^5 insertions); every list must answer as the sorted map")
}

func init() {
	Register(&Prop{ID: "C02", Pure: true, Num: 2, SpecMode: "equal", Gen: c02Gen, Impl: c02Impl,
		Shrink: c02Shrink, Describe: c02Describe,
		Rule: "zero-value matrix (every method alone, after Clear, in pairs) for SkipList[int|string] and SkipListWithCmp under ascending/reversed/composite/string comparators; " +
			"exhaustive: every sequence up to the tier's length over Set(k, raw height h) k in {1,2,3} h in {1,2,3,32}, Remove k, Clear, SetX, SetNx, RangeWithStart, Init; " +
			"random: 8-70 operations, raw random words scripted (geometric, all-tall, tall-then-flat, extremes, grow-then-shrink), start keys next to removed keys, callbacks stopping after 0-4 calls. " +
			"re-Init with another comparator: 1-4 times per case Init(ascending|descending|composite) on a SkipListWithCmp[int] of kinds 4-6, 2-10 writes and ordered reads after each, Keys before the next. " +
			"independent lists: the rest of the sequence repeated R times on each of g+1 lists that keep the library's own random source, one goroutine per list, all at once (short rounds of 4-40 operations, long rounds of 750-900 operations with 2.5*10^5..4*10^5 insertions per list; non-trivial = 2 insertions per round and 4 operations, long: 10^5 insertions per list). " +
			"A SkipListWithCmp is never written before Init (it has no comparator). distinct = distinct case; non-trivial = at least 2 insertions and 3 different operations (exhaustive: length >= 2, an insertion, 4 different operations)"})
}
