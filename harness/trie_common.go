package main

// Shared by C05 and C06: case encoding for algz.Trie, generators of pattern sets and texts.
//   case = nops :: ops ++ query;  op = kind :: put_list(bytes)  (0 = Insert, 1 = BuildFailureLinks)
//   C05 only: an optional trailing 1 after the query asks for the Dump observation (the built structure, trieDump below)

import (
	"fmt"
	"math/rand"
	"reflect"
	"sort"
	"strings"
	"sync"
	"unsafe"

	"github.com/welllog/golib/algz"
)

type trieOp struct {
	build bool
	pat   []byte
}

type trieCase struct {
	ops  []trieOp
	text []byte
	repl []byte // C06 only
	mask int64  // C06 only
	dump bool   // C05 only: also observe the built structure
}

func (tc *trieCase) encode(c06 bool) []int64 {
	in := []int64{int64(len(tc.ops))}
	for _, o := range tc.ops {
		if o.build {
			in = append(in, 1, 0)
		} else {
			in = append(in, 0)
			in = append(in, PutList(Bytes(o.pat))...)
		}
	}
	in = append(in, PutList(Bytes(tc.text))...)
	if c06 {
		in = append(in, PutList(Bytes(tc.repl))...)
		in = append(in, tc.mask)
	} else if tc.dump && TrieDumpOK() {
		in = append(in, 1)
	}
	return in
}

func decodeTrieCase(in []int64, c06 bool) (tc trieCase, ok bool) {
	if len(in) == 0 || in[0] < 0 {
		return tc, false
	}
	n := int(in[0])
	rest := in[1:]
	for i := 0; i < n; i++ {
		if len(rest) == 0 {
			return tc, false
		}
		kind := rest[0]
		var b []int64
		b, rest = GetList(rest[1:])
		if kind == 0 {
			tc.ops = append(tc.ops, trieOp{pat: ToBytes(b)})
		} else {
			tc.ops = append(tc.ops, trieOp{build: true})
		}
	}
	var b []int64
	b, rest = GetList(rest)
	tc.text = ToBytes(b)
	if c06 {
		b, rest = GetList(rest)
		tc.repl = ToBytes(b)
		if len(rest) != 1 {
			return tc, false
		}
		tc.mask = rest[0]
	} else if len(rest) == 1 && rest[0] == 1 {
		tc.dump = true
	} else if len(rest) != 0 {
		return tc, false
	}
	return tc, true
}

func (tc *trieCase) trie() *algz.Trie {
	t := &algz.Trie{}
	for i, o := range tc.ops {
		if o.build {
			t.BuildFailureLinks()
			if i < len(tc.ops)-1 {
				// a build that is not the last operation: the trie is queried with the case's own text before it is
				// extended and built again; queries are observations and must not change any later answer
				func() {
					defer func() { _ = recover() }()
					text := string(tc.text)
					_ = t.Match(text)
					_ = t.FindAll(text)
					_ = t.Replace(text, "*")
					_ = t.ReplaceWithMask(text, '*')
					_ = t.PrefixSearch(text)
				}()
			}
		} else {
			t.Insert(string(o.pat))
		}
	}
	return t
}

func (tc *trieCase) canonical() bool {
	return len(tc.ops) > 0 && tc.ops[len(tc.ops)-1].build
}

func (tc *trieCase) patterns() []string {
	var ps []string
	for _, o := range tc.ops {
		if !o.build {
			ps = append(ps, string(o.pat))
		}
	}
	return ps
}

func (tc *trieCase) describe(c06 bool) string {
	var sb strings.Builder
	for i, o := range tc.ops {
		if i > 0 {
			sb.WriteString("; ")
		}
		if o.build {
			sb.WriteString("BuildFailureLinks")
		} else {
			fmt.Fprintf(&sb, "Insert(%q)", string(o.pat))
		}
	}
	fmt.Fprintf(&sb, "; text/key %q", string(tc.text))
	if c06 {
		fmt.Fprintf(&sb, "; repl %q; mask %d", string(tc.repl), tc.mask)
	}
	if tc.dump {
		sb.WriteString("; Dump (output after the token -1000020: node count, then per node in pre-order put_list(word) isEnd size nchildren fail, fail = -1 nil | put_list(word of the target))")
	}
	return sb.String()
}

// ---- Dump: the built structure of the real trie, read through reflect + unsafe (unexported fields).
// A node is named by its WORD: the rune values on the path from the root.  Output:
//
//	DUMPTAG :: nnodes :: for every node in pre-order, children in stored order:
//	    put_list(word) ++ [isEnd, size, nchildren] ++ fail
//	fail = -1 (nil pointer) | put_list(word of the target) (the root is the empty word: 0) | -3 (points outside the trie)
//
// Fails closed: a field that is missing or has another kind, a nil child pointer, a node reached twice
// give DUMPTAG :: BADSTRUCT, which neither the model nor the judge ever produce.
const (
	BADSTRUCT = -1000008
	DUMPTAG   = -1000020
)

type trieDumpNode struct {
	word        []int64
	isEnd       bool
	size, nkids int64
	fail        unsafe.Pointer
}

// The layout of Trie / trieNode / childNode is found by TYPE (names are hints only, extra fields are ignored):
//
//	Trie:      the field that is a node (struct) or a pointer to one — a node is a struct with a slice of structs that
//	           hold a rune and a pointer back to the node type;
//	trieNode:  children = that slice, fail = the other pointer to the node type, isEnd = the bool field, size = the int field;
//	childNode: val = the int32 field, node = the pointer to the node type.
//
// A self test on a three-pattern trie decides whether the walk understands the layout; if not, the Dump observation is
// dropped (InstrLost) instead of failing cases.
type trieLayout struct {
	ok                                bool
	rootIdx                           int
	rootIsPtr                         bool
	kidsIdx, failIdx, endIdx, sizeIdx int
	valIdx, nodeIdx                   int
}

var trieLay struct {
	once sync.Once
	l    trieLayout
}

func idxOf(t reflect.Type, hints []string, pred func(reflect.StructField) bool) int {
	f, ok := PickField(t, hints, pred)
	if !ok {
		return -1
	}
	return f.Index[0]
}

func trieFindLayout() (l trieLayout) {
	defer func() {
		if recover() != nil {
			l.ok = false
		}
	}()
	tt := reflect.TypeOf(algz.Trie{})
	isNode := func(nt reflect.Type) bool {
		if nt.Kind() != reflect.Struct {
			return false
		}
		for i := 0; i < nt.NumField(); i++ {
			ft := nt.Field(i).Type
			if ft.Kind() == reflect.Slice && ft.Elem().Kind() == reflect.Struct {
				for j := 0; j < ft.Elem().NumField(); j++ {
					if g := ft.Elem().Field(j).Type; g.Kind() == reflect.Ptr && g.Elem() == nt {
						return true
					}
				}
			}
		}
		return false
	}
	l.rootIdx = idxOf(tt, []string{"root"}, func(f reflect.StructField) bool {
		return isNode(f.Type) || (f.Type.Kind() == reflect.Ptr && isNode(f.Type.Elem()))
	})
	if l.rootIdx < 0 {
		return l
	}
	nt := tt.Field(l.rootIdx).Type
	if nt.Kind() == reflect.Ptr {
		l.rootIsPtr, nt = true, nt.Elem()
	}
	l.kidsIdx = idxOf(nt, []string{"children", "kids", "next"}, func(f reflect.StructField) bool {
		return f.Type.Kind() == reflect.Slice && f.Type.Elem().Kind() == reflect.Struct
	})
	l.failIdx = idxOf(nt, []string{"fail", "suffix", "link"}, func(f reflect.StructField) bool {
		return f.Type.Kind() == reflect.Ptr && f.Type.Elem() == nt
	})
	l.endIdx = idxOf(nt, []string{"isEnd", "end", "terminal", "final"}, KindIs(reflect.Bool))
	l.sizeIdx = idxOf(nt, []string{"size", "depth", "len"}, KindIs(reflect.Int))
	if l.kidsIdx < 0 || l.failIdx < 0 || l.endIdx < 0 || l.sizeIdx < 0 {
		return l
	}
	ct := nt.Field(l.kidsIdx).Type.Elem()
	l.valIdx = idxOf(ct, []string{"val", "r", "rune", "key"}, KindIs(reflect.Int32))
	l.nodeIdx = idxOf(ct, []string{"node", "child"}, func(f reflect.StructField) bool {
		return f.Type.Kind() == reflect.Ptr && f.Type.Elem() == nt
	})
	l.ok = l.valIdx >= 0 && l.nodeIdx >= 0
	return l
}

func trieLayoutGet() trieLayout {
	trieLay.once.Do(func() {
		l := trieFindLayout()
		if l.ok {
			// self test: patterns ab, b, abc: 5 nodes; "ab" ends, size 2, fail "b"; "b" ends, fail root; "abc" fail nil-or-root
			trieLay.l = l
			t := algz.Trie{}
			t.Insert("ab")
			t.Insert("b")
			t.Insert("abc")
			t.BuildFailureLinks()
			d := trieDumpWith(&t, l)
			// the self test must not judge the code under test (a wrong fail link or size must show up as a difference
			// in the Dump, not switch the Dump off): only the SHAPE is checked — the walk yields the five words
			// "", a, ab, abc, b, each record is well formed, and isEnd is a 0/1 value
			good := len(d) >= 2 && d[0] == DUMPTAG && d[1] == 5
			var words []string
			p := 2
			for n := 0; good && n < 5; n++ {
				if p >= len(d) || d[p] < 0 || p+1+int(d[p])+3 > len(d) {
					good = false
					break
				}
				w := ""
				for _, r := range d[p+1 : p+1+int(d[p])] {
					w += string(rune(r))
				}
				words = append(words, w)
				p += 1 + int(d[p])
				if d[p] != 0 && d[p] != 1 {
					good = false
				}
				p += 3
				if p >= len(d) {
					good = false
					break
				}
				if d[p] < 0 {
					p++
				} else {
					p += 1 + int(d[p])
				}
			}
			if good {
				sort.Strings(words)
				good = strings.Join(words, ",") == ",a,ab,abc,b" && p == len(d)
			}
			if !good {
				l.ok = false
			}
		}
		if !l.ok {
			InstrLost("algz.Trie node layout (the structural Dump of the built trie is not observed)")
		}
		trieLay.l = l
	})
	return trieLay.l
}

// TrieDumpOK: whether the Dump observation is available on this tree
func TrieDumpOK() bool { return trieLayoutGet().ok }

func unex(f reflect.Value) reflect.Value {
	return reflect.NewAt(f.Type(), unsafe.Pointer(f.UnsafeAddr())).Elem()
}

func trieDump(t *algz.Trie) []int64 {
	l := trieLayoutGet()
	if !l.ok {
		return []int64{DUMPTAG, BADSTRUCT}
	}
	return trieDumpWith(t, l)
}

func trieDumpWith(t *algz.Trie, l trieLayout) (out []int64) {
	defer func() {
		if r := recover(); r != nil {
			out = []int64{DUMPTAG, BADSTRUCT}
		}
	}()
	tv := reflect.ValueOf(t).Elem()
	root := unex(tv.Field(l.rootIdx))
	if l.rootIsPtr {
		root = root.Elem()
	}
	words := map[unsafe.Pointer][]int64{}
	var nodes []trieDumpNode
	var walk func(n reflect.Value, word []int64)
	walk = func(n reflect.Value, word []int64) {
		id := unsafe.Pointer(n.UnsafeAddr())
		if _, seen := words[id]; seen || len(word) > 1<<16 {
			panic("trie layout: not a tree")
		}
		words[id] = word
		kids := unex(n.Field(l.kidsIdx))
		fail := unex(n.Field(l.failIdx))
		nodes = append(nodes, trieDumpNode{word: word, isEnd: unex(n.Field(l.endIdx)).Bool(),
			size: unex(n.Field(l.sizeIdx)).Int(), nkids: int64(kids.Len()), fail: fail.UnsafePointer()})
		for i := 0; i < kids.Len(); i++ {
			ch := kids.Index(i)
			val := unex(ch.Field(l.valIdx)).Int()
			np := unex(ch.Field(l.nodeIdx))
			if np.IsNil() {
				panic("trie layout: nil child pointer")
			}
			w := append(append(make([]int64, 0, len(word)+1), word...), val)
			walk(np.Elem(), w)
		}
	}
	walk(root, []int64{})
	out = []int64{DUMPTAG, int64(len(nodes))}
	for _, n := range nodes {
		out = append(out, PutList(n.word)...)
		out = append(out, B(n.isEnd), n.size, n.nkids)
		if n.fail == nil {
			out = append(out, -1)
		} else if w, ok := words[n.fail]; ok {
			out = append(out, PutList(w)...)
		} else {
			out = append(out, -3)
		}
	}
	return out
}

// canonical op list: insert every pattern, then build
func opsOf(pats []string) []trieOp {
	var ops []trieOp
	for _, p := range pats {
		ops = append(ops, trieOp{pat: []byte(p)})
	}
	return append(ops, trieOp{build: true})
}

// ---- shrinking: drop an op, drop a byte of a pattern / the text / the replacement
func trieShrink(c06 bool) func(in []int64) [][]int64 {
	return func(in []int64) [][]int64 {
		tc, ok := decodeTrieCase(in, c06)
		if !ok {
			return nil
		}
		var out [][]int64
		add := func(c trieCase) { out = append(out, c.encode(c06)) }
		for i := range tc.ops {
			if tc.ops[i].build && i == len(tc.ops)-1 {
				continue
			}
			c := tc
			c.ops = append(append([]trieOp{}, tc.ops[:i]...), tc.ops[i+1:]...)
			add(c)
		}
		dropByte := func(b []byte, j int) []byte { return append(append([]byte{}, b[:j]...), b[j+1:]...) }
		// halves of the text first
		if len(tc.text) > 3 {
			c := tc
			c.text = tc.text[:len(tc.text)/2]
			add(c)
			c2 := tc
			c2.text = tc.text[len(tc.text)/2:]
			add(c2)
		}
		for j := range tc.text {
			c := tc
			c.text = dropByte(tc.text, j)
			add(c)
		}
		for i := range tc.ops {
			if tc.ops[i].build {
				continue
			}
			for j := range tc.ops[i].pat {
				c := tc
				c.ops = append([]trieOp{}, tc.ops...)
				c.ops[i] = trieOp{pat: dropByte(tc.ops[i].pat, j)}
				add(c)
			}
		}
		if c06 {
			for j := range tc.repl {
				c := tc
				c.repl = dropByte(tc.repl, j)
				add(c)
			}
			if tc.mask != '*' {
				c := tc
				c.mask = '*'
				add(c)
			}
		}
		// simplify bytes towards 'a'
		for j, b := range tc.text {
			if b != 'a' && b != 'b' && b != 'c' {
				c := tc
				c.text = append([]byte{}, tc.text...)
				c.text[j] = 'a'
				add(c)
			}
		}
		return out
	}
}

// ---- alphabets
var trieUnits = []string{"a", "b", "c", "é", "中", "😀", "\xff", "\xfe"}
var trieASCII = []string{"a", "b", "c"}

// code points at the boundaries of the UTF-8 length classes and of the rune range (U+10FFFF is next to the values the
// trie uses for invalid bytes), plus NUL and DEL
var trieBoundary = []string{"a", "\x00", "\x7f", "\u0080", "\u07ff", "\u0800", "\ufffd", "\uffff", "\U00010000", "\U0010fffe", "\U0010ffff", "\xff"}

// stray bytes next to the valid runes a wrong encoding of "invalid byte b" could collide with: rune(b) itself (U+0080, U+00BF,
// U+00FF), base-b and base+int8(b) just below U+10FFFF (U+10FF01, U+10FF41, U+10FF80, U+10FFBF, U+10FFFF)
var trieCollide = []string{"a", "\x80", "\xbf", "\xff", "\x81", "\u0080", "\u00bf", "\u00ff", "\U0010ff01", "\U0010ff41", "\U0010ff80", "\U0010ffbf", "\U0010ffff", "\U0010ff7f"}

// bytes from which truncated / overlong / stray-continuation sequences arise (rune-aligned reading)
var trieRaw = []string{"a", "\xe4", "\xb8", "\xad", "\x80", "\xc3", "\xa9", "\xf0", "\x9f", "\xff", "\xef\xbf\xbd", "中", "é"}

// lead bytes that Go's decoder rejects together with continuation bytes: overlong 2-byte (C0, C1), overlong 3-/4-byte
// (E0 80.., F0 80..), surrogates (ED A0..), beyond U+10FFFF (F4 90.., F5..): each byte must be a symbol of its own
var trieOverlong = []string{"a", "\x00", "\xc0", "\xc1", "\xa1", "\x80", "\xe0", "\x9f", "\xed", "\xa0", "\xf0", "\x8f", "\xf4", "\x90", "\xf5", "\xbf"}

func randWord(r *rand.Rand, units []string, minU, maxU int) string {
	n := minU + r.Intn(maxU-minU+1)
	var sb strings.Builder
	for i := 0; i < n; i++ {
		sb.WriteString(units[r.Intn(len(units))])
	}
	return sb.String()
}

// unit-aligned substring of s (s is a concatenation of units)
func splitUnits(s string, units []string) []string {
	var us []string
	for len(s) > 0 {
		best := ""
		for _, u := range units {
			if strings.HasPrefix(s, u) && len(u) > len(best) {
				best = u
			}
		}
		if best == "" {
			best = s[:1]
		}
		us = append(us, best)
		s = s[len(best):]
	}
	return us
}

// a pattern set with shared prefixes, nested suffixes/infixes, duplicates and (sometimes) the empty pattern
func randPatternSet(r *rand.Rand, units []string, maxPats, maxLen int) []string {
	n := 1 + r.Intn(maxPats)
	var ps []string
	base := randWord(r, units, 2, maxLen+2)
	bu := splitUnits(base, units)
	for len(ps) < n {
		switch r.Intn(10) {
		case 0, 1, 2: // substring of the base word: infix / suffix / prefix nesting
			i := r.Intn(len(bu))
			j := i + 1 + r.Intn(len(bu)-i)
			ps = append(ps, strings.Join(bu[i:j], ""))
		case 3: // suffix of an earlier pattern
			if len(ps) > 0 {
				u := splitUnits(ps[r.Intn(len(ps))], units)
				if len(u) > 0 {
					ps = append(ps, strings.Join(u[r.Intn(len(u)):], ""))
				}
			}
		case 4: // extension of an earlier pattern (shared prefix)
			if len(ps) > 0 {
				ps = append(ps, ps[r.Intn(len(ps))]+randWord(r, units, 1, 2))
			}
		case 5: // prefix of an earlier pattern
			if len(ps) > 0 {
				u := splitUnits(ps[r.Intn(len(ps))], units)
				if len(u) > 0 {
					ps = append(ps, strings.Join(u[:1+r.Intn(len(u))], ""))
				}
			}
		case 6: // duplicate
			if len(ps) > 0 {
				ps = append(ps, ps[r.Intn(len(ps))])
			}
		case 7:
			if r.Intn(4) == 0 {
				ps = append(ps, "")
			} else {
				ps = append(ps, randWord(r, units, 1, 1))
			}
		default:
			ps = append(ps, randWord(r, units, 1, maxLen))
		}
	}
	return ps
}

// a text made of patterns, pieces of patterns and random units
func randText(r *rand.Rand, units []string, ps []string, maxPieces int) string {
	n := r.Intn(maxPieces + 1)
	var sb strings.Builder
	for i := 0; i < n; i++ {
		switch r.Intn(4) {
		case 0, 1:
			if len(ps) > 0 {
				sb.WriteString(ps[r.Intn(len(ps))])
				continue
			}
			fallthrough
		case 2:
			if len(ps) > 0 {
				p := ps[r.Intn(len(ps))]
				if len(p) > 0 {
					a := r.Intn(len(p))
					b := a + r.Intn(len(p)-a+1)
					sb.WriteString(p[a:b]) // byte cut: may split a multi-byte rune
					continue
				}
			}
			fallthrough
		default:
			sb.WriteString(units[r.Intn(len(units))])
		}
	}
	return sb.String()
}

// hand-written pattern sets over {a,b,c}: shared prefixes, nesting as suffix / infix, duplicates, empty pattern,
// the "late long occurrence" shapes
var trieSmallSets = [][]string{
	{"a"},
	{"ab"},
	{"a", "b"},
	{"a", "ab", "abc"},
	{"abc", "bc", "c"},
	{"abcab", "bca", "ca", "a"},
	{"ab", "ab", "b"},
	{"", "a", "ba"},
	{"aa", "aaa", "a"},
	{"aba", "bab", "ab"},
	{"abab", "ba", "abb"},
	{"a", "c", "abc"},
	{"a", "c", "abcab"},
	{"ab", "bc", "ca", "abc"},
	{"abc", "abd", "ab", "bcd"},
	{"ac", "ca", "cc", "aca"},
	{"abcabc", "cab", "bc", "b"},
	{"aab", "ab", "b", "baa"},
	{"ba", "cba", "acba", "a"},
	{"bb", "bab", "abba"},
	{"c", "cc", "ccc", "cccc"},
	{"ab", "ba", "aab", "bba", "abab"},
	{"abc", "bca", "cab", "ab", "bc", "ca", "a", "b", "c"},
	{"aaaa", "aa"},
	{"abcabc", "abc", "bcab", "c", ""},
}

// every word over units of length <= n (in units), by index
func wordByIndex(units []string, idx int) string {
	// idx 0 = "", then length 1, ...
	k := len(units)
	l := 0
	size := 1
	for idx >= size {
		idx -= size
		size *= k
		l++
	}
	var parts []string
	for j := 0; j < l; j++ {
		parts = append(parts, units[idx%k])
		idx /= k
	}
	return strings.Join(parts, "")
}
func countWords(k, maxLen int) int {
	total, size := 0, 1
	for l := 0; l <= maxLen; l++ {
		total += size
		size *= k
	}
	return total
}

// a wide trie: many first letters with a few children each, so that the BFS queue (initial capacity 10) grows
// while its head is not at slot 0
func widePatternSet(r *rand.Rand) []string {
	letters := "abcdefghijklmnopqrstuvwxyz"
	nf := 5 + r.Intn(12)
	var ps []string
	for i := 0; i < nf; i++ {
		f := string(letters[i])
		nk := r.Intn(4)
		if nk == 0 {
			ps = append(ps, f)
		}
		for j := 0; j < nk; j++ {
			s := f + string(letters[r.Intn(8)])
			if r.Intn(2) == 0 {
				s += string(letters[r.Intn(8)])
			}
			if r.Intn(3) == 0 {
				s += string(letters[r.Intn(4)])
			}
			ps = append(ps, s)
		}
	}
	r.Shuffle(len(ps), func(i, j int) { ps[i], ps[j] = ps[j], ps[i] })
	return ps
}

// a dense trie: 20-60 of the words of length 2..4 over 2-4 letters.  More than 20 nodes sit in the BFS frontier at once (the
// queue grows 10 -> 20 -> 40, the second time from an order that an earlier wrapped growth produced) and almost every
// node has a proper suffix in the trie.
func densePatternSet(r *rand.Rand) ([]string, []string) {
	k := 2 + r.Intn(3)
	letters := []string{"a", "b", "c", "d"}[:k]
	var all []string
	var gen func(prefix string, l int)
	gen = func(prefix string, l int) {
		if l == 0 {
			all = append(all, prefix)
			return
		}
		for _, c := range letters {
			gen(prefix+c, l-1)
		}
	}
	for l := 2; l <= 4; l++ {
		if k == 4 && l == 4 {
			break
		}
		gen("", l)
	}
	r.Shuffle(len(all), func(i, j int) { all[i], all[j] = all[j], all[i] })
	n := 20 + r.Intn(41)
	if n > len(all) {
		n = len(all)
	}
	return all[:n], letters
}

// many irregular patterns: 20-45 random words of length 2..6 over 2-4 letters (irregular depth, wide frontier)
func manyPatternSet(r *rand.Rand) ([]string, []string) {
	k := 2 + r.Intn(3)
	letters := []string{"a", "b", "c", "d"}[:k]
	n := 20 + r.Intn(26)
	seen := map[string]bool{}
	var ps []string
	for len(ps) < n {
		w := randWord(r, letters, 2, 6)
		if !seen[w] {
			seen[w] = true
			ps = append(ps, w)
		}
	}
	return ps, letters
}

// 40-80 random words of length 3..7 over 3-4 letters (C05 Dump family "many-large")
func largePatternSet(r *rand.Rand) ([]string, []string) {
	k := 3 + r.Intn(2)
	letters := []string{"a", "b", "c", "d"}[:k]
	n := 40 + r.Intn(41)
	var ps []string
	for len(ps) < n {
		ps = append(ps, randWord(r, letters, 3, 7))
	}
	return ps, letters
}

// two batches for a rebuild: the second batch extends proper suffixes / infixes of patterns of the first one, so that
// failure links computed by the first BuildFailureLinks must change in the second
func rebuildBatches(r *rand.Rand, units []string) ([]string, []string) {
	first := randPatternSet(r, units, 5, 5)
	var second []string
	for len(second) < 1+r.Intn(4) {
		p := first[r.Intn(len(first))]
		u := splitUnits(p, units)
		if len(u) < 2 {
			second = append(second, randWord(r, units, 1, 3))
			continue
		}
		i := 1 + r.Intn(len(u)-1)     // a proper suffix start
		j := i + 1 + r.Intn(len(u)-i) // infix end
		w := strings.Join(u[i:j], "")
		if r.Intn(2) == 0 {
			w += randWord(r, units, 1, 2) // extension of the suffix/infix
		}
		second = append(second, w)
	}
	return first, second
}

func anyOccurs(ps []string, text string) bool {
	for _, p := range ps {
		if p != "" && strings.Contains(text, p) {
			return true
		}
	}
	return false
}
func anyHasPrefix(ps []string, key string) bool {
	for _, p := range ps {
		if p != "" && strings.HasPrefix(p, key) {
			return true
		}
	}
	return false
}

// ---- native sweep: every code point against every lone invalid byte.
// The trie treats an invalid byte b as a private pseudo-rune.  Whatever number the code picks for it, a valid code point
// with that number would be taken for the byte (and the byte for the code point).  The sweep asks the code itself: a trie
// holding the 128 lone bytes 0x80..0xFF as patterns must match no string that is one valid code point.  1.1 million
// Match calls, no model involved; every hit becomes ordinary cases (byte pattern vs rune text and the reverse), so that
// the failure, if there is one, is judged by the specification and reported with the input.  On a correct tree: 0 hits.
var trieSweep struct {
	once  sync.Once
	pairs [][2]string // {lone byte, code point}
	note  string
}

func trieMatchSafe(t *algz.Trie, s string) (hit bool) {
	defer func() {
		if recover() != nil {
			hit = true
		}
	}()
	return t.Match(s)
}

func trieCollisionHits() ([][2]string, string) {
	trieSweep.once.Do(func() {
		all := &algz.Trie{}
		for b := 0x80; b <= 0xff; b++ {
			all.Insert(string([]byte{byte(b)}))
		}
		all.BuildFailureLinks()
		var hits []rune
		n := 0
		for r := rune(0x80); r <= 0x10FFFF && len(hits) < 48; r++ {
			if r >= 0xD800 && r <= 0xDFFF {
				continue
			}
			n++
			if trieMatchSafe(all, string(r)) {
				hits = append(hits, r)
			}
		}
		for _, r := range hits {
			for b := 0x80; b <= 0xff; b++ {
				one := &algz.Trie{}
				one.Insert(string([]byte{byte(b)}))
				one.BuildFailureLinks()
				if trieMatchSafe(one, string(r)) {
					trieSweep.pairs = append(trieSweep.pairs, [2]string{string([]byte{byte(b)}), string(r)})
				}
			}
		}
		trieSweep.note = fmt.Sprintf("native sweep: the 128 lone bytes 0x80..0xFF as patterns against each of %d valid code points as text: %d code points matched (each becomes cases in both directions)", n, len(hits))
	})
	return trieSweep.pairs, trieSweep.note
}

// the cases made from the hits of the sweep
func trieCollisionCases() []*trieCase {
	pairs, _ := trieCollisionHits()
	var out []*trieCase
	for _, p := range pairs {
		b, r := p[0], p[1]
		out = append(out,
			&trieCase{ops: opsOf([]string{b}), text: []byte(r)},
			&trieCase{ops: opsOf([]string{r}), text: []byte(b)},
			&trieCase{ops: opsOf([]string{b}), text: []byte("x" + r + "y")},
			&trieCase{ops: opsOf([]string{r}), text: []byte("ab" + b + "cd")},
			&trieCase{ops: opsOf([]string{b, r}), text: []byte(r + b)})
	}
	return out
}
