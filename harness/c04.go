package main

import (
	"fmt"
	"math/rand"
	"reflect"
	"sync"
	"unsafe"

	"github.com/welllog/golib/heapz"
)

// C04: heapz.Slice, heapz.Heap (element handles), generic Init/Push/Pop/Remove/Fix.
// case = kind :: n :: init(n) ++ ops, op = [code a b]
//
//	kind 0 Slice, 2 generic functions over a []int64 container:
//	  0 Push(a) 1 Pop 2 Peek 3 Len 4 Remove(a) 5 Fix(a) 6 Values[a]=b (if in range); Fix(a)
//	  7 Values[a]=b (if in range); FromSlice / Init   8 PopAll, stop after a values (a <= 0: never)
//	kind 1 two Heaps h0, h1 sharing one population of handles (handle = creation number):
//	  0 Push(h=a, v=b) 1 Pop(h) 2 Peek(h) 3 Len(h) 4 h.Remove(handle b) 5 h.Fix(handle b)
//	  0 Push (every second element: a caller-built &Element{Value: v} handed to PushElement)
//	  6 handle a: Value = b/2; heaps[b%2].Fix; heaps[1-b%2].Fix   7 h.PushElement(handle b) if it reports Index() == -1
//	  8 h.Init(k = b%16 values, base-5 digits of b/16)   9 h.PopAll, stop after b values   10 handle a: index field := b (unsafe)
//
// values are v*1000 + id, compared on v only.
func c04cmp(a, b int64) bool { return a/1000 < b/1000 }

type c04cont []int64

func (c c04cont) Len() int           { return len(c) }
func (c c04cont) Less(i, j int) bool { return c04cmp(c[i], c[j]) }
func (c c04cont) Swap(i, j int)      { c[i], c[j] = c[j], c[i] }
func (c *c04cont) Push(x int64)      { *c = append(*c, x) }
func (c *c04cont) Pop() int64 {
	old := *c
	n := len(old)
	x := old[n-1]
	*c = old[:n-1]
	return x
}

// unexported state of Heap / Element, located by type (harness/fields.go): the slice of element pointers of a Heap and
// the unexported integer field of an Element (its index).  Needed by op 8 (handles of the elements Init creates) and
// op 10 (overwrite the index field); when they cannot be located those two ops are not generated.
var c04Lay struct {
	once              sync.Once
	ok                bool
	valuesOff, idxOff uintptr
}

func c04Probe() {
	var h heapz.Heap[int64]
	var e heapz.Element[int64]
	vf, ok1 := PickField(reflect.TypeOf(h), []string{"values", "elems", "items"}, func(f reflect.StructField) bool {
		return f.Type == reflect.TypeOf([]*heapz.Element[int64](nil))
	})
	xf, ok2 := PickField(reflect.TypeOf(e), []string{"index", "idx", "pos"}, func(f reflect.StructField) bool {
		return f.Type.Kind() == reflect.Int && f.PkgPath != ""
	})
	if !ok1 || !ok2 {
		InstrLost("heapz.Heap element slice / heapz.Element index field (ops Init-with-handles and index corruption are not generated)")
		return
	}
	// behavioural confirmation: the field found reads what Index() reports
	h.Init([]int64{3000, 1000, 2000}, c04cmp)
	vals := *(*[]*heapz.Element[int64])(unsafe.Add(unsafe.Pointer(&h), vf.Offset))
	if len(vals) != 3 {
		InstrLost("heapz.Heap element slice (unexpected content)")
		return
	}
	for i, el := range vals {
		if el == nil || el.Index() != i || *(*int)(unsafe.Add(unsafe.Pointer(el), xf.Offset)) != i {
			InstrLost("heapz.Element index field (does not read what Index() reports)")
			return
		}
	}
	c04Lay.valuesOff, c04Lay.idxOff, c04Lay.ok = vf.Offset, xf.Offset, true
}
func c04InstrOK() bool { c04Lay.once.Do(c04Probe); return c04Lay.ok }
func c04HeapValues(h *heapz.Heap[int64]) []*heapz.Element[int64] {
	if !c04InstrOK() {
		return nil
	}
	return *(*[]*heapz.Element[int64])(unsafe.Add(unsafe.Pointer(h), c04Lay.valuesOff))
}
func c04SetIndex(e *heapz.Element[int64], x int) {
	if c04InstrOK() && e != nil {
		*(*int)(unsafe.Add(unsafe.Pointer(e), c04Lay.idxOff)) = x
	}
}

// a kind-1 case that needs the instrumentation (ops 8 and 10)
func c04NeedsInstr(in []int64) bool {
	if len(in) < 2 || in[0] != 1 {
		return false
	}
	_, ops := GetList(in[1:])
	for i := 0; i+2 < len(ops); i += 3 {
		if ops[i] == 8 || ops[i] == 10 {
			return true
		}
	}
	return false
}

func c04opt(x int64, ok bool) []int64 {
	if !ok {
		return []int64{0, 0}
	}
	return []int64{1, x}
}

func c04Impl(in []int64) []int64 {
	kind := in[0]
	init, ops := GetList(in[1:])
	var out []int64
	switch kind {
	case 0:
		s := heapz.FromSlice(append([]int64(nil), init...), c04cmp)
		out = append(out, PutList(s.Values)...)
		for i := 0; i+2 < len(ops); i += 3 {
			c, a, b := ops[i], ops[i+1], ops[i+2]
			switch c {
			case 0:
				s.Push(a)
			case 1:
				out = append(out, c04opt(s.Pop())...)
			case 2:
				out = append(out, c04opt(s.Peek())...)
			case 3:
				out = append(out, int64(s.Len()))
			case 4:
				out = append(out, c04opt(s.Remove(int(a)))...)
			case 5:
				s.Fix(int(a))
			case 6:
				if a >= 0 && a < int64(len(s.Values)) {
					s.Values[a] = b
				}
				s.Fix(int(a))
			case 7:
				if a >= 0 && a < int64(len(s.Values)) {
					s.Values[a] = b
				}
				s = heapz.FromSlice(s.Values, c04cmp)
			case 8:
				l := []int64{}
				for x := range s.PopAll() {
					l = append(l, x)
					if a > 0 && int64(len(l)) >= a {
						break
					}
				}
				out = append(out, PutList(l)...)
			}
			out = append(out, PutList(s.Values)...)
		}
	case 2:
		ct := c04cont(append([]int64(nil), init...))
		h := &ct
		heapz.Init[int64](h)
		out = append(out, PutList(*h)...)
		for i := 0; i+2 < len(ops); i += 3 {
			c, a, b := ops[i], ops[i+1], ops[i+2]
			switch c {
			case 0:
				heapz.Push[int64](h, a)
			case 1:
				out = append(out, 1, heapz.Pop[int64](h).(int64))
			case 3:
				out = append(out, int64(h.Len()))
			case 4:
				out = append(out, 1, heapz.Remove[int64](h, int(a)).(int64))
			case 5:
				heapz.Fix[int64](h, int(a))
			case 6:
				if a >= 0 && a < int64(len(*h)) {
					(*h)[a] = b
				}
				heapz.Fix[int64](h, int(a))
			case 7:
				if a >= 0 && a < int64(len(*h)) {
					(*h)[a] = b
				}
				heapz.Init[int64](h)
			}
			out = append(out, PutList(*h)...)
		}
	case 1:
		var hs [2]heapz.Heap[int64]
		hs[0] = heapz.New[int64](0, c04cmp)
		hs[1] = heapz.New[int64](0, c04cmp)
		// earlier life of the two Heap objects (the first element of the otherwise unused init list; the model starts
		// from two empty heaps ordered by c04cmp in every variant): 1 = made by New with the REVERSED comparator, used,
		// then Init(nil, c04cmp); 2 = zero value, then Init; 3 = as 1 with a non-empty Init under the reversed
		// comparator in between.  What the heap does must depend on the comparator of its last Init only.
		if len(init) > 0 && init[0] >= 4 && init[0] <= 6 { // 4..6: New with a large capacity hint (4096, 1028, 300)
			for h := range hs {
				hs[h] = heapz.New[int64]([]int{4096, 1028, 300}[init[0]-4], c04cmp)
			}
		}
		if len(init) > 0 && init[0] >= 1 && init[0] <= 3 {
			rev := func(a, b int64) bool { return c04cmp(b, a) }
			for h := range hs {
				switch init[0] {
				case 1, 3:
					hs[h] = heapz.New[int64](4, rev)
					hs[h].Push(3999)
					hs[h].Push(1999)
					if init[0] == 3 {
						hs[h].Init([]int64{999, 2999, 4999}, rev)
						hs[h].Pop()
					}
				default:
					hs[h] = heapz.Heap[int64]{}
				}
				hs[h].Init(nil, c04cmp)
			}
		}
		var handles []*heapz.Element[int64]
		ids := map[*heapz.Element[int64]]int64{}
		hsel := func(a int64) int {
			if a == 0 {
				return 0
			}
			return 1
		}
		idOf := func(e *heapz.Element[int64]) int64 {
			if e == nil {
				return -1
			}
			if id, ok := ids[e]; ok {
				return id
			}
			return -7 // a pointer the harness never saw: cannot match the model
		}
		for i := 0; i+2 < len(ops); i += 3 {
			c, a, b := ops[i], ops[i+1], ops[i+2]
			h := hsel(a)
			switch c {
			case 0:
				// every second element is built by the caller (a literal that has never been in a heap) and handed to
				// PushElement, which is what Push itself does: the two forms must be indistinguishable
				var e *heapz.Element[int64]
				if len(handles)%2 == 1 {
					e = &heapz.Element[int64]{Value: b*1000 + int64(len(handles))}
					hs[h].PushElement(e)
				} else {
					e = hs[h].Push(b*1000 + int64(len(handles)))
				}
				ids[e] = int64(len(handles))
				handles = append(handles, e)
			case 1:
				out = append(out, idOf(hs[h].Pop()))
			case 2:
				out = append(out, idOf(hs[h].Peek()))
			case 3:
				out = append(out, int64(hs[h].Len()))
			case 4:
				if b >= 0 && b < int64(len(handles)) {
					hs[h].Remove(handles[b])
				}
			case 5:
				if b >= 0 && b < int64(len(handles)) {
					hs[h].Fix(handles[b])
				}
			case 6:
				if a >= 0 && a < int64(len(handles)) {
					e := handles[a]
					e.Value = (b/2)*1000 + a
					hs[b%2].Fix(e)
					hs[1-b%2].Fix(e)
				}
			case 7:
				if b >= 0 && b < int64(len(handles)) && handles[b].Index() == -1 {
					hs[h].PushElement(handles[b])
				}
			case 8:
				k, p := int(b%16), b/16
				vals := make([]int64, k)
				for j := 0; j < k; j++ {
					vals[j] = (p%5)*1000 + int64(len(handles)+j)
					p /= 5
				}
				hs[h].Init(vals, c04cmp)
				base := len(handles)
				handles = append(handles, make([]*heapz.Element[int64], k)...)
				for _, e := range c04HeapValues(&hs[h]) {
					id := e.Value % 1000
					if id >= int64(base) && id < int64(len(handles)) {
						handles[id] = e
						ids[e] = id
					}
				}
			case 9:
				l := []int64{}
				for x := range hs[h].PopAll() {
					l = append(l, x)
					if b > 0 && int64(len(l)) >= b {
						break
					}
				}
				out = append(out, PutList(l)...)
			case 10:
				if a >= 0 && a < int64(len(handles)) {
					c04SetIndex(handles[a], int(b))
				}
			}
			ix := make([]int64, len(handles))
			for j, e := range handles {
				if e == nil {
					ix[j] = -9
				} else {
					ix[j] = int64(e.Index())
				}
			}
			out = append(out, PutList(ix)...)
		}
	}
	return out
}

var c04LNames = []string{"Push", "Pop", "Peek", "Len", "Remove", "Fix", "SetFix", "ReInit", "PopAll"}
var c04HNames = []string{"Push", "Pop", "Peek", "Len", "Remove", "Fix", "SetFix", "PushElement", "Init", "PopAll", "CorruptIndex"}

func c04Describe(in []int64) string {
	if len(in) < 2 {
		return "?"
	}
	init, ops := GetList(in[1:])
	s := []string{"Slice", "Heap", "generic"}[in[0]%3] + fmt.Sprint(init) + ":"
	for i := 0; i+2 < len(ops); i += 3 {
		c := ops[i]
		if in[0] == 1 {
			if c >= 0 && int(c) < len(c04HNames) {
				s += fmt.Sprintf(" %s(%d,%d)", c04HNames[c], ops[i+1], ops[i+2])
			}
		} else if c >= 0 && int(c) < len(c04LNames) {
			s += fmt.Sprintf(" %s(%d,%d)", c04LNames[c], ops[i+1], ops[i+2])
		}
	}
	return s
}

// shrink: drop operations, drop initial elements, lower arguments
func c04Shrink(in []int64) [][]int64 {
	if len(in) < 2 {
		return nil
	}
	init, ops := GetList(in[1:])
	mk := func(init, ops []int64) []int64 {
		c := []int64{in[0]}
		c = append(c, PutList(init)...)
		return append(c, ops...)
	}
	var out [][]int64
	n := len(ops) / 3
	for chunk := n / 2; chunk >= 1; chunk /= 2 {
		for s := 0; s+chunk <= n; s += chunk {
			o := append([]int64{}, ops[:s*3]...)
			o = append(o, ops[(s+chunk)*3:]...)
			out = append(out, mk(init, o))
		}
	}
	for i := range init {
		ni := append(append([]int64{}, init[:i]...), init[i+1:]...)
		out = append(out, mk(ni, ops))
	}
	for i := range ops {
		if i%3 != 0 && ops[i] > 0 {
			o := append([]int64{}, ops...)
			if o[i] >= 1000 {
				o[i] -= 1000
			} else {
				o[i]--
			}
			out = append(out, mk(init, o))
		}
	}
	return out
}

// ---- generators
func c04ListOp(r *rand.Rand, kind int64, size int, uid *int64) (c, a, b int64, dsize int) {
	idx := func() int64 { // mostly valid, sometimes outside
		if kind == 0 && r.Intn(6) == 0 {
			return int64(r.Intn(size+5)) - 2
		}
		if size == 0 {
			return 0
		}
		return int64(r.Intn(size))
	}
	val := func() int64 { *uid++; return int64(r.Intn(5))*1000 + *uid }
	x := r.Intn(100)
	switch {
	case x < 30 || size == 0 && x < 60:
		return 0, val(), 0, 1
	case x < 45:
		if size == 0 && kind == 2 {
			return 3, 0, 0, 0
		}
		return 1, 0, 0, -1
	case x < 50:
		return 2, 0, 0, 0
	case x < 53:
		return 3, 0, 0, 0
	case x < 68:
		i := idx()
		if kind == 2 && size == 0 {
			return 3, 0, 0, 0
		}
		if i >= 0 && i < int64(size) {
			return 4, i, 0, -1
		}
		return 4, i, 0, 0
	case x < 73:
		if kind == 2 && size == 0 {
			return 3, 0, 0, 0
		}
		return 5, idx(), 0, 0
	case x < 90:
		if kind == 2 && size == 0 {
			return 3, 0, 0, 0
		}
		return 6, idx(), val(), 0
	case x < 95:
		return 7, idx(), val(), 0
	default:
		if kind == 2 {
			return 3, 0, 0, 0
		}
		k := int64(r.Intn(4)) - 1
		d := size
		if k > 0 && int(k) < size {
			d = int(k)
		}
		return 8, k, 0, -d
	}
}

func c04Gen(c *Ctx) {
	// ---------------- exhaustive small scope: every op sequence of length <= L from several initial heaps
	L := c.N(3, 4)
	type op3 [3]int64
	listAlpha := func(kind int64) []op3 {
		a := []op3{{0, 901, 0}, {0, 1902, 0}, {0, 3903, 0}, {1, 0, 0}, {4, 0, 0}, {4, 1, 0}, {4, 2, 0}, {4, 4, 0},
			{5, 1, 0}, {6, 0, 4904}, {6, 1, 905}, {6, 2, 906}, {6, 3, 2907}, {7, 1, 908}}
		if kind == 0 {
			a = append(a, op3{2, 0, 0}, op3{3, 0, 0}, op3{4, -1, 0}, op3{4, 7, 0}, op3{5, 9, 0}, op3{8, 0, 0}, op3{8, 2, 0})
		}
		return a
	}
	inits := [][]int64{{}, {2001}, {2001, 1002, 3}, {1, 1002, 1003, 2004, 2005}, {4001, 3002, 3003, 2004, 1005, 1006, 7}}
	for _, kind := range []int64{0, 2} {
		al := listAlpha(kind)
		sizes := []int{1}
		all := 1
		for l, t := 1, 1; l <= L; l++ {
			t *= len(al)
			sizes = append(sizes, t)
			all += t
		}
		k := kind
		c.Each(all*len(inits), func(i int, t *T) {
			init := inits[i%len(inits)]
			i /= len(inits)
			l := 0
			for i >= sizes[l] {
				i -= sizes[l]
				l++
			}
			in := append([]int64{k}, PutList(init)...)
			names := map[int64]bool{}
			for j := 0; j < l; j++ {
				o := al[i%len(al)]
				i /= len(al)
				x := o
				if x[0] == 0 {
					x[1] += int64(10 * j) // distinct ids for repeated pushes
				}
				if x[0] == 6 || x[0] == 7 {
					x[2] += int64(10 * j)
				}
				in = append(in, x[0], x[1], x[2])
				names[o[0]] = true
			}
			if k == 0 {
				in = append(in, 8, 0, 0) // drain: PopAll must come out sorted
			}
			t.Try(fmt.Sprintf("exhaustive-kind%d", k), in, l >= 2 && len(names) >= 2)
		})
	}
	// Heap with handles: alphabet over two heaps, three pre-made handles
	{
		al := []op3{{0, 0, 0}, {0, 0, 2}, {0, 1, 1}, {1, 0, 0}, {1, 1, 0}, {2, 0, 0}, {4, 0, 0}, {4, 0, 1}, {4, 0, 2}, {4, 1, 1}, {4, 0, 3},
			{5, 0, 1}, {6, 0, 8}, {6, 1, 1}, {6, 2, 0}, {6, 3, 9}, {7, 0, 0}, {7, 1, 2}, {8, 0, 3 + 16*11}, {9, 0, 0}, {9, 0, 1}, {3, 0, 0}}
		pre := [][]int64{{}, {0, 0, 1, 0, 0, 1, 0, 0, 3, 0, 1, 0}, {8, 0, 5 + 16*(2+5*1+25*1+125*0+625*3), 0, 1, 2, 0, 0, 2}}
		sizes := []int{1}
		all := 1
		for l, t := 1, 1; l <= L; l++ {
			t *= len(al)
			sizes = append(sizes, t)
			all += t
		}
		c.Each(all*len(pre), func(i int, t *T) {
			p := pre[i%len(pre)]
			i /= len(pre)
			l := 0
			for i >= sizes[l] {
				i -= sizes[l]
				l++
			}
			in := append([]int64{1, 0}, p...)
			names := map[int64]bool{}
			for j := 0; j < l; j++ {
				o := al[i%len(al)]
				i /= len(al)
				in = append(in, o[0], o[1], o[2])
				names[o[0]] = true
			}
			in = append(in, 9, 0, 0, 9, 1, 0)
			if c04InstrOK() || !c04NeedsInstr(in) {
				t.Try("exhaustive-kind1", in, l >= 2 && len(names) >= 2)
			}
		})
	}
	c.SetExhaustive()
	c.Note(fmt.Sprintf("exhaustive part: every op sequence of length <= %d over the boundary alphabets, from 5 initial slices (Slice, generic) / 3 prefixes (Heap), followed by PopAll", L))

	// ---------------- random long sequences, list flavours
	n := c.N(6000, 120000)
	c.Each(n, func(i int, t *T) {
		r := t.R
		kind := int64(0)
		if i%2 == 1 {
			kind = 2
		}
		ni := r.Intn(9)
		if r.Intn(4) == 0 {
			ni = r.Intn(30)
		}
		uid := int64(0)
		init := make([]int64, ni)
		for j := range init {
			uid++
			init[j] = int64(r.Intn(5))*1000 + uid
		}
		in := append([]int64{kind}, PutList(init)...)
		size := ni
		nops := 3 + r.Intn(58)
		kinds := map[int64]bool{}
		for j := 0; j < nops; j++ {
			cc, a, b, ds := c04ListOp(r, kind, size, &uid)
			in = append(in, cc, a, b)
			size += ds
			if size < 0 {
				size = 0
			}
			kinds[cc] = true
			t.C.Count("op-list", c04LNames[cc])
		}
		if kind == 0 {
			in = append(in, 8, 0, 0)
		}
		t.Try(fmt.Sprintf("random-kind%d", kind), in, nops >= 3 && len(kinds) >= 2)
	})
	// generic functions outside their contract: the last call has a wild index / empties an empty container
	c.Each(c.N(1500, 20000), func(i int, t *T) {
		r := t.R
		ni := r.Intn(7)
		uid := int64(0)
		init := make([]int64, ni)
		for j := range init {
			uid++
			init[j] = int64(r.Intn(5))*1000 + uid
		}
		in := append([]int64{2}, PutList(init)...)
		size := ni
		for j := r.Intn(5); j > 0; j-- {
			cc, a, b, ds := c04ListOp(r, 2, size, &uid)
			in = append(in, cc, a, b)
			size += ds
		}
		wild := []int64{-3, -2, -1, int64(size), int64(size) + 1, int64(2*size) + 3}[r.Intn(6)]
		switch r.Intn(4) {
		case 0:
			in = append(in, 4, wild, 0)
		case 1:
			in = append(in, 5, wild, 0)
		case 2:
			in = append(in, 6, wild, 7)
		default:
			for ; size > 0; size-- {
				in = append(in, 1, 0, 0)
			}
			in = append(in, 1, 0, 0)
		}
		in = append(in, 3, 0, 0)
		t.Try("generic-out-of-contract", in, true)
	})
	// ---------------- random long sequences, Heap with handles (live, stale, foreign, unknown)
	c.Each(c.N(6000, 120000), func(i int, t *T) {
		r := t.R
		in := []int64{1, 0}
		if v := r.Intn(6); v >= 1 && v <= 3 {
			in = []int64{1, 1, int64(v)}
			t.C.Count("heap-earlier-life", []string{"", "New(reversed cmp), used, Init(nil, cmp)", "zero value, Init(nil, cmp)", "New(reversed), Init(values, reversed), Init(nil, cmp)"}[v])
		}
		nh := 0
		nops := 3 + r.Intn(58)
		kinds := map[int64]bool{}
		he := func() int64 { // any handle, occasionally one that does not exist yet
			if nh == 0 || r.Intn(12) == 0 {
				return int64(nh + r.Intn(2))
			}
			return int64(r.Intn(nh))
		}
		for j := 0; j < nops; j++ {
			h := int64(r.Intn(2))
			if r.Intn(3) > 0 {
				h = 0
			}
			x := r.Intn(100)
			var cc, a, b int64
			switch {
			case x < 28 || nh == 0:
				if r.Intn(8) == 0 {
					k := r.Intn(9)
					cc, a, b = 8, h, int64(k)+16*int64(r.Intn(390625))
					nh += k
				} else {
					cc, a, b = 0, h, int64(r.Intn(5))
					nh++
				}
			case x < 42:
				cc, a = 1, h
			case x < 46:
				cc, a = 2, h
			case x < 49:
				cc, a = 3, h
			case x < 64:
				cc, a, b = 4, h, he()
			case x < 69:
				cc, a, b = 5, h, he()
			case x < 88:
				cc, a, b = 6, he(), int64(r.Intn(5))*2+int64(r.Intn(2))
			case x < 95:
				cc, a, b = 7, h, he()
			default:
				cc, a, b = 9, h, int64(r.Intn(4))-1
			}
			in = append(in, cc, a, b)
			kinds[cc] = true
			t.C.Count("op-heap", c04HNames[cc])
		}
		in = append(in, 9, 0, 0, 9, 1, 0)
		if c04InstrOK() || !c04NeedsInstr(in) {
			t.Try("random-kind1", in, nops >= 3 && len(kinds) >= 2)
		}
	})
	// ---------------- deep heaps with few ties: 12-60 elements over keys 0..99, then mostly Remove / Fix / SetFix at
	// random (inner) positions, then a full drain.  A sift that goes the wrong way at an inner node of a tree of 4+
	// levels needs this size and a tail element from another subtree that is strictly smaller than the parent.
	c.Each(c.N(6000, 120000), func(i int, t *T) {
		r := t.R
		n0 := 12 + r.Intn(49)
		switch i % 3 {
		case 0: // Heap with handles
			in := []int64{1, 0}
			nops := 4 + r.Intn(30)
			if i%300 == 0 { // hundreds of elements in a heap made with a large capacity hint (size-dependent policies)
				n0 = 257 + r.Intn(90)
				nops = 3 + r.Intn(6)
				in = []int64{1, 1, int64(4 + r.Intn(3))}
				t.C.Count("heap-earlier-life", "New(large capacity hint), 257+ elements")
			}
			for j := 0; j < n0; j++ {
				in = append(in, 0, 0, int64(r.Intn(100)))
			}
			nh := n0
			for j := nops; j > 0; j-- {
				x := r.Intn(100)
				switch {
				case x < 55:
					in = append(in, 4, 0, int64(r.Intn(nh)))
				case x < 70:
					in = append(in, 6, int64(r.Intn(nh)), int64(r.Intn(100))*2000)
				case x < 80:
					in = append(in, 5, 0, int64(r.Intn(nh)))
				case x < 90:
					in = append(in, 0, 0, int64(r.Intn(100)))
					nh++
				default:
					in = append(in, 1, 0, 0)
				}
			}
			in = append(in, 9, 0, 0, 9, 1, 0)
			if c04InstrOK() || !c04NeedsInstr(in) {
				t.Try("deep-kind1", in, true)
			}
		default: // Slice / generic functions
			kind := int64(0)
			if i%3 == 2 {
				kind = 2
			}
			init := make([]int64, n0)
			uid := int64(0)
			for j := range init {
				uid++
				init[j] = int64(r.Intn(100))*1000 + uid
			}
			in := append([]int64{kind}, PutList(init)...)
			in = append(in, 7, -1, 0) // Init / FromSlice: heapify
			size := n0
			for j := 4 + r.Intn(30); j > 0 && size > 1; j-- {
				x := r.Intn(100)
				uid++
				switch {
				case x < 55:
					in = append(in, 4, int64(r.Intn(size)), 0)
					size--
				case x < 75:
					in = append(in, 6, int64(r.Intn(size)), int64(r.Intn(100))*1000+uid)
				case x < 90:
					in = append(in, 0, int64(r.Intn(100))*1000+uid, 0)
					size++
				default:
					in = append(in, 1, 0, 0)
					size--
				}
			}
			if kind == 0 {
				in = append(in, 8, 0, 0)
			} else {
				for ; size > 0; size-- {
					in = append(in, 1, 0, 0)
				}
			}
			t.Try(fmt.Sprintf("deep-kind%d", kind), in, true)
		}
	})
	// the "heap: invalid index" branch of Heap.Remove / Heap.Fix: unreachable through the API, reached by
	// overwriting the unexported index field; compared with the model only (the judge does not cover it)
	c.Each(c.N(600, 6000), func(i int, t *T) {
		r := t.R
		in := []int64{1, 0}
		nh := 1 + r.Intn(6)
		for j := 0; j < nh; j++ {
			in = append(in, 0, 0, int64(r.Intn(5)))
		}
		e := int64(r.Intn(nh))
		k := int64(r.Intn(nh+5)) - 2
		in = append(in, 10, e, k)
		if r.Intn(2) == 0 {
			in = append(in, 4, 0, e)
		} else {
			in = append(in, 5, 0, e)
		}
		if c04InstrOK() || !c04NeedsInstr(in) {
			t.Try("heap-corrupt-index", in, true)
		}
	})
}

func init() {
	Register(&Prop{ID: "C04", Pure: true, JudgeLimit: 600, Num: 4, SpecMode: "rel", Gen: c04Gen, Impl: c04Impl,
		Shrink: c04Shrink, Describe: c04Describe,
		Rule: "values v*1000+id with v in 0..4 compared on v only (ties everywhere). exhaustive: every op sequence up to the tier's length over boundary alphabets (Push/Pop/Peek/Remove/Fix/SetFix/ReInit/PopAll, indices -1..9; for Heap: two heaps, live/stale/foreign/unknown handles, PushElement of old handles and of caller-built Element literals, Init) from several initial heaps; random: 3-60 ops, Slice / generic functions / Heap handles; deep heaps (12-60 elements over keys 0..99, Remove/Fix/SetFix at inner positions, drain); generic functions outside their contract (wild index, Pop on empty: panics must agree with the model); Heap index field overwritten (panic branch). Compared exactly after every op: results, Slice.Values / container, Index() of every handle. distinct = distinct case; non-trivial = at least 3 (exhaustive: 2) operations of at least 2 kinds"})
}
