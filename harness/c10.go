package main

import (
	"fmt"
	"math/rand"
	"reflect"
	"strings"
	"sync"
	"time"
	"unsafe"

	"github.com/welllog/golib/ringz"
)

// C10: ringz.Ring / ringz.SyncRing used from one goroutine.
// case = kind :: c :: inj :: ops, op = [code arg]
//   kind 0  ringz.New[int](c)
//           0 Push 1 Pop 2 Peek 3 Len 4 IsEmpty 5 IsFull 6 Cap 7 Recap 8 PushWithExpand 9 Init 10 Dump(head, tail, values)
//   kind 1  ringz.NewSync[int](c); inj >= 0: head/tail/slot sequence numbers are written (reflect+unsafe) to the state
//           that inj push/pop pairs produce (Coq: pairs_reach / injected_state)
//           0 Push 1 Pop 3 Len 4 IsEmpty 5 IsFull 6 Cap 9 Init 10 Dump(head, tail, mask, (value,pos)*)
//           11 PushWait(v,0) 12 PopWait(0) 13 PushWait(v,1ns) 14 PopWait(1ns)
//   kind 2  like kind 1, but inj honest pairs Push(i);Pop() are really performed first (every result checked -> 1/0)

// logical field name -> actual field name, per struct type, found once by type and behaviour on scratch rings (the
// names in the source are hints only; see harness/fields.go)
var c10Lay struct {
	once sync.Once
	m    map[string]map[string]string // type name prefix ("Ring", "SyncRing", "item") -> logical -> actual
}

func c10ProbeNames() {
	m := map[string]map[string]string{"Ring": {}, "SyncRing": {}, "item": {}}
	func() {
		defer func() { recover() }()
		r := ringz.New[int](4)
		t, p := reflect.TypeOf(r), unsafe.Pointer(&r)
		before := IntFieldValues(t, p)
		r.Push(5)
		r.Push(6)
		now := IntFieldValues(t, p)
		if f, ok := FieldWithValue(t, now, before, 0, "head"); ok {
			m["Ring"]["head"] = f.Name
		}
		if f, ok := FieldWithValue(t, now, before, 1, "tail"); ok {
			m["Ring"]["tail"] = f.Name
		}
		if f, ok := FieldWithValue(t, now, nil, 4, "cap"); ok {
			m["Ring"]["cap"] = f.Name
		}
		if f, ok := PickField(t, []string{"values", "buf", "items"}, KindIs(reflect.Slice)); ok {
			m["Ring"]["values"] = f.Name
		}
	}()
	func() {
		defer func() { recover() }()
		r := ringz.NewSync[int](4)
		t, p := reflect.TypeOf(r), unsafe.Pointer(&r)
		before := IntFieldValues(t, p)
		r.Push(5)
		r.Push(6)
		r.Pop()
		now := IntFieldValues(t, p)
		if f, ok := FieldWithValue(t, now, before, 1, "head"); ok {
			m["SyncRing"]["head"] = f.Name
		}
		if f, ok := FieldWithValue(t, now, before, 2, "tail"); ok {
			m["SyncRing"]["tail"] = f.Name
		}
		if f, ok := FieldWithValue(t, now, nil, 4, "cap"); ok {
			m["SyncRing"]["cap"] = f.Name
		}
		if f, ok := FieldWithValue(t, now, nil, 3, "mask"); ok {
			m["SyncRing"]["mask"] = f.Name
		}
		if f, ok := PickField(t, []string{"values", "slots", "items", "buf"}, KindIs(reflect.Slice)); ok {
			m["SyncRing"]["values"] = f.Name
			it := f.Type.Elem()
			if g, ok := PickField(it, []string{"pos", "seq"}, KindIs(reflect.Uint32)); ok {
				m["item"]["pos"] = g.Name
			}
			if g, ok := PickField(it, []string{"value", "val"}, KindIs(reflect.Int)); ok {
				m["item"]["value"] = g.Name
			}
			itn := it.Name()
			if i := strings.IndexByte(itn, '['); i >= 0 {
				itn = itn[:i]
			}
			m[itn] = m["item"]
		}
	}()
	c10Lay.m = m
}

func c10Field(v reflect.Value, name string) reflect.Value {
	c10Lay.once.Do(c10ProbeNames)
	tn := v.Type().Name()
	if i := strings.IndexByte(tn, '['); i >= 0 {
		tn = tn[:i]
	}
	actual := name
	if mm, ok := c10Lay.m[tn]; ok {
		if a, ok := mm[name]; ok {
			actual = a
		} else {
			actual = ""
		}
	}
	f := reflect.Value{}
	if actual != "" {
		f = v.FieldByName(actual)
	}
	if !f.IsValid() {
		panic("field " + name + " of " + tn + " not found")
	}
	return f
}

// the index mask of a SyncRing: the field if there is one, cap-1 otherwise
func c10Mask(v reflect.Value) int64 {
	c10Lay.once.Do(c10ProbeNames)
	if _, ok := c10Lay.m["SyncRing"]["mask"]; ok {
		return int64(c10Field(v, "mask").Uint())
	}
	return int64(c10Field(v, "cap").Uint()) - 1
}
func c10Set(f reflect.Value, x uint64) {
	w := reflect.NewAt(f.Type(), unsafe.Pointer(f.UnsafeAddr())).Elem()
	switch w.Kind() {
	case reflect.Uint32, reflect.Uint64, reflect.Uint:
		w.SetUint(x)
	default:
		w.SetInt(int64(x))
	}
}

func c10Inject(r *ringz.SyncRing[int], n uint64) {
	v := reflect.ValueOf(r).Elem()
	capv := c10Field(v, "cap").Uint()
	c10Set(c10Field(v, "head"), uint64(uint32(n)))
	c10Set(c10Field(v, "tail"), uint64(uint32(n)))
	vals := c10Field(v, "values")
	for i := 0; i < vals.Len(); i++ {
		// the position p in [n, n+cap) with p mod cap == i
		d := (uint64(i) + capv - n%capv) % capv
		it := vals.Index(i)
		c10Set(c10Field(it, "pos"), uint64(uint32(n+d)))
		c10Set(c10Field(it, "value"), 0)
	}
}

func c10DumpRing(r *ringz.Ring[int]) []int64 {
	v := reflect.ValueOf(r).Elem()
	l := []int64{c10Field(v, "head").Int(), c10Field(v, "tail").Int()}
	vals := c10Field(v, "values")
	for i := 0; i < vals.Len(); i++ {
		l = append(l, vals.Index(i).Int())
	}
	return PutList(l)
}
func c10DumpSync(r *ringz.SyncRing[int]) []int64 {
	v := reflect.ValueOf(r).Elem()
	l := []int64{int64(c10Field(v, "head").Uint()), int64(c10Field(v, "tail").Uint()), c10Mask(v)}
	vals := c10Field(v, "values")
	for i := 0; i < vals.Len(); i++ {
		it := vals.Index(i)
		l = append(l, c10Field(it, "value").Int(), int64(c10Field(it, "pos").Uint()))
	}
	return PutList(l)
}

// Honest runs of more than 2^32 pairs take longer than the framework's per-case timeout: the generator starts them
// ahead of time (c10Prepare) and the kind-2 case picks the finished ring up here.
type c10HonestRes struct {
	ring ringz.SyncRing[int]
	good bool
}

var c10HonestMu sync.Mutex
var c10Honest = map[[2]int64]*c10HonestRes{}

func c10HonestRun(r *ringz.SyncRing[int], n int64) bool {
	for i := int64(0); i < n; i++ {
		x := int(i&0xffff) + 1
		if !r.Push(x) {
			return false
		}
		if v, ok := r.Pop(); !ok || v != x {
			return false
		}
	}
	return true
}
func c10Prepare(req, n int64, wg *sync.WaitGroup) {
	wg.Add(1)
	go func() {
		defer wg.Done()
		res := &c10HonestRes{ring: ringz.NewSync[int](int(req))}
		res.good = c10HonestRun(&res.ring, n)
		c10HonestMu.Lock()
		c10Honest[[2]int64{req, n}] = res
		c10HonestMu.Unlock()
	}()
}
func c10CloneSync(r *ringz.SyncRing[int]) ringz.SyncRing[int] {
	c := *r
	f := c10Field(reflect.ValueOf(&c).Elem(), "values")
	w := reflect.NewAt(f.Type(), unsafe.Pointer(f.UnsafeAddr())).Elem()
	nv := reflect.MakeSlice(f.Type(), w.Len(), w.Len())
	reflect.Copy(nv, w)
	w.Set(nv)
	return c
}

// the capacity NewSync would allocate (to keep the harness from allocating gigabytes on a generator slip)
func c10AllocGuard(c int64) bool {
	if c <= 0 {
		return true
	}
	c32 := uint32(c)
	return c32 <= 1<<21 || c32 > 1<<31
}

func c10Impl(in []int64) []int64 {
	if len(in) < 3 {
		return []int64{BADCASE}
	}
	kind, c, inj := in[0], in[1], in[2]
	ops := in[3:]
	out := []int64{}
	switch kind {
	case 0:
		r := ringz.New[int](int(c))
		for i := 0; i+1 < len(ops); i += 2 {
			code, a := ops[i], ops[i+1]
			switch code {
			case 0:
				out = append(out, B(r.Push(int(a))))
			case 1:
				v, ok := r.Pop()
				out = append(out, B(ok), int64(v))
			case 2:
				v, ok := r.Peek()
				out = append(out, B(ok), int64(v))
			case 3:
				out = append(out, int64(r.Len()))
			case 4:
				out = append(out, B(r.IsEmpty()))
			case 5:
				out = append(out, B(r.IsFull()))
			case 6:
				out = append(out, int64(r.Cap()))
			case 7:
				out = append(out, B(r.Recap(int(a))))
			case 8:
				r.PushWithExpand(int(a))
			case 9:
				r.Init(int(a))
			case 10:
				out = append(out, c10DumpRing(&r)...)
			default:
				return []int64{BADCASE}
			}
		}
	case 3: // capacity only, on a ring of empty structs (4 bytes a slot): requests up to 2^26
		if c > 1<<26 {
			return []int64{BADCASE}
		}
		var res []int64
		func() {
			defer func() {
				if recover() != nil {
					res = []int64{PANIC}
				}
			}()
			r := ringz.NewSync[struct{}](int(c))
			res = []int64{int64(r.Cap())}
		}()
		return res
	case 1, 2:
		if !c10AllocGuard(c) {
			return []int64{BADCASE}
		}
		r := ringz.NewSync[int](int(c))
		if kind == 1 && inj >= 0 {
			c10Inject(&r, uint64(inj))
		}
		if kind == 2 {
			c10HonestMu.Lock()
			pre := c10Honest[[2]int64{c, inj}]
			c10HonestMu.Unlock()
			if pre != nil {
				r = c10CloneSync(&pre.ring)
				out = append(out, B(pre.good))
			} else {
				out = append(out, B(c10HonestRun(&r, inj)))
			}
		}
		for i := 0; i+1 < len(ops); i += 2 {
			code, a := ops[i], ops[i+1]
			switch code {
			case 0:
				out = append(out, B(r.Push(int(a))))
			case 1:
				v, ok := r.Pop()
				out = append(out, B(ok), int64(v))
			case 3:
				out = append(out, int64(r.Len()))
			case 4:
				out = append(out, B(r.IsEmpty()))
			case 5:
				out = append(out, B(r.IsFull()))
			case 6:
				out = append(out, int64(r.Cap()))
			case 9:
				if !c10AllocGuard(a) {
					return []int64{BADCASE}
				}
				r.Init(int(a))
			case 10:
				out = append(out, c10DumpSync(&r)...)
			case 11:
				out = append(out, B(r.PushWait(int(a), 0)))
			case 12:
				v, ok := r.PopWait(0)
				out = append(out, B(ok), int64(v))
			case 13:
				out = append(out, B(r.PushWait(int(a), time.Nanosecond)))
			case 14:
				v, ok := r.PopWait(time.Nanosecond)
				out = append(out, B(ok), int64(v))
			default:
				return []int64{BADCASE}
			}
		}
		// the same case on rings of other element types (slot sizes 12, 20, 40, 72 bytes, a pointer-holding one): the element
		// type is a parameter of the property, not of the case; a differing answer is reported in place of the int ring's
		if kind == 1 && inj < 0 && c <= 1<<16 && !c10HasOp(ops, 10) && (int64(len(ops))+c)%8 == 0 {
			type e8 struct{ A, B int32 }
			type e16 struct{ A [4]int32 }
			type e40 struct {
				A int64
				B int32
				C int64
				S string
			}
			type e64 struct{ A [8]int64 }
			alts := [][]int64{
				c10SyncOps(c, ops, func(x int) e8 { return e8{int32(x), ^int32(x)} }, func(v e8) int64 { return int64(v.A) }),
				c10SyncOps(c, ops, func(x int) e16 { return e16{[4]int32{int32(x), 1, 2, 3}} }, func(v e16) int64 { return int64(v.A[0]) }),
				c10SyncOps(c, ops, func(x int) e40 { return e40{int64(x), 7, -1, "s"} }, func(v e40) int64 { return v.A }),
				c10SyncOps(c, ops, func(x int) e64 { return e64{[8]int64{int64(x)}} }, func(v e64) int64 { return v.A[0] }),
			}
			for _, alt := range alts {
				if !equalInts(alt, out) {
					return alt
				}
			}
		}
	default:
		return []int64{BADCASE}
	}
	return out
}

func c10HasOp(ops []int64, code int64) bool {
	for i := 0; i+1 < len(ops); i += 2 {
		if ops[i] == code {
			return true
		}
	}
	return false
}

func equalInts(a, b []int64) bool {
	if len(a) != len(b) {
		return false
	}
	for i := range a {
		if a[i] != b[i] {
			return false
		}
	}
	return true
}

// the sequential SyncRing operations of a kind-1 case on a ring of element type T (values travel through mk / val)
func c10SyncOps[T any](c int64, ops []int64, mk func(int) T, val func(T) int64) (out []int64) {
	defer func() {
		if recover() != nil {
			out = []int64{PANIC}
		}
	}()
	r := ringz.NewSync[T](int(c))
	for i := 0; i+1 < len(ops); i += 2 {
		code, a := ops[i], ops[i+1]
		switch code {
		case 0:
			out = append(out, B(r.Push(mk(int(a)))))
		case 1:
			v, ok := r.Pop()
			out = append(out, B(ok), c10Val(ok, v, val))
		case 3:
			out = append(out, int64(r.Len()))
		case 4:
			out = append(out, B(r.IsEmpty()))
		case 5:
			out = append(out, B(r.IsFull()))
		case 6:
			out = append(out, int64(r.Cap()))
		case 9:
			if !c10AllocGuard(a) {
				return []int64{BADCASE}
			}
			r.Init(int(a))
		case 11:
			out = append(out, B(r.PushWait(mk(int(a)), 0)))
		case 12:
			v, ok := r.PopWait(0)
			out = append(out, B(ok), c10Val(ok, v, val))
		case 13:
			out = append(out, B(r.PushWait(mk(int(a)), time.Nanosecond)))
		case 14:
			v, ok := r.PopWait(time.Nanosecond)
			out = append(out, B(ok), c10Val(ok, v, val))
		default:
			return []int64{BADCASE}
		}
	}
	return out
}

// a failed Pop returns the zero value of T; the int ring reports 0 for it
func c10Val[T any](ok bool, v T, val func(T) int64) int64 {
	if !ok {
		return 0
	}
	return val(v)
}

var c10Names = []string{"Push", "Pop", "Peek", "Len", "IsEmpty", "IsFull", "Cap", "Recap", "PushWithExpand", "Init", "Dump",
	"PushWait0", "PopWait0", "PushWait1ns", "PopWait1ns"}

// observers appended after every mutating operation of the small-scope sequences
var c10ObsRing = []int64{3, 0, 4, 0, 5, 0, 6, 0, 2, 0}
var c10ObsSync = []int64{3, 0, 4, 0, 5, 0}

// final observation: Dump, Cap, Len, then drain with n Pops, then Len/IsEmpty
func c10Final(kind int64, n int) []int64 {
	l := []int64{10, 0, 6, 0, 3, 0}
	for i := 0; i < n; i++ {
		l = append(l, 1, 0)
	}
	return append(l, 3, 0, 4, 0, 5, 0)
}

func c10SyncCap(req int64) int64 {
	c := int64(2)
	for c < req {
		c *= 2
	}
	return c
}

func c10Gen(c *Ctx) {
	var honestWG sync.WaitGroup
	if !c.Quick() {
		// more than 2^32 honest push/pop pairs (minutes): started now, used by family 6
		c10Prepare(2, 1<<32+5, &honestWG)
		c10Prepare(1, 1<<32-1, &honestWG)
	}
	// ---------------- 1. Ring, exhaustive small scope: caps 1..5, every sequence of mutators up to length L,
	// full observation (Len IsEmpty IsFull Cap Peek) after every step, Dump + drain at the end.
	type op2 [2]int64
	ringAlpha := []op2{{0, 0}, {1, 0}, {8, 0}, {7, 1}, {7, 2}, {7, 3}, {7, 4}, {7, 6}, {9, 2}, {7, 0}}
	L := c.N(5, 6)
	enumerate := func(family string, kind int64, caps []int64, injs func(cp int64) []int64, alpha []op2, L int, obs []int64) {
		sizes := []int{1}
		total := 1
		for l := 1; l <= L; l++ {
			total *= len(alpha)
			sizes = append(sizes, total)
		}
		all := 0
		for _, s := range sizes {
			all += s
		}
		for _, cp := range caps {
			for _, inj := range injs(cp) {
				cp, inj := cp, inj
				c.Each(all, func(i int, t *T) {
					l := 0
					for i >= sizes[l] {
						i -= sizes[l]
						l++
					}
					in := []int64{kind, cp, inj}
					kinds := map[int64]bool{}
					maxlen := int(cp) + 1
					for j := 0; j < l; j++ {
						o := alpha[i%len(alpha)]
						i /= len(alpha)
						a := o[1]
						if o[0] == 0 || o[0] == 8 || o[0] == 11 || o[0] == 13 {
							a = int64(j + 1) // distinct values
						}
						if o[0] == 7 || o[0] == 9 {
							if int(a) > maxlen {
								maxlen = int(a)
							}
						}
						if o[0] == 8 {
							maxlen = maxlen*2 + 1
						}
						in = append(in, o[0], a)
						in = append(in, obs...)
						kinds[o[0]] = true
					}
					if kind == 1 {
						maxlen = int(c10SyncCap(cp))
					}
					in = append(in, c10Final(kind, maxlen+1)...)
					t.Try(fmt.Sprintf("%s-cap%d", family, cp), in, l >= 3 && len(kinds) >= 2)
				})
			}
		}
	}
	noInj := func(int64) []int64 { return []int64{-1} }
	enumerate("ring-exhaustive", 0, []int64{1, 2, 3, 4, 5}, noInj, ringAlpha, L, c10ObsRing)

	// ---------------- 2. SyncRing, exhaustive small scope: requested caps 1..9, fresh and with the counters
	// injected just below the 32-bit boundary, every Push/Pop sequence up to length LS (observers after each).
	LS := c.N(7, 10)
	wrapInj := func(cp int64) []int64 {
		k := c10SyncCap(cp)
		// ... and just below 2^31, where a signed reading of the 32-bit counters changes sign
		return []int64{-1, 1<<32 - 1, 1<<32 - 2, 1<<32 - k, 1<<32 - k - 1, 1<<33 - 3, 1<<31 - 1, 1<<31 - 2, 1<<31 - k, 1<<31 - k - 1}
	}
	enumerate("sync-exhaustive", 1, []int64{1, 2, 3, 4, 5, 6, 7, 8, 9}, wrapInj, []op2{{0, 0}, {1, 0}}, LS, c10ObsSync)
	enumerate("sync-exhaustive-wait", 1, []int64{1, 2, 3, 5}, func(cp int64) []int64 { return []int64{-1, 1<<32 - 2} },
		[]op2{{0, 0}, {1, 0}, {11, 0}, {12, 0}}, c.N(5, 6), c10ObsSync)
	c.SetExhaustive()
	c.Note(fmt.Sprintf("exhaustive part: Ring caps 1..5, all sequences of length <= %d over {Push, Pop, PushWithExpand, Recap(0,1,2,3,4,6), Init(2)} with Len/IsEmpty/IsFull/Cap/Peek after every step and Dump+drain at the end; SyncRing requested caps 1..9, fresh and with counters injected at 2^32-1, 2^32-2, 2^32-cap, 2^32-cap-1, 2^33-3 and 2^31-1, 2^31-2, 2^31-cap, 2^31-cap-1, all Push/Pop sequences of length <= %d with Len/IsEmpty/IsFull after every step and Dump+drain at the end", L, LS))

	// ---------------- 3. panics and the capacity rounding (incl. the known finding F11: requested > 2^31)
	special := [][]int64{
		{0, 0, -1, 6, 0}, {0, -3, -1, 0, 1}, {1, 0, -1, 6, 0}, {1, -1, -1, 0, 1},
		{0, 2, -1, 0, 1, 9, 0, 3, 0}, {0, 2, -1, 0, 1, 9, -5, 3, 0},
		// F11
		{1, 1<<31 + 1, -1, 6, 0},
		{1, 1<<31 + 1, -1, 6, 0, 3, 0, 4, 0, 5, 0, 10, 0},
		{1, 1<<31 + 1, -1, 0, 7},
		{1, 1 << 32, -1, 6, 0},
		{1, 1<<32 + 3, -1, 6, 0, 0, 1, 0, 2, 0, 3, 0, 4, 0, 5, 3, 0},
		{1, 1<<32 + 1, -1, 6, 0, 0, 1, 0, 2, 0, 3, 3, 0, 1, 0, 1, 0},
		{1, 1<<33 + 5, -1, 6, 0},
		{1, 1<<40 + 1<<31 + 9, -1, 6, 0},
	}
	c.Each(len(special), func(i int, t *T) { t.Try("special", special[i], true) })
	var capCases [][]int64
	for j := 0; j <= 13; j++ {
		for _, d := range []int64{-1, 0, 1} {
			req := int64(1)<<uint(j) + d
			if req >= 1 && req <= 1<<13 {
				capCases = append(capCases, []int64{1, req, -1, 6, 0, 3, 0, 0, 5, 0, 6, 3, 0, 1, 0})
			}
		}
	}
	c.Each(len(capCases), func(i int, t *T) { t.Try("sync-cap-rounding", capCases[i], true) })
	// capacity only, on rings of empty structs: requests up to 2^26 (every bit-pattern class of c-1)
	bigReq := c10CapRequests(rand.New(rand.NewSource(c.Seed)), c.N(400, 3000), uint(c.N(22, 26)))
	c.Each(len(bigReq), func(i int, t *T) { t.Try("sync-cap-only", []int64{3, bigReq[i], -1}, bigReq[i] > 1<<13) })

	// ---------------- 4. the wrap window: counters injected at 2^32*m - k, then 2k+cap operations across the boundary
	nw := c.N(4000, 80000)
	c.Each(nw, func(i int, t *T) {
		r := t.R
		reqs := []int64{1, 2, 3, 4, 5, 6, 7, 8, 9, 16, 17, 33, 64}
		req := reqs[r.Intn(len(reqs))]
		cp := c10SyncCap(req)
		k := int64(1 + r.Intn(int(cp)+3))
		m := int64(1)
		if r.Intn(4) == 0 {
			m = int64(2 + r.Intn(1000))
		}
		inj := m<<32 - k
		switch r.Intn(8) { // other boundaries of the counters: the sign bit of a signed reading, narrower integer types
		case 0, 1:
			inj = (m-1)<<32 + 1<<31 - k
		case 2:
			inj = (m-1)<<32 + []int64{1 << 16, 1 << 15, 1 << 8, 1 << 24, 1 << 30}[r.Intn(5)] - k
		}
		in := []int64{1, req, inj}
		n := int(2*k+cp) + r.Intn(8)
		bias := 30 + r.Intn(50) // percentage of pushes
		kinds := map[int64]bool{}
		for j := 0; j < n; j++ {
			var code int64 = 1
			if r.Intn(100) < bias {
				code = 0
			}
			if r.Intn(25) == 0 {
				code += 11
			}
			in = append(in, code, int64(j+1))
			kinds[code] = true
			if r.Intn(3) == 0 {
				in = append(in, c10ObsSync...)
			}
		}
		in = append(in, c10Final(1, int(cp)+1)...)
		t.C.Count("wrap-k", fmt.Sprint(k))
		t.Try("sync-wrap-window", in, len(kinds) >= 2)
	})

	// ---------------- 5. random long sequences
	nr := c.N(3000, 60000)
	c.Each(nr, func(i int, t *T) {
		r := t.R
		if i%2 == 0 { // Ring
			cp := int64(1 + r.Intn(12))
			if r.Intn(6) == 0 {
				cp = int64(1 + r.Intn(40))
			}
			in := []int64{0, cp, -1}
			n := 10 + r.Intn(120)
			bias := 35 + r.Intn(40)
			kinds := map[int64]bool{}
			maxlen := int(cp)
			for j := 0; j < n; j++ {
				x := r.Intn(100)
				var code, a int64
				switch {
				case x < 60:
					if r.Intn(100) < bias {
						code, a = 0, int64(j+1)
					} else {
						code = 1
					}
				case x < 66:
					code, a = 8, int64(j+1)
					maxlen = 2*maxlen + 1
				case x < 76:
					code, a = 7, int64(r.Intn(maxlen+4))-1
					if int(a) > maxlen {
						maxlen = int(a)
					}
				case x < 78:
					code, a = 9, int64(1+r.Intn(8))
					if int(a) > maxlen {
						maxlen = int(a)
					}
				case x < 80:
					code = 10
				default:
					code = []int64{2, 3, 4, 5, 6}[r.Intn(5)]
				}
				if maxlen > 4000 {
					maxlen = 4000
				}
				in = append(in, code, a)
				kinds[code] = true
				t.C.Count("op", "Ring."+c10Names[code])
			}
			if maxlen > 300 {
				maxlen = 300
			}
			in = append(in, c10Final(0, maxlen+1)...)
			t.Try("ring-random", in, len(kinds) >= 3)
		} else {
			req := int64(1 + r.Intn(20))
			if r.Intn(6) == 0 {
				req = int64(1 + r.Intn(70))
			}
			cp := c10SyncCap(req)
			inj := int64(-1)
			switch r.Intn(4) {
			case 0:
				inj = int64(1+r.Intn(3))<<32 - int64(r.Intn(int(2*cp)+4))
			case 1:
				inj = r.Int63n(1 << 45)
			}
			in := []int64{1, req, inj}
			n := 10 + r.Intn(200)
			bias := 35 + r.Intn(40)
			kinds := map[int64]bool{}
			for j := 0; j < n; j++ {
				x := r.Intn(100)
				var code, a int64
				switch {
				case x < 70:
					if r.Intn(100) < bias {
						code, a = 0, int64(j+1)
					} else {
						code = 1
					}
				case x < 74:
					code, a = 11, int64(j+1)
				case x < 78:
					code = 12
				case x < 80:
					code = 10
				default:
					code = []int64{3, 4, 5, 6}[r.Intn(4)]
				}
				in = append(in, code, a)
				kinds[code] = true
				t.C.Count("op", "SyncRing."+c10Names[code])
			}
			in = append(in, c10Final(1, int(cp)+1)...)
			t.Try("sync-random", in, len(kinds) >= 3)
		}
	})

	// ---------------- 6. timed waits (10 ms each) and honest pairs
	timed := [][]int64{
		{1, 2, -1, 13, 1, 13, 2, 13, 3, 3, 0, 14, 0, 14, 0, 14, 0, 3, 0},
		{1, 2, 1<<32 - 1, 13, 1, 13, 2, 13, 3, 3, 0, 14, 0, 14, 0, 14, 0, 3, 0},
		{1, 3, -1, 14, 0, 13, 5, 14, 0, 10, 0},
	}
	c.Each(len(timed), func(i int, t *T) { t.Try("sync-timed-wait", timed[i], true) })
	var honest [][]int64
	for _, req := range []int64{1, 2, 3, 8} {
		for _, n := range []int64{0, 1, 2, 3, 1000, 70001} {
			h := []int64{2, req, n, 0, 1, 0, 2, 0, 3, 3, 0, 5, 0}
			honest = append(honest, append(h, c10Final(1, int(c10SyncCap(req))+1)...))
		}
	}
	if !c.Quick() {
		// more than 2^32 honest push/pop pairs, then a fill/drain across the (second) boundary
		h := []int64{2, 2, 1<<32 + 5, 0, 1, 0, 2, 0, 3, 3, 0, 5, 0}
		honest = append(honest, append(h, c10Final(1, 3)...))
		h2 := []int64{2, 1, 1<<32 - 1, 0, 1, 0, 2, 0, 3, 3, 0, 5, 0}
		honest = append(honest, append(h2, c10Final(1, 3)...))
	}
	// ---------------- large rings (buffers around and above 32 KiB / 64 KiB of ints): New(c) with c in 4000..9000 and just
	// below / at / above 4096 and 8192, filled, partly drained and refilled so that head/tail are anywhere (wrapped: head >
	// tail, or not), then Recap by a small growth (fewer slots than the front part holds, exactly that many, one more), a
	// large growth, to exactly Len, a shrink, a refused shrink; a few more pushes; then drained completely.  Plain single-step
	// operations of the proved model (cases of 20-50 k integers: not in the kernel sample, not shrunk).
	c.Each(c.N(32, 800), func(i int, t *T) {
		r := t.R
		var c0 int64
		switch i % 4 {
		case 0:
			c0 = 4000 + r.Int63n(5001)
		case 1:
			c0 = 4096 + int64(r.Intn(9)) - 4
		case 2:
			c0 = 8192 + int64(r.Intn(9)) - 4
		default:
			c0 = 4097 + r.Int63n(3000)
		}
		in := []int64{0, c0, -1}
		next := int64(1)
		push := func(n int64) {
			for ; n > 0; n-- {
				in = append(in, 0, next)
				next++
			}
		}
		// seven in eight: the ring is ROTATED with few elements in it (one element, then Push/Pop pairs move head and tail
		// to the chosen slot; the specification's queue stays short, so the case is cheap), then a run of 2..600 elements
		// is pushed across the end of the buffer.  One in eight (only up to 4500 slots): the ring is full of content.
		var n1, p, q int64
		if i%8 != 3 {
			q = 2 + r.Int63n(599)
			p = c0 - 1 - r.Int63n(q+40) // old head slot: the run of q elements usually passes the end of the buffer
			if r.Intn(6) == 0 {
				p = r.Int63n(c0)
			}
			if p < 0 {
				p = 0
			}
			n1 = p + 1
			push(1)
			for j := int64(0); j < p; j++ {
				in = append(in, 0, next, 1, 0)
				next++
			}
			q--
			if q > c0-1 {
				q = c0 - 1
			}
			push(q)
		} else {
			if c0 > 4500 {
				c0 = 4096 + r.Int63n(400)
				in[1] = c0
			}
			n1 = c0 - int64(r.Intn(3))
			push(n1)
			p = r.Int63n(n1 + 1)
			for j := int64(0); j < p; j++ {
				in = append(in, 1, 0)
			}
			if i%8 != 7 && p > 0 {
				q = (c0 - n1) + 1 + r.Int63n(p)
				if q > p+(c0-n1) {
					q = p + (c0 - n1)
				}
			}
			push(q)
		}
		length := n1 - p + q
		front := n1 + q - c0 // number of elements at the front of the buffer when wrapped (tail+1)
		wrapped := front > 0 && p > 0
		if front < 0 {
			front = 0
		}
		var nc int64
		switch r.Intn(10) {
		case 0:
			nc = c0 + 1 + int64(r.Intn(40))
		case 1, 2:
			nc = c0 + front + int64(r.Intn(5)) - 2
		case 3:
			nc = c0 + 1 + r.Int63n(front+2+c0/4)
		case 4:
			nc = 2 * c0
		case 5:
			nc = length
		case 6:
			nc = length + 1 + int64(r.Intn(60))
		case 7:
			nc = length - 1 - int64(r.Intn(3))
		case 8:
			nc = c0 + front/2
		default:
			nc = 4000 + r.Int63n(9000)
		}
		if nc < 1 {
			nc = 1
		}
		in = append(in, 3, 0, 7, nc, 6, 0, 3, 0, 5, 0, 2, 0)
		extra := int64(r.Intn(4))
		push(extra)
		if r.Intn(3) == 0 { // a second Recap on the new layout
			in = append(in, 7, nc+1+int64(r.Intn(3000)), 6, 0)
		}
		for j := int64(0); j < length+extra+2; j++ {
			in = append(in, 1, 0)
		}
		in = append(in, 3, 0, 4, 0, 0, next, 1, 0, 4, 0)
		fam := "ring-large-unwrapped"
		if wrapped {
			fam = "ring-large-wrapped"
		}
		t.Try(fam, in, true)
	})
	honestWG.Wait()
	c.Each(len(honest), func(i int, t *T) { t.Try("sync-honest-pairs", honest[i], true) })
}

func c10Describe(in []int64) string {
	if len(in) < 3 {
		return "malformed"
	}
	s := ""
	switch in[0] {
	case 3:
		return fmt.Sprintf("ringz.NewSync[struct{}](%d).Cap()", in[1])
	case 0:
		s = fmt.Sprintf("ringz.New(%d):", in[1])
	case 1:
		s = fmt.Sprintf("ringz.NewSync(%d)", in[1])
		if in[2] >= 0 {
			s += fmt.Sprintf(" counters injected at %d (=2^32*%d%+d)", in[2], (in[2]+1<<31)>>32, in[2]-((in[2]+1<<31)>>32)<<32)
		}
		s += ":"
	case 2:
		s = fmt.Sprintf("ringz.NewSync(%d) after %d honest Push/Pop pairs:", in[1], in[2])
	}
	for i := 3; i+1 < len(in); i += 2 {
		if in[i] >= 0 && int(in[i]) < len(c10Names) {
			s += fmt.Sprintf(" %s(%d)", c10Names[in[i]], in[i+1])
		} else {
			s += fmt.Sprintf(" ?%d(%d)", in[i], in[i+1])
		}
	}
	return s
}

// requested capacities whose round-up exercises every bit pattern class of c-1: 2^j-1, 2^j, 2^j+1, 2^j+2^i (+1), a
// lone high bit over long runs of zeros, all ones, random
func c10CapRequests(r *rand.Rand, n int, maxj uint) []int64 {
	var out []int64
	for j := uint(1); j <= maxj; j++ {
		p := int64(1) << j
		out = append(out, p-1, p, p+1, p+2, p+3)
		for i := uint(0); i < j; i += 3 {
			out = append(out, p+int64(1)<<i, p+int64(1)<<i+1, p-int64(1)<<i)
		}
	}
	for len(out) < n {
		j := uint(1 + r.Intn(int(maxj)))
		out = append(out, int64(1)<<j|r.Int63n(int64(1)<<j))
	}
	var ok []int64
	for _, c := range out {
		if c >= -1 && c <= 1<<maxj {
			ok = append(ok, c)
		}
	}
	return ok
}

func c10Known(in, out []int64) string {
	if len(in) >= 2 && (in[0] == 1 || in[0] == 2) && in[1] > 1<<31 {
		return "F11"
	}
	return ""
}

func init() {
	Register(&Prop{ID: "C10", Num: 10, SpecMode: "equal", Gen: c10Gen, Impl: c10Impl,
		// a requested capacity above 2^24: a wrong rounding can ask the runtime for 2^36 bytes, which kills the process
		Isolate: func(in []int64) bool { return len(in) >= 2 && in[1] > 1<<24 },
		Shrink:  ShrinkOps(3, 2), Known: c10Known, Describe: c10Describe,
		Rule: "exhaustive: Ring caps 1..5 x every sequence of mutators (Push, Pop, PushWithExpand, Recap(0,1,2,3,4,6), Init(2)) up to the tier's length with all observers after every step; SyncRing requested caps 1..9 x {fresh, counters injected at 2^32-1, 2^32-2, 2^32-cap, 2^32-cap-1, 2^33-3} x every Push/Pop sequence up to the tier's length; wrap window: counters at 2^32*m-k (and at 2^31-k, 2^16-k, 2^15-k, 2^8-k, 2^24-k, 2^30-k above a multiple of 2^32) then 2k+cap random operations; random long sequences (Ring with Recap/PushWithExpand/Init at random rotations, SyncRing with random injected counters); capacity rounding for 2^j-1, 2^j, 2^j+1 (j <= 13) with operations, capacity alone for requests up to 2^26 (2^j +- small, 2^j+2^i, random; rings of empty structs), and requests > 2^31 (known finding F11); honest push/pop pairs against the closed form; large rings (New(4000..9000), around 4096 and 8192 slots) filled, rotated (wrapped and not), Recap by small / exact / large growth and shrink, drained. distinct = distinct case; non-trivial = at least 3 mutating steps of at least 2 kinds (exhaustive), at least 2-3 operation kinds (random)"})
}
