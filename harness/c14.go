package main

import (
	"errors"
	"fmt"
	"math"
	"strings"

	"github.com/welllog/golib/slicez"
)

// C14: slicez/slices.go and slicez/flex.go.  Encoding: see coq/Run/C14.v.
//
// slices.go case = f, k, put_list(array) x k, nsl, (arr off len cap) x nsl, args...
//   arrays are real Go arrays; a slice descriptor is arrays[arr-1][off : off+len : off+cap] (arr 0 = nil), so that every
//   aliasing layout (dst = s[:0], dst = s2[:0], overlapping windows, spare capacity) is just a choice of descriptors.
// FlexSlice case = 22, put_list(buffer), len, nops, put_list(op) x nops

const (
	fDiff = iota + 1
	fDiffIP
	fInter
	fInterIP
	fUnique
	fUniqueIP
	fUniqKey
	fUniqKeyIP
	fFilter
	fFilterIP
	fEqual
	fIndex
	fIndexFn
	fSubSlice
	fContains
	fContainsFn
	fChunk
	fChunkP
	fCopy
	fValues
	fRemove
	fFlex
)

var c14Names = []string{"?", "Diff", "DiffInPlaceFirst", "Intersect", "IntersectInPlaceFirst", "Unique", "UniqueInPlace",
	"UniqueByKey", "UniqueByKeyInPlace", "Filter", "FilterInPlace", "Equal", "Index", "IndexFunc", "SubSlice", "Contains",
	"ContainsFunc", "Chunk", "ChunkProcess", "Copy", "Values", "Remove", "FlexSlice"}

type c14Case struct {
	f    int
	arrs [][]int
	sl   [][4]int
	args []int64
}

func c14Decode(in []int64) (*c14Case, bool) {
	if len(in) < 3 {
		return nil, false
	}
	c := &c14Case{f: int(in[0])}
	if in[0] < 1 || in[0] > 21 {
		return nil, false
	}
	k := in[1]
	p := 2
	if k < 0 || k > 50 {
		return nil, false
	}
	for i := int64(0); i < k; i++ {
		if p >= len(in) {
			return nil, false
		}
		n := in[p]
		p++
		if n < 0 || p+int(n) > len(in) {
			return nil, false
		}
		a := make([]int, n)
		for j := range a {
			v := in[p+j]
			if v < 0 || v >= 60 {
				return nil, false
			}
			a[j] = int(v)
		}
		p += int(n)
		c.arrs = append(c.arrs, a)
	}
	if p >= len(in) {
		return nil, false
	}
	nsl := in[p]
	p++
	if nsl < 0 || p+4*int(nsl) > len(in) {
		return nil, false
	}
	for i := 0; i < int(nsl); i++ {
		d := [4]int{int(in[p]), int(in[p+1]), int(in[p+2]), int(in[p+3])}
		for _, x := range in[p : p+4] {
			if x < 0 {
				return nil, false
			}
		}
		p += 4
		if d[0] > int(k) || d[2] > d[3] {
			return nil, false
		}
		al := 0
		if d[0] > 0 {
			al = len(c.arrs[d[0]-1])
		}
		if d[1]+d[3] > al {
			return nil, false
		}
		c.sl = append(c.sl, d)
	}
	c.args = in[p:]
	a := func(i int) int64 {
		if i < len(c.args) {
			return c.args[i]
		}
		return 0
	}
	switch c.f {
	case fUniqKey, fUniqKeyIP:
		if a(0) < 1 || a(0) > 1000 {
			return nil, false
		}
	case fFilter, fFilterIP, fIndexFn, fContainsFn:
		if a(0) < 0 || a(0) >= 1<<60 {
			return nil, false
		}
	case fValues:
		if a(0) < -1000 || a(0) > 1000 || a(1) < -1000 || a(1) > 1000 {
			return nil, false
		}
	}
	return c, true
}

func (c *c14Case) slice(i int) []int {
	if i >= len(c.sl) {
		return nil
	}
	d := c.sl[i]
	if d[0] == 0 {
		return nil
	}
	return c.arrs[d[0]-1][d[1] : d[1]+d[2] : d[1]+d[3]]
}

// a token within 1000 of +-2^60 stands for the int that far from MaxInt / MinInt (tokens must stay below 2^61)
func c14Ext(v int64) int {
	switch {
	case v >= 1<<60-1000 && v <= 1<<60:
		return math.MaxInt - int(1<<60-v)
	case v >= -(1<<60) && v <= -(1<<60)+1000:
		return math.MinInt + int(v+1<<60)
	}
	return int(v)
}
func (c *c14Case) arg(i int) int {
	if i < len(c.args) {
		return c14Ext(c.args[i])
	}
	return 0
}

// where a slice lives: array*1000+offset for one of the case's arrays (cap > 0), else -1
func (c *c14Case) where(s []int) int64 {
	if cap(s) == 0 {
		return -1
	}
	p := &s[:1][0]
	for a := range c.arrs {
		for j := range c.arrs[a] {
			if &c.arrs[a][j] == p {
				return int64(a+1)*1000 + int64(j)
			}
		}
	}
	return -1
}
func ints64(s []int) []int64 {
	o := make([]int64, len(s))
	for i, v := range s {
		o[i] = int64(v)
	}
	return o
}
func (c *c14Case) obs(s []int) []int64 {
	o := []int64{B(s == nil)}
	o = append(o, PutList(ints64(s))...)
	return append(o, c.where(s))
}
func (c *c14Case) dump(out []int64) []int64 {
	for _, a := range c.arrs {
		out = append(out, PutList(ints64(a))...)
	}
	return out
}

// Equal on a slice of float64 compared WITH ITSELF, NaN included.  For the model the two arguments are different int slices:
// they agree everywhere except that the first has 3 where the second has 7; both values stand for NaN.  So the model
// says "equal" exactly when there is no such position, which is what element-wise == on floats says about a slice and
// itself (NaN != NaN).  An implementation that answers true because both arguments start at the same address differs.
func c14NaNAlias(a, b []int) ([]float64, bool) {
	if len(a) != len(b) || len(a) == 0 {
		return nil, false
	}
	fl := make([]float64, len(a))
	for i := range a {
		switch {
		case a[i] == 3 && b[i] == 7:
			fl[i] = math.NaN()
		case a[i] == b[i] && a[i] != 3 && a[i] != 7:
			fl[i] = float64(a[i])
		default:
			return nil, false
		}
	}
	return fl, true
}

func c14Impl(in []int64) []int64 {
	if len(in) > 0 && in[0] == fFlex {
		return c14FlexImpl(in, nil)
	}
	c, ok := c14Decode(in)
	if !ok {
		return []int64{BADCASE}
	}
	pred := func(v int) bool { return c.args[0]>>uint(v)&1 == 1 }
	key := func(v int) int { return v / c.arg(0) }
	one := func(res []int, scal ...int64) []int64 {
		out := []int64{1}
		out = append(out, c.obs(res)...)
		out = append(out, PutList(scal)...)
		return c.dump(out)
	}
	scalars := func(scal ...int64) []int64 {
		out := []int64{0}
		out = append(out, PutList(scal)...)
		return c.dump(out)
	}
	many := func(rs [][]int, scal ...int64) []int64 {
		out := []int64{int64(len(rs))}
		for _, r := range rs {
			out = append(out, c.obs(r)...)
		}
		out = append(out, PutList(scal)...)
		return c.dump(out)
	}
	switch c.f {
	case fDiff:
		// With dst nil and no 3 in s2 the call is made on float64 slices in which every 3 of s1 is a NaN: a NaN equals
		// nothing, so it is kept, exactly as the model keeps a 3 that s2 does not contain (an implementation that looks
		// elements up in a map loses NaN keys).
		if len(c.sl) >= 3 && c.sl[0][0] == 0 && len(c.slice(1))%2 == 1 {
			s1, s2 := c.slice(1), c.slice(2)
			ok := true
			for _, v := range s2 {
				ok = ok && v != 3
			}
			if ok {
				f1, f2 := make([]float64, len(s1)), make([]float64, len(s2))
				for j, v := range s1 {
					f1[j] = float64(v)
					if v == 3 {
						f1[j] = math.NaN()
					}
				}
				for j, v := range s2 {
					f2[j] = float64(v)
				}
				if s1 == nil {
					f1 = nil
				}
				if s2 == nil {
					f2 = nil
				}
				fr := slicez.Diff(nil, f1, f2)
				var res []int
				if fr != nil {
					res = make([]int, len(fr))
				}
				for j, v := range fr {
					res[j] = int(v)
					if v != v {
						res[j] = 3
					}
				}
				return one(res)
			}
		}
		return one(slicez.Diff(c.slice(0), c.slice(1), c.slice(2)))
	case fDiffIP:
		return one(slicez.DiffInPlaceFirst(c.slice(0), c.slice(1)))
	case fInter:
		return one(slicez.Intersect(c.slice(0), c.slice(1), c.slice(2)))
	case fInterIP:
		return one(slicez.IntersectInPlaceFirst(c.slice(0), c.slice(1)))
	case fUnique:
		return one(slicez.Unique(c.slice(0), c.slice(1)))
	case fUniqueIP:
		return one(slicez.UniqueInPlace(c.slice(0)))
	case fUniqKey:
		return one(slicez.UniqueByKey(c.slice(0), c.slice(1), key))
	case fUniqKeyIP:
		return one(slicez.UniqueByKeyInPlace(c.slice(0), key))
	case fFilter:
		// the predicate is asked about each element of s once, in order (a predicate with memory - "first occurrence",
		// "take five" - depends on it): the questions are recorded; a different sequence is the token -1000035
		src := append([]int{}, c.slice(1)...) // Filter(dst, s, fn)
		var asked []int
		res := slicez.Filter(c.slice(0), c.slice(1), func(v int) bool { asked = append(asked, v); return pred(v) })
		out := one(res)
		same := len(asked) == len(src)
		for j := 0; same && j < len(src); j++ {
			same = asked[j] == src[j]
		}
		// (not where dst is a shifted window of s's array: the writes to dst change elements of s before they are asked about)
		shifted := len(c.sl) >= 2 && c.sl[0][0] != 0 && c.sl[0][0] == c.sl[1][0] && c.sl[0][1] != c.sl[1][1]
		if !same && !shifted {
			out = append(out, -1000035)
		}
		return out
	case fFilterIP:
		return one(slicez.FilterInPlace(c.slice(0), pred))
	case fEqual:
		if fl, ok := c14NaNAlias(c.slice(0), c.slice(1)); ok {
			return scalars(B(slicez.Equal(fl, fl)))
		}
		return scalars(B(slicez.Equal(c.slice(0), c.slice(1))))
	case fIndex:
		return scalars(int64(slicez.Index(c.slice(0), c.arg(0))))
	case fIndexFn:
		return scalars(int64(slicez.IndexFunc(c.slice(0), pred)))
	case fSubSlice:
		return one(slicez.SubSlice(c.slice(0), c.arg(0), c.arg(1)))
	case fContains:
		return scalars(B(slicez.Contains(c.slice(0), c.arg(0))))
	case fContainsFn:
		return scalars(B(slicez.ContainsFunc(c.slice(0), pred)))
	case fChunk:
		ch := slicez.Chunk(c.slice(0), c.arg(0))
		return many(ch, B(ch == nil), int64(cap(ch)))
	case fChunkP:
		var calls [][]int
		failAt := c.arg(1)
		err := slicez.ChunkProcess(c.slice(0), c.arg(0), func(p []int) error {
			calls = append(calls, p)
			if len(calls) == failAt {
				return errors.New("stop")
			}
			return nil
		})
		return many(calls, B(err != nil))
	case fCopy:
		res := slicez.Copy(c.slice(0), c.arg(0), c.arg(1))
		out := []int64{1}
		out = append(out, c.obs(res)...)
		out = append(out, 0)
		for i := range res { // fresh memory: writing to the result must not show in any argument array
			res[i] += 100
		}
		return c.dump(out)
	case fValues:
		mul, add := c.arg(0), c.arg(1)
		ss := make([][]int, len(c.sl))
		for i := range ss {
			ss[i] = c.slice(i)
		}
		res := slicez.Values(func(v int) int { return v*mul + add }, ss...)
		out := []int64{1}
		out = append(out, c.obs(res)...)
		out = append(out, 0)
		for i := range res {
			res[i] += 100
		}
		return c.dump(out)
	case fRemove:
		res, v, ok := slicez.Remove(c.slice(0), c.arg(0))
		return one(res, int64(v), B(ok))
	}
	return []int64{BADCASE}
}

// ---------------------------------------------------------------- FlexSlice
// record != nil: the capacities seen after every Append are written back into the case (generator / shrinker)
func c14FlexImpl(in []int64, record *[]int64) []int64 {
	bad := []int64{BADCASE}
	p := 1
	if p >= len(in) || in[p] < 0 || p+1+int(in[p]) > len(in) {
		return bad
	}
	buf := make([]int, in[p])
	for i := range buf {
		buf[i] = int(in[p+1+i])
	}
	p += 1 + len(buf)
	if p+2 > len(in) {
		return bad
	}
	n, nops := in[p], in[p+1]
	p += 2
	if n < 0 || int(n) > len(buf) || nops < 0 {
		return bad
	}
	// strict pre-parse
	type op struct {
		at   int
		body []int64
	}
	var ops []op
	for i := int64(0); i < nops; i++ {
		if p >= len(in) || in[p] < 0 || p+1+int(in[p]) > len(in) {
			return bad
		}
		b := in[p+1 : p+1+int(in[p])]
		ok := len(b) >= 1
		if ok {
			switch b[0] {
			case 0:
				ok = len(b) >= 2
			case 1:
			case 2, 3:
				ok = len(b) == 2
			case 4:
				ok = len(b) == 3
			case 5, 6, 7:
				ok = len(b) == 1
			default:
				ok = false
			}
		}
		if !ok {
			return bad
		}
		ops = append(ops, op{p + 1, b})
		p += 1 + len(b)
	}
	if p != len(in) {
		return bad
	}
	var f slicez.FlexSlice[int]
	if len(buf) > 0 {
		f.Values = buf[:n]
	}
	var out []int64
	toInts := func(l []int64) []int {
		o := make([]int, len(l))
		for i, v := range l {
			o[i] = int(v)
		}
		return o
	}
	// every other Append/Prepend passes its values as a spread slice with plenty of spare capacity and overwrites that
	// buffer right after the call: the FlexSlice must own its memory (an implementation that adopts the caller's buffer
	// to save an allocation shows in the Values observed after the call)
	spare := func(v []int, at int) ([]int, func()) {
		if at%2 == 0 {
			return v, func() {}
		}
		buf := make([]int, len(v), 2*(len(v)+len(f.Values))+16)
		copy(buf, v)
		return buf, func() {
			buf = buf[:cap(buf)]
			for i := range buf {
				buf[i] = -777
			}
		}
	}
	for _, o := range ops {
		var res []int64
		b := o.body
		switch b[0] {
		case 0:
			arg, done := spare(toInts(b[2:]), o.at)
			f.Append(arg...)
			done()
			if record != nil {
				(*record)[o.at+1] = int64(cap(f.Values))
			}
		case 1:
			arg, done := spare(toInts(b[1:]), o.at)
			f.Prepend(arg...)
			done()
		case 2:
			v, ok := f.Get(int(b[1]))
			res = []int64{int64(v), B(ok)}
		case 3:
			v, ok := f.Remove(int(b[1]))
			res = []int64{int64(v), B(ok)}
		case 4:
			f = f.SubSlice(int(b[1]), int(b[2]))
		case 5:
			v, ok := f.Pop()
			res = []int64{int64(v), B(ok)}
		case 6:
			v, ok := f.Shift()
			res = []int64{int64(v), B(ok)}
		case 7:
			res = []int64{int64(f.Len())}
		}
		out = append(out, PutList(res)...)
		out = append(out, PutList(ints64(f.Values))...)
		out = append(out, int64(cap(f.Values)))
	}
	return out
}

// c14FixCaps re-runs the real sequence and writes the observed append capacities into the case.
func c14FixCaps(in []int64) []int64 {
	c := append([]int64{}, in...)
	func() {
		defer func() { recover() }()
		c14FlexImpl(c, &c)
	}()
	return c
}

// ---------------------------------------------------------------- case construction
type c14B struct {
	f    int
	arrs [][]int64
	sl   [][4]int
	args []int64
}

func (b *c14B) arr(vals []int64) int { b.arrs = append(b.arrs, vals); return len(b.arrs) }
func (b *c14B) enc() []int64 {
	out := []int64{int64(b.f), int64(len(b.arrs))}
	for _, a := range b.arrs {
		out = append(out, PutList(a)...)
	}
	out = append(out, int64(len(b.sl)))
	for _, s := range b.sl {
		out = append(out, int64(s[0]), int64(s[1]), int64(s[2]), int64(s[3]))
	}
	return append(out, b.args...)
}

var c14Nil = [4]int{0, 0, 0, 0}

func c14RandVals(t *T, n int, maxv int) []int64 {
	v := make([]int64, n)
	for i := range v {
		v[i] = int64(t.R.Intn(maxv))
	}
	return v
}

// a random window: array with `pre` elements before and spare capacity after; returns the descriptor
func (b *c14B) randWindow(t *T, maxlen, maxv int) [4]int {
	r := t.R
	if r.Intn(9) == 0 {
		return c14Nil
	}
	n := r.Intn(maxlen + 1)
	pre, spare, post := 0, 0, 0
	if r.Intn(3) == 0 {
		pre = r.Intn(3)
	}
	if r.Intn(3) == 0 {
		spare = r.Intn(4)
		post = r.Intn(2)
	}
	a := b.arr(c14RandVals(t, pre+n+spare+post, maxv))
	return [4]int{a, pre, n, n + spare}
}

func c14Arg(t *T) int64 {
	r := t.R
	switch r.Intn(14) {
	case 0:
		return 1 << 60 // math.MaxInt
	case 1:
		return -(1 << 60) // math.MinInt
	case 2:
		return 1<<60 - int64(1+r.Intn(4)) // MaxInt-1 .. MaxInt-4: start+length overflows for small positive starts
	case 3:
		return -(1 << 60) + int64(1+r.Intn(4))
	}
	return int64(r.Intn(13)) - 2
}

// number of results relative to the input length tells whether the selection was a real one
func c14NonTrivial(in []int64) bool {
	if in[0] == fFlex {
		out := SafeImpl(props["C14"], in)
		if len(out) == 1 {
			return false
		}
		// at least three operations and a capacity change
		caps := map[int64]bool{}
		n := 0
		for p := 0; p < len(out); {
			p += 1 + int(out[p])
			if p >= len(out) {
				return false
			}
			p += 1 + int(out[p])
			if p >= len(out) {
				return false
			}
			caps[out[p]] = true
			p++
			n++
		}
		return n >= 3 && len(caps) >= 2
	}
	c, ok := c14Decode(in)
	if !ok {
		return false
	}
	out := SafeImpl(props["C14"], in)
	if len(out) < 3 || out[0] == PANIC {
		return false
	}
	src := 1
	switch c.f {
	case fDiffIP, fInterIP, fUniqueIP, fUniqKeyIP, fFilterIP:
		src = 0
	case fDiff, fInter, fUnique, fUniqKey, fFilter:
	case fEqual, fIndex, fIndexFn, fContains, fContainsFn:
		return len(c.sl) > 0 && c.sl[0][2] >= 2
	case fChunk, fChunkP:
		return len(c.sl) > 0 && c.sl[0][2] >= 2 && c.arg(0) >= 1 && c.arg(0) < c.sl[0][2]
	default:
		return len(c.sl) > 0 && c.sl[0][2] >= 1
	}
	if src >= len(c.sl) || out[0] != 1 {
		return false
	}
	got := int(out[2])
	return got >= 1 && got < c.sl[src][2]
}

func c14Try(t *T, family string, in []int64) {
	t.C.Count("function", c14Names[in[0]])
	t.Try(family, in, c14NonTrivial(in))
}

// all lists over 0..maxv-1 of length <= maxlen, by index
func c14Enum(maxv, maxlen int) [][]int64 {
	out := [][]int64{{}}
	prev := [][]int64{{}}
	for l := 1; l <= maxlen; l++ {
		var cur [][]int64
		for _, p := range prev {
			for v := 0; v < maxv; v++ {
				cur = append(cur, append(append([]int64{}, p...), int64(v)))
			}
		}
		out = append(out, cur...)
		prev = cur
	}
	return out
}

// dst layouts for the five dst-taking functions.  s1 is slice 1, s2 slice 2 (Diff/Intersect only).
// 0 nil | 1 own buffer cap 0 | 2 own buffer, small cap | 3 own buffer, large cap | 4 s1[:0] | 5 s1 (full) | 6 s2[:0] (or s1[:0])
// 7 s1[:0:c] with c < len (spills) | 8 same array, shifted window (outside the property; correspondence only)
func (b *c14B) dstLayout(t *T, kind int, s1, s2 [4]int) [4]int {
	r := t.R
	switch kind {
	case 1:
		return [4]int{b.arr(nil), 0, 0, 0}
	case 2:
		c := 1 + r.Intn(2)
		a := b.arr(c14RandVals(t, c+1, 4))
		l := r.Intn(c + 1)
		return [4]int{a, r.Intn(2), l, c}
	case 3:
		c := 8 + r.Intn(3)
		a := b.arr(c14RandVals(t, c, 4))
		return [4]int{a, 0, r.Intn(c + 1), c}
	case 4:
		return [4]int{s1[0], s1[1], 0, s1[3]}
	case 5:
		return s1
	case 6:
		if s2[0] != 0 {
			return [4]int{s2[0], s2[1], 0, s2[3]}
		}
		return [4]int{s1[0], s1[1], 0, s1[3]}
	case 7:
		if s1[2] >= 2 {
			c := 1 + r.Intn(s1[2]-1)
			return [4]int{s1[0], s1[1], 0, c}
		}
		return [4]int{s1[0], s1[1], 0, s1[3]}
	case 8:
		if s1[0] != 0 && s1[3] >= 2 {
			d := 1 + r.Intn(s1[3]-1)
			return [4]int{s1[0], s1[1] + d, 0, s1[3] - d}
		}
		return c14Nil
	}
	return c14Nil
}

func c14Exact(b *c14B, vals []int64) [4]int {
	a := b.arr(vals)
	return [4]int{a, 0, len(vals), len(vals)}
}

func c14Gen(c *Ctx) {
	selFns := []int{fDiff, fInter, fUnique, fUniqKey, fFilter}
	ipFns := []int{fDiffIP, fInterIP, fUniqueIP, fUniqKeyIP, fFilterIP}
	// ---------------- exhaustive small scopes
	l3 := c14Enum(3, 3)  // 40 lists over {0,1,2}, length <= 3
	l34 := c14Enum(3, 4) // 121
	l45 := c14Enum(4, c.N(5, 6))
	// Diff / Intersect (+ in place): every s1, s2 over {0,1,2} up to length 3, layouts nil / tiny / large / s1[:0] / s2[:0]
	c.Each(len(l3)*len(l3), func(i int, t *T) {
		v1, v2 := l3[i%len(l3)], l3[i/len(l3)]
		for _, f := range []int{fDiff, fInter} {
			for _, lay := range []int{0, 2, 3, 4, 6} {
				b := &c14B{f: f}
				s1, s2 := c14Exact(b, v1), c14Exact(b, v2)
				b.sl = [][4]int{b.dstLayout(t, lay, s1, s2), s1, s2}
				c14Try(t, fmt.Sprintf("exh-%s-layout%d", c14Names[f], lay), b.enc())
			}
		}
		for _, f := range []int{fDiffIP, fInterIP} {
			b := &c14B{f: f}
			b.sl = [][4]int{c14Exact(b, v1), c14Exact(b, v2)}
			c14Try(t, "exh-"+c14Names[f], b.enc())
		}
	})
	// Unique / UniqueByKey (key v/2) (+ in place): every s over {0..3} up to length 5
	c.Each(len(l45), func(i int, t *T) {
		v := l45[i]
		for _, f := range []int{fUnique, fUniqKey} {
			for _, lay := range []int{0, 2, 3, 4} {
				b := &c14B{f: f}
				s := c14Exact(b, v)
				b.sl = [][4]int{b.dstLayout(t, lay, s, c14Nil), s}
				if f == fUniqKey {
					b.args = []int64{2}
				}
				c14Try(t, fmt.Sprintf("exh-%s-layout%d", c14Names[f], lay), b.enc())
			}
		}
		for _, f := range []int{fUniqueIP, fUniqKeyIP} {
			b := &c14B{f: f}
			b.sl = [][4]int{c14Exact(b, v)}
			if f == fUniqKeyIP {
				b.args = []int64{2}
			}
			c14Try(t, "exh-"+c14Names[f], b.enc())
		}
	})
	// Filter (+ in place): every s over {0,1,2} up to length 4, every predicate on {0,1,2}
	c.Each(len(l34)*8, func(i int, t *T) {
		v, mask := l34[i/8], int64(i%8)
		for _, lay := range []int{0, 2, 3, 4} {
			b := &c14B{f: fFilter, args: []int64{mask}}
			s := c14Exact(b, v)
			b.sl = [][4]int{b.dstLayout(t, lay, s, c14Nil), s}
			c14Try(t, fmt.Sprintf("exh-Filter-layout%d", lay), b.enc())
		}
		b := &c14B{f: fFilterIP, args: []int64{mask}}
		b.sl = [][4]int{c14Exact(b, v)}
		c14Try(t, "exh-FilterInPlace", b.enc())
	})
	// clamping functions: every length 0..8 (and nil), every pair of arguments in -2..10
	c.Each(10*13*13, func(i int, t *T) {
		n := i % 10
		a1, a2 := int64(i/10%13)-2, int64(i/130)-2
		for _, f := range []int{fSubSlice, fCopy, fChunkP} {
			b := &c14B{f: f, args: []int64{a1, a2}}
			if n == 9 {
				b.sl = [][4]int{c14Nil}
			} else {
				b.sl = [][4]int{c14Exact(b, c14RandVals(t, n, 4))}
			}
			c14Try(t, "exh-"+c14Names[f], b.enc())
		}
		if a2 == -2 {
			for _, f := range []int{fRemove, fChunk, fIndex} {
				b := &c14B{f: f, args: []int64{a1}}
				if n == 9 {
					b.sl = [][4]int{c14Nil}
				} else {
					b.sl = [][4]int{c14Exact(b, c14RandVals(t, n, 4))}
				}
				c14Try(t, "exh-"+c14Names[f], b.enc())
			}
		}
	})
	c.Note(fmt.Sprintf("exhaustive parts: Diff/Intersect(+InPlace) over all s1,s2 in {0,1,2}^<=3 x 5 dst layouts; Unique/UniqueByKey(+InPlace) over all s in {0..3}^<=%d x 4 layouts; Filter(+InPlace) over all s in {0,1,2}^<=4 x all 8 predicates x 4 layouts; SubSlice/Copy/ChunkProcess over lengths 0..8+nil x all argument pairs in -2..10; Remove/Chunk/Index over lengths 0..8+nil x argument -2..10", c.N(5, 6)))

	// ---------------- random: aliasing layouts, windows with offset and spare capacity
	c.Each(c.N(14000, 300000), func(i int, t *T) {
		r := t.R
		maxv := 4
		if r.Intn(6) == 0 {
			maxv = 8
		}
		f := selFns[i%5]
		b := &c14B{f: f}
		ml := 8
		if f != fFilter && i%7 == 3 { // many distinct values: policies that depend on how many different elements were kept so far
			maxv = []int{10, 12, 17, 33, 59}[r.Intn(5)]
			ml = 12 + r.Intn(40)
			t.C.Count("many-distinct-values", "values 0..9 / ..11 / ..16 / ..32 / ..58, 12..51 elements")
		}
		if i%23 == 5 { // long slices: thresholds on the length (pre-sizing passes, small-input fast paths)
			ml = 60 + r.Intn(160)
			t.C.Count("long-slices", "60..220 elements")
		}
		s1 := b.randWindow(t, ml, maxv)
		s2 := c14Nil
		if f == fDiff || f == fInter {
			switch r.Intn(8) {
			case 7: // a long second slice against a short first one (the side that gets indexed may depend on the sizes)
				s2 = b.randWindow(t, 30+r.Intn(120), 3) // values 0..2: the 3s of the first slice (NaN in the float presentation) stay
			case 0:
				s2 = s1 // the same slice twice
			case 1:
				if s1[0] != 0 && s1[2] >= 1 { // a sub-window of s1
					o := r.Intn(s1[2])
					s2 = [4]int{s1[0], s1[1] + o, r.Intn(s1[2] - o + 1), s1[3] - o}
				}
			default:
				s2 = b.randWindow(t, 6, maxv)
			}
		}
		lay := r.Intn(9)
		dst := b.dstLayout(t, lay, s1, s2)
		b.sl = [][4]int{dst, s1}
		if f == fDiff || f == fInter {
			b.sl = append(b.sl, s2)
		}
		switch f {
		case fUniqKey:
			b.args = []int64{int64(1 + r.Intn(3))}
		case fFilter:
			b.args = []int64{int64(r.Intn(1 << uint(maxv)))}
		}
		c14Try(t, fmt.Sprintf("rand-%s-layout%d", c14Names[f], lay), b.enc())
	})
	c.Each(c.N(6000, 150000), func(i int, t *T) {
		r := t.R
		maxv := 4
		if r.Intn(6) == 0 {
			maxv = 8
		}
		f := ipFns[i%5]
		b := &c14B{f: f}
		ml := 8
		if f != fFilterIP && i%7 == 3 {
			maxv = []int{10, 12, 17, 33, 59}[r.Intn(5)]
			ml = 12 + r.Intn(40)
			t.C.Count("many-distinct-values", "values 0..9 / ..11 / ..16 / ..32 / ..58, 12..51 elements")
		}
		if i%23 == 5 { // long slices: thresholds on the length (pre-sizing passes, small-input fast paths)
			ml = 60 + r.Intn(160)
			t.C.Count("long-slices", "60..220 elements")
		}
		s1 := b.randWindow(t, ml, maxv)
		b.sl = [][4]int{s1}
		if f == fDiffIP || f == fInterIP {
			s2 := c14Nil
			switch r.Intn(8) {
			case 0:
				s2 = s1
			case 1:
				if s1[0] != 0 && s1[2] >= 1 {
					o := r.Intn(s1[2])
					s2 = [4]int{s1[0], s1[1] + o, r.Intn(s1[2] - o + 1), s1[3] - o}
				}
			default:
				s2 = b.randWindow(t, 6, maxv)
			}
			b.sl = append(b.sl, s2)
		}
		switch f {
		case fUniqKeyIP:
			b.args = []int64{int64(1 + r.Intn(3))}
		case fFilterIP:
			b.args = []int64{int64(r.Intn(1 << uint(maxv)))}
		}
		c14Try(t, "rand-"+c14Names[f], b.enc())
	})
	// scalar functions, clamping functions with windows (offset, spare capacity) and extreme integers
	others := []int{fEqual, fIndex, fIndexFn, fSubSlice, fContains, fContainsFn, fChunk, fChunkP, fCopy, fValues, fRemove}
	c.Each(c.N(11000, 300000), func(i int, t *T) {
		r := t.R
		f := others[i%len(others)]
		b := &c14B{f: f}
		s := b.randWindow(t, 8, 4)
		b.sl = [][4]int{s}
		switch f {
		case fEqual:
			switch r.Intn(5) {
			case 4: // a float slice against itself, with NaNs (see c14NaNAlias): 3 in the first, 7 in the second
				if s[0] != 0 && s[2] > 0 {
					v0 := b.arrs[s[0]-1][s[1] : s[1]+s[2]]
					vals := make([]int64, len(v0))
					for j, v := range v0 {
						vals[j] = v
						if v == 3 {
							vals[j] = 7
						}
					}
					b.sl = append(b.sl, [4]int{b.arr(vals), 0, s[2], len(vals)})
					t.C.Count("equal", "float slice against itself")
				} else {
					b.sl = append(b.sl, s)
				}
			case 0:
				b.sl = append(b.sl, s)
			case 1: // same contents elsewhere, more capacity
				if s[0] != 0 {
					vals := append([]int64{}, b.arrs[s[0]-1][s[1]:s[1]+s[2]]...)
					if s[2] > 0 && r.Intn(2) == 0 {
						vals[r.Intn(s[2])] ^= 1
					}
					vals = append(vals, c14RandVals(t, r.Intn(3), 4)...)
					a := b.arr(vals)
					b.sl = append(b.sl, [4]int{a, 0, s[2], len(vals)})
				} else {
					b.sl = append(b.sl, [4]int{b.arr(nil), 0, 0, 0})
				}
			default:
				b.sl = append(b.sl, b.randWindow(t, 8, 4))
			}
		case fIndex, fContains:
			b.args = []int64{int64(r.Intn(5))}
		case fIndexFn, fContainsFn:
			b.args = []int64{int64(r.Intn(16))}
		case fSubSlice, fCopy:
			b.args = []int64{c14Arg(t), c14Arg(t)}
		case fChunk:
			b.args = []int64{c14Arg(t)}
		case fChunkP:
			b.args = []int64{c14Arg(t), int64(r.Intn(7))}
		case fRemove:
			b.args = []int64{c14Arg(t)}
		case fValues:
			b.sl = nil
			for n := r.Intn(4); n > 0; n-- {
				if len(b.sl) > 0 && r.Intn(4) == 0 {
					b.sl = append(b.sl, b.sl[r.Intn(len(b.sl))])
				} else {
					b.sl = append(b.sl, b.randWindow(t, 5, 4))
				}
			}
			b.args = []int64{int64(r.Intn(7)) - 3, int64(r.Intn(7)) - 3}
		}
		c14Try(t, "rand-"+c14Names[f], b.enc())
	})

	// ---------------- FlexSlice sequences across the 8 and 1/4 thresholds
	c.Each(c.N(9000, 200000), func(i int, t *T) {
		r := t.R
		in := []int64{fFlex}
		// initial Values: zero value, or a slice with spare capacity around the thresholds
		var buf []int64
		n := 0
		switch r.Intn(4) {
		case 0:
		case 1:
			cp := []int{8, 9, 12, 16, 17, 32, 36}[r.Intn(7)]
			n = []int{0, 1, cp / 4, cp/4 + 1, cp / 2, cp}[r.Intn(6)]
			buf = c14RandVals(t, cp, 4)
		default:
			cp := r.Intn(20)
			n = r.Intn(cp + 1)
			buf = c14RandVals(t, cp, 4)
		}
		in = append(in, PutList(buf)...)
		nops := 1 + r.Intn(c14FlexLen(i))
		in = append(in, int64(n), int64(nops))
		grow := r.Intn(3) // bias: 0 mixed, 1 growing first then draining, 2 draining
		for j := 0; j < nops; j++ {
			x := r.Intn(100)
			if grow == 1 && j < nops/2 {
				x = r.Intn(30)
			} else if grow >= 1 {
				x = 30 + r.Intn(70)
			}
			var op []int64
			switch {
			case x < 15:
				op = append([]int64{0, 0}, c14RandVals(t, c14Burst(r.Intn(10)), 4)...)
			case x < 30:
				op = append([]int64{1}, c14RandVals(t, c14Burst(r.Intn(10)), 4)...)
			case x < 36:
				op = []int64{2, c14Arg(t)}
			case x < 50:
				op = []int64{3, c14Arg(t)}
			case x < 58:
				a := c14Arg(t)
				e := c14Arg(t)
				if r.Intn(2) == 0 { // mostly keep most of it
					a = int64(r.Intn(3)) - 1
					e = -1
				}
				op = []int64{4, a, e}
			case x < 78:
				op = []int64{5}
			case x < 96:
				op = []int64{6}
			default:
				op = []int64{7}
			}
			in = append(in, PutList(op)...)
			t.C.Count("flex-op", []string{"Append", "Prepend", "Get", "Remove", "SubSlice", "Pop", "Shift", "Len"}[op[0]])
		}
		in = c14FixCaps(in)
		c14Try(t, "flex", in)
	})
	c14FlexLarge(c)
}

// c14FlexLarge: slices of a thousand and more elements, bursts proportional to the capacity (growth policies that
// change with the size: "double below 1024, then 1.25x", thresholds that are fractions of cap).
func c14FlexLarge(c *Ctx) {
	caps := []int{1023, 1024, 1025, 1280, 1792, 2048, 3000, 4096, 5000}
	c.Each(c.N(160, 3000), func(i int, t *T) {
		r := t.R
		cp := caps[i%len(caps)]
		if i >= 4*len(caps) && r.Intn(3) == 0 {
			cp = 600 + r.Intn(6000)
		}
		n := cp
		switch r.Intn(5) {
		case 0:
			n = cp - 1 - r.Intn(8)
		case 1:
			n = cp/4 + r.Intn(3)
		case 2:
			n = cp / 2
		}
		salt := r.Intn(1000)
		buf := make([]int64, cp)
		for j := range buf {
			buf[j] = int64((j*7 + salt) % 1000)
		}
		in := append([]int64{fFlex}, PutList(buf)...)
		nops := 2 + r.Intn(5)
		in = append(in, int64(n), int64(nops))
		cur := n // approximate length, only steers the burst sizes
		for j := 0; j < nops; j++ {
			var op []int64
			burst := func() []int64 {
				base := cur
				if base < 8 {
					base = cp
				}
				k := []int{1, base / 8, base/4 + 1, base / 3, base/4 + base/50 + 1, base / 2, base - 1, base, base + base/3, 2*base + 1}[r.Intn(10)]
				if k > 4000 {
					k = 4000
				}
				if cur > 9000 { // the extracted model recurses over its lists: keep them below ~13000 elements
					k = 1 + k%64
				}
				v := make([]int64, k)
				s2 := r.Intn(1000)
				for q := range v {
					v[q] = int64(1000 + (q*3+s2)%1000)
				}
				cur += k
				return v
			}
			switch x := r.Intn(10); {
			case x < 3:
				op = append([]int64{0, 0}, burst()...)
			case x < 7:
				op = append([]int64{1}, burst()...)
			case x == 7:
				op = []int64{3, int64(r.Intn(cur + 1))}
				if cur > 0 {
					cur--
				}
			case x == 8:
				a := r.Intn(cur/2 + 1)
				e := a + r.Intn(cur-a+1)
				op = []int64{4, int64(a), int64(e)}
				cur = e - a
			default:
				op = []int64{6}
				if cur > 0 {
					cur--
				}
			}
			in = append(in, PutList(op)...)
			t.C.Count("flex-op", []string{"Append", "Prepend", "Get", "Remove", "SubSlice", "Pop", "Shift", "Len"}[op[0]])
		}
		in = c14FixCaps(in)
		c14Try(t, "flex-large", in)
	})
}

func c14FlexLen(i int) int {
	if i%4 == 0 {
		return 60
	}
	return 24
}
func c14Burst(x int) int {
	switch x {
	case 0:
		return 0
	case 1:
		return 9
	case 2:
		return 17
	case 3:
		return 5
	}
	return 1 + x%3
}

// ---------------------------------------------------------------- shrinking and rendering
// only well-formed candidates: a malformed case is BADCASE on both sides and must not count as a failure
func c14Shrink(in []int64) [][]int64 {
	var out [][]int64
	for _, c := range c14Shrink0(in) {
		if o := SafeImpl(props["C14"], c); len(o) == 1 && o[0] == BADCASE {
			continue
		}
		out = append(out, c)
	}
	return out
}

func c14Shrink0(in []int64) [][]int64 {
	var out [][]int64
	if len(in) == 0 {
		return nil
	}
	if in[0] == fFlex {
		// drop operations, shorten bursts, lower arguments; re-record the append capacities
		p := 1
		if p >= len(in) {
			return nil
		}
		p += 1 + int(in[p])
		if p+2 > len(in) {
			return nil
		}
		nopsAt := p + 1
		p += 2
		var starts []int
		for q := p; q < len(in); q += 1 + int(in[q]) {
			starts = append(starts, q)
			if in[q] < 0 {
				return nil
			}
		}
		for k := len(starts) - 1; k >= 0; k-- {
			s := starts[k]
			e := s + 1 + int(in[s])
			if e > len(in) {
				return nil
			}
			c := append([]int64{}, in[:s]...)
			c = append(c, in[e:]...)
			c[nopsAt]--
			out = append(out, c14FixCaps(c))
		}
		for _, s := range starts {
			e := s + 1 + int(in[s])
			if e > len(in) {
				break
			}
			code := in[s+1]
			min := int64(1)
			if code == 0 {
				min = 2
			}
			if (code == 0 || code == 1) && in[s] > min { // drop the last value of a burst
				c := append([]int64{}, in[:e-1]...)
				c = append(c, in[e:]...)
				c[s]--
				out = append(out, c14FixCaps(c))
			}
			if code >= 2 && code <= 4 {
				for q := s + 2; q < e; q++ {
					if in[q] > 0 {
						c := append([]int64{}, in...)
						c[q] = in[q] - 1
						out = append(out, c14FixCaps(c))
					}
				}
			}
		}
		return out
	}
	c, ok := c14Decode(in)
	if !ok {
		return nil
	}
	reenc := func(mod func(b *c14B)) {
		b := &c14B{f: c.f, args: append([]int64{}, c.args...)}
		for _, a := range c.arrs {
			b.arrs = append(b.arrs, ints64(a))
		}
		b.sl = append(b.sl, c.sl...)
		mod(b)
		out = append(out, b.enc())
	}
	// shorten a slice from the end, lower element values, lower arguments
	for i := range c.sl {
		if c.sl[i][2] > 0 {
			i := i
			reenc(func(b *c14B) { b.sl[i][2]-- })
		}
		if c.sl[i][3] > c.sl[i][2] {
			i := i
			reenc(func(b *c14B) { b.sl[i][3]-- })
		}
	}
	for a := range c.arrs {
		for j := range c.arrs[a] {
			if c.arrs[a][j] > 0 {
				a, j := a, j
				reenc(func(b *c14B) { b.arrs[a][j]-- })
			}
		}
	}
	for i := range c.args {
		if c.args[i] > 0 {
			i := i
			reenc(func(b *c14B) { b.args[i] = b.args[i] / 2 })
			reenc(func(b *c14B) { b.args[i]-- })
		}
	}
	return out
}

func c14Describe(in []int64) string {
	if len(in) == 0 {
		return ""
	}
	if in[0] == fFlex {
		var sb strings.Builder
		p := 1
		if p >= len(in) || p+1+int(in[p]) > len(in) {
			return "FlexSlice (malformed)"
		}
		buf := in[p+1 : p+1+int(in[p])]
		p += 1 + len(buf)
		if p+2 > len(in) {
			return "FlexSlice (malformed)"
		}
		fmt.Fprintf(&sb, "FlexSlice{Values: %v[:%d]}", buf, in[p])
		p += 2
		for p < len(in) && p+1+int(in[p]) <= len(in) && in[p] >= 1 {
			b := in[p+1 : p+1+int(in[p])]
			switch b[0] {
			case 0:
				fmt.Fprintf(&sb, " Append(%v)->cap %d", b[2:], b[1])
			case 1:
				fmt.Fprintf(&sb, " Prepend(%v)", b[1:])
			case 2:
				fmt.Fprintf(&sb, " Get(%v)", b[1:])
			case 3:
				fmt.Fprintf(&sb, " Remove(%v)", b[1:])
			case 4:
				fmt.Fprintf(&sb, " f=SubSlice(%v)", b[1:])
			case 5:
				sb.WriteString(" Pop")
			case 6:
				sb.WriteString(" Shift")
			case 7:
				sb.WriteString(" Len")
			}
			p += 1 + len(b)
		}
		return sb.String()
	}
	c, ok := c14Decode(in)
	if !ok {
		return "malformed case"
	}
	var sb strings.Builder
	fmt.Fprintf(&sb, "%s arrays=%v slices(arr,off,len,cap)=%v args=%v", c14Names[c.f], c.arrs, c.sl, c.args)
	return sb.String()
}

func init() {
	Register(&Prop{ID: "C14", Pure: true, Num: 14, SpecMode: "rel", Gen: c14Gen, Impl: c14Impl, Shrink: c14Shrink, Describe: c14Describe,
		Rule: "slices.go: arguments are windows (array, offset, len, cap) on real arrays, element values 0..3 (sometimes 0..7; one case in seven of the selecting functions: 12..51 elements over up to 59 distinct values), lengths 0..8 and nil; dst layouts nil / own buffer with capacity 0, small, large / s1[:0] / s1 / s2[:0] / s1[:0:c] (spills) / shifted window of s1's array; s2 may be s1 or a sub-window of it; index, length and chunk arguments -2..10 and +-2^60; exhaustive small scopes as listed in the notes. FlexSlice: 1-60 operations from the zero value or from a slice with spare capacity (caps 8, 9, 12, 16, 17, 32, 36 and lengths at cap/4, cap/4+1), bursts of 0/1/2/3/5/9/17 values, the capacity seen after every Append recorded into the case. distinct = distinct case; non-trivial = a selection that keeps at least one and rejects at least one element / a scalar query on a slice of length >= 2 / a clamping call on a non-empty slice / a chunking with 1 <= size < len / a FlexSlice sequence of >= 3 operations during which the capacity changed"})
}
