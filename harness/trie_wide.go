package main

// C05 / C06 family "wide": tries too large for the table-based model — one level of tens of thousands of nodes (the BFS
// queue of BuildFailureLinks grows past 2^15 / 2^16 entries) or more than 2^16 nodes in all — judged by the closed form
// of the specification in coq/Run/C106.v.  case = [kind; lo; n; width] ++ put_list(text runes) ++ put_list(repl) ++ [mask]
// kind -6: Replace / ReplaceWithMask, kind -5: Match / FindAll.  The tries are built once per (lo, n, width) and shared.

import (
	"sync"

	"github.com/welllog/golib/algz"
)

type wideKey struct{ lo, n, w int64 }

var wideMu sync.Mutex
var wideTries = map[wideKey]*algz.Trie{}

func wideTrie(lo, n, w int64) *algz.Trie {
	wideMu.Lock()
	defer wideMu.Unlock()
	k := wideKey{lo, n, w}
	if t, ok := wideTries[k]; ok {
		return t
	}
	t := &algz.Trie{}
	if w == 1 {
		for r := lo; r < lo+n; r++ {
			t.Insert(string(rune(r)))
		}
	} else {
		for a := lo; a < lo+n; a++ {
			for b := lo; b < lo+n; b++ {
				t.Insert(string([]rune{rune(a), rune(b)}))
			}
		}
	}
	t.BuildFailureLinks()
	wideTries[k] = t
	return t
}

func wideOK(in []int64) bool {
	if len(in) < 6 || (in[0] != -5 && in[0] != -6) {
		return false
	}
	lo, n, w := in[1], in[2], in[3]
	if w != 1 && w != 2 {
		return false
	}
	if lo < 0 || n < 1 || lo+n > 0x10FFFF || (lo < 0xE000 && lo+n > 0xD800) {
		return false
	}
	if (w == 1 && n > 200000) || (w == 2 && n > 400) {
		return false
	}
	return true
}

func wideImpl(in []int64) (out []int64) {
	if !wideOK(in) {
		return []int64{BADCASE}
	}
	defer func() {
		if r := recover(); r != nil {
			out = []int64{PANIC}
		}
	}()
	lo, n, w := in[1], in[2], in[3]
	textR, r1 := GetList(in[4:])
	repl, r2 := GetList(r1)
	mask := int64('*')
	if len(r2) > 0 {
		mask = r2[0]
	}
	rs := make([]rune, len(textR))
	for i, x := range textR {
		rs[i] = rune(x)
	}
	text := string(rs)
	t := wideTrie(lo, n, w)
	if in[0] == -6 {
		out = PutList(Bytes([]byte(t.Replace(text, string(ToBytes(repl))))))
		return append(out, PutList(Bytes([]byte(t.ReplaceWithMask(text, rune(mask)))))...)
	}
	out = []int64{B(t.Match(text))}
	occ := t.FindAll(text)
	out = append(out, int64(len(occ)))
	for _, o := range occ {
		out = append(out, PutList(Bytes([]byte(o)))...)
	}
	return out
}

// wideGen produces cases for the two shapes; kind is -5 or -6
func wideGen(c *Ctx, kind int64) {
	type shape struct{ lo, n, w int64 }
	// ... and nodes holding the whole ASCII range (NUL and DEL included), one short of it, and reaching beyond it
	shapes := []shape{{0x10000, 50000, 1}, {0x100, 300, 2}, {0, 128, 1}, {1, 127, 1}, {0, 200, 1}, {0, 127, 1}}
	if !c.Quick() {
		shapes = append(shapes, shape{0x10000, 70000, 1}, shape{0x4E00, 20992, 1}, shape{0x100, 260, 2})
	}
	per := c.N(60, 600)
	c.Each(len(shapes)*per, func(i int, t *T) {
		sh := shapes[i/per]
		r := t.R
		n := 1 + r.Intn(14)
		text := make([]int64, n)
		for j := range text {
			switch r.Intn(6) {
			case 0:
				text[j] = 'a' + int64(r.Intn(3))
			case 1:
				text[j] = sh.lo - 1
				if text[j] < 0 {
					text[j] = 0x7f
				}
			case 2:
				text[j] = sh.lo + sh.n
			case 3:
				text[j] = sh.lo + sh.n - 1 - int64(r.Intn(3))
			default:
				text[j] = sh.lo + r.Int63n(sh.n)
			}
		}
		in := []int64{kind, sh.lo, sh.n, sh.w}
		in = append(in, PutList(text)...)
		in = append(in, PutList(Bytes([]byte([]string{"", "#", "<>"}[r.Intn(3)])))...)
		in = append(in, '*')
		t.Try("wide-closed-form", in, true)
	})
}

func wideNum(base int) func(in []int64) int {
	return func(in []int64) int {
		if len(in) > 0 && (in[0] == -5 || in[0] == -6) {
			return 106
		}
		return base
	}
}
