package main

// C05 family "very-long-patterns": one or two patterns of tens of thousands of runes (a chain of more than 2^16 nodes,
// byte offsets above 65535 in the enumeration stack of PrefixSearch / FuzzySearch), judged by the specification
// evaluated directly on functional strings in coq/Run/C107.v (the table model needs minutes per case at that size).
// case = [-7; u; o; m; c; e; xs; io; h; ys; k; g; k2]  -- see the header of Run/C107.v:
//   rune = base(u) + d;  P[j] = base + popcount(o+j) mod 3 (m runes);  Q = P[0..c) ++ x^e (c = -1: none);
//   x = base+3 (xs=1) | base-1 (xs=0);  io = insertion order;  text = key = y^h ++ P[0..k) ++ x^g ++ P[0..k2)
// output = Match ++ section(FindAll) ++ section(PrefixSearch) ++ section(FuzzySearch); a returned string is encoded as
// (byte length, sum (i+1)*(b_i+1)) so that neither the case nor the output carries 70000 bytes.
// The tries are built once per (u, o, m, c, e, xs, io) and shared (queries do not modify a built trie).

import (
	"fmt"
	"math/bits"
	"strings"
	"sync"

	"github.com/welllog/golib/algz"
)

type longKey struct{ u, o, m, c, e, xs, io int64 }

var longMu sync.Mutex
var longTries = map[longKey]*algz.Trie{}

func longBase(u int64) rune {
	switch u {
	case 1:
		return 'a'
	case 2:
		return 0xE0
	}
	return 0x4E00
}

func longSym(i int64) rune { return rune(bits.OnesCount64(uint64(i)) % 3) }

// P[0..n) for offset o
func longP(u, o, n int64) string {
	var sb strings.Builder
	sb.Grow(int(n * u))
	b := longBase(u)
	for j := int64(0); j < n; j++ {
		sb.WriteRune(b + longSym(o+j))
	}
	return sb.String()
}

func longX(u, xs int64) rune {
	if xs == 1 {
		return longBase(u) + 3
	}
	return longBase(u) - 1
}

// the patterns of a case in insertion order, and the text
func longStrings(in []int64) (pats []string, text string) {
	u, o, m, c, e, xs, io := in[1], in[2], in[3], in[4], in[5], in[6], in[7]
	h, ys, k, g, k2 := in[8], in[9], in[10], in[11], in[12]
	x := string(longX(u, xs))
	p := longP(u, o, m)
	pats = []string{p}
	if c >= 0 {
		q := p[:c*u] + strings.Repeat(x, int(e))
		if io == 1 {
			pats = []string{q, p}
		} else {
			pats = []string{p, q}
		}
	}
	y := x
	if ys == 0 {
		y = p[:u]
	}
	text = strings.Repeat(y, int(h)) + p[:k*u] + strings.Repeat(x, int(g)) + p[:k2*u]
	return pats, text
}

func longOK(in []int64) bool {
	if len(in) != 13 || in[0] != -7 {
		return false
	}
	u, o, m, c, e, xs, io := in[1], in[2], in[3], in[4], in[5], in[6], in[7]
	h, ys, k, g, k2 := in[8], in[9], in[10], in[11], in[12]
	if u < 1 || u > 3 || o < 0 || o > 1<<40 || m < 2 || m > 80000 {
		return false
	}
	if c == -1 {
		if e != 0 {
			return false
		}
	} else if c < 1 || c > m || e < 0 || e > 1000 || (c == m && e == 0) || c < m/2 || m-c > 1000 {
		// Q shares at least half of P and all but 1000 runes: a short Q would occur thousands of times in the text
		return false
	}
	for _, b := range []int64{xs, io, ys} {
		if b != 0 && b != 1 {
			return false
		}
	}
	return h >= 0 && h <= 1000 && g >= 0 && g <= 1000 && k >= 0 && k <= m && k2 >= 0 && k2 <= m
}

func longTrie(in []int64) *algz.Trie {
	key := longKey{in[1], in[2], in[3], in[4], in[5], in[6], in[7]}
	longMu.Lock()
	defer longMu.Unlock()
	if t, ok := longTries[key]; ok {
		return t
	}
	pats, _ := longStrings(in)
	t := &algz.Trie{}
	for _, p := range pats {
		t.Insert(p)
	}
	t.BuildFailureLinks()
	if len(longTries) > 24 { // shrinking visits many shapes: do not keep them all
		longTries = map[longKey]*algz.Trie{}
	}
	longTries[key] = t
	return t
}

func longSum(s string) (int64, int64) {
	var acc int64
	for i := 0; i < len(s); i++ {
		acc += int64(i+1) * (int64(s[i]) + 1)
	}
	return int64(len(s)), acc
}

func longSection(f func() []string) (out []int64) {
	defer func() {
		if r := recover(); r != nil {
			out = []int64{PANIC}
		}
	}()
	l := f()
	out = []int64{int64(len(l))}
	for _, s := range l {
		n, a := longSum(s)
		out = append(out, n, a)
	}
	return out
}

func longImpl(in []int64) []int64 {
	if !longOK(in) {
		return []int64{BADCASE}
	}
	_, text := longStrings(in)
	t := longTrie(in)
	var out []int64
	func() {
		defer func() {
			if r := recover(); r != nil {
				out = append(out, PANIC)
			}
		}()
		out = append(out, B(t.Match(text)))
	}()
	out = append(out, longSection(func() []string { return t.FindAll(text) })...)
	out = append(out, longSection(func() []string { return t.PrefixSearch(text) })...)
	out = append(out, longSection(func() []string { return t.FuzzySearch(text) })...)
	return out
}

func longDescribe(in []int64) string {
	if !longOK(in) {
		return fmt.Sprintf("very long patterns: case outside the family %v", in)
	}
	u, o, m, c, e, xs := in[1], in[2], in[3], in[4], in[5], in[6]
	h, ys, k, g, k2 := in[8], in[9], in[10], in[11], in[12]
	x := string(longX(u, xs))
	y := x
	if ys == 0 {
		y = string(longBase(u) + longSym(o))
	}
	s := fmt.Sprintf("very long patterns: P = %d runes %q+(popcount(%d+j) mod 3) (%d bytes)", m, longBase(u), o, m*u)
	if c >= 0 {
		s += fmt.Sprintf("; Q = P[:%d runes] + %q x %d (%d bytes), inserted %s", c, x, e, (c+e)*u, []string{"after P", "before P"}[in[7]])
	}
	return s + fmt.Sprintf("; text = key = %q x %d + P[:%d runes] + %q x %d + P[:%d runes] (%d bytes)", y, h, k, x, g, k2, (h+k+g+k2)*u)
}

// candidates for the shrinker: drop the second pattern, empty the text segments, shorten P
func longShrink(in []int64) [][]int64 {
	if !longOK(in) {
		return nil
	}
	var out [][]int64
	add := func(f func(c []int64)) {
		c := append([]int64{}, in...)
		f(c)
		if longOK(c) && fmt.Sprint(c) != fmt.Sprint(in) {
			out = append(out, c)
		}
	}
	add(func(c []int64) { c[4], c[5] = -1, 0 })
	for _, i := range []int{8, 11, 12, 10, 5} {
		i := i
		add(func(c []int64) { c[i] = 0 })
		add(func(c []int64) { c[i] /= 2 })
		add(func(c []int64) { c[i]-- })
	}
	for _, d := range []int64{2, 16, 1024} { // shorten P (and what is cut out of it) by m/d
		d := d
		add(func(c []int64) {
			cut := (c[3] + d - 1) / d
			c[3] -= cut
			for _, i := range []int{10, 12} {
				if c[i] > c[3] {
					c[i] = c[3]
				}
			}
			if c[4] >= 0 {
				if c[4] -= cut; c[4] < 1 {
					c[4] = 1
				}
			}
		})
	}
	add(func(c []int64) { c[1] = 1 })
	add(func(c []int64) { c[2] = 1 })
	return out
}

// longGen: the closed-form cases, and for small m the same trie and text as an ordinary case (table model, Run/C05.v)
func longGen(c *Ctx) {
	type shape struct{ u, o, m, c, e, xs int64 }
	shapes := []shape{
		{1, 1, 70001, -1, 0, 1},    // one pattern, 70001 bytes
		{1, 5, 70000, 69990, 3, 1}, // two patterns sharing 69990 bytes, the second one branching upwards
		{2, 1, 35100, 35000, 0, 0}, // 2-byte runes, Q a proper prefix of P (70000 of 70200 bytes)
		{3, 9, 23400, 23400, 2, 0}, // 3-byte runes (70200 bytes), Q an extension of P
		{1, 2, 65530, 65528, 9, 0}, // P stays below 65536 bytes, Q (65537 bytes) crosses it
		{1, 1, 300, 290, 4, 1},     // small: also run through the table model
		{2, 3, 100, 100, 1, 0},     // small, 2-byte runes, Q an extension of P
		{3, 1, 100, -1, 0, 1},      // small, 3-byte runes, one pattern
	}
	if !c.Quick() {
		shapes = append(shapes,
			shape{1, 1, 65535, 65535, 1, 1}, shape{1, 1, 65536, 65535, 0, 1}, shape{1, 3, 65537, 65530, 20, 0},
			shape{2, 7, 32768, 32767, 2, 1}, shape{3, 2, 21846, 21845, 1, 1}, shape{1, 12345, 70200, 70100, 100, 1},
			shape{2, 0, 300, 250, 0, 1}, shape{1, 77, 200, 199, 1, 0})
	}
	per := c.N(4, 12)
	c.Each(len(shapes)*per, func(i int, t *T) {
		sh := shapes[i/per]
		r := t.R
		var h, ys, k, g, k2 int64
		switch v := i % per; {
		case v == 0: // the empty key: everything is enumerated from the root
		case v == 1: // the full pattern, a separator, and a piece of it again
			k, g, k2 = sh.m, int64(r.Intn(2)), int64(r.Intn(40))
		case v == 2: // a long proper prefix (the key's node is deep in the chain; both patterns below it when k <= c)
			k = sh.m - 1 - int64(r.Intn(12))
			if sh.c >= 0 && r.Intn(2) == 0 {
				k = sh.c - int64(r.Intn(3))
			}
		case v == 3: // y^h: the only keys FuzzySearch answers for (y = P[0]); with x it is no key at all
			h, ys = 1+int64(r.Intn(3)), int64(r.Intn(4)/3)
		case v%4 == 0: // the branching point of Q: key = P[0..c) ++ x^g
			k, g = sh.m/2+int64(r.Intn(int(sh.m/2))), int64(r.Intn(3))
			if sh.c >= 0 {
				k, g = sh.c, int64(r.Intn(int(sh.e)+2))
			}
		case v%4 == 1: // junk, the pattern, the pattern again without separator
			h, ys, k, k2 = int64(r.Intn(3)), int64(r.Intn(2)), sh.m, sh.m-int64(r.Intn(2))
		case v%4 == 2: // a short prefix
			k = int64(r.Intn(20))
		default:
			h, ys, k, g, k2 = int64(r.Intn(3)), int64(r.Intn(2)), int64(r.Int63n(sh.m+1)), int64(r.Intn(3)), int64(r.Int63n(sh.m+1))
		}
		in := []int64{-7, sh.u, sh.o, sh.m, sh.c, sh.e, sh.xs, int64(r.Intn(2)), h, ys, k, g, k2}
		pats, text := longStrings(in)
		nt := anyOccurs(pats, text) || (text != "" && anyHasPrefix(pats, text))
		t.Try("very-long-patterns", in, nt)
		if sh.m <= 300 {
			tc := &trieCase{ops: opsOf(pats), text: []byte(text)}
			t.Try("very-long-patterns-small-by-table-model", tc.encode(false), nt)
		}
	})
}

func longNum(base int) func(in []int64) int {
	w := wideNum(base)
	return func(in []int64) int {
		if len(in) > 0 && in[0] == -7 {
			return 107
		}
		return w(in)
	}
}
