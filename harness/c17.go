package main

import (
	"fmt"
	"math"
	"unicode/utf8"

	"github.com/welllog/golib/strz"
)

// C17: strz rune-aware helpers.
// case = op :: args; string = length-prefixed bytes; int = two tokens hi lo (value hi*2^32+lo).
//
//	 0 Mask str mask start end   1 Sub s start length   2 SubByDisplay s limit   3 Rev s   4 Len s
//	 5 RemoveRunes s kind a      6 SnakeToCamelCase s up   7 CamelCaseToSnake s   8 UcFirst s   9 LcFirst s
//	10 CamelCaseToSnake(SnakeToCamelCase(s, up))
var c17Names = []string{"Mask", "Sub", "SubByDisplay", "Rev", "Len", "RemoveRunes", "SnakeToCamelCase", "CamelCaseToSnake", "UcFirst", "LcFirst", "CamelToSnake.SnakeToCamel", "RemoveRunes+calls"}

func c17PutInt(v int64) []int64 {
	lo := v & 0xffffffff
	hi := (v - lo) >> 32
	return []int64{hi, lo}
}
func c17GetInt(l []int64) (int64, []int64) {
	if len(l) < 2 {
		return 0, nil
	}
	return l[0]<<32 + l[1], l[2:]
}
func c17Pred(kind, a int64) func(rune) bool {
	return func(r rune) bool {
		v := int64(r)
		switch kind {
		case 0:
			return false
		case 1:
			return true
		case 2:
			return v == a
		case 3:
			return v < a
		case 4:
			return v%2 == ((a%2)+2)%2
		case 5:
			return v%3 == ((a%3)+3)%3
		default:
			return a <= v
		}
	}
}

// A result is read only after the same helper has been called again on other strings (of the same size, with capitals
// and underscores: every branch that builds its result in a scratch buffer is taken): a returned string must not share
// memory with anything a later call writes to.  The argument must be unchanged too.
func c17Disturb(s string) []string {
	d := make([]byte, len(s)+3)
	for i := range d {
		d[i] = "Zq_Yx9"[i%6]
	}
	return []string{string(d), "Ab_Cd" + s, s + "_Xy"}
}

func c17Impl(in []int64) []int64 {
	out := c17Impl1(in, false)
	if len(in) > 0 && in[0] != 4 && in[0] != 11 {
		if out2 := c17Impl1(in, true); !eqTok(out, out2) {
			return append(out2, -1000032) // the result changed when the helper was called again before it was read
		}
	}
	return out
}

func c17Impl1(in []int64, disturb bool) []int64 {
	op := in[0]
	sb, r := GetList(in[1:])
	orig := ToBytes(sb)
	s := string(orig)
	keep := func(f func(string) string) []int64 {
		res := f(s)
		if disturb {
			for _, d := range c17Disturb(s) {
				func() {
					defer func() { recover() }()
					f(d)
				}()
			}
		}
		o := make([]int64, 0, len(res)+1)
		for i := 0; i < len(res); i++ {
			o = append(o, int64(res[i]))
		}
		if s != string(orig) {
			o = append(o, -1000033) // the argument was modified
		}
		return o
	}
	if disturb {
		switch op {
		case 0:
			mb, r2 := GetList(r)
			st, r3 := c17GetInt(r2)
			en, _ := c17GetInt(r3)
			m := string(ToBytes(mb))
			return keep(func(x string) string { return strz.Mask(x, m, int(st), int(en)) })
		case 1:
			st, r2 := c17GetInt(r)
			ln, _ := c17GetInt(r2)
			return keep(func(x string) string { return strz.Sub(x, int(st), int(ln)) })
		case 2:
			lim, _ := c17GetInt(r)
			return keep(func(x string) string { return strz.SubByDisplay(x, int(lim)) })
		case 3:
			return keep(strz.Rev)
		case 5:
			return keep(func(x string) string { return strz.RemoveRunes(x, c17Pred(r[0], r[1])) })
		case 6:
			return keep(func(x string) string { return strz.SnakeToCamelCase(x, r[0] != 0) })
		case 7:
			return keep(strz.CamelCaseToSnake)
		case 8:
			return keep(strz.UcFirst)
		case 9:
			return keep(strz.LcFirst)
		case 10:
			return keep(func(x string) string { return strz.CamelCaseToSnake(strz.SnakeToCamelCase(x, r[0] != 0)) })
		}
	}
	switch op {
	case 0:
		mb, r2 := GetList(r)
		st, r3 := c17GetInt(r2)
		en, _ := c17GetInt(r3)
		return Bytes([]byte(strz.Mask(s, string(ToBytes(mb)), int(st), int(en))))
	case 1:
		st, r2 := c17GetInt(r)
		ln, _ := c17GetInt(r2)
		return Bytes([]byte(strz.Sub(s, int(st), int(ln))))
	case 2:
		lim, _ := c17GetInt(r)
		return Bytes([]byte(strz.SubByDisplay(s, int(lim))))
	case 3:
		return Bytes([]byte(strz.Rev(s)))
	case 4:
		return []int64{int64(strz.Len(s))}
	case 5:
		return Bytes([]byte(strz.RemoveRunes(s, c17Pred(r[0], r[1]))))
	case 11: // op 5 through a recording predicate: result, CALLS, put_list(the runes the predicate was asked about, in order)
		p := c17Pred(r[0], r[1])
		var asked []int64
		out := Bytes([]byte(strz.RemoveRunes(s, func(x rune) bool { asked = append(asked, int64(x)); return p(x) })))
		out = append(out, -1000030)
		return append(out, PutList(asked)...)
	case 6:
		return Bytes([]byte(strz.SnakeToCamelCase(s, r[0] != 0)))
	case 7:
		return Bytes([]byte(strz.CamelCaseToSnake(s)))
	case 8:
		return Bytes([]byte(strz.UcFirst(s)))
	case 9:
		return Bytes([]byte(strz.LcFirst(s)))
	case 10:
		return Bytes([]byte(strz.CamelCaseToSnake(strz.SnakeToCamelCase(s, r[0] != 0))))
	}
	return []int64{BADCASE}
}

// pieces the strings are built from: 1-4 byte runes, U+FFFD itself, and malformed sequences
var c17Pieces = [][]byte{
	[]byte("a"), []byte("Z"), []byte("_"), []byte("é"), []byte("€"), []byte("😀"), []byte("�"),
	{0xff}, {0x80}, {0xe2, 0x82}, {0xf0, 0x9f, 0x98}, {0xed, 0xa0, 0x80}, {0xc0, 0x80}, {0xf4, 0x90, 0x80, 0x80}, []byte("7"), []byte("中"),
	// runes of special Unicode classes (the property counts runes and gives every non-ASCII rune width 2, whatever its class):
	// zero width joiner, variation selector 16, combining acute, ideographic space, soft hyphen, a title-case letter, a
	// regional indicator, BOM / zero width no-break space, line separator
	[]byte("\u200d"), []byte("\ufe0f"), []byte("\u0301"), []byte("\u3000"), []byte("\u00ad"), []byte("\u01c5"), []byte("\U0001F1E9"), []byte("\ufeff"), []byte("\u2028"),
}

// number of pieces used by the exhaustive part (the first k of the table)
const c17SmallAlphabet = 10

var c17Masks = [][]byte{[]byte("*"), {}, []byte("**"), []byte("é"), {0xff}, []byte("€x"), {0xe2, 0x82}}

var c17Extreme = []int64{math.MaxInt64, math.MaxInt64 - 1, math.MaxInt64 - 2, 1 << 62, 1 << 32, 1<<32 - 1, 1 << 31, 1<<63 - 1<<32}
var c17Negative = []int64{-1, -2, -3, math.MinInt64, math.MinInt64 + 1, math.MinInt64 + 2}

func c17Case(op int64, s []byte, rest ...int64) []int64 {
	in := []int64{op}
	in = append(in, PutList(Bytes(s))...)
	return append(in, rest...)
}
func c17MaskCase(s, m []byte, st, en int64) []int64 {
	in := []int64{0}
	in = append(in, PutList(Bytes(s))...)
	in = append(in, PutList(Bytes(m))...)
	in = append(in, c17PutInt(st)...)
	return append(in, c17PutInt(en)...)
}

// Mask with a one-rune mask calls strings.Repeat(mask, ml): between a few KB and runtime.maxAlloc (2^48 bytes)
// the outcome is the machine's memory (fatal, not a panic) — the generator stays out of that band (negative arguments only).
func c17MaskSafe(s, m []byte, st, en int64) bool {
	l := int64(utf8.RuneCount(s))
	ml := l - st - en // wraps like the code (also safe for a tree without the start/end > l guard)
	if ml <= 0 || utf8.RuneCount(m) != 1 {
		return true
	}
	return ml <= 4096 || ml > 1<<50
}

func c17Interesting(s []byte) bool {
	if utf8.RuneCount(s) < 2 {
		return false
	}
	for _, b := range s {
		if b >= 0x80 {
			return true
		}
	}
	return false
}

func c17Gen(c *Ctx) {
	// ---- part 2: identifiers and near-identifiers: all strings of length <= 4 (5) over {a z _ 0 A é}
	idAl := [][]byte{[]byte("a"), []byte("z"), []byte("_"), []byte("0"), []byte("A"), []byte("é")}
	IL := c.N(4, 6)
	var ids [][]byte
	var rec2 func(cur []byte, d int)
	rec2 = func(cur []byte, d int) {
		ids = append(ids, append([]byte{}, cur...))
		if d == IL {
			return
		}
		for _, p := range idAl {
			rec2(append(append([]byte{}, cur...), p...), d+1)
		}
	}
	rec2(nil, 0)
	// the round trip first: it is the clause with a specification, so a broken converter is reported through it
	c.Each(len(ids), func(i int, t *T) {
		s := ids[i]
		for up := int64(0); up < 2; up++ {
			t.Try("ident/roundtrip", c17Case(10, s, up), len(s) >= 3)
		}
	})
	c.Each(len(ids), func(i int, t *T) {
		s := ids[i]
		nt := len(s) >= 3
		for up := int64(0); up < 2; up++ {
			t.Try("ident/SnakeToCamelCase", c17Case(6, s, up), nt)
		}
		t.Try("ident/CamelCaseToSnake", c17Case(7, s), nt)
	})
	c.Note(fmt.Sprintf("part 2: all %d strings of length <= %d over {a z _ 0 A é} through SnakeToCamelCase (both flags), CamelCaseToSnake and the round trip", len(ids), IL))

	// ---- part 0: every byte value at the positions the case helpers look at (first byte, after an underscore, after a
	// lower-case letter, alone): the edges of the letter ranges ('A', 'Z', 'a', 'z' and their neighbours '@', '[', '`', '{')
	c.Each(256, func(i int, t *T) {
		b := byte(i)
		for _, s := range [][]byte{{b}, {b, 'b'}, {b, 'B'}, {'x', b, 'y'}, {'a', '_', b}, {'a', '_', b, 'c'}, {'a', b, 'C'}, {b, b}, {b, 0xc3, 0xa9}} {
			t.Try("every-byte/UcFirst", c17Case(8, s), true)
			t.Try("every-byte/LcFirst", c17Case(9, s), true)
			t.Try("every-byte/SnakeToCamelCase", c17Case(6, s, 0), true)
			t.Try("every-byte/SnakeToCamelCase", c17Case(6, s, 1), true)
			t.Try("every-byte/CamelCaseToSnake", c17Case(7, s), true)
		}
	})
	// ---- part 0b: every number of replaced runes 0..70 in Mask (a table of precomputed mask runs, a fast path up to some
	// width): strings of 33, 40 and 70 runes (ASCII and mixed widths), every start, every end
	{
		var jobs [][3]int
		for _, L := range []int{33, 40, 70} {
			for st := 0; st <= L; st++ {
				for en := 0; st+en <= L; en++ {
					jobs = append(jobs, [3]int{L, st, en})
				}
			}
		}
		c.Each(len(jobs), func(i int, t *T) {
			j := jobs[i]
			var sb []byte
			for k := 0; k < j[0]; k++ {
				if i%2 == 0 {
					sb = append(sb, byte('a'+k%26))
				} else {
					sb = append(sb, c17Pieces[(k*7+i)%6]...) // a Z _ é € 😀
				}
			}
			m := [][]byte{[]byte("*"), []byte("*"), []byte("#"), []byte("é")}[i%4]
			t.Try("mask-every-width", c17MaskCase(sb, m, int64(j[1]), int64(j[2])), true)
		})
	}
	// ---- part 1: every string of <= 3 pieces over the small alphabet, arguments 0..runes+3 (and -1)
	K := c17SmallAlphabet
	L := c.N(3, 4)
	var strs [][]byte
	var rec func(cur []byte, d int)
	rec = func(cur []byte, d int) {
		strs = append(strs, append([]byte{}, cur...))
		if d == L {
			return
		}
		for i := 0; i < K; i++ {
			rec(append(append([]byte{}, cur...), c17Pieces[i]...), d+1)
		}
	}
	rec(nil, 0)
	c.Each(len(strs), func(i int, t *T) {
		s := strs[i]
		n := int64(utf8.RuneCount(s))
		nt := c17Interesting(s)
		for st := int64(0); st <= n+2; st++ {
			for ln := int64(-1); ln <= n+3-st && ln <= n+2; ln++ {
				t.Try("small/Sub", c17Case(1, s, append(c17PutInt(st), c17PutInt(ln)...)...), nt)
			}
		}
		for lim := int64(-1); lim <= 2*n+1; lim++ {
			t.Try("small/SubByDisplay", c17Case(2, s, c17PutInt(lim)...), nt)
		}
		for st := int64(0); st <= n+1; st++ {
			for en := int64(0); en <= n+1; en++ {
				for k := 0; k < 2; k++ {
					m := c17Masks[(i+int(st)+2*int(en)+3*k)%len(c17Masks)]
					if k == 0 {
						m = c17Masks[0]
					}
					t.Try("small/Mask", c17MaskCase(s, m, st, en), nt && st+en < n)
				}
			}
		}
		for _, op := range []int64{3, 4, 7, 8, 9} {
			t.Try("small/"+c17Names[op], c17Case(op, s), nt)
		}
		t.Try("small/SnakeToCamelCase", c17Case(6, s, 0), nt)
		t.Try("small/SnakeToCamelCase", c17Case(6, s, 1), nt)
		for _, pk := range [][2]int64{{1, 0}, {2, 0xFFFD}, {3, 128}, {4, 1}, {6, 0x800}, {2, 97}} {
			t.Try("small/RemoveRunes", c17Case(5, s, pk[0], pk[1]), nt)
			t.Try("small/RemoveRunes-calls", c17Case(11, s, pk[0], pk[1]), nt)
		}
	})
	c.SetExhaustive()
	c.Note(fmt.Sprintf("part 1: all %d strings of <= %d pieces over %d pieces (a Z _ é € 😀 U+FFFD 0xff 0x80 E2-82), Sub start 0..n+2 x length -1..n+2, SubByDisplay limit -1..2n+1, Mask start,end 0..n+1 (mask * and one rotating other), all unary helpers", len(strs), L, K))

	// ---- part 3: random longer strings, random and extreme arguments
	n3 := c.N(12000, 300000)
	c.Each(n3, func(i int, t *T) {
		r := t.R
		np := r.Intn(10)
		long := i%40 == 7 // strings of 60..1600 pieces: scratch buffers of 64/256/1024/4096 bytes, growth policies
		if long {
			np = 60 + r.Intn([]int{40, 200, 600, 1540}[r.Intn(4)])
			t.C.Count("long-strings", fmt.Sprintf("%d00+ pieces", np/100))
		}
		var s []byte
		for j := 0; j < np; j++ {
			if r.Intn(12) == 0 {
				s = append(s, byte(r.Intn(256)))
			} else {
				s = append(s, c17Pieces[r.Intn(len(c17Pieces))]...)
			}
		}
		if i%5 == 2 && !long {
			// runs: 1..4 stretches of 1..40 pieces of ONE width class each (ASCII, 2-, 3-, 4-byte, invalid): word-at-a-time
			// and same-width fast paths start only after 8 / 16 / 32 bytes of one kind
			s = s[:0]
			classes := [][]string{{"a", "Z", "_", " ", "7"}, {"é", "ß"}, {"€", "中"}, {"😀"}, {"\xff", "\x80"}}
			for k, nr := 0, 1+r.Intn(4); k < nr; k++ {
				cl := classes[r.Intn(len(classes))]
				if k == 0 && r.Intn(2) == 0 {
					cl = classes[0]
				}
				for j, m := 0, 1+r.Intn(40); j < m; j++ {
					s = append(s, cl[r.Intn(len(cl))]...)
				}
			}
			t.C.Count("runs-of-one-width", "1..4 runs of 1..40 pieces")
		}
		n := int64(utf8.RuneCount(s))
		arg := func(neg bool) int64 {
			x := r.Intn(100)
			switch {
			case x < 70:
				return r.Int63n(n + 4)
			case x < 90:
				return c17Extreme[r.Intn(len(c17Extreme))]
			case x < 95 || !neg:
				return math.MaxInt64 - r.Int63n(n+3)
			default:
				return c17Negative[r.Intn(len(c17Negative))]
			}
		}
		nt := c17Interesting(s)
		switch op := r.Intn(12); op {
		case 0, 1, 2:
			m := c17Masks[r.Intn(len(c17Masks))]
			if r.Intn(4) == 0 {
				m = c17Pieces[r.Intn(len(c17Pieces))]
			}
			st, en := arg(true), arg(true)
			if !c17MaskSafe(s, m, st, en) {
				t.C.Count("skipped", "mask-memory-band")
				return
			}
			t.C.Count("args", c17ArgClass(st, n)+"/"+c17ArgClass(en, n))
			t.Try("random/Mask", c17MaskCase(s, m, st, en), nt)
		case 3, 4, 5:
			st, ln := arg(true), arg(true)
			if r.Intn(6) == 0 {
				ln = -1
			}
			t.C.Count("args", c17ArgClass(st, n)+"/"+c17ArgClass(ln, n))
			t.Try("random/Sub", c17Case(1, s, append(c17PutInt(st), c17PutInt(ln)...)...), nt)
		case 6:
			lim := arg(true)
			if r.Intn(2) == 0 {
				lim = r.Int63n(2*n + 3)
			}
			t.Try("random/SubByDisplay", c17Case(2, s, c17PutInt(lim)...), nt)
		case 7:
			t.Try("random/Rev", c17Case(3, s), nt)
			t.Try("random/Len", c17Case(4, s), nt)
		case 8:
			kind := int64(r.Intn(7))
			a := int64(r.Intn(0x300))
			if r.Intn(3) == 0 {
				rs := []rune(string(s))
				if len(rs) > 0 {
					a = int64(rs[r.Intn(len(rs))])
				}
			}
			t.Try("random/RemoveRunes", c17Case(5, s, kind, a), nt)
			t.Try("random/RemoveRunes-calls", c17Case(11, s, kind, a), nt)
		case 9:
			t.Try("random/SnakeToCamelCase", c17Case(6, s, int64(r.Intn(2))), nt)
			t.Try("random/CamelCaseToSnake", c17Case(7, s), nt)
		case 10:
			t.Try("random/UcFirst", c17Case(8, s), nt)
			t.Try("random/LcFirst", c17Case(9, s), nt)
		default:
			// a grammar identifier, sometimes damaged
			var id []byte
			words := 1 + r.Intn(4)
			if long {
				words = 20 + r.Intn(400)
			}
			for w := 0; w < words; w++ {
				if w > 0 {
					id = append(id, '_')
				}
				id = append(id, byte('a'+r.Intn(26)))
				for k := r.Intn(4); k > 0; k-- {
					if r.Intn(3) == 0 {
						id = append(id, byte('0'+r.Intn(10)))
					} else {
						id = append(id, byte('a'+r.Intn(26)))
					}
				}
			}
			if r.Intn(5) == 0 && len(id) > 0 {
				id[r.Intn(len(id))] = []byte("_A9\xc3")[r.Intn(4)]
			}
			t.Try("random/roundtrip", c17Case(10, id, int64(r.Intn(2))), len(id) >= 3)
		}
	})
}

func c17ArgClass(v, n int64) string {
	switch {
	case v < 0:
		return "neg"
	case v < n:
		return "in"
	case v <= n+3:
		return "edge"
	default:
		return "huge"
	}
}

func c17Describe(in []int64) string {
	if len(in) < 2 || in[0] < 0 || in[0] > 10 {
		return "?"
	}
	sb, r := GetList(in[1:])
	d := fmt.Sprintf("%s(%q", c17Names[in[0]], string(ToBytes(sb)))
	switch in[0] {
	case 0:
		mb, r2 := GetList(r)
		st, r3 := c17GetInt(r2)
		en, _ := c17GetInt(r3)
		d += fmt.Sprintf(", %q, %d, %d", string(ToBytes(mb)), st, en)
	case 1:
		st, r2 := c17GetInt(r)
		ln, _ := c17GetInt(r2)
		d += fmt.Sprintf(", %d, %d", st, ln)
	case 2:
		lim, _ := c17GetInt(r)
		d += fmt.Sprintf(", %d", lim)
	case 5:
		if len(r) >= 2 {
			d += fmt.Sprintf(", pred kind %d param %d", r[0], r[1])
		}
	case 6, 10:
		if len(r) >= 1 {
			d += fmt.Sprintf(", %v", r[0] != 0)
		}
	}
	return d + ")"
}

// shrink: drop one byte of the string (or of the mask), move integer arguments towards small values
func c17Shrink(in []int64) [][]int64 {
	if len(in) < 2 {
		return nil
	}
	var out [][]int64
	sb, r := GetList(in[1:])
	for i := range sb {
		ns := append(append([]int64{}, sb[:i]...), sb[i+1:]...)
		c := append([]int64{in[0]}, PutList(ns)...)
		out = append(out, append(c, r...))
	}
	head := append([]int64{in[0]}, PutList(sb)...)
	if in[0] == 0 {
		mb, r2 := GetList(r)
		for i := range mb {
			nm := append(append([]int64{}, mb[:i]...), mb[i+1:]...)
			c := append(append([]int64{}, head...), PutList(nm)...)
			out = append(out, append(c, r2...))
		}
		head = append(head, PutList(mb)...)
		r = r2
	}
	if in[0] <= 2 {
		for i := 0; i+1 < len(r); i += 2 {
			v, _ := c17GetInt(r[i:])
			for _, nv := range []int64{0, v / 2, v - 1} {
				if nv != v && v > 0 {
					c := append(append([]int64{}, head...), r[:i]...)
					c = append(c, c17PutInt(nv)...)
					out = append(out, append(c, r[i+2:]...))
				}
			}
		}
	}
	return out
}

func init() {
	Register(&Prop{ID: "C17", Pure: true, Num: 17, SpecMode: "rel", Gen: c17Gen, Impl: c17Impl, Shrink: c17Shrink, Describe: c17Describe,
		Rule: "part 0 (exhaustive): every byte value alone, first, after an underscore, after a lower-case letter, through UcFirst/LcFirst/SnakeToCamelCase/CamelCaseToSnake; part 1 (exhaustive): every string of <= 3 (thorough 4) pieces over {a Z _ é € 😀 U+FFFD 0xff 0x80 E2-82} with Sub/Mask/SubByDisplay arguments from -1/0 to beyond the rune count and all other helpers; part 2 (exhaustive): every string of length <= 4 (6) over {a z _ 0 A é} through the case converters and their round trip; part 3: random strings of up to 9 pieces, one in 5 made of 1..4 runs of 1..40 pieces of one width class (ASCII / 2 / 3 / 4 bytes / invalid), one in 40 of 60..1600 pieces / identifiers of 20..420 words (16 pieces incl. surrogate/overlong/too-large encodings, random raw bytes) with in-range, edge, MaxInt-k, 2^31..2^62 and negative arguments. distinct = distinct (op, string, arguments); non-trivial = the string has >= 2 runes and a non-ASCII byte (identifier families: length >= 3; small/Mask additionally start+end < rune count)"})
}
