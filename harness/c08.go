package main

import (
	"crypto/aes"
	"crypto/cipher"
	"fmt"
	"strings"

	"github.com/welllog/golib/cryptz"
)

// C08: cryptz/aes.go — AES-CBC / AES-GCM helpers, PKCS#7.
// case = kind a b c d e put_list(l1) put_list(l2) put_list(l3) put_list(l4)      (see coq/Run/C08.v)
//   0 length helper (a = which, b = n)
//   1 AESCBCEncrypt 2 AESCBCDecrypt: a b c d = doff dlen soff slen (views into the backing array l1), l2 key, l3 iv
//   3 AESGCMEncrypt 4 AESGCMDecrypt: same, l3 nonce, l4 additional data, e = 1 "corrupted: must be rejected"
//   5 PKCS7Padding 6 PKCS7UnPadding (a = blockSize, l1 data)   7 PKCS5Padding 8 PKCS5UnPadding
// output: [v] | 0 :: payload | [1 code] | [PANIC]

func c08Case(kind, a, b, c, d, e int64, l1, l2, l3, l4 []byte) []int64 {
	in := []int64{kind, a, b, c, d, e}
	in = append(in, PutList(Bytes(l1))...)
	in = append(in, PutList(Bytes(l2))...)
	in = append(in, PutList(Bytes(l3))...)
	in = append(in, PutList(Bytes(l4))...)
	return in
}

func cryptErrCode(err error) int64 {
	s := err.Error()
	switch {
	case strings.HasPrefix(s, "NewCipher error"):
		return 1
	case s == "cipherText length illegal":
		return 2
	case s == "invalid padding length":
		return 3
	case s == "invalid padding bytes":
		return 4
	case strings.HasPrefix(s, "NewGCM error"):
		return 5
	case strings.HasPrefix(s, "GCM Open error"):
		return 6
	case s == "input data cannot be empty":
		return 7
	case s == "block size must be a positive integer":
		return 8
	case s == "input data length must be a multiple of block size":
		return 9
	case strings.HasPrefix(s, "illegal base64 data"):
		return 10
	case s == "cipherText text length illegal":
		return 11
	case s == "check cbc fixed header error":
		return 12
	case s == "check fixed header error":
		return 13
	case strings.HasPrefix(s, "hex decode error"):
		return 14
	case strings.HasPrefix(s, "read header error"):
		return 15
	case strings.HasPrefix(s, "copy stream error"):
		return 16
	case strings.HasPrefix(s, "write fixed salt header error"):
		return 17
	case strings.HasPrefix(s, "write salt error"):
		return 18
	case strings.HasPrefix(s, "generate random salt error"):
		return 19
	}
	return 99
}

func exact(b []byte) []byte { // a copy with cap == len
	c := make([]byte, len(b))
	copy(c, b)
	return c[:len(b):len(b)]
}

func c08Impl(in []int64) []int64 {
	if c08IsLong(in) {
		return c08LongImpl(in)
	}
	kind, a, b, c, d := in[0], in[1], in[2], in[3], in[4]
	l1, r := GetList(in[6:])
	l2, r := GetList(r)
	l3, r := GetList(r)
	l4, _ := GetList(r)
	switch kind {
	case 0:
		s := strings.Repeat("x", int(b))
		switch a {
		case 0:
			if b%2 == 0 {
				return []int64{int64(cryptz.AESCBCEncryptLen(s))}
			}
			return []int64{int64(cryptz.AESCBCEncryptLen([]byte(s)))}
		case 1:
			return []int64{int64(cryptz.AESCBCDecryptLen(s))}
		case 2:
			return []int64{int64(cryptz.AESGCMEncryptLen(s))}
		default:
			return []int64{int64(cryptz.AESGCMDecryptLen([]byte(s)))}
		}
	case 1, 2, 3, 4:
		mem := exact(ToBytes(l1))
		if a < 0 || b < 0 || c < 0 || d < 0 || a+b > int64(len(mem)) || c+d > int64(len(mem)) {
			return []int64{BADCASE}
		}
		dst := mem[a : a+b : a+b]
		src := mem[c : c+d : c+d]
		if (a+c+int64(len(mem)))%2 == 0 {
			// a sub-slice as a caller would pass it: the capacity reaches to the end of the backing array (an
			// `append(src, ...)` inside the helper then writes behind the plaintext; the whole array is compared)
			src = mem[c : c+d]
		}
		key, x3, x4 := exact(ToBytes(l2)), exact(ToBytes(l3)), exact(ToBytes(l4))
		// The key buffer is one that has just been used with ANOTHER key of the same length: the helpers are called
		// with the complemented key first (scratch data), then the buffer is overwritten in place with the case's
		// key.  A result that depends on anything but the bytes passed in (a cache keyed by the slice, say) shows.
		if n := len(key); n == 16 || n == 24 || n == 32 {
			orig := append([]byte{}, key...)
			for i := range key {
				key[i] = ^orig[i]
			}
			sd, ss := make([]byte, 32), make([]byte, 16)
			_ = cryptz.AESCBCEncrypt(sd, ss, key, make([]byte, 16))
			_, _ = cryptz.AESCBCDecrypt(make([]byte, 32), sd, key, make([]byte, 16))
			gd := make([]byte, cryptz.AESGCMEncryptLen(ss))
			_ = cryptz.AESGCMEncrypt(gd, ss, key, make([]byte, 12), nil)
			_ = cryptz.AESGCMDecrypt(make([]byte, 16), gd, key, make([]byte, 12), nil)
			copy(key, orig)
			if (a+b+c+d+int64(len(x3)))%2 == 1 {
				// ... and, for every second case, right before the observed call, with the SAME key bytes (another slice)
				// but other parameters: nonces of other lengths, another IV, another message.  A helper is a function of
				// its arguments; anything kept from an earlier call under this key must not matter.
				same := append([]byte{}, orig...)
				for _, nl := range []int{12, 16, 1, len(x3) + 1} {
					gd2 := make([]byte, cryptz.AESGCMEncryptLen(ss))
					func() {
						defer func() { _ = recover() }()
						_ = cryptz.AESGCMEncrypt(gd2, ss, same, make([]byte, nl), nil)
						_ = cryptz.AESGCMDecrypt(make([]byte, 16), gd2, same, make([]byte, nl), nil)
					}()
				}
				iv2 := []byte("0123456789abcdef")
				_ = cryptz.AESCBCEncrypt(sd, ss, same, iv2)
				_, _ = cryptz.AESCBCDecrypt(make([]byte, 32), sd, same, iv2)
			}
		}
		switch kind {
		case 1:
			if err := cryptz.AESCBCEncrypt(dst, src, key, x3); err != nil {
				return []int64{1, cryptErrCode(err)}
			}
			return append([]int64{0}, Bytes(mem)...)
		case 2:
			n, err := cryptz.AESCBCDecrypt(dst, src, key, x3)
			if err != nil {
				return []int64{1, cryptErrCode(err)}
			}
			return append([]int64{0, int64(n)}, Bytes(mem)...)
		case 3:
			if err := cryptz.AESGCMEncrypt(dst, src, key, x3, x4); err != nil {
				return []int64{1, cryptErrCode(err)}
			}
			return append([]int64{0}, Bytes(mem)...)
		default:
			if err := cryptz.AESGCMDecrypt(dst, src, key, x3, x4); err != nil {
				return []int64{1, cryptErrCode(err)}
			}
			return append([]int64{0}, Bytes(mem)...)
		}
	case 5, 6, 7, 8:
		data := exact(ToBytes(l1))
		var out []byte
		var err error
		switch kind {
		case 5:
			out, err = cryptz.PKCS7Padding(data, int(a))
		case 6:
			out, err = cryptz.PKCS7UnPadding(data, int(a))
		case 7:
			out, err = cryptz.PKCS5Padding(data)
		default:
			out, err = cryptz.PKCS5UnPadding(data)
		}
		if err != nil {
			return []int64{1, cryptErrCode(err)}
		}
		return append([]int64{0}, Bytes(out)...)
	}
	return []int64{BADCASE}
}

// ---- the primitive oracle (Go standard library only; shared with C09)
func qLists(q []int64, n int) [][]byte {
	out := make([][]byte, n)
	r := q
	for i := 0; i < n; i++ {
		var l []int64
		l, r = GetList(r)
		out[i] = ToBytes(l)
	}
	return out
}

func stdOracle(q []int64) []int64 {
	bad := []int64{-1}
	if len(q) == 0 {
		return bad
	}
	switch q[0] {
	case 1, 2: // one AES block
		a := qLists(q[1:], 2)
		blk, err := aes.NewCipher(a[0])
		if err != nil || len(a[1]) != 16 {
			return bad
		}
		o := make([]byte, 16)
		if q[0] == 1 {
			blk.Encrypt(o, a[1])
		} else {
			blk.Decrypt(o, a[1])
		}
		return Bytes(o)
	case 3, 4: // GCM
		a := qLists(q[1:], 4)
		blk, err := aes.NewCipher(a[0])
		if err != nil {
			return bad
		}
		g, err := cipher.NewGCMWithNonceSize(blk, len(a[1]))
		if err != nil {
			return bad
		}
		if q[0] == 3 {
			return Bytes(g.Seal(nil, a[1], a[2], a[3]))
		}
		p, err := g.Open(nil, a[1], a[2], a[3])
		if err != nil {
			return []int64{0}
		}
		return append([]int64{1}, Bytes(p)...)
	case 20: // long CBC messages (Run/C108.v): length and digest of the expected bytes
		return c08LongOracle(q)
	case 5, 6: // whole-message CBC without padding
		a := qLists(q[1:], 3)
		blk, err := aes.NewCipher(a[0])
		if err != nil || len(a[1]) != 16 || len(a[2])%16 != 0 {
			return bad
		}
		o := make([]byte, len(a[2]))
		if q[0] == 5 {
			cipher.NewCBCEncrypter(blk, a[1]).CryptBlocks(o, a[2])
		} else {
			cipher.NewCBCDecrypter(blk, a[1]).CryptBlocks(o, a[2])
		}
		return Bytes(o)
	}
	return stdOracleC09(q)
}

// ---- generators
func rbytes(t *T, n int) []byte {
	b := make([]byte, n)
	for i := range b {
		b[i] = byte(t.R.Intn(256))
	}
	return b
}

// layout: 0 dst before src, 1 src before dst, 2 same offset (pre-grown / in place). Returns mem, doff, soff.
func c08Layout(t *T, layout int, dlen int, src []byte) ([]byte, int, int) {
	g0, g1, g2 := t.R.Intn(4), t.R.Intn(4), t.R.Intn(4)
	switch layout {
	case 0:
		mem := rbytes(t, g0+dlen+g1+len(src)+g2)
		copy(mem[g0+dlen+g1:], src)
		return mem, g0, g0 + dlen + g1
	case 1:
		mem := rbytes(t, g0+len(src)+g1+dlen+g2)
		copy(mem[g0:], src)
		return mem, g0 + len(src) + g1, g0
	default:
		n := dlen
		if len(src) > n {
			n = len(src)
		}
		mem := rbytes(t, g0+n+g2)
		copy(mem[g0:], src)
		return mem, g0, g0
	}
}

func stdCBC(key, iv, data []byte, enc bool) []byte {
	blk, _ := aes.NewCipher(key)
	o := make([]byte, len(data))
	if enc {
		cipher.NewCBCEncrypter(blk, iv).CryptBlocks(o, data)
	} else {
		cipher.NewCBCDecrypter(blk, iv).CryptBlocks(o, data)
	}
	return o
}
func pkcs7Ref(p []byte, bs int) []byte {
	k := bs - len(p)%bs
	o := append([]byte{}, p...)
	for i := 0; i < k; i++ {
		o = append(o, byte(k))
	}
	return o
}

var c08KeySizes = []int{16, 24, 32}

func c08Gen(c *Ctx) {
	c08LongGen(c) // long CBC messages (harness/c08long.go, Run/C108.v)
	// A. length helpers
	c.Each(4*c.N(260, 3000), func(i int, t *T) {
		w, n := int64(i%4), int64(i/4)
		if n > 200 {
			n = int64(t.R.Intn(100000))
		}
		t.Try("len", c08Case(0, w, n, 0, 0, 0, nil, nil, nil, nil), n > 0)
	})
	// B. CBC encrypt: keys 16/24/32 x lengths 0..80 x three layouts, exact destination length
	maxLen := c.N(80, 200)
	c.Each(3*(maxLen+1)*3, func(i int, t *T) {
		ks := c08KeySizes[i%3]
		n := (i / 3) % (maxLen + 1)
		layout := i / (3 * (maxLen + 1))
		plain := rbytes(t, n)
		dlen := n + 16 - n%16
		mem, doff, soff := c08Layout(t, layout, dlen, plain)
		t.C.Count("cbc-enc-layout", fmt.Sprint(layout))
		t.Try("cbc-encrypt", c08Case(1, int64(doff), int64(dlen), int64(soff), int64(n), 0, mem, rbytes(t, ks), rbytes(t, 16), nil), true)
	})
	// C. CBC decrypt of well-formed messages (made with the standard library), three layouts
	c.Each(3*(maxLen+1)*3, func(i int, t *T) {
		ks := c08KeySizes[i%3]
		n := (i / 3) % (maxLen + 1)
		layout := i / (3 * (maxLen + 1))
		key, iv := rbytes(t, ks), rbytes(t, 16)
		ct := stdCBC(key, iv, pkcs7Ref(rbytes(t, n), 16), true)
		mem, doff, soff := c08Layout(t, layout, len(ct), ct)
		t.C.Count("cbc-dec-layout", fmt.Sprint(layout))
		t.Try("cbc-decrypt-valid", c08Case(2, int64(doff), int64(len(ct)), int64(soff), int64(len(ct)), 0, mem, key, iv, nil), true)
	})
	// D. un-padding inside CBC decryption, small scope exhaustive over the shape of the last block:
	//    last byte v in {0..18, 32, 255}, the other 15 bytes: all equal to v, or equal to v except one position, or random
	lastVals := []int{0, 1, 2, 3, 4, 5, 6, 7, 8, 9, 10, 11, 12, 13, 14, 15, 16, 17, 18, 32, 255}
	c.Each(len(lastVals)*18*2, func(i int, t *T) {
		v := lastVals[i%len(lastVals)]
		variant := (i / len(lastVals)) % 18 // 0: all v; 1..15: position 16-variant-1 flipped; 16: random prefix; 17: all v but 17 bytes run across blocks
		nblocks := 1 + i/(len(lastVals)*18)
		p := rbytes(t, 16*nblocks)
		last := p[len(p)-16:]
		switch {
		case variant == 0 || variant == 17:
			for j := range last {
				last[j] = byte(v)
			}
			if variant == 17 && nblocks > 1 {
				p[len(p)-17] = byte(v)
			}
		case variant <= 15:
			for j := range last {
				last[j] = byte(v)
			}
			last[15-variant] ^= byte(1 + t.R.Intn(255))
		default:
			last[15] = byte(v)
		}
		key, iv := rbytes(t, c08KeySizes[i%3]), rbytes(t, 16)
		ct := stdCBC(key, iv, p, true)
		layout := t.R.Intn(3)
		mem, doff, soff := c08Layout(t, layout, len(ct), ct)
		t.C.Count("cbc-unpad-last", fmt.Sprint(v))
		t.Try("cbc-decrypt-unpad-scope", c08Case(2, int64(doff), int64(len(ct)), int64(soff), int64(len(ct)), 0, mem, key, iv, nil), true)
	})
	// D2. two (or three) wrong bytes in the last block: every pair of positions for paddings of 2..16 bytes, the two bytes changed
	//     by the SAME xor difference, by different ones, or swapped to each other's value (comparisons done on words and
	//     folded with xor / or, sums, or a running mask can cancel pairs that no single wrong byte shows)
	var pairs [][3]int
	for n := 2; n <= 16; n++ {
		for a := 16 - n; a < 15; a++ {
			for b := a + 1; b < 15; b++ {
				pairs = append(pairs, [3]int{n, a, b})
			}
		}
	}
	c.Each(len(pairs)*3, func(i int, t *T) {
		pr := pairs[i%len(pairs)]
		mode := i / len(pairs)
		nblocks := 1 + t.R.Intn(2)
		p := rbytes(t, 16*nblocks)
		last := p[len(p)-16:]
		for j := 16 - pr[0]; j < 16; j++ {
			last[j] = byte(pr[0])
		}
		d := byte(1 + t.R.Intn(255))
		switch mode {
		case 0:
			last[pr[1]] ^= d
			last[pr[2]] ^= d
		case 1:
			last[pr[1]] ^= d
			last[pr[2]] ^= byte(1 + t.R.Intn(255))
		default:
			last[pr[1]] += d
			last[pr[2]] -= d
		}
		key, iv := rbytes(t, c08KeySizes[i%3]), rbytes(t, 16)
		ct := stdCBC(key, iv, p, true)
		mem, doff, soff := c08Layout(t, t.R.Intn(3), len(ct), ct)
		t.Try("cbc-decrypt-unpad-two-wrong-bytes", c08Case(2, int64(doff), int64(len(ct)), int64(soff), int64(len(ct)), 0, mem, key, iv, nil), true)
	})
	// E. misuse and error paths of the CBC pair
	badKeys := []int{0, 1, 15, 17, 23, 25, 31, 33, 48, 64}
	c.Each(c.N(600, 6000), func(i int, t *T) {
		kind := int64(1 + i%2)
		ks := c08KeySizes[t.R.Intn(3)]
		ivl := 16
		n := t.R.Intn(50)
		slen := n
		dlen := n + 16 - n%16
		if kind == 2 {
			slen = 16 * (1 + t.R.Intn(3))
			dlen = slen
		}
		fam := ""
		switch i % 7 {
		case 0:
			ks = badKeys[t.R.Intn(len(badKeys))]
			fam = "bad-key"
		case 1:
			ivl = []int{0, 1, 15, 17, 32}[t.R.Intn(5)]
			fam = "bad-iv"
		case 2:
			dlen -= 1 + t.R.Intn(17)
			if dlen < 0 {
				dlen = 0
			}
			fam = "dst-short"
		case 3:
			dlen += 1 + t.R.Intn(33)
			fam = "dst-long"
		case 4:
			if kind == 2 {
				slen = []int{0, 1, 15, 17, 31, 33, 47}[t.R.Intn(7)]
				dlen = slen
			}
			fam = "ct-length"
		case 5:
			fam = "inexact-overlap"
		default:
			ks = badKeys[t.R.Intn(len(badKeys))]
			slen = []int{0, 1, 15, 17}[t.R.Intn(4)]
			fam = "bad-key+length"
		}
		src := rbytes(t, slen)
		var mem []byte
		var doff, soff int
		if fam == "inexact-overlap" {
			mem = rbytes(t, dlen+slen+40)
			soff = 17
			doff = soff + []int{-1, 1, 3, 16, -16, -15}[t.R.Intn(6)]
			copy(mem[soff:], src)
		} else {
			mem, doff, soff = c08Layout(t, t.R.Intn(3), dlen, src)
		}
		t.C.Count("cbc-misuse", fam)
		t.Try("cbc-misuse", c08Case(kind, int64(doff), int64(dlen), int64(soff), int64(slen), 0, mem, rbytes(t, ks), rbytes(t, ivl), nil), true)
	})
	// F. GCM encrypt / decrypt of well-formed messages
	nonceLens := []int{12, 12, 12, 1, 8, 13, 16}
	c.Each(3*(maxLen+1)*2, func(i int, t *T) {
		ks := c08KeySizes[i%3]
		n := (i / 3) % (maxLen + 1)
		dec := i/(3*(maxLen+1)) == 1
		key, nonce, ad := rbytes(t, ks), rbytes(t, nonceLens[t.R.Intn(len(nonceLens))]), rbytes(t, t.R.Intn(20))
		plain := rbytes(t, n)
		layout := t.R.Intn(3)
		if !dec {
			mem, doff, soff := c08Layout(t, layout, n+16, plain)
			t.Try("gcm-encrypt", c08Case(3, int64(doff), int64(n+16), int64(soff), int64(n), 0, mem, key, nonce, ad), true)
		} else {
			blk, _ := aes.NewCipher(key)
			g, _ := cipher.NewGCMWithNonceSize(blk, len(nonce))
			ct := g.Seal(nil, nonce, plain, ad)
			mem, doff, soff := c08Layout(t, layout, n, ct)
			t.Try("gcm-decrypt-valid", c08Case(4, int64(doff), int64(n), int64(soff), int64(len(ct)), 0, mem, key, nonce, ad), true)
		}
	})
	// G. every single-bit corruption of ciphertext, tag, nonce and additional data must be rejected
	nmsg := c.N(6, 40)
	type gmsg struct {
		key, nonce, ad, ct []byte
		n                  int
	}
	msgs := make([]gmsg, nmsg)
	total := 0
	c.Each(1, func(_ int, t *T) {
		for j := range msgs {
			n := []int{0, 1, 5, 16, 17, 33}[j%6]
			key, nonce, ad := rbytes(t, c08KeySizes[j%3]), rbytes(t, 12), rbytes(t, []int{0, 3, 16}[j%3])
			blk, _ := aes.NewCipher(key)
			g, _ := cipher.NewGCM(blk)
			msgs[j] = gmsg{key, nonce, ad, g.Seal(nil, nonce, rbytes(t, n), ad), n}
			total += 8 * (len(msgs[j].ct) + 12 + len(ad))
		}
	})
	offs := make([]int, nmsg+1)
	for j := range msgs {
		offs[j+1] = offs[j] + 8*(len(msgs[j].ct)+12+len(msgs[j].ad))
	}
	c.Each(total, func(i int, t *T) {
		j := 0
		for offs[j+1] <= i {
			j++
		}
		bit := i - offs[j]
		m := msgs[j]
		ct, nonce, ad := append([]byte{}, m.ct...), append([]byte{}, m.nonce...), append([]byte{}, m.ad...)
		where := ""
		switch {
		case bit < 8*len(ct):
			ct[bit/8] ^= 1 << (bit % 8)
			where = "ciphertext"
			if bit/8 >= m.n {
				where = "tag"
			}
		case bit < 8*(len(ct)+12):
			b := bit - 8*len(ct)
			nonce[b/8] ^= 1 << (b % 8)
			where = "nonce"
		default:
			b := bit - 8*(len(ct)+12)
			ad[b/8] ^= 1 << (b % 8)
			where = "ad"
		}
		mem, doff, soff := c08Layout(t, t.R.Intn(3), m.n, ct)
		t.C.Count("gcm-bitflip", where)
		t.Try("gcm-single-bit-corruption", c08Case(4, int64(doff), int64(m.n), int64(soff), int64(len(ct)), 1, mem, m.key, nonce, ad), true)
	})
	// H. GCM misuse: keys, nonce lengths (0 is refused), short ciphertext, destination sizes, inexact overlap
	c.Each(c.N(500, 5000), func(i int, t *T) {
		kind := int64(3 + i%2)
		ks := c08KeySizes[t.R.Intn(3)]
		nl := 12
		n := t.R.Intn(40)
		slen, dlen := n, n+16
		if kind == 4 {
			slen, dlen = n+16, n
		}
		fam := ""
		switch i % 6 {
		case 0:
			ks = badKeys[t.R.Intn(len(badKeys))]
			fam = "bad-key"
		case 1:
			nl = []int{0, 0, 1, 7, 13, 32}[t.R.Intn(6)]
			fam = "nonce-len"
		case 2:
			if kind == 4 {
				slen = t.R.Intn(16)
				dlen = 0
			}
			fam = "short-ct"
		case 3:
			dlen -= 1 + t.R.Intn(8)
			if dlen < 0 {
				dlen = 0
			}
			fam = "dst-short"
		case 4:
			dlen += 1 + t.R.Intn(20)
			fam = "dst-long"
		default:
			fam = "inexact-overlap"
		}
		key, nonce, ad := rbytes(t, ks), rbytes(t, nl), rbytes(t, t.R.Intn(6))
		src := rbytes(t, slen)
		if kind == 4 && t.R.Intn(2) == 0 {
			if blk, err := aes.NewCipher(key); err == nil && nl > 0 && slen >= 16 {
				g, _ := cipher.NewGCMWithNonceSize(blk, nl)
				src = g.Seal(nil, nonce, rbytes(t, slen-16), ad)
			}
		}
		var mem []byte
		var doff, soff int
		if fam == "inexact-overlap" {
			mem = rbytes(t, dlen+slen+40)
			soff = 17
			doff = soff + []int{-1, 1, 3, 16, -16, -15}[t.R.Intn(6)]
			copy(mem[soff:], src)
		} else {
			mem, doff, soff = c08Layout(t, t.R.Intn(3), dlen, src)
		}
		t.C.Count("gcm-misuse", fam)
		t.Try("gcm-misuse", c08Case(kind, int64(doff), int64(dlen), int64(soff), int64(slen), 0, mem, key, nonce, ad), true)
	})
	// I. standalone PKCS#7: every byte string of length <= L over {0,1,2,3,16,17,255} x block sizes
	alpha := []byte{0, 1, 2, 3, 16, 17, 255}
	bss := []int64{-1, 0, 1, 2, 3, 4, 8, 16, 17, 255, 256, 300}
	L := c.N(3, 5)
	nstr := 0
	pw := 1
	for l := 0; l <= L; l++ {
		nstr += pw
		pw *= len(alpha)
	}
	c.Each(nstr*len(bss)*2, func(i int, t *T) {
		kind := int64(5 + i%2)
		bs := bss[(i/2)%len(bss)]
		k := i / (2 * len(bss))
		l, p := 0, 1
		for k >= p {
			k -= p
			p *= len(alpha)
			l++
		}
		d := make([]byte, l)
		for j := range d {
			d[j] = alpha[k%len(alpha)]
			k /= len(alpha)
		}
		t.Try("pkcs7-small-scope", c08Case(kind, bs, 0, 0, 0, 0, d, nil, nil, nil), l > 0 && bs > 0)
	})
	c.SetExhaustive()
	c.Note(fmt.Sprintf("exhaustive part: PKCS7Padding/PKCS7UnPadding on every byte string of length <= %d over {0,1,2,3,16,17,255} x block sizes %v", L, bss))
	// J. standalone PKCS#7/PKCS#5, random: round trips, near-valid paddings, truncating block sizes
	c.Each(c.N(6000, 100000), func(i int, t *T) {
		bs := 1 + t.R.Intn(255)
		switch t.R.Intn(8) {
		case 0:
			bs = []int{256, 257, 258, 300, 511, 512, 513, 1000}[t.R.Intn(8)]
		case 1:
			bs = []int{1, 2, 8, 16, 255}[t.R.Intn(5)]
		case 2:
			bs = -t.R.Intn(3)
		}
		n := t.R.Intn(3 * 40)
		if bs > 0 && t.R.Intn(3) == 0 {
			n = bs*t.R.Intn(4) + []int{-1, 0, 1}[t.R.Intn(3)]
			if n < 0 {
				n = 0
			}
		}
		d := rbytes(t, n)
		kind := int64(5)
		fam := "pkcs7-pad"
		switch i % 4 {
		case 1, 2: // unpad a (possibly damaged) padded buffer
			kind = 6
			fam = "pkcs7-unpad"
			if bs > 0 && len(d) > 0 {
				d = pkcs7Ref(d, bs) // byte(k) truncation for bs > 255 is what Go does as well
				switch t.R.Intn(5) {
				case 0:
					d[len(d)-1-t.R.Intn(minInt(len(d), 1+int(d[len(d)-1])))] ^= byte(1 + t.R.Intn(255))
					fam = "pkcs7-unpad-damaged"
				case 1:
					d = d[:len(d)-1]
					fam = "pkcs7-unpad-truncated"
				case 2:
					d[len(d)-1] = byte(t.R.Intn(256))
					fam = "pkcs7-unpad-lastbyte"
				}
			}
		case 3:
			kind = int64(7 + t.R.Intn(2))
			fam = "pkcs5"
			if kind == 8 && len(d) > 0 && t.R.Intn(4) != 0 {
				d = pkcs7Ref(d, 8)
				if t.R.Intn(4) == 0 {
					d[len(d)-1-t.R.Intn(8)] ^= 1
				}
			}
		}
		t.Try(fam, c08Case(kind, int64(bs), 0, 0, 0, 0, d, nil, nil, nil), len(d) > 0 && bs > 0)
	})
}

func minInt(a, b int) int {
	if a < b {
		return a
	}
	return b
}

func c08Describe(in []int64) string {
	if len(in) < 6 {
		return "?"
	}
	if c08IsLong(in) {
		return c08LongDescribe(in)
	}
	names := []string{"Len", "AESCBCEncrypt", "AESCBCDecrypt", "AESGCMEncrypt", "AESGCMDecrypt", "PKCS7Padding", "PKCS7UnPadding", "PKCS5Padding", "PKCS5UnPadding"}
	k := int(in[0])
	if k < 0 || k >= len(names) {
		return "?"
	}
	l1, r := GetList(in[6:])
	l2, r := GetList(r)
	l3, r := GetList(r)
	l4, _ := GetList(r)
	switch {
	case k == 0:
		return fmt.Sprintf("%s helper %d on a value of length %d", names[k], in[1], in[2])
	case k <= 4:
		return fmt.Sprintf("%s: backing array of %d bytes, dst = mem[%d:%d], src = mem[%d:%d], key %x, iv/nonce %x, ad %x, mustfail=%d, src bytes %x",
			names[k], len(l1), in[1], in[1]+in[2], in[3], in[3]+in[4], ToBytes(l2), ToBytes(l3), ToBytes(l4), in[5], ToBytes(l1)[minInt(int(in[3]), len(l1)):minInt(int(in[3]+in[4]), len(l1))])
	default:
		return fmt.Sprintf("%s(%x, blockSize %d)", names[k], ToBytes(l1), in[1])
	}
}

// shrink: drop bytes of the data of the PKCS kinds; for the AES kinds shorten the message by whole blocks
func c08Shrink(in []int64) [][]int64 {
	if len(in) < 6 || c08IsLong(in) {
		return nil
	}
	var out [][]int64
	l1, r := GetList(in[6:])
	l2, r := GetList(r)
	l3, r := GetList(r)
	l4, _ := GetList(r)
	mk := func(a, b, c, d int64, m []int64) []int64 {
		return c08Case(in[0], a, b, c, d, in[5], ToBytes(m), ToBytes(l2), ToBytes(l3), ToBytes(l4))
	}
	if in[0] >= 5 {
		for i := range l1 {
			m := append(append([]int64{}, l1[:i]...), l1[i+1:]...)
			out = append(out, mk(in[1], 0, 0, 0, m))
		}
		if in[1] > 1 {
			out = append(out, mk(in[1]/2, 0, 0, 0, l1), mk(in[1]-1, 0, 0, 0, l1))
		}
		return out
	}
	// zero the bytes outside the two views
	z := append([]int64{}, l1...)
	changed := false
	for i := range z {
		ins := (int64(i) >= in[1] && int64(i) < in[1]+in[2]) || (int64(i) >= in[3] && int64(i) < in[3]+in[4])
		if !ins && z[i] != 0 {
			z[i] = 0
			changed = true
		}
	}
	if changed {
		out = append(out, mk(in[1], in[2], in[3], in[4], z))
	}
	return out
}

func init() {
	Register(&Prop{ID: "C08", Pure: true, Num: 8, SpecMode: "rel", Gen: c08Gen, Impl: c08Impl, Oracle: stdOracle,
		Shrink: c08Shrink, Describe: c08Describe, NumOf: c08NumOf, XProj: c08XProj,
		Rule: "LONG CBC messages (kinds 11/12, Run/C108.v): AESCBCEncrypt / AESCBCDecrypt on every length 1 MiB-16 .. 1 MiB+33, 2 MiB+5 and lengths around 2^16..2^19 (thorough: up to 16 MiB), dst separate / in place / with spare capacity / nil, the text generated from a seed on both sides, every output byte judged through length + FNV-1a 64 against the standard library's whole-message CBC, the model side on code and length; length helpers on 0..200 and random lengths; AESCBCEncrypt/AESCBCDecrypt/AESGCMEncrypt/AESGCMDecrypt with keys of 16/24/32 bytes, every message length 0..80 (thorough 0..200), three memory layouts (dst before src, src before dst, same start = documented in-place use) inside one backing array whose whole final content is compared; un-padding inside CBC decryption for every last-byte value in {0..18,32,255} x {all pad bytes right, one pad byte wrong at each position, random}; misuse (bad key sizes, IV/nonce lengths, short/long dst, inexact overlap, illegal ciphertext lengths); every single-bit corruption of ciphertext, tag, nonce, additional data of GCM messages (must be rejected); PKCS7Padding/UnPadding exhaustively on short strings over {0,1,2,3,16,17,255} x block sizes {-1,0,1,2,3,4,8,16,17,255,256,300} and randomly (round trips, damaged paddings, block sizes > 255, PKCS5). The model computes with the real AES/GCM through the oracle table; the judge uses cipher.NewCBCEncrypter/Decrypter and GCM Seal/Open of the standard library as the specification. distinct = distinct case; non-trivial = the case gets past the first argument guard (non-empty data / positive block size / any AES case)"})
}
