// Un-instrumented stress of the real SyncList under the Go race detector (supporting evidence for C11's runtime residue).
package racecheck

import (
	"os"
	"runtime"
	"sync"
	"sync/atomic"
	"testing"
	"time"

	"github.com/welllog/golib/listz"
)

func TestSyncListRaceStress(t *testing.T) {
	iters := 20000
	if os.Getenv("VERIF_TIER") == "thorough" {
		iters = 300000
	}
	l := listz.NewSync[*int]()
	const P, C = 4, 4
	seen := make([]int32, P*iters)
	var popped int64
	var neg int32
	var wg sync.WaitGroup
	done := make(chan struct{})
	for p := 0; p < P; p++ {
		wg.Add(1)
		go func(p int) {
			defer wg.Done()
			for i := 0; i < iters; i++ {
				v := new(int)
				*v = p*iters + i
				l.Push(v)
				if i%32 == 0 && l.Len() < 0 {
					atomic.StoreInt32(&neg, 1)
				}
			}
		}(p)
	}
	var cwg sync.WaitGroup
	for c := 0; c < C; c++ {
		cwg.Add(1)
		go func() {
			defer cwg.Done()
			for {
				if l.Len() < 0 {
					atomic.StoreInt32(&neg, 1)
				}
				v, ok := l.Pop()
				if ok {
					if atomic.AddInt32(&seen[*v], 1) != 1 {
						t.Errorf("value %d popped twice", *v)
					}
					atomic.AddInt64(&popped, 1)
					continue
				}
				select {
				case <-done:
					if l.Len() == 0 {
						return
					}
				default:
				}
			}
		}()
	}
	wg.Wait()
	close(done)
	cwg.Wait()
	for {
		v, ok := l.Pop()
		if !ok {
			break
		}
		atomic.AddInt32(&seen[*v], 1)
		popped++
	}
	if popped != int64(P*iters) {
		t.Errorf("pushed %d popped %d", P*iters, popped)
	}
	if neg != 0 {
		t.Errorf("Len() was negative")
	}
	if n := l.Len(); n != 0 {
		t.Errorf("Len() = %d at the end", n)
	}
}

// Element types of size zero (struct{}, [0]int): code gated on the type parameter never runs with SyncList[*int].  Values
// carry no identity here; what can be observed is the count: Len() is never negative, Pop succeeds exactly as often as
// Push was called, and the list is empty at the end.  One slow producer, poppers polling a list that is empty most of
// the time, observers reading Len all the while.
func TestSyncListZeroSizeElements(t *testing.T) {
	dur := 700 * time.Millisecond
	if os.Getenv("VERIF_TIER") == "thorough" {
		dur = 8 * time.Second
	}
	run := func(t *testing.T, push func(), pop func() bool, length func() int) {
		var stop int32
		var neg, pushed, popped int64
		var wg sync.WaitGroup
		for c := 0; c < 4; c++ {
			wg.Add(1)
			go func() {
				defer wg.Done()
				for atomic.LoadInt32(&stop) == 0 {
					if pop() {
						atomic.AddInt64(&popped, 1)
					}
				}
			}()
		}
		wg.Add(1)
		go func() {
			defer wg.Done()
			for atomic.LoadInt32(&stop) == 0 {
				push()
				atomic.AddInt64(&pushed, 1)
				runtime.Gosched()
			}
		}()
		for o := 0; o < 2; o++ {
			wg.Add(1)
			go func() {
				defer wg.Done()
				for atomic.LoadInt32(&stop) == 0 {
					if n := length(); n < 0 {
						atomic.StoreInt64(&neg, int64(n))
					}
				}
			}()
		}
		time.Sleep(dur)
		atomic.StoreInt32(&stop, 1)
		wg.Wait()
		if n := atomic.LoadInt64(&neg); n != 0 {
			t.Errorf("Len() returned %d", n)
		}
		for pop() {
			popped++
		}
		if popped != pushed {
			t.Errorf("%d values pushed, %d popped", pushed, popped)
		}
		if n := length(); n != 0 {
			t.Errorf("Len() = %d on the drained list", n)
		}
	}
	t.Run("struct{}", func(t *testing.T) {
		l := listz.NewSync[struct{}]()
		run(t, func() { l.Push(struct{}{}) }, func() bool { _, ok := l.Pop(); return ok }, l.Len)
	})
	// element types that cannot be compared with == (func, slice, map): code that compares values panics on them
	t.Run("func()", func(t *testing.T) {
		l := listz.NewSync[func() int]()
		run(t, func() { l.Push(func() int { return 1 }) }, func() bool { f, ok := l.Pop(); return ok && f() == 1 }, l.Len)
	})
	t.Run("[]byte", func(t *testing.T) {
		l := listz.NewSync[[]byte]()
		run(t, func() { l.Push([]byte{1, 2}) }, func() bool { b, ok := l.Pop(); return ok && len(b) == 2 }, l.Len)
	})
	t.Run("map", func(t *testing.T) {
		l := listz.NewSync[map[int]int]()
		run(t, func() { l.Push(map[int]int{1: 1}) }, func() bool { m, ok := l.Pop(); return ok && m[1] == 1 }, l.Len)
	})
	t.Run("[0]int", func(t *testing.T) {
		l := listz.NewSync[[0]int]()
		run(t, func() { l.Push([0]int{}) }, func() bool { _, ok := l.Pop(); return ok }, l.Len)
	})
}
