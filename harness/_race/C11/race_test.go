// Un-instrumented stress of the real SyncList under the Go race detector (supporting evidence for C11's runtime residue).
package racecheck

import (
	"os"
	"sync"
	"sync/atomic"
	"testing"

	"github.com/welllog/golib/listz"
)

func TestSyncListRaceStress(t *testing.T) {
	iters := 20000
	if os.Getenv("VERIF_TIER") == "thorough" {
		iters = 300000
	}
	l := listz.NewSync[*int]()
	const P, C = 4, 4
	seen := make([]int32, P*iters)
	var popped int64
	var neg int32
	var wg sync.WaitGroup
	done := make(chan struct{})
	for p := 0; p < P; p++ {
		wg.Add(1)
		go func(p int) {
			defer wg.Done()
			for i := 0; i < iters; i++ {
				v := new(int)
				*v = p*iters + i
				l.Push(v)
				if i%32 == 0 && l.Len() < 0 {
					atomic.StoreInt32(&neg, 1)
				}
			}
		}(p)
	}
	var cwg sync.WaitGroup
	for c := 0; c < C; c++ {
		cwg.Add(1)
		go func() {
			defer cwg.Done()
			for {
				if l.Len() < 0 {
					atomic.StoreInt32(&neg, 1)
				}
				v, ok := l.Pop()
				if ok {
					if atomic.AddInt32(&seen[*v], 1) != 1 {
						t.Errorf("value %d popped twice", *v)
					}
					atomic.AddInt64(&popped, 1)
					continue
				}
				select {
				case <-done:
					if l.Len() == 0 {
						return
					}
				default:
				}
			}
		}()
	}
	wg.Wait()
	close(done)
	cwg.Wait()
	for {
		v, ok := l.Pop()
		if !ok {
			break
		}
		atomic.AddInt32(&seen[*v], 1)
		popped++
	}
	if popped != int64(P*iters) {
		t.Errorf("pushed %d popped %d", P*iters, popped)
	}
	if neg != 0 {
		t.Errorf("Len() was negative")
	}
	if n := l.Len(); n != 0 {
		t.Errorf("Len() = %d at the end", n)
	}
}
