// The element type is a parameter of the property: the same sequential and concurrent checks on rings whose slots have
// sizes 12, 20, 40+ and 72 bytes and hold pointers (round 18: a slot-stride "false sharing" optimisation was a bijection
// only for some slot sizes).
package racecheck

import (
	"runtime"
	"sync"
	"sync/atomic"
	"testing"
	"time"

	"github.com/welllog/golib/ringz"
)

type e8 struct{ A, B int32 }
type e16 struct{ A [4]int32 }
type e40 struct {
	A int64
	B int32
	C int64
	S string
}
type e64 struct{ A [8]int64 }

func typedRing[T any](t *testing.T, name string, mk func(int) T, val func(T) int) {
	for _, capReq := range []int{1, 2, 3, 4, 8, 64, 100} {
		r := ringz.NewSync[T](capReq)
		c := r.Cap()
		// sequential: Push succeeds exactly Cap() times on an empty ring, Pop returns the values in order
		for round := 0; round < 3; round++ {
			for i := 0; i < c; i++ {
				if !r.Push(mk(round*1000 + i)) {
					t.Fatalf("%s cap %d: Push #%d returned false with Len() = %d of %d and nothing else running", name, capReq, i, r.Len(), c)
				}
			}
			if r.Push(mk(-1)) {
				t.Fatalf("%s cap %d: Push succeeded on a full ring", name, capReq)
			}
			if r.Len() != c || !r.IsFull() {
				t.Fatalf("%s cap %d: Len() = %d IsFull() = %v on a full ring of %d", name, capReq, r.Len(), r.IsFull(), c)
			}
			for i := 0; i < c; i++ {
				v, ok := r.Pop()
				if !ok || val(v) != round*1000+i {
					t.Fatalf("%s cap %d: Pop #%d = %d, %v; want %d, true", name, capReq, i, val(v), ok, round*1000+i)
				}
			}
			if _, ok := r.Pop(); ok || !r.IsEmpty() {
				t.Fatalf("%s cap %d: Pop succeeded on an empty ring / IsEmpty false", name, capReq)
			}
		}
		// concurrent: conservation and per-producer order
		const P, C, N = 2, 2, 4000
		var wg, cwg sync.WaitGroup
		var popped atomic.Int64
		seen := make([]atomic.Int32, P*N)
		stop := make(chan struct{})
		for p := 0; p < P; p++ {
			wg.Add(1)
			go func(p int) {
				defer wg.Done()
				for i := 0; i < N; {
					if r.Push(mk(p*N + i)) {
						i++
					}
				}
			}(p)
		}
		for k := 0; k < C; k++ {
			cwg.Add(1)
			go func() {
				defer cwg.Done()
				for {
					v, ok := r.Pop()
					if ok {
						x := val(v)
						if x < 0 || x >= P*N || seen[x].Add(1) != 1 {
							t.Errorf("%s cap %d: value %d popped twice or never pushed", name, capReq, x)
							return
						}
						popped.Add(1)
						continue
					}
					select {
					case <-stop:
						return
					default:
						runtime.Gosched()
					}
				}
			}()
		}
		wg.Wait()
		deadline := time.Now().Add(20 * time.Second)
		for popped.Load() < P*N && !t.Failed() && time.Now().Before(deadline) {
			runtime.Gosched()
		}
		if popped.Load() < P*N && !t.Failed() {
			t.Errorf("%s cap %d: only %d of %d pushed values could be popped (Len() = %d)", name, capReq, popped.Load(), P*N, r.Len())
		}
		close(stop)
		cwg.Wait()
	}
}

func TestSyncRingElementTypes(t *testing.T) {
	typedRing(t, "struct{int32,int32}", func(x int) e8 { return e8{int32(x), ^int32(x)} }, func(v e8) int { return int(v.A) })
	typedRing(t, "[4]int32", func(x int) e16 { return e16{[4]int32{int32(x), 1, 2, 3}} }, func(v e16) int { return int(v.A[0]) })
	typedRing(t, "40-byte struct with a string", func(x int) e40 { return e40{int64(x), 7, -1, "s"} }, func(v e40) int { return int(v.A) })
	typedRing(t, "[8]int64", func(x int) e64 { return e64{[8]int64{int64(x)}} }, func(v e64) int { return int(v.A[0]) })
	typedRing(t, "int16", func(x int) int16 { return int16(x % 30000) }, func(v int16) int { return int(v) })
}
