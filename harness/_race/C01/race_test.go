// Un-instrumented stress of the real SyncRing under the Go race detector (supporting evidence for the runtime
// residue of C01: data races in the sense of the Go memory model are outside the step model).
// Also checks conservation: every value pushed successfully is popped exactly once or still in the ring.
package racecheck

import (
	"os"
	"sync"
	"sync/atomic"
	"testing"

	"github.com/welllog/golib/ringz"
)

func TestSyncRingRaceStress(t *testing.T) {
	iters := 20000
	if os.Getenv("VERIF_TIER") == "thorough" {
		iters = 400000
	}
	for _, capReq := range []int{1, 2, 4, 64} {
		r := ringz.NewSync[*int](capReq)
		const P, C = 4, 4
		var pushed, popped int64
		seen := make([][]int32, P)
		for i := range seen {
			seen[i] = make([]int32, iters)
		}
		var wg sync.WaitGroup
		done := make(chan struct{})
		for p := 0; p < P; p++ {
			wg.Add(1)
			go func(p int) {
				defer wg.Done()
				for i := 0; i < iters; i++ {
					v := new(int)
					*v = p*iters + i // plain write before the push: must be visible to the popper
					if r.Push(v) {
						atomic.AddInt64(&pushed, 1)
					} else {
						atomic.StoreInt32(&seen[p][i], -1) // not pushed
					}
					if i%64 == 0 {
						_ = r.Len()
						_ = r.IsFull()
					}
				}
			}(p)
		}
		var cwg sync.WaitGroup
		for c := 0; c < C; c++ {
			cwg.Add(1)
			go func() {
				defer cwg.Done()
				for {
					v, ok := r.Pop()
					if ok {
						x := *v // plain read of what the pusher wrote
						if atomic.AddInt32(&seen[x/iters][x%iters], 1) != 1 {
							t.Errorf("value %d popped twice or never pushed", x)
						}
						atomic.AddInt64(&popped, 1)
						continue
					}
					select {
					case <-done:
						if r.IsEmpty() {
							return
						}
					default:
					}
				}
			}()
		}
		wg.Wait()
		close(done)
		cwg.Wait()
		for {
			v, ok := r.Pop()
			if !ok {
				break
			}
			atomic.AddInt32(&seen[*v / iters][*v%iters], 1)
			popped++
		}
		if pushed != popped {
			t.Errorf("cap %d: pushed %d popped %d", capReq, pushed, popped)
		}
		if l := r.Len(); l != 0 {
			t.Errorf("cap %d: Len() = %d at the end", capReq, l)
		}
	}
}

// "Every capacity": one goroutine fills and drains rings whose REQUESTED capacity lies far from the small ones of the
// step-model cases (a ring of 2^17 or more slots is beyond the list-based model).  Push must succeed exactly Cap()
// times on an empty ring (Cap() >= the request), fail when full, and Pop must return the values in order.
func TestSyncRingLargeCapacities(t *testing.T) {
	reqs := []int{65537, 70000, 131071, 131073, 131074, 196609}
	if os.Getenv("VERIF_TIER") == "thorough" {
		reqs = append(reqs, 65538, 98305, 100000, 163841, 262145, 262148, 300000, 393217, 524289, 1048577, 2097153)
	}
	for _, req := range reqs {
		r := ringz.NewSync[int32](req)
		c := r.Cap()
		if c < req {
			t.Errorf("NewSync(%d): Cap() = %d is below the request", req, c)
			continue
		}
		n := 0
		for n <= c && r.Push(int32(n+1)) {
			n++
		}
		if n != c {
			t.Errorf("NewSync(%d): %d pushes succeeded on an empty ring, Cap() = %d", req, n, c)
		}
		if r.Len() != n && n <= c {
			t.Errorf("NewSync(%d): Len() = %d after %d successful pushes", req, r.Len(), n)
		}
		for i := 0; i < n; i++ {
			v, ok := r.Pop()
			if !ok || v != int32(i+1) {
				t.Errorf("NewSync(%d): Pop #%d = (%d, %v), want (%d, true): a stored value was lost or reordered", req, i+1, v, ok, i+1)
				break
			}
		}
	}
}
