// Un-instrumented stress of the real SyncRing under the Go race detector (supporting evidence for the runtime
// residue of C01: data races in the sense of the Go memory model are outside the step model).
// Also checks conservation: every value pushed successfully is popped exactly once or still in the ring.
package racecheck

import (
	"os"
	"sync"
	"sync/atomic"
	"testing"

	"github.com/welllog/golib/ringz"
)

func TestSyncRingRaceStress(t *testing.T) {
	iters := 20000
	if os.Getenv("VERIF_TIER") == "thorough" {
		iters = 400000
	}
	for _, capReq := range []int{1, 2, 4, 64} {
		r := ringz.NewSync[*int](capReq)
		const P, C = 4, 4
		var pushed, popped int64
		seen := make([][]int32, P)
		for i := range seen {
			seen[i] = make([]int32, iters)
		}
		var wg sync.WaitGroup
		done := make(chan struct{})
		for p := 0; p < P; p++ {
			wg.Add(1)
			go func(p int) {
				defer wg.Done()
				for i := 0; i < iters; i++ {
					v := new(int)
					*v = p*iters + i // plain write before the push: must be visible to the popper
					if r.Push(v) {
						atomic.AddInt64(&pushed, 1)
					} else {
						atomic.StoreInt32(&seen[p][i], -1) // not pushed
					}
					if i%64 == 0 {
						_ = r.Len()
						_ = r.IsFull()
					}
				}
			}(p)
		}
		var cwg sync.WaitGroup
		for c := 0; c < C; c++ {
			cwg.Add(1)
			go func() {
				defer cwg.Done()
				for {
					v, ok := r.Pop()
					if ok {
						x := *v // plain read of what the pusher wrote
						if atomic.AddInt32(&seen[x/iters][x%iters], 1) != 1 {
							t.Errorf("value %d popped twice or never pushed", x)
						}
						atomic.AddInt64(&popped, 1)
						continue
					}
					select {
					case <-done:
						if r.IsEmpty() {
							return
						}
					default:
					}
				}
			}()
		}
		wg.Wait()
		close(done)
		cwg.Wait()
		for {
			v, ok := r.Pop()
			if !ok {
				break
			}
			atomic.AddInt32(&seen[*v / iters][*v%iters], 1)
			popped++
		}
		if pushed != popped {
			t.Errorf("cap %d: pushed %d popped %d", capReq, pushed, popped)
		}
		if l := r.Len(); l != 0 {
			t.Errorf("cap %d: Len() = %d at the end", capReq, l)
		}
	}
}
