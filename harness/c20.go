package main

import (
	crand "crypto/rand"
	"errors"
	"flag"
	"fmt"
	"math/rand"
	"sort"
	"strings"
	"sync"
	"time"
	"unicode/utf8"

	"github.com/welllog/golib/randz"
)

// C20: randz — ID text forms, IdGenerator, StrGenerator, CountGenerator.  Case = kind :: rest (see coq/Run/C20.v).
//   0 :: bytes                               ParseBase32                          -> [err hi lo]
//   1 :: hi lo                               ID: Base32, ParseBase32(Base32), Base2, Base36, String
//   2 :: rb ehi elo k gap                    IdGenerator started e ms ago, k ids, gap ms apart -> [1] (verdict of the Coq judge on the observation)
//   3 :: n :: put_list(charset) ++ (hi lo)*  StrGenerator with a scripted rand.Source (script, then zeros) -> text, number of Int63 calls
//   4 :: put_list(id) ++ nrules :: rules ++ diffs   CountGenerator: Generate, Min, Max per diff

func c20Halves(v int64) (int64, int64) { return v >> 32, v & 0xffffffff }
func c20Join(hi, lo int64) int64     { return hi<<32 + lo }

// scripted rand.Source: replays the list, then zeros; counts the calls
type c20Source struct {
	script []int64
	calls  int
}

func (s *c20Source) Int63() int64 {
	s.calls++
	if s.calls <= len(s.script) {
		return s.script[s.calls-1]
	}
	return 0
}
func (s *c20Source) Seed(int64) {}

// a failing entropy source, and the lock that keeps the swap of crypto/rand.Reader away from concurrent cases
type c20FailReader struct{}

func (c20FailReader) Read(p []byte) (int, error) { return 0, errors.New("entropy source unavailable") }

var c20SrcMu sync.RWMutex

// the extracted Coq judge for IdGenerator observations (Run/C20.v, sub 3) runs in model processes owned by this file
var (
	c20JudgeMu   sync.Mutex
	c20JudgeFree []*Model
)

func c20Judge(args []int64) []int64 {
	c20JudgeMu.Lock()
	var m *Model
	if n := len(c20JudgeFree); n > 0 {
		m = c20JudgeFree[n-1]
		c20JudgeFree = c20JudgeFree[:n-1]
	}
	c20JudgeMu.Unlock()
	if m == nil {
		m = StartModel(flag.Lookup("driver").Value.String())
	}
	out := m.Call(20, 3, args)
	c20JudgeMu.Lock()
	c20JudgeFree = append(c20JudgeFree, m)
	c20JudgeMu.Unlock()
	return out
}

func c20Impl(in []int64) []int64 {
	switch in[0] {
	case 0:
		b := ToBytes(in[1:])
		keep := append([]byte{}, b...)
		id, err := randz.ParseBase32(b[:len(b):len(b)])
		e := int64(0)
		if err != nil {
			e = 1
			if err != randz.ErrInvalidBase32 {
				e = 2
			}
		}
		if string(keep) != string(b) {
			e += 10 // the argument was modified
		}
		hi, lo := c20Halves(int64(id))
		return []int64{e, hi, lo}
	case 1:
		id := randz.ID(c20Join(in[1], in[2]))
		b32 := id.Base32()
		back, err := randz.ParseBase32([]byte(b32))
		e := int64(0)
		if err != nil {
			e = 1
		}
		hi, lo := c20Halves(back.Int64())
		out := PutList(Bytes([]byte(b32)))
		out = append(out, e, hi, lo)
		out = append(out, PutList(Bytes([]byte(id.Base2())))...)
		out = append(out, PutList(Bytes([]byte(id.Base36())))...)
		out = append(out, PutList(Bytes([]byte(id.String())))...)
		return out
	case 2:
		rb, e, k, gap := in[1], c20Join(in[2], in[3]), int(in[4]), in[5]
		// gap >= 100: the entropy source fails (crypto/rand.Reader replaced by a failing reader for the call), so
		// that Generate takes its math/rand fallback; the layout judge is the same
		failSrc := gap >= 100
		gap %= 100
		start := time.Now().Add(-time.Duration(e) * time.Millisecond)
		g := randz.NewIdGenerator(start, int(rb))
		obs := []int64{rb}
		for i := 0; i < k; i++ {
			if i > 0 && gap > 0 {
				time.Sleep(time.Duration(gap) * time.Millisecond)
			}
			var restore func()
			if failSrc {
				c20SrcMu.Lock()
				old := crand.Reader
				crand.Reader = c20FailReader{}
				restore = func() { crand.Reader = old; c20SrcMu.Unlock() }
			} else {
				c20SrcMu.RLock()
				restore = c20SrcMu.RUnlock
			}
			e0 := time.Since(start).Milliseconds()
			id := g.Generate()
			e1 := time.Since(start).Milliseconds()
			restore()
			a, b := c20Halves(id.Int64())
			c, d := c20Halves(e0)
			x, y := c20Halves(e1)
			obs = append(obs, a, b, c, d, x, y)
		}
		v := c20Judge(obs)
		if len(v) == 1 && v[0] == 1 {
			return []int64{1}
		}
		return append([]int64{0}, obs...) // the rejected observation, for the replay
	case 3:
		n := in[1]
		cs, rest := GetList(in[2:])
		src := &c20Source{}
		for i := 0; i+1 < len(rest); i += 2 {
			src.script = append(src.script, c20Join(rest[i], rest[i+1]))
		}
		g := randz.NewStrGenerator(string(ToBytes(cs)), src)
		s := g.Generate(int(n))
		return append(PutList(Bytes([]byte(s))), int64(src.calls))
	case 5, 6:
		// one generator object, several Generate calls in a row (5: a scripted source that runs on across the calls;
		// 6: the package-level randz.String, i.e. the shared default generator over randz.CHAR_SET); model and judge: Run/C120.v
		ns, cs, rest, ok := c20Multi(in)
		if !ok {
			return []int64{BADCASE}
		}
		var out []int64
		if in[0] == 6 {
			for _, n := range ns {
				out = append(out, PutList(Bytes([]byte(randz.String(int(n)))))...)
			}
			return out
		}
		src := &c20Source{}
		for i := 0; i+1 < len(rest); i += 2 {
			src.script = append(src.script, c20Join(rest[i], rest[i+1]))
		}
		g := randz.NewStrGenerator(string(ToBytes(cs)), src)
		for _, n := range ns {
			before := src.calls
			s := g.Generate(int(n))
			out = append(out, PutList(Bytes([]byte(s)))...)
			out = append(out, int64(src.calls-before))
		}
		return out
	case 4:
		idt, rest := GetList(in[1:])
		if len(rest) == 0 {
			return []int64{BADCASE}
		}
		nr := int(rest[0])
		rest = rest[1:]
		var g randz.CountGenerator
		for i := 0; i < nr && len(rest) >= 4; i++ {
			g.AddRule(int(rest[0]), int(rest[1]), int(rest[2]), int(rest[3]))
			rest = rest[4:]
		}
		id := string(ToBytes(idt))
		var out []int64
		for _, d := range rest {
			out = append(out, int64(g.Generate(id, int(d))), int64(g.Min(int(d))), int64(g.Max(int(d))))
		}
		return out
	}
	return []int64{BADCASE}
}

// kinds 5, 6: kind :: k :: n_1..n_k :: put_list charset ++ words
func c20Multi(in []int64) (ns, cs, rest []int64, ok bool) {
	if len(in) < 2 || in[1] < 0 || in[1] > 64 || int64(len(in)) < 2+in[1] {
		return nil, nil, nil, false
	}
	ns = in[2 : 2+in[1]]
	for _, n := range ns {
		if n < 0 {
			return nil, nil, nil, false
		}
	}
	cs, rest = GetList(in[2+in[1]:])
	return ns, cs, rest, true
}

// kinds 5 and 6 are evaluated by coq/Run/C120.v
func c20NumOf(in []int64) int {
	if len(in) > 0 && (in[0] == 5 || in[0] == 6) {
		return 120
	}
	return 20
}

// kind 6 (randz.String, real random source): the model predicts the number of runes of every text, the judge sees the texts
func c20XProj(in, impl []int64) []int64 {
	if len(in) == 0 || in[0] != 6 || (len(impl) == 1 && impl[0] < -1000000) {
		return impl
	}
	var out []int64
	for rest := impl; len(rest) > 0; {
		var b []int64
		b, rest = GetList(rest)
		out = append(out, int64(utf8.RuneCount(ToBytes(b))))
	}
	return out
}

const c20Alphabet = "0123456789abcdefghjkmnprstuvwxyz"

func c20Charsets() [][]rune {
	pool := []rune("abcdefghijklmnopqrstuvwxyzABCDEFGHIJKLMNOPQRSTUVWXYZ0123456789éüßñ中国語日本한글😀🎉𝄞€∑→")
	mk := func(n int, off int) []rune {
		r := make([]rune, n)
		for i := range r {
			r[i] = pool[(off+i*7)%len(pool)]
		}
		return r
	}
	var out [][]rune
	for _, n := range []int{1, 2, 3, 4, 7, 8, 15, 16, 31, 32, 33, 63, 64, 65} {
		out = append(out, mk(n, 0), mk(n, 50), mk(n, 62))
	}
	out = append(out, []rune(randz.CHAR_SET), []rune(randz.CHAR_LOWER_SET), []rune("😀"), []rune("é"), []rune("中a"))
	return out
}

func c20Gen(c *Ctx) {
	// ---- ParseBase32: exhaustive on every input of length 0, 1, 2
	c.Each(1+256+65536, func(i int, t *T) {
		in := []int64{0}
		switch {
		case i == 0:
		case i <= 256:
			in = append(in, int64(i-1))
		default:
			j := i - 257
			in = append(in, int64(j>>8), int64(j&255))
		}
		valid := true
		for _, b := range in[1:] {
			if !strings.ContainsRune(c20Alphabet, rune(b)) {
				valid = false
			}
		}
		t.C.Count("parse-exhaustive", map[bool]string{true: "all-alphabet", false: "has-foreign-byte"}[valid])
		t.Try(fmt.Sprintf("parse-exhaustive-len%d", len(in)-1), in, len(in) > 1)
	})
	c.SetExhaustive()
	c.Note("exhaustive part: ParseBase32 on the empty input, all 256 one-byte and all 65 536 two-byte inputs")
	// ---- ParseBase32: longer inputs, one foreign byte at each position, int64 wrap at 13+ characters
	near := []byte("iloqILOQ AZ_-/:@`{\x00\x7f\x80\xff!~")
	c.Each(c.N(6000, 200000), func(i int, t *T) {
		r := t.R
		n := 3 + r.Intn(13)
		in := []int64{0}
		for j := 0; j < n; j++ {
			in = append(in, int64(c20Alphabet[r.Intn(32)]))
		}
		fam := "parse-long-valid"
		switch r.Intn(4) {
		case 0:
			in[1+r.Intn(n)] = int64(near[r.Intn(len(near))])
			fam = "parse-long-one-near-miss"
		case 1:
			in[1+r.Intn(n)] = int64(r.Intn(256))
			fam = "parse-long-one-random-byte"
		case 2:
			if r.Intn(2) == 0 { // maximal digits: int64 wrap
				for j := 1; j <= n; j++ {
					in[j] = 'z'
				}
			}
		}
		if n >= 13 {
			fam += "-wraps"
		}
		t.Try(fam, in, true)
	})
	// ---- ID text forms: every bit length 0..63, boundaries of powers of 2 and 32, a few negative values
	var ids []int64
	for bl := 0; bl <= 63; bl++ {
		if bl == 0 {
			ids = append(ids, 0)
			continue
		}
		lo := int64(1) << (bl - 1)
		ids = append(ids, lo, lo+(lo-1)) // 2^(bl-1), 2^bl - 1
	}
	for p := int64(32); p > 0 && p < 1<<61; p *= 32 {
		ids = append(ids, p-1, p, p+1)
	}
	nfixed := len(ids)
	c.Each(nfixed+c.N(4000, 100000), func(i int, t *T) {
		var id int64
		fam := "format-boundary"
		if i < nfixed {
			id = ids[i]
		} else {
			bl := (i - nfixed) % 64
			fam = "format-random-bitlen"
			if bl > 0 {
				id = int64(1)<<(bl-1) | t.R.Int63n(int64(1)<<(bl-1))
			}
			if t.R.Intn(60) == 0 {
				id = -1 - t.R.Int63n(1<<40)
				fam = "format-negative(panics)"
			}
		}
		n := 0
		for v := id; v > 0; v >>= 1 {
			n++
		}
		t.C.Count("format-bitlen", fmt.Sprint(n))
		hi, lo := c20Halves(id)
		t.Try(fam, []int64{1, hi, lo}, id >= 32)
	})
	// ---- IdGenerator: elapsed time chosen around the 2^40 / 2^41 boundaries, every clamping case of randBit
	rbs := []int64{-3, 0, 1, 2, 3, 8, 16, 18, 21, 22, 23, 40}
	type ef struct {
		name string
		e    int64
	}
	es := []ef{{"e=0", 0}, {"e~1s", 1000}, {"e~1y", 31536000000}, {"e<2^40", 1<<40 - 50}, {"e=2^40", 1 << 40}, {"e>2^40", 1<<40 + 123456789},
		{"e~1.5*2^40", 3 << 39}, {"e<2^41(epoch wrap inside the run)", 1<<41 - 2}, {"e=2^41", 1 << 41}, {"e>2^41", 1<<41 + 987654321},
		{"e>2^42", 1<<42 + 5}, {"e<0(start in the future)", -5000}}
	nid := c.N(len(rbs)*len(es)*2, len(rbs)*len(es)*20)
	c.Each(nid, func(i int, t *T) {
		rb := rbs[i%len(rbs)]
		e := es[(i/len(rbs))%len(es)]
		k := 1 + t.R.Intn(4)
		gap := int64(t.R.Intn(4))
		ev := e.e
		if i >= len(rbs)*len(es) {
			ev += t.R.Int63n(1000) - 500
		}
		hi, lo := c20Halves(ev)
		t.C.Count("idgen-elapsed", e.name)
		t.C.Count("idgen-randbit", fmt.Sprint(rb))
		fam := "idgen"
		if i%3 == 2 {
			gap += 100
			fam = "idgen-entropy-source-fails"
		}
		t.Try(fam, []int64{2, rb, hi, lo, int64(k), gap}, true)
	})
	// ---- StrGenerator with scripted randomness
	css := c20Charsets()
	c.Each(c.N(12000, 300000), func(i int, t *T) {
		r := t.R
		var cs []byte
		fam := "str"
		x := r.Intn(100)
		var nr int
		switch {
		case x < 2:
			fam = "str-empty-charset(panics)"
		case x < 6: // raw bytes incl. invalid UTF-8: []rune turns each bad byte into U+FFFD
			n := 1 + r.Intn(6)
			for j := 0; j < n; j++ {
				cs = append(cs, []byte{0xff, 0x80, 'a', 0xc3, 0xa9, 0xe4, 0xb8}[r.Intn(7)])
			}
			nr = len([]rune(string(cs)))
			fam = "str-raw-bytes-charset"
		default:
			rs := css[r.Intn(len(css))]
			cs = []byte(string(rs))
			nr = len(rs)
		}
		n := int64(r.Intn(40))
		switch r.Intn(30) {
		case 0:
			n = int64(100 + r.Intn(200))
		case 1:
			n = -1 - int64(r.Intn(3))
			fam = "str-negative-n(panics)"
		case 2:
			n = 0
		}
		bits := 0
		for l := nr; l != 0; l >>= 1 {
			bits++
		}
		// script: random words, words made of chosen index fields (in range, == len, > len, all ones), short scripts
		nw := r.Intn(8)
		if r.Intn(4) == 0 {
			nw = r.Intn(40)
		}
		in := []int64{3, n}
		in = append(in, PutList(Bytes(cs))...)
		for j := 0; j < nw; j++ {
			var w int64
			switch r.Intn(5) {
			case 0, 1:
				w = r.Int63()
			case 2:
				w = 1<<63 - 1
			default:
				if bits > 0 {
					for f := 0; f < 63/bits+1; f++ {
						var idx int64
						switch r.Intn(4) {
						case 0:
							idx = int64(nr) // the first index that must be rejected
						case 1:
							idx = int64(nr) - 1
						case 2:
							idx = int64(1)<<bits - 1
						default:
							idx = r.Int63n(int64(1) << bits)
						}
						w |= (idx & (int64(1)<<bits - 1)) << (uint(f*bits) % 63)
					}
					w &= 1<<63 - 1
				}
			}
			hi, lo := c20Halves(w)
			in = append(in, hi, lo)
		}
		t.C.Count("str-charset-runes", fmt.Sprint(nr))
		t.Try(fam, in, n >= 1 && nr >= 1)
	})
	// ---- one StrGenerator object asked several times (longer then shorter, 0, equal lengths): a call must answer as a first call
	// on what is left of the source, whatever the object produced before
	c.Each(c.N(6000, 100000), func(i int, t *T) {
		r := t.R
		rs := css[r.Intn(len(css))]
		cs := []byte(string(rs))
		k := 2 + r.Intn(3)
		if r.Intn(8) == 0 {
			k = 2 + r.Intn(7)
		}
		ns := make([]int64, k)
		for j := range ns {
			switch r.Intn(6) {
			case 0:
				ns[j] = 0
			case 1:
				if j > 0 {
					ns[j] = ns[j-1]
					break
				}
				fallthrough
			case 2:
				ns[j] = int64(r.Intn(4))
			case 3:
				ns[j] = int64(20 + r.Intn(60))
			default:
				ns[j] = int64(r.Intn(24))
			}
		}
		desc := false
		for j := 1; j < k; j++ {
			desc = desc || ns[j] < ns[j-1]
		}
		if i%4 == 3 {
			// the package-level helper: randz.String on the shared default generator
			in := append([]int64{6, int64(k)}, ns...)
			in = append(in, PutList(Bytes([]byte(randz.CHAR_SET)))...)
			t.Try("str-package-level-String-several-calls", in, desc)
			return
		}
		in := append([]int64{5, int64(k)}, ns...)
		in = append(in, PutList(Bytes(cs))...)
		for j := r.Intn(10); j > 0; j-- {
			w := r.Int63()
			if r.Intn(4) == 0 {
				w = 1<<63 - 1
			}
			hi, lo := c20Halves(w)
			in = append(in, hi, lo)
		}
		t.Try("str-one-generator-several-calls", in, desc)
	})
	// ---- CountGenerator
	c.Each(c.N(8000, 200000), func(i int, t *T) {
		r := t.R
		in := []int64{4}
		idl := r.Intn(12)
		idt := make([]int64, idl)
		for j := range idt {
			idt[j] = int64(r.Intn(256))
		}
		in = append(in, PutList(idt)...)
		nr := r.Intn(6)
		if r.Intn(5) == 0 {
			nr = r.Intn(17)
		}
		small := r.Intn(3) == 0
		fam := "count-positive"
		bad := r.Intn(12) == 0
		in = append(in, int64(nr))
		var periods []int64
		used := map[int64]bool{}
		for j := 0; j < nr; j++ {
			var p int64
			for {
				if small {
					p = 1 + r.Int63n(30)
				} else {
					p = 1 + r.Int63n(5000)
				}
				if len(periods) > 0 && r.Intn(4) == 0 && nr <= 12 {
					p = periods[r.Intn(len(periods))] // tie (stable for <= 12 rules)
				}
				if nr <= 12 || !used[p] {
					break
				}
			}
			used[p] = true
			periods = append(periods, p)
			e, iv, m := 1+r.Int63n(100), 1+r.Int63n(20), 1+r.Int63n(10)
			if r.Intn(3) == 0 {
				iv = 1 + r.Int63n(p+2)
			}
			if bad && r.Intn(2) == 0 {
				fam = "count-nonpositive-parameter"
				switch r.Intn(5) {
				case 0:
					iv = 0
				case 1:
					m = 0
				case 2:
					e = 0
				case 3:
					p = -p
				default:
					m = -m
				}
			}
			in = append(in, p, e, iv, m)
		}
		var mx int64 = 3
		for _, p := range periods {
			if p > mx {
				mx = p
			}
		}
		var diffs []int64
		if small { // every diff in [-2, 2*max period]
			for d := int64(-2); d <= 2*mx; d++ {
				diffs = append(diffs, d)
			}
			fam += "-all-diffs"
		} else {
			for j := 0; j < 10; j++ {
				diffs = append(diffs, r.Int63n(2*mx+3)-2)
			}
			for _, p := range periods {
				if r.Intn(2) == 0 {
					diffs = append(diffs, p-1, p, p+1)
				}
			}
			if r.Intn(2) == 0 {
				sort.Slice(diffs, func(a, b int) bool { return diffs[a] < diffs[b] })
			}
		}
		in = append(in, diffs...)
		t.C.Count("count-rules", fmt.Sprint(nr))
		t.Try(fam, in, nr >= 1)
	})
}

func c20Shrink(in []int64) [][]int64 {
	var out [][]int64
	cp := func() []int64 { return append([]int64{}, in...) }
	switch in[0] {
	case 0:
		for i := 1; i < len(in); i++ {
			c := append(cp()[:i], in[i+1:]...)
			out = append(out, c)
		}
	case 1:
		id := c20Join(in[1], in[2])
		for _, v := range []int64{id / 32, id / 2, id - 1} {
			if v >= 0 && v < id {
				hi, lo := c20Halves(v)
				out = append(out, []int64{1, hi, lo})
			}
		}
	case 2:
		if in[4] > 1 {
			c := cp()
			c[4]--
			out = append(out, c)
		}
	case 5, 6:
		ns, _, _, ok := c20Multi(in)
		if !ok || in[0] == 6 {
			// randz.String: the default generator is shared by all cases of the process, a shrunk case may fail only because
			// of what an earlier case left in it; the case as generated (with its longer-then-shorter calls) replays alone
			return nil
		}
		k := len(ns)
		for j := 0; j < k && k > 1; j++ { // drop a call
			c := append([]int64{in[0], int64(k - 1)}, in[2:2+j]...)
			out = append(out, append(c, in[3+j:]...))
		}
		for j := 0; j < k; j++ {
			if ns[j] > 0 {
				for _, v := range []int64{ns[j] / 2, ns[j] - 1} {
					c := cp()
					c[2+j] = v
					out = append(out, c)
				}
			}
		}
		if in[0] == 5 { // drop the last word
			if _, rest := GetList(in[2+k:]); len(rest) >= 2 {
				out = append(out, cp()[:len(in)-2])
			}
		}
	case 3:
		cs, rest := GetList(in[2:])
		if in[1] > 0 {
			for _, v := range []int64{in[1] / 2, in[1] - 1} {
				c := cp()
				c[1] = v
				out = append(out, c)
			}
		}
		for i := 0; i+1 < len(rest); i += 2 { // drop a word
			c := append([]int64{3, in[1]}, PutList(cs)...)
			c = append(c, rest[:i]...)
			c = append(c, rest[i+2:]...)
			out = append(out, c)
		}
	case 4:
		idt, rest := GetList(in[1:])
		if len(rest) == 0 {
			return nil
		}
		nr := int(rest[0])
		if len(rest) < 1+4*nr {
			return nil
		}
		rules, diffs := rest[1:1+4*nr], rest[1+4*nr:]
		build := func(idt, rules, diffs []int64) []int64 {
			c := append([]int64{4}, PutList(idt)...)
			c = append(c, int64(len(rules)/4))
			c = append(c, rules...)
			return append(c, diffs...)
		}
		if len(idt) > 0 {
			out = append(out, build(nil, rules, diffs))
		}
		for i := 0; i < len(diffs); i++ {
			d := append(append([]int64{}, diffs[:i]...), diffs[i+1:]...)
			out = append(out, build(idt, rules, d))
		}
		for i := 0; i < nr; i++ {
			rr := append(append([]int64{}, rules[:4*i]...), rules[4*i+4:]...)
			out = append(out, build(idt, rr, diffs))
		}
		for i := range rules {
			if rules[i] > 1 {
				rr := append([]int64{}, rules...)
				rr[i] = rules[i] / 2
				out = append(out, build(idt, rr, diffs))
			}
		}
	}
	return out
}

func c20Describe(in []int64) string {
	switch in[0] {
	case 0:
		return fmt.Sprintf("ParseBase32(%q)", string(ToBytes(in[1:])))
	case 1:
		return fmt.Sprintf("ID(%d): Base32, ParseBase32(Base32), Base2, Base36, String", c20Join(in[1], in[2]))
	case 2:
		return fmt.Sprintf("NewIdGenerator(now - %d ms, randBit %d): %d ids, %d ms apart; each id must be ((elapsed ms) mod 2^41) << bits | rnd for an elapsed time inside the window measured around the call", c20Join(in[2], in[3]), in[1], in[4], in[5])
	case 3:
		cs, rest := GetList(in[2:])
		var ws []string
		for i := 0; i+1 < len(rest); i += 2 {
			ws = append(ws, fmt.Sprintf("%#x", c20Join(rest[i], rest[i+1])))
		}
		return fmt.Sprintf("NewStrGenerator(%q, source replaying [%s] then zeros).Generate(%d)", string(ToBytes(cs)), strings.Join(ws, " "), in[1])
	case 5, 6:
		ns, cs, rest, ok := c20Multi(in)
		if !ok {
			return "malformed"
		}
		if in[0] == 6 {
			return fmt.Sprintf("randz.String (package level, one shared default generator over %q) called in a row with n = %v", string(ToBytes(cs)), ns)
		}
		var ws []string
		for i := 0; i+1 < len(rest); i += 2 {
			ws = append(ws, fmt.Sprintf("%#x", c20Join(rest[i], rest[i+1])))
		}
		return fmt.Sprintf("g := NewStrGenerator(%q, source replaying [%s] then zeros); g.Generate(n) in a row on the same g for n = %v", string(ToBytes(cs)), strings.Join(ws, " "), ns)
	case 4:
		idt, rest := GetList(in[1:])
		if len(rest) == 0 {
			return "?"
		}
		nr := int(rest[0])
		s := fmt.Sprintf("CountGenerator id=%q", string(ToBytes(idt)))
		rest = rest[1:]
		for i := 0; i < nr && len(rest) >= 4; i++ {
			s += fmt.Sprintf(" AddRule(%d,%d,%d,%d)", rest[0], rest[1], rest[2], rest[3])
			rest = rest[4:]
		}
		return s + fmt.Sprintf(" Generate/Min/Max for diffs %v", rest)
	}
	return "?"
}

var _ = rand.Int

func init() {
	Register(&Prop{ID: "C20", Num: 20, SpecMode: "rel", Gen: c20Gen, Impl: c20Impl, Shrink: c20Shrink, Describe: c20Describe, XProj: c20XProj, NumOf: c20NumOf,
		Rule: "ParseBase32: exhaustive on all inputs of length 0,1,2 plus 3..15-byte texts with one foreign/near-miss byte at a random position and 13+ characters (int64 wrap); " +
			"ID text forms: boundary values of every bit length 0..63 and of powers of 32, random ids per bit length (non-trivial = id >= 32, i.e. more than one base-32 digit); " +
			"IdGenerator: start time now-e for e around 0, 2^40, 2^41, 2^42 and negative, randBit in {-3..40}, 1-4 ids 0-3 ms apart, each observation (id, elapsed-ms window) judged by the extracted Coq layout judge; " +
			"StrGenerator: character sets of 1..65 runes with 1-4-byte runes, raw invalid bytes, empty set, n in 0..300 and negative, scripted Int63 words (random, all-ones, fields equal to len / len-1 / mask) then zeros (non-trivial = n >= 1 and non-empty set); " +
			"one generator object asked 2-8 times in a row (lengths 0..80: longer then shorter, 0, equal), scripted source running on across the calls, and the package-level randz.String (shared default generator, real source: rune counts predicted, texts judged; Run/C120.v) (non-trivial = some call shorter than its predecessor); " +
			"CountGenerator: 0..16 rules (ties in period allowed up to 12 rules), positive and a stream of non-positive parameters, every diff in [-2, 2*max period] for small periods, else random and period-boundary diffs (non-trivial = at least one rule). distinct = distinct case"})
}
