package main

// Access to unexported state of the library (read-only observation, or injection of a state the model licenses) must
// survive harmless refactorings of the library: fields are located by TYPE and by BEHAVIOUR (what changes when a public
// method is called on a scratch value), names are only hints.  When a field cannot be located the instrumentation is
// reported as lost (InstrLost) and the harness drops the observations that need it instead of failing cases.

import (
	"reflect"
	"strings"
	"sync"
	"unsafe"
)

var (
	instrMu   sync.Mutex
	instrLost []string
)

// InstrLost records that a piece of instrumentation is unavailable on this tree; reported in the result notes
func InstrLost(what string) {
	instrMu.Lock()
	defer instrMu.Unlock()
	for _, w := range instrLost {
		if w == what {
			return
		}
	}
	instrLost = append(instrLost, what)
}
func InstrLostList() []string {
	instrMu.Lock()
	defer instrMu.Unlock()
	return append([]string(nil), instrLost...)
}

// FieldsWhere lists the fields of the struct type t that satisfy pred, in declaration order
func FieldsWhere(t reflect.Type, pred func(reflect.StructField) bool) []reflect.StructField {
	var out []reflect.StructField
	if t.Kind() != reflect.Struct {
		return nil
	}
	for i := 0; i < t.NumField(); i++ {
		if f := t.Field(i); pred(f) {
			out = append(out, f)
		}
	}
	return out
}

// PickField: the only candidate; otherwise the candidate named like one of the hints (exact, then substring, case-insensitive)
func PickField(t reflect.Type, hints []string, pred func(reflect.StructField) bool) (reflect.StructField, bool) {
	c := FieldsWhere(t, pred)
	if len(c) == 1 {
		return c[0], true
	}
	for _, h := range hints {
		for _, f := range c {
			if f.Name == h {
				return f, true
			}
		}
	}
	for _, h := range hints {
		for _, f := range c {
			if strings.Contains(strings.ToLower(f.Name), strings.ToLower(h)) {
				return f, true
			}
		}
	}
	return reflect.StructField{}, false
}

func KindIs(ks ...reflect.Kind) func(reflect.StructField) bool {
	return func(f reflect.StructField) bool {
		for _, k := range ks {
			if f.Type.Kind() == k {
				return true
			}
		}
		return false
	}
}

// IntFieldValues reads every integer-kind field of the struct at p (type t): name -> value
func IntFieldValues(t reflect.Type, p unsafe.Pointer) map[string]int64 {
	out := map[string]int64{}
	for _, f := range FieldsWhere(t, KindIs(reflect.Int, reflect.Int32, reflect.Int64, reflect.Uint, reflect.Uint32, reflect.Uint64)) {
		v := reflect.NewAt(f.Type, unsafe.Add(p, f.Offset)).Elem()
		switch f.Type.Kind() {
		case reflect.Uint, reflect.Uint32, reflect.Uint64:
			out[f.Name] = int64(v.Uint())
		default:
			out[f.Name] = v.Int()
		}
	}
	return out
}

// FieldWithValue: the integer field whose current value is x and was not x in `before` (nil: any), preferring name hints
func FieldWithValue(t reflect.Type, now, before map[string]int64, x int64, hints ...string) (reflect.StructField, bool) {
	var c []reflect.StructField
	for i := 0; i < t.NumField(); i++ {
		f := t.Field(i)
		v, ok := now[f.Name]
		if !ok || v != x {
			continue
		}
		if before != nil && before[f.Name] == x {
			continue
		}
		c = append(c, f)
	}
	if len(c) == 1 {
		return c[0], true
	}
	for _, h := range hints {
		for _, f := range c {
			if strings.Contains(strings.ToLower(f.Name), strings.ToLower(h)) {
				return f, true
			}
		}
	}
	return reflect.StructField{}, false
}
