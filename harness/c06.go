package main

import (
	"fmt"
	"strings"
)

// C06: algz.Trie Replace / ReplaceWithMask.
// case = nops :: ops ++ put_list(text) ++ put_list(repl) ++ [mask]
// output = section(Replace) ++ section(ReplaceWithMask), section = PANIC | put_list(bytes)
func c06Section(f func() string) (out []int64) {
	defer func() {
		if r := recover(); r != nil {
			out = []int64{PANIC}
		}
	}()
	return PutList(Bytes([]byte(f())))
}

func c06Impl(in []int64) []int64 {
	if len(in) > 0 && in[0] == -6 {
		return wideImpl(in)
	}
	tc, ok := decodeTrieCase(in, true)
	if !ok {
		return []int64{BADCASE}
	}
	t := tc.trie()
	text := string(tc.text)
	out := c06Section(func() string { return t.Replace(text, string(tc.repl)) })
	out = append(out, c06Section(func() string { return t.ReplaceWithMask(text, rune(int32(tc.mask))) })...)
	return out
}

var c06Masks = []int64{'*', '*', '*', 'a', 'é', '中', 0x1F600, 0xFFFD, 0xD800, -1, 0x110000, 0}

func c06Repl(t *T, tc *trieCase, units []string) {
	r := t.R
	switch r.Intn(8) {
	case 0:
		tc.repl = nil
	case 1:
		tc.repl = []byte("*")
	case 2: // a piece of the text: makes the parse of the output ambiguous
		if len(tc.text) > 0 {
			a := r.Intn(len(tc.text))
			b := a + 1 + r.Intn(min(3, len(tc.text)-a))
			tc.repl = append([]byte{}, tc.text[a:b]...)
		}
	case 3: // a pattern
		ps := tc.patterns()
		tc.repl = []byte(ps[r.Intn(len(ps))])
	case 4:
		tc.repl = []byte("<" + randWord(r, units, 0, 2) + ">")
	default:
		tc.repl = []byte(randWord(r, units, 1, 2))
	}
	tc.mask = c06Masks[r.Intn(len(c06Masks))]
}

func c06Try(t *T, family string, tc *trieCase) {
	nt := tc.canonical() && anyOccurs(tc.patterns(), string(tc.text))
	t.Try(family, tc.encode(true), nt)
}

func c06Gen(c *Ctx) {
	wideGen(c, -6) // very wide / very large tries, judged by the closed form of Run/C106.v
	if cs := trieCollisionCases(); true {
		_, note := trieCollisionHits()
		c.Note(note)
		c.Each(len(cs), func(i int, t *T) {
			tc := *cs[i]
			tc.repl, tc.mask = []byte("*"), '#'
			c06Try(t, "code-point-taken-for-lone-byte", &tc)
		})
	}
	// 0. one covered region of every length 2..560 runes (block-wise writers of the mask: multiples of 128, 170, 256, 512),
	//    masks of 1, 2, 3 and 4 bytes and an invalid one
	c.Each(559, func(i int, t *T) {
		n := 2 + i
		text := "x" + strings.Repeat("a", n) + "y"
		if i%5 == 4 {
			text = strings.Repeat("é", 3) + strings.Repeat("ab", n/2) + "zz"
		}
		tc := &trieCase{ops: opsOf([]string{"aa", "ab", "a"}), text: []byte(text), repl: []byte("<>"), mask: []int64{'é', '中', 0x1F600, '*', -1, 0xFF0A}[i%6]}
		c06Try(t, "one-long-covered-region", tc)
	})
	// 1. exhaustive: hand-written sets over {a,b,c} x all texts up to length L, replacement "*" / mask '*' and a
	//    second replacement drawn per case
	L := c.N(6, 8)
	nw := countWords(3, L)
	c.Each(len(trieSmallSets)*nw, func(i int, t *T) {
		set := trieSmallSets[i/nw]
		tc := &trieCase{ops: opsOf(set), text: []byte(wordByIndex(trieASCII, i%nw)), repl: []byte("*"), mask: '*'}
		if i%3 == 1 {
			c06Repl(t, tc, trieASCII)
		}
		c06Try(t, "exh-abc", tc)
	})
	LU := c.N(3, 4)
	nu := countWords(len(trieUnits), LU)
	c.Each(len(c05UnitSets)*nu, func(i int, t *T) {
		set := c05UnitSets[i/nu]
		tc := &trieCase{ops: opsOf(set), text: []byte(wordByIndex(trieUnits, i%nu)), repl: []byte("*"), mask: '*'}
		if i%2 == 1 {
			c06Repl(t, tc, trieUnits)
		}
		c06Try(t, "exh-units", tc)
	})
	nr := countWords(len(trieRaw), c.N(2, 3))
	c.Each(len(c05RawSets)*nr, func(i int, t *T) {
		set := c05RawSets[i/nr]
		tc := &trieCase{ops: opsOf(set), text: []byte(wordByIndex(trieRaw, i%nr)), repl: []byte("*"), mask: 'é'}
		c06Try(t, "exh-raw", tc)
	})
	c.Note(fmt.Sprintf("exhaustive part: %d hand-written pattern sets over {a,b,c} x all %d texts of length <= %d; %d sets over 1-4 byte runes and raw bytes x all texts of <= %d units",
		len(trieSmallSets), nw, L, len(c05UnitSets)+len(c05RawSets), LU))
	// 2. the late long occurrence over several earlier disjoint ones (the merge must step back, repeatedly)
	c.Each(c.N(4000, 60000), func(i int, t *T) {
		r := t.R
		var tc trieCase
		if i == 0 {
			tc = trieCase{ops: opsOf([]string{"a", "c", "abcde"}), text: []byte("abcde"), repl: []byte("*"), mask: '*'}
		} else {
			units := trieASCII
			if r.Intn(3) == 0 {
				units = trieUnits
			}
			long := randWord(r, units, 3, 9)
			lu := splitUnits(long, units)
			var ps []string
			for p := r.Intn(2); p < len(lu); {
				w := 1 + r.Intn(2)
				if p+w > len(lu) {
					w = len(lu) - p
				}
				if p+w == len(lu) && p == 0 {
					break
				}
				ps = append(ps, strings.Join(lu[p:p+w], ""))
				p += w + r.Intn(3)
			}
			ps = append(ps, long)
			if r.Intn(3) == 0 { // a second long one starting later: chains of merges
				ps = append(ps, strings.Join(lu[1+r.Intn(len(lu)-1):], "")+randWord(r, units, 0, 2))
			}
			r.Shuffle(len(ps), func(a, b int) { ps[a], ps[b] = ps[b], ps[a] })
			text := randWord(r, units, 0, 2) + long
			if r.Intn(2) == 0 {
				text += randWord(r, units, 0, 2) + long[:r.Intn(len(long)+1)]
			}
			if r.Intn(4) == 0 {
				text += long + randWord(r, units, 0, 2)
			}
			tc = trieCase{ops: opsOf(ps), text: []byte(text)}
			c06Repl(t, &tc, units)
		}
		c06Try(t, "late-long", &tc)
	})
	// 3. random sets and texts: overlapping, nested, touching occurrences
	c.Each(c.N(9000, 200000), func(i int, t *T) {
		r := t.R
		units := trieUnits
		fam := "random-units"
		switch r.Intn(5) {
		case 0:
			units = trieASCII
			fam = "random-abc"
		case 1:
			units = trieRaw
			fam = "random-raw"
		case 2:
			units = trieBoundary
			fam = "random-boundary-runes"
		case 3:
			if r.Intn(2) == 0 {
				units = trieOverlong
				fam = "random-rejected-lead-bytes"
			} else {
				units = trieCollide
				fam = "random-collision-candidates"
			}
		}
		ps := randPatternSet(r, units, 8, 5)
		tc := trieCase{ops: opsOf(ps), text: []byte(randText(r, units, ps, c.N(12, 30)))}
		c06Repl(t, &tc, units)
		c06Try(t, fam, &tc)
	})
	// 4. wide tries (queue growth)
	c.Each(c.N(800, 15000), func(i int, t *T) {
		r := t.R
		ps := widePatternSet(r)
		tc := trieCase{ops: opsOf(ps), text: []byte(randText(r, []string{"a", "b", "c", "d", "e", "f", "g", "h"}, ps, 10))}
		c06Repl(t, &tc, trieASCII)
		c06Try(t, "wide", &tc)
	})
	// dense tries (frontier above 20 nodes, second wrapped growth of the queue) and targeted rebuilds
	c.Each(c.N(10000, 150000), func(i int, t *T) {
		r := t.R
		if i%4 != 3 {
			ps, letters := densePatternSet(r)
			famd := "dense"
			if i%2 == 0 {
				ps, letters = manyPatternSet(r)
				famd = "many-irregular"
			}
			var text string
			if r.Intn(2) == 0 {
				text = randWord(r, letters, 3, 12)
			} else { // pieces of patterns glued together: walks deep into the trie
				for len(text) < 8 {
					q := ps[r.Intn(len(ps))]
					text += q[:1+r.Intn(len(q))]
				}
			}
			tc := trieCase{ops: opsOf(ps), text: []byte(text)}
			c06Repl(t, &tc, trieASCII)
			c06Try(t, famd, &tc)
			return
		}
		units := trieASCII
		if r.Intn(3) == 0 {
			units = trieUnits
		}
		first, second := rebuildBatches(r, units)
		var ops []trieOp
		for _, p := range first {
			ops = append(ops, trieOp{pat: []byte(p)})
		}
		ops = append(ops, trieOp{build: true})
		for _, p := range second {
			ops = append(ops, trieOp{pat: []byte(p)})
		}
		ops = append(ops, trieOp{build: true})
		all := append(append([]string{}, first...), second...)
		tc := trieCase{ops: ops, text: []byte(randText(r, units, all, 10))}
		c06Repl(t, &tc, trieASCII)
		c06Try(t, "rebuild-suffix-extension", &tc)
	})
	// 5. not canonical (model comparison only)
	c.Each(c.N(600, 10000), func(i int, t *T) {
		r := t.R
		ps := randPatternSet(r, trieASCII, 5, 4)
		var ops []trieOp
		cut := r.Intn(len(ps) + 1)
		for j, p := range ps {
			if j == cut && r.Intn(3) != 0 {
				ops = append(ops, trieOp{build: true})
			}
			ops = append(ops, trieOp{pat: []byte(p)})
		}
		tc := trieCase{ops: ops, text: []byte(randText(r, trieASCII, ps, 6))}
		c06Repl(t, &tc, trieASCII)
		c06Try(t, "no-final-build", &tc)
	})
}

func init() {
	Register(&Prop{ID: "C06", Pure: true, Num: 6, NumOf: wideNum(6), SpecMode: "rel", Gen: c06Gen, Impl: c06Impl,
		Shrink: trieShrink(true),
		Describe: func(in []int64) string {
			if len(in) > 3 && (in[0] == -5 || in[0] == -6) {
				return fmt.Sprintf("wide trie: all %d-rune patterns over the %d runes from U+%X; text runes, replacement, mask: %v", in[3], in[2], in[1], in[4:])
			}
			tc, _ := decodeTrieCase(in, true)
			return tc.describe(true)
		},
		Rule: "pattern sets as for C05 (shared prefixes, nesting, duplicates, empty pattern; {a,b,c}, 2-/3-/4-byte runes, raw bytes, truncated sequences); all texts up to length 6 over {a,b,c} for 25 hand-written sets, all texts up to 3 units for the multi-byte sets, " +
			"the late-long-occurrence family (a long pattern over several earlier disjoint short ones, chains of merges), random longer texts; replacements: empty, '*', pieces of the text, patterns (ambiguous parses); masks: ASCII, 2-/3-/4-byte, U+FFFD, surrogate, negative, > MaxRune. " +
			"Non-trivial: the trie ends with BuildFailureLinks and some pattern occurs in the text"})
}
