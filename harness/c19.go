package main

// C19: goz.Limiter / goz.Recover.
//
// family 0  [0; n; ops...]   deterministic scripts: one script goroutine drives the real Limiter; task bodies stamp
//           start / end / raise with one global counter and block on channels the script controls; the only timeouts
//           are liveness bounds (10 s) on events that must happen.  Output = observed trace + final counters; the
//           model predicts it exactly (sub 0) and the specification judges it (sub 2).
// family 1  [1; n; s; m; seed; pk; maxin; trace...]   stress: free-running tasks from s submitters; the observed trace is
//           put INTO the case (internal nondeterminism is an input of the model); the model replays it step by step.
// family 2  [2; hnil; fn; c1..ck]   goz.Recover alone.
// family 3  [3; n; s; m]   bulk stress without a trace: s submitters x m empty tasks; output = [bodies run; handler calls; 1].
// family 5  [5; n; rounds; extra]   a limiter re-used after Wait(): per round n tasks that all end at the same instant, Wait(), then
//           n+extra short tasks whose peak concurrency is measured, Wait(); output = [bodies run; peak <= limit; Wait returned].
// family 4  [4; n; hk; vk; k]   hostile panic values under the library's own handlers, in a child process (c19_hostile.go).

import (
	"crypto/sha1"
	"errors"
	"fmt"
	"reflect"
	"runtime"
	"sort"
	"strconv"
	"strings"
	"sync"
	"sync/atomic"
	"time"

	"github.com/welllog/golib/goz"
)

const (
	lSubmit   = 1
	lStart    = 2
	lReturn   = 3
	lPanic    = 4
	lWaitRet  = 5
	lWaitCall = 6
	lHang     = 7
	lRaise    = 8
	lGoCall   = 10 // raw only
	lGoRet    = 11 // raw only
	c19Max    = 40
)

var c19Hangs atomic.Int32

func c19Bound() time.Duration {
	if c19Hangs.Load() > 1 {
		return 1500 * time.Millisecond
	}
	return 10 * time.Second
}

type lev struct{ stamp, code, id, val int64 }

type lrun struct {
	switchAt  int64
	second    func(any)
	l         *goz.Limiter
	mu        sync.Mutex
	ctr       int64
	log       []lev
	inside    atomic.Int64
	maxInside atomic.Int64
	finished  atomic.Int64
	raised    atomic.Int64
	handledN  atomic.Int64
	kind      [64]int64
	started   [64]chan struct{}
	ended     [64]chan struct{}
	goret     [64]chan struct{}
	release   [64]chan int64 // value = child id to spawn, or -1
	endOnce   [64]sync.Once
	reqs      chan int64
	waitRet   chan struct{}
	crash     chan struct{} // closed when a goroutine of the harness that calls into the Limiter panics
	crashOnce sync.Once
}

// guard is deferred in every harness goroutine that calls Limiter methods directly: a panic there (it would kill the
// process) is turned into an observation
func (r *lrun) guard() {
	if p := recover(); p != nil {
		r.stamp(lHang, 99, 0)
		r.crashOnce.Do(func() { close(r.crash) })
	}
}

func (r *lrun) stamp(code, id, val int64) {
	r.mu.Lock()
	r.ctr++
	r.log = append(r.log, lev{r.ctr, code, id, val})
	r.mu.Unlock()
}

func (r *lrun) enter() {
	in := r.inside.Add(1)
	for {
		m := r.maxInside.Load()
		if in <= m || r.maxInside.CompareAndSwap(m, in) {
			break
		}
	}
}

func c19DecodePanic(p any) int64 {
	switch x := p.(type) {
	case int:
		return int64(x)
	case int64:
		return x
	case string:
		if strings.HasPrefix(x, "p") {
			if v, err := strconv.ParseInt(x[1:], 10, 64); err == nil {
				return v
			}
		}
		return -2 // e.g. "cleanup panic: ..."
	case runtime.Error:
		s := x.Error()
		if i := strings.Index(s, "["); i >= 0 {
			if j := strings.Index(s[i:], "]"); j > 0 {
				if v, err := strconv.ParseInt(s[i+1:i+j], 10, 64); err == nil {
					return v
				}
			}
		}
		return -3
	case error:
		s := x.Error()
		if strings.HasPrefix(s, "e") {
			if v, err := strconv.ParseInt(s[1:], 10, 64); err == nil {
				return v
			}
		}
		return -4
	}
	return -5
}

func c19DoPanic(kind, v int64) {
	switch kind {
	case 4:
		panic("p" + strconv.FormatInt(v, 10))
	case 5:
		panic(errors.New("e" + strconv.FormatInt(v, 10)))
	case 6:
		var a []int
		_ = a[v]
	}
	panic(int(v))
}

func c19Panics(kind int64) bool { return kind == 1 || kind == 3 || kind == 4 || kind == 5 || kind == 6 }
func c19Spawns(kind int64) bool { return kind == 2 || kind == 3 }

func newLrun(n int64) *lrun {
	r := &lrun{l: goz.NewLimiter(int(n)), reqs: make(chan int64, 64), waitRet: make(chan struct{}, 4), crash: make(chan struct{})}
	for i := range r.started {
		r.started[i] = make(chan struct{})
		r.ended[i] = make(chan struct{})
		r.goret[i] = make(chan struct{})
		r.release[i] = make(chan int64, 1)
	}
	// Two handlers with the same behaviour.  In every other run the second one replaces the first between the first and
	// the second submission (SetPanicHandler on a limiter already in use): a panic must reach the handler that was
	// configured when its function was submitted; a value delivered to the other one is stamped as an unknown value,
	// which no model trace contains.
	r.switchAt = -1
	mk := func(second bool) func(any) {
		return func(p any) {
			v := c19DecodePanic(p)
			r.handledN.Add(1)
			id := v - 1000
			if id < 0 || id >= 64 {
				id = -1
			}
			sw := atomic.LoadInt64(&r.switchAt)
			if id >= 0 && sw >= 0 && (id >= sw) != second {
				v += 500000 // delivered to the wrong handler
			}
			r.stamp(lPanic, id, v)
			if id >= 0 {
				r.endOnce[id].Do(func() { close(r.ended[id]) })
			}
		}
	}
	r.l.SetPanicHandler(mk(false))
	if atomic.AddInt64(&c19RunCounter, 1)%2 == 0 {
		r.second = mk(true)
	}
	return r
}

var c19RunCounter int64

// the capacity of the real token channel (read-only reflection); falls back to the documented rule
func (r *lrun) realCap(n int64) int {
	defer func() { recover() }()
	f := reflect.ValueOf(r.l).Elem().FieldByName("c")
	if f.IsValid() && f.Kind() == reflect.Chan {
		return f.Cap()
	}
	if n < 1 {
		return 3
	}
	return int(n)
}

func (r *lrun) body(id int64) func() {
	return func() {
		r.enter()
		r.stamp(lStart, id, 0)
		close(r.started[id])
		child := <-r.release[id]
		if child >= 0 {
			r.stamp(lGoCall, child, 0)
			r.l.Go(r.body(child))
			r.stamp(lGoRet, child, 0)
			close(r.goret[child])
			<-r.started[child]
		}
		r.inside.Add(-1)
		if c19Panics(r.kind[id]) {
			r.raised.Add(1)
			r.stamp(lRaise, id, 1000+id)
			c19DoPanic(r.kind[id], 1000+id)
		}
		r.stamp(lReturn, id, 0)
		r.finished.Add(1)
		r.endOnce[id].Do(func() { close(r.ended[id]) })
		// a third of the plainly returning bodies end their goroutine with runtime.Goexit() (what t.Fatal / t.FailNow do
		// inside a task): for the Limiter that is a function that has finished, its slot must come back like any other
		if !c19Panics(r.kind[id]) && id%3 == 2 {
			runtime.Goexit()
		}
	}
}

func (r *lrun) await(ch <-chan struct{}) bool {
	select {
	case <-ch:
		return true
	default:
	}
	t := time.NewTimer(c19Bound())
	defer t.Stop()
	select {
	case <-ch:
		return true
	case <-r.crash:
		return false
	case <-t.C:
		c19Hangs.Add(1)
		return false
	}
}

// raw log -> observed trace: the first of {Go returned, body started} is the SUBMIT of that task
func (r *lrun) trace() []int64 {
	r.mu.Lock()
	lg := append([]lev{}, r.log...)
	r.mu.Unlock()
	sort.Slice(lg, func(i, j int) bool { return lg[i].stamp < lg[j].stamp })
	sub := map[int64]bool{}
	var out []int64
	for _, e := range lg {
		switch e.code {
		case lGoCall:
		case lGoRet:
			if !sub[e.id] {
				sub[e.id] = true
				out = append(out, lSubmit, e.id, 0)
			}
		case lStart:
			if !sub[e.id] {
				sub[e.id] = true
				out = append(out, lSubmit, e.id, 0)
			}
			out = append(out, lStart, e.id, 0)
		default:
			out = append(out, e.code, e.id, e.val)
		}
	}
	return out
}

func c19Script(n int64, ops []int64) []int64 {
	r := newLrun(n)
	neff := r.realCap(n)
	go func() {
		defer r.guard()
		for id := range r.reqs {
			r.stamp(lGoCall, id, 0)
			r.l.Go(r.body(id))
			r.stamp(lGoRet, id, 0)
			close(r.goret[id])
		}
	}()
	defer close(r.reqs)
	var queue, act []int64
	next := int64(0)
	waiter := false
	hang := false
	fail := func(phase int64) { r.stamp(lHang, phase, 0); hang = true }
	admitWait := func(id int64) bool { // the Go call returns and the body starts
		if !r.await(r.goret[id]) || !r.await(r.started[id]) {
			fail(1)
			return false
		}
		act = append(act, id)
		return true
	}
	opGo := func(kind int64) {
		if waiter || next >= c19Max {
			return
		}
		id := next
		next++
		r.kind[id] = kind
		if id == 1 && r.second != nil {
			atomic.StoreInt64(&r.switchAt, 1)
			r.l.SetPanicHandler(r.second)
		}
		r.reqs <- id
		if len(queue) == 0 && len(act) < neff {
			admitWait(id)
		} else {
			queue = append(queue, id)
			runtime.Gosched() // grace only: lets a wrongly admitted task show itself; no verdict depends on it
		}
	}
	opRel := func(k int64) {
		if len(act) == 0 {
			return
		}
		j := act[int(k%int64(len(act)))]
		child := int64(-1)
		if c19Spawns(r.kind[j]) && len(queue) == 0 && next < c19Max && len(act) < neff {
			child = next
			next++
			r.kind[child] = 0
		}
		r.release[j] <- child
		if child >= 0 {
			if !r.await(r.goret[child]) || !r.await(r.started[child]) {
				fail(2)
				return
			}
			act = append(act, child)
		}
		if !r.await(r.ended[j]) {
			fail(3)
			return
		}
		for i, x := range act {
			if x == j {
				act = append(act[:i:i], act[i+1:]...)
				break
			}
		}
		if len(queue) > 0 {
			h := queue[0]
			queue = queue[1:]
			admitWait(h)
		} else if waiter && len(act) == 0 {
			if !r.await(r.waitRet) {
				fail(4)
				return
			}
			waiter = false
		}
	}
	opWait := func() {
		if waiter || len(queue) > 0 {
			return
		}
		called := make(chan struct{})
		go func() {
			defer r.guard()
			r.stamp(lWaitCall, 0, 0)
			close(called)
			r.l.Wait()
			r.stamp(lWaitRet, 0, 0)
			r.waitRet <- struct{}{}
		}()
		<-called
		if len(act) == 0 {
			if !r.await(r.waitRet) {
				fail(5)
			}
		} else {
			waiter = true
		}
	}
	for i := 0; i+1 < len(ops) && !hang; i += 2 {
		switch ops[i] {
		case 1:
			opGo(((ops[i+1] % 7) + 7) % 7)
		case 2:
			if ops[i+1] >= 0 {
				opRel(ops[i+1])
			} else {
				opRel(0)
			}
		case 3:
			opWait()
		}
	}
	for fuel := 0; fuel < 3*c19Max && len(act) > 0 && !hang; fuel++ {
		opRel(0)
	}
	if !hang {
		opWait()
	}
	out := PutList(r.trace())
	return append(out, r.finished.Load()+r.raised.Load(), r.handledN.Load(), r.maxInside.Load())
}

// free-running tasks; returns the largest number of bodies inside at once, the observed trace, and the final counters
func c19Stress(n, s, m, seed, pk int64) (int64, []int64, []int64) {
	r := newLrun(n)
	var ids atomic.Int64
	_ = ids
	body := func(id int64) func() {
		return func() {
			r.enter()
			r.stamp(lStart, id, 0)
			if id%3 == 0 {
				runtime.Gosched()
			}
			r.inside.Add(-1)
			if pk > 0 && (id*7+seed)%pk == 0 {
				r.raised.Add(1)
				r.stamp(lRaise, id, 1000+id)
				panic(int(1000 + id))
			}
			r.stamp(lReturn, id, 0)
			r.finished.Add(1)
		}
	}
	// the handler of newLrun closes ended[id] for id < 64 only; ids here may be larger: install a plain one
	r.l.SetPanicHandler(func(p any) {
		v := c19DecodePanic(p)
		r.handledN.Add(1)
		id := v - 1000
		if v < 1000 {
			id = -1
		}
		r.stamp(lPanic, id, v)
	})
	done := make(chan struct{})
	go func() {
		defer r.guard()
		var wg sync.WaitGroup
		for si := int64(0); si < s; si++ {
			wg.Add(1)
			go func(si int64) {
				defer wg.Done()
				defer r.guard()
				for k := int64(0); k < m; k++ {
					id := si*m + k
					r.stamp(lGoCall, id, 0)
					r.l.Go(body(id))
					r.stamp(lGoRet, id, 0)
				}
			}(si)
		}
		wg.Wait()
		r.stamp(lWaitCall, 0, 0)
		r.l.Wait()
		r.stamp(lWaitRet, 0, 0)
		close(done)
	}()
	waitret := int64(1)
	if !r.await(done) {
		r.stamp(lHang, 9, 0)
		waitret = 0
	}
	return r.maxInside.Load(), r.trace(), []int64{r.finished.Load() + r.raised.Load(), r.handledN.Load(), waitret}
}

func c19Bulk(n, s, m int64) []int64 {
	l := goz.NewLimiter(int(n))
	var ran, handled atomic.Int64
	l.SetPanicHandler(func(p any) { handled.Add(1) })
	done := make(chan struct{})
	var crashed atomic.Int64
	guard := func() {
		if p := recover(); p != nil {
			crashed.Add(1)
		}
	}
	go func() {
		defer close(done)
		defer guard()
		var wg sync.WaitGroup
		for si := int64(0); si < s; si++ {
			wg.Add(1)
			go func() {
				defer wg.Done()
				defer guard()
				f := func() { ran.Add(1) }
				for k := int64(0); k < m; k++ {
					l.Go(f)
				}
			}()
		}
		wg.Wait()
		l.Wait()
	}()
	ok := int64(1)
	t := time.NewTimer(c19Bound())
	defer t.Stop()
	select {
	case <-done:
	case <-t.C:
		c19Hangs.Add(1)
		ok = 0
	}
	if crashed.Load() > 0 {
		return []int64{ran.Load(), handled.Load(), ok, PANIC}
	}
	return []int64{ran.Load(), handled.Load(), ok}
}

// a limiter re-used after Wait(): the tasks of the first half of a round all end at the same instant (a closed barrier), so
// that Wait() returns while several of them are still between their WaitGroup.Done and the return of their slot; the second
// half then saturates the limiter with short tasks and measures how many bodies are inside at once.
func c19Reuse(n, rounds, extra int64) []int64 {
	l := goz.NewLimiter(int(n))
	eff := n
	if eff < 1 {
		eff = 3
	}
	var ran, inside, peak atomic.Int64
	done := make(chan struct{})
	var crashed atomic.Int64
	go func() {
		defer close(done)
		defer func() {
			if p := recover(); p != nil {
				crashed.Add(1)
			}
		}()
		for r := int64(0); r < rounds; r++ {
			bar := make(chan struct{})
			first := func() { <-bar; ran.Add(1) }
			for k := int64(0); k < eff; k++ {
				l.Go(first)
			}
			close(bar)
			l.Wait()
			second := func() {
				cur := inside.Add(1)
				for {
					p := peak.Load()
					if cur <= p || peak.CompareAndSwap(p, cur) {
						break
					}
				}
				for i := 0; i < 3; i++ {
					runtime.Gosched()
				}
				inside.Add(-1)
				ran.Add(1)
			}
			for k := int64(0); k < eff+extra; k++ {
				l.Go(second)
			}
			l.Wait()
		}
	}()
	ok := int64(1)
	t := time.NewTimer(c19Bound())
	defer t.Stop()
	select {
	case <-done:
	case <-t.C:
		c19Hangs.Add(1)
		ok = 0
	}
	if crashed.Load() > 0 {
		return []int64{ran.Load(), 0, ok, PANIC}
	}
	within := int64(1)
	if peak.Load() > eff {
		within = 0
	}
	return []int64{ran.Load(), within, ok}
}

func c19Recover(hnil bool, fn int64, cs []int64) []int64 {
	var mu sync.Mutex
	var out []int64
	emit := func(a, b, c int64) { mu.Lock(); out = append(out, a, b, c); mu.Unlock() }
	var handler func(any)
	if !hnil {
		handler = func(p any) {
			if s, ok := p.(string); ok && strings.HasPrefix(s, "cleanup panic: ") {
				var v, idx int64
				if _, err := fmt.Sscanf(s, "cleanup panic: %d, index: %d", &v, &idx); err == nil {
					emit(4, idx, v)
					return
				}
				emit(4, -1, -1)
				return
			}
			emit(2, c19DecodePanic(p), 0)
		}
	}
	var cleanups []func()
	for i, c := range cs {
		i, c := int64(i), c
		cleanups = append(cleanups, func() {
			emit(3, i, 0)
			if c > 0 {
				panic(int(c))
			}
		})
	}
	goz.Recover(func() {
		emit(1, 0, 0)
		if fn > 0 {
			panic(int(fn))
		}
	}, handler, cleanups...)
	return out
}

var c19Cache sync.Map

func c19Key(in []int64) [20]byte { return sha1.Sum([]byte(fmt.Sprint(in))) }

func c19Impl(in []int64) []int64 {
	if len(in) < 2 {
		return []int64{BADCASE}
	}
	switch in[0] {
	case 0:
		return c19Script(in[1], in[2:])
	case 1:
		if len(in) < 7 {
			return []int64{BADCASE}
		}
		if v, ok := c19Cache.Load(c19Key(in)); ok {
			return v.([]int64)
		}
		// replay of a recorded case: run the scenario again; the recorded trace stays in the case
		_, _, sum := c19Stress(in[1], in[2], in[3], in[4], in[5])
		return sum
	case 2:
		if len(in) < 3 {
			return []int64{BADCASE}
		}
		return c19Recover(in[1] != 0, in[2], in[3:])
	case 3:
		if len(in) < 4 {
			return []int64{BADCASE}
		}
		return c19Bulk(in[1], in[2], in[3])
	case 5:
		if len(in) != 4 || in[1] > 4096 || in[2] < 0 || in[2] > 1000000 || in[3] < 0 || in[3] > 64 {
			return []int64{BADCASE}
		}
		return c19Reuse(in[1], in[2], in[3])
	case 4:
		if len(in) != 5 || in[2] < 0 || in[2]%4 > 2 || in[2] > 4*100000 || in[4] < 0 || in[4] > 64 || in[1] > 64 {
			return []int64{BADCASE}
		}
		return c19HostileRun(in[1], in[2], in[3], in[4])
	}
	return []int64{BADCASE}
}

func c19Gen(c *Ctx) {
	limits := []int64{-1, 0, 1, 2, 3, 8}
	tooMany := func() bool { c.mu.Lock(); defer c.mu.Unlock(); return c.nfail > 12 }
	// ---- Recover alone: every combination of fn / up to 3 cleanups returning or panicking, with and without handler
	var rec [][]int64
	for hn := int64(0); hn < 2; hn++ {
		for _, fn := range []int64{0, 7} {
			for k := 0; k <= 3; k++ {
				for mask := 0; mask < 1<<k; mask++ {
					in := []int64{2, hn, fn}
					for i := 0; i < k; i++ {
						if mask>>i&1 == 1 {
							in = append(in, int64(20+i))
						} else {
							in = append(in, 0)
						}
					}
					rec = append(rec, in)
				}
			}
		}
	}
	c.Each(len(rec), func(i int, t *T) { t.Try("recover", rec[i], len(rec[i]) > 3) })
	// ---- hostile panic values under the library's own handlers (child processes)
	var hostile [][]int64
	for hk := int64(0); hk <= 2; hk++ {
		for vk := int64(0); vk <= 6; vk++ {
			for _, n := range []int64{1, 3, 0} {
				for _, k := range []int64{1, 4} {
					if c.Tier == "thorough" || (n+k+hk+vk)%2 == 0 {
						hostile = append(hostile, []int64{4, n, hk, vk, k})
					}
				}
			}
		}
	}
	// goz.LogPanic with every interesting traceback depth (internal buffer sizes of the stack printer)
	for _, d := range []int64{5000 /* = depth 0 */, 1, 2, 3, 5, 7, 8, 9, 15, 16, 17, 31, 32, 33, 34, 35, 36, 37, 38, 39, 40, 48, 63, 64, 65, 66, 69, 70, 100, 127, 128, 129, 133, 255, 256, 257, 261, 1000, 4096} {
		hostile = append(hostile, []int64{4, 2, 1 + 4*d, 0, 1})
		if d%2 == 1 || c.Tier == "thorough" {
			hostile = append(hostile, []int64{4, 1, 1 + 4*d, 1, 2})
		}
	}
	c.Each(len(hostile), func(i int, t *T) { t.Try("hostile-panic-values", hostile[i], true) })
	// ---- directed scripts
	var directed [][]int64
	for _, n := range limits {
		ne := n
		if ne < 1 {
			ne = 3
		}
		for k := int64(0); k <= ne+1; k++ { // k panics (each released at once), then ne+2 new tasks: ne must start
			for _, pkind := range []int64{1, 4, 5, 6} {
				in := []int64{0, n}
				for j := int64(0); j < k; j++ {
					in = append(in, 1, pkind, 2, 0)
				}
				for j := int64(0); j < ne+2; j++ {
					in = append(in, 1, 0)
				}
				in = append(in, 3, 0)
				directed = append(directed, in)
			}
		}
		// fill, panic while full, wait while running
		in := []int64{0, n}
		for j := int64(0); j < ne; j++ {
			in = append(in, 1, 1+j%2)
		}
		in = append(in, 1, 0, 1, 3, 2, 1, 3, 0, 2, 0, 2, 0)
		directed = append(directed, in)
	}
	c.Each(len(directed), func(i int, t *T) { t.Try("script-directed", directed[i], true) })
	// ---- random scripts
	nr := c.N(10000, 200000)
	c.Each(nr, func(i int, t *T) {
		if tooMany() {
			return
		}
		r := t.R
		n := limits[r.Intn(len(limits))]
		if r.Intn(6) == 0 {
			n = int64(r.Intn(12)) - 2
		}
		in := []int64{0, n}
		nops := 3 + r.Intn(50)
		pGo := 35 + r.Intn(40)
		kinds := map[int64]bool{}
		ngo := 0
		for j := 0; j < nops; j++ {
			x := r.Intn(100)
			switch {
			case x < pGo:
				k := int64(r.Intn(7))
				if r.Intn(3) == 0 {
					k = 0
				}
				in = append(in, 1, k)
				ngo++
			case x < 92:
				in = append(in, 2, int64(r.Intn(8)))
			default:
				in = append(in, 3, 0)
			}
			kinds[in[len(in)-2]] = true
		}
		t.C.Count("limit", fmt.Sprint(n))
		t.Try("script-random", in, ngo >= 3 && len(kinds) >= 2)
	})
	// ---- stress with traces
	ns := c.N(400, 6000)
	c.Each(ns, func(i int, t *T) {
		if tooMany() {
			return
		}
		r := t.R
		n := limits[r.Intn(len(limits))]
		s := int64(1 + r.Intn(4))
		m := int64(5 + r.Intn(30))
		seed := int64(r.Intn(100))
		pk := int64(r.Intn(6)) // 0 = nobody panics; 1 = everybody
		maxin, tr, sum := c19Stress(n, s, m, seed, pk)
		in := append([]int64{1, n, s, m, seed, pk, maxin}, tr...)
		c19Cache.Store(c19Key(in), sum)
		t.Try("stress-trace", in, s*m >= 10)
	})
	// ---- bulk stress (no trace): many empty tasks, Add/Done/token traffic at full speed
	nb := c.N(40, 400)
	c.Each(nb, func(i int, t *T) {
		if tooMany() {
			return
		}
		r := t.R
		n := []int64{1, 2, 8, 64, 4096, 65536}[r.Intn(6)]
		s := int64(1 + r.Intn(16))
		m := int64(20000 + r.Intn(30000))
		t.Try("stress-bulk", []int64{3, n, s, m}, true)
	})
	// ---- the limiter re-used after Wait(): tasks ending at the same instant, then a saturating round
	nr = c.N(48, 480)
	c.Each(nr, func(i int, t *T) {
		if tooMany() {
			return
		}
		r := t.R
		n := []int64{1, 2, 3, 8, 16, 64}[r.Intn(6)]
		rounds := int64(30000) / (n + 4)
		t.Try("reuse-after-wait", []int64{5, n, rounds, int64(1 + r.Intn(3))}, true)
	})
	c.Note(fmt.Sprintf("liveness timeouts hit: %d (must be 0 on a correct tree)", c19Hangs.Load()))
}

var c19EvNames = map[int64]string{1: "Submit", 2: "Start", 3: "Return", 4: "Panic", 5: "WaitRet", 6: "WaitCall", 7: "HANG", 8: "Raise"}

func c19Describe(in []int64) string {
	if len(in) < 2 {
		return "?"
	}
	switch in[0] {
	case 0:
		s := fmt.Sprintf("NewLimiter(%d):", in[1])
		for i := 2; i+1 < len(in); i += 2 {
			switch in[i] {
			case 1:
				s += fmt.Sprintf(" Go(kind%d)", ((in[i+1]%7)+7)%7)
			case 2:
				s += fmt.Sprintf(" Release(%d)", in[i+1])
			case 3:
				s += " Wait"
			}
		}
		return s + " ; release all ; Wait   [kinds: 0 return, 1/4/5/6 panic int/string/error/runtime, 2 spawn+return, 3 spawn+panic]"
	case 1:
		s := fmt.Sprintf("NewLimiter(%d), %d submitters x %d free-running tasks, panic iff (id*7+%d)%%%d==0; observed (max inside %d):", in[1], in[2], in[3], in[4], in[5], in[6])
		for i := 7; i+2 < len(in) && i < 7+3*60; i += 3 {
			s += fmt.Sprintf(" %s(%d)", c19EvNames[in[i]], in[i+1])
		}
		return s
	case 2:
		return fmt.Sprintf("Recover(fn panics=%d, handler nil=%d, cleanups panic=%v)", in[2], in[1], in[3:])
	case 3:
		return fmt.Sprintf("NewLimiter(%d), %d submitters x %d empty tasks, then Wait", in[1], in[2], in[3])
	case 5:
		if len(in) == 4 {
			return fmt.Sprintf("NewLimiter(%d), %d rounds of: limit tasks released together by one barrier; Wait(); limit+%d short tasks, peak concurrency measured; Wait()", in[1], in[2], in[3])
		}
	case 4:
		if len(in) == 5 {
			return fmt.Sprintf("child process: NewLimiter(%d), handler %d (mod 4: 0 none, 1 goz.LogPanic with depth handler/4 (0 = 6, 5000 = depth 0), 2 plain func), %d tasks panic with value kind %d (0 int, 1 typed-nil error, 2 Stringer that panics, 3 Formatter that panics, 4 error whose Error panics, 5/6 structs holding such values); Wait; fill the limiter; Wait", in[1], in[2], in[4], in[3])
		}
	}
	return "?"
}

func c19Shrink(in []int64) [][]int64 {
	if len(in) >= 2 && in[0] == 0 {
		return ShrinkOps(2, 2)(in)
	}
	return nil
}

func init() {
	Register(&Prop{ID: "C19", Num: 19, SpecMode: "rel", Gen: c19Gen, Impl: c19Impl, Shrink: c19Shrink, Describe: c19Describe,
		Rule: "scripts: limits {-1,0,1,2,3,8}+random, up to 53 ops (Go with 7 task kinds incl. panics by int/string/error/runtime error and nested submission, Release k, Wait), directed families 'k panics then n+2 submissions' and 'fill, panic while full, Wait while running'; stress: 1-4 submitters x 5-34 free-running tasks with the observed trace replayed by the model; bulk: up to 16 submitters x 50k empty tasks; re-use: limits 1..64, thousands of rounds of (limit tasks ending at one instant, Wait, limit+1..3 short tasks with the peak measured, Wait) on one limiter; Recover: all outcome combinations of fn and <= 3 cleanups; hostile panic values (typed-nil error, Stringer/Formatter/Error that panic, structs holding them) under no handler / goz.LogPanic / a plain func, in child processes. distinct = distinct case; non-trivial = at least 3 submissions and 2 op kinds (scripts), at least 10 tasks (stress), at least one cleanup (Recover)"})
}
