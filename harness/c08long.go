package main

import (
	"fmt"
	"hash/fnv"

	"github.com/welllog/golib/cryptz"
)

// C08, LONG CBC messages (kinds 11 AESCBCEncrypt / 12 AESCBCDecrypt; model and judge: coq/Run/C108.v, dispatch 108).
// case = kind n dmode seed 0 0 put_list(key) put_list(iv).  The n-byte plaintext is c08LongText(seed, n): the case, the
// outputs and the oracle answer stay a few dozen integers for a message of megabytes.  Output: 0 length h_hi h_lo guard.
// The model side predicts result code and length (XProj); the judge compares length, FNV-1a 64 of EVERY byte and the guard
// with what the Go standard library's whole-message CBC over the PKCS#7-padded plaintext gives (oracle query 20).

func c08IsLong(in []int64) bool { return len(in) > 0 && (in[0] == 11 || in[0] == 12) }

// The framework asks numOf with the arguments of the call: the case itself (sub 0) or put_list case ++ put_list output
// (sub 2, oracle properties).  A long case has its key length (16/24/32) at index 6 (an ordinary case in judge form has
// its field e = 0/1 there, and its kind <= 8 at index 1).
func c08NumOf(in []int64) int {
	klen := func(x int64) bool { return x == 16 || x == 24 || x == 32 }
	if len(in) > 6 && (in[0] == 11 || in[0] == 12) && klen(in[6]) {
		return 108
	}
	if len(in) > 7 && in[0] >= 40 && (in[1] == 11 || in[1] == 12) && klen(in[7]) {
		return 108
	}
	return 8
}

func c08XProj(in, impl []int64) []int64 {
	if c08IsLong(in) && len(impl) >= 2 && impl[0] == 0 {
		return impl[:2]
	}
	return impl
}

func c08LongText(seed int64, n int) []byte {
	x := uint64(seed)*0x9e3779b97f4a7c15 + 1
	b := make([]byte, n)
	for i := range b {
		x ^= x << 13
		x ^= x >> 7
		x ^= x << 17
		b[i] = byte(x >> 32)
	}
	return b
}

func c08Hash(b []byte) (int64, int64) {
	h := fnv.New64a()
	h.Write(b)
	s := h.Sum64()
	return int64(s >> 32), int64(s & 0xffffffff)
}

func c08LongArgs(in []int64) (kind int64, n int, dmode, seed int64, key, iv []byte, ok bool) {
	if len(in) < 6 || in[1] < 0 || in[1] > 1<<28 {
		return
	}
	l1, r := GetList(in[6:])
	l2, _ := GetList(r)
	return in[0], int(in[1]), in[2], in[3], exact(ToBytes(l1)), exact(ToBytes(l2)), true
}

func c08LongImpl(in []int64) []int64 {
	kind, n, dmode, seed, key, iv, ok := c08LongArgs(in)
	if !ok {
		return []int64{BADCASE}
	}
	p := c08LongText(seed, n)
	src := p
	rlen := n + 16 - n%16
	if kind == 12 {
		src = stdCBC(key, iv, pkcs7Ref(p, 16), true)
		rlen = len(src)
	}
	s1, s2 := c08Hash(src)
	const spare = 64
	var dst, behind []byte
	switch dmode {
	case 0:
		dst = make([]byte, rlen)
		dst = dst[:rlen:rlen]
		src = src[:len(src):len(src)]
	case 1: // in place: the plaintext sits in a buffer that already has room for the padding
		buf := make([]byte, rlen)
		copy(buf, src)
		src, dst = buf[:len(src)], buf[:rlen]
	case 2:
		buf := make([]byte, rlen+spare)
		for i := range buf {
			buf[i] = 0xEE
		}
		dst, behind = buf[:rlen], buf[rlen:]
	default:
		dst = nil
	}
	guard := func() int64 {
		for _, b := range behind {
			if b != 0xEE {
				return 0
			}
		}
		if dmode != 1 {
			if a, b := c08Hash(src); a != s1 || b != s2 {
				return 0 // the source was written to
			}
		}
		return 1
	}
	if kind == 11 {
		if err := cryptz.AESCBCEncrypt(dst, src, key, iv); err != nil {
			return []int64{1, cryptErrCode(err)}
		}
		h1, h2 := c08Hash(dst)
		return []int64{0, int64(len(dst)), h1, h2, guard()}
	}
	m, err := cryptz.AESCBCDecrypt(dst, src, key, iv)
	if err != nil {
		return []int64{1, cryptErrCode(err)}
	}
	if m < 0 || m > len(dst) {
		return []int64{0, int64(m), -1, -1, 0}
	}
	h1, h2 := c08Hash(dst[:m])
	return []int64{0, int64(m), h1, h2, guard()}
}

// query 20 kind n seed key iv -> [length, h_hi, h_lo] of the expected bytes, by the standard library alone
func c08LongOracle(q []int64) []int64 {
	if len(q) < 5 || q[2] < 0 || q[2] > 1<<28 {
		return []int64{-1}
	}
	a := qLists(q[4:], 2)
	if (len(a[0]) != 16 && len(a[0]) != 24 && len(a[0]) != 32) || len(a[1]) != 16 {
		return []int64{-1}
	}
	p := c08LongText(q[3], int(q[2]))
	exp := p
	if q[1] == 11 {
		exp = stdCBC(a[0], a[1], pkcs7Ref(p, 16), true)
	}
	h1, h2 := c08Hash(exp)
	return []int64{int64(len(exp)), h1, h2}
}

func c08LongCase(kind int64, n int, dmode, seed int64, key, iv []byte) []int64 {
	in := []int64{kind, int64(n), dmode, seed, 0, 0}
	in = append(in, PutList(Bytes(key))...)
	return append(in, PutList(Bytes(iv))...)
}

// Lengths: every length from 1 MiB - 16 to 1 MiB + 33 (aligned and unaligned on both sides of a size that a "large input"
// path would be gated on), 2 MiB + 5, a few between 64 KiB and 1 MiB around the powers of two; thorough: also 4 MiB, 16 MiB.
func c08LongGen(c *Ctx) {
	var lens []int
	for n := 1<<20 - 16; n <= 1<<20+33; n++ {
		lens = append(lens, n)
	}
	lens = append(lens, 2<<20+5, 1<<16-1, 1<<16, 1<<16+1, 1<<17+15, 1<<18+16, 1<<19-1, 1<<19+17, 777777)
	if !c.Quick() {
		lens = append(lens, 2<<20, 4<<20-1, 4<<20+1, 4<<20+16, 16<<20+7)
	}
	c.Each(2*len(lens), func(i int, t *T) {
		n := lens[i/2]
		kind := int64(11 + i%2)
		dmode := int64((i/2 + int(c.Seed)) % 3)
		if t.R.Intn(12) == 0 {
			dmode = 3
		}
		key, iv := rbytes(t, c08KeySizes[t.R.Intn(3)]), rbytes(t, 16)
		t.C.Count("long-dst", []string{"separate exact", "in place", "spare capacity", "nil"}[dmode])
		t.Try([]string{"cbc-encrypt-long", "cbc-decrypt-long"}[i%2], c08LongCase(kind, n, dmode, int64(t.R.Intn(1<<30)), key, iv), true)
	})
}

func c08LongDescribe(in []int64) string {
	kind, n, dmode, seed, key, iv, ok := c08LongArgs(in)
	if !ok || dmode < 0 || dmode > 3 {
		return "?"
	}
	return fmt.Sprintf("%s of the %d-byte text c08LongText(seed %d) (xorshift bytes, harness/c08long.go)%s, key %x, iv %x, dst: %s; output = 0 length fnv64-hi fnv64-lo guard",
		map[int64]string{11: "AESCBCEncrypt", 12: "AESCBCDecrypt"}[kind], n, seed,
		map[int64]string{11: "", 12: " encrypted with the standard library's CBC (PKCS#7)"}[kind], key, iv,
		[]string{"separate buffer of exactly the result length", "in place (dst and src start at the same byte)", "result length with 64 bytes of spare capacity (must stay untouched)", "nil"}[dmode])
}
