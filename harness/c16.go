package main

import (
	"fmt"
	"iter"

	"github.com/welllog/golib/dsz"
	"github.com/welllog/golib/setz"
)

// C16: setz.Bits / setz.Bitmap / dsz.Bits as sets of uint.
// case = kind :: ops, op = [code target arg]
//
//	0 Add 1 Remove 2 Contains 3 Len 4 Cap 5 Grow 6 Iter 7 Range(stop after arg calls; 0 = never) 8 All(same)
//	9 Diff 10 Intersect 11 Merge (target op= other)  12 Clone (other := clone of target)
func c16Same(a, b setz.Bitmap) bool {
	var la, lb []uint
	a.Range(func(v uint) bool { la = append(la, v); return true })
	b.Range(func(v uint) bool { lb = append(lb, v); return true })
	if len(la) != len(lb) {
		return false
	}
	for i := range la {
		if la[i] != lb[i] {
			return false
		}
	}
	return true
}

func c16Impl(in []int64) []int64 {
	kind := in[0]
	var out []int64
	ops := in[1:]
	for i := 0; i+2 < len(ops); i += 3 { // Add / Grow of a huge value would allocate the whole set: not a case (the shrinker can produce one)
		if (ops[i] == 0 || ops[i] == 5) && (ops[i+2] < 0 || ops[i+2] > 1<<18) {
			return []int64{BADCASE}
		}
	}
	switch kind {
	case 0: // setz.Bits
		var s [2]setz.Bits
		var fused []int64
		held := [2]iter.Seq[uint]{s[0].All(), s[1].All()} // taken from the zero values
		for i := 0; i+2 < len(ops); i += 3 {
			c, t, a := ops[i], int(ops[i+1]&1), ops[i+2]
			o := 1 - t
			switch c {
			case 0:
				// Add(a) immediately followed by an unbounded Range on the same set, a beyond every member: in every other such
				// pair the Add is made from INSIDE the Range callback, at the last member (a callback that edits the set it
				// ranges over).  Range walks the live words, so the walk must go on to the new member, as Range after the
				// Add does; the Range op that follows is answered with this walk.
				if i+5 < len(ops) && ops[i+3] == 7 && int(ops[i+4]&1) == t && ops[i+5] == 0 && (i/3)%2 == 0 && s[t].Len() > 0 && !s[t].Contains(uint(a)) {
					max := uint(0)
					s[t].Range(func(v uint) bool { max = v; return true })
					if uint(a) > max {
						n0 := s[t].Len()
						var l []int64
						s[t].Range(func(v uint) bool {
							l = append(l, int64(v))
							if len(l) == n0 {
								out = append(out, B(s[t].Add(uint(a))))
							}
							return len(l) < 1<<22
						})
						fused = l
						break
					}
				}
				out = append(out, B(s[t].Add(uint(a))))
			case 1:
				out = append(out, B(s[t].Remove(uint(a))))
			case 2:
				out = append(out, B(s[t].Contains(uint(a))))
			case 3:
				out = append(out, int64(s[t].Len()))
			case 4:
				out = append(out, int64(s[t].Cap()))
			case 5:
				s[t].Grow(uint(a))
			case 6:
				var l []int64
				it := s[t].Iter()
				for n := 0; it.Next() && n < 1<<22; n++ {
					l = append(l, int64(it.Value()))
				}
				out = append(out, PutList(l)...)
			case 7:
				if fused != nil {
					out = append(out, PutList(fused)...)
					fused = nil
					break
				}
				var l []int64
				s[t].Range(func(v uint) bool { l = append(l, int64(v)); return !(a > 0 && int64(len(l)) >= a) })
				out = append(out, PutList(l)...)
			case 8:
				var l []int64
				seq := s[t].All()
				if held[t] != nil && (a+int64(len(out)))%2 == 0 {
					seq = held[t] // obtained earlier: a view of the set when walked, not when made
				}
				if (a+int64(len(out)))%3 != 0 {
					// the same sequence VALUE has been ranged over before (once in full, or left early): every range starts anew
					n := 0
					for range seq {
						if n++; n >= 2 && len(out)%2 == 0 {
							break
						}
					}
				}
				for v := range seq {
					l = append(l, int64(v))
					if a > 0 && int64(len(l)) >= a {
						break
					}
				}
				held[t] = s[t].All()
				out = append(out, PutList(l)...)
			case 9, 10, 11:
				// arg 1 (ignored by the model): when the other set is an equal copy of the receiver (the generator puts a
				// Clone in front), the receiver ITSELF is passed as the operand: s.Diff(s), s.Intersect(s), s.Merge(s).
				// The result must be the same as with the equal copy.
				other := s[o]
				if a == 1 && s[t].Cap() == s[o].Cap() && s[t].Len() == s[o].Len() && c16Same(s[t].Bitmap, s[o].Bitmap) {
					other = s[t]
				}
				switch c {
				case 9:
					s[t].Diff(other)
				case 10:
					s[t].Intersect(other)
				default:
					s[t].Merge(other)
				}
			case 12:
				// setz.Bits has no Clone of its own: the embedded Bitmap's Clone plus the cached length
				cl := setz.Bits{Bitmap: s[t].Bitmap.Clone()}
				cl.Merge(setz.Bits{}) // recount through the public API
				s[o] = cl
			}
		}
	case 1: // setz.Bitmap
		var s [2]setz.Bitmap
		for i := 0; i+2 < len(ops); i += 3 {
			c, t, a := ops[i], int(ops[i+1]&1), ops[i+2]
			o := 1 - t
			switch c {
			case 0:
				out = append(out, B(s[t].Add(uint(a))))
			case 1:
				out = append(out, B(s[t].Remove(uint(a))))
			case 2:
				out = append(out, B(s[t].Contains(uint(a))))
			case 3:
				out = append(out, int64(s[t].Len()))
			case 4:
				out = append(out, int64(s[t].Cap()))
			case 5:
				s[t].Grow(uint(a))
			case 6:
				var l []int64
				it := s[t].Iter()
				for n := 0; it.Next() && n < 1<<22; n++ {
					l = append(l, int64(it.Value()))
				}
				out = append(out, PutList(l)...)
			case 7, 8: // Bitmap has Range only; All is defined on Bits
				var l []int64
				s[t].Range(func(v uint) bool { l = append(l, int64(v)); return !(a > 0 && int64(len(l)) >= a) })
				out = append(out, PutList(l)...)
			case 9, 10, 11:
				other := s[o]
				if a == 1 && s[t].Cap() == s[o].Cap() && c16Same(s[t], s[o]) { // see kind 0
					other = s[t]
				}
				switch c {
				case 9:
					s[t].Diff(other)
				case 10:
					s[t].Intersect(other)
				default:
					s[t].Merge(other)
				}
			case 12:
				s[o] = s[t].Clone()
			}
		}
	default: // dsz.Bits: Add/Remove return nothing; no bulk ops, no Range/All, no Clone
		var s [2]dsz.Bits
		for i := 0; i+2 < len(ops); i += 3 {
			c, t, a := ops[i], int(ops[i+1]&1), ops[i+2]
			switch c {
			case 0:
				s[t].Add(uint(a))
			case 1:
				s[t].Remove(uint(a))
			case 2:
				out = append(out, B(s[t].Contains(uint(a))))
			case 3:
				out = append(out, int64(s[t].Len()))
			case 4:
				out = append(out, int64(s[t].Cap()))
			case 5:
				s[t].Grow(uint(a))
			case 6:
				var l []int64
				it := s[t].Iter()
				for n := 0; it.Next() && n < 1<<22; n++ {
					l = append(l, int64(it.Value()))
				}
				out = append(out, PutList(l)...)
			}
		}
	}
	return out
}

var c16Names = []string{"Add", "Remove", "Contains", "Len", "Cap", "Grow", "Iter", "Range", "All", "Diff", "Intersect", "Merge", "Clone"}

func c16Gen(c *Ctx) {
	boundary := []int64{0, 1, 62, 63, 64, 65, 127, 128, 129}
	// the distinct operations of the small-scope alphabet
	type op3 [3]int64
	alpha := func(kind int64) []op3 {
		var a []op3
		for _, v := range boundary {
			a = append(a, op3{0, 0, v}, op3{1, 0, v}, op3{2, 0, v})
		}
		a = append(a, op3{3, 0, 0}, op3{4, 0, 0}, op3{6, 0, 0}, op3{5, 0, 64}, op3{5, 0, 200})
		if kind != 2 {
			a = append(a, op3{7, 0, 0}, op3{7, 0, 1}, op3{8, 0, 2}, op3{9, 0, 0}, op3{10, 0, 0}, op3{11, 0, 0}, op3{12, 0, 0},
				op3{0, 1, 1}, op3{0, 1, 64}, op3{0, 1, 129}, op3{9, 1, 0}, op3{11, 1, 0}, op3{10, 1, 0})
		}
		return a
	}
	// exhaustive small scope: all sequences of length <= L
	L := c.N(3, 4)
	for kind := int64(0); kind < 3; kind++ {
		al := alpha(kind)
		total := 1
		sizes := []int{1}
		for l := 1; l <= L; l++ {
			total *= len(al)
			sizes = append(sizes, total)
		}
		all := 0
		for _, s := range sizes {
			all += s
		}
		k := kind
		c.Each(all, func(i int, t *T) {
			// index -> sequence
			l := 0
			for i >= sizes[l] {
				i -= sizes[l]
				l++
			}
			in := []int64{k}
			names := map[int64]bool{}
			for j := 0; j < l; j++ {
				o := al[i%len(al)]
				i /= len(al)
				in = append(in, o[0], o[1], o[2])
				names[o[0]] = true
			}
			// observe at the end
			in = append(in, 3, 0, 0, 6, 0, 0)
			t.Try(fmt.Sprintf("exhaustive-kind%d", k), in, l >= 2 && len(names) >= 2)
		})
	}
	c.SetExhaustive()
	c.Note(fmt.Sprintf("exhaustive part: all op sequences of length <= %d over the boundary alphabet, each followed by Len+Iter, for the three types", L))
	// random long sequences
	n := c.N(20000, 300000)
	c.Each(n, func(i int, t *T) {
		r := t.R
		kind := int64(i % 3)
		maxv := int64(400)
		if r.Intn(8) == 0 {
			maxv = 5000
		}
		in := []int64{kind}
		nops := 5 + r.Intn(56)
		kinds := map[int64]bool{}
		for j := 0; j < nops; j++ {
			var code int64
			x := r.Intn(100)
			switch {
			case x < 35:
				code = 0
			case x < 50:
				code = 1
			case x < 60:
				code = 2
			case x < 65:
				code = 3
			case x < 68:
				code = 4
			case x < 71:
				code = 5
			case x < 76:
				code = 6
			case x < 80:
				code = 7
			case x < 84:
				code = 8
			case x < 88:
				code = 9
			case x < 92:
				code = 10
			case x < 96:
				code = 11
			default:
				code = 12
			}
			if kind == 2 && code >= 7 {
				code = int64(r.Intn(7))
			}
			tgt := int64(r.Intn(2))
			var a int64
			switch code {
			case 0, 1, 2, 5:
				if r.Intn(3) == 0 {
					a = boundary[r.Intn(len(boundary))] + 64*int64(r.Intn(3))
				} else if tgt == 1 && r.Intn(2) == 0 {
					a = r.Int63n(maxv/4 + 1) // the second set is usually shorter
				} else {
					a = r.Int63n(maxv)
				}
			case 7, 8:
				a = int64(r.Intn(6))
			}
			// Remove / Contains with huge arguments: a negative token is converted by uint(a) to a value with the top
			// bit set (2^64 + a); also 2^60-sized positive ones.  (Add / Grow would have to allocate such a set.)
			if kind != 2 && (code == 1 || code == 2) && r.Intn(12) == 0 { // (the dsz model walks to the word index: not for huge values)
				a = []int64{-1, -2, -64, -65, -(1 << 60), -(1 << 32), 1 << 60, 1<<60 + 63, 1 << 40, 1<<32 + 1}[r.Intn(10)]
			}
			if code >= 9 && code <= 11 && kind != 2 && r.Intn(4) == 0 { // the receiver as its own operand (after a Clone)
				in = append(in, 12, tgt, 0)
				a = 1
				t.C.Count("op", "self-operand")
			}
			in = append(in, code, tgt, a)
			kinds[code] = true
			t.C.Count("op", c16Names[code])
			if code == 0 && kind == 0 && r.Intn(5) == 0 { // Add ... Range pairs (every other one runs the Add inside the Range callback)
				in = append(in, 7, tgt, 0)
				t.C.Count("op", "Add+Range pair")
			}
		}
		in = append(in, 3, 0, 0, 6, 0, 0, 3, 1, 0, 6, 1, 0)
		t.Try(fmt.Sprintf("random-kind%d", kind), in, nops >= 3 && len(kinds) >= 2)
	})
	// dense sets: whole words filled without a gap (Len == Cap: "universe" sets used to clamp another set), one gap,
	// one extra member, against scattered sets reaching beyond them; every bulk operation in both directions
	c.Each(c.N(1500, 30000), func(i int, t *T) {
		r := t.R
		kind := int64(i % 3)
		in := []int64{kind}
		full := int64(r.Intn(2))
		words := 1 + r.Intn(3)
		if r.Intn(6) == 0 {
			words = 4 + r.Intn(13)
		}
		hi := int64(64 * words)
		gap := int64(-1)
		switch r.Intn(4) {
		case 0:
			gap = r.Int63n(hi)
		case 1:
			gap = hi - 1
		}
		for v := int64(0); v < hi; v++ {
			if v != gap {
				in = append(in, 0, full, v)
			}
		}
		if r.Intn(5) == 0 {
			in = append(in, 0, full, hi+int64(r.Intn(70)))
		}
		oth := 1 - full
		for j, m := 0, 1+r.Intn(7); j < m; j++ {
			var a int64
			switch r.Intn(4) {
			case 0:
				a = r.Int63n(hi)
			case 1:
				a = hi + int64(r.Intn(3)) - 1
			default:
				a = r.Int63n(hi + 200)
			}
			in = append(in, 0, oth, a)
		}
		if r.Intn(3) == 0 {
			in = append(in, 5, oth, r.Int63n(hi+300))
		}
		code := int64(9 + r.Intn(3))
		tgt := int64(r.Intn(2))
		if kind == 2 { // dsz.Bits has no bulk operations: membership over the filled words
			code, tgt = 2, full
		}
		in = append(in, code, tgt, hi-1)
		if r.Intn(3) == 0 {
			in = append(in, 1, tgt, r.Int63n(hi+100), int64(9+r.Intn(3)), 1-tgt, 0)
			if kind == 2 {
				in = in[:len(in)-3]
			}
		}
		in = append(in, 3, 0, 0, 6, 0, 0, 4, 0, 0, 3, 1, 0, 6, 1, 0)
		t.C.Count("op", c16Names[code])
		t.Try(fmt.Sprintf("dense-kind%d", kind), in, true)
	})
}

// shrinking must not turn Remove/Contains of a huge value into Add/Grow of it (which would have to allocate the set)
func c16Shrink(in []int64) [][]int64 {
	var out [][]int64
	for _, c := range ShrinkOps(1, 3)(in) {
		ok := true
		for i := 1; i+2 < len(c); i += 3 {
			if (c[i] == 0 || c[i] == 5) && (c[i+2] < 0 || c[i+2] > 1<<18) {
				ok = false
			}
		}
		if ok {
			out = append(out, c)
		}
	}
	return out
}

func c16Describe(in []int64) string {
	s := []string{"setz.Bits", "setz.Bitmap", "dsz.Bits"}[in[0]%3] + ":"
	for i := 1; i+2 < len(in); i += 3 {
		s += fmt.Sprintf(" %s[%d](%d)", c16Names[in[i]%13], in[i+1], in[i+2])
	}
	return s
}

func init() {
	Register(&Prop{ID: "C16", Pure: true, Num: 16, SpecMode: "equal", Gen: c16Gen, Impl: c16Impl,
		Shrink: c16Shrink, Describe: c16Describe,
		Rule: "exhaustive: every op sequence up to the tier's length over values {0,1,62,63,64,65,127,128,129} (word boundaries) for setz.Bits, setz.Bitmap, dsz.Bits, followed by Len+Iter; random: 5-60 ops over two sets of different word counts mixing element and bulk ops. distinct = distinct op sequence; non-trivial = at least 2 operations of at least 2 kinds before the final observation"})
}
