package main

import (
	"fmt"
	"iter"

	"github.com/welllog/golib/dsz"
	"github.com/welllog/golib/setz"
)

// C16: setz.Bits / setz.Bitmap / dsz.Bits as sets of uint.
// case = kind :: ops, op = [code target arg]
//
//	0 Add 1 Remove 2 Contains 3 Len 4 Cap 5 Grow 6 Iter 7 Range(stop after arg calls; 0 = never) 8 All(same)
//	9 Diff 10 Intersect 11 Merge (target op= other)  12 Clone (other := clone of target)
func c16Same(a, b setz.Bitmap) bool {
	var la, lb []uint
	a.Range(func(v uint) bool { la = append(la, v); return true })
	b.Range(func(v uint) bool { lb = append(lb, v); return true })
	if len(la) != len(lb) {
		return false
	}
	for i := range la {
		if la[i] != lb[i] {
			return false
		}
	}
	return true
}

func c16Impl(in []int64) []int64 {
	kind := in[0]
	var out []int64
	ops := in[1:]
	for i := 0; i+2 < len(ops); i += 3 { // Add / Grow of a huge value would allocate the whole set: not a case (the shrinker can produce one)
		if (ops[i] == 0 || ops[i] == 5) && (ops[i+2] < 0 || ops[i+2] > 1<<18) {
			return []int64{BADCASE}
		}
	}
	if (kind == 0 || kind == 1) && len(ops) >= 3 && ops[0] == 4 && ops[2] == 1 {
		return c16Live(kind, ops) // marked case: the operations are issued from inside the running walks
	}
	if kind >= 0 && kind <= 2 && len(ops) >= 3 && ops[0] == 4 && ops[2] == 2 {
		return c16Held(kind, ops) // marked case: Iter() values are held and resumed between the operations
	}
	switch kind {
	case 0: // setz.Bits
		var s [2]setz.Bits
		var fused []int64
		held := [2]iter.Seq[uint]{s[0].All(), s[1].All()} // taken from the zero values
		for i := 0; i+2 < len(ops); i += 3 {
			c, t, a := ops[i], int(ops[i+1]&1), ops[i+2]
			o := 1 - t
			switch c {
			case 0:
				// Add(a) immediately followed by an unbounded Range on the same set, a beyond every member: in every other such
				// pair the Add is made from INSIDE the Range callback, at the last member (a callback that edits the set it
				// ranges over).  Range walks the live words, so the walk must go on to the new member, as Range after the
				// Add does; the Range op that follows is answered with this walk.
				if i+5 < len(ops) && ops[i+3] == 7 && int(ops[i+4]&1) == t && ops[i+5] == 0 && (i/3)%2 == 0 && s[t].Len() > 0 && !s[t].Contains(uint(a)) {
					max := uint(0)
					s[t].Range(func(v uint) bool { max = v; return true })
					if uint(a) > max {
						n0 := s[t].Len()
						var l []int64
						s[t].Range(func(v uint) bool {
							l = append(l, int64(v))
							if len(l) == n0 {
								out = append(out, B(s[t].Add(uint(a))))
							}
							return len(l) < 1<<22
						})
						fused = l
						break
					}
				}
				out = append(out, B(s[t].Add(uint(a))))
			case 1:
				out = append(out, B(s[t].Remove(uint(a))))
			case 2:
				out = append(out, B(s[t].Contains(uint(a))))
			case 3:
				out = append(out, int64(s[t].Len()))
			case 4:
				out = append(out, int64(s[t].Cap()))
			case 5:
				s[t].Grow(uint(a))
			case 6:
				var l []int64
				it := s[t].Iter()
				for n := 0; it.Next() && n < 1<<22; n++ {
					l = append(l, int64(it.Value()))
				}
				out = append(out, PutList(l)...)
			case 7:
				if fused != nil {
					out = append(out, PutList(fused)...)
					fused = nil
					break
				}
				var l []int64
				s[t].Range(func(v uint) bool { l = append(l, int64(v)); return !(a > 0 && int64(len(l)) >= a) })
				out = append(out, PutList(l)...)
			case 8:
				var l []int64
				seq := s[t].All()
				if held[t] != nil && (a+int64(len(out)))%2 == 0 {
					seq = held[t] // obtained earlier: a view of the set when walked, not when made
				}
				if (a+int64(len(out)))%3 != 0 {
					// the same sequence VALUE has been ranged over before (once in full, or left early): every range starts anew
					n := 0
					for range seq {
						if n++; n >= 2 && len(out)%2 == 0 {
							break
						}
					}
				}
				for v := range seq {
					l = append(l, int64(v))
					if a > 0 && int64(len(l)) >= a {
						break
					}
				}
				held[t] = s[t].All()
				out = append(out, PutList(l)...)
			case 9, 10, 11:
				// arg 1 (ignored by the model): when the other set is an equal copy of the receiver (the generator puts a
				// Clone in front), the receiver ITSELF is passed as the operand: s.Diff(s), s.Intersect(s), s.Merge(s).
				// The result must be the same as with the equal copy.
				other := s[o]
				if a == 1 && s[t].Cap() == s[o].Cap() && s[t].Len() == s[o].Len() && c16Same(s[t].Bitmap, s[o].Bitmap) {
					other = s[t]
				}
				switch c {
				case 9:
					s[t].Diff(other)
				case 10:
					s[t].Intersect(other)
				default:
					s[t].Merge(other)
				}
			case 12:
				// setz.Bits has no Clone of its own: the embedded Bitmap's Clone plus the cached length
				cl := setz.Bits{Bitmap: s[t].Bitmap.Clone()}
				cl.Merge(setz.Bits{}) // recount through the public API
				s[o] = cl
			}
		}
	case 1: // setz.Bitmap
		var s [2]setz.Bitmap
		for i := 0; i+2 < len(ops); i += 3 {
			c, t, a := ops[i], int(ops[i+1]&1), ops[i+2]
			o := 1 - t
			switch c {
			case 0:
				out = append(out, B(s[t].Add(uint(a))))
			case 1:
				out = append(out, B(s[t].Remove(uint(a))))
			case 2:
				out = append(out, B(s[t].Contains(uint(a))))
			case 3:
				out = append(out, int64(s[t].Len()))
			case 4:
				out = append(out, int64(s[t].Cap()))
			case 5:
				s[t].Grow(uint(a))
			case 6:
				var l []int64
				it := s[t].Iter()
				for n := 0; it.Next() && n < 1<<22; n++ {
					l = append(l, int64(it.Value()))
				}
				out = append(out, PutList(l)...)
			case 7, 8: // Bitmap has Range only; All is defined on Bits
				var l []int64
				s[t].Range(func(v uint) bool { l = append(l, int64(v)); return !(a > 0 && int64(len(l)) >= a) })
				out = append(out, PutList(l)...)
			case 9, 10, 11:
				other := s[o]
				if a == 1 && s[t].Cap() == s[o].Cap() && c16Same(s[t], s[o]) { // see kind 0
					other = s[t]
				}
				switch c {
				case 9:
					s[t].Diff(other)
				case 10:
					s[t].Intersect(other)
				default:
					s[t].Merge(other)
				}
			case 12:
				s[o] = s[t].Clone()
			}
		}
	default: // dsz.Bits: Add/Remove return nothing; no bulk ops, no Range/All, no Clone
		var s [2]dsz.Bits
		for i := 0; i+2 < len(ops); i += 3 {
			c, t, a := ops[i], int(ops[i+1]&1), ops[i+2]
			switch c {
			case 0:
				s[t].Add(uint(a))
			case 1:
				s[t].Remove(uint(a))
			case 2:
				out = append(out, B(s[t].Contains(uint(a))))
			case 3:
				out = append(out, int64(s[t].Len()))
			case 4:
				out = append(out, int64(s[t].Cap()))
			case 5:
				s[t].Grow(uint(a))
			case 6:
				var l []int64
				it := s[t].Iter()
				for n := 0; it.Next() && n < 1<<22; n++ {
					l = append(l, int64(it.Value()))
				}
				out = append(out, PutList(l)...)
			case 7, 8: // dsz.Bits has no Range / All: the first a values of a fresh iterator (a = 0: all), as the model answers
				var l []int64
				it := s[t].Iter()
				for n := 0; !(a > 0 && int64(len(l)) >= a) && it.Next() && n < 1<<22; n++ {
					l = append(l, int64(it.Value()))
				}
				out = append(out, PutList(l)...)
			}
		}
	}
	return out
}

// ---------------------------------------------------------------- live walks
// A case whose first operation is Cap[.](1) (the argument of Cap is ignored by model and specification) is run with
// callbacks that are not passive.  Range(k) / All(k) with k > 0 does not end at its k-th value: the operations that follow
// in the case are issued from INSIDE that k-th call of the callback (element operations, Grow, the bulk operations, Clone,
// on either set: any number of them), and the next Range / All operation on the same set is answered by letting the same
// walk go on.  Range, All read the live set (bits and word count are read again after every call of the callback), so
// for a walk standing at the value v, after the set has become S,
//
//	Range(k') on S  =  first k' of ( members of S that are <= v, ascending  ++  what the walk still reports )
//
// i.e. the walk must go on with exactly the members of the set as it is NOW that are greater than v: nothing removed in the
// meantime, everything added in the meantime (below, in and beyond the word the walk stands in, before and after the set
// was reallocated by a growth).  The members <= v are read with Contains.  k' = 0 lets the walk run to its end; when a walk
// ends by itself the rest of the case runs outside it; at the end of the case the callback returns false.  The case stays a
// plain operation sequence for model and specification, which know nothing of the nesting.  A call of the callback after
// it returned false is written into the output (tokens -7, value), which no specification output contains.
type c16API struct {
	add, remove, contains func(t int, v uint) bool
	length, capacity      func(t int) int
	grow                  func(t int, v uint)
	iter                  func(t int) []int64
	walk                  func(t int, all bool, fn func(uint) bool)
	bulk                  func(c int64, t int, self bool)
	clone                 func(t int)
	newIter               func(t int) func() (uint, bool) // a held iterator: every call is one Next (+ Value)
	quiet                 bool                            // Add / Remove return nothing (dsz.Bits)
}

func c16Drain(it setz.BitmapIter) []int64 {
	var l []int64
	for n := 0; it.Next() && n < 1<<22; n++ {
		l = append(l, int64(it.Value()))
	}
	return l
}

func c16MakeAPI(kind int64) *c16API {
	if kind == 0 {
		s := new([2]setz.Bits)
		return &c16API{
			add:      func(t int, v uint) bool { return s[t].Add(v) },
			remove:   func(t int, v uint) bool { return s[t].Remove(v) },
			contains: func(t int, v uint) bool { return s[t].Contains(v) },
			length:   func(t int) int { return s[t].Len() },
			capacity: func(t int) int { return s[t].Cap() },
			grow:     func(t int, v uint) { s[t].Grow(v) },
			iter:     func(t int) []int64 { return c16Drain(s[t].Iter()) },
			newIter: func(t int) func() (uint, bool) {
				it := s[t].Iter()
				return func() (uint, bool) {
					if !it.Next() {
						return 0, false
					}
					return it.Value(), true
				}
			},
			walk: func(t int, all bool, fn func(uint) bool) {
				if all {
					s[t].All()(fn)
				} else {
					s[t].Range(fn)
				}
			},
			bulk: func(c int64, t int, self bool) {
				other := s[1-t]
				if self && s[t].Cap() == s[1-t].Cap() && s[t].Len() == s[1-t].Len() && c16Same(s[t].Bitmap, s[1-t].Bitmap) {
					other = s[t]
				}
				switch c {
				case 9:
					s[t].Diff(other)
				case 10:
					s[t].Intersect(other)
				default:
					s[t].Merge(other)
				}
			},
			clone: func(t int) {
				cl := setz.Bits{Bitmap: s[t].Bitmap.Clone()}
				cl.Merge(setz.Bits{})
				s[1-t] = cl
			},
		}
	}
	if kind == 2 {
		s := new([2]dsz.Bits)
		return &c16API{
			quiet:    true,
			add:      func(t int, v uint) bool { s[t].Add(v); return false },
			remove:   func(t int, v uint) bool { s[t].Remove(v); return false },
			contains: func(t int, v uint) bool { return s[t].Contains(v) },
			length:   func(t int) int { return s[t].Len() },
			capacity: func(t int) int { return s[t].Cap() },
			grow:     func(t int, v uint) { s[t].Grow(v) },
			iter: func(t int) []int64 {
				var l []int64
				it := s[t].Iter()
				for n := 0; it.Next() && n < 1<<22; n++ {
					l = append(l, int64(it.Value()))
				}
				return l
			},
			newIter: func(t int) func() (uint, bool) {
				it := s[t].Iter()
				return func() (uint, bool) {
					if !it.Next() {
						return 0, false
					}
					return it.Value(), true
				}
			},
		}
	}
	s := new([2]setz.Bitmap)
	return &c16API{
		newIter: func(t int) func() (uint, bool) {
			it := s[t].Iter()
			return func() (uint, bool) {
				if !it.Next() {
					return 0, false
				}
				return it.Value(), true
			}
		},
		add:      func(t int, v uint) bool { return s[t].Add(v) },
		remove:   func(t int, v uint) bool { return s[t].Remove(v) },
		contains: func(t int, v uint) bool { return s[t].Contains(v) },
		length:   func(t int) int { return s[t].Len() },
		capacity: func(t int) int { return s[t].Cap() },
		grow:     func(t int, v uint) { s[t].Grow(v) },
		iter:     func(t int) []int64 { return c16Drain(s[t].Iter()) },
		walk:     func(t int, all bool, fn func(uint) bool) { s[t].Range(fn) },
		bulk: func(c int64, t int, self bool) {
			other := s[1-t]
			if self && s[t].Cap() == s[1-t].Cap() && c16Same(s[t], s[1-t]) {
				other = s[t]
			}
			switch c {
			case 9:
				s[t].Diff(other)
			case 10:
				s[t].Intersect(other)
			default:
				s[t].Merge(other)
			}
		},
		clone: func(t int) { s[1-t] = s[t].Clone() },
	}
}

// ---------------------------------------------------------------- held iterators
// A case whose first operation is Cap[.](2) is run with iterators that are HELD across operations (all three types).  The
// first Iter / Range(k) / All(k) operation on a set takes `it := s.Iter()` and keeps it; it is answered with the values of
// k calls of Next (Iter, k = 0: until Next returns false).  The operations that follow are made BETWEEN two Next calls of
// that iterator; the next Iter / Range / All operation on the same set is answered by RESUMING the held iterator (one per
// set, both sets can have one).
// What the property requires of a resumed iterator ("Iter enumerates exactly the members in ascending order" over "all
// interleavings of bulk and element operations"; the code re-reads the live word at every Next): every Next hands out the
// least member OF THE SET AS IT IS AT THAT CALL that is greater than the value handed out last - the members above the
// cursor at the time of each Next, never a value that is not a member at that moment, never skipping one that is.  Hence,
// for an iterator standing at v when the set has become S,
//
//	Iter / Range(k') on S  =  first k' of ( members of S that are <= v (read with Contains)  ++  what the iterator still yields )
//
// and the case stays a plain operation sequence for model and specification.  An iterator whose Next returned false is
// dropped (what a finished iterator does after a later growth is not constrained by the property): the next such
// operation takes a fresh one.
func c16Held(kind int64, ops []int64) []int64 {
	api := c16MakeAPI(kind)
	var out []int64
	var held [2]func() (uint, bool)
	var pos [2]uint
	for i := 0; i+2 < len(ops); i += 3 {
		c, t, a := ops[i], int(ops[i+1]&1), ops[i+2]
		if c < 6 || c > 8 {
			c16Plain(api, &out, c, t, a)
			continue
		}
		if c == 6 {
			a = 0
		}
		var seg []int64
		if held[t] == nil {
			held[t] = api.newIter(t)
		} else {
			for u := uint(0); u <= pos[t]; u++ {
				if api.contains(t, u) {
					seg = append(seg, int64(u))
				}
			}
			if a > 0 && int64(len(seg)) >= a { // answered by the members at or below the cursor: the iterator rests
				out = append(out, PutList(seg[:a])...)
				continue
			}
		}
		for n := 0; !(a > 0 && int64(len(seg)) >= a) && n < 1<<22; n++ {
			v, ok := held[t]()
			if !ok {
				held[t] = nil
				break
			}
			seg = append(seg, int64(v))
			pos[t] = v
		}
		out = append(out, PutList(seg)...)
	}
	return out
}

func c16Plain(api *c16API, outp *[]int64, c int64, t int, a int64) {
	out := *outp
	defer func() { *outp = out }()
	switch c {
	case 0:
		if r := api.add(t, uint(a)); !api.quiet {
			out = append(out, B(r))
		}
	case 1:
		if r := api.remove(t, uint(a)); !api.quiet {
			out = append(out, B(r))
		}
	case 2:
		out = append(out, B(api.contains(t, uint(a))))
	case 3:
		out = append(out, int64(api.length(t)))
	case 4:
		out = append(out, int64(api.capacity(t)))
	case 5:
		api.grow(t, uint(a))
	case 6:
		out = append(out, PutList(api.iter(t))...)
	case 9, 10, 11:
		if api.bulk != nil {
			api.bulk(c, t, a == 1)
		}
	case 12:
		if api.clone != nil {
			api.clone(t)
		}
	}
}

func c16Live(kind int64, ops []int64) []int64 {
	api := c16MakeAPI(kind)
	var out []int64
	plain := func(c int64, t int, a int64) {
		switch c {
		case 0:
			out = append(out, B(api.add(t, uint(a))))
		case 1:
			out = append(out, B(api.remove(t, uint(a))))
		case 2:
			out = append(out, B(api.contains(t, uint(a))))
		case 3:
			out = append(out, int64(api.length(t)))
		case 4:
			out = append(out, int64(api.capacity(t)))
		case 5:
			api.grow(t, uint(a))
		case 6:
			out = append(out, PutList(api.iter(t))...)
		case 9, 10, 11:
			api.bulk(c, t, a == 1)
		case 12:
			api.clone(t)
		}
	}
	i := 0
	for i+2 < len(ops) {
		c, t, a := ops[i], int(ops[i+1]&1), ops[i+2]
		i += 3
		if c != 7 && c != 8 {
			plain(c, t, a)
			continue
		}
		var seg []int64 // the answer to the Range / All operation that is being answered
		need, pending, stopped, calls := a, true, false, 0
		api.walk(t, c == 8, func(v uint) bool {
			if stopped {
				out = append(out, -7, int64(v))
				return false
			}
			seg = append(seg, int64(v))
			if calls++; need <= 0 || int64(len(seg)) < need {
				if calls >= 1<<22 {
					stopped = true
				}
				return !stopped
			}
			out = append(out, PutList(seg)...)
			pending = false
			for i+2 < len(ops) { // the walk stands at v: the following operations are issued from here
				c2, t2, a2 := ops[i], int(ops[i+1]&1), ops[i+2]
				i += 3
				if (c2 != 7 && c2 != 8) || t2 != t {
					if c2 == 7 || c2 == 8 { // a walk of the other set, started from inside this one: passive
						var l []int64
						api.walk(t2, c2 == 8, func(w uint) bool { l = append(l, int64(w)); return !(a2 > 0 && int64(len(l)) >= a2) })
						out = append(out, PutList(l)...)
					} else {
						plain(c2, t2, a2)
					}
					continue
				}
				var pre []int64
				for u := uint(0); u <= v; u++ {
					if api.contains(t, u) {
						pre = append(pre, int64(u))
					}
				}
				if a2 > 0 && int64(len(pre)) >= a2 {
					out = append(out, PutList(pre[:a2])...)
					continue
				}
				seg, need, pending = pre, a2, true
				return true
			}
			stopped = true
			return false
		})
		if pending {
			out = append(out, PutList(seg)...)
		}
	}
	return out
}

var c16Names = []string{"Add", "Remove", "Contains", "Len", "Cap", "Grow", "Iter", "Range", "All", "Diff", "Intersect", "Merge", "Clone"}

func c16Gen(c *Ctx) {
	boundary := []int64{0, 1, 62, 63, 64, 65, 127, 128, 129}
	// the distinct operations of the small-scope alphabet
	type op3 [3]int64
	alpha := func(kind int64) []op3 {
		var a []op3
		for _, v := range boundary {
			a = append(a, op3{0, 0, v}, op3{1, 0, v}, op3{2, 0, v})
		}
		a = append(a, op3{3, 0, 0}, op3{4, 0, 0}, op3{6, 0, 0}, op3{5, 0, 64}, op3{5, 0, 200})
		if kind != 2 {
			a = append(a, op3{7, 0, 0}, op3{7, 0, 1}, op3{8, 0, 2}, op3{9, 0, 0}, op3{10, 0, 0}, op3{11, 0, 0}, op3{12, 0, 0},
				op3{0, 1, 1}, op3{0, 1, 64}, op3{0, 1, 129}, op3{9, 1, 0}, op3{11, 1, 0}, op3{10, 1, 0})
		}
		return a
	}
	// exhaustive small scope: all sequences of length <= L
	L := c.N(3, 4)
	for kind := int64(0); kind < 3; kind++ {
		al := alpha(kind)
		total := 1
		sizes := []int{1}
		for l := 1; l <= L; l++ {
			total *= len(al)
			sizes = append(sizes, total)
		}
		all := 0
		for _, s := range sizes {
			all += s
		}
		k := kind
		c.Each(all, func(i int, t *T) {
			// index -> sequence
			l := 0
			for i >= sizes[l] {
				i -= sizes[l]
				l++
			}
			in := []int64{k}
			names := map[int64]bool{}
			for j := 0; j < l; j++ {
				o := al[i%len(al)]
				i /= len(al)
				in = append(in, o[0], o[1], o[2])
				names[o[0]] = true
			}
			// observe at the end
			in = append(in, 3, 0, 0, 6, 0, 0)
			t.Try(fmt.Sprintf("exhaustive-kind%d", k), in, l >= 2 && len(names) >= 2)
		})
	}
	c.SetExhaustive()
	c.Note(fmt.Sprintf("exhaustive part: all op sequences of length <= %d over the boundary alphabet, each followed by Len+Iter, for the three types", L))
	// random long sequences
	n := c.N(20000, 300000)
	c.Each(n, func(i int, t *T) {
		r := t.R
		kind := int64(i % 3)
		maxv := int64(400)
		if r.Intn(8) == 0 {
			maxv = 5000
		}
		in := []int64{kind}
		nops := 5 + r.Intn(56)
		kinds := map[int64]bool{}
		for j := 0; j < nops; j++ {
			var code int64
			x := r.Intn(100)
			switch {
			case x < 35:
				code = 0
			case x < 50:
				code = 1
			case x < 60:
				code = 2
			case x < 65:
				code = 3
			case x < 68:
				code = 4
			case x < 71:
				code = 5
			case x < 76:
				code = 6
			case x < 80:
				code = 7
			case x < 84:
				code = 8
			case x < 88:
				code = 9
			case x < 92:
				code = 10
			case x < 96:
				code = 11
			default:
				code = 12
			}
			if kind == 2 && code >= 7 {
				code = int64(r.Intn(7))
			}
			tgt := int64(r.Intn(2))
			var a int64
			switch code {
			case 0, 1, 2, 5:
				if r.Intn(3) == 0 {
					a = boundary[r.Intn(len(boundary))] + 64*int64(r.Intn(3))
				} else if tgt == 1 && r.Intn(2) == 0 {
					a = r.Int63n(maxv/4 + 1) // the second set is usually shorter
				} else {
					a = r.Int63n(maxv)
				}
			case 7, 8:
				a = int64(r.Intn(6))
			}
			// Remove / Contains with huge arguments: a negative token is converted by uint(a) to a value with the top
			// bit set (2^64 + a); also 2^60-sized positive ones.  (Add / Grow would have to allocate such a set.)
			if kind != 2 && (code == 1 || code == 2) && r.Intn(12) == 0 { // (the dsz model walks to the word index: not for huge values)
				a = []int64{-1, -2, -64, -65, -(1 << 60), -(1 << 32), 1 << 60, 1<<60 + 63, 1 << 40, 1<<32 + 1}[r.Intn(10)]
			}
			if code >= 9 && code <= 11 && kind != 2 && r.Intn(4) == 0 { // the receiver as its own operand (after a Clone)
				in = append(in, 12, tgt, 0)
				a = 1
				t.C.Count("op", "self-operand")
			}
			in = append(in, code, tgt, a)
			kinds[code] = true
			t.C.Count("op", c16Names[code])
			if code == 0 && kind == 0 && r.Intn(5) == 0 { // Add ... Range pairs (every other one runs the Add inside the Range callback)
				in = append(in, 7, tgt, 0)
				t.C.Count("op", "Add+Range pair")
			}
		}
		in = append(in, 3, 0, 0, 6, 0, 0, 3, 1, 0, 6, 1, 0)
		t.Try(fmt.Sprintf("random-kind%d", kind), in, nops >= 3 && len(kinds) >= 2)
	})
	// dense sets: whole words filled without a gap (Len == Cap: "universe" sets used to clamp another set), one gap,
	// one extra member, against scattered sets reaching beyond them; every bulk operation in both directions
	c.Each(c.N(1500, 30000), func(i int, t *T) {
		r := t.R
		kind := int64(i % 3)
		in := []int64{kind}
		full := int64(r.Intn(2))
		words := 1 + r.Intn(3)
		if r.Intn(6) == 0 {
			words = 4 + r.Intn(13)
		}
		hi := int64(64 * words)
		gap := int64(-1)
		switch r.Intn(4) {
		case 0:
			gap = r.Int63n(hi)
		case 1:
			gap = hi - 1
		}
		for v := int64(0); v < hi; v++ {
			if v != gap {
				in = append(in, 0, full, v)
			}
		}
		if r.Intn(5) == 0 {
			in = append(in, 0, full, hi+int64(r.Intn(70)))
		}
		oth := 1 - full
		for j, m := 0, 1+r.Intn(7); j < m; j++ {
			var a int64
			switch r.Intn(4) {
			case 0:
				a = r.Int63n(hi)
			case 1:
				a = hi + int64(r.Intn(3)) - 1
			default:
				a = r.Int63n(hi + 200)
			}
			in = append(in, 0, oth, a)
		}
		if r.Intn(3) == 0 {
			in = append(in, 5, oth, r.Int63n(hi+300))
		}
		code := int64(9 + r.Intn(3))
		tgt := int64(r.Intn(2))
		if kind == 2 { // dsz.Bits has no bulk operations: membership over the filled words
			code, tgt = 2, full
		}
		in = append(in, code, tgt, hi-1)
		if r.Intn(3) == 0 {
			in = append(in, 1, tgt, r.Int63n(hi+100), int64(9+r.Intn(3)), 1-tgt, 0)
			if kind == 2 {
				in = in[:len(in)-3]
			}
		}
		in = append(in, 3, 0, 0, 6, 0, 0, 4, 0, 0, 3, 1, 0, 6, 1, 0)
		t.C.Count("op", c16Names[code])
		t.Try(fmt.Sprintf("dense-kind%d", kind), in, true)
	})
	// live walks (see c16Live): the operations after Range(k) / All(k), k > 0, are issued from inside the k-th call of the
	// callback, the next Range / All on that set continues the same walk.
	// (a) small scope, complete: four 3-member sets x the walk standing at the 1st / 2nd member x every sequence of <= 2
	// (thorough: 3) edits out of 19 (Adds below / in / beyond the current word and beyond the capacity, Removes of visited
	// and not yet visited members, Grow, Merge of a longer set), then the walk runs to its end.
	// The same two families are run a second time as HELD ITERATORS (marker Cap(2), see c16Held; there also for dsz.Bits,
	// without the bulk operations): the walk is `it := s.Iter()` advanced by Next, the operations lie between two Next calls.
	for _, mk := range []int64{1, 2} {
		mk, nk, fam := mk, int(mk)+1, []string{"", "live-walk", "held-iter"}[mk]
		bases := [][3]int64{{1, 2, 3}, {1, 3, 64}, {63, 64, 70}, {5, 64, 130}}
		var ed [][3]int64
		for _, v := range []int64{0, 2, 4, 62, 63, 65, 100, 127, 1000, 5000} {
			ed = append(ed, [3]int64{0, 0, v})
		}
		for _, v := range []int64{1, 2, 3, 63, 64, 70} {
			ed = append(ed, [3]int64{1, 0, v})
		}
		ed = append(ed, [3]int64{5, 0, 1000}, [3]int64{11, 0, 0}, [3]int64{10, 0, 0})
		L := c.N(2, 3)
		per := 0
		for l, m := 0, 1; l <= L; l, m = l+1, m*len(ed) {
			per += m
		}
		c.Each(nk*len(bases)*2*2*per, func(i int, t *T) {
			kind := int64(i % nk)
			i /= nk
			b := bases[i%len(bases)]
			i /= len(bases)
			k := int64(1 + i%2)
			i /= 2
			walk := int64(7 + i%2) // Range / All (setz.Bitmap: Range both times)
			i /= 2
			l := 0
			for m := 1; i >= m; m *= len(ed) {
				i -= m
				l++
			}
			in := []int64{kind, 4, 0, mk, 0, 1, 2, 0, 1, 200, 0, 0, b[0], 0, 0, b[1], 0, 0, b[2], walk, 0, k}
			for j := 0; j < l; j++ {
				e := ed[i%len(ed)]
				i /= len(ed)
				if kind == 2 && e[0] >= 9 { // dsz.Bits has no bulk operations: a Remove in the second word instead
					e = [3]int64{1, 0, 64 + e[0]}
				}
				in = append(in, e[0], e[1], e[2])
			}
			if mk == 2 && walk == 8 {
				in = append(in, 6, 0, 0, 3, 0, 0, 4, 0, 0) // the held iterator is resumed by a plain Iter operation
			} else {
				in = append(in, 15-walk, 0, 0, 3, 0, 0, 6, 0, 0, 4, 0, 0)
			}
			t.Try(fmt.Sprintf("%s-small-kind%d", fam, kind), in, l >= 1)
		})
		// (b) random: 2-7 members in one word (sometimes a second word, sometimes room grown in advance), a walk stopped at
		// the 1st-3rd member, groups of 1-4 operations from inside the callback (a growth beyond the capacity - Add, Grow or
		// Merge of a longer set - followed by changes of values of the word the walk stands in, most of them above the
		// position), the walk continued for a few members or to its end, up to three such groups.
		c.Each(c.N(8000, 150000), func(i int, t *T) {
			r := t.R
			kind := int64(i % nk)
			tg := int64(r.Intn(2))
			in := []int64{kind, 4, int64(r.Intn(2)), mk}
			base := 64 * int64([]int{0, 0, 0, 1, 1, 2, 5, 17}[r.Intn(8)])
			top := base + 64
			if r.Intn(4) == 0 {
				top = base + 64*int64(1+r.Intn(4))
				in = append(in, 5, tg, top-1)
			}
			mem := map[int64]bool{}
			for j, m := 0, 2+r.Intn(6); j < m; j++ {
				v := base + int64(r.Intn(64))
				if r.Intn(6) == 0 {
					v += 64
				}
				if v >= top {
					top = (v/64 + 1) * 64
				}
				mem[v] = true
				in = append(in, 0, tg, v)
			}
			for j, m := 0, r.Intn(4); j < m; j++ { // the other set: longer, for Merge from inside the callback
				in = append(in, 0, 1-tg, []int64{r.Int63n(64), base + r.Int63n(64), top + r.Int63n(700)}[r.Intn(3)])
			}
			walkOp := func() int64 { return int64(7 + r.Intn(2)) }
			if mk == 2 {
				walkOp = func() int64 { return int64(6 + r.Intn(3)) } // Iter: the held iterator is drained
			}
			pos := int64(-1) // the value the walk stands at (as far as the generator can tell: used to aim, not to judge)
			k := int64(1 + r.Intn(3))
			for n := int64(0); n < k; {
				if pos++; mem[pos] {
					n++
				} else if pos > top {
					break
				}
			}
			in = append(in, walkOp(), tg, k)
			edits := 0
			for g, groups := 0, 1+r.Intn(3); g < groups; g++ {
				grown := false
				for j, m := 0, 1+r.Intn(4); j < m; j++ {
					x := r.Intn(10)
					if j == 0 && r.Intn(2) == 0 {
						x = 0
					} else if grown && r.Intn(2) == 0 {
						x = 3
					}
					word := pos / 64 * 64
					switch {
					case x < 2: // growth beyond the capacity
						grown = true
						far := top + 64*int64(r.Intn(3)) + int64(r.Intn(64))
						if r.Intn(3) == 0 {
							far = top + r.Int63n(4000)
						}
						top = (far/64 + 1) * 64
						switch r.Intn(4) {
						case 0:
							in = append(in, 5, tg, far)
						case 1:
							if kind == 2 {
								in = append(in, 0, tg, far)
							} else {
								in = append(in, 0, 1-tg, far, 11, tg, 0)
							}
						default:
							in = append(in, 0, tg, far)
						}
					case x < 6: // a value of the current word, mostly above the position
						v := word + int64(r.Intn(64))
						if pos%64 < 63 && r.Intn(4) != 0 {
							v = pos + 1 + r.Int63n(63-pos%64)
						}
						in = append(in, int64(r.Intn(2)), tg, v)
					case x < 7: // the current value, or one near it in the neighbouring words
						in = append(in, int64(r.Intn(2)), tg, []int64{pos, word + 64, word + 64 + r.Int63n(64), r.Int63n(top)}[r.Intn(4)])
					case x < 8:
						in = append(in, int64(2+r.Intn(3)), tg, pos+int64(r.Intn(3)))
					case x < 9 && kind != 2:
						in = append(in, int64(9+r.Intn(3)), tg, 0)
					case r.Intn(3) == 0: // a walk of the other set in between (held mode: a second held iterator)
						in = append(in, walkOp(), 1-tg, int64(1+r.Intn(3)))
					default:
						in = append(in, int64(r.Intn(2)), 1-tg, r.Int63n(top))
					}
					edits++
				}
				k2 := int64(0)
				if g+1 < groups || r.Intn(3) == 0 {
					k2 = int64(1 + r.Intn(6))
				}
				in = append(in, walkOp(), tg, k2)
				pos += int64(r.Intn(8)) // roughly
			}
			in = append(in, 3, 0, 0, 6, 0, 0, 4, 0, 0, 3, 1, 0, 6, 1, 0)
			t.C.Count("op", fam)
			t.Try(fmt.Sprintf("%s-kind%d", fam, kind), in, edits >= 2)
		})
	}
}

// shrinking must not turn Remove/Contains of a huge value into Add/Grow of it (which would have to allocate the set)
func c16Shrink(in []int64) [][]int64 {
	var out [][]int64
	for _, c := range ShrinkOps(1, 3)(in) {
		ok := true
		for i := 1; i+2 < len(c); i += 3 {
			if (c[i] == 0 || c[i] == 5) && (c[i+2] < 0 || c[i+2] > 1<<18) {
				ok = false
			}
		}
		if ok {
			out = append(out, c)
		}
	}
	return out
}

func c16Describe(in []int64) string {
	s := []string{"setz.Bits", "setz.Bitmap", "dsz.Bits"}[in[0]%3] + ":"
	if len(in) > 3 && in[0] < 2 && in[1] == 4 && in[3] == 1 {
		s += " [live walks: the operations after Range/All(k>0) are issued from inside the k-th call of its callback, the next Range/All on that set continues the same walk]"
	}
	if len(in) > 3 && in[0] <= 2 && in[1] == 4 && in[3] == 2 {
		s += " [held iterators: the first Iter/Range/All(k) on a set keeps it := s.Iter() after k calls of Next, the following operations lie between two Next calls, the next Iter/Range/All on that set resumes the same iterator]"
	}
	for i := 1; i+2 < len(in); i += 3 {
		s += fmt.Sprintf(" %s[%d](%d)", c16Names[in[i]%13], in[i+1], in[i+2])
	}
	return s
}

func init() {
	Register(&Prop{ID: "C16", Pure: true, Num: 16, SpecMode: "equal", Gen: c16Gen, Impl: c16Impl,
		Shrink: c16Shrink, Describe: c16Describe,
		Rule: "exhaustive: every op sequence up to the tier's length over values {0,1,62,63,64,65,127,128,129} (word boundaries) for setz.Bits, setz.Bitmap, dsz.Bits, followed by Len+Iter; random: 5-60 ops over two sets of different word counts mixing element and bulk ops. distinct = distinct op sequence; non-trivial = at least 2 operations of at least 2 kinds before the final observation. live walks: cases marked by a leading Cap(1) issue the operations that follow Range/All(k>0) from inside the k-th callback call and let the next Range/All on that set continue the same walk (complete small scope + random groups: growth beyond the capacity followed by changes in the word the walk stands in); non-trivial = at least 1 (small scope) / 2 (random) operations issued from inside a callback. held iterators: the same two families with a leading Cap(2), for all three types: Iter/Range/All(k) advance one held s.Iter() by k calls of Next, the operations in between lie between two Next calls (every Next must hand out the least current member above the last value)"})
}
