package main

import (
	"fmt"
	"math"
	"sort"

	"github.com/welllog/golib/algz"
)

// C18: algz.Knapsack / FindDpSolvers / DpSolvers.Best / BestAllowMinOverflow / Graph.GetMaximalCliques.
// Items are their indices (T = int).  Encodings: see coq/Run/C18.v.
//   0 Knapsack [0 W bk salt n (w v)*]            1 FindDpSolvers [1 maxV allow bk salt n v* q query*]
//   2 Best on a hand-made map [2 n key* q query*] 3 GetMaximalCliques [3 n bit*]

func c18Hash(l []int) int64 {
	a := int64(7)
	for _, i := range l {
		a = (a*31 + int64(i) + 1) % 1000003
	}
	return a
}

func c18Breaker(kind, salt int64) []func(old, new []int) bool {
	switch kind {
	case 0:
		if salt%2 != 0 { // presentation only (the model ignores the salt here): an explicit nil function is "no tie-breaker" too
			return []func(old, new []int) bool{nil}
		}
		return nil
	case 1:
		return []func(old, new []int) bool{func(old, new []int) bool { return true }}
	case 2:
		return []func(old, new []int) bool{func(old, new []int) bool { return false }}
	case 3:
		return []func(old, new []int) bool{func(old, new []int) bool { return len(new) < len(old) }}
	default:
		return []func(old, new []int) bool{func(old, new []int) bool {
			return ((c18Hash(old)*17+c18Hash(new)+salt)%2+2)%2 == 1
		}}
	}
}

// unliftable items: the weight tokens 1000+j, 1100+j, 1200 stand for MaxInt-j, MaxInt/2+1+j and 2^62 in the call of the
// implementation.  For the model they are the weights 1000.. (no limit of a case reaches them; it computes in Z, where
// nothing wraps); for the implementation they are the values whose sums wrap around.
func c18Weight(t int64) int {
	switch {
	case t >= 1200:
		return 1 << 62
	case t >= 1100:
		return math.MaxInt64/2 + 1 + int(t-1100)
	case t >= 1000:
		return math.MaxInt64 - int(t-1000)
	}
	return int(t)
}

func c18Ints(l []int) []int64 {
	o := make([]int64, len(l))
	for i, x := range l {
		o[i] = int64(x)
	}
	return o
}

func c18Impl(in []int64) []int64 {
	switch in[0] {
	case 0:
		W, bk, salt, n := in[1], in[2], in[3], int(in[4])
		w := make([]int, n)
		v := make([]int, n)
		items := make([]int, n)
		for i := 0; i < n; i++ {
			w[i], v[i], items[i] = c18Weight(in[5+2*i]), int(in[6+2*i]), i
		}
		r := algz.Knapsack(int(W), items, func(i int) int { return w[i] }, func(i int) int { return v[i] }, c18Breaker(bk, salt)...)
		return c18Ints(r)
	case 1:
		maxV, allow, bk, salt, n := in[1], in[2] != 0, in[3], in[4], int(in[5])
		v := make([]int, n)
		items := make([]int, n)
		for i := 0; i < n; i++ {
			v[i], items[i] = int(in[6+i]), i
		}
		qs, _ := GetList(in[6+n:])
		if (maxV+int64(n))%3 == 0 {
			// an earlier call on the same element type whose tie-breaker panicked half way (recovered by the caller): whatever
			// that call left behind (pooled scratch maps, caches) must not reach the result of this one
			func() {
				defer func() { recover() }()
				pv := []int{5, 5, 7, 3, 2}
				algz.FindDpSolvers(40, []int{90, 91, 92, 93, 94}, func(i int) int { return pv[i-90] }, true,
					func(old, new []int) bool { panic("tie-breaker gives up") })
			}()
			func() {
				defer func() { recover() }()
				algz.Knapsack(9, []int{90, 91, 92}, func(i int) int { return 3 }, func(i int) int { return 2 },
					func(old, new []int) bool { panic("tie-breaker gives up") })
			}()
		}
		dp := algz.FindDpSolvers(int(maxV), items, func(i int) int { return v[i] }, allow, c18Breaker(bk, salt)...)
		keys := make([]int, 0, len(dp))
		for k := range dp {
			keys = append(keys, k)
		}
		sort.Ints(keys)
		out := []int64{int64(len(keys))}
		for _, k := range keys {
			out = append(out, int64(k))
			out = append(out, PutList(c18Ints(dp[k]))...)
		}
		for _, q := range qs {
			out = append(out, PutList(c18Ints(dp.Best(int(q))))...)
			out = append(out, PutList(c18Ints(dp.BestAllowMinOverflow(int(q))))...)
		}
		return out
	case 2:
		keys, r := GetList(in[1:])
		qs, _ := GetList(r)
		var out []int64
		// the map is rebuilt for every query so that every query sees a fresh iteration order
		for _, q := range qs {
			dp := algz.DpSolvers[int]{}
			for i, k := range keys {
				dp[int(k)] = []int{i}
			}
			for _, c := range [][]int{dp.Best(int(q)), dp.BestAllowMinOverflow(int(q))} {
				if c == nil {
					out = append(out, 0, 0)
				} else {
					out = append(out, 1, int64(c[0]))
				}
			}
		}
		return out
	case 3:
		n := int(in[1])
		var g algz.Graph[int]
		// lifecycle of the Graph object (the answer depends on the final graph only): fresh with Init, zero value
		// without Init, or re-initialised after it held another, larger graph (Init with a small or a fitting capacity)
		variant := 0
		for _, x := range in {
			variant += int(x&3) + 1
		}
		switch variant % 4 {
		case 0:
			g.Init(n)
		case 1:
		default:
			g.Init(2)
			for i := 0; i < n+3; i++ {
				g.AddNode(100 + i)
				g.AddUndirectedEdge(100+i, 100+(i+1)%(n+3))
				if i < n {
					g.AddUndirectedEdge(i, 100+i) // old edges at the vertices of the graph to come
				}
			}
			if variant%4 == 2 {
				g.Init(0)
			} else {
				g.Init(n)
			}
		}
		for i := 0; i < n; i++ {
			g.AddNode(i)
		}
		p := 2
		for i := 0; i < n; i++ {
			for j := i + 1; j < n; j++ {
				if p < len(in) && in[p] != 0 {
					g.AddUndirectedEdge(i, j)
				}
				p++
			}
		}
		cs := g.GetMaximalCliques()
		if len(cs) > 300 { // a graph on <= 9 vertices has at most 27 maximal cliques; keep a wrong answer small enough to judge
			cs = cs[:300]
		}
		for _, c := range cs {
			sort.Ints(c)
		}
		sort.Slice(cs, func(a, b int) bool { return c18LexLess(cs[a], cs[b]) })
		out := []int64{int64(len(cs))}
		for _, c := range cs {
			out = append(out, PutList(c18Ints(c))...)
		}
		return out
	}
	return []int64{BADCASE}
}

func c18LexLess(a, b []int) bool {
	for i := 0; i < len(a) && i < len(b); i++ {
		if a[i] != b[i] {
			return a[i] < b[i]
		}
	}
	return len(a) < len(b)
}

// the part of the FindDpSolvers output that does not depend on Go's map iteration order (same as Run/C18.v run_solvers)
func c18Proj(in, impl []int64) []int64 {
	if len(in) == 0 || in[0] != 1 || len(impl) == 0 || impl[0] < 0 || len(in) < 6 {
		return impl
	}
	maxV, n := in[1], int(in[5])
	if 6+n > len(in) {
		return impl
	}
	qs, _ := GetList(in[6+n:])
	m := int(impl[0])
	type ent struct {
		key  int64
		cell []int64
	}
	var es []ent
	rest := impl[1:]
	for i := 0; i < m && len(rest) > 0; i++ {
		k := rest[0]
		c, r := GetList(rest[1:])
		es = append(es, ent{k, c})
		rest = r
	}
	var keep []ent
	haveOver := false
	var minOver ent
	for _, e := range es {
		if e.key <= maxV {
			keep = append(keep, e)
		} else if !haveOver || e.key < minOver.key {
			haveOver, minOver = true, e
		}
	}
	if haveOver {
		keep = append(keep, minOver)
	}
	out := []int64{int64(len(keep))}
	for _, e := range keep {
		out = append(out, e.key)
		out = append(out, PutList(e.cell)...)
	}
	for _, q := range qs {
		b, r1 := GetList(rest)
		o, r2 := GetList(r1)
		rest = r2
		if !haveOver || q <= minOver.key {
			out = append(out, PutList(b)...)
			out = append(out, PutList(o)...)
		} else {
			out = append(out, -7)
		}
	}
	return out
}

func c18KnapCase(W, bk, salt int64, ws, vs []int64) []int64 {
	in := []int64{0, W, bk, salt, int64(len(ws))}
	for i := range ws {
		in = append(in, ws[i], vs[i])
	}
	return in
}
func c18SolvCase(maxV int64, allow bool, bk, salt int64, vs, qs []int64) []int64 {
	in := []int64{1, maxV, B(allow), bk, salt, int64(len(vs))}
	in = append(in, vs...)
	return append(in, PutList(qs)...)
}
func c18Queries(maxV, sum int64) []int64 {
	return []int64{maxV, maxV - 1, maxV + 1, maxV + 2, 0, -1, sum, sum + 1, maxV / 2}
}

func c18Gen(c *Ctx) {
	bks := []int64{0, 1, 3, 4}
	// ---- Knapsack, exhaustive small scope: all item lists of length <= L over weights 0..3 x values 1..3, limits 0..8
	L := c.N(3, 4)
	var lists [][]int // item codes 0..11: weight = code/3, value = code%3+1
	var rec func(cur []int)
	rec = func(cur []int) {
		lists = append(lists, append([]int{}, cur...))
		if len(cur) == L {
			return
		}
		for k := 0; k < 12; k++ {
			rec(append(append([]int{}, cur...), k))
		}
	}
	rec(nil)
	c.Each(len(lists), func(i int, t *T) {
		var ws, vs []int64
		var sw int64
		for _, k := range lists[i] {
			ws = append(ws, int64(k/3))
			vs = append(vs, int64(k%3+1))
			sw += int64(k / 3)
		}
		for W := int64(0); W <= 8; W++ {
			bk := bks[(i+int(W))%len(bks)]
			t.Try("knapsack/exhaustive", c18KnapCase(W, bk, int64(i%5), ws, vs), len(ws) >= 2 && sw > W)
		}
	})
	c.Note(fmt.Sprintf("Knapsack: all %d item lists of length <= %d over weights 0..3 x values 1..3, every limit 0..8, tie-breaker rotating over {none, always, shorter, pseudo-random}", len(lists), L))
	// length L+1 sampled, random larger instances, panics
	c.Each(c.N(25000, 400000), func(i int, t *T) {
		r := t.R
		n := L + 1
		maxw, maxv := 4, 3
		if i%3 == 0 {
			n = 2 + r.Intn(9)
			maxw, maxv = 1+r.Intn(9), 1+r.Intn(9)
		}
		var ws, vs []int64
		var sw int64
		for j := 0; j < n; j++ {
			w := int64(r.Intn(maxw))
			ws = append(ws, w)
			vs = append(vs, int64(1+r.Intn(maxv)))
			sw += w
		}
		W := int64(r.Intn(9))
		if i%3 == 0 && sw > 0 {
			W = r.Int63n(sw + 2)
		}
		fam := "knapsack/random"
		if i%11 == 5 { // items that can never be carried: weights at and near the top of int (their sum wraps around)
			for k, m := 0, 1+r.Intn(3); k < m; k++ {
				ws[r.Intn(n)] = []int64{1000, 1001, 1100, 1200, 1000 + int64(r.Intn(9)), 1100 + int64(r.Intn(9))}[r.Intn(6)]
			}
			fam = "knapsack/unliftable-items"
		}
		if i%97 == 0 { // outside the property: negative limit or weight panics
			if r.Intn(2) == 0 {
				W = -int64(1 + r.Intn(3))
			} else {
				ws[r.Intn(n)] = -int64(1 + r.Intn(3))
			}
			fam = "knapsack/negative"
		}
		t.Try(fam, c18KnapCase(W, bks[r.Intn(len(bks))], int64(r.Intn(7)), ws, vs), sw > W && W >= 0)
	})

	// ---- FindDpSolvers, exhaustive small scope: value lists of length <= 4 over 1..4, maxV 0..10, both flags, 4 tie-breakers
	var vlists [][]int64
	var rec2 func(cur []int64)
	SL := c.N(4, 5)
	rec2 = func(cur []int64) {
		vlists = append(vlists, append([]int64{}, cur...))
		if len(cur) == SL {
			return
		}
		for v := int64(1); v <= 4; v++ {
			rec2(append(append([]int64{}, cur...), v))
		}
	}
	rec2(nil)
	c.Each(len(vlists), func(i int, t *T) {
		vs := vlists[i]
		var sum int64
		for _, v := range vs {
			sum += v
		}
		for maxV := int64(-2); maxV <= 10; maxV++ { // negative limits too: nothing fits, with overflow allowed the least total
			for a := 0; a < 2; a++ {
				if maxV < 0 && a == 0 {
					continue // a negative limit without overflow: the empty selection itself is above the limit (outside the property)
				}
				for _, bk := range bks {
					in := c18SolvCase(maxV, a == 1, bk, int64(i%3), vs, c18Queries(maxV, sum))
					reps := 1
					if a == 1 || bk != 0 {
						reps = 2 // fresh map iteration orders
					}
					for k := 0; k < reps; k++ {
						t.Try("solvers/exhaustive", in, len(vs) >= 2 && maxV < sum)
					}
				}
			}
		}
	})
	c.Note(fmt.Sprintf("FindDpSolvers: all %d value lists of length <= %d over 1..4, maxV -2..10, allowOverOnce both, 4 tie-breakers, 9 Best/BestAllowMinOverflow queries each; runs with overflow or a tie-breaker repeated for fresh map orders", len(vlists), SL))
	c.Each(c.N(6000, 150000), func(i int, t *T) {
		r := t.R
		n := 2 + r.Intn(9)
		maxv := 1 + r.Intn(12)
		var vs []int64
		var sum int64
		for j := 0; j < n; j++ {
			v := int64(1 + r.Intn(maxv))
			vs = append(vs, v)
			sum += v
		}
		maxV := r.Int63n(sum + 3)
		allow := r.Intn(2) == 0
		qs := c18Queries(maxV, sum)
		qs = append(qs, r.Int63n(sum+4), r.Int63n(sum+4))
		in := c18SolvCase(maxV, allow, bks[r.Intn(len(bks))], int64(r.Intn(9)), vs, qs)
		for k := 0; k < 3; k++ {
			t.Try("solvers/random", in, maxV < sum)
		}
		t.C.Count("solvers-n", fmt.Sprint(n))
	})

	// ---- Best / BestAllowMinOverflow on hand-made maps: every subset of {-3,0,1,3,4,7,12}, queries -4..13
	base := []int64{-3, 0, 1, 3, 4, 7, 12}
	var qs []int64
	for q := int64(-4); q <= 13; q++ {
		qs = append(qs, q)
	}
	c.Each(1<<len(base), func(i int, t *T) {
		var keys []int64
		for b := range base {
			if i>>b&1 == 1 {
				keys = append(keys, base[b])
			}
		}
		// rotate so that the model's list order differs between cases
		if len(keys) > 1 {
			k := i % len(keys)
			keys = append(append([]int64{}, keys[k:]...), keys[:k]...)
		}
		in := append([]int64{2}, PutList(keys)...)
		in = append(in, PutList(qs)...)
		t.Try("best/exhaustive", in, len(keys) >= 2)
	})
	c.Each(c.N(2000, 40000), func(i int, t *T) {
		r := t.R
		n := r.Intn(10)
		seen := map[int64]bool{}
		var keys []int64
		for len(keys) < n {
			k := r.Int63n(60) - 10
			if r.Intn(10) == 0 {
				k = r.Int63n(1<<40) - 1<<39
			}
			if !seen[k] {
				seen[k] = true
				keys = append(keys, k)
			}
		}
		var q []int64
		for j := 0; j < 8; j++ {
			if len(keys) > 0 && r.Intn(2) == 0 {
				q = append(q, keys[r.Intn(len(keys))]+int64(r.Intn(3))-1)
			} else {
				q = append(q, r.Int63n(70)-15)
			}
		}
		in := append([]int64{2}, PutList(keys)...)
		in = append(in, PutList(q)...)
		t.Try("best/random", in, len(keys) >= 2)
	})

	// ---- maximal cliques: every simple graph on <= 5 (6) vertices, random graphs on 6..8 (7..9)
	NV := c.N(5, 6)
	type gcase struct{ n, code int }
	var gs []gcase
	for n := 0; n <= NV; n++ {
		for code := 0; code < 1<<(n*(n-1)/2); code++ {
			gs = append(gs, gcase{n, code})
		}
	}
	reps := c.N(3, 2)
	c.Each(len(gs)*reps, func(i int, t *T) {
		g := gs[i/reps]
		in := []int64{3, int64(g.n)}
		e := g.n * (g.n - 1) / 2
		ne := 0
		for b := 0; b < e; b++ {
			in = append(in, int64(g.code>>b&1))
			ne += g.code >> b & 1
		}
		t.Try("cliques/exhaustive", in, g.n >= 3 && ne > 0 && ne < e)
	})
	c.SetExhaustive()
	c.Note(fmt.Sprintf("GetMaximalCliques: every labelled simple graph on <= %d vertices (%d graphs), each %d times (fresh map orders)", NV, len(gs), reps))
	// graphs beyond the small scope (17 vertices, sparse: a ring with a few chords, or a few dense spots), few of them:
	// the specification enumerates all 2^n vertex sets
	c.Each(c.N(10, 120), func(i int, t *T) {
		r := t.R
		n := 17
		in := []int64{3, int64(n)}
		adj := map[[2]int]bool{}
		for v := 0; v < n; v++ {
			a, b := v, (v+1)%n
			if a > b {
				a, b = b, a
			}
			adj[[2]int{a, b}] = true
		}
		for k, m := 0, r.Intn(12); k < m; k++ {
			a, b := r.Intn(n), r.Intn(n)
			if a > b {
				a, b = b, a
			}
			if a != b {
				adj[[2]int{a, b}] = true
			}
		}
		if i%4 == 3 { // drop a few ring edges
			for k := 0; k < 3; k++ {
				a := r.Intn(n - 1)
				delete(adj, [2]int{a, a + 1})
			}
		}
		ne := 0
		for a := 0; a < n; a++ { // the same edge order as the other families: pairs (a, b), a < b, in lexicographic order
			for b := a + 1; b < n; b++ {
				if adj[[2]int{a, b}] {
					in = append(in, 1)
					ne++
				} else {
					in = append(in, 0)
				}
			}
		}
		t.Try("cliques/17-vertices", in, ne > 0)
		t.C.Count("clique-n", fmt.Sprint(n))
	})
	c.Each(c.N(3000, 60000), func(i int, t *T) {
		r := t.R
		n := NV + 1 + r.Intn(3)
		dens := 1 + r.Intn(9)
		in := []int64{3, int64(n)}
		ne := 0
		for b := 0; b < n*(n-1)/2; b++ {
			x := int64(0)
			if r.Intn(10) < dens {
				x = 1
				ne++
			}
			in = append(in, x)
		}
		t.Try("cliques/random", in, ne > 0 && ne < n*(n-1)/2)
		t.C.Count("clique-n", fmt.Sprint(n))
	})
}

func c18Describe(in []int64) string {
	if len(in) == 0 {
		return "?"
	}
	switch in[0] {
	case 0:
		if len(in) < 5 {
			return "?"
		}
		return fmt.Sprintf("Knapsack(maxWeight=%d, tie-breaker %d/%d, items (weight,value)=%v; weight tokens 1000+j / 1100+j / 1200 are passed as MaxInt-j / MaxInt/2+1+j / 2^62)", in[1], in[2], in[3], in[5:])
	case 1:
		if len(in) < 6 {
			return "?"
		}
		n := int(in[5])
		if 6+n > len(in) {
			return "?"
		}
		qs, _ := GetList(in[6+n:])
		return fmt.Sprintf("FindDpSolvers(maxValue=%d, values=%v, allowOverOnce=%v, tie-breaker %d/%d); Best/BestAllowMinOverflow queries %v", in[1], in[6:6+n], in[2] != 0, in[3], in[4], qs)
	case 2:
		keys, r := GetList(in[1:])
		qs, _ := GetList(r)
		return fmt.Sprintf("DpSolvers with keys %v; Best/BestAllowMinOverflow queries %v", keys, qs)
	case 3:
		s := fmt.Sprintf("GetMaximalCliques: %d vertices, edges", in[1])
		p := 2
		for i := 0; i < int(in[1]); i++ {
			for j := i + 1; j < int(in[1]); j++ {
				if p < len(in) && in[p] != 0 {
					s += fmt.Sprintf(" %d-%d", i, j)
				}
				p++
			}
		}
		return s
	}
	return "?"
}

func c18Shrink(in []int64) [][]int64 {
	var out [][]int64
	if len(in) < 2 {
		return nil
	}
	switch in[0] {
	case 0:
		n := int(in[4])
		for i := 0; i < n && 6+2*i < len(in); i++ {
			c := append([]int64{}, in[:5+2*i]...)
			c = append(c, in[7+2*i:]...)
			c[4] = int64(n - 1)
			out = append(out, c)
		}
		for _, p := range []int{1, 2} {
			if in[p] > 0 {
				c := append([]int64{}, in...)
				c[p]--
				out = append(out, c)
			}
		}
	case 1:
		n := int(in[5])
		if 6+n > len(in) {
			return nil
		}
		qs, _ := GetList(in[6+n:])
		for i := 0; i < n; i++ {
			c := append([]int64{}, in[:6+i]...)
			c = append(c, in[7+i:6+n]...)
			c[5] = int64(n - 1)
			out = append(out, append(c, PutList(qs)...))
		}
		for i := range qs {
			nq := append(append([]int64{}, qs[:i]...), qs[i+1:]...)
			out = append(out, append(append([]int64{}, in[:6+n]...), PutList(nq)...))
		}
		for _, p := range []int{1, 3} {
			if in[p] > 0 {
				c := append([]int64{}, in...)
				c[p]--
				out = append(out, c)
			}
		}
	case 2:
		keys, r := GetList(in[1:])
		qs, _ := GetList(r)
		for i := range keys {
			nk := append(append([]int64{}, keys[:i]...), keys[i+1:]...)
			out = append(out, append(append([]int64{2}, PutList(nk)...), PutList(qs)...))
		}
		for i := range qs {
			nq := append(append([]int64{}, qs[:i]...), qs[i+1:]...)
			out = append(out, append(append([]int64{2}, PutList(keys)...), PutList(nq)...))
		}
	case 3:
		// remove one edge
		for p := 2; p < len(in); p++ {
			if in[p] != 0 {
				c := append([]int64{}, in...)
				c[p] = 0
				out = append(out, c)
			}
		}
	}
	return out
}

func init() {
	Register(&Prop{ID: "C18", Num: 18, SpecMode: "rel", Gen: c18Gen, Impl: c18Impl, XProj: c18Proj, Shrink: c18Shrink, Describe: c18Describe,
		Rule: "Knapsack: exhaustive small scope (all item lists up to the tier's length over weights 0..3 x values 1..3, limits 0..8) + random lists of up to 10 items, judged against brute force over all selections; FindDpSolvers: exhaustive small scope (value lists over 1..4, maxV 0..10, both overflow flags, four tie-breakers) + random lists of up to 10 values, the returned map judged relationally (keys = attainable totals, cells valid, least overshoot present) and its order-independent part compared with the model, Best/BestAllowMinOverflow queried around maxV; Best on hand-made maps (all subsets of 7 keys x 18 queries + random); GetMaximalCliques: every labelled simple graph up to the tier's size + random larger graphs, compared with brute force over all vertex subsets. Runs whose result can depend on Go's map order are repeated. distinct = distinct case; non-trivial = Knapsack: >= 2 items whose total weight exceeds the limit; solvers: >= 2 values whose sum exceeds maxV; Best: >= 2 keys; cliques: >= 3 vertices, neither empty nor complete"})
}
