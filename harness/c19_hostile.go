package main

// C19 family 4  [4; n; hk; vk; k]: panic VALUES that are hostile to whoever prints them, under the handlers the library
// itself provides.  k tasks panic with value kind vk on NewLimiter(n) whose handler is hk mod 4 (0 = none configured: Recover's
// built-in printer, 1 = goz.LogPanic(logger, deep) with deep = hk / 4 (0 means 6), 2 = a plain func), then Wait, then as many blocking tasks as the limit
// allows must be inside their bodies at once, then Wait.  An escaping panic of a worker goroutine cannot be recovered from
// outside, so the scenario runs in a child process (this binary, C19_CHILD set); a dead child is the observation [0;0;0;0].
// output = [process survived; reports received by logger/handler; tasks inside at once afterwards; final Wait returned].

import (
	"bufio"
	"bytes"
	"fmt"
	"os"
	"os/exec"
	"strings"
	"sync/atomic"
	"time"

	"github.com/welllog/golib/goz"
)

type c19NilErr struct{ msg string }

func (e *c19NilErr) Error() string { return e.msg } // nil receiver: nil dereference

type c19BadStringer struct{}

func (c19BadStringer) String() string { panic("String() panics") }

type c19BadFormatter struct{}

func (c19BadFormatter) Format(f fmt.State, verb rune) { panic("Format panics") }

type c19BadErr struct{}

func (c19BadErr) Error() string { panic("Error() panics") }

type c19Wrap struct {
	E error
	S fmt.Stringer
}

func c19Hostile(vk int64) any {
	switch vk {
	case 1:
		var e error = (*c19NilErr)(nil) // the typed-nil slip: err != nil, Error() dereferences nil
		return e
	case 2:
		return c19BadStringer{}
	case 3:
		return c19BadFormatter{}
	case 4:
		return c19BadErr{}
	case 5:
		return c19Wrap{E: (*c19NilErr)(nil), S: c19BadStringer{}}
	case 6:
		return &c19Wrap{E: c19BadErr{}}
	}
	return int(7)
}

type c19CountLogger struct{ n *atomic.Int64 }

func (l c19CountLogger) Error(args ...any) { l.n.Add(1) }

func c19ChildMain(spec string) {
	var n, hk, vk, k int64
	fmt.Sscanf(spec, "%d,%d,%d,%d", &n, &hk, &vk, &k)
	l := goz.NewLimiter(int(n))
	var reports atomic.Int64
	deep := int(hk / 4) // traceback depth handed to goz.LogPanic (0: the depth of the built-in printer)
	if deep == 0 {
		deep = 6
	} else if deep == 5000 { // the code for depth 0 (no traceback lines at all)
		deep = 0
	}
	switch hk % 4 {
	case 0:
		// "no handler" is reached in two ways: SetPanicHandler never called, or called with nil (an optional hook passed
		// through unset) — the same thing for the property
		if k%2 == 1 {
			var none func(any)
			l.SetPanicHandler(none)
		}
	case 1:
		l.SetPanicHandler(goz.LogPanic(c19CountLogger{&reports}, deep))
	case 2:
		l.SetPanicHandler(func(any) { reports.Add(1) })
	}
	for i := int64(0); i < k; i++ {
		l.Go(func() { panic(c19Hostile(vk)) })
	}
	waited := make(chan struct{})
	go func() { l.Wait(); close(waited) }()
	select {
	case <-waited:
	case <-time.After(20 * time.Second):
		fmt.Printf("\nC19CHILD 1 %d 0 0\n", reports.Load())
		os.Exit(0)
	}
	ne := n
	if ne < 1 {
		ne = 3
	}
	var inside atomic.Int64
	release := make(chan struct{})
	submitted := make(chan struct{})
	go func() {
		for i := int64(0); i < ne; i++ {
			l.Go(func() { inside.Add(1); <-release })
		}
		close(submitted)
	}()
	deadline := time.Now().Add(20 * time.Second)
	for inside.Load() < ne && time.Now().Before(deadline) {
		time.Sleep(200 * time.Microsecond)
	}
	got := inside.Load()
	close(release)
	ok := int64(0)
	select {
	case <-submitted:
		fin := make(chan struct{})
		go func() { l.Wait(); close(fin) }()
		select {
		case <-fin:
			ok = 1
		case <-time.After(20 * time.Second):
		}
	case <-time.After(20 * time.Second):
	}
	fmt.Printf("\nC19CHILD 1 %d %d %d\n", reports.Load(), got, ok)
	os.Exit(0)
}

func init() {
	if spec := os.Getenv("C19_CHILD"); spec != "" {
		c19ChildMain(spec)
		os.Exit(0)
	}
}

func c19HostileRun(n, hk, vk, k int64) []int64 {
	exe, err := os.Executable()
	if err != nil {
		return []int64{BADCASE}
	}
	cmd := exec.Command(exe)
	cmd.Env = append(os.Environ(), fmt.Sprintf("C19_CHILD=%d,%d,%d,%d", n, hk, vk, k))
	var out bytes.Buffer
	cmd.Stdout = &out
	cmd.Stderr = nil
	done := make(chan error, 1)
	if err := cmd.Start(); err != nil {
		return []int64{BADCASE}
	}
	go func() { done <- cmd.Wait() }()
	select {
	case <-done:
	case <-time.After(100 * time.Second):
		cmd.Process.Kill()
		<-done
	}
	sc := bufio.NewScanner(&out)
	sc.Buffer(make([]byte, 1<<20), 1<<20)
	for sc.Scan() {
		if s := sc.Text(); strings.HasPrefix(s, "C19CHILD ") {
			var a, b, c, d int64
			if _, err := fmt.Sscanf(s, "C19CHILD %d %d %d %d", &a, &b, &c, &d); err == nil {
				return []int64{a, b, c, d}
			}
		}
	}
	return []int64{0, 0, 0, 0} // the child died (a panic escaped a worker goroutine) or printed nothing
}
