package main

import (
	"fmt"
	"reflect"
	"sync"
	"time"
	"unsafe"

	"github.com/welllog/golib/ringz"
	"github.com/welllog/golib/vshim/sched"
)

// C01: SyncRing under the deterministic scheduler.  The model (Run/C01.v) is the master: it answers with the
// list of executed steps; the implementation's goroutines are advanced step by step accordingly and every
// atomic operation they perform (kind, location, operands, result) is written out in the same format.

type ringAcc struct {
	r            *ringz.SyncRing[int64]
	head, tail   *uint32
	base         unsafe.Pointer
	isz, posOff  uintptr
	valOff       uintptr
	n            int
}

// layout of SyncRing / item, found once by type and behaviour on a scratch ring (names are hints only):
//   the slice field is the slot array; in a slot the uint32 field is the sequence number and the int64 field the value;
//   after Push, Push, Pop on NewSync(4) the uint32 field that reads 2 is the tail counter and the one that reads 1 the head.
var c01Lay struct {
	once                       sync.Once
	err                        string
	headOff, tailOff, valsOff  uintptr
	isz, posOff, valOff        uintptr
}

func c01Probe() {
	r := ringz.NewSync[int64](4)
	t := reflect.TypeOf(r)
	p := unsafe.Pointer(&r)
	vf, ok := PickField(t, []string{"values", "slots", "items", "buf"}, KindIs(reflect.Slice))
	if !ok {
		c01Lay.err = "SyncRing: slot array not found"
		return
	}
	it := vf.Type.Elem()
	pf, ok1 := PickField(it, []string{"pos", "seq"}, KindIs(reflect.Uint32))
	xf, ok2 := PickField(it, []string{"value", "val"}, KindIs(reflect.Int64))
	if it.Kind() != reflect.Struct || !ok1 || !ok2 {
		c01Lay.err = "SyncRing: slot layout (uint32 sequence + value) not found"
		return
	}
	before := IntFieldValues(t, p)
	r.Push(1)
	r.Push(2)
	r.Pop()
	now := IntFieldValues(t, p)
	tf, ok3 := FieldWithValue(t, now, before, 2, "tail")
	hf, ok4 := FieldWithValue(t, now, before, 1, "head")
	if !ok3 || !ok4 || tf.Type.Kind() != reflect.Uint32 || hf.Type.Kind() != reflect.Uint32 {
		c01Lay.err = "SyncRing: head/tail counters not found"
		return
	}
	c01Lay.headOff, c01Lay.tailOff, c01Lay.valsOff = hf.Offset, tf.Offset, vf.Offset
	c01Lay.isz, c01Lay.posOff, c01Lay.valOff = it.Size(), pf.Offset, xf.Offset
}

func newRingAcc(capReq int) *ringAcc {
	c01Lay.once.Do(c01Probe)
	if c01Lay.err != "" {
		panic(c01Lay.err)
	}
	r := ringz.NewSync[int64](capReq)
	a := &ringAcc{r: &r}
	p := unsafe.Pointer(a.r)
	a.head = (*uint32)(unsafe.Add(p, c01Lay.headOff))
	a.tail = (*uint32)(unsafe.Add(p, c01Lay.tailOff))
	sh := (*reflect.SliceHeader)(unsafe.Add(p, c01Lay.valsOff))
	a.base = unsafe.Pointer(sh.Data)
	a.n = sh.Len
	a.isz, a.posOff, a.valOff = c01Lay.isz, c01Lay.posOff, c01Lay.valOff
	return a
}
func (a *ringAcc) pos(i int) *uint32 { return (*uint32)(unsafe.Add(a.base, uintptr(i)*a.isz+a.posOff)) }
func (a *ringAcc) val(i int) *int64  { return (*int64)(unsafe.Add(a.base, uintptr(i)*a.isz+a.valOff)) }
func (a *ringAcc) loc(addr uintptr) int64 {
	switch addr {
	case uintptr(unsafe.Pointer(a.head)):
		return 0
	case uintptr(unsafe.Pointer(a.tail)):
		return 1
	}
	if addr == 0 {
		return 0
	}
	for i := 0; i < a.n; i++ {
		if addr == uintptr(unsafe.Pointer(a.pos(i))) {
			return 2 + int64(i)
		}
	}
	return -5
}

// inject the quiescent empty state whose counters are base (mod 2^32): licensed by pairs_reach
func (a *ringAcc) inject(base uint64) {
	*a.head = uint32(base)
	*a.tail = uint32(base)
	c := uint64(a.n)
	for i := 0; i < a.n; i++ {
		// the unique p in [base, base+c) with p mod c = i   (c divides 2^32)
		p := base + ((uint64(i) + c - base%c) % c)
		*a.pos(i) = uint32(p)
		*a.val(i) = 0
	}
}

func c01ImplM(in, model []int64) []int64 {
	k, bh, bl, fill, nt := in[0], in[1], in[2], in[3], int(in[4])
	rest := in[5:]
	progs := make([][]int64, nt)
	for i := 0; i < nt; i++ {
		progs[i], rest = GetList(rest)
	}
	base := uint64(bh)<<32 + uint64(bl)
	a := newRingAcc(c01CapReq(k, base+uint64(fill)+uint64(nt)))
	a.inject(base)
	for j := int64(0); j < fill; j++ {
		a.r.Push(9001 + j)
	}
	g := &sched.Group{}
	ws := make([]*sched.Worker, nt)
	results := make([][]int64, nt)
	for i := 0; i < nt; i++ {
		i := i
		ws[i] = g.Spawn(i, func() {
			for _, op := range progs[i] {
				sched.Boundary()
				switch {
				case op == 0:
					v, ok := a.r.Pop()
					results[i] = append(results[i], 2, B(ok), v)
				case op == -1:
					results[i] = append(results[i], 3, int64(a.r.Len()))
				case op == -2:
					results[i] = append(results[i], 3, B(a.r.IsEmpty()))
				case op == -3:
					results[i] = append(results[i], 3, B(a.r.IsFull()))
				case op == -10:
					v, ok := a.r.PopWait(-1)
					results[i] = append(results[i], 2, B(ok), v)
				case op <= -100: // timed: n further tries after the first
					v, ok := a.r.PopWait(c01Dur(-op - 100))
					results[i] = append(results[i], 2, B(ok), v)
				case op >= 2000000:
					results[i] = append(results[i], 1, B(a.r.PushWait((op-2000000)%10000, c01Dur((op-2000000)/10000))))
				case op >= 1000000:
					results[i] = append(results[i], 1, B(a.r.PushWait(op-1000000, -1)))
				default:
					results[i] = append(results[i], 1, B(a.r.Push(op)))
				}
			}
			sched.Boundary()
		})
	}
	var out []int64
	seen := 0
	emitNew := func() bool { // append events logged since the last call
		got := false
		for ; seen < len(g.Log); seen++ {
			e := g.Log[seen]
			out = append(out, int64(e.Tid), 1, int64(e.Kind), a.loc(e.Addr), int64(e.A), int64(e.B), int64(e.R))
			got = true
		}
		return got
	}
	// steps of the model
	i := 0
	for i < len(model) && model[i] != -1 {
		if model[i] < -1 { // warp: 2^32 + t pairs performed sequentially by a ghost thread on an empty quiescent ring
			n := uint64(1<<32) + uint64(model[i]) // model[i] negative
			cur := uint64(*a.head)
			a.inject(cur + n)
			out = append(out, model[i])
			i++
			continue
		}
		if i+1 >= len(model) {
			break
		}
		tid, kind := int(model[i]), model[i+1]
		if tid < 0 || tid >= nt {
			out = append(out, -8)
			break
		}
		w := ws[tid]
		switch kind {
		case 0:
			if w.Pos == sched.PosPost {
				w.Advance()
			}
			if emitNew() {
				break
			}
			if w.Pos == sched.PosB || w.Pos == sched.PosPre {
				out = append(out, int64(tid), 0)
			} else {
				out = append(out, int64(tid), 0, 77, int64(w.Pos))
			}
			i += 2
		case 2:
			if w.Pos == sched.PosPost {
				w.Advance()
			}
			if !emitNew() {
				out = append(out, int64(tid), 2)
			}
			i += 2
		default:
			for n := 0; n < 3 && w.Pos != sched.PosDone && w.Pos != -1; n++ {
				w.Advance()
				if seen < len(g.Log) {
					break
				}
			}
			if !emitNew() {
				out = append(out, int64(tid), 1, -9, int64(w.Pos))
			}
			i += 7
		}
	}
	// flush: every goroutine runs to completion, round robin; anything it still does is written out
	for round := 0; round < 4000; round++ {
		alive := false
		for _, w := range ws {
			if w.Pos != sched.PosDone && w.Pos != -1 {
				alive = true
				w.Advance()
			}
		}
		if !alive {
			break
		}
	}
	emitNew()
	for _, w := range ws {
		if w.Pos == -1 {
			out = append(out, PANIC)
		} else if w.Pos != sched.PosDone {
			out = append(out, HANG)
		}
	}
	out = append(out, -1)
	for t := 0; t < nt; t++ {
		out = append(out, PutList(results[t])...)
	}
	out = append(out, -2, int64(*a.head), int64(*a.tail))
	for s := 0; s < a.n; s++ {
		out = append(out, *a.val(s), int64(*a.pos(s)))
	}
	return out
}

// the duration for which the 10 ms ticker allows exactly n further tries: 0 for n = 0, else 10n - 5 ms
func c01Dur(n int64) time.Duration {
	if n <= 0 {
		return 0
	}
	return time.Duration(10*n-5) * time.Millisecond
}

// all tid sequences with exactly n0 zeros and n1 ones
func interleavings(n0, n1 int, cur []int64, f func([]int64)) {
	if n0 == 0 && n1 == 0 {
		f(cur)
		return
	}
	if n0 > 0 {
		interleavings(n0-1, n1, append(cur, 0), f)
	}
	if n1 > 0 {
		interleavings(n0, n1-1, append(cur, 1), f)
	}
}

// the capacity REQUESTED from NewSync for a case whose ring has 2^k slots: any value in (2^(k-1), 2^k] must give the same
// ring (1 and 2 for k = 1); which one is a deterministic function of the case, so that the round-up of the constructor is
// exercised on every case without a change of the case format
func c01CapReq(k int64, salt uint64) int {
	c := 1 << uint(k)
	if k <= 1 {
		return c - int(salt&1)
	}
	half := uint64(c / 2)
	return c - int(salt%half)
}

func c01Case(k int64, base uint64, fill int64, progs [][]int64, sch []int64) []int64 {
	in := []int64{k, int64(base >> 32), int64(base & 0xffffffff), fill, int64(len(progs))}
	for _, p := range progs {
		in = append(in, PutList(p)...)
	}
	// completion tail: round robin, generous
	full := append([]int64{}, sch...)
	for r := 0; r < 10*len(progs)+10; r++ {
		for t := range progs {
			for range progs[t] {
				full = append(full, int64(t))
			}
		}
	}
	return append(in, PutList(full)...)
}

func c01Gen(c *Ctx) {
	// (1) exhaustive: two threads, one operation each, every interleaving of their steps, caps 2 and 4,
	//     every fill level, counters at 0 and across the 32-bit wrap
	var scheds [][]int64
	interleavings(7, 7, nil, func(s []int64) { scheds = append(scheds, append([]int64{}, s...)) })
	type cfg struct {
		k    int64
		base uint64
		fill int64
		p0   int64
		p1   int64
	}
	var cfgs []cfg
	for _, k := range []int64{1, 2} {
		cp := int64(1) << uint(k)
		bases := []uint64{0, 1<<32 - 1}
		if !c.Quick() {
			bases = append(bases, 1<<32-uint64(cp), 3<<32-2, 5)
		}
		for _, b := range bases {
			for fill := int64(0); fill <= cp; fill++ {
				if c.Quick() && k == 2 && fill == 2 {
					continue
				}
				for _, p0 := range []int64{0, 71, -1, -3} {
					for _, p1 := range []int64{0, 72, -2} {
						cfgs = append(cfgs, cfg{k, b, fill, p0, p1})
					}
				}
			}
		}
	}
	c.Each(len(cfgs)*len(scheds), func(i int, t *T) {
		cf := cfgs[i/len(scheds)]
		s := scheds[i%len(scheds)]
		in := c01Case(cf.k, cf.base, cf.fill, [][]int64{{cf.p0}, {cf.p1}}, s)
		t.Try("exhaustive-2x1", in, true)
	})
	c.Note(fmt.Sprintf("exhaustive part: %d configurations (cap, counter base incl. 2^32-1, fill level, push/pop per thread) x all %d interleavings of two 7-step operations", len(cfgs), len(scheds)))
	c.Each(1, func(i int, t *T) { t.Try("known-finding-F10-aba", c01F10Case(), true) })
	// (2) random: 2-4 threads, 1-3 ops each, random schedules
	n := c.N(30000, 600000)
	c.Each(n, func(i int, t *T) {
		r := t.R
		k := int64(1 + r.Intn(2))
		cp := int64(1) << uint(k)
		var base uint64
		switch r.Intn(4) {
		case 0:
			base = 0
		case 1:
			base = 1<<32 - uint64(1+r.Intn(6))
		case 2:
			base = uint64(r.Intn(4))<<32 + uint64(r.Uint32())
		default:
			base = uint64(r.Intn(10))
		}
		fill := int64(r.Intn(int(cp) + 1))
		nt := 2 + r.Intn(3)
		progs := make([][]int64, nt)
		total := 0
		for j := range progs {
			for o := 0; o < 1+r.Intn(3); o++ {
				switch x := r.Intn(14); {
				case x < 5:
					progs[j] = append(progs[j], 0)
				case x < 10:
					progs[j] = append(progs[j], int64(100*(j+1)+o+1))
				case x < 12:
					progs[j] = append(progs[j], -1-int64(r.Intn(3)))
				case x < 13:
					progs[j] = append(progs[j], -100-int64(r.Intn(3))) // PopWait(d >= 0)
				default:
					progs[j] = append(progs[j], 2000000+10000*int64(r.Intn(3))+int64(100*(j+1)+o+1)) // PushWait(v, d >= 0)
				}
				total++
			}
		}
		fam := fmt.Sprintf("random-%dthreads", nt)
		if i%5 == 0 {
			// PushWait(v,-1) / PopWait(-1) family: as many blocking pushes as blocking pops (so every call can return), plus observers
			fam = "wait-loops"
			for j := range progs {
				progs[j] = nil
			}
			total = 0
			// one blocking call per goroutine (they must be able to run concurrently), as many pushes as pops
			perm := r.Perm(nt)
			for x := 0; x+1 < nt; x += 2 {
				a, b := perm[x], perm[x+1]
				progs[a] = append(progs[a], 1000000+int64(100*(a+1)+1))
				progs[b] = append(progs[b], -10)
				total += 2
			}
			if nt%2 == 1 {
				o := perm[nt-1]
				progs[o] = append(progs[o], -1-int64(r.Intn(3)), -1-int64(r.Intn(3)))
				total += 2
			}
		}
		var s []int64
		// bursty schedule: runs of the same thread of random length
		for len(s) < total*7 {
			th := int64(r.Intn(nt))
			for b := 1 + r.Intn(4); b > 0; b-- {
				s = append(s, th)
			}
		}
		t.C.Count("threads", fmt.Sprint(nt))
		t.Try(fam, c01Case(k, base, fill, progs, s), true)
	})
}

// the known finding F10: a pusher parked between its sequence check and its CAS while the tail advances by 2^32
func c01F10Case() []int64 {
	in := []int64{1, 0, 0, 0, 2}
	in = append(in, PutList([]int64{111})...)
	in = append(in, PutList([]int64{1, 2})...)
	sch := []int64{0, 0, 0, -2}
	for i := 0; i < 12; i++ {
		sch = append(sch, 1)
	}
	for i := 0; i < 6; i++ {
		sch = append(sch, 0)
	}
	return append(in, PutList(sch)...)
}

func c01Known(in, out []int64) string {
	if len(in) < 5 {
		return ""
	}
	rest := in[5:]
	for i := 0; i < int(in[4]); i++ {
		_, rest = GetList(rest)
	}
	sch, _ := GetList(rest)
	for _, t := range sch {
		if t < 0 { // some operation may be suspended across a counter advance of about 2^32
			return "F10"
		}
	}
	return ""
}

func c01Describe(in []int64) string {
	return fmt.Sprintf("cap=2^%d base=%d*2^32+%d fill=%d threads=%d programs+schedule=%v", in[0], in[1], in[2], in[3], in[4], in[5:])
}

func init() {
	Register(&Prop{ID: "C01", Num: 1, SpecMode: "rel", Gen: c01Gen, ImplM: c01ImplM, Describe: c01Describe, Known: c01Known,
		Rule: "each case = ring capacity, counter base (incl. values next to 2^32), fill level, per-thread programs of Push/Pop and a schedule of thread ids; the real SyncRing runs under the atomic shim (goroutines parked before and after every sync/atomic call), the model runs the same schedule; compared: every atomic operation (kind, location, operands, result) in order, every return value, final head/tail/slots. exhaustive: all interleavings of 2 threads x 1 op; random: 2-4 threads x 1-3 ops. every case is distinct and non-trivial (>= 2 threads interleaved)"})
}
