// Package vruntime: runtime.Gosched as a scheduling point.
package vruntime

import (
	"runtime"

	"github.com/welllog/golib/vshim/sched"
)

func Gosched() {
	w := sched.Pre()
	if w == nil {
		runtime.Gosched()
		return
	}
	sched.Post(w, sched.EvGosched, 0, 0, 0, 0)
}
