// Package vtime stands in for the part of package time used by ringz/sync.go and listz/sync_list.go
// (NewTicker, Ticker.C, Ticker.Stop, Now, Time.Sub, Duration, Millisecond).  For a goroutine under the deterministic
// scheduler time is virtual: Now() is the goroutine's virtual clock and a ticker delivers its ticks immediately,
// each one advancing that clock by the period - so "wait at most d" becomes "try again at most ceil(d/period) times",
// deterministically.  Other goroutines get the real clock.
package vtime

import (
	"time"

	"github.com/welllog/golib/vshim/sched"
)

type Duration = time.Duration

const (
	Nanosecond  = time.Nanosecond
	Microsecond = time.Microsecond
	Millisecond = time.Millisecond
	Second      = time.Second
	Minute      = time.Minute
	Hour        = time.Hour
)

type Time struct {
	real time.Time
	virt int64
	isV  bool
}

func (a Time) Sub(b Time) Duration {
	if a.isV || b.isV {
		return Duration(a.virt - b.virt)
	}
	return a.real.Sub(b.real)
}

func Now() Time {
	if w := sched.Current(); w != nil {
		return Time{virt: w.Clock, isV: true}
	}
	return Time{real: time.Now()}
}

type Ticker struct {
	C    <-chan Time
	real *time.Ticker
	stop chan struct{}
}

func NewTicker(d Duration) *Ticker {
	if w := sched.Current(); w != nil {
		c := make(chan Time, 4096)
		for i := int64(1); i <= 4096; i++ {
			c <- Time{virt: w.Clock + i*int64(d), isV: true}
		}
		return &Ticker{C: c}
	}
	rt := time.NewTicker(d)
	c := make(chan Time, 1)
	stop := make(chan struct{})
	go func() {
		for {
			select {
			case t := <-rt.C:
				select {
				case c <- Time{real: t}:
				default:
				}
			case <-stop:
				return
			}
		}
	}()
	return &Ticker{C: c, real: rt, stop: stop}
}

func (t *Ticker) Stop() {
	if t.real != nil {
		t.real.Stop()
		close(t.stop)
		t.real = nil
	}
}
