// Package vatomic mirrors the function API of sync/atomic used by golib and reports to vshim/sched.
package vatomic

import (
	"sync/atomic"
	"unsafe"

	"github.com/welllog/golib/vshim/sched"
)

func b2u(b bool) uint64 {
	if b {
		return 1
	}
	return 0
}

func LoadUint32(p *uint32) uint32 {
	w := sched.Pre()
	v := atomic.LoadUint32(p)
	sched.Post(w, sched.EvLoadU32, uintptr(unsafe.Pointer(p)), 0, 0, uint64(v))
	return v
}
func StoreUint32(p *uint32, v uint32) {
	w := sched.Pre()
	atomic.StoreUint32(p, v)
	sched.Post(w, sched.EvStoreU32, uintptr(unsafe.Pointer(p)), uint64(v), 0, 0)
}
func AddUint32(p *uint32, d uint32) uint32 {
	w := sched.Pre()
	v := atomic.AddUint32(p, d)
	sched.Post(w, sched.EvAddU32, uintptr(unsafe.Pointer(p)), uint64(d), 0, uint64(v))
	return v
}
func CompareAndSwapUint32(p *uint32, o, n uint32) bool {
	w := sched.Pre()
	ok := atomic.CompareAndSwapUint32(p, o, n)
	sched.Post(w, sched.EvCasU32, uintptr(unsafe.Pointer(p)), uint64(o), uint64(n), b2u(ok))
	return ok
}
func LoadInt64(p *int64) int64 {
	w := sched.Pre()
	v := atomic.LoadInt64(p)
	sched.Post(w, sched.EvLoadI64, uintptr(unsafe.Pointer(p)), 0, 0, uint64(v))
	return v
}
func AddInt64(p *int64, d int64) int64 {
	w := sched.Pre()
	v := atomic.AddInt64(p, d)
	sched.Post(w, sched.EvAddI64, uintptr(unsafe.Pointer(p)), uint64(d), 0, uint64(v))
	return v
}
func LoadPointer(p *unsafe.Pointer) unsafe.Pointer {
	w := sched.Pre()
	v := atomic.LoadPointer(p)
	sched.KeepAlive(w, v)
	sched.Post(w, sched.EvLoadPtr, uintptr(unsafe.Pointer(p)), 0, 0, uint64(uintptr(v)))
	return v
}
func StorePointer(p *unsafe.Pointer, v unsafe.Pointer) {
	w := sched.Pre()
	sched.KeepAlive(w, v)
	atomic.StorePointer(p, v)
	sched.Post(w, sched.EvStorePtr, uintptr(unsafe.Pointer(p)), uint64(uintptr(v)), 0, 0)
}
func CompareAndSwapPointer(p *unsafe.Pointer, o, n unsafe.Pointer) bool {
	w := sched.Pre()
	sched.KeepAlive(w, o, n)
	ok := atomic.CompareAndSwapPointer(p, o, n)
	sched.Post(w, sched.EvCasPtr, uintptr(unsafe.Pointer(p)), uint64(uintptr(o)), uint64(uintptr(n)), b2u(ok))
	return ok
}
