// Package sched: a deterministic scheduler for goroutines that run code whose sync/atomic and
// runtime.Gosched calls have been redirected to the vshim packages (import rewrite in a scratch copy
// of the tree).  A controlled goroutine parks BEFORE and AFTER every atomic call, so the plain code
// between two atomics is a schedulable segment of its own.
package sched

import (
	"runtime"
	"unsafe"
	"sync"
	"sync/atomic"
)

// Position kinds
const (
	PosB    = 0 // at an operation boundary (harness code)
	PosPre  = 1 // parked before an atomic call
	PosPost = 2 // parked after an atomic call
	PosDone = 3 // body returned
)

// Event kinds
const (
	EvLoadU32 = 1
	EvStoreU32 = 2
	EvCasU32 = 3
	EvAddU32 = 4
	EvLoadI64 = 5
	EvAddI64 = 6
	EvLoadPtr = 7
	EvStorePtr = 8
	EvCasPtr = 9
	EvGosched = 10
)

type Event struct {
	Tid  int
	Kind int
	Addr uintptr
	A, B uint64 // operands (old/new, delta, stored value)
	R    uint64 // result (loaded value, 0/1 for CAS, new value for Add)
}

type Worker struct {
	ID     int
	Clock  int64 // virtual time (ns) of this goroutine, see vshim/vtime
	G      *Group
	Pos    int
	Log    *[]Event
	mu     *sync.Mutex
	resume chan struct{}
	parked chan int
}

var (
	mu      sync.RWMutex
	workers = map[uint64]*Worker{}
	active  int32
)

func goid() uint64 {
	var buf [40]byte
	n := runtime.Stack(buf[:], false)
	var id uint64
	for _, c := range buf[len("goroutine "):n] {
		if c < '0' || c > '9' {
			break
		}
		id = id*10 + uint64(c-'0')
	}
	return id
}

func cur() *Worker {
	if atomic.LoadInt32(&active) == 0 {
		return nil
	}
	g := goid()
	mu.RLock()
	w := workers[g]
	mu.RUnlock()
	return w
}

func (w *Worker) park(pos int) {
	w.parked <- pos
	<-w.resume
}

// Pre is called by the shim before an atomic operation.
func Pre() *Worker {
	w := cur()
	if w != nil {
		w.park(PosPre)
	}
	return w
}

// Post records the event and parks after the atomic operation.
func Post(w *Worker, kind int, addr uintptr, a, b, r uint64) {
	if w == nil {
		return
	}
	w.mu.Lock()
	*w.Log = append(*w.Log, Event{w.ID, kind, addr, a, b, r})
	w.mu.Unlock()
	w.park(PosPost)
}

// Boundary parks at an operation boundary (called by harness code between operations).
func Boundary() {
	if w := cur(); w != nil {
		w.park(PosB)
	}
}

// Group is one case: a shared event log.
type Group struct {
	Log  []Event
	Keep []unsafe.Pointer // keeps every pointer seen alive so that addresses are never reused within a case
	mu   sync.Mutex
}

// Spawn starts body under control; the goroutine is parked at its first Boundary()/atomic call.
// The body must call Boundary() first.
func (g *Group) Spawn(id int, body func()) *Worker {
	w := &Worker{ID: id, G: g, Log: &g.Log, mu: &g.mu, resume: make(chan struct{}), parked: make(chan int)}
	atomic.AddInt32(&active, 1)
	go func() {
		gid := goid()
		mu.Lock()
		workers[gid] = w
		mu.Unlock()
		defer func() {
			mu.Lock()
			delete(workers, gid)
			mu.Unlock()
			atomic.AddInt32(&active, -1)
			rec := recover()
			if rec != nil {
				w.parked <- -1
			} else {
				w.parked <- PosDone
			}
		}()
		body()
	}()
	w.Pos = <-w.parked
	return w
}

// Advance lets the worker run one segment (to its next park point) and returns the new position kind
// (-1: the body panicked).
func (w *Worker) Advance() int {
	if w.Pos == PosDone || w.Pos == -1 {
		return w.Pos
	}
	w.resume <- struct{}{}
	w.Pos = <-w.parked
	return w.Pos
}

// KeepAlive records pointers observed by the shim.
func KeepAlive(w *Worker, ps ...unsafe.Pointer) {
	if w == nil {
		return
	}
	w.mu.Lock()
	w.G.Keep = append(w.G.Keep, ps...)
	w.mu.Unlock()
}

// Current returns the controlled worker of the calling goroutine (nil for any other goroutine).
func Current() *Worker { return cur() }
