package main

import (
	"fmt"
	"reflect"
	"sync"
	"time"
	"unsafe"

	"github.com/welllog/golib/listz"
	"github.com/welllog/golib/vshim/sched"
)

// C11: SyncList under the deterministic scheduler; same scheme as C01 (the model's step list drives the goroutines).

var (
	c11Once    sync.Once
	c11NextOff uintptr // offset of syncNode.next
	c11ValOff  uintptr // offset of syncNode.value (int64)
)

type listAcc struct {
	l                *listz.SyncList[int64]
	lenP             *int64
	headP, tailP     *unsafe.Pointer
	idx              map[uintptr]int64
	n                int64
}

// the counter and the two pointers of SyncList are found by type and behaviour (names are hints only): after one Push on
// a fresh list the int64 field that reads 1 is the length, the pointer field that changed is the tail, the other the head
var c11Off struct {
	once               sync.Once
	err                string
	len, head, tail    uintptr
}

func c11FindFields() {
	l := listz.NewSync[int64]()
	t := reflect.TypeOf(l).Elem()
	p := unsafe.Pointer(l)
	ptrs := FieldsWhere(t, KindIs(reflect.UnsafePointer, reflect.Ptr))
	old := map[string]unsafe.Pointer{}
	for _, f := range ptrs {
		old[f.Name] = *(*unsafe.Pointer)(unsafe.Add(p, f.Offset))
	}
	before := IntFieldValues(t, p)
	l.Push(77)
	now := IntFieldValues(t, p)
	lf, ok := FieldWithValue(t, now, before, 1, "len", "size", "count")
	if !ok {
		c11Off.err = "SyncList: length counter not found"
		return
	}
	var moved, still []reflect.StructField
	for _, f := range ptrs {
		if *(*unsafe.Pointer)(unsafe.Add(p, f.Offset)) != old[f.Name] {
			moved = append(moved, f)
		} else {
			still = append(still, f)
		}
	}
	if len(moved) != 1 || len(still) != 1 {
		c11Off.err = "SyncList: head/tail pointers not found"
		return
	}
	c11Off.len, c11Off.tail, c11Off.head = lf.Offset, moved[0].Offset, still[0].Offset
}

func listFields(l *listz.SyncList[int64]) (lenP *int64, headP, tailP *unsafe.Pointer) {
	c11Off.once.Do(c11FindFields)
	if c11Off.err != "" {
		panic(c11Off.err)
	}
	p := unsafe.Pointer(l)
	return (*int64)(unsafe.Add(p, c11Off.len)), (*unsafe.Pointer)(unsafe.Add(p, c11Off.head)), (*unsafe.Pointer)(unsafe.Add(p, c11Off.tail))
}

func c11Probe() {
	// find the layout of the node: push a recognisable value on a scratch list and look at the two nodes
	l := listz.NewSync[int64]()
	_, hp, tp := listFields(l)
	dummy := *hp
	l.Push(0x5a5a5a5a5a5a)
	node := *tp
	c11NextOff, c11ValOff = ^uintptr(0), ^uintptr(0)
	for off := uintptr(0); off < 64; off += 8 {
		if *(*unsafe.Pointer)(unsafe.Add(dummy, off)) == node {
			c11NextOff = off
		}
		if *(*int64)(unsafe.Add(node, off)) == 0x5a5a5a5a5a5a {
			c11ValOff = off
		}
	}
	if c11NextOff == ^uintptr(0) || c11ValOff == ^uintptr(0) {
		panic("cannot determine the layout of the SyncList node")
	}
}

func newListAcc(npre int) *listAcc {
	c11Once.Do(c11Probe)
	a := &listAcc{l: listz.NewSync[int64](), idx: map[uintptr]int64{}}
	a.lenP, a.headP, a.tailP = listFields(a.l)
	a.idx[uintptr(*a.headP)] = 0
	for j := 0; j < npre; j++ {
		a.l.Push(9001 + int64(j))
		a.n++
		a.idx[uintptr(*a.tailP)] = a.n
	}
	return a
}
func (a *listAcc) node(p uint64) int64 {
	if p == 0 {
		return -1
	}
	if i, ok := a.idx[uintptr(p)]; ok {
		return i
	}
	return -7
}
func (a *listAcc) loc(addr uintptr) int64 {
	switch addr {
	case uintptr(unsafe.Pointer(a.lenP)):
		return 0
	case uintptr(unsafe.Pointer(a.headP)):
		return 1
	case uintptr(unsafe.Pointer(a.tailP)):
		return 2
	case 0:
		return 0
	}
	if i, ok := a.idx[addr-c11NextOff]; ok {
		return 10 + i
	}
	return -5
}

func (a *listAcc) enc(e sched.Event) []int64 {
	o := []int64{int64(e.Tid), 1, int64(e.Kind), a.loc(e.Addr), 0, 0, 0}
	switch e.Kind {
	case sched.EvLoadPtr:
		o[6] = a.node(e.R)
	case sched.EvStorePtr:
		o[4] = a.node(e.A)
	case sched.EvCasPtr:
		o[4], o[5], o[6] = a.node(e.A), a.node(e.B), int64(e.R)
		if e.R == 1 && o[3] >= 10 && o[5] == -7 { // a node has been linked: it gets the next index
			a.n++
			a.idx[uintptr(e.B)] = a.n
		}
	case sched.EvAddI64:
		o[4], o[6] = int64(e.A), int64(e.R)
	case sched.EvLoadI64:
		o[6] = int64(e.R)
	default:
		o[4], o[5], o[6] = int64(e.A), int64(e.B), int64(e.R)
	}
	return o
}

func c11ImplM(in, model []int64) []int64 {
	npre, nt := int(in[0]), int(in[1])
	rest := in[2:]
	progs := make([][]int64, nt)
	for i := 0; i < nt; i++ {
		progs[i], rest = GetList(rest)
	}
	a := newListAcc(npre)
	g := &sched.Group{}
	ws := make([]*sched.Worker, nt)
	results := make([][]int64, nt)
	for i := 0; i < nt; i++ {
		i := i
		ws[i] = g.Spawn(i, func() {
			for _, op := range progs[i] {
				sched.Boundary()
				switch {
				case op == 0:
					v, ok := a.l.Pop()
					results[i] = append(results[i], 2, B(ok), v)
				case op == -1:
					results[i] = append(results[i], 3, int64(a.l.Len()))
				case op == -10:
					v, ok := a.l.PopWait(-1)
					results[i] = append(results[i], 2, B(ok), v)
				case op <= -100: // timed: n further tries after the first (10 ms ticker, virtual clock)
					n := -op - 100
					d := time.Duration(0)
					if n > 0 {
						d = time.Duration(10*n-5) * time.Millisecond
					}
					v, ok := a.l.PopWait(d)
					results[i] = append(results[i], 2, B(ok), v)
				default:
					a.l.Push(op)
					results[i] = append(results[i], 1)
				}
			}
			sched.Boundary()
		})
	}
	var out []int64
	seen := 0
	emitNew := func() bool {
		got := false
		for ; seen < len(g.Log); seen++ {
			out = append(out, a.enc(g.Log[seen])...)
			got = true
		}
		return got
	}
	i := 0
	for i+1 < len(model) && model[i] != -1 {
		tid, kind := int(model[i]), model[i+1]
		if tid < 0 || tid >= nt {
			out = append(out, -8)
			break
		}
		w := ws[tid]
		switch kind {
		case 0, 2:
			if w.Pos == sched.PosPost {
				w.Advance()
			}
			if !emitNew() {
				out = append(out, int64(tid), kind)
			}
			i += 2
		default:
			for n := 0; n < 3 && w.Pos != sched.PosDone && w.Pos != -1; n++ {
				w.Advance()
				if seen < len(g.Log) {
					break
				}
			}
			if !emitNew() {
				out = append(out, int64(tid), 1, -9, int64(w.Pos))
			}
			i += 7
		}
	}
	for round := 0; round < 4000; round++ {
		alive := false
		for _, w := range ws {
			if w.Pos != sched.PosDone && w.Pos != -1 {
				alive = true
				w.Advance()
			}
		}
		if !alive {
			break
		}
	}
	emitNew()
	for _, w := range ws {
		if w.Pos == -1 {
			out = append(out, PANIC)
		} else if w.Pos != sched.PosDone {
			out = append(out, HANG)
		}
	}
	out = append(out, -1)
	for t := 0; t < nt; t++ {
		out = append(out, PutList(results[t])...)
	}
	out = append(out, -2, *a.lenP)
	var st []int64
	h, tl := *a.headP, *a.tailP
	for p, n := h, 0; p != tl && p != nil && n < 10000; n++ {
		p = *(*unsafe.Pointer)(unsafe.Add(p, c11NextOff))
		if p == nil {
			st = append(st, -99)
			break
		}
		st = append(st, *(*int64)(unsafe.Add(p, c11ValOff)))
	}
	out = append(out, PutList(st)...)
	return out
}

func c11Case(npre int64, progs [][]int64, sch []int64) []int64 {
	in := []int64{npre, int64(len(progs))}
	for _, p := range progs {
		in = append(in, PutList(p)...)
	}
	full := append([]int64{}, sch...)
	for r := 0; r < 14; r++ {
		for t := range progs {
			for range progs[t] {
				full = append(full, int64(t))
			}
		}
	}
	return append(in, PutList(full)...)
}

func c11Interleavings(n0, n1 int, cur []int64, f func([]int64)) {
	if n0 == 0 && n1 == 0 {
		f(cur)
		return
	}
	if n0 > 0 {
		c11Interleavings(n0-1, n1, append(cur, 0), f)
	}
	if n1 > 0 {
		c11Interleavings(n0, n1-1, append(cur, 1), f)
	}
}

func c11Gen(c *Ctx) {
	var scheds [][]int64
	k := c.N(7, 8)
	c11Interleavings(k, k, nil, func(s []int64) { scheds = append(scheds, append([]int64{}, s...)) })
	type cfg struct{ npre, p0, p1 int64 }
	var cfgs []cfg
	for npre := int64(0); npre <= 2; npre++ {
		for _, p0 := range []int64{0, 71, -1, -101} {
			for _, p1 := range []int64{0, 72, -1} {
				cfgs = append(cfgs, cfg{npre, p0, p1})
			}
		}
	}
	c.Each(len(cfgs)*len(scheds), func(i int, t *T) {
		cf := cfgs[i/len(scheds)]
		t.Try("exhaustive-2x1", c11Case(cf.npre, [][]int64{{cf.p0}, {cf.p1}}, scheds[i%len(scheds)]), true)
	})
	c.Note(fmt.Sprintf("exhaustive part: %d configurations (0-2 stored values, Push/Pop/Len per thread) x all %d interleavings of the first %d steps of each of two operations (then round-robin to completion)", len(cfgs), len(scheds), k))
	n := c.N(30000, 600000)
	c.Each(n, func(i int, t *T) {
		r := t.R
		npre := int64(r.Intn(3))
		nt := 2 + r.Intn(3)
		progs := make([][]int64, nt)
		total := 0
		for j := range progs {
			for o := 0; o < 1+r.Intn(3); o++ {
				switch x := r.Intn(11); {
				case x < 4:
					progs[j] = append(progs[j], 0)
				case x < 5:
					progs[j] = append(progs[j], -1)
				case x < 6:
					progs[j] = append(progs[j], -100-int64(r.Intn(3))) // PopWait(d >= 0): never blocks
				default:
					progs[j] = append(progs[j], int64(100*(j+1)+o+1))
				}
				total++
			}
		}
		fam := fmt.Sprintf("random-%dthreads", nt)
		if i%6 == 0 {
			// blocking PopWait(-1): as many pushes elsewhere as blocking pops, one blocking pop per goroutine
			fam = "popwait-blocking"
			for j := range progs {
				progs[j] = nil
			}
			total = 0
			nb := 1 + r.Intn(nt-1)
			for j := 0; j < nt; j++ {
				if j < nb {
					progs[j] = []int64{-10}
					total++
				} else {
					for o := 0; o < 1+r.Intn(2); o++ {
						progs[j] = append(progs[j], int64(100*(j+1)+o+1))
						total++
					}
				}
			}
			// enough values for every blocking pop
			have := int(npre)
			for j := nb; j < nt; j++ {
				have += len(progs[j])
			}
			for have < nb {
				progs[nt-1] = append(progs[nt-1], int64(100*nt+50+have))
				have++
				total++
			}
		}
		var s []int64
		for len(s) < total*8 {
			th := int64(r.Intn(nt))
			for b := 1 + r.Intn(4); b > 0; b-- {
				s = append(s, th)
			}
		}
		t.C.Count("threads", fmt.Sprint(nt))
		t.Try(fam, c11Case(npre, progs, s), true)
	})
}

func init() {
	Register(&Prop{ID: "C11", Num: 11, SpecMode: "rel", Gen: c11Gen, ImplM: c11ImplM,
		Describe: func(in []int64) string { return fmt.Sprintf("prepushed=%d threads=%d programs+schedule=%v", in[0], in[1], in[2:]) },
		Rule: "each case = number of values stored beforehand, per-thread programs of Push/Pop/Len and a schedule of thread ids; the real SyncList runs under the atomic shim (goroutines parked before and after every sync/atomic call and at runtime.Gosched), the model runs the same schedule; compared: every atomic operation (kind, location, operands, result; nodes named by link order) in order, every return value, final Len and stored values. exhaustive: all interleavings of 2 threads x 1 op; random: 2-4 threads x 1-3 ops. every case is distinct and non-trivial (>= 2 threads interleaved)"})
}
