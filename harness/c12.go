package main

// C12: mapz.SafeKV.
//
// mode 0  [0; cap; ops...]     sequential op sequences (op = [code; a; b; c], codes as in coq/Run/C12.v): every method's result
//                              against the interpreted skeletons (sub 0) and the plain-map specification (sub 1)
// mode 1  [1; T; hist...]      a concurrent history observed on the real SafeKV (T goroutines, <= 12 calls, invocation and
//                              response stamped with one atomic counter) is put INTO the case; the model searches a linearisation
// mode 2  [2; a; b; iters]     the method pair (a, b) hammered by two goroutines in a separate binary built with -race
//                              (go test -race -c in a scratch directory under build/); output [0] = no report
// mode 3  [3; before; after; obs...]  one bulk call (Delete of many keys, Clear, Map) against polling readers: the sizes they saw
//                              are put INTO the case; the model checks that each is `before` or `after` and never goes back

import (
	"crypto/sha1"
	"fmt"
	"os"
	"os/exec"
	"path/filepath"
	"runtime"
	"sort"
	"strings"
	"sync"
	"sync/atomic"
	"time"

	"github.com/welllog/golib/mapz"
)

var c12Names = []string{"Get", "Set", "SetNx", "SetX", "Delete", "Has", "Contains", "Len", "Keys", "Values", "Range", "All",
	"GetWithMap", "GetWithLock", "Clear", "Map"}

func c12Pairs(m map[int64]int64) []int64 {
	ks := make([]int64, 0, len(m))
	for k := range m {
		ks = append(ks, k)
	}
	sort.Slice(ks, func(i, j int) bool { return ks[i] < ks[j] })
	out := make([]int64, 0, 2*len(ks))
	for _, k := range ks {
		out = append(out, k, m[k])
	}
	return out
}

func c12Sorted(l []int64) []int64 {
	sort.Slice(l, func(i, j int) bool { return l[i] < l[j] })
	return l
}

// one call on the real SafeKV; the result encoded as the model encodes it.
// yield: callbacks give up the processor (widens the critical sections in concurrent runs); seq: single goroutine.
func c12Do(s *mapz.SafeKV[int64, int64], code, a, b, c int64, yield, seq bool) []int64 {
	keys := []int64{a, b}
	nk := c
	if nk < 0 {
		nk = 0
	}
	if nk > 2 {
		nk = 2
	}
	keys = keys[:nk]
	iterate := func(stop int64, run func(fn func(k, v int64) bool)) []int64 {
		seen := map[int64]int64{}
		calls := int64(0)
		dup := false
		run(func(k, v int64) bool {
			calls++
			if _, ok := seen[k]; ok {
				dup = true
			}
			seen[k] = v
			if yield {
				runtime.Gosched()
			}
			return !(stop > 0 && calls >= stop)
		})
		if stop <= 0 {
			if dup {
				return []int64{-1}
			}
			return PutList(c12Pairs(seen))
		}
		ok := !dup && int64(len(seen)) == calls
		if ok && seq {
			for k, v := range seen {
				if w, has := s.Get(k); !has || w != v {
					ok = false
				}
			}
		}
		return []int64{calls, B(ok)}
	}
	switch code {
	case 0:
		v, ok := s.Get(a)
		return []int64{v, B(ok)}
	case 1:
		s.Set(a, b)
		return nil
	case 2:
		return []int64{B(s.SetNx(a, b))}
	case 3:
		return []int64{B(s.SetX(a, b))}
	case 4:
		s.Delete(keys...)
		return nil
	case 5:
		return []int64{B(s.Has(a))}
	case 6:
		return []int64{B(s.Contains(a))}
	case 7:
		return []int64{int64(s.Len())}
	case 8:
		return PutList(c12Sorted(s.Keys()))
	case 9:
		return PutList(c12Sorted(s.Values()))
	case 10:
		return iterate(a, func(fn func(k, v int64) bool) { s.Range(fn) })
	case 11:
		return iterate(a, func(fn func(k, v int64) bool) {
			for k, v := range s.All() {
				if !fn(k, v) {
					break
				}
			}
		})
	case 12:
		m := map[int64]int64{}
		for _, k := range keys {
			m[k] = -1
		}
		s.GetWithMap(m)
		return PutList(c12Pairs(m))
	case 13:
		var got []int64
		s.GetWithLock(a, func(v int64) {
			got = append(got, v)
			if yield {
				runtime.Gosched()
			}
		})
		return append([]int64{int64(len(got))}, got...)
	case 14:
		s.Clear()
		return nil
	case 15:
		var n int64
		s.Map(func(m mapz.KV[int64, int64]) {
			n = int64(len(m))
			if yield {
				runtime.Gosched()
			}
			switch a {
			case 1:
				m[b] = c
			case 2:
				delete(m, b)
				if yield {
					runtime.Gosched()
				}
				m[c] = b
			case 3:
				for k := range m {
					m[k]++
				}
			case 4:
				if v, ok := m[b]; ok {
					if yield {
						runtime.Gosched()
					}
					m[c] = v + 1
				}
			}
		})
		return []int64{n}
	}
	return []int64{BADCASE}
}

func c12Seq(capHint int64, ops []int64) []int64 {
	if capHint < 0 {
		capHint = 0
	}
	s := mapz.NewSafeKV[int64, int64](int(capHint))
	var out []int64
	for i := 0; i+3 < len(ops); i += 4 {
		out = append(out, c12Do(s, ops[i], ops[i+1], ops[i+2], ops[i+3], false, true)...)
	}
	return out
}

// run T goroutines, each with its own op list, on one SafeKV; returns the history encoding
func c12Concurrent(threads [][]int64) (hist []int64, overlapped bool) {
	s := mapz.NewSafeKV[int64, int64](0)
	var ctr atomic.Int64
	type rec struct {
		inv, resp int64
		op        [4]int64
		res       []int64
	}
	recs := make([][]rec, len(threads))
	var done sync.WaitGroup
	var ready atomic.Int64 // spin barrier: all goroutines issue their first call within a few hundred ns of each other
	nthr := int64(len(threads))
	for t := range threads {
		done.Add(1)
		go func(t int) {
			defer done.Done()
			ops := threads[t]
			ready.Add(1)
			for spin := 0; ready.Load() < nthr; spin++ {
				if spin%64 == 63 {
					runtime.Gosched()
				}
			}
			for i := 0; i+3 < len(ops); i += 4 {
				inv := ctr.Add(1)
				res := c12Do(s, ops[i], ops[i+1], ops[i+2], ops[i+3], true, false)
				resp := ctr.Add(1)
				recs[t] = append(recs[t], rec{inv, resp, [4]int64{ops[i], ops[i+1], ops[i+2], ops[i+3]}, res})
			}
		}(t)
	}
	done.Wait()
	// final observation by the main goroutine, after everything
	inv := ctr.Add(1)
	res := c12Do(s, 10, 0, 0, 0, false, true)
	resp := ctr.Add(1)
	final := rec{inv, resp, [4]int64{10, 0, 0, 0}, res}
	var all []rec
	for t := range recs {
		for _, r := range recs[t] {
			for u := range recs {
				if u == t {
					continue
				}
				for _, q := range recs[u] {
					if r.inv < q.resp && q.inv < r.resp {
						overlapped = true
					}
				}
			}
			all = append(all, r)
		}
	}
	all = append(all, final)
	for _, r := range all {
		hist = append(hist, r.inv, r.resp, r.op[0], r.op[1], r.op[2], r.op[3], int64(len(r.res)))
		hist = append(hist, r.res...)
	}
	return
}

// ---------------------------------------------------------------- race-detector binary
const c12RaceSrc = `package c12race

import (
	"os"
	"strconv"
	"sync"
	"testing"

	"github.com/welllog/golib/mapz"
)

func do(s *mapz.SafeKV[int, int], code, i int) {
	k := i % 4
	switch code {
	case 0:
		s.Get(k)
	case 1:
		s.Set(k, i)
	case 2:
		s.SetNx(k, i)
	case 3:
		s.SetX(k, i)
	case 4:
		s.Delete(k, k+1)
	case 5:
		s.Has(k)
	case 6:
		s.Contains(k)
	case 7:
		s.Len()
	case 8:
		s.Keys()
	case 9:
		s.Values()
	case 10:
		s.Range(func(k, v int) bool { return true })
	case 11:
		for range s.All() {
		}
	case 12:
		s.GetWithMap(map[int]int{k: 0, k + 1: 0})
	case 13:
		s.GetWithLock(k, func(int) {})
	case 14:
		s.Clear()
	case 15:
		s.Map(func(m mapz.KV[int, int]) { m[k] = i; delete(m, k+2) })
	}
}

func TestPair(t *testing.T) {
	a, _ := strconv.Atoi(os.Getenv("C12_A"))
	b, _ := strconv.Atoi(os.Getenv("C12_B"))
	n, _ := strconv.Atoi(os.Getenv("C12_N"))
	s := mapz.NewSafeKV[int, int](0)
	for i := 0; i < 4; i++ {
		s.Set(i, i)
	}
	var wg sync.WaitGroup
	for g, code := range []int{a, b, a, b} {
		wg.Add(1)
		go func(g, code int) {
			defer wg.Done()
			for i := 0; i < n; i++ {
				do(s, code, i+g)
				if i%64 == 0 {
					s.Set(i%4, i) // keep the map populated
				}
			}
		}(g, code)
	}
	wg.Wait()
}
`

var (
	c12RaceOnce sync.Once
	c12RaceBin  string
	c12RaceErr  string
)

func c12BuildRace() {
	root := os.Getenv("VERIF_ROOT")
	repo := os.Getenv("VERIF_REPO")
	if root == "" || repo == "" {
		c12RaceErr = "VERIF_ROOT / VERIF_REPO not set"
		return
	}
	h := sha1.Sum([]byte(repo))
	dir := filepath.Join(root, "build", fmt.Sprintf("c12race-%x", h[:4]))
	os.MkdirAll(dir, 0755)
	gomod := "module c12race\n\ngo 1.23\n\nrequire github.com/welllog/golib v0.0.0\n\nreplace github.com/welllog/golib => " + repo + "\n"
	os.WriteFile(filepath.Join(dir, "go.mod"), []byte(gomod), 0644)
	os.WriteFile(filepath.Join(dir, "pair_test.go"), []byte(c12RaceSrc), 0644)
	if b, err := os.ReadFile(filepath.Join(repo, "go.sum")); err == nil {
		os.WriteFile(filepath.Join(dir, "go.sum"), b, 0644)
	}
	cmd := exec.Command("go", "test", "-race", "-c", "-o", "race.test", ".")
	cmd.Dir = dir
	cmd.Env = append(os.Environ(), "CGO_ENABLED=1")
	out, err := cmd.CombinedOutput()
	if err != nil {
		c12RaceErr = "go test -race -c failed: " + string(out)
		return
	}
	c12RaceBin = filepath.Join(dir, "race.test")
}

// returns [0] no report, [1] DATA RACE reported, [2] the runtime died (e.g. concurrent map writes), [3] binary unavailable
func c12Race(a, b, iters int64) []int64 {
	c12RaceOnce.Do(c12BuildRace)
	if c12RaceBin == "" {
		return []int64{3}
	}
	cmd := exec.Command(c12RaceBin, "-test.run", "TestPair", "-test.count", "1")
	cmd.Env = append(os.Environ(), fmt.Sprintf("C12_A=%d", a), fmt.Sprintf("C12_B=%d", b), fmt.Sprintf("C12_N=%d", iters),
		"GORACE=halt_on_error=1 exitcode=66", "GOMAXPROCS=4")
	out, err := cmd.CombinedOutput()
	if err == nil {
		return []int64{0}
	}
	txt := string(out)
	if strings.Contains(txt, "DATA RACE") {
		return []int64{1}
	}
	return []int64{2}
}

var c12Cache sync.Map

// mode 2, scenario 101: the callbacks of GetWithLock (read lock) and Map (write lock) run while the call holds the lock: a
// writer (for Map: also a reader) started from inside the callback cannot finish before the callback returns.  One-sided:
// on a correct SafeKV the other call can never finish during the callback, however long the wait; [0] = it never did.
func c12CallbackHoldsLock(rounds int) []int64 {
	if rounds < 1 || rounds > 200 {
		return []int64{BADCASE}
	}
	bad := 0
	for i := 0; i < rounds; i++ {
		s := mapz.NewSafeKV[int64, int64](0)
		s.Set(1, 10)
		finished := func(f func()) bool {
			done := make(chan struct{})
			go func() { f(); close(done) }()
			select {
			case <-done:
				return true
			case <-time.After(3 * time.Millisecond):
				return false
			}
		}
		s.GetWithLock(1, func(v int64) {
			if finished(func() { s.Set(2, 20) }) {
				bad++
			}
		})
		s.Map(func(m mapz.KV[int64, int64]) {
			if finished(func() { s.Get(1) }) || finished(func() { s.Set(3, 30) }) {
				bad++
			}
		})
		time.Sleep(200 * time.Microsecond)
	}
	if bad != 0 {
		return []int64{2}
	}
	return []int64{0}
}

// mode 2, scenario 100: the map is filled with nk thousand keys and then emptied to a tenth by Delete calls of 500 keys
// (whatever the implementation does when a large map has shrunk - rebuild, compaction - happens here), while four
// writers work on keys of their own that nobody else touches: Set then Get must read the value just written, Delete
// then Has must be false, SetNx on the absent key must succeed, Len never exceeds what was ever stored; at the end one
// Delete call sweeps all the (by now absent) keys again, some twice: the tenth that is left must stay.  [0] = no anomaly.
func c12HighWater(nk, rounds int) []int64 {
	if nk < 1 || nk > 400 || rounds < 1 || rounds > 20 {
		return []int64{BADCASE}
	}
	N := int64(nk) * 1000
	var bad atomic.Int64
	for round := 0; round < rounds; round++ {
		s := mapz.NewSafeKV[int64, int64](0)
		for k := int64(0); k < N; k++ {
			s.Set(k, k)
		}
		var stop atomic.Bool
		var wg sync.WaitGroup
		for w := int64(0); w < 4; w++ {
			wg.Add(1)
			go func(k int64) {
				defer wg.Done()
				for v := int64(1); !stop.Load(); v++ {
					s.Set(k, v)
					if g, ok := s.Get(k); !ok || g != v {
						bad.Add(1)
					}
					if v%3 == 0 {
						s.Delete(k)
						if s.Has(k) {
							bad.Add(1)
						}
						if !s.SetNx(k, v) {
							bad.Add(1)
						}
						if g, ok := s.Get(k); !ok || g != v {
							bad.Add(1)
						}
					}
					if n := int64(s.Len()); n > N+4 {
						bad.Add(1)
					}
				}
			}(N + w)
		}
		chunk := make([]int64, 0, 500)
		for k := int64(0); k < N-N/10; k++ {
			chunk = append(chunk, k)
			if len(chunk) == 500 {
				s.Delete(chunk...)
				chunk = chunk[:0]
			}
		}
		s.Delete(chunk...)
		stop.Store(true)
		wg.Wait()
		own := int64(0) // a writer that never got to run has no key
		for w := int64(0); w < 4; w++ {
			if s.Has(N + w) {
				own++
			}
		}
		if int64(s.Len()) != N/10+own {
			bad.Add(1)
		}
		// a sweep: ONE Delete call with far more keys than the map still holds, all of them absent by now or given twice
		// (expired ids swept in bulk): a Delete removes the keys it is given and nothing else
		sweep := make([]int64, 0, N)
		for k := int64(0); k < N-N/10; k++ {
			sweep = append(sweep, k)
		}
		sweep = append(sweep, sweep[:100]...)
		s.Delete(sweep...)
		if int64(s.Len()) != N/10+own || !s.Has(N-1) {
			bad.Add(1)
		}
	}
	if bad.Load() != 0 {
		return []int64{2}
	}
	return []int64{0}
}

func c12Impl(in []int64) []int64 {
	if len(in) < 2 {
		return []int64{BADCASE}
	}
	switch in[0] {
	case 0:
		return c12Seq(in[1], in[2:])
	case 1:
		if v, ok := c12Cache.Load(sha1.Sum([]byte(fmt.Sprint(in)))); ok {
			return v.([]int64)
		}
		// a recorded history (replay): the implementation's claim is that it is linearisable; count the calls
		n := int64(0)
		for i := 2; i+6 < len(in); {
			rl := int(in[i+6])
			if rl < 0 {
				break
			}
			i += 7 + rl
			n++
		}
		return []int64{1, n}
	case 2:
		if len(in) != 4 {
			return []int64{BADCASE}
		}
		if in[1] == 100 {
			return c12HighWater(int(in[2]), int(in[3]))
		}
		if in[1] == 101 {
			return c12CallbackHoldsLock(int(in[3]))
		}
		return c12Race(in[1], in[2], in[3])
	case 3:
		return []int64{1} // recorded observations of one bulk call: the implementation's claim is that they are atomic
	}
	return []int64{BADCASE}
}

// mode 3: one bulk call on n prefilled keys (kind 0 Delete(all keys) 1 Clear 2 Map deleting everything 3 Map adding n more
// 4 Delete(first half of the keys)) while readers poll Len / len(Keys) / len(Values) / a Range count / GetWithMap size.
// Every observation must be the size before or the size after the call, and never go back (per reader).
func c12Bulk(n int, kind int, readers int) []int64 {
	s := mapz.NewSafeKV[int64, int64](0)
	keys := make([]int64, n)
	for i := range keys {
		keys[i] = int64(i)
		s.Set(int64(i), int64(i))
	}
	after := 0
	switch kind {
	case 3:
		after = 2 * n
	case 4:
		after = n - n/2
	}
	obs := make([][]int64, readers)
	var started, stop atomic.Int64
	var wg sync.WaitGroup
	for ri := 0; ri < readers; ri++ {
		ri := ri
		wg.Add(1)
		go func() {
			defer wg.Done()
			started.Add(1)
			last := int64(-7)
			for it := 0; it < 200000; it++ {
				var v int64
				switch (ri + it) % 5 {
				case 0:
					v = int64(s.Len())
				case 1:
					v = int64(len(s.Keys()))
				case 2:
					v = int64(len(s.Values()))
				case 3:
					s.Range(func(int64, int64) bool { v++; return true })
				case 4:
					m := make(map[int64]int64, 2*n)
					for i := 0; i < 2*n; i++ {
						m[int64(i)] = -9
					}
					s.GetWithMap(m) // fills in the values of the keys that are present
					for _, x := range m {
						if x != -9 {
							v++
						}
					}
				}
				if v != last {
					obs[ri] = append(obs[ri], v)
					last = v
				}
				if stop.Load() != 0 && v == int64(after) {
					return
				}
				if stop.Load() > 1 {
					return
				}
			}
		}()
	}
	for started.Load() < int64(readers) {
		runtime.Gosched()
	}
	for i := 0; i < 50; i++ {
		runtime.Gosched()
	}
	switch kind {
	case 0:
		s.Delete(keys...)
	case 1:
		s.Clear()
	case 2:
		s.Map(func(m mapz.KV[int64, int64]) {
			for _, k := range keys {
				delete(m, k)
				if k%16 == 0 {
					runtime.Gosched()
				}
			}
		})
	case 3:
		s.Map(func(m mapz.KV[int64, int64]) {
			for i := 0; i < n; i++ {
				m[int64(n+i)] = 1
				if i%16 == 0 {
					runtime.Gosched()
				}
			}
		})
	case 4:
		s.Delete(keys[:n/2]...)
	}
	stop.Store(1)
	done := make(chan struct{})
	go func() { wg.Wait(); close(done) }()
	select {
	case <-done:
	case <-time.After(10 * time.Second):
		stop.Store(2)
		<-done
	}
	in := []int64{3, int64(n), int64(after)}
	for _, o := range obs {
		in = append(in, o...)
		in = append(in, -1)
	}
	return in
}

func c12RandOp(r interface{ Intn(int) int }, nkeys int, conc bool) [4]int64 {
	x := r.Intn(100)
	k := func() int64 { return int64(r.Intn(nkeys)) }
	v := func() int64 { return int64(r.Intn(10)) } // 0 = the zero value of V included
	switch {
	case x < 10:
		return [4]int64{0, k(), 0, 0}
	case x < 24:
		return [4]int64{1, k(), v(), 0}
	case x < 36:
		return [4]int64{2, k(), v(), 0}
	case x < 46:
		return [4]int64{3, k(), v(), 0}
	case x < 54:
		return [4]int64{4, k(), k(), int64(r.Intn(3))}
	case x < 58:
		return [4]int64{5, k(), 0, 0}
	case x < 61:
		return [4]int64{6, k(), 0, 0}
	case x < 66:
		return [4]int64{7, 0, 0, 0}
	case x < 71:
		return [4]int64{8, 0, 0, 0}
	case x < 75:
		return [4]int64{9, 0, 0, 0}
	case x < 80:
		if conc {
			return [4]int64{10, 0, 0, 0}
		}
		return [4]int64{10, int64(r.Intn(4)), 0, 0}
	case x < 84:
		if conc {
			return [4]int64{11, 0, 0, 0}
		}
		return [4]int64{11, int64(r.Intn(4)), 0, 0}
	case x < 88:
		return [4]int64{12, k(), k(), int64(r.Intn(3))}
	case x < 91:
		return [4]int64{13, k(), 0, 0}
	case x < 94:
		return [4]int64{14, 0, 0, 0}
	default:
		return [4]int64{15, int64(r.Intn(5)), k(), k()}
	}
}

func c12Gen(c *Ctx) {
	tooMany := func() bool { c.mu.Lock(); defer c.mu.Unlock(); return c.nfail > 12 }
	// ---- sequential: every pair of operations on a small map (exhaustive over a small alphabet), then random sequences
	var alpha [][4]int64
	for _, k := range []int64{0, 1} {
		alpha = append(alpha, [4]int64{0, k, 0, 0}, [4]int64{1, k, 5, 0}, [4]int64{2, k, 6, 0}, [4]int64{3, k, 7, 0}, [4]int64{5, k, 0, 0},
			[4]int64{13, k, 0, 0}, [4]int64{4, k, 1 - k, 1}, [4]int64{15, 4, k, 1 - k})
	}
	alpha = append(alpha, [4]int64{4, 0, 1, 2}, [4]int64{4, 0, 0, 0}, [4]int64{7, 0, 0, 0}, [4]int64{8, 0, 0, 0}, [4]int64{9, 0, 0, 0}, [4]int64{10, 0, 0, 0},
		[4]int64{10, 1, 0, 0}, [4]int64{11, 0, 0, 0}, [4]int64{11, 2, 0, 0}, [4]int64{12, 0, 1, 2}, [4]int64{12, 1, 1, 2}, [4]int64{14, 0, 0, 0},
		[4]int64{15, 0, 0, 0}, [4]int64{15, 1, 0, 9}, [4]int64{15, 2, 0, 1}, [4]int64{15, 3, 0, 0}, [4]int64{6, 1, 0, 0})
	na := len(alpha)
	L := c.N(3, 4)
	total := 0
	pow := 1
	var sizes []int
	for l := 0; l <= L; l++ {
		sizes = append(sizes, pow)
		total += pow
		pow *= na
	}
	c.Each(total, func(i int, t *T) {
		l := 0
		for i >= sizes[l] {
			i -= sizes[l]
			l++
		}
		in := []int64{0, 0}
		kinds := map[int64]bool{}
		for j := 0; j < l; j++ {
			o := alpha[i%na]
			i /= na
			in = append(in, o[:]...)
			kinds[o[0]] = true
		}
		in = append(in, 7, 0, 0, 0, 10, 0, 0, 0)
		t.Try("seq-exhaustive", in, l >= 2 && len(kinds) >= 2)
	})
	c.Note(fmt.Sprintf("sequential exhaustive part: all sequences of length <= %d over an alphabet of %d calls on keys {0,1}, each followed by Len + full Range", L, na))
	c.Each(c.N(15000, 300000), func(i int, t *T) {
		if tooMany() {
			return
		}
		r := t.R
		nkeys := 2 + r.Intn(6)
		in := []int64{0, int64(r.Intn(9))}
		nops := 3 + r.Intn(40)
		kinds := map[int64]bool{}
		for j := 0; j < nops; j++ {
			o := c12RandOp(r, nkeys, false)
			in = append(in, o[:]...)
			kinds[o[0]] = true
			t.C.Count("op", c12Names[o[0]])
		}
		in = append(in, 7, 0, 0, 0, 10, 0, 0, 0)
		t.Try("seq-random", in, len(kinds) >= 2)
	})
	// ---- race detector on every method pair
	var pairs [][]int64
	for a := int64(0); a < 16; a++ {
		for b := a; b < 16; b++ {
			pairs = append(pairs, []int64{2, a, b, int64(c.N(1500, 20000))})
		}
	}
	c.Each(len(pairs), func(i int, t *T) {
		if tooMany() {
			return
		}
		t.Try("race-pair", pairs[i], true)
	})
	c.Each(1, func(i int, t *T) {
		t.Try("callbacks-run-under-the-lock", []int64{2, 101, 0, int64(c.N(20, 150))}, true)
	})
	for _, nk := range []int64{3, 70, 140} {
		t0 := []int64{2, 100, nk, int64(c.N(3, 12))}
		c.Each(1, func(i int, t *T) { t.Try("own-key-writers-while-a-large-map-shrinks", t0, true) })
	}
	if c12RaceErr != "" {
		c.Note("race binary: " + c12RaceErr)
	}
	// ---- concurrent histories (in this process: skipped when the race run already failed — a racy map can kill the runtime)
	raceFailed := func() bool { c.mu.Lock(); defer c.mu.Unlock(); return c.nfail > 0 }
	if raceFailed() {
		c.Note("concurrent histories skipped: earlier failures (a data race on a Go map may abort the process)")
		return
	}
	c.Each(c.N(40000, 600000), func(i int, t *T) {
		if tooMany() {
			return
		}
		r := t.R
		T := 2 + r.Intn(3)
		budget := 11
		threads := make([][]int64, T)
		nkeys := 1 + r.Intn(3)
		for th := 0; th < T; th++ {
			n := 1 + r.Intn(4)
			if n > budget-(T-1-th) {
				n = budget - (T - 1 - th)
			}
			if n < 1 {
				n = 1
			}
			budget -= n
			for j := 0; j < n; j++ {
				o := c12RandOp(r, nkeys, true)
				threads[th] = append(threads[th], o[:]...)
			}
		}
		hist, overlapped := c12Concurrent(threads)
		in := append([]int64{1, int64(T)}, hist...)
		n := int64(0)
		for _, th := range threads {
			n += int64(len(th) / 4)
		}
		c12Cache.Store(sha1.Sum([]byte(fmt.Sprint(in))), []int64{1, n + 1})
		t.C.Count("history", fmt.Sprintf("threads=%d overlapped=%v", T, overlapped))
		t.Try("history", in, overlapped)
	})
	// ---- one bulk call against polling readers: sizes around every plausible internal batch size
	bulkSizes := []int{2, 15, 16, 17, 31, 32, 33, 63, 64, 65, 100, 127, 128, 129, 255, 256, 257, 511, 512, 513, 1000, 1023, 1024, 1025, 4096, 4097}
	c.Each(c.N(4, 40)*len(bulkSizes)*5, func(i int, t *T) {
		if tooMany() {
			return
		}
		n := bulkSizes[i%len(bulkSizes)]
		kind := (i / len(bulkSizes)) % 5
		in := c12Bulk(n, kind, 2+i%3)
		t.C.Count("bulk", fmt.Sprintf("kind=%d", kind))
		t.Try("bulk-call-atomic", in, len(in) > 3+2+i%3)
	})
}

func c12Describe(in []int64) string {
	if len(in) < 2 {
		return "?"
	}
	op := func(o []int64) string {
		return fmt.Sprintf("%s(%d,%d,%d)", c12Names[((o[0]%16)+16)%16], o[1], o[2], o[3])
	}
	switch in[0] {
	case 0:
		s := fmt.Sprintf("NewSafeKV(%d):", in[1])
		for i := 2; i+3 < len(in); i += 4 {
			s += " " + op(in[i:i+4])
		}
		return s
	case 1:
		s := fmt.Sprintf("history of %d goroutines [inv,resp] call -> result:", in[1])
		for i := 2; i+6 < len(in); {
			rl := int(in[i+6])
			if rl < 0 || i+7+rl > len(in) {
				break
			}
			s += fmt.Sprintf(" [%d,%d] %s -> %v;", in[i], in[i+1], op(in[i+2:i+6]), in[i+7:i+7+rl])
			i += 7 + rl
		}
		return s
	case 3:
		if len(in) >= 3 {
			return fmt.Sprintf("%d keys, one bulk call (Delete(keys...) / Clear / Map) leaving %d, sizes seen by the polling readers (-1 ends a reader): %v", in[1], in[2], in[3:])
		}
		return "?"
	case 2:
		if len(in) == 4 {
			if in[1] == 101 {
				return fmt.Sprintf("%d rounds: a Set started from inside the callback of GetWithLock, a Get and a Set started from inside the callback of Map (impl output 0 = none of them finished before the callback returned, 2 = one did)", in[3])
			}
			if in[1] == 100 {
				return fmt.Sprintf("a SafeKV filled with %d000 keys is emptied to a tenth by Delete calls of 500 keys while 4 writers Set/Get/Delete/Has/SetNx keys of their own, %d rounds (impl output 0 = every writer read its own writes, 2 = a writer did not)", in[2], in[3])
			}
			return fmt.Sprintf("go test -race: 2+2 goroutines calling %s and %s %d times each on one SafeKV, each goroutine also doing a Set every 64 iterations (impl output 1 = DATA RACE reported, 2 = runtime died)",
				c12Names[((in[1]%16)+16)%16], c12Names[((in[2]%16)+16)%16], in[3])
		}
	}
	return "?"
}

func c12Shrink(in []int64) [][]int64 {
	if len(in) >= 2 && in[0] == 0 {
		return ShrinkOps(2, 4)(in)
	}
	return nil
}

func init() {
	Register(&Prop{ID: "C12", Num: 12, SpecMode: "equal", Gen: c12Gen, Impl: c12Impl, Shrink: c12Shrink, Describe: c12Describe,
		Rule: "sequential: all call sequences up to the tier's length over a small alphabet of calls on keys {0,1}, plus random sequences of 3-42 calls over 2-7 keys (all 16 methods, callbacks included, early-stopping Range/All); histories: 2-4 goroutines, <= 12 calls on 1-3 keys, callbacks yield inside the critical section, searched for a linearisation; race: every one of the 136 method pairs under the race detector. distinct = distinct case; non-trivial = at least 2 kinds of call (sequential), at least two calls of different goroutines overlapping in time (history)"})
}
