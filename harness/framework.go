// Generic correspondence / failing-input-search harness.
//
// A case is a list of integers.  For property Cnn the extracted Coq function
// Model.dispatch nn sub args is reached through the OCaml driver (one process per worker):
//
//	sub 0: the model's output on the case        (X: must equal the implementation's output)
//	sub 1: the specification's output on the case (F: must match the implementation's output;
//	       the token WILD in the specification's output matches anything)
//	sub 2: (relational properties) spec_ok applied to put_list(case) ++ put_list(implementation output) -> [1] / [0]
package main

import (
	"bufio"
	"bytes"
	"crypto/sha1"
	"encoding/json"
	"flag"
	"fmt"
	"io"
	"math/rand"
	"os"
	"os/exec"
	"runtime"
	"sort"
	"strconv"
	"strings"
	"sync"
	"syscall"
	"time"
)

const (
	PANIC   = -1000001
	NOFUEL  = -1000002
	BADCASE = -1000003
	ASK     = -1000004
	OVERFL  = -1000005
	WILD    = -1000006
	HANG    = -1000007
	CRASH   = -1000041 // the implementation run killed its (child) process: fatal error, out of memory, exit
)

type Prop struct {
	ID         string
	Num        int
	NumOf      func(in []int64) int // optional: the dispatch number of a case (a family evaluated by another Run file, e.g. Run/C106.v); default Num
	SpecMode   string               // "equal" (sub 1 output vs impl), "rel" (sub 2 verdict), "none"
	Gen        func(c *Ctx)
	Impl       func(in []int64) []int64
	ImplM      func(in, model []int64) []int64 // optional: implementation driven by the model's answer (schedules)
	Shrink     func(in []int64) [][]int64      // optional: smaller candidate inputs
	JudgeLimit int                             // relational properties: cases longer than this are not given to the judge (one evaluation can take many minutes): implementation = model is accepted (the model's own output is proved to pass the judge), a difference is reported as a difference
	SpecSkip   func(in []int64) bool           // optional: cases outside the domain of the specification that the (more detailed) model still describes: compared with the model only
	Pure       bool                            // the implementation run of a case touches only objects of its own: the same case must give the same result while other calls run at the same time (concurrent phase)
	Isolate    func(in []int64) bool           // optional: cases whose implementation run may kill the process (an allocation of 2^40 bytes is a fatal error, not a panic) run in a child process with an address-space limit
	Known      func(in, out []int64) string    // optional: id of the known finding this failing case belongs to
	Oracle     func(q []int64) []int64         // optional: answers ASK queries of the model
	XProj      func(in, impl []int64) []int64  // optional: the part of the implementation's output the model can predict (the rest depends on internal nondeterminism the harness cannot observe, e.g. Go map order); X compares the model with this projection, the judge (sub 1/2) always sees the whole output.  Default: the whole output.
	Describe   func(in []int64) string         // optional: human-readable rendering for replays
	Rule       string                          // how cases are generated; what counts as non-trivial
}

var props = map[string]*Prop{}

func Register(p *Prop) { props[p.ID] = p }

// ---------------------------------------------------------------- model process
type Model struct {
	cmd *exec.Cmd
	in  *bufio.Writer
	out *bufio.Reader
	// arguments (case ++ oracle table) of the last completed CallOracle: lets an oracle property contribute
	// table-complete cases to the kernel re-evaluation sample
	lastFull []int64
}

func StartModel(driver string) *Model {
	cmd := exec.Command(driver)
	w, _ := cmd.StdinPipe()
	r, _ := cmd.StdoutPipe()
	cmd.Stderr = os.Stderr
	if err := cmd.Start(); err != nil {
		fmt.Fprintln(os.Stderr, "cannot start model driver:", err)
		os.Exit(2)
	}
	return &Model{cmd: cmd, in: bufio.NewWriterSize(w, 1<<16), out: bufio.NewReaderSize(r, 1<<16)}
}

func (m *Model) Call(num, sub int, args []int64) []int64 {
	var sb strings.Builder
	sb.WriteString(strconv.Itoa(num))
	sb.WriteByte(' ')
	sb.WriteString(strconv.Itoa(sub))
	for _, a := range args {
		if a > 1<<61 || a < -(1<<61) {
			panic(fmt.Sprintf("token out of range: %d", a))
		}
		sb.WriteByte(' ')
		sb.WriteString(strconv.FormatInt(a, 10))
	}
	sb.WriteByte('\n')
	m.in.WriteString(sb.String())
	m.in.Flush()
	line, err := m.out.ReadString('\n')
	if err != nil && line == "" {
		fmt.Fprintln(os.Stderr, "model driver died:", err)
		os.Exit(2)
	}
	f := strings.Fields(line)
	out := make([]int64, len(f))
	for i, s := range f {
		v, e := strconv.ParseInt(s, 10, 64)
		if e != nil {
			// a value beyond int64: keep a stable stand-in so that it never equals an implementation token
			v = OVERFL
		}
		out[i] = v
	}
	return out
}

func (m *Model) Close() { m.cmd.Process.Kill(); m.cmd.Wait() }

// CallOracle runs sub with the ASK protocol: args ++ table, table = [k, (put_list q, put_list a) x k]
func (m *Model) CallOracle(p *Prop, sub int, args []int64) []int64 {
	var tbl []int64
	n := int64(0)
	for iter := 0; iter < 100000; iter++ {
		full := append(append(append([]int64{}, args...), n), tbl...)
		out := m.Call(p.numOf(args), sub, full)
		if len(out) > 0 && out[0] == ASK && p.Oracle != nil {
			q := out[1:]
			a := p.Oracle(q)
			tbl = append(tbl, PutList(q)...)
			tbl = append(tbl, PutList(a)...)
			n++
			continue
		}
		m.lastFull = full
		return out
	}
	return []int64{NOFUEL}
}

// ---------------------------------------------------------------- encoding helpers
func B(b bool) int64 {
	if b {
		return 1
	}
	return 0
}
func PutList(l []int64) []int64 { return append([]int64{int64(len(l))}, l...) }
func Bytes(b []byte) []int64 {
	o := make([]int64, len(b))
	for i, x := range b {
		o[i] = int64(x)
	}
	return o
}
func ToBytes(l []int64) []byte {
	o := make([]byte, len(l))
	for i, x := range l {
		o[i] = byte(x)
	}
	return o
}
func GetList(l []int64) (head, rest []int64) {
	if len(l) == 0 {
		return nil, nil
	}
	n := int(l[0])
	if n < 0 || n > len(l)-1 {
		n = len(l) - 1
	}
	return l[1 : 1+n], l[1+n:]
}
func eqTok(a, b []int64) bool {
	if len(a) != len(b) {
		return false
	}
	for i := range a {
		if a[i] != b[i] {
			return false
		}
	}
	return true
}
func matchSpec(spec, impl []int64) bool {
	if len(spec) != len(impl) {
		return false
	}
	for i := range spec {
		if spec[i] != impl[i] && spec[i] != WILD {
			return false
		}
	}
	return true
}

// ---------------------------------------------------------------- running the implementation safely
func SafeImpl(p *Prop, in []int64) (out []int64) {
	if p.Isolate != nil && os.Getenv("VERIF_CHILDIMPL") == "" && p.Isolate(in) {
		return childImpl(p, in)
	}
	type res struct{ o []int64 }
	ch := make(chan res, 1)
	go func() {
		defer func() {
			if r := recover(); r != nil {
				ch <- res{[]int64{PANIC}}
			}
		}()
		ch <- res{p.Impl(in)}
	}()
	select {
	case r := <-ch:
		return r.o
	case <-time.After(20 * time.Second):
		return []int64{HANG}
	}
}

// childImpl runs one case in a child process (this binary, VERIF_CHILDIMPL set) under an address-space limit; a child
// that dies (fatal error: out of memory, os.Exit, a signal) is the observation [CRASH].
func childImpl(p *Prop, in []int64) []int64 {
	var sb strings.Builder
	for _, v := range in {
		fmt.Fprintf(&sb, "%d ", v)
	}
	cmd := exec.Command(os.Args[0], p.ID)
	cmd.Env = append(os.Environ(), "VERIF_CHILDIMPL=1")
	cmd.Stdin = strings.NewReader(sb.String())
	var stdout bytes.Buffer
	cmd.Stdout = &stdout
	done := make(chan error, 1)
	if err := cmd.Start(); err != nil {
		return []int64{CRASH}
	}
	go func() { done <- cmd.Wait() }()
	select {
	case err := <-done:
		if err != nil {
			return []int64{CRASH}
		}
	case <-time.After(40 * time.Second):
		cmd.Process.Kill()
		<-done
		return []int64{HANG}
	}
	var out []int64
	for _, f := range strings.Fields(stdout.String()) {
		v, err := strconv.ParseInt(f, 10, 64)
		if err != nil {
			return []int64{CRASH}
		}
		out = append(out, v)
	}
	return out
}

func childMain(p *Prop) {
	lim := syscall.Rlimit{Cur: 6 << 30, Max: 6 << 30}
	syscall.Setrlimit(syscall.RLIMIT_AS, &lim)
	raw, _ := io.ReadAll(os.Stdin)
	var in []int64
	for _, f := range strings.Fields(string(raw)) {
		v, _ := strconv.ParseInt(f, 10, 64)
		in = append(in, v)
	}
	out := SafeImpl(p, in)
	var sb strings.Builder
	for _, v := range out {
		fmt.Fprintf(&sb, "%d ", v)
	}
	os.Stdout.WriteString(sb.String())
	os.Exit(0)
}

// ---------------------------------------------------------------- context
type Failure struct {
	Class     string  `json:"class"` // "viol" (spec fails on the implementation's output) | "diff" (model != implementation, spec holds)
	Family    string  `json:"family"`
	In        []int64 `json:"in"`
	Impl      []int64 `json:"impl"`
	Model     []int64 `json:"model"`
	Spec      []int64 `json:"spec"`
	Known     string  `json:"known,omitempty"`
	Desc      string  `json:"desc,omitempty"`
	ShrunkFrm int     `json:"shrunk_from_len,omitempty"`
}

type Ctx struct {
	P       *Prop
	Tier    string
	Seed    int64
	Driver  string
	Workers int

	mu         sync.Mutex
	conc       [][2][]int64 // concurrent phase: a sample of (case, implementation output)
	concSeen   int
	evals      int
	distinct   map[[20]byte]bool
	nontrivial int
	hist       map[string]map[string]int
	failures   []Failure
	nfail      int
	nviolKept  int
	samples    []map[string]interface{}
	kernel     [][2][]int64
	notes      []string
	exhaustive bool
	models     chan *Model
	shard      int
	nshards    int
}

type T struct {
	C *Ctx
	M *Model
	R *rand.Rand
	// oracle properties: the sub-0 arguments including the completed oracle table of the last evaluation
	last0 []int64
	// concurrent phase: judge this output (obtained while other calls were running) instead of running the case again
	force []int64
}

func (c *Ctx) Quick() bool { return c.Tier != "thorough" }
func (c *Ctx) N(quick, thorough int) int {
	if c.Quick() {
		return quick
	}
	return thorough
}
func instrNotes() []string {
	var out []string
	for _, w := range InstrLostList() {
		out = append(out, "instrumentation lost on this tree (observations dropped): "+w)
	}
	return out
}

// numOf: the dispatch number the model is asked under for this case
func (p *Prop) numOf(in []int64) int {
	if p.NumOf != nil {
		return p.NumOf(in)
	}
	return p.Num
}

func (c *Ctx) Note(s string)  { c.mu.Lock(); c.notes = append(c.notes, s); c.mu.Unlock() }
func (c *Ctx) SetExhaustive() { c.exhaustive = true }
func (c *Ctx) Count(h, k string) {
	c.mu.Lock()
	if c.hist[h] == nil {
		c.hist[h] = map[string]int{}
	}
	c.hist[h][k]++
	c.mu.Unlock()
}

// Each runs f(i) for i in [0,n) on the worker pool; every index gets its own PRNG derived from the seed.
func (c *Ctx) Each(n int, f func(i int, t *T)) {
	var wg sync.WaitGroup
	idx := make(chan int, 256)
	for w := 0; w < c.Workers; w++ {
		wg.Add(1)
		go func() {
			defer wg.Done()
			m := <-c.models
			defer func() { c.models <- m }()
			for i := range idx {
				t := &T{C: c, M: m, R: rand.New(rand.NewSource(c.Seed*1000003 + int64(i)*7919 + 17))}
				f(i, t)
			}
		}()
	}
	for i := 0; i < n; i++ {
		if c.nshards > 1 && i%c.nshards != c.shard {
			continue
		}
		idx <- i
	}
	close(idx)
	wg.Wait()
}

// evaluate one case; returns nil when everything agrees
func (t *T) eval(in []int64) *Failure {
	f, _ := t.eval2(in)
	return f
}

func (t *T) eval2(in []int64) (*Failure, []int64) {
	p := t.C.P
	var impl, model, spec []int64
	if t.force != nil {
		impl = t.force
	} else if p.ImplM == nil {
		impl = SafeImpl(p, in)
	}
	if p.Oracle != nil {
		model = t.M.CallOracle(p, 0, in)
		t.last0 = t.M.lastFull
	} else {
		model = t.M.Call(p.numOf(in), 0, in)
	}
	if p.ImplM != nil && t.force == nil {
		q := *p
		q.Impl = func(x []int64) []int64 { return p.ImplM(x, model) }
		impl = SafeImpl(&q, in)
	}
	specOK := true
	mode := p.SpecMode
	if p.SpecSkip != nil && p.SpecSkip(in) {
		mode = "none"
	}
	switch mode {
	case "equal":
		if p.Oracle != nil {
			spec = t.M.CallOracle(p, 1, in)
		} else {
			spec = t.M.Call(p.numOf(in), 1, in)
		}
		specOK = matchSpec(spec, impl)
	case "rel":
		if p.JudgeLimit > 0 && len(in) > p.JudgeLimit {
			ximpl := impl
			if p.XProj != nil {
				ximpl = p.XProj(in, impl)
			}
			if eqTok(model, ximpl) {
				return nil, impl
			}
			return &Failure{In: in, Impl: clip(impl, 4000), Model: clip(model, 4000), Spec: []int64{-1000042}, Class: "diff"}, impl
		}
		arg := append(PutList(in), PutList(impl)...)
		if p.Oracle != nil {
			spec = t.M.CallOracle(p, 2, arg)
		} else {
			spec = t.M.Call(p.numOf(in), 2, arg)
		}
		specOK = len(spec) == 1 && spec[0] == 1
	}
	ximpl := impl
	if p.XProj != nil {
		ximpl = p.XProj(in, impl)
	}
	if specOK && eqTok(model, ximpl) {
		return nil, impl
	}
	f := &Failure{In: in, Impl: impl, Model: model, Spec: spec}
	if !specOK {
		f.Class = "viol"
	} else {
		f.Class = "diff"
	}
	return f, impl
}

// Try evaluates a case and records coverage.
func (t *T) Try(family string, in []int64, nontrivial bool) bool {
	c := t.C
	f, implOut := t.eval2(in)
	h := sha1.Sum([]byte(fmt.Sprint(in)))
	c.mu.Lock()
	c.evals++
	if !c.distinct[h] {
		if len(c.distinct) < 4000000 {
			c.distinct[h] = true
		}
		if nontrivial {
			c.nontrivial++
		}
	}
	if c.hist["family"] == nil {
		c.hist["family"] = map[string]int{}
	}
	c.hist["family"][family]++
	if len(c.samples) < 6 && (nontrivial || len(c.samples) < 2) && f == nil {
		// keep a sample with the model's answer
		c.samples = append(c.samples, map[string]interface{}{"family": family, "in": clip(in, 120), "impl_out": clip(implOut, 60)})
	}
	if len(c.kernel) < 150 && f == nil && len(in) < 400 && c.P.Oracle == nil && c.P.numOf(in) == c.P.Num {
		c.kernel = append(c.kernel, [2][]int64{in, nil})
	}
	if len(c.kernel) < 150 && f == nil && c.P.Oracle != nil && t.last0 != nil && len(t.last0) < 2500 && c.evals%97 == 0 && c.P.numOf(in) == c.P.Num {
		// oracle property: the case together with its completed table is a closed term the kernel can evaluate
		c.kernel = append(c.kernel, [2][]int64{append([]int64{}, t.last0...), nil})
	}
	if f == nil && c.P.Pure && t.force == nil && len(in) < 3000 && len(implOut) < 20000 && (c.P.Isolate == nil || !c.P.Isolate(in)) {
		c.concSeen++
		if len(c.conc) < 600 {
			c.conc = append(c.conc, [2][]int64{in, implOut})
		} else if k := int(sha1.Sum([]byte(fmt.Sprint(c.concSeen)))[0])<<8 | int(h[0]); c.concSeen%7 == 0 {
			c.conc[k%600] = [2][]int64{in, implOut}
		}
	}
	if f != nil {
		c.nfail++
		f.Family = family
		if f.Class == "viol" && c.nviolKept < 20 {
			c.nviolKept++
			c.failures = append([]Failure{*f}, c.failures...) // concrete violations first
		} else if len(c.failures) < 40 {
			c.failures = append(c.failures, *f)
		}
	}
	c.mu.Unlock()
	return f == nil
}

func clip(l []int64, n int) []int64 {
	if len(l) > n {
		return l[:n]
	}
	return l
}

// shrink a failing input greedily with the property's candidate function (or generic deletions)
func (c *Ctx) shrink(t *T, f Failure) Failure {
	p := c.P
	cands := p.Shrink
	if cands == nil || len(f.In) > 3000 { // very large cases: one evaluation of the judge can take minutes; reported as found
		return f
	}
	orig := len(f.In)
	cur := f
	deadline := time.Now().Add(30 * time.Second)
	for changed := true; changed && time.Now().Before(deadline); {
		changed = false
		for _, cand := range cands(cur.In) {
			if len(cand) >= len(cur.In) && fmt.Sprint(cand) >= fmt.Sprint(cur.In) {
				continue
			}
			g := t.eval(cand)
			if g != nil && g.Class == cur.Class && (p.Known == nil || p.Known(g.In, g.Impl) == cur.Known) {
				g.Family = cur.Family
				g.Known = cur.Known
				cur = *g
				changed = true
				break
			}
		}
	}
	cur.ShrunkFrm = orig
	return cur
}

// ShrinkTriples is a ready-made candidate function for inputs of the form  header ++ fixed-width ops.
func ShrinkOps(header, width int) func(in []int64) [][]int64 {
	return func(in []int64) [][]int64 {
		var out [][]int64
		if len(in) < header {
			return nil
		}
		n := (len(in) - header) / width
		// drop halves, then single ops
		for chunk := n / 2; chunk >= 1; chunk /= 2 {
			for s := 0; s+chunk <= n; s += chunk {
				c := append([]int64{}, in[:header+s*width]...)
				c = append(c, in[header+(s+chunk)*width:]...)
				out = append(out, c)
			}
			if chunk == 1 {
				break
			}
		}
		// reduce numeric arguments
		for i := header; i < len(in); i++ {
			if in[i] > 0 {
				c := append([]int64{}, in...)
				c[i] = in[i] / 2
				out = append(out, c)
				c2 := append([]int64{}, in...)
				c2[i] = in[i] - 1
				out = append(out, c2)
			}
		}
		return out
	}
}

// ---------------------------------------------------------------- concurrent phase (Prop.Pure)
// A sample of the cases of this run (with the outputs the implementation gave) is run again from many goroutines at the
// same time.  Every case builds its own objects, so the result must be the one recorded; a different result means state
// shared between calls (a package-level scratch buffer, a sync.Pool entry handed back too early, a cached header).
// A differing output is judged like any other output: model, specification, VIOLATION line with the case.  The replay of
// such a case runs it alone and passes; the family name says so.
func (c *Ctx) concurrentPhase() {
	p := c.P
	sample := c.conc
	if len(sample) < 2 {
		return
	}
	G := 16
	dur := time.Duration(c.N(4, 40)) * time.Second
	deadline := time.Now().Add(dur)
	var mu sync.Mutex
	var bad [][2][]int64
	calls := 0
	var wg sync.WaitGroup
	for g := 0; g < G; g++ {
		wg.Add(1)
		go func(g int) {
			defer wg.Done()
			r := rand.New(rand.NewSource(c.Seed*31 + int64(g)))
			n := 0
			for time.Now().Before(deadline) {
				k := sample[r.Intn(len(sample))]
				out := func() (o []int64) {
					defer func() {
						if recover() != nil {
							o = []int64{PANIC}
						}
					}()
					return p.Impl(k[0])
				}()
				n++
				if !eqTok(out, k[1]) {
					mu.Lock()
					if len(bad) < 6 {
						bad = append(bad, [2][]int64{k[0], out})
					}
					nb := len(bad)
					mu.Unlock()
					if nb >= 6 {
						break
					}
				}
			}
			mu.Lock()
			calls += n
			mu.Unlock()
		}(g)
	}
	wg.Wait()
	m := <-c.models
	for _, b := range bad {
		t := &T{C: c, M: m, R: rand.New(rand.NewSource(c.Seed)), force: b[1]}
		t.Try("concurrent-calls (another result than when the case runs alone; a replay runs it alone)", b[0], true)
	}
	c.models <- m
	c.Note(fmt.Sprintf("concurrent phase: %d calls from %d goroutines over a sample of %d cases of this run, %d gave another result than alone", calls, G, len(sample), len(bad)))
}

// ---------------------------------------------------------------- main
func main() {
	var tier, out, driver, replay, kernelOut string
	var seed int64
	var workers int
	flag.StringVar(&tier, "tier", "quick", "quick|thorough")
	flag.StringVar(&out, "out", "", "result JSON path")
	flag.StringVar(&driver, "driver", "", "path of the OCaml model driver")
	flag.StringVar(&replay, "replay", "", "replay file")
	flag.StringVar(&kernelOut, "kernel", "", "write a Coq file re-evaluating a sample of cases inside the kernel")
	flag.Int64Var(&seed, "seed", 1, "seed")
	flag.IntVar(&workers, "workers", runtime.NumCPU(), "parallel workers")
	var shard, nshards int
	flag.IntVar(&shard, "shard", 0, "this process handles the indices i with i mod nshards = shard")
	flag.IntVar(&nshards, "nshards", 1, "number of shard processes")
	flag.Parse()
	if flag.NArg() < 1 {
		fmt.Fprintln(os.Stderr, "usage: harness [flags] Cnn")
		os.Exit(2)
	}
	p := props[flag.Arg(0)]
	if p == nil {
		fmt.Fprintln(os.Stderr, "unknown property", flag.Arg(0))
		os.Exit(2)
	}
	if os.Getenv("VERIF_CHILDIMPL") != "" {
		childMain(p)
	}
	if workers < 1 {
		workers = 1
	}
	c := &Ctx{P: p, Tier: tier, Seed: seed, Driver: driver, Workers: workers,
		distinct: map[[20]byte]bool{}, hist: map[string]map[string]int{}, models: make(chan *Model, workers), shard: shard, nshards: nshards}
	for i := 0; i < workers; i++ {
		c.models <- StartModel(driver)
	}
	start := time.Now()
	if replay != "" {
		raw, err := os.ReadFile(replay)
		if err != nil {
			fmt.Fprintln(os.Stderr, err)
			os.Exit(2)
		}
		var r struct {
			In []int64 `json:"in"`
		}
		json.Unmarshal(raw, &r)
		c.Each(1, func(i int, t *T) { t.Try("replay", r.In, true) })
	} else {
		p.Gen(c)
		if p.Pure {
			c.concurrentPhase()
		}
	}
	// classify, shrink
	m := <-c.models
	t := &T{C: c, M: m, R: rand.New(rand.NewSource(seed))}
	var fails []Failure
	seenKnown := map[string]bool{}
	shrunk := 0
	for _, f := range c.failures {
		if p.Known != nil {
			f.Known = p.Known(f.In, f.Impl)
		}
		if f.Known != "" && seenKnown[f.Known] {
			continue
		}
		if f.Known != "" {
			seenKnown[f.Known] = true
		}
		if f.Known == "" && shrunk >= 3 {
			continue
		}
		f = c.shrink(t, f)
		shrunk++
		if p.Describe != nil {
			f.Desc = p.Describe(f.In)
		}
		fails = append(fails, f)
	}
	// kernel sample: expected = the extracted model's answers
	if kernelOut != "" && len(c.kernel) > 0 {
		var sb strings.Builder
		fmt.Fprintf(&sb, "(* GENERATED: a sample of this run's cases re-evaluated by the Coq kernel (vm_compute);\n   expected values are what the extracted OCaml model answered. *)\n")
		fmt.Fprintf(&sb, "From Coq Require Import List ZArith.\nFrom V Require Import Lib.Enc Run.%s.\nImport ListNotations.\nLocal Open Scope Z_scope.\n", p.ID)
		fmt.Fprintf(&sb, "Definition cases : list (list Z * list Z) := [\n")
		for i, k := range c.kernel {
			exp := m.Call(p.Num, 0, k[0])
			if i > 0 {
				sb.WriteString(";\n")
			}
			fmt.Fprintf(&sb, " (%s, %s)", coqList(k[0]), coqList(exp))
		}
		fmt.Fprintf(&sb, "].\nDefinition bad := filter (fun c => negb (list_eqb (entry 0 (fst c)) (snd c))) cases.\n")
		fmt.Fprintf(&sb, "Definition verdict := Eval vm_compute in (length cases, length bad).\nPrint verdict.\n")
		os.WriteFile(kernelOut, []byte(sb.String()), 0644)
	}
	c.models <- m
	for i := 0; i < workers; i++ {
		(<-c.models).Close()
	}
	res := map[string]interface{}{
		"property": p.ID, "tier": tier, "seed": seed,
		"evaluations": c.evals, "distinct": len(c.distinct), "distinct_nontrivial": c.nontrivial,
		"rule": p.Rule, "histogram": c.hist, "samples": c.samples, "failures": fails, "nfail": c.nfail,
		"notes": append(c.notes, instrNotes()...), "exhaustive": c.exhaustive, "kernel_cases": len(c.kernel),
		"wall_s": time.Since(start).Seconds(),
	}
	js, _ := json.MarshalIndent(res, "", " ")
	if out != "" {
		os.WriteFile(out, js, 0644)
	} else {
		os.Stdout.Write(js)
	}
	_ = io.EOF
	_ = sort.Ints
	if len(fails) > 0 {
		os.Exit(1)
	}
}

func coqList(l []int64) string {
	var sb strings.Builder
	sb.WriteByte('[')
	for i, x := range l {
		if i > 0 {
			sb.WriteString("; ")
		}
		if x < 0 {
			fmt.Fprintf(&sb, "(%d)", x)
		} else {
			fmt.Fprintf(&sb, "%d", x)
		}
	}
	sb.WriteByte(']')
	return sb.String()
}
