package main

import (
	"fmt"
	"math/rand"
	"reflect"
	"sync"
	"unsafe"

	"github.com/welllog/golib/setz"
)

// C03: setz.RoaringBitmap as a set of uint32 with complete ascending enumeration.
// case = ops, op = [code a b c d e]
//
//	0 Add a | 1 Remove a | 2 Contains a | 3 Len | 4 Iter | 5 Range (callback false at its a-th call; 0 = never) | 6 All (same)
//	7 AddRun | 8 RemoveRun | 9 ContainsRun: a = high key, b = first low, c = count, d = step, e = modulus;
//	  i-th value = uint32(a<<16 + (b+i*d) mod e); one result per value
//	10 Buckets: number of containers in the map (the unexported listz.SkipList length, read through reflect)
const c03W = 6

func c03u32(z int64) uint32 { return uint32(((z % (1 << 32)) + (1 << 32)) % (1 << 32)) }

func c03Vals(a, b, n, d, e int64) []uint32 {
	if e <= 0 {
		e = 1
	}
	var out []uint32
	cur := b
	for i := int64(0); i < n; i++ {
		m := cur % e
		if m < 0 {
			m += e
		}
		out = append(out, c03u32(a*65536+m))
		cur += d
	}
	return out
}

// number of buckets: the field of RoaringBitmap that is the container map (found by type: the struct field whose pointer
// has a Len method), asked through that method; -7 when there is no such field (the model never answers -7: the generator
// then leaves the Buckets observation out, see c03BucketsOK)
func c03Buckets(r *setz.RoaringBitmap) (n int64) {
	defer func() {
		if recover() != nil {
			n = -7
		}
	}()
	v := reflect.ValueOf(r).Elem()
	f, ok := PickField(v.Type(), []string{"containers", "buckets", "chunks"}, func(g reflect.StructField) bool {
		if g.Type.Kind() != reflect.Struct && g.Type.Kind() != reflect.Ptr {
			return false
		}
		pt := g.Type
		if pt.Kind() == reflect.Struct {
			pt = reflect.PtrTo(pt)
		}
		m, has := pt.MethodByName("Len")
		return has && m.Type.NumIn() == 1 && m.Type.NumOut() == 1 && m.Type.Out(0).Kind() == reflect.Int
	})
	if !ok {
		return -7
	}
	fv := v.FieldByIndex(f.Index)
	var recv reflect.Value
	if f.Type.Kind() == reflect.Struct {
		recv = reflect.NewAt(f.Type, unsafe.Pointer(fv.UnsafeAddr()))
	} else {
		recv = reflect.NewAt(f.Type, unsafe.Pointer(fv.UnsafeAddr())).Elem()
	}
	return recv.MethodByName("Len").Call(nil)[0].Int()
}

var c03BOnce sync.Once
var c03BOK bool

func c03BucketsOK() bool {
	c03BOnce.Do(func() {
		var r setz.RoaringBitmap
		r.Add(1)
		r.Add(70000)
		c03BOK = c03Buckets(&r) == 2
		if !c03BOK {
			InstrLost("setz.RoaringBitmap container map (the number of buckets is not observed)")
		}
	})
	return c03BOK
}

// The bucket map is a skip list with a private random source.  In cases with an odd number of operations the source is
// replaced (after the first Add has initialised it) by one that makes every new tower as tall as the list allows: 17
// buckets then drive the list through all its levels, which 65536 buckets under the real source do once in a while.
// Found by type: the struct field of RoaringBitmap that has a *rand.Rand field.  Where it cannot be found nothing is replaced.
func c03TallTowers(r *setz.RoaringBitmap) {
	defer func() { recover() }()
	v := reflect.ValueOf(r).Elem()
	for i := 0; i < v.NumField(); i++ {
		f := v.Field(i)
		if f.Kind() != reflect.Struct {
			continue
		}
		for j := 0; j < f.NumField(); j++ {
			g := f.Field(j)
			if g.Type() == reflect.TypeOf((*rand.Rand)(nil)) && !g.IsNil() {
				ones := make([]uint64, 4096)
				for k := range ones {
					ones[k] = 1
				}
				reflect.NewAt(g.Type(), unsafe.Pointer(g.UnsafeAddr())).Elem().Set(reflect.ValueOf(rand.New(&c02Script{ws: ones})))
				return
			}
		}
	}
}

func c03Impl(in []int64) []int64 {
	var r setz.RoaringBitmap // the zero value must be usable
	held := r.All()          // taken from the zero value
	var out []int64
	tall := (len(in)/c03W)%2 == 1
	for i := 0; i+c03W-1 < len(in); i += c03W {
		c, a, b, n, d, e := in[i], in[i+1], in[i+2], in[i+3], in[i+4], in[i+5]
		switch c {
		case 0:
			out = append(out, B(r.Add(c03u32(a))))
			if tall {
				tall = false
				c03TallTowers(&r)
			}
		case 1:
			out = append(out, B(r.Remove(c03u32(a))))
		case 2:
			out = append(out, B(r.Contains(c03u32(a))))
		case 3:
			out = append(out, int64(r.Len()))
		case 4:
			// two iterators of the same bitmap advanced in lockstep, and a third one drained completely while they are
			// parked (a nested walk): every live iterator enumerates the members on its own
			var l, l2 []int64
			it, it2 := r.Iter(), r.Iter()
			for k := 0; k < 1<<23; k++ {
				n1 := it.Next()
				if n1 {
					l = append(l, int64(it.Value()))
				}
				if k == 1 || k == 4097 {
					it3 := r.Iter()
					for j := 0; it3.Next() && j < 1<<23; j++ {
					}
				}
				n2 := it2.Next()
				if n2 {
					l2 = append(l2, int64(it2.Value()))
				}
				if !n1 && !n2 {
					break
				}
			}
			if (i/c03W)%2 == 1 {
				l = l2
			}
			out = append(out, PutList(l)...)
		case 5:
			var l []int64
			r.Range(func(v uint32) bool { l = append(l, int64(v)); return !(a > 0 && int64(len(l)) >= a) })
			out = append(out, PutList(l)...)
		case 6:
			var l []int64
			seq := r.All()
			if held != nil && (i/c03W)%2 == 0 {
				seq = held // obtained at an EARLIER point of the case: a view of the set when walked, not when made
			}
			for v := range seq {
				l = append(l, int64(v))
				if a > 0 && int64(len(l)) >= a {
					break
				}
			}
			held = r.All()
			out = append(out, PutList(l)...)
		case 7:
			for _, v := range c03Vals(a, b, n, d, e) {
				out = append(out, B(r.Add(v)))
			}
		case 8:
			for _, v := range c03Vals(a, b, n, d, e) {
				out = append(out, B(r.Remove(v)))
			}
		case 9:
			for _, v := range c03Vals(a, b, n, d, e) {
				out = append(out, B(r.Contains(v)))
			}
		case 10:
			out = append(out, c03Buckets(&r))
		default:
			return []int64{BADCASE}
		}
	}
	return out
}

var c03Names = []string{"Add", "Remove", "Contains", "Len", "Iter", "Range", "All", "AddRun", "RemoveRun", "ContainsRun", "Buckets"}

func c03gcd(a, b int64) int64 {
	for b != 0 {
		a, b = b, a%b
	}
	return a
}

func c03Op(c int64, args ...int64) []int64 {
	o := make([]int64, c03W)
	if c == 10 && !c03BucketsOK() {
		c = 3 // the container map is not reachable on this tree: observe Len instead
	}
	o[0] = c
	copy(o[1:], args)
	return o
}

type c03run struct{ b, n, d, e int64 }

// c03Pad appends cheap observations (Len, Buckets) until the case is 400 integers long: the framework re-evaluates only
// shorter cases inside the Coq kernel, and the kernel sample should consist of the light single-operation cases.
func c03Pad(in []int64) []int64 {
	for k := 0; len(in) < 400; k++ {
		if k%2 == 0 {
			in = append(in, c03Op(3)...)
		} else {
			in = append(in, c03Op(10)...)
		}
	}
	return in
}

func c03Gen(c *Ctx) {
	lowsB := []int64{0, 1, 2, 62, 63, 64, 65, 127, 128, 4095, 4096, 4097, 32767, 32768, 65534, 65535}
	keys := []int64{0, 1, 2, 7, 65535}
	// ---------- family 1: short sequences of single operations over a few buckets (these also feed the in-kernel sample)
	c.Each(c.N(4000, 60000), func(i int, t *T) {
		r := t.R
		nk := 1 + r.Intn(3)
		ks := make([]int64, nk)
		for j := range ks {
			ks[j] = keys[r.Intn(len(keys))]
		}
		small := int64(8 + r.Intn(200))
		val := func() int64 {
			k := ks[r.Intn(nk)]
			if r.Intn(3) == 0 {
				return k<<16 | lowsB[r.Intn(len(lowsB))]
			}
			return k<<16 | r.Int63n(small)
		}
		var in []int64
		nops := 3 + r.Intn(38)
		kinds := map[int64]bool{}
		for j := 0; j < nops; j++ {
			x := r.Intn(100)
			var op []int64
			switch {
			case x < 38:
				op = c03Op(0, val())
			case x < 58:
				op = c03Op(1, val())
			case x < 68:
				op = c03Op(2, val())
			case x < 72:
				op = c03Op(3)
			case x < 79:
				op = c03Op(4)
			case x < 84:
				op = c03Op(5, int64(r.Intn(6)))
			case x < 89:
				op = c03Op(6, int64(r.Intn(6)))
			case x < 93:
				op = c03Op(10)
			case x < 97:
				op = c03Op(7, ks[r.Intn(nk)], r.Int63n(small), int64(r.Intn(25)), int64(1+r.Intn(7)), small)
			default:
				op = c03Op(8, ks[r.Intn(nk)], r.Int63n(small), int64(r.Intn(25)), int64(1+r.Intn(7)), small)
			}
			kinds[op[0]] = true
			t.C.Count("op", c03Names[op[0]])
			in = append(in, op...)
		}
		in = append(in, c03Op(3)...)
		in = append(in, c03Op(10)...)
		in = append(in, c03Op(4)...)
		in = append(in, c03Op(5)...)
		t.Try("single-ops", in, nops >= 3 && len(kinds) >= 2)
	})
	// ---------- family 2: exact fill levels around the conversion threshold, in ascending / descending / permuted order
	type ex struct{ n, d, e int64 }
	var exact []ex
	for _, n := range []int64{4095, 4096, 4097, 4098} {
		exact = append(exact, ex{n, 1, 65536}, ex{n, 65535, 65536}, ex{n, 2731, 4099}, ex{n, 7, 65536})
	}
	c.Each(len(exact), func(i int, t *T) {
		x := exact[i]
		h := keys[i%len(keys)]
		b := int64(100)
		var in []int64
		in = append(in, c03Op(0, (h+1)<<16|5)...) // a neighbour bucket that stays sparse
		in = append(in, c03Op(7, h, b, x.n, x.d, x.e)...)
		in = append(in, c03Op(3)...)
		in = append(in, c03Op(10)...)
		in = append(in, c03Op(9, h, b, x.n+2, x.d, x.e)...)
		in = append(in, c03Op(4)...)
		in = append(in, c03Op(5)...)
		in = append(in, c03Op(6, x.n)...)
		in = append(in, c03Op(8, h, b+x.d, x.n-1, x.d, x.e)...) // all but the first value
		in = append(in, c03Op(3)...)
		in = append(in, c03Op(10)...)
		in = append(in, c03Op(4)...)
		in = append(in, c03Op(6)...)
		in = append(in, c03Op(8, h, b, 1, x.d, x.e)...) // the bucket becomes empty
		in = append(in, c03Op(3)...)
		in = append(in, c03Op(10)...)
		in = append(in, c03Op(4)...)
		in = append(in, c03Op(7, h, b, 3, x.d, x.e)...) // re-created
		in = append(in, c03Op(10)...)
		in = append(in, c03Op(4)...)
		in = append(in, c03Op(5)...)
		in = c03Pad(in)
		t.C.Count("fill", fmt.Sprint(x.n))
		t.Try("exact-threshold", in, true)
	})
	// ---------- family 3: random scripts of runs over 1-3 buckets: fill past the threshold, drain below it, empty, re-create
	c.Each(c.N(24, 400), func(i int, t *T) {
		r := t.R
		nk := 1 + r.Intn(3)
		ks := make([]int64, nk)
		for j := range ks {
			ks[j] = int64(r.Intn(4))
			if r.Intn(6) == 0 {
				ks[j] = 65535
			}
		}
		last := map[int64]*c03run{}
		var in []int64
		crossed := false
		budget := int64(t.C.N(13000, 30000)) // single Add/Remove/Contains operations a script may expand to
		big := map[int64]bool{}              // at most two buckets receive large fills (bounds the specification's list)
		phases := 3 + r.Intn(t.C.N(4, 7))
		for p := 0; p < phases; p++ {
			h := ks[r.Intn(nk)]
			lr := last[h]
			x := r.Intn(100)
			if budget < 40 && x < 65 {
				x = 80 + r.Intn(20)
			}
			switch {
			case x < 40 || lr == nil: // fill
				mods := []int64{4096, 4097, 4100, 4500, 6000, 65536}
				e := mods[r.Intn(len(mods))]
				d := int64(1)
				switch r.Intn(4) {
				case 0:
					d = 1
				case 1:
					d = e - 1
				default:
					for d = 1 + r.Int63n(e-1); c03gcd(d, e) != 1; d = 1 + r.Int63n(e-1) {
					}
				}
				var n int64
				sel := r.Intn(4)
				if p == 0 {
					sel = r.Intn(3) // the first phase always goes to (or just below) the threshold
				}
				switch sel {
				case 0:
					n = 4090 + int64(r.Intn(12))
				case 1:
					n = e
					if n > 6000 {
						n = 4097 + int64(r.Intn(900))
					}
				case 2:
					n = 4096 + int64(r.Intn(3))
				default:
					n = 1 + r.Int63n(4400)
				}
				if !big[h] && len(big) >= 2 && n > 300 {
					n = 1 + r.Int63n(300)
				}
				if n > e {
					n = e
				}
				if n > budget {
					n = budget
				}
				if n > 300 {
					big[h] = true
				}
				budget -= n
				b := r.Int63n(e)
				if r.Intn(3) == 0 && lr != nil { // overlap the previous run of this bucket
					b, d, e = lr.b, lr.d, lr.e
				}
				in = append(in, c03Op(7, h, b, n, d, e)...)
				last[h] = &c03run{b, n, d, e}
				if n >= 4097 {
					crossed = true
				}
				t.C.Count("phase", "fill")
			case x < 65: // drain the last run of this bucket, leaving k values
				k := int64(r.Intn(4))
				if r.Intn(3) == 0 {
					k = r.Int63n(lr.n + 1)
				}
				if k > lr.n {
					k = lr.n
				}
				if lr.n-k > budget {
					k = lr.n - budget
				}
				budget -= lr.n - k
				if r.Intn(2) == 0 { // keep the first k
					in = append(in, c03Op(8, h, lr.b+k*lr.d, lr.n-k, lr.d, lr.e)...)
				} else { // keep the last k
					in = append(in, c03Op(8, h, lr.b, lr.n-k, lr.d, lr.e)...)
				}
				t.C.Count("phase", "drain")
			case x < 80: // single operations around the ends of the last run
				for q := 0; q < 3+r.Intn(8); q++ {
					idx := lr.n + int64(r.Intn(7)) - 3
					if r.Intn(3) == 0 {
						idx = int64(r.Intn(4))
					}
					if idx < 0 {
						idx = 0
					}
					v := h<<16 | ((lr.b + idx*lr.d) % lr.e)
					in = append(in, c03Op(int64(r.Intn(3)), v)...)
					if r.Intn(3) == 0 {
						in = append(in, c03Op(3)...)
					}
				}
				t.C.Count("phase", "poke")
			default: // observe
				in = append(in, c03Op(3)...)
				in = append(in, c03Op(10)...)
				stops := []int64{0, 0, 1, 4096, 4097, int64(r.Intn(9000))}
				switch r.Intn(3) {
				case 0:
					in = append(in, c03Op(4)...)
				case 1:
					in = append(in, c03Op(5, stops[r.Intn(len(stops))])...)
				default:
					in = append(in, c03Op(6, stops[r.Intn(len(stops))])...)
				}
				if lr != nil {
					in = append(in, c03Op(9, h, lr.b, 12, lr.d, lr.e)...)
				}
				t.C.Count("phase", "observe")
			}
		}
		in = append(in, c03Op(3)...)
		in = append(in, c03Op(10)...)
		in = append(in, c03Op(4)...)
		in = append(in, c03Op(5)...)
		in = append(in, c03Op(6)...)
		in = c03Pad(in)
		t.Try("run-scripts", in, crossed)
	})
	// ---------- family 4: many buckets (the bucket map itself: a skip list growing and shrinking through its levels)
	c.Each(c.N(1200, 20000), func(i int, t *T) {
		r := t.R
		nb := 18 + r.Intn(50)
		hs := r.Perm(300)[:nb]
		var in []int64
		for _, h := range hs {
			in = append(in, c03Op(0, int64(h)<<16|int64(r.Intn(3)))...)
		}
		for j, m := 0, r.Intn(12); j < m; j++ { // empty some buckets, create others
			h := int64(hs[r.Intn(nb)])
			for low := int64(0); low < 3; low++ {
				in = append(in, c03Op(1, h<<16|low)...)
			}
			if r.Intn(2) == 0 {
				in = append(in, c03Op(0, int64(300+r.Intn(65000))<<16|int64(r.Intn(3)))...)
			}
		}
		in = append(in, c03Op(3)...)
		in = append(in, c03Op(10)...)
		in = append(in, c03Op(4)...)
		if (len(in)/c03W)%2 != i%4/2 { // half of the cases run with the tall-tower source (odd number of operations)
			in = append(in, c03Op(3)...)
		}
		t.Try("many-buckets", in, true)
	})
	c.Note("families: single-ops (short sequences, 1-3 buckets, boundary lows); exact-threshold (4095..4098 values in four orders, drained to one, emptied, re-created); run-scripts (random fill/drain/poke/observe phases over 1-3 buckets)")
}

func c03Describe(in []int64) string {
	s := "RoaringBitmap:"
	for i := 0; i+c03W-1 < len(in); i += c03W {
		c := in[i]
		if c < 0 || c >= int64(len(c03Names)) {
			s += fmt.Sprintf(" ?%d", c)
			continue
		}
		switch {
		case c <= 2:
			v := c03u32(in[i+1])
			s += fmt.Sprintf(" %s(%d=%d<<16|%d)", c03Names[c], v, v>>16, v&65535)
		case c == 5 || c == 6:
			s += fmt.Sprintf(" %s(stop@%d)", c03Names[c], in[i+1])
		case c >= 7 && c <= 9:
			s += fmt.Sprintf(" %s(key %d, low0 %d, count %d, step %d, mod %d)", c03Names[c], in[i+1], in[i+2], in[i+3], in[i+4], in[i+5])
		default:
			s += " " + c03Names[c]
		}
	}
	return s
}

func init() {
	Register(&Prop{ID: "C03", Pure: true, Num: 3, SpecMode: "equal", Gen: c03Gen, Impl: c03Impl,
		Shrink: ShrinkOps(0, c03W), Describe: c03Describe,
		Rule: "operation sequences on a zero-value RoaringBitmap: (1) short random sequences of Add/Remove/Contains/Len/Iter (always two iterators in lockstep plus a nested third one)/Range/All/Buckets over 1-3 buckets with boundary lows; (2) exact fills of 4095..4098 values in ascending, descending and permuted order, drained to one value, emptied, re-created; (3) random scripts of AddRun/RemoveRun/single ops/observations over 1-3 buckets so that buckets cross the 4096 threshold in both directions, become empty and are re-created. Every Add/Remove/Contains result, Len, the bucket count and the full Iter / Range / All sequences (with early stop) are compared with the model and with the set-of-N specification. distinct = distinct case; non-trivial = at least 3 operations of 2 kinds (1), always (2), some run of >= 4097 values into one bucket (3)"})
}
