(* Generic driver: one line in, one line out.
   in : "<prop> <sub> z1 z2 ... zn"     (decimal integers, |z| < 2^62)
   out: "z1 ... zm"                      (the list returned by Model.dispatch)
   The extracted code keeps Coq's inductive positive/Z; this file only converts numerals. *)
open Model

let rec pos_of_int (n : int) : positive =
  if n = 1 then XH
  else if n land 1 = 0 then XO (pos_of_int (n lsr 1))
  else XI (pos_of_int (n lsr 1))

let z_of_int (n : int) : z =
  if n = 0 then Z0 else if n > 0 then Zpos (pos_of_int n) else Zneg (pos_of_int (- n))

(* values above OCaml's int range are printed through a decimal string built by repeated halving *)
let rec pos_to_int_opt (p : positive) (depth : int) : int option =
  if depth > 61 then None else
  match p with
  | XH -> Some 1
  | XO q -> (match pos_to_int_opt q (depth + 1) with Some v -> Some (2 * v) | None -> None)
  | XI q -> (match pos_to_int_opt q (depth + 1) with Some v -> Some (2 * v + 1) | None -> None)

(* decimal string arithmetic for the rare big values *)
let dec_double_add (s : string) (carry0 : int) : string =
  let n = String.length s in
  let b = Bytes.make (n + 1) '0' in
  let carry = ref carry0 in
  for i = n - 1 downto 0 do
    let d = (Char.code s.[i] - 48) * 2 + !carry in
    Bytes.set b (i + 1) (Char.chr (48 + d mod 10)); carry := d / 10
  done;
  Bytes.set b 0 (Char.chr (48 + !carry));
  let r = Bytes.to_string b in
  if r.[0] = '0' && String.length r > 1 then String.sub r 1 n else r

let rec pos_to_dec (p : positive) : string =
  match p with
  | XH -> "1"
  | XO q -> dec_double_add (pos_to_dec q) 0
  | XI q -> dec_double_add (pos_to_dec q) 1

let pos_to_string p = match pos_to_int_opt p 0 with Some v -> string_of_int v | None -> pos_to_dec p
let z_to_string (x : z) : string =
  match x with Z0 -> "0" | Zpos p -> pos_to_string p | Zneg p -> "-" ^ pos_to_string p

let () =
  let buf = Buffer.create 65536 in
  try
    while true do
      let line = input_line stdin in
      let toks = List.filter (fun s -> s <> "") (String.split_on_char ' ' line) in
      (match toks with
       | p :: sub :: rest ->
           let args = List.map (fun s -> z_of_int (int_of_string s)) rest in
           let out = (try dispatch (z_of_int (int_of_string p)) (z_of_int (int_of_string sub)) args
                      with Stack_overflow -> [z_of_int (-1000005)]) in
           Buffer.clear buf;
           List.iteri (fun i x -> if i > 0 then Buffer.add_char buf ' '; Buffer.add_string buf (z_to_string x)) out;
           print_string (Buffer.contents buf); print_newline ()
       | _ -> print_string "-1000003"; print_newline ())
    done
  with End_of_file -> ()
