module mutgen

go 1.23
