// mutgen FILE OUTDIR: first-order syntactic mutants of one Go source file (used by bin/mutrun to screen the checks with
// changes that nobody hand-picked).  One mutant per mutation point: relational / arithmetic / logical operator replaced,
// integer literal +1 / -1, boolean literal flipped, if-condition negated, simple statement deleted, `break`<->`continue`.
// Output: OUTDIR/mNNNN.go (the whole file) and OUTDIR/mNNNN.txt (line and description).
package main

import (
	"fmt"
	"go/ast"
	"go/parser"
	"go/token"
	"os"
	"path/filepath"
	"strconv"
)

type edit struct {
	from, to int
	text     string
	desc     string
	line     int
}

func main() {
	if len(os.Args) < 3 {
		fmt.Fprintln(os.Stderr, "usage: mutgen FILE OUTDIR")
		os.Exit(2)
	}
	src, err := os.ReadFile(os.Args[1])
	if err != nil {
		panic(err)
	}
	fset := token.NewFileSet()
	f, err := parser.ParseFile(fset, os.Args[1], src, parser.ParseComments)
	if err != nil {
		panic(err)
	}
	off := func(p token.Pos) int { return fset.Position(p).Offset }
	line := func(p token.Pos) int { return fset.Position(p).Line }
	var edits []edit
	add := func(from, to token.Pos, text, desc string) {
		edits = append(edits, edit{off(from), off(to), text, desc, line(from)})
	}
	repl := map[token.Token][]token.Token{
		token.LSS: {token.LEQ, token.GEQ}, token.LEQ: {token.LSS, token.GTR}, token.GTR: {token.GEQ, token.LEQ}, token.GEQ: {token.GTR, token.LSS},
		token.EQL: {token.NEQ}, token.NEQ: {token.EQL},
		token.ADD: {token.SUB}, token.SUB: {token.ADD}, token.MUL: {token.QUO}, token.QUO: {token.MUL}, token.REM: {token.QUO},
		token.LAND: {token.LOR}, token.LOR: {token.LAND},
		token.AND: {token.OR}, token.OR: {token.AND}, token.SHL: {token.SHR}, token.SHR: {token.SHL}, token.AND_NOT: {token.AND}, token.XOR: {token.OR},
	}
	inFunc := 0
	var walk func(n ast.Node) bool
	walk = func(n ast.Node) bool {
		switch x := n.(type) {
		case *ast.FuncDecl:
			if x.Body == nil {
				return false
			}
			inFunc++
			ast.Inspect(x.Body, walk)
			inFunc--
			return false
		case *ast.BinaryExpr:
			if inFunc > 0 {
				for _, t := range repl[x.Op] {
					add(x.OpPos, x.OpPos+token.Pos(len(x.Op.String())), t.String(), fmt.Sprintf("%s -> %s", x.Op, t))
				}
			}
		case *ast.BasicLit:
			if inFunc > 0 && x.Kind == token.INT {
				if v, err := strconv.ParseInt(x.Value, 0, 64); err == nil {
					add(x.Pos(), x.End(), strconv.FormatInt(v+1, 10), fmt.Sprintf("literal %s -> %d", x.Value, v+1))
					if v > 0 {
						add(x.Pos(), x.End(), strconv.FormatInt(v-1, 10), fmt.Sprintf("literal %s -> %d", x.Value, v-1))
					}
				}
			}
		case *ast.Ident:
			if inFunc > 0 && (x.Name == "true" || x.Name == "false") && x.Obj == nil {
				o := "true"
				if x.Name == "true" {
					o = "false"
				}
				add(x.Pos(), x.End(), o, x.Name+" -> "+o)
			}
		case *ast.IfStmt:
			if inFunc > 0 {
				add(x.Cond.Pos(), x.Cond.End(), "!("+string(src[off(x.Cond.Pos()):off(x.Cond.End())])+")", "if condition negated")
			}
		case *ast.ForStmt:
			if inFunc > 0 && x.Cond != nil {
				// loop bound tweaks are covered by the operator / literal mutants
			}
		case *ast.BranchStmt:
			if inFunc > 0 && x.Label == nil {
				if x.Tok == token.BREAK {
					add(x.Pos(), x.End(), "continue", "break -> continue")
				} else if x.Tok == token.CONTINUE {
					add(x.Pos(), x.End(), "break", "continue -> break")
				}
			}
		case *ast.BlockStmt:
			if inFunc > 0 {
				for _, st := range x.List {
					switch s := st.(type) {
					case *ast.AssignStmt:
						if s.Tok != token.DEFINE {
							add(s.Pos(), s.End(), "", "statement deleted: "+string(src[off(s.Pos()):off(s.End())]))
						}
					case *ast.IncDecStmt, *ast.ExprStmt:
						add(s.Pos(), s.End(), "", "statement deleted: "+string(src[off(s.Pos()):off(s.End())]))
					}
				}
			}
		}
		return true
	}
	ast.Inspect(f, walk)
	os.MkdirAll(os.Args[2], 0755)
	for i, e := range edits {
		out := append(append(append([]byte{}, src[:e.from]...), e.text...), src[e.to:]...)
		base := filepath.Join(os.Args[2], fmt.Sprintf("m%04d", i))
		os.WriteFile(base+".go", out, 0644)
		d := e.desc
		if len(d) > 160 {
			d = d[:160]
		}
		os.WriteFile(base+".txt", []byte(fmt.Sprintf("line %d: %s\n", e.line, d)), 0644)
	}
	fmt.Println(len(edits))
}
