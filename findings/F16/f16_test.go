package f16demo

import (
	"testing"
	"time"

	"github.com/welllog/golib/goz"
)

// F16 (unchanged library): Wait(d) that times out leaves a goroutine inside sync.WaitGroup.Wait.  When the running
// functions finish and a new Go follows at once, WaitGroup panics "WaitGroup is reused before previous Wait has
// returned" in that library goroutine: nothing can recover it, the process dies.
func TestTimedWaitThenGo(t *testing.T) {
	for round := 0; round < 200000; round++ {
		l := goz.NewLimiter(2)
		rel := make(chan struct{})
		l.Go(func() { <-rel })
		l.Wait(50 * time.Microsecond) // expires
		close(rel)                    // the function finishes: the count drops to zero
		for i := 0; i < 3; i++ {
			l.Go(func() {})
		}
		l.Wait()
	}
}
