From Coq Require Import List Arith Lia Bool.
Import ListNotations.
Require Import Limiter_proto.

(* C19, the remaining clauses on the event model of Limiter_proto *)

Definition rank (t : tstate) : nat := match t with Pending => 0 | Running => 1 | Finished => 2 end.

Lemma step_tasks s e s' i : step s e = Some s' -> rank (tasks s i) <= rank (tasks s' i).
Proof.
  intros Hs. destruct e as [j|j|j v|j|]; cbn [step] in Hs;
    repeat match type of Hs with context [match ?x with _ => _ end] => destruct x eqn:?; try discriminate end;
    inversion Hs; subst; cbn [tasks]; auto; unfold set; destruct (Nat.eqb_spec i j); subst; auto;
    match goal with H : tasks s j = _ |- _ => rewrite H end; cbn; lia.
Qed.

(* a task is started at most once: Submit i is never accepted twice *)
Lemma no_resubmit i : forall tr s0 s, tasks s0 i <> Pending -> accepts s0 tr = Some s -> ~ In (Submit i) tr /\ tasks s i <> Pending.
Proof.
  induction tr as [|e t IH]; intros s0 s Hne Ha; cbn [accepts] in Ha.
  - inversion Ha; subst. auto.
  - destruct (step s0 e) as [s1|] eqn:E; [|discriminate].
    assert (Hne1 : tasks s1 i <> Pending).
    { pose proof (step_tasks s0 e s1 i E) as Hr. destruct (tasks s0 i), (tasks s1 i); cbn in Hr; try congruence; lia. }
    destruct (IH s1 s Hne1 Ha) as [H1 H2]. split; auto. intros [->|Hin]; auto.
    cbn [step] in E. destruct (tasks s0 i); try discriminate. congruence.
Qed.
Theorem each_started_once n tr1 i tr2 s : accepts (new_limiter n) (tr1 ++ Submit i :: tr2) = Some s -> ~ In (Submit i) tr2.
Proof.
  revert tr1. generalize (new_limiter n) as s0. intros s0 tr1. revert s0.
  induction tr1 as [|e t IH]; intros s0 Ha; cbn [app accepts] in Ha.
  - destruct (step s0 (Submit i)) as [s1|] eqn:E; [|discriminate].
    assert (tasks s1 i = Running).
    { cbn [step] in E. destruct (tasks s0 i); try discriminate. destruct (tokens s0 <? limit s0); [|discriminate].
      inversion E; subst. cbn [tasks]. unfold set. rewrite Nat.eqb_refl. reflexivity. }
    apply (no_resubmit i tr2 s1 s); auto. congruence.
  - destruct (step s0 e) as [s1|]; [|discriminate]. eapply IH; eauto.
Qed.

(* ... and its body ends at most once: after Return/Panic no second Return/Panic of the same task is accepted *)
Definition body_over (s : st) (i : nat) : Prop := (tasks s i = Running /\ in_cleanup s i = true) \/ tasks s i = Finished.
Lemma body_over_step s e s' i : body_over s i -> step s e = Some s' -> body_over s' i /\ e <> Return i /\ (forall v, e <> Panic i v).
Proof.
  intros Hb Hs. destruct e as [j|j|j v|j|]; cbn [step] in Hs;
    repeat match type of Hs with context [match ?x with _ => _ end] => destruct x eqn:?; try discriminate end;
    inversion Hs; subst; clear Hs; unfold body_over in *; cbn [tasks in_cleanup]; unfold set;
    (split; [|split; [try discriminate|try discriminate]]);
    try (destruct (Nat.eqb_spec i j); subst; intuition congruence);
    try (intros E; inversion E; subst; intuition congruence);
    try (intros v0 E; inversion E; subst; intuition congruence); auto.
Qed.
Theorem body_ends_once i : forall tr s0 s, body_over s0 i -> accepts s0 tr = Some s ->
  ~ In (Return i) tr /\ forall v, ~ In (Panic i v) tr.
Proof.
  induction tr as [|e t IH]; intros s0 s Hb Ha; cbn [accepts] in Ha; [split; [|intros v]; intros []|].
  destruct (step s0 e) as [s1|] eqn:E; [|discriminate].
  destruct (body_over_step s0 e s1 i Hb E) as (Hb1 & N1 & N2). destruct (IH s1 s Hb1 Ha) as [I1 I2].
  split; [intros [->|H]; auto; congruence|]. intros v [->|H]; [apply (N2 v); reflexivity|apply (I2 v); auto].
Qed.

(* Wait() returns only after every function submitted so far has finished (cleanup included) *)
Lemma submitted_not_pending i : forall tr s0 s, accepts s0 tr = Some s -> In (Submit i) tr -> tasks s i <> Pending.
Proof.
  induction tr as [|e t IH]; intros s0 s Ha Hin; [contradiction|]. cbn [accepts] in Ha.
  destruct (step s0 e) as [s1|] eqn:E; [|discriminate]. destruct Hin as [->|Hin]; [|eapply IH; eauto].
  assert (tasks s1 i <> Pending).
  { cbn [step] in E. destruct (tasks s0 i); try discriminate. destruct (tokens s0 <? limit s0); [|discriminate].
    inversion E; subst. cbn [tasks]. unfold set. rewrite Nat.eqb_refl. discriminate. }
  apply (no_resubmit i t s1 s); auto.
Qed.

Lemma running_zero s ids i : running s ids = 0 -> In i ids -> tasks s i <> Running.
Proof.
  unfold running. induction ids as [|a ids IH]; intros H0 Hin; [contradiction|]. cbn [filter] in H0. destruct Hin as [->|Hin].
  - destruct (tasks s i); try discriminate; cbn in H0; lia.
  - destruct (tasks s a); cbn [length] in H0; try lia; apply IH; auto.
Qed.

Theorem wait_after_all ids n tr s :
  NoDup ids -> (forall i, In (Submit i) tr -> In i ids) -> accepts (new_limiter n) (tr ++ [WaitReturn]) = Some s ->
  forall i, In (Submit i) tr -> tasks s i = Finished.
Proof.
  intros Hnd Hsub Ha i Hi.
  assert (Hsplit : exists s1, accepts (new_limiter n) tr = Some s1 /\ step s1 WaitReturn = Some s).
  { clear -Ha. revert Ha. generalize (new_limiter n). induction tr as [|e t IH]; intros s0 Ha; cbn [app accepts] in *.
    - destruct (step s0 WaitReturn) eqn:E; [|discriminate]. exists s0. split; auto. congruence.
    - destruct (step s0 e) as [s1|]; [|discriminate]. apply IH; auto. }
  destruct Hsplit as (s1 & Ha1 & Hw). cbn [step] in Hw. destruct (Nat.eqb_spec (wg s1) 0) as [Hz|]; [|discriminate]. inversion Hw; subst s1.
  (* the invariant of limiter_bound: wg = number of running tasks *)
  assert (HI : Inv ids s).
  { clear -Hnd Hsub Ha1. revert Hsub Ha1. generalize (init_inv ids n). generalize (new_limiter n).
    induction tr as [|e t IH]; intros s0 HI Hs Ha; cbn [accepts] in Ha; [inversion Ha; subst; auto|].
    destruct (step s0 e) as [s1|] eqn:E; [|discriminate]. apply (IH s1); auto.
    - eapply step_inv; eauto. intros j ->. apply Hs. left; reflexivity.
    - intros j Hj. apply Hs. right; auto. }
  destruct HI as [_ Hwg _ _]. rewrite Hz in Hwg.
  pose proof (submitted_not_pending i tr _ s Ha1 Hi) as Hnp.
  pose proof (running_zero s ids i (eq_sym Hwg) (Hsub i Hi)) as Hnr.
  destruct (tasks s i); congruence.
Qed.

(* a panic reaches the handler and gives the slot back: after Panic i v ... Cleanup i the value is recorded
   and the token count is again the number of running tasks (so later submissions get up to n slots) *)
Theorem panic_no_leak ids n tr s i v :
  NoDup ids -> (forall j, In (Submit j) tr -> In j ids) -> accepts (new_limiter n) tr = Some s ->
  In (Panic i v) tr -> In (i, v) (handled s) /\ tokens s = running s ids.
Proof.
  intros Hnd Hsub Ha Hp. split.
  - clear Hsub Hnd. revert Ha Hp. generalize (new_limiter n).
    assert (Hkeep : forall tr s0 s, accepts s0 tr = Some s -> In (i, v) (handled s0) -> In (i, v) (handled s)).
    { induction tr0 as [|e t IH]; intros s0 s' Ha Hin; cbn [accepts] in Ha; [inversion Ha; subst; auto|].
      destruct (step s0 e) as [s1|] eqn:E; [|discriminate]. apply (IH s1); auto.
      destruct e; cbn [step] in E; repeat match type of E with context [match ?x with _ => _ end] => destruct x; try discriminate end;
        inversion E; subst; cbn [handled]; auto. apply in_or_app. left; auto. }
    induction tr as [|e t IH]; intros s0 Ha Hp; [contradiction|]. cbn [accepts] in Ha.
    destruct (step s0 e) as [s1|] eqn:E; [|discriminate]. destruct Hp as [->|Hp]; [|eapply IH; eauto].
    apply (Hkeep t s1); auto. cbn [step] in E. destruct (tasks s0 i); try discriminate. destruct (in_cleanup s0 i); [discriminate|].
    inversion E; subst. cbn [handled]. apply in_or_app. right; left; auto.
  - assert (HI : Inv ids s).
    { clear Hp. revert Hsub Ha. generalize (init_inv ids n). generalize (new_limiter n).
      induction tr as [|e t IH]; intros s0 HI Hs Ha; cbn [accepts] in Ha; [inversion Ha; subst; auto|].
      destruct (step s0 e) as [s1|] eqn:E; [|discriminate]. apply (IH s1); auto.
      - eapply step_inv; eauto. intros j ->. apply Hs. left; reflexivity.
      - intros j Hj. apply Hs. right; auto. }
    destruct HI as [Ht _ _ _]. exact Ht.
Qed.
Print Assumptions each_started_once.
Print Assumptions body_ends_once.
Print Assumptions wait_after_all.
Print Assumptions panic_no_leak.
