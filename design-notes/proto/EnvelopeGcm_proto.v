From Coq Require Import List ZArith Lia Bool Arith.
Import ListNotations.
Require Import Envelope_proto.

(* cryptz.SaltBySecretGCMEncrypt / SaltBySecretGCMDecrypt (crypt.go:205-262): the same envelope around AES-GCM.
   crypto/cipher's Seal/Open are Section parameters with the facts the code relies on. *)
Section GcmEnvelope.
Variable md5 : bytes -> bytes.
Hypothesis md5_len : forall m, length (md5 m) = 16.
Variable seal : bytes -> bytes -> bytes -> bytes -> bytes.                 (* key nonce plaintext aad -> ciphertext || tag *)
Variable open : bytes -> bytes -> bytes -> bytes -> option bytes.          (* None: authentication failed *)
Hypothesis open_seal : forall k n p a, length k = 32 -> length n = 12 -> open k n (seal k n p a) a = Some p.
Hypothesis seal_len : forall k n p a, length (seal k n p a) = length p + 16.
Hypothesis open_len : forall k n c a p, open k n c a = Some p -> length c = length p + 16.
Notation fill_cred := (fill_cred md5).

Definition genc (salt secret pt aad : bytes) : bytes :=
  let cred := fill_cred secret salt in
  header ++ salt ++ seal (firstn 32 cred) (firstn 12 (skipn 32 cred)) pt aad.

Definition gdec (ct secret aad : bytes) : res bytes :=
  if (length ct <? 16) then Err 1 else
  match slice ct 0 8 with None => Panic | Some h =>
  if negb (beq h header) then Err 2 else
  match slice ct 8 16 with None => Panic | Some salt =>
  let cred := fill_cred secret salt in
  match slice cred 0 32, slice cred 32 44, slice ct 16 (length ct) with
  | Some k, Some n, Some body =>
      match open k n body aad with
      | None => Err 3
      | Some p => match slice body 0 (length body - 16) with               (* dst[:AESGCMDecryptLen(dst)] on the reused buffer *)
                  | Some _ => if (16 <=? length body) then Ok p else Panic
                  | None => Panic
                  end
      end
  | _, _, _ => Panic
  end end end.

Theorem gdec_total ct secret aad : gdec ct secret aad <> Panic.
Proof.
  unfold gdec. destruct (Nat.ltb_spec (length ct) 16) as [|Hlen]; [discriminate|].
  rewrite (slice_ok ct 0 8) by lia. destruct (negb (beq _ header)); [discriminate|].
  rewrite (slice_ok ct 8 16) by lia. set (salt := firstn (16 - 8) (skipn 8 ct)).
  destruct (fill_cred_evp md5 md5_len secret salt) as [_ Hc].
  rewrite (slice_ok _ 0 32), (slice_ok _ 32 44), (slice_ok ct 16 (length ct)) by lia.
  destruct (open _ _ _ aad) as [p|] eqn:Eo; [|discriminate].
  apply open_len in Eo. rewrite slice_ok by lia. destruct (Nat.leb_spec 16 (length (firstn (length ct - 16) (skipn 16 ct)))); [discriminate|lia].
Qed.

Theorem gdec_genc salt secret pt aad : length salt = 8 -> gdec (genc salt secret pt aad) secret aad = Ok pt.
Proof.
  intros Hs. set (cred := fill_cred secret salt). destruct (fill_cred_evp md5 md5_len secret salt) as [_ Hc]. fold cred in Hc.
  set (body := seal (firstn 32 cred) (firstn 12 (skipn 32 cred)) pt aad).
  assert (Hlen : length (genc salt secret pt aad) = 16 + (length pt + 16)) by (unfold genc; fold cred; fold body; rewrite !app_length, Hs; unfold body; rewrite seal_len; reflexivity).
  unfold gdec. rewrite Hlen. destruct (Nat.ltb_spec (16 + (length pt + 16)) 16); [lia|].
  assert (F1 : firstn 8 (genc salt secret pt aad) = header) by (unfold genc; apply firstn_len_app; reflexivity).
  assert (F2 : firstn 8 (skipn 8 (genc salt secret pt aad)) = salt)
    by (unfold genc; rewrite (skipn_len_app header) by reflexivity; apply firstn_len_app; auto).
  assert (F3 : skipn 16 (genc salt secret pt aad) = body)
    by (unfold genc; fold cred; fold body; rewrite app_assoc; apply skipn_len_app; rewrite app_length, Hs; reflexivity).
  rewrite (slice_ok _ 0 8) by lia. rewrite skipn_O, Nat.sub_0_r, F1.
  unfold beq at 1. destruct (list_eq_dec Z.eq_dec header header); [|congruence]. cbn [negb].
  rewrite (slice_ok _ 8 16) by lia. change (16 - 8) with 8. rewrite F2. fold cred.
  rewrite (slice_ok _ 0 32), (slice_ok _ 32 44), (slice_ok _ 16 _) by lia.
  rewrite skipn_O, Nat.sub_0_r. change (44 - 32) with 12. rewrite F3.
  replace (16 + (length pt + 16) - 16) with (length body) by (unfold body; rewrite seal_len; lia). rewrite firstn_all.
  unfold body at 1. rewrite open_seal by (rewrite firstn_length, ?skipn_length; lia).
  rewrite slice_ok by lia. destruct (Nat.leb_spec 16 (length body)); [reflexivity|]. unfold body in *. rewrite seal_len in *. lia.
Qed.
End GcmEnvelope.
Print Assumptions gdec_total.
Print Assumptions gdec_genc.
