From Coq Require Import List Arith Lia Bool.
Import ListNotations.

(* What gen/ extracts from mapz/safekv.go for each method: lock events and accesses to s.entries, in program order *)
Inductive mode := R | W.
Inductive ev := Acq (m : mode) | Rel (m : mode) | Rd | Wr.
Definition skel := list ev.

Definition held := option mode.

(* well-locked from a given lock-holding state: reads need some lock, writes need the write lock,
   locks are taken only when none is held, released in the mode they were taken, and none is left held *)
Fixpoint wl (h : held) (l : skel) : bool :=
  match l with
  | [] => match h with None => true | Some _ => false end
  | Acq m :: t => match h with None => wl (Some m) t | Some _ => false end
  | Rel m :: t => match h, m with Some R, R => wl None t | Some W, W => wl None t | _, _ => false end
  | Rd :: t => match h with Some _ => wl h t | None => false end
  | Wr :: t => match h with Some W => wl h t | _ => false end
  end.
Definition well_locked (l : skel) : bool := wl None l.

(* the skeletons of two methods as they are in the unchanged tree *)
Definition skel_Set : skel := [Acq W; Wr; Rel W].
Definition skel_Get : skel := [Acq R; Rd; Rel R].
Definition skel_Keys_as_found : skel := [Rd; Acq R; Rd; Rel R].      (* len(s.entries) before RLock *)
Definition skel_Keys_repaired : skel := [Acq R; Rd; Rd; Rel R].
Example keys_as_found_not_well_locked : well_locked skel_Keys_as_found = false.
Proof. reflexivity. Qed.
Example keys_repaired_well_locked : forallb well_locked [skel_Set; skel_Get; skel_Keys_repaired] = true.
Proof. reflexivity. Qed.

(* ---- threads and an RWMutex ---- *)
Record thread := { rest : skel; hold : held }.
Record lockst := { writer : bool; readers : nat }.
Record config := { lk : lockst; ths : list thread }.

Fixpoint upd {A} (l : list A) (i : nat) (x : A) : list A :=
  match l, i with
  | [], _ => []
  | _ :: t, O => x :: t
  | h :: t, S j => h :: upd t j x
  end.

Section Methods.
Variable methods : list skel.

(* one step of thread i; an idle thread (rest = []) starts method number m *)
Definition tstep (l : lockst) (t : thread) (m : nat) : lockst * thread :=
  match rest t with
  | [] => (l, {| rest := nth m methods []; hold := hold t |})
  | Acq W :: r => if negb (writer l) && (readers l =? 0)
                  then ({| writer := true; readers := readers l |}, {| rest := r; hold := Some W |}) else (l, t)
  | Acq R :: r => if negb (writer l)
                  then ({| writer := writer l; readers := S (readers l) |}, {| rest := r; hold := Some R |}) else (l, t)
  | Rel W :: r => ({| writer := false; readers := readers l |}, {| rest := r; hold := None |})
  | Rel R :: r => ({| writer := writer l; readers := pred (readers l) |}, {| rest := r; hold := None |})
  | Rd :: r | Wr :: r => (l, {| rest := r; hold := hold t |})
  end.

Definition step (c : config) (e : nat * nat) : config :=
  let '(i, m) := e in
  match nth_error (ths c) i with
  | None => c
  | Some t => let '(l', t') := tstep (lk c) t m in {| lk := l'; ths := upd (ths c) i t' |}
  end.
Definition run (c : config) (sched : list (nat * nat)) : config := fold_left step sched c.
Definition init (n : nat) : config :=
  {| lk := {| writer := false; readers := 0 |}; ths := repeat {| rest := []; hold := None |} n |}.

(* a data race: two different threads are both about to touch the map, at least one writing *)
Definition next_access (t : thread) : option bool :=   (* Some true = write *)
  match rest t with Rd :: _ => Some false | Wr :: _ => Some true | _ => None end.
Definition race (c : config) : Prop :=
  exists i j ti tj a b, i <> j /\ nth_error (ths c) i = Some ti /\ nth_error (ths c) j = Some tj /\
    next_access ti = Some a /\ next_access tj = Some b /\ (a || b = true).

(* ---- invariant ---- *)
Definition cntR (l : list thread) : nat := length (filter (fun t => match hold t with Some R => true | _ => false end) l).
Definition cntW (l : list thread) : nat := length (filter (fun t => match hold t with Some W => true | _ => false end) l).

Record Inv (c : config) : Prop := {
  i_wl : Forall (fun t => wl (hold t) (rest t) = true) (ths c);
  i_r : readers (lk c) = cntR (ths c);
  i_w : (if writer (lk c) then 1 else 0) = cntW (ths c);
  i_ex : writer (lk c) = true -> readers (lk c) = 0
}.

Lemma cnt_upd (f : thread -> bool) l i t t' : nth_error l i = Some t ->
  length (filter f (upd l i t')) + (if f t then 1 else 0) = length (filter f l) + (if f t' then 1 else 0).
Proof.
  revert i; induction l as [|a l IH]; intros [|i] H; cbn [nth_error upd] in *; try discriminate.
  - inversion H; subst. cbn [filter]. destruct (f t), (f t'); cbn [length]; lia.
  - specialize (IH i H). cbn [filter]. destruct (f a); cbn [length]; lia.
Qed.

Lemma Forall_upd {A} (P : A -> Prop) l i x : Forall P l -> P x -> Forall P (upd l i x).
Proof. intros H; revert i; induction H as [|a l Ha Hl IH]; intros [|i] Hx; cbn [upd]; constructor; auto. Qed.

Lemma upd_same {A} (l : list A) i t : nth_error l i = Some t -> upd l i t = l.
Proof.
  revert i; induction l as [|a l IH]; intros [|i] H; cbn [nth_error upd] in *; try discriminate; auto.
  - inversion H; reflexivity.
  - f_equal. apply IH; auto.
Qed.

Hypothesis methods_ok : forallb well_locked methods = true.

Lemma method_wl m : wl None (nth m methods []) = true.
Proof.
  destruct (nth_in_or_default m methods []) as [Hin|E]; [|rewrite E; reflexivity].
  rewrite forallb_forall in methods_ok. apply methods_ok, Hin.
Qed.

Lemma step_inv c e : Inv c -> Inv (step c e).
Proof.
  destruct e as [i m]. intros [Hwl Hr Hw Hex]. unfold step.
  destruct (nth_error (ths c) i) as [t|] eqn:Hi; [|constructor; auto].
  assert (Ht : wl (hold t) (rest t) = true) by (rewrite Forall_forall in Hwl; apply Hwl; eapply nth_error_In; eauto).
  pose proof (cnt_upd (fun t => match hold t with Some R => true | _ => false end) (ths c) i t) as CR.
  pose proof (cnt_upd (fun t => match hold t with Some W => true | _ => false end) (ths c) i t) as CW.
  unfold cntR, cntW in *.
  destruct t as [rs h]. cbn [rest hold] in *. unfold tstep; cbn [rest hold].
  destruct rs as [|[mo|mo| |] r]; cbn [wl] in Ht.
  - destruct h; [discriminate|]. specialize (CR {| rest := nth m methods []; hold := None |} Hi).
    specialize (CW {| rest := nth m methods []; hold := None |} Hi). cbn [hold] in *.
    constructor; cbn [lk ths]; unfold cntR, cntW; auto; try lia. apply Forall_upd; auto. cbn [hold rest]. apply method_wl.
  - destruct h; [discriminate|]. destruct mo.
    + destruct (negb (writer (lk c))) eqn:Ew; cbn [lk ths].
      * specialize (CR {| rest := r; hold := Some R |} Hi). specialize (CW {| rest := r; hold := Some R |} Hi). cbn [hold] in *.
        constructor; cbn [lk ths writer readers]; unfold cntR, cntW; auto; try lia.
        -- apply Forall_upd; auto.
        -- intros E. rewrite E in Ew. discriminate.
      * rewrite (upd_same _ _ _ Hi). constructor; auto.
    + destruct (negb (writer (lk c)) && (readers (lk c) =? 0)) eqn:Ew; cbn [lk ths].
      * apply andb_prop in Ew. destruct Ew as [Ew Er]. apply Nat.eqb_eq in Er. apply negb_true_iff in Ew.
        specialize (CR {| rest := r; hold := Some W |} Hi). specialize (CW {| rest := r; hold := Some W |} Hi). cbn [hold] in *.
        rewrite Ew in Hw. constructor; cbn [lk ths writer readers]; unfold cntR, cntW; auto; try lia. apply Forall_upd; auto.
      * rewrite (upd_same _ _ _ Hi). constructor; auto.
  - destruct h as [[|]|]; destruct mo; try discriminate;
      specialize (CR {| rest := r; hold := None |} Hi); specialize (CW {| rest := r; hold := None |} Hi); cbn [hold] in *;
      constructor; cbn [lk ths writer readers]; unfold cntR, cntW; auto; try lia.
    all: try (apply Forall_upd; auto).
    all: try discriminate.
    all: try (intros E; specialize (Hex E); lia).
    all: try (destruct (writer (lk c)); lia).
  - destruct h; [|discriminate].
    specialize (CR {| rest := r; hold := Some m0 |} Hi). specialize (CW {| rest := r; hold := Some m0 |} Hi). cbn [hold] in *.
    constructor; cbn [lk ths]; unfold cntR, cntW; auto; try (destruct m0; lia). apply Forall_upd; auto.
  - destruct h as [[|]|]; try discriminate.
    specialize (CR {| rest := r; hold := Some W |} Hi). specialize (CW {| rest := r; hold := Some W |} Hi). cbn [hold] in *.
    constructor; cbn [lk ths]; unfold cntR, cntW; auto; try lia. apply Forall_upd; auto.
Qed.

Lemma run_inv sched : forall c, Inv c -> Inv (run c sched).
Proof. induction sched as [|e t IH]; intros c H; cbn [run fold_left]; auto. apply IH, step_inv, H. Qed.

Lemma init_inv n : Inv (init n).
Proof.
  assert (HR : cntR (repeat {| rest := []; hold := None |} n) = 0) by (unfold cntR; induction n; cbn; auto).
  assert (HW : cntW (repeat {| rest := []; hold := None |} n) = 0) by (unfold cntW; induction n; cbn; auto).
  constructor; cbn [init lk ths writer readers]; auto; try discriminate.
  apply Forall_forall. intros t Ht. apply repeat_spec in Ht. subst. reflexivity.
Qed.

Lemma filter_two {A} (f : A -> bool) l i j a b :
  i <> j -> nth_error l i = Some a -> nth_error l j = Some b -> f a = true -> f b = true -> 2 <= length (filter f l).
Proof.
  revert i j; induction l as [|x l IH]; intros [|i] [|j] Hij Hi Hj Ha Hb; cbn [nth_error] in *; try discriminate; try lia.
  - inversion Hi; subst. cbn [filter]. rewrite Ha. cbn [length].
    assert (1 <= length (filter f l)).
    { clear -Hj Hb. revert j Hj. induction l as [|y l IHl]; intros [|j] H; cbn [nth_error] in *; try discriminate.
      - inversion H; subst. cbn [filter]. rewrite Hb. cbn; lia.
      - cbn [filter]. specialize (IHl j H). destruct (f y); cbn [length]; lia. }
    lia.
  - inversion Hj; subst. cbn [filter]. rewrite Hb. cbn [length].
    assert (1 <= length (filter f l)).
    { clear -Hi Ha. revert i Hi. induction l as [|y l IHl]; intros [|i] H; cbn [nth_error] in *; try discriminate.
      - inversion H; subst. cbn [filter]. rewrite Ha. cbn; lia.
      - cbn [filter]. specialize (IHl i H). destruct (f y); cbn [length]; lia. }
    lia.
  - assert (i <> j) by lia. specialize (IH i j H Hi Hj Ha Hb). cbn [filter]. destruct (f x); cbn [length]; lia.
Qed.
Lemma filter_one {A} (f : A -> bool) l i a : nth_error l i = Some a -> f a = true -> 1 <= length (filter f l).
Proof.
  revert i; induction l as [|x l IH]; intros [|i] H Ha; cbn [nth_error] in *; try discriminate.
  - inversion H; subst. cbn [filter]. rewrite Ha. cbn; lia.
  - cbn [filter]. specialize (IH i H Ha). destruct (f x); cbn [length]; lia.
Qed.

Lemma inv_no_race c : Inv c -> ~ race c.
Proof.
  intros [Hwl Hr Hw Hex] (i & j & ti & tj & a & b & Hij & Hi & Hj & Ai & Aj & Hab).
  rewrite Forall_forall in Hwl.
  pose proof (Hwl ti (nth_error_In _ _ Hi)) as Wi. pose proof (Hwl tj (nth_error_In _ _ Hj)) as Wj.
  unfold next_access in *.
  assert (Hwr : forall t k acc, nth_error (ths c) k = Some t -> wl (hold t) (rest t) = true ->
                match rest t with Rd :: _ => Some false | Wr :: _ => Some true | _ => None end = Some acc ->
                (acc = true -> hold t = Some W) /\ (hold t = Some W \/ hold t = Some R)).
  { intros t k acc _ Wt At. destruct (rest t) as [|[m|m| |] r]; try discriminate; cbn [wl] in Wt; inversion At; subst;
      destruct (hold t) as [[|]|]; try discriminate; split; auto; try discriminate. }
  destruct (Hwr ti i a Hi Wi Ai) as [Ia Ih]. destruct (Hwr tj j b Hj Wj Aj) as [Ja Jh].
  set (fW := fun t : thread => match hold t with Some W => true | _ => false end) in *.
  set (fR := fun t : thread => match hold t with Some R => true | _ => false end) in *.
  unfold cntW, cntR in *. fold fW in Hw. fold fR in Hr.
  assert (Hcase : hold ti = Some W \/ hold tj = Some W).
  { destruct a; [left; auto|]. destruct b; [right; auto|]. discriminate. }
  assert (HW1 : forall t k, nth_error (ths c) k = Some t -> hold t = Some W -> writer (lk c) = true /\ length (filter fW (ths c)) = 1).
  { intros t k Hk Hh. assert (1 <= length (filter fW (ths c))) by (eapply filter_one; eauto; unfold fW; rewrite Hh; reflexivity).
    destruct (writer (lk c)); split; auto; lia. }
  destruct Hcase as [Hc|Hc].
  - destruct (HW1 ti i Hi Hc) as [Ew E1]. destruct Jh as [Jw|Jr].
    + assert (2 <= length (filter fW (ths c))) by (eapply (filter_two fW _ i j ti tj); eauto; unfold fW; rewrite ?Hc, ?Jw; reflexivity). lia.
    + assert (1 <= length (filter fR (ths c))) by (eapply (filter_one fR _ j tj); eauto; unfold fR; rewrite Jr; reflexivity).
      specialize (Hex Ew). lia.
  - destruct (HW1 tj j Hj Hc) as [Ew E1]. destruct Ih as [Iw|Ir].
    + assert (2 <= length (filter fW (ths c))) by (eapply (filter_two fW _ i j ti tj); eauto; unfold fW; rewrite ?Iw, ?Hc; reflexivity). lia.
    + assert (1 <= length (filter fR (ths c))) by (eapply (filter_one fR _ i ti); eauto; unfold fR; rewrite Ir; reflexivity).
      specialize (Hex Ew). lia.
Qed.

(* C12, race-freedom half: if every method skeleton is well-locked, no schedule of any number of
   threads calling any methods in any order reaches a data race on the map *)
Theorem welllocked_race_free n sched : ~ race (run (init n) sched).
Proof. apply inv_no_race, run_inv, init_inv. Qed.
End Methods.
Print Assumptions welllocked_race_free.

(* and the unchanged Keys skeleton does race (two threads, Keys ∥ Set) *)
Example keys_as_found_races :
  race (run [skel_Keys_as_found; skel_Set] (init 2)
            [(0, 0); (1, 1); (1, 1)]).
Proof.
  exists 0, 1. eexists _, _, _, _. repeat split; try reflexivity. lia.
Qed.
