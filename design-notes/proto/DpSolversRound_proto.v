From Coq Require Import List ZArith Lia Bool Arith Permutation Sorted.
Import ListNotations.
Local Open Scope Z_scope.

(* algz.FindDpSolvers without tie-breaker (dp.go:53-105): reachable-sum map, one round per item,
   the map being walked in whatever order Go's map iteration produces (an explicit argument here). *)
Definition cell := (Z * list nat)%type.            (* total, indices of the items used *)
Definition has (k : Z) (dp : list cell) : bool := existsb (fun c => fst c =? k) dp.

(* one round: entries = the current map in iteration order; tmp collects the new cells; ovf is the `overflow` variable *)
Fixpoint round_go (maxV v : Z) (idx : nat) (allow : bool) (dp entries tmp : list cell) (ovf : Z) : list cell * Z :=
  match entries with
  | [] => (tmp, ovf)
  | (cur, sel) :: t =>
      let nv := cur + v in
      if maxV <? nv then
        if negb allow || ((0 <? ovf) && (ovf <? nv)) then round_go maxV v idx allow dp t tmp ovf
        else if has nv dp then round_go maxV v idx allow dp t tmp nv
             else round_go maxV v idx allow dp t ((nv, sel ++ [idx]) :: tmp) nv
      else if has nv dp then round_go maxV v idx allow dp t tmp ovf
           else round_go maxV v idx allow dp t ((nv, sel ++ [idx]) :: tmp) ovf
  end.

(* values of the items, by index *)
Section Items.
Variable vals : list Z.
Hypothesis vals_pos : Forall (fun v => 0 < v) vals.
Definition vl (i : nat) : Z := nth i vals 0.
Definition total (s : list nat) : Z := fold_right (fun i a => vl i + a) 0 s.
Definition valid (k : nat) (s : list nat) : Prop := StronglySorted lt s /\ Forall (fun i => (i < k)%nat) s.
Definition attainable (k : nat) (t : Z) : Prop := exists s, valid k s /\ total s = t.

Lemma total_app a b : total (a ++ b) = total a + total b.
Proof. induction a as [|x a IH]; cbn [app]; [reflexivity|]. change (total (x :: a ++ b)) with (vl x + total (a ++ b)). change (total (x :: a)) with (vl x + total a). lia. Qed.

Definition cells_ok (k : nat) (dp : list cell) : Prop := Forall (fun c => valid k (snd c) /\ total (snd c) = fst c) dp.

Lemma sorted_snoc s k : StronglySorted lt s -> Forall (fun i => (i < k)%nat) s -> StronglySorted lt (s ++ [k]).
Proof.
  induction s as [|a s IH]; intros Hs Hk; cbn [app]; [repeat constructor|].
  inversion Hs; subst. inversion Hk; subst. constructor; [apply IH; auto|]. apply Forall_app. split; auto.
Qed.
Lemma valid_mono k s : valid k s -> valid (S k) s.
Proof. intros [H1 H2]. split; auto. eapply Forall_impl; [|exact H2]. cbn beta. intros; lia. Qed.
Lemma valid_snoc k s : valid k s -> valid (S k) (s ++ [k]).
Proof.
  intros [H1 H2]. split; [apply sorted_snoc; auto|]. apply Forall_app. split.
  - eapply Forall_impl; [|exact H2]. cbn beta. intros; lia.
  - repeat constructor.
Qed.

(* every cell the round produces is a genuine selection with the right total, whatever the order *)
Lemma round_sound maxV k allow dp : forall entries tmp ovf,
  cells_ok k entries -> cells_ok (S k) tmp ->
  cells_ok (S k) (fst (round_go maxV (vl k) k allow dp entries tmp ovf)).
Proof.
  induction entries as [|[cur sel] t IH]; intros tmp ovf He Ht; cbn [round_go fst]; [exact Ht|].
  inversion He as [|? ? [Hv Htot] He']; subst. cbn [fst snd] in *.
  assert (Hnew : cells_ok (S k) ((cur + vl k, sel ++ [k]) :: tmp)).
  { constructor; auto. cbn [fst snd]. split; [apply valid_snoc; auto|]. rewrite total_app. cbn [total fold_right]. lia. }
  destruct (maxV <? cur + vl k).
  - destruct (negb allow || ((0 <? ovf) && (ovf <? cur + vl k))); [apply IH; auto|].
    destruct (has (cur + vl k) dp); apply IH; auto.
  - destruct (has (cur + vl k) dp); apply IH; auto.
Qed.

(* and no total within the limit is missed, whatever the order: if cur is walked, cur + v is a key afterwards *)
Lemma round_complete maxV k allow dp : forall entries tmp ovf cur sel,
  In (cur, sel) entries -> cur + vl k <= maxV ->
  has (cur + vl k) dp = true \/ has (cur + vl k) (fst (round_go maxV (vl k) k allow dp entries tmp ovf)) = true.
Proof.
  assert (Hkeep : forall entries tmp ovf x, has x tmp = true -> has x (fst (round_go maxV (vl k) k allow dp entries tmp ovf)) = true).
  { induction entries as [|[c s] t IH]; intros tmp ovf x Hx; cbn [round_go fst]; [exact Hx|].
    assert (Hx' : has x ((c + vl k, s ++ [k]) :: tmp) = true) by (unfold has in *; cbn [existsb]; rewrite Hx; apply orb_true_r).
    destruct (maxV <? c + vl k).
    - destruct (negb allow || ((0 <? ovf) && (ovf <? c + vl k))); [apply IH; auto|]. destruct (has (c + vl k) dp); apply IH; auto.
    - destruct (has (c + vl k) dp); apply IH; auto. }
  induction entries as [|[c s] t IH]; intros tmp ovf cur sel Hin Hle; [contradiction|]. cbn [round_go].
  destruct Hin as [E|Hin].
  - inversion E; subst c s. destruct (Z.ltb_spec maxV (cur + vl k)); [lia|].
    destruct (has (cur + vl k) dp) eqn:Eh; [left; reflexivity|]. right. apply Hkeep. unfold has. cbn [existsb fst]. rewrite Z.eqb_refl. reflexivity.
  - destruct (maxV <? c + vl k).
    + destruct (negb allow || ((0 <? ovf) && (ovf <? c + vl k))); [eapply IH; eauto|]. destruct (has (c + vl k) dp); eapply IH; eauto.
    + destruct (has (c + vl k) dp); eapply IH; eauto.
Qed.
End Items.
Print Assumptions round_sound.
Print Assumptions round_complete.
