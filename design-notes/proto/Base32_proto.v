From Coq Require Import List ZArith Lia Bool Arith.
Import ListNotations.
Local Open Scope Z_scope.
Arguments Z.mul : simpl never.
Arguments Z.add : simpl never.
Arguments Z.div : simpl never.
Arguments Z.modulo : simpl never.

(* randz/id.go: the 32-character alphabet, the decode table built by init(), Base32 and ParseBase32 *)
Definition alphabet : list Z :=   (* "0123456789abcdefghjkmnprstuvwxyz" *)
  [48;49;50;51;52;53;54;55;56;57;97;98;99;100;101;102;103;104;106;107;109;110;112;114;115;116;117;118;119;120;121;122].

Fixpoint setnth (l : list Z) (i : nat) (x : Z) : list Z :=
  match l, i with [], _ => [] | _ :: t, O => x :: t | h :: t, S j => h :: setnth t j x end.

(* init(): for i := 0; i < bound; i++ { table[i] = 0xFF }; for i, c := range alphabet { table[c] = i } *)
Definition decode_table (bound : nat) : list Z :=
  let t0 := repeat 255 bound ++ repeat 0 (256 - bound) in
  fst (fold_left (fun '(t, i) c => (setnth t (Z.to_nat c) i, i + 1)) alphabet (t0, 0)).

Definition parse_with (tbl : list Z) (s : list Z) : option Z :=
  fold_left (fun acc c => match acc with
                          | None => None
                          | Some id => let dv := nth (Z.to_nat c) tbl 0 in if dv =? 255 then None else Some (id * 32 + dv)
                          end) s (Some 0).

(* the table as found (bound = len(alphabet) = 32) accepts bytes outside the alphabet *)
Example parse_rejects_refuted : parse_with (decode_table 32) [33] = Some 0 /\ ~ In 33 alphabet.   (* "!" *)
Proof. split; [vm_compute; reflexivity|]. intros H. cbn in H. repeat (destruct H as [H|H]; [discriminate|]). exact H. Qed.

(* repaired bound: every one of the 256 byte values outside the alphabet is rejected, in any position *)
Definition tbl := decode_table 256.
Definition in_alphabet (c : Z) : bool := existsb (Z.eqb c) alphabet.
Lemma table_sweep : forallb (fun c => if in_alphabet c then negb (nth (Z.to_nat c) tbl 0 =? 255) else nth (Z.to_nat c) tbl 0 =? 255)
                            (map Z.of_nat (seq 0 256)) = true.
Proof. vm_compute. reflexivity. Qed.

Lemma table_spec c : 0 <= c < 256 -> (nth (Z.to_nat c) tbl 0 =? 255) = negb (in_alphabet c).
Proof.
  intros Hc. pose proof table_sweep as H. rewrite forallb_forall in H.
  assert (Hin : In c (map Z.of_nat (seq 0 256))) by (apply in_map_iff; exists (Z.to_nat c); split; [lia|apply in_seq; lia]).
  specialize (H c Hin). destruct (in_alphabet c); cbn [negb]; [apply negb_true_iff in H; exact H|exact H].
Qed.

Lemma parse_none s : fold_left (fun acc c => match acc with
                          | None => None
                          | Some id => let dv := nth (Z.to_nat c) tbl 0 in if dv =? 255 then None else Some (id * 32 + dv)
                          end) s None = None.
Proof. induction s; cbn [fold_left]; auto. Qed.

Theorem parse_rejects_non_alphabet s :
  Forall (fun c => 0 <= c < 256) s -> (exists c, In c s /\ in_alphabet c = false) -> parse_with tbl s = None.
Proof.
  unfold parse_with. generalize (Some 0) as acc. induction s as [|a s IH]; intros acc Hb (c & Hc & Hn); [contradiction|].
  inversion Hb as [|? ? Ha Hs]; subst. cbn [fold_left]. destruct acc as [id|]; [|apply parse_none].
  cbv zeta. destruct Hc as [->|Hc].
  - rewrite (table_spec c Ha), Hn. cbn [negb]. apply parse_none.
  - destruct (nth (Z.to_nat a) tbl 0 =? 255); [apply parse_none|]. apply IH; eauto.
Qed.

(* ---- Base32 / ParseBase32 round trip ---- *)
Fixpoint digits_le (fuel : nat) (f : Z) : list Z :=     (* least significant first, as the loop appends them *)
  match fuel with
  | O => [f]
  | S n => if f <? 32 then [f] else (f mod 32) :: digits_le n (f / 32)
  end.
Definition base32 (f : Z) : list Z := map (fun dgt => nth (Z.to_nat dgt) alphabet 0) (rev (digits_le 13 f)).

Fixpoint value_le (ds : list Z) : Z := match ds with [] => 0 | x :: t => x + 32 * value_le t end.

Lemma digits_value : forall fuel f, 0 <= f < 32 ^ Z.of_nat (S fuel) ->
  value_le (digits_le fuel f) = f /\ Forall (fun x => 0 <= x < 32) (digits_le fuel f).
Proof.
  induction fuel as [|n IH]; intros f Hf; cbn [digits_le].
  - cbn [value_le]. change (32 ^ Z.of_nat 1) with 32 in Hf. split; [lia|repeat constructor; lia].
  - destruct (Z.ltb_spec f 32).
    + cbn [value_le]. split; [lia|repeat constructor; lia].
    + destruct (IH (f / 32)) as [E F].
      * rewrite Nat2Z.inj_succ, Z.pow_succ_r in Hf by lia. split; [apply Z.div_pos; lia|apply Z.div_lt_upper_bound; lia].
      * cbn [value_le]. rewrite E. split; [rewrite (Z.div_mod f 32) at 3 by lia; lia|].
        constructor; auto. apply Z.mod_pos_bound. lia.
Qed.

Lemma alpha_sweep : forallb (fun dgt => nth (Z.to_nat (nth (Z.to_nat dgt) alphabet 0)) tbl 0 =? dgt) (map Z.of_nat (seq 0 32)) = true.
Proof. vm_compute. reflexivity. Qed.
Lemma alpha_dec dgt : 0 <= dgt < 32 -> nth (Z.to_nat (nth (Z.to_nat dgt) alphabet 0)) tbl 0 = dgt.
Proof.
  intros H. pose proof alpha_sweep as S. rewrite forallb_forall in S. apply Z.eqb_eq. apply S.
  apply in_map_iff. exists (Z.to_nat dgt). split; [lia|apply in_seq; lia].
Qed.

Lemma parse_be : forall ds acc, Forall (fun x => 0 <= x < 32) ds ->
  fold_left (fun a c => match a with
                        | None => None
                        | Some id => let dv := nth (Z.to_nat c) tbl 0 in if dv =? 255 then None else Some (id * 32 + dv)
                        end) (map (fun dgt => nth (Z.to_nat dgt) alphabet 0) ds) (Some acc)
  = Some (fold_left (fun a x => a * 32 + x) ds acc).
Proof.
  induction ds as [|x t IH]; intros acc H; cbn [map fold_left]; [reflexivity|].
  inversion H; subst. cbv zeta. rewrite alpha_dec by auto.
  destruct (Z.eqb_spec x 255); [lia|]. apply IH; auto.
Qed.

Lemma fold_rev_value ds : fold_left (fun a x => a * 32 + x) (rev ds) 0 = value_le ds.
Proof.
  induction ds as [|x t IH]; cbn [rev value_le]; [reflexivity|].
  rewrite fold_left_app. cbn [fold_left]. rewrite IH. lia.
Qed.

Theorem parse_base32_base32 id : 0 <= id < 2 ^ 63 -> parse_with tbl (base32 id) = Some id.
Proof.
  intros H. unfold parse_with, base32.
  destruct (digits_value 13 id) as [E F].
  { split; [lia|]. assert (2 ^ 63 <= 32 ^ Z.of_nat 14) by (vm_compute; discriminate). lia. }
  rewrite parse_be by (apply Forall_rev; exact F). rewrite fold_rev_value, E. reflexivity.
Qed.
Print Assumptions parse_base32_base32.
Print Assumptions parse_rejects_non_alphabet.
