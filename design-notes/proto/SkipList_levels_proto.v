From Coq Require Import List ZArith Lia Bool Arith Sorted.
Import ListNotations.
Local Open Scope Z_scope.

(* Algorithm-level model of listz.SkipList: one key list per level (level 0 first), search as in the code. *)

(* the part of a chain strictly after node c / up to and including c *)
Fixpoint after (c : Z) (l : list Z) : list Z :=
  match l with [] => [] | x :: t => if x =? c then t else after c t end.
Fixpoint through (c : Z) (l : list Z) : list Z :=
  match l with [] => [] | x :: t => if x =? c then [x] else x :: through c t end.
Definition nexts (cur : option Z) (l : list Z) : list Z := match cur with None => l | Some c => after c l end.

(* for cur.next[i] != nil { next := cur.next[i]; if next.key > key {break}; if next.key == key {hit}; cur = next } *)
Fixpoint walk (key : Z) (cur : option Z) (rest : list Z) : option Z * bool :=
  match rest with
  | [] => (cur, false)
  | n :: t => if key <? n then (cur, false) else if n =? key then (cur, true) else walk key (Some n) t
  end.

(* levels n-1 .. 0; returns (hit, update[0..n)) *)
Fixpoint search (key : Z) (levels : list (list Z)) (n : nat) (cur : option Z) : bool * list (option Z) :=
  match n with
  | O => (false, [])
  | S i =>
      let '(cur', hit) := walk key cur (nexts cur (nth i levels [])) in
      if hit then (true, [])
      else let '(h, us) := search key levels i cur' in if h then (true, []) else (false, us ++ [cur'])
  end.

(* node.next[i] = update[i].next[i]; update[i].next[i] = node *)
Definition ins_after (cur : option Z) (key : Z) (l : list Z) : list Z :=
  match cur with None => key :: l | Some c => through c l ++ key :: after c l end.

Definition Zsorted (l : list Z) : Prop := StronglySorted Z.lt l.

(* ---- facts about one sorted chain ---- *)
Lemma after_notin c l : ~ In c l -> after c l = [].
Proof. induction l as [|x t IH]; cbn [after In]; intros H; auto. destruct (Z.eqb_spec x c); [tauto|]. apply IH. tauto. Qed.

Lemma through_after c l : In c l -> through c l ++ after c l = l.
Proof.
  induction l as [|x t IH]; cbn [through after In]; intros H; [contradiction|].
  destruct (Z.eqb_spec x c) as [->|Hne]; [reflexivity|]. cbn [app]. f_equal. apply IH. destruct H; [congruence|auto].
Qed.

Lemma sorted_after c l : Zsorted l -> In c l ->
  Zsorted (after c l) /\ Forall (fun y => c < y) (after c l) /\ Forall (fun y => y <= c) (through c l) /\ Zsorted (through c l).
Proof.
  induction l as [|x t IH]; intros Hs Hin; [contradiction|]. inversion Hs as [|? ? Hs' Hall]; subst.
  cbn [after through]. destruct (Z.eqb_spec x c) as [->|Hne].
  - repeat split; auto; repeat constructor; lia.
  - destruct Hin as [E|Hin]; [congruence|]. destruct (IH Hs' Hin) as (A & B & C & D). repeat split; auto.
    + constructor; auto. rewrite Forall_forall in Hall. specialize (Hall c Hin). lia.
    + constructor; auto. apply Forall_forall. intros y Hy. rewrite Forall_forall in Hall. apply Hall.
      rewrite <- (through_after c t Hin). apply in_app_iff. left; auto.
Qed.

(* ---- functional characterisation of one level of the search ---- *)
Definition last_or (dflt : option Z) (l : list Z) : option Z := fold_left (fun _ x => Some x) l dflt.
Definition lows (key : Z) (l : list Z) : list Z := filter (fun x => x <? key) l.
Definition highs (key : Z) (l : list Z) : list Z := filter (fun x => key <? x) l.
Definition pred (key : Z) (l : list Z) : option Z := last_or None (lows key l).   (* what update[i] must be *)
Definition mem (key : Z) (l : list Z) : bool := existsb (fun x => x =? key) l.

Lemma last_or_app dflt a b : last_or dflt (a ++ b) = last_or (last_or dflt a) b.
Proof. unfold last_or. apply fold_left_app. Qed.
Lemma last_or_cons dflt x l : last_or dflt (x :: l) = last_or (Some x) l.
Proof. reflexivity. Qed.

Lemma filter_all_false {A} (f : A -> bool) l : (forall x, In x l -> f x = false) -> filter f l = [].
Proof. induction l as [|a l IH]; cbn [filter]; intros Hf; auto. rewrite (Hf a) by (left; auto). apply IH. intros y Hy; apply Hf; right; auto. Qed.
Lemma filter_all_true {A} (f : A -> bool) l : (forall x, In x l -> f x = true) -> filter f l = l.
Proof. induction l as [|a l IH]; cbn [filter]; intros Hf; auto. rewrite (Hf a) by (left; auto). f_equal. apply IH. intros y Hy; apply Hf; right; auto. Qed.

Lemma walk_sorted key : forall rest cur, Zsorted rest ->
  walk key cur rest = (last_or cur (lows key rest), mem key rest).
Proof.
  induction rest as [|n t IH]; intros cur Hs; cbn [walk]; [reflexivity|].
  inversion Hs as [|? ? Hs' Hall]; subst. rewrite Forall_forall in Hall.
  unfold lows, mem. cbn [filter existsb].
  destruct (Z.ltb_spec key n) as [Hk|Hk].
  - destruct (Z.ltb_spec n key); [lia|]. destruct (Z.eqb_spec n key); [lia|]. cbn [orb].
    rewrite filter_all_false by (intros x Hx; specialize (Hall x Hx); apply Z.ltb_ge; lia).
    replace (existsb (fun x => x =? key) t) with false; [reflexivity|].
    symmetry. apply not_true_is_false. intros Hex. apply existsb_exists in Hex. destruct Hex as (x & Hx & E). apply Z.eqb_eq in E. specialize (Hall x Hx). lia.
  - destruct (Z.eqb_spec n key) as [->|Hne].
    + rewrite Z.ltb_irrefl. cbn [orb].
      rewrite filter_all_false by (intros x Hx; specialize (Hall x Hx); apply Z.ltb_ge; lia). reflexivity.
    + destruct (Z.ltb_spec n key); [|lia]. cbn [orb]. rewrite IH by auto. reflexivity.
Qed.

(* a chain splits at key *)
Lemma sorted_split key l : Zsorted l -> mem key l = false -> l = lows key l ++ highs key l.
Proof.
  induction l as [|x t IH]; intros Hs Hm; [reflexivity|]. inversion Hs as [|? ? Hs' Hall]; subst.
  unfold mem in Hm. cbn [existsb] in Hm. apply orb_false_iff in Hm. destruct Hm as [Hx Hm]. apply Z.eqb_neq in Hx.
  unfold lows, highs. cbn [filter]. rewrite Forall_forall in Hall.
  destruct (Z.ltb_spec x key).
  - destruct (Z.ltb_spec key x); [lia|]. cbn [app]. f_equal. apply IH; auto.
  - destruct (Z.ltb_spec key x); [|lia].
    rewrite (filter_all_false (fun y => y <? key) t) by (intros y Hy; specialize (Hall y Hy); apply Z.ltb_ge; lia).
    rewrite (filter_all_true (fun y => key <? y) t) by (intros y Hy; specialize (Hall y Hy); apply Z.ltb_lt; lia). reflexivity.
Qed.

Lemma lows_sorted key l : Zsorted l -> Zsorted (lows key l).
Proof.
  induction l as [|x t IH]; intros Hs; [constructor|]. inversion Hs as [|? ? Hs' Hall]; subst. unfold lows. cbn [filter].
  destruct (x <? key); [|apply IH; auto]. constructor; [apply IH; auto|].
  apply Forall_forall. intros y Hy. apply filter_In in Hy. rewrite Forall_forall in Hall. apply Hall. tauto.
Qed.
Lemma highs_sorted key l : Zsorted l -> Zsorted (highs key l).
Proof.
  induction l as [|x t IH]; intros Hs; [constructor|]. inversion Hs as [|? ? Hs' Hall]; subst. unfold highs. cbn [filter].
  destruct (key <? x); [|apply IH; auto]. constructor; [apply IH; auto|].
  apply Forall_forall. intros y Hy. apply filter_In in Hy. rewrite Forall_forall in Hall. apply Hall. tauto.
Qed.

Lemma sorted_app a b : Zsorted a -> Zsorted b -> (forall x y, In x a -> In y b -> x < y) -> Zsorted (a ++ b).
Proof.
  induction a as [|x a IH]; intros Ha Hb H; cbn [app]; auto. inversion Ha; subst. constructor.
  - apply IH; auto. intros; apply H; auto. right; auto.
  - apply Forall_app. split; auto. apply Forall_forall. intros y Hy. apply H; auto. left; auto.
Qed.

(* through/after at the last low element reproduce the split *)
Lemma split_at_pred key l : Zsorted l -> mem key l = false ->
  match pred key l with
  | None => lows key l = []
  | Some c => through c l = lows key l /\ after c l = highs key l /\ In c l /\ c < key
  end.
Proof.
  intros Hs Hm. unfold pred. pose proof (sorted_split key l Hs Hm) as E.
  pose proof (lows_sorted key l Hs) as HL.
  destruct (lows key l) as [|a0 lo] eqn:El0; [reflexivity|].
  destruct (@exists_last _ (a0 :: lo) ltac:(discriminate)) as (l0 & x & Ex). rewrite Ex in *. clear Ex a0 lo.
  rename El0 into El.
  assert (Hc : In x (lows key l)) by (rewrite El; apply in_app_iff; right; left; reflexivity).
  unfold lows in Hc. apply filter_In in Hc. destruct Hc as [Hcl Hck]. apply Z.ltb_lt in Hck.
  rewrite last_or_app. unfold last_or at 1. cbn [fold_left]. split; [|split; [|split; auto]].
  - rewrite E at 1. clear -HL Hs. rewrite <- app_assoc. cbn [app].
    induction l0 as [|a l0 IH]; cbn [app through].
    + rewrite Z.eqb_refl. reflexivity.
    + inversion HL as [|? ? HL' Hall]; subst. rewrite Forall_forall in Hall.
      assert (a < x) by (apply Hall; apply in_app_iff; right; left; reflexivity).
      destruct (Z.eqb_spec a x); [lia|]. f_equal. apply IH; auto.
  - rewrite E at 1. clear -HL. rewrite <- app_assoc. cbn [app].
    induction l0 as [|a l0 IH]; cbn [app after].
    + rewrite Z.eqb_refl. reflexivity.
    + inversion HL as [|? ? HL' Hall]; subst. rewrite Forall_forall in Hall.
      assert (a < x) by (apply Hall; apply in_app_iff; right; left; reflexivity).
      destruct (Z.eqb_spec a x); [lia|]. apply IH; auto.
Qed.

(* the splice of `set` at one level is sorted insertion *)
Theorem ins_after_pred key l : Zsorted l -> mem key l = false ->
  ins_after (pred key l) key l = lows key l ++ key :: highs key l /\ Zsorted (ins_after (pred key l) key l).
Proof.
  intros Hs Hm. pose proof (split_at_pred key l Hs Hm) as H. pose proof (sorted_split key l Hs Hm) as E.
  assert (Hres : Zsorted (lows key l ++ key :: highs key l)).
  { apply sorted_app; [apply lows_sorted; auto| |].
    - constructor; [apply highs_sorted; auto|]. apply Forall_forall. intros y Hy. apply filter_In in Hy. destruct Hy as [_ Hy]. apply Z.ltb_lt in Hy. exact Hy.
    - intros x y Hx [<-|Hy].
      + apply filter_In in Hx. destruct Hx as [_ Hx]. apply Z.ltb_lt in Hx. exact Hx.
      + apply filter_In in Hx. apply filter_In in Hy. destruct Hx as [_ Hx]. destruct Hy as [_ Hy]. apply Z.ltb_lt in Hx, Hy. lia. }
  unfold ins_after. destruct (pred key l) as [c|].
  - destruct H as (H1 & H2 & _ & _). rewrite H1, H2. split; auto.
  - rewrite H in E, Hres |- *. cbn [app] in E, Hres |- *. rewrite <- E in Hres |- *. split; [reflexivity|exact Hres].
Qed.

(* ---- one level of the search, started from where the level above stopped ---- *)
Lemma last_or_through c l : In c l -> last_or None (through c l) = Some c.
Proof.
  induction l as [|x t IH]; intros H; [contradiction|]. cbn [through].
  destruct (Z.eqb_spec x c) as [->|Hne]; [reflexivity|]. destruct H as [E|H]; [congruence|].
  rewrite last_or_cons. specialize (IH H). destruct (through c t) as [|y r] eqn:Et; [cbn in IH; discriminate|].
  rewrite last_or_cons in *. exact IH.
Qed.

Lemma level_step key l cur : Zsorted l ->
  (cur = None \/ exists c, cur = Some c /\ In c l /\ c < key) ->
  walk key cur (nexts cur l) = (pred key l, mem key l).
Proof.
  intros Hs [->|(c & -> & Hc & Hlt)]; cbn [nexts].
  - apply walk_sorted; auto.
  - destruct (sorted_after c l Hs Hc) as (Sa & Fa & Ft & St). rewrite walk_sorted by auto.
    pose proof (through_after c l Hc) as E. unfold pred.
    assert (Hl : lows key l = through c l ++ lows key (after c l)).
    { rewrite <- E at 1. unfold lows. rewrite filter_app. f_equal. apply filter_all_true.
      intros x Hx. rewrite Forall_forall in Ft. specialize (Ft x Hx). apply Z.ltb_lt. lia. }
    assert (Hm : mem key l = mem key (after c l)).
    { rewrite <- E at 1. unfold mem. rewrite existsb_app.
      replace (existsb (fun x => x =? key) (through c l)) with false; [reflexivity|].
      symmetry. apply not_true_is_false. intros Hex. apply existsb_exists in Hex. destruct Hex as (x & Hx & Ex).
      apply Z.eqb_eq in Ex. rewrite Forall_forall in Ft. specialize (Ft x Hx). lia. }
    rewrite Hl, Hm, last_or_app, (last_or_through c l Hc). reflexivity.
Qed.

Lemma pred_in key l c : pred key l = Some c -> In c l /\ c < key.
Proof.
  unfold pred. intros H. assert (Hin : In c (lows key l)).
  { destruct (lows key l) as [|a r] using rev_ind; [cbn in H; discriminate|].
    rewrite last_or_app in H. cbn in H. inversion H; subst. apply in_app_iff. right; left; reflexivity. }
  apply filter_In in Hin. destruct Hin as [H1 H2]. apply Z.ltb_lt in H2. auto.
Qed.

(* ---- the whole top-down search ---- *)
Definition levels_ok (levels : list (list Z)) : Prop :=
  (forall j, Zsorted (nth j levels [])) /\ (forall j, incl (nth (S j) levels []) (nth j levels [])).

Lemma search_spec key levels : levels_ok levels -> forall n cur,
  (cur = None \/ exists c, cur = Some c /\ In c (nth n levels []) /\ c < key) ->
  search key levels n cur =
    if existsb (fun j => mem key (nth j levels [])) (seq 0 n)
    then (true, [])
    else (false, map (fun j => pred key (nth j levels [])) (seq 0 n)).
Proof.
  intros [HS HN]. induction n as [|i IH]; intros cur Hcur; [reflexivity|]. cbn [search].
  rewrite level_step; auto.
  2:{ destruct Hcur as [->|(c & -> & Hc & Hlt)]; [left; reflexivity|]. right. exists c. repeat split; auto. apply (HN i); auto. }
  rewrite seq_S, existsb_app. cbn [existsb Nat.add]. rewrite orb_false_r.
  destruct (mem key (nth i levels [])) eqn:Em; [rewrite orb_true_r; reflexivity|]. rewrite orb_false_r.
  rewrite IH.
  - destruct (existsb (fun j => mem key (nth j levels [])) (seq 0 i)); [reflexivity|].
    rewrite map_app. reflexivity.
  - destruct (pred key (nth i levels [])) as [c|] eqn:Ep; [|left; reflexivity].
    right. exists c. split; auto. apply pred_in in Ep. exact Ep.
Qed.

(* with nested levels, a hit anywhere is membership at level 0: Get / SetX / SetNx agree with the map *)
Lemma hit_iff_level0 key levels n : levels_ok levels -> (0 < n)%nat ->
  existsb (fun j => mem key (nth j levels [])) (seq 0 n) = mem key (nth 0 levels []).
Proof.
  intros [HS HN] Hn. destruct (mem key (nth 0 levels [])) eqn:E0.
  - apply existsb_exists. exists 0%nat. split; [apply in_seq; lia|exact E0].
  - apply not_true_is_false. intros H. apply existsb_exists in H. destruct H as (j & _ & Hj).
    assert (G : forall j, mem key (nth j levels []) = true -> mem key (nth 0 levels []) = true).
    { clear -HN. induction j as [|j IH]; intros H; auto. apply IH.
      unfold mem in *. apply existsb_exists in H. destruct H as (x & Hx & Ex). apply existsb_exists. exists x. split; auto. apply (HN j); auto. }
    rewrite (G j Hj) in E0. discriminate.
Qed.

Lemma nth_map_seq {A} (f : nat -> A) n j dflt : (j < n)%nat -> nth j (map f (seq 0 n)) dflt = f j.
Proof.
  intros H. rewrite (nth_indep _ dflt (f 0%nat)) by (rewrite map_length, seq_length; auto).
  rewrite map_nth, seq_nth by auto. reflexivity.
Qed.

(* ---- insertion of a new key with tower height h: splice after update[j] at every level j < h ---- *)
Definition splice (key : Z) (h : nat) (us : list (option Z)) (levels : list (list Z)) : list (list Z) :=
  map (fun j => if (j <? h)%nat then ins_after (nth j us None) key (nth j levels []) else nth j levels [])
      (seq 0 (length levels)).

Theorem insert_levels_ok key h levels level :
  levels_ok levels -> (forall j, (level <= j)%nat -> nth j levels [] = []) ->
  (h <= length levels)%nat -> (level <= length levels)%nat ->
  mem key (nth 0 levels []) = false ->
  let us := snd (search key levels level None) ++ repeat None (h - level) in     (* update[i] = head above the old top *)
  let levels' := splice key h us levels in
  levels_ok levels' /\ length levels' = length levels /\
  (forall j, (j < length levels)%nat ->
     nth j levels' [] = if (j <? h)%nat then lows key (nth j levels []) ++ key :: highs key (nth j levels []) else nth j levels []).
Proof.
  intros Hok Hemp Hh Hlv Hm. cbv zeta. pose proof Hok as [HS HN].
  assert (Hnomem : forall j, mem key (nth j levels []) = false).
  { intros j. destruct (mem key (nth j levels [])) eqn:E; auto.
    assert (existsb (fun j => mem key (nth j levels [])) (seq 0 (S j)) = true) by (apply existsb_exists; exists j; split; [apply in_seq; lia|auto]).
    rewrite hit_iff_level0 in H; auto; [congruence|lia]. }
  rewrite search_spec by (auto; left; reflexivity).
  replace (existsb (fun j => mem key (nth j levels [])) (seq 0 level)) with false
    by (symmetry; apply not_true_is_false; intros H; apply existsb_exists in H; destruct H as (j & _ & Hj); rewrite Hnomem in Hj; discriminate).
  cbn [snd].
  set (us := map (fun j => pred key (nth j levels [])) (seq 0 level) ++ repeat None (h - level)).
  assert (Hus : forall j, (j < h)%nat -> nth j us None = pred key (nth j levels [])).
  { intros j Hj. unfold us. destruct (Nat.lt_ge_cases j level) as [Hlt|Hge].
    - rewrite app_nth1 by (rewrite map_length, seq_length; auto). rewrite nth_map_seq by auto. reflexivity.
    - rewrite app_nth2 by (rewrite map_length, seq_length; auto). rewrite nth_repeat.
      rewrite (Hemp j Hge). reflexivity. }
  assert (Hnth : forall j, (j < length levels)%nat ->
            nth j (splice key h us levels) [] = if (j <? h)%nat then lows key (nth j levels []) ++ key :: highs key (nth j levels []) else nth j levels []).
  { intros j Hj. unfold splice. rewrite nth_map_seq by auto.
    destruct (Nat.ltb_spec j h); [|reflexivity]. rewrite Hus by auto. apply ins_after_pred; auto. }
  assert (Hlen : length (splice key h us levels) = length levels) by (unfold splice; rewrite map_length, seq_length; reflexivity).
  split; [|split; auto]. split.
  - intros j. destruct (Nat.lt_ge_cases j (length levels)) as [Hj|Hj].
    + rewrite Hnth by auto. destruct (Nat.ltb_spec j h); [|apply HS].
      destruct (ins_after_pred key (nth j levels []) (HS j) (Hnomem j)) as [E Hsd]. rewrite <- E. exact Hsd.
    + rewrite nth_overflow by lia. constructor.
  - intros j x Hx. destruct (Nat.lt_ge_cases (S j) (length levels)) as [Hj|Hj].
    + rewrite Hnth in Hx by auto. rewrite Hnth by lia.
      assert (Hsub : forall l, mem key l = false -> Zsorted l -> forall y, In y (lows key l ++ key :: highs key l) <-> y = key \/ In y l).
      { intros l Hml Hsl y. rewrite (sorted_split key l Hsl Hml) at 3. rewrite !in_app_iff. cbn [In]. intuition. }
      destruct (Nat.ltb_spec (S j) h).
      * destruct (Nat.ltb_spec j h); [|lia]. apply Hsub in Hx; auto. apply Hsub; auto. destruct Hx as [->|Hx]; [left; auto|right; apply (HN j); auto].
      * destruct (Nat.ltb_spec j h); [apply Hsub; auto; right; apply (HN j); auto|apply (HN j); auto].
    + rewrite nth_overflow in Hx by lia. contradiction.
Qed.
Print Assumptions insert_levels_ok.
Print Assumptions search_spec.
