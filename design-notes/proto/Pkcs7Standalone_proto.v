From Coq Require Import List ZArith Lia Bool Arith.
Import ListNotations.

(* cryptz.PKCS7Padding / PKCS7UnPadding (aes.go:161-212), any block size (an int: may be <= 0),
   byte(paddingLen) truncating mod 256, slice expressions checked (Panic if out of range). *)
Inductive res (A : Type) := Ok (a : A) | Err (e : nat) | Panic.
Arguments Ok {A}. Arguments Err {A}. Arguments Panic {A}.

Definition pad (d : list Z) (bs : Z) : res (list Z) :=
  if (length d =? 0)%nat then Err 1 else
  if (bs <=? 0)%Z then Err 2 else
  let pl := Z.to_nat bs - (length d mod Z.to_nat bs) in
  Ok (d ++ repeat (Z.of_nat pl mod 256)%Z pl).

Definition unpad (d : list Z) (bs : Z) : res (list Z) :=
  if (length d =? 0)%nat then Err 1 else
  if (bs <=? 0)%Z then Err 2 else
  if negb (length d mod Z.to_nat bs =? 0)%nat then Err 3 else
  let p := last d 0%Z in                                             (* int(data[len(data)-1]) *)
  if (p <=? 0)%Z || (bs <? p)%Z then Err 4 else
  let pl := Z.to_nat p in
  if (length d <? pl)%nat then Panic else                            (* data[len(data)-paddingLen:] *)
  if forallb (fun x => Z.eqb x (p mod 256)%Z) (skipn (length d - pl) d)
  then Ok (firstn (length d - pl) d) else Err 5.

Theorem unpad_never_panics d bs : unpad d bs <> Panic.
Proof.
  unfold unpad. destruct (Nat.eqb_spec (length d) 0); [discriminate|]. destruct (Z.leb_spec bs 0); [discriminate|].
  destruct (Nat.eqb_spec (length d mod Z.to_nat bs) 0) as [Hm|]; cbn [negb]; [|discriminate].
  destruct (Z.leb_spec (last d 0%Z) 0); cbn [orb]; [discriminate|]. destruct (Z.ltb_spec bs (last d 0%Z)); [discriminate|].
  (* a non-empty multiple of bs is at least bs long, and paddingLen <= bs *)
  assert (Z.to_nat bs <= length d).
  { apply Nat.mod_divides in Hm; [|lia]. destruct Hm as [c Hc]. destruct c; [lia|]. rewrite Hc. nia. }
  destruct (Nat.ltb_spec (length d) (Z.to_nat (last d 0%Z))); [lia|].
  destruct (forallb _ _); discriminate.
Qed.

Lemma last_app_repeat (p : list Z) x n : 0 < n -> last (p ++ repeat x n) 0%Z = x.
Proof.
  intros H. destruct n; [lia|]. replace (S n) with (n + 1) by lia. rewrite repeat_app, app_assoc. cbn [repeat]. apply last_last.
Qed.

Theorem unpad_pad d bs : d <> [] -> (1 <= bs <= 255)%Z ->
  exists pd, pad d bs = Ok pd /\ unpad pd bs = Ok d.
Proof.
  intros Hne Hbs. unfold pad. destruct (Nat.eqb_spec (length d) 0) as [E|_]; [destruct d; [congruence|discriminate]|].
  destruct (Z.leb_spec bs 0); [lia|]. eexists. split; [reflexivity|].
  set (b := Z.to_nat bs). assert (Hb : 1 <= b <= 255) by (unfold b; lia).
  pose proof (Nat.mod_upper_bound (length d) b ltac:(lia)) as Hmod.
  set (pl := b - length d mod b). assert (Hpl : 1 <= pl <= b) by (unfold pl; lia).
  assert (Hsmall : (Z.of_nat pl mod 256 = Z.of_nat pl)%Z) by (apply Z.mod_small; lia). rewrite Hsmall.
  set (pd := d ++ repeat (Z.of_nat pl) pl).
  assert (Hl : length pd = length d + pl) by (unfold pd; rewrite app_length, repeat_length; reflexivity).
  assert (Hlast : last pd 0%Z = Z.of_nat pl) by (unfold pd; apply last_app_repeat; lia).
  unfold unpad. destruct (Nat.eqb_spec (length pd) 0); [lia|]. destruct (Z.leb_spec bs 0); [lia|]. fold b.
  assert (Hm0 : (length pd mod b = 0)%nat).
  { rewrite Hl. unfold pl. pose proof (Nat.div_mod (length d) b ltac:(lia)) as Edm.
    replace (length d + (b - length d mod b)) with ((length d / b + 1) * b) by nia. apply Nat.mod_mul. lia. }
  rewrite Hm0. cbn [Nat.eqb negb]. rewrite Hlast.
  destruct (Z.leb_spec (Z.of_nat pl) 0); [lia|]. destruct (Z.ltb_spec bs (Z.of_nat pl)); [lia|]. cbn [orb].
  rewrite Nat2Z.id, Hsmall. destruct (Nat.ltb_spec (length pd) pl); [lia|].
  replace (length pd - pl) with (length d) by lia. unfold pd. rewrite skipn_app, skipn_all, Nat.sub_diag. cbn [skipn app].
  assert (F : forallb (fun x => Z.eqb x (Z.of_nat pl)) (repeat (Z.of_nat pl) pl) = true)
    by (apply forallb_forall; intros x Hx; apply repeat_spec in Hx; subst; apply Z.eqb_refl).
  rewrite F. rewrite firstn_app, Nat.sub_diag, firstn_all. cbn [firstn]. rewrite app_nil_r. reflexivity.
Qed.

Lemma all_eq_repeat (c : Z) l : (forall z, In z l -> z = c) -> l = repeat c (length l).
Proof.
  induction l as [|z l IH]; intros H; [reflexivity|]. cbn [length repeat]. rewrite (H z) by (left; reflexivity).
  f_equal. apply IH. intros w Hw. apply H. right; auto.
Qed.

(* whatever is accepted is a correctly padded multiple of the block size; everything else is an error *)
Theorem unpad_sound d bs r : (1 <= bs <= 255)%Z -> unpad d bs = Ok r ->
  exists k, 1 <= k <= Z.to_nat bs /\ d = r ++ repeat (Z.of_nat k) k /\ (length d mod Z.to_nat bs = 0)%nat.
Proof.
  intros Hbs. unfold unpad. destruct (Nat.eqb_spec (length d) 0); [discriminate|]. destruct (Z.leb_spec bs 0); [discriminate|].
  destruct (Nat.eqb_spec (length d mod Z.to_nat bs) 0) as [Hm|]; cbn [negb]; [|discriminate].
  destruct (Z.leb_spec (last d 0%Z) 0); cbn [orb]; [discriminate|]. destruct (Z.ltb_spec bs (last d 0%Z)); [discriminate|].
  set (p := last d 0%Z) in *. destruct (Nat.ltb_spec (length d) (Z.to_nat p)); [discriminate|].
  destruct (forallb _ _) eqn:F; [|discriminate]. intros E. inversion E; subst r. exists (Z.to_nat p). split; [lia|]. split; auto.
  rewrite forallb_forall in F. rewrite Z.mod_small in F by lia.
  rewrite <- (firstn_skipn (length d - Z.to_nat p) d) at 1. f_equal.
  assert (Hs : length (skipn (length d - Z.to_nat p) d) = Z.to_nat p) by (rewrite skipn_length; lia).
  rewrite (all_eq_repeat p (skipn (length d - Z.to_nat p) d)) by (intros z Hz; apply Z.eqb_eq; apply F; exact Hz).
  rewrite Hs, Z2Nat.id by lia. reflexivity.
Qed.
Print Assumptions unpad_never_panics.
Print Assumptions unpad_pad.
Print Assumptions unpad_sound.
