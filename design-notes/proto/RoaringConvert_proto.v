Require Import Bitmap_bits_proto.
From Coq Require Import List NArith Lia Bool Arith.
Import ListNotations.
Local Open Scope N_scope.

(* setz.arrayContainer.Add's conversion to a bitmap container (roaring_bitmap.go:186-198):
   a fresh 1024-word bitmap gets the 4096 array values and x, and its cached length is SET BY HAND to 4097.
   The cache is right iff the values are pairwise distinct and x is new - for any contents. *)

(* number of members among a universe of candidates *)
Definition count (f : N -> bool) (U : list N) : nat := length (filter f U).

Lemma count_add_new f U x : NoDup U -> In x U -> f x = false ->
  count (fun m => N.eqb m x || f m) U = S (count f U).
Proof.
  unfold count. induction U as [|u U IH]; intros Hnd Hin Hf; [contradiction|].
  inversion Hnd as [|? ? Hnin Hnd']; subst. cbn [filter].
  destruct Hin as [->|Hin].
  - rewrite N.eqb_refl, Hf. cbn [orb length]. f_equal.
    assert (E : filter (fun m => N.eqb m x || f m) U = filter f U).
    { apply filter_ext_in. intros a Ha. destruct (N.eqb_spec a x) as [->|_]; [contradiction|reflexivity]. }
    rewrite E. reflexivity.
  - destruct (N.eqb_spec u x) as [->|Hne]; [contradiction|]. cbn [orb].
    destruct (f u); cbn [length]; rewrite IH; auto.
Qed.

Lemma count_ext f g U : (forall m, In m U -> f m = g m) -> count f U = count g U.
Proof. intros H. unfold count. f_equal. apply filter_ext_in. exact H. Qed.

(* the conversion loop: newContainer.add(v) for every array value, then add(x) *)
Definition bitmap_of (vs : list N) (set0 : list N) : list N := fold_left (fun s v => fst (add s v)) vs set0.

Lemma mem_bitmap_of : forall vs set0 m, mem (bitmap_of vs set0) m = existsb (N.eqb m) vs || mem set0 m.
Proof.
  induction vs as [|v vs IH]; intros set0 m; cbn [bitmap_of fold_left existsb]; [reflexivity|].
  fold (bitmap_of vs (fst (add set0 v))). rewrite IH. destruct (add_spec set0 v) as [_ Hm]. rewrite Hm.
  destruct (N.eqb m v), (existsb (N.eqb m) vs), (mem set0 m); reflexivity.
Qed.

Lemma count_bitmap_of U : NoDup U -> forall vs set0, NoDup vs -> (forall v, In v vs -> In v U /\ mem set0 v = false) ->
  count (mem (bitmap_of vs set0)) U = (length vs + count (mem set0) U)%nat.
Proof.
  intros HU. induction vs as [|v vs IH]; intros set0 Hnd Hin; cbn [bitmap_of fold_left length]; [reflexivity|].
  fold (bitmap_of vs (fst (add set0 v))). inversion Hnd as [|? ? Hnv Hnd']; subst.
  destruct (add_spec set0 v) as [_ Hm]. rewrite IH; auto.
  - rewrite (count_ext _ (fun m => N.eqb m v || mem set0 m)) by (intros m _; apply Hm).
    destruct (Hin v (or_introl eq_refl)) as [HvU Hvm]. rewrite count_add_new by auto. lia.
  - intros w Hw. destruct (Hin w (or_intror Hw)) as [HwU Hwm]. split; auto. rewrite Hm, Hwm.
    destruct (N.eqb_spec w v) as [->|_]; [contradiction|reflexivity].
Qed.

(* C03, the conversion: whatever the 4096 distinct array values and the new value x are, the bitmap holds
   exactly 4097 members, so the hand-written `length = 4097` is the true cardinality *)
Theorem convert_card U vs x set0 : NoDup U -> NoDup (x :: vs) -> (forall v, In v (x :: vs) -> In v U) ->
  (forall m, mem set0 m = false) -> length vs = 4096%nat ->
  count (mem (bitmap_of (vs ++ [x]) set0)) U = 4097%nat.
Proof.
  intros HU Hnd Hin Hz Hl. rewrite (count_bitmap_of U HU).
  - rewrite app_length, Hl. cbn [length]. rewrite (count_ext _ (fun _ => false)) by (intros; apply Hz).
    unfold count. assert (E : filter (fun _ : N => false) U = []) by (clear; induction U; auto). rewrite E. reflexivity.
  - inversion Hnd as [|? ? Hx Hvs]; subst. clear -Hx Hvs. induction vs as [|a vs IH]; cbn [app].
    + repeat constructor. intros [].
    + inversion Hvs; subst. constructor.
      * intros H. apply in_app_iff in H. destruct H as [H|[<-|[]]]; [contradiction|]. apply Hx. left; reflexivity.
      * apply IH; auto. intros H. apply Hx. right; exact H.
  - intros v Hv. split; [|apply Hz]. apply Hin. apply in_app_iff in Hv. destruct Hv as [Hv|[<-|[]]]; [right; exact Hv|left; reflexivity].
Qed.
Print Assumptions convert_card.
