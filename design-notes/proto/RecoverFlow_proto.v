From Coq Require Import List Arith Lia Bool.
Import ListNotations.

(* goz.Recover (goz.go:69-106) as a function from the outcomes of the callbacks to the trace of what ran.
   An outcome is None (returned) or Some v (panicked with v); handler calls are recorded with their argument. *)
Inductive ev := RanFn | Handler (v : nat) | CleanupRan (i : nat) | HandlerCleanup (i v : nat).

Fixpoint run_cleanups (i : nat) (cs : list (option nat)) : list ev :=
  match cs with
  | [] => []
  | None :: t => CleanupRan i :: run_cleanups (S i) t
  | Some v :: _ => [CleanupRan i; HandlerCleanup i v]             (* the inner deferred recover; the loop is abandoned *)
  end.
Definition recover_ (fn : option nat) (cleanups : list (option nat)) : list ev :=
  RanFn :: (match fn with Some v => [Handler v] | None => [] end) ++ run_cleanups 0 cleanups.

(* Limiter.Go passes exactly one cleanup, l.done, which does not panic: whatever fn does, fn runs once,
   done runs exactly once and after fn, and a panic value reaches the handler — the three facts the event model
   of Limiter_proto takes as its Return/Panic/Cleanup events *)
Definition is_cleanup0 (e : ev) : bool := match e with CleanupRan 0 => true | _ => false end.
Theorem limiter_flow fn :
  recover_ fn [None] = RanFn :: (match fn with Some v => [Handler v] | None => [] end) ++ [CleanupRan 0] /\
  length (filter is_cleanup0 (recover_ fn [None])) = 1 /\
  (forall v, fn = Some v -> In (Handler v) (recover_ fn [None])).
Proof.
  destruct fn as [v|]; cbn; repeat split; auto.
  - intros w E. inversion E; subst. right; left; reflexivity.
  - intros v E; discriminate.
Qed.

(* in general: the first cleanup always runs; a panicking cleanup is reported with its index and stops the rest *)
Theorem first_cleanup_runs fn c cs : In (CleanupRan 0) (recover_ fn (c :: cs)).
Proof. unfold recover_. right. apply in_or_app. right. destruct c; cbn [run_cleanups]; left; reflexivity. Qed.
Print Assumptions limiter_flow.
