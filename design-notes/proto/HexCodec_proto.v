From Coq Require Import List ZArith Lia Bool Arith.
Import ListNotations.
Local Open Scope Z_scope.

(* strz.hexEncode / hexDecode / fromHexChar (std_hex.go) *)
Definition from_hex (c : Z) : option Z :=
  if (48 <=? c) && (c <=? 57) then Some (c - 48)
  else if (97 <=? c) && (c <=? 102) then Some (c - 97 + 10)
  else if (65 <=? c) && (c <=? 70) then Some (c - 65 + 10)
  else None.
Definition hextable : list Z := [48;49;50;51;52;53;54;55;56;57;97;98;99;100;101;102].
Definition encode (src : list Z) : list Z :=
  flat_map (fun b => [nth (Z.to_nat (Z.shiftr b 4)) hextable 0; nth (Z.to_nat (Z.land b 15)) hextable 0]) src.

Inductive herr := NoErr | InvalidByte (c : Z) | ErrLength.
(* the loop reads pairs; on the odd tail it checks the character before reporting the length *)
Fixpoint decode (src : list Z) (acc : list Z) : list Z * herr :=
  match src with
  | [] => (acc, NoErr)
  | [c] => match from_hex c with None => (acc, InvalidByte c) | Some _ => (acc, ErrLength) end
  | a :: b :: rest =>
      match from_hex a with
      | None => (acc, InvalidByte a)
      | Some x => match from_hex b with
                  | None => (acc, InvalidByte b)
                  | Some y => decode rest (acc ++ [Z.lor (Z.shiftl x 4) y])
                  end
      end
  end.

(* specification in the words of encoding/hex: the first invalid character wins, else odd length, else success;
   the decoded prefix is the complete pairs before the offending position *)
Fixpoint first_bad (src : list Z) (i : nat) : option (nat * Z) :=
  match src with [] => None | c :: t => match from_hex c with None => Some (i, c) | Some _ => first_bad t (S i) end end.
Fixpoint pairs (src : list Z) : list Z :=
  match src with
  | a :: b :: rest => match from_hex a, from_hex b with Some x, Some y => Z.lor (Z.shiftl x 4) y :: pairs rest | _, _ => [] end
  | _ => []
  end.
Definition spec (src : list Z) : list Z * herr :=
  match first_bad src 0 with
  | Some (p, c) => (firstn (p / 2) (pairs src), InvalidByte c)
  | None => (pairs src, if Nat.odd (length src) then ErrLength else NoErr)
  end.

Lemma first_bad_shift src : forall i, first_bad src (S i) = option_map (fun '(p, c) => (S p, c)) (first_bad src i).
Proof. induction src as [|c t IH]; intros i; cbn [first_bad option_map]; auto. destruct (from_hex c); auto. Qed.

Lemma div2_SS p : (S (S p) / 2 = S (p / 2))%nat.
Proof. replace (S (S p)) with (1 * 2 + p)%nat by lia. rewrite Nat.div_add_l by lia. lia. Qed.

Theorem decode_spec : forall src acc, decode src acc = (acc ++ fst (spec src), snd (spec src)).
Proof.
  assert (G : forall n src, (length src <= n)%nat -> forall acc, decode src acc = (acc ++ fst (spec src), snd (spec src))).
  { induction n as [|n IH]; intros src Hn acc.
    - destruct src; [|cbn in Hn; lia]. cbn. rewrite app_nil_r. reflexivity.
    - destruct src as [|a [|b rest]].
      + cbn. rewrite app_nil_r. reflexivity.
      + unfold spec. cbn [decode first_bad pairs length Nat.odd]. destruct (from_hex a); cbn [fst snd Nat.div firstn]; rewrite ?app_nil_r; reflexivity.
      + cbn [decode]. unfold spec. cbn [first_bad pairs].
        destruct (from_hex a) as [x|] eqn:Ea; [|cbn [fst snd]; change (0 / 2)%nat with 0%nat; cbn [firstn]; rewrite app_nil_r; reflexivity].
        destruct (from_hex b) as [y|] eqn:Eb; [|cbn [fst snd]; change (1 / 2)%nat with 0%nat; cbn [firstn]; rewrite app_nil_r; reflexivity].
        rewrite IH by (cbn [length] in Hn; lia). unfold spec. rewrite !first_bad_shift.
        destruct (first_bad rest 0) as [[p c]|]; cbn [option_map fst snd].
        * rewrite div2_SS.
          cbn [firstn]. rewrite <- app_assoc. reflexivity.
        * cbn [length Nat.odd]. rewrite <- app_assoc. reflexivity. }
  intros src acc. apply (G (length src)). lia.
Qed.

(* round trip with HexEncode, for bytes 0..255 *)
Lemma from_hex_table n : 0 <= n < 16 -> from_hex (nth (Z.to_nat n) hextable 0) = Some n.
Proof. intros H. assert (n = 0 \/ n = 1 \/ n = 2 \/ n = 3 \/ n = 4 \/ n = 5 \/ n = 6 \/ n = 7 \/ n = 8 \/ n = 9 \/ n = 10 \/ n = 11 \/ n = 12 \/ n = 13 \/ n = 14 \/ n = 15) by lia.
  repeat (destruct H0 as [-> | H0]; [reflexivity|]). subst; reflexivity. Qed.
Lemma byte_split b : 0 <= b < 256 -> Z.lor (Z.shiftl (Z.shiftr b 4) 4) (Z.land b 15) = b.
Proof.
  intros H.
  assert (F : forallb (fun n => Z.lor (Z.shiftl (Z.shiftr (Z.of_nat n) 4) 4) (Z.land (Z.of_nat n) 15) =? Z.of_nat n) (seq 0 256) = true)
    by (vm_compute; reflexivity).
  rewrite forallb_forall in F. specialize (F (Z.to_nat b) ltac:(apply in_seq; lia)). rewrite Z2Nat.id in F by lia.
  apply Z.eqb_eq. exact F.
Qed.
Theorem decode_encode : forall src acc, Forall (fun b => 0 <= b < 256) src -> decode (encode src) acc = (acc ++ src, NoErr).
Proof.
  induction src as [|b t IH]; intros acc Hb; [cbn; rewrite app_nil_r; reflexivity|]. inversion Hb as [|? ? Hb1 Hb2]; subst.
  cbn [encode flat_map app decode].
  rewrite (from_hex_table (Z.shiftr b 4)) by (rewrite Z.shiftr_div_pow2 by lia; change (2 ^ 4) with 16; split; [apply Z.div_pos; lia|apply Z.div_lt_upper_bound; lia]).
  rewrite (from_hex_table (Z.land b 15)) by (change 15 with (Z.ones 4); rewrite Z.land_ones by lia; apply Z.mod_pos_bound; lia).
  rewrite byte_split by auto. fold (encode t). rewrite IH by auto. rewrite <- app_assoc. reflexivity.
Qed.
Print Assumptions decode_spec.
Print Assumptions decode_encode.
