Require Import SkipList_levels_proto.
From Coq Require Import List ZArith Lia Bool Arith Sorted.
Import ListNotations.
Local Open Scope Z_scope.

(* listz.SkipList.Remove (skip.go:123-168) on the per-level model.
   The search never stops early: on next.key == key it records curLevel once and goes down a level,
   so update[i] is the predecessor of key at every level. *)
Fixpoint rsearch (key : Z) (levels : list (list Z)) (n : nat) (cur : option Z) (curLevel : nat) : nat * list (option Z) :=
  match n with
  | O => (curLevel, [])
  | S i =>
      let '(cur', hit) := walk key cur (nexts cur (nth i levels [])) in
      let cl := if hit && (curLevel =? 0)%nat then S i else curLevel in
      let '(cl', us) := rsearch key levels i cur' cl in (cl', us ++ [cur'])
  end.

(* update[i].next[i] = cur.next[i], cur being the node that holds key *)
Definition unsplice (u : option Z) (key : Z) (l : list Z) : list Z :=
  match u with None => [] | Some c => through c l end ++ after key l.

Definition remove_levels (key : Z) (level : nat) (levels : list (list Z)) : option (list (list Z)) :=
  let '(cl, us) := rsearch key levels level None 0 in
  if (cl =? 0)%nat then None
  else Some (map (fun j => if (j <? cl)%nat then unsplice (nth j us None) key (nth j levels []) else nth j levels [])
                 (seq 0 (length levels))).

(* for s.level > 1 && s.head.next[s.level-1] == nil { s.level-- }, guarded by curLevel >= s.level *)
Fixpoint shrink (fuel : nat) (levels : list (list Z)) (level : nat) : nat :=
  match fuel with
  | O => level
  | S f => if (1 <? level)%nat && (match nth (level - 1) levels [] with [] => true | _ => false end)
           then shrink f levels (level - 1) else level
  end.

(* ---- one sorted chain that contains key ---- *)
Lemma sorted_split_mem key l : Zsorted l -> mem key l = true -> l = lows key l ++ key :: highs key l.
Proof.
  induction l as [|x t IH]; intros Hs Hm; [discriminate|]. inversion Hs as [|? ? Hs' Hall]; subst.
  rewrite Forall_forall in Hall. unfold mem in Hm. cbn [existsb] in Hm. unfold lows, highs. cbn [filter].
  destruct (Z.eqb_spec x key) as [->|Hne].
  - rewrite Z.ltb_irrefl.
    rewrite (filter_all_false (fun y => y <? key) t) by (intros y Hy; specialize (Hall y Hy); apply Z.ltb_ge; lia).
    rewrite (filter_all_true (fun y => key <? y) t) by (intros y Hy; specialize (Hall y Hy); apply Z.ltb_lt; lia). reflexivity.
  - cbn [orb] in Hm. assert (Hk : In key t) by (apply existsb_exists in Hm; destruct Hm as (y & Hy & E); apply Z.eqb_eq in E; subst; auto).
    specialize (Hall key Hk). destruct (Z.ltb_spec x key); [|lia]. destruct (Z.ltb_spec key x); [lia|].
    cbn [app]. f_equal. apply IH; auto.
Qed.

Lemma through_last l0 x r : Zsorted (l0 ++ [x]) -> through x (l0 ++ x :: r) = l0 ++ [x].
Proof.
  induction l0 as [|a l0 IH]; intros HL; cbn [app through]; [rewrite Z.eqb_refl; reflexivity|].
  inversion HL as [|? ? HL' Hall]; subst. rewrite Forall_forall in Hall.
  assert (a < x) by (apply Hall; apply in_app_iff; right; left; reflexivity).
  destruct (Z.eqb_spec a x); [lia|]. f_equal. apply IH; auto.
Qed.
Lemma after_app_notin c a b : ~ In c a -> after c (a ++ c :: b) = b.
Proof.
  induction a as [|x a IH]; intros H; cbn [app after]; [rewrite Z.eqb_refl; reflexivity|].
  destruct (Z.eqb_spec x c) as [->|_]; [exfalso; apply H; left; reflexivity|]. apply IH. intros H'. apply H. right; auto.
Qed.

Theorem unsplice_pred key l : Zsorted l -> mem key l = true ->
  unsplice (pred key l) key l = lows key l ++ highs key l /\ Zsorted (lows key l ++ highs key l).
Proof.
  intros Hs Hm. pose proof (sorted_split_mem key l Hs Hm) as E. split.
  - unfold unsplice. f_equal.
    + unfold pred. pose proof (lows_sorted key l Hs) as HL.
      destruct (lows key l) as [|a0 lo] eqn:El0; [reflexivity|].
      destruct (@exists_last _ (a0 :: lo) ltac:(discriminate)) as (l0 & x & Ex). rewrite Ex in *.
      rewrite last_or_app. unfold last_or at 1. cbn [fold_left]. rewrite E at 1. rewrite <- app_assoc. cbn [app].
      apply through_last; auto.
    + rewrite E at 1. apply after_app_notin. intros H. apply filter_In in H. destruct H as [_ H]. apply Z.ltb_lt in H. lia.
  - apply sorted_app; [apply lows_sorted; auto|apply highs_sorted; auto|].
    intros x y Hx Hy. apply filter_In in Hx. apply filter_In in Hy. destruct Hx as [_ Hx]. destruct Hy as [_ Hy].
    apply Z.ltb_lt in Hx, Hy. lia.
Qed.

Lemma lows_highs_iff key l : Zsorted l -> forall y, In y (lows key l ++ highs key l) <-> y <> key /\ In y l.
Proof.
  intros Hs y. rewrite in_app_iff. unfold lows, highs. rewrite !filter_In, Z.ltb_lt, Z.ltb_lt. split.
  - intros [[H1 H2]|[H1 H2]]; split; auto; lia.
  - intros [H1 H2]. destruct (Z.lt_ge_cases y key); [left; auto|right; split; auto; lia].
Qed.
Lemma nomem_lows_highs key l : Zsorted l -> mem key l = false -> lows key l ++ highs key l = l.
Proof. intros Hs Hm. symmetry. apply sorted_split; auto. Qed.

(* ---- the search of Remove: update[i] = pred at every level; curLevel = 1 + the top level holding key ---- *)
Lemma rsearch_spec key levels : levels_ok levels -> forall n cur cl,
  (cur = None \/ exists c, cur = Some c /\ In c (nth n levels []) /\ c < key) ->
  rsearch key levels n cur cl =
    (fold_left (fun acc j => if mem key (nth j levels []) && (acc =? 0)%nat then S j else acc) (rev (seq 0 n)) cl,
     map (fun j => pred key (nth j levels [])) (seq 0 n)).
Proof.
  intros [HS HN]. induction n as [|i IH]; intros cur cl Hcur; [reflexivity|]. cbn [rsearch].
  rewrite level_step; auto.
  2:{ destruct Hcur as [->|(c & -> & Hc & Hlt)]; [left; reflexivity|]. right. exists c. repeat split; auto. apply (HN i); auto. }
  rewrite IH.
  - rewrite seq_S, rev_app_distr, map_app. cbn [rev app fold_left map Nat.add]. reflexivity.
  - destruct (pred key (nth i levels [])) as [c|] eqn:Ep; [|left; reflexivity].
    right. exists c. split; auto. apply pred_in in Ep. exact Ep.
Qed.

(* with nested levels, the recorded curLevel bounds exactly the levels that hold key *)
Lemma curLevel_spec key levels : levels_ok levels -> forall n,
  let cl := fold_left (fun acc j => if mem key (nth j levels []) && (acc =? 0)%nat then S j else acc) (rev (seq 0 n)) 0%nat in
  (cl <= n)%nat /\ (forall j, (j < n)%nat -> mem key (nth j levels []) = (j <? cl)%nat).
Proof.
  intros [HS HN]. 
  assert (Hdown : forall j, mem key (nth (S j) levels []) = true -> mem key (nth j levels []) = true).
  { intros j H. unfold mem in *. apply existsb_exists in H. destruct H as (x & Hx & Ex). apply existsb_exists. exists x. split; auto. apply (HN j); auto. }
  assert (Hdown' : forall i j, (j <= i)%nat -> mem key (nth i levels []) = true -> mem key (nth j levels []) = true).
  { induction i as [|i IHi]; intros j Hj H; [replace j with 0%nat by lia; auto|].
    destruct (Nat.eq_dec j (S i)) as [->|]; auto. apply IHi; [lia|]. apply Hdown; auto. }
  assert (Hstay : forall l c, (0 < c)%nat -> fold_left (fun acc j => if mem key (nth j levels []) && (acc =? 0)%nat then S j else acc) l c = c).
  { induction l as [|a l IHl]; intros c Hc; cbn [fold_left]; auto. destruct (Nat.eqb_spec c 0); [lia|]. rewrite andb_false_r. auto. }
  induction n as [|i IH]; cbv zeta; [cbn; split; [lia|intros; lia]|].
  rewrite seq_S, rev_app_distr. cbn [rev app fold_left Nat.add Nat.eqb andb].
  destruct (mem key (nth i levels [])) eqn:Ei; cbn [andb].
  - rewrite Hstay by lia. split; [lia|]. intros j Hj. destruct (Nat.ltb_spec j (S i)); [|lia]. apply (Hdown' i); auto; lia.
  - cbv zeta in IH. destruct IH as [I1 I2]. split; [lia|]. intros j Hj.
    destruct (Nat.eq_dec j i) as [->|Hne]; [|apply I2; lia].
    rewrite Ei. symmetry. apply Nat.ltb_ge. exact I1.
Qed.

Theorem remove_levels_spec key level levels :
  levels_ok levels -> (level <= length levels)%nat -> (forall j, (level <= j)%nat -> nth j levels [] = []) ->
  match remove_levels key level levels with
  | None => mem key (nth 0 levels []) = false \/ level = 0%nat
  | Some levels' =>
      mem key (nth 0 levels []) = true /\ levels_ok levels' /\ length levels' = length levels /\
      (forall j, nth j levels' [] = lows key (nth j levels []) ++ highs key (nth j levels [])) /\
      (forall j, (level <= j)%nat -> nth j levels' [] = [])
  end.
Proof.
  intros Hok Hlv Hemp. pose proof Hok as [HS HN]. unfold remove_levels.
  rewrite rsearch_spec by (auto; left; reflexivity).
  destruct (curLevel_spec key levels Hok level) as [C1 C2]. cbv zeta in C1, C2.
  set (cl := fold_left _ (rev (seq 0 level)) 0%nat) in *.
  destruct (Nat.eqb_spec cl 0) as [E0|Hne].
  - destruct level as [|lv]; [right; reflexivity|left]. rewrite C2 by lia. rewrite E0. reflexivity.
  - assert (Hnth : forall j, nth j (map (fun j0 => if (j0 <? cl)%nat
                  then unsplice (nth j0 (map (fun j1 => pred key (nth j1 levels [])) (seq 0 level)) None) key (nth j0 levels [])
                  else nth j0 levels []) (seq 0 (length levels))) [] = lows key (nth j levels []) ++ highs key (nth j levels [])).
    { intros j. destruct (Nat.lt_ge_cases j (length levels)) as [Hj|Hj].
      - rewrite nth_map_seq by auto. destruct (Nat.ltb_spec j cl) as [Hjc|Hjc].
        + rewrite nth_map_seq by lia. apply unsplice_pred; auto. rewrite C2 by lia. apply Nat.ltb_lt; auto.
        + symmetry. apply nomem_lows_highs; auto.
          destruct (Nat.lt_ge_cases j level); [rewrite C2 by auto; apply Nat.ltb_ge; auto|rewrite Hemp by auto; reflexivity].
      - rewrite nth_overflow by (rewrite map_length, seq_length; auto). rewrite (nth_overflow levels) by auto. reflexivity. }
    split; [rewrite C2 by lia; apply Nat.ltb_lt; lia|]. split; [|split; [rewrite map_length, seq_length; reflexivity|split; auto]].
    + split.
      * intros j. rewrite Hnth. apply sorted_app; [apply lows_sorted; auto|apply highs_sorted; auto|].
        intros x y Hx Hy. apply filter_In in Hx. apply filter_In in Hy. destruct Hx as [_ Hx]. destruct Hy as [_ Hy]. apply Z.ltb_lt in Hx, Hy. lia.
      * intros j x. rewrite !Hnth. rewrite !lows_highs_iff by auto. intros [H1 H2]. split; auto. apply (HN j); auto.
    + intros j Hj. rewrite Hnth, Hemp by auto. reflexivity.
Qed.

(* the level counter only drops past empty levels, so "levels at or above level are empty" survives *)
Lemma shrink_spec levels : forall fuel level, (forall j, (level <= j)%nat -> nth j levels [] = []) ->
  (shrink fuel levels level <= level)%nat /\ (forall j, (shrink fuel levels level <= j)%nat -> nth j levels [] = []) /\
  ((0 < level)%nat -> (0 < shrink fuel levels level)%nat).
Proof.
  induction fuel as [|f IH]; intros level Hemp; cbn [shrink]; [auto|].
  destruct (Nat.ltb_spec 1 level) as [H1|H1]; cbn [andb]; [|auto].
  destruct (nth (level - 1) levels []) eqn:E; [|auto].
  destruct (IH (level - 1)%nat) as (A & B & C).
  - intros j Hj. destruct (Nat.eq_dec j (level - 1)) as [->|]; auto. apply Hemp. lia.
  - split; [lia|]. split; auto. intros _. apply C. lia.
Qed.
Print Assumptions remove_levels_spec.
Print Assumptions shrink_spec.
