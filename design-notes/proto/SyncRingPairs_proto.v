From Coq Require Import List ZArith Lia Bool.
Import ListNotations.
Require Import SyncRing_seq_wrap_proto.
Local Open Scope Z_scope.

(* C01/C10: what n push/pop pairs do to a SyncRing, in closed form.  This licenses the state that the F10
   replay injects instead of performing 2^32 - 2 real pairs: counters at n, every slot's sequence number the
   32-bit image of the position in [n, n + cap) that maps to it. *)
Lemma push_keeps_hd r v r' b : push r v = Some (r', b) -> hd r' = hd r /\ (b = true -> tl r' = tl r + 1).
Proof.
  unfold push. destruct (nth_error _ _) as [[x s]|]; [|discriminate]. destruct (_ =? _); intros E; inversion E; subst; cbn [hd tl]; split; auto; discriminate.
Qed.
Lemma pop_keeps_tl r r' o : pop r = Some (r', o) -> tl r' = tl r.
Proof.
  unfold pop. destruct (nth_error _ _) as [[x s]|]; [|discriminate]. destruct (_ =? _); intros E; inversion E; subst; reflexivity.
Qed.

Lemma pair_step k r v : Inv k r [] ->
  exists r', run r [Push v; Pop] = Some (r', [OPush true; OPop (Some v)]) /\ Inv k r' [] /\ hd r' = hd r + 1.
Proof.
  intros HI. pose proof (inv_cap _ _ _ HI) as Hc. pose proof (inv_k _ _ _ HI) as Hk. destruct (cap_bounds k Hk) as [[H2 _] _].
  destruct (push_spec k r [] v HI) as (r1 & b & E1 & Hb & Ht & _).
  assert (b = true) by (apply Hb; cbn [length]; lia). subst b. specialize (Ht eq_refl). cbn [app] in Ht.
  destruct (pop_spec k r1 [v] Ht) as (r2 & o & E2 & -> & HI2).
  exists r2. cbn [run step]. rewrite E1, E2. split; [reflexivity|]. split; [exact HI2|].
  destruct (push_keeps_hd _ _ _ _ E1) as [Hh1 Ht1]. specialize (Ht1 eq_refl). pose proof (pop_keeps_tl _ _ _ E2) as Ht2.
  pose proof (inv_q _ _ _ HI) as Q0. pose proof (inv_q _ _ _ HI2) as Q2. cbn [length] in *. clear -Hh1 Ht1 Ht2 Q0 Q2. lia.
Qed.

Fixpoint pairs (vs : list Z) : list op := match vs with [] => [] | v :: t => Push v :: Pop :: pairs t end.
Fixpoint pair_outs (vs : list Z) : list out := match vs with [] => [] | v :: t => OPush true :: OPop (Some v) :: pair_outs t end.

Theorem pairs_reach k : forall vs r, Inv k r [] ->
  exists r', run r (pairs vs) = Some (r', pair_outs vs) /\ Inv k r' [] /\ hd r' = hd r + Z.of_nat (length vs).
Proof.
  induction vs as [|v vs IH]; intros r HI.
  - exists r. cbn [pairs run pair_outs length]. split; [reflexivity|split; [exact HI|lia]].
  - destruct (pair_step k r v HI) as (r1 & E1 & HI1 & Hh1). destruct (IH r1 HI1) as (r2 & E2 & HI2 & Hh2).
    exists r2. split; [|split; [exact HI2|cbn [length]; lia]].
    cbn [pairs pair_outs]. cbn [run step] in E1 |- *.
    destruct (push r v) as [[ra ba]|]; [|discriminate]. destruct (pop ra) as [[rb ob]|]; [|discriminate].
    inversion E1; subst. rewrite E2. reflexivity.
Qed.

(* in a quiescent state the slots are determined by the counter *)
Theorem quiescent_slots k r : Inv k r [] -> forall p, hd r <= p < hd r + cap r ->
  exists x, nth_error (slots r) (Z.to_nat (p mod cap r)) = Some (x, u32 p).
Proof. intros HI p Hp. apply (inv_free _ _ _ HI). rewrite (inv_q _ _ _ HI). cbn [length]. lia. Qed.

(* the instance the replay uses: capacity 2, after 2^32 - 2 pairs *)
Corollary injected_state r : Inv 1 r [] -> hd r = 2 ^ 32 - 2 ->
  tl r = 2 ^ 32 - 2 /\ u32 (hd r) = 4294967294 /\
  exists x0 x1, slots r = [(x0, 4294967294); (x1, 4294967295)].
Proof.
  intros HI Hh. pose proof (inv_q _ _ _ HI) as Q. cbn [length] in Q. split; [lia|]. split; [rewrite Hh; reflexivity|].
  pose proof (inv_cap _ _ _ HI) as Hc. pose proof (inv_len _ _ _ HI) as Hl. change (2 ^ 1) with 2 in Hc.
  destruct (quiescent_slots 1 r HI (2 ^ 32 - 2)) as [x0 E0]; [lia|]. destruct (quiescent_slots 1 r HI (2 ^ 32 - 1)) as [x1 E1]; [lia|].
  rewrite Hc in *. change (Z.to_nat ((2 ^ 32 - 2) mod 2)) with 0%nat in E0. change (Z.to_nat ((2 ^ 32 - 1) mod 2)) with 1%nat in E1.
  destruct (slots r) as [|s0 [|s1 [|s2 t]]]; cbn [length] in Hl; try lia. cbn [nth_error] in E0, E1. inversion E0; inversion E1; subst.
  exists x0, x1. reflexivity.
Qed.
Print Assumptions pairs_reach.
Print Assumptions injected_state.
