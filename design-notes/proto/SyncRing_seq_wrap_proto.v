From Coq Require Import List ZArith Lia Bool.
Import ListNotations.
Local Open Scope Z_scope.
Arguments Z.add : simpl never.
Arguments Z.sub : simpl never.
Arguments Z.mul : simpl never.
Arguments Z.modulo : simpl never.
Arguments Z.pow : simpl never.

Definition M32 : Z := 2 ^ 32.
Definition u32 (x : Z) : Z := x mod M32.

Fixpoint upd {A} (l : list A) (i : nat) (x : A) : list A :=
  match l, i with
  | [], _ => []
  | _ :: t, O => x :: t
  | h :: t, S j => h :: upd t j x
  end.

Lemma upd_length {A} (l : list A) i x : length (upd l i x) = length l.
Proof. revert i; induction l as [|a l IH]; intros [|i]; cbn [upd length]; auto. Qed.
Lemma nth_error_upd_eq {A} (l : list A) i x : (i < length l)%nat -> nth_error (upd l i x) i = Some x.
Proof. revert i; induction l as [|a l IH]; intros [|i] H; cbn [upd nth_error length] in *; try lia; auto; apply IH; lia. Qed.
Lemma nth_error_upd_ne {A} (l : list A) i j x : i <> j -> nth_error (upd l i x) j = nth_error l j.
Proof. revert i j; induction l as [|a l IH]; intros [|i] [|j] H; cbn [upd nth_error]; auto; try lia; apply IH; lia. Qed.

(* ---- model of ringz.SyncRing used from one goroutine; hd/tl are unbounded ghosts read only through u32 ---- *)
Record ring := { slots : list (option Z * Z); hd : Z; tl : Z; cap : Z }.

Definition slot_index (r : ring) (pos : Z) : nat := Z.to_nat (pos mod cap r).  (* pos & mask *)

Definition push (r : ring) (v : Z) : option (ring * bool) :=
  let pos := u32 (tl r) in
  let i := slot_index r pos in
  match nth_error (slots r) i with
  | None => None                                        (* index out of range: panic *)
  | Some (_, seq) =>
      if pos =? seq
      then Some ({| slots := upd (slots r) i (Some v, u32 (seq + 1)); hd := hd r; tl := tl r + 1; cap := cap r |}, true)
      else Some (r, false)
  end.

Definition pop (r : ring) : option (ring * option Z) :=
  let pos := u32 (hd r) in
  let i := slot_index r pos in
  match nth_error (slots r) i with
  | None => None
  | Some (val, seq) =>
      if u32 (pos + 1) =? seq
      then Some ({| slots := upd (slots r) i (None, u32 (seq + (cap r - 1))); hd := hd r + 1; tl := tl r; cap := cap r |}, val)
      else Some (r, None)
  end.

Definition len (r : ring) : Z :=
  let l := u32 (u32 (tl r) - u32 (hd r)) in if cap r <? l then cap r else l.

(* ---- invariant ---- *)
Definition val_at (r : ring) (p : Z) : option (option Z * Z) := nth_error (slots r) (Z.to_nat (p mod cap r)).

Record Inv (k : Z) (r : ring) (q : list Z) : Prop := {
  inv_k : 1 <= k <= 31;
  inv_cap : cap r = 2 ^ k;
  inv_len : Z.of_nat (length (slots r)) = cap r;
  inv_hd : 0 <= hd r;
  inv_q : tl r = hd r + Z.of_nat (length q);
  inv_full : Z.of_nat (length q) <= cap r;
  inv_used : forall j, (j < length q)%nat ->
      val_at r (hd r + Z.of_nat j) = Some (Some (nth j q 0), u32 (hd r + Z.of_nat j + 1));
  inv_free : forall p, tl r <= p < hd r + cap r -> exists x, val_at r p = Some (x, u32 p)
}.

(* arithmetic facts about u32 and the capacity *)
Lemma cap_bounds k : 1 <= k <= 31 -> 2 <= 2 ^ k <= 2 ^ 31 /\ M32 = 2 ^ k * 2 ^ (32 - k).
Proof.
  intros H. split.
  - split.
    + change 2 with (2 ^ 1) at 1. apply Z.pow_le_mono_r; lia.
    + apply Z.pow_le_mono_r; lia.
  - unfold M32. rewrite <- Z.pow_add_r by lia. f_equal. lia.
Qed.

Lemma u32_mod_cap k x : 1 <= k <= 31 -> (u32 x) mod 2 ^ k = x mod 2 ^ k.
Proof.
  intros H. destruct (cap_bounds k H) as [_ E]. unfold u32. rewrite E.
  rewrite Z.rem_mul_r by (apply Z.pow_nonzero || idtac; lia || (apply Z.pow_pos_nonneg; lia)).
  rewrite Z.mul_comm, Z.mod_add by (apply Z.pow_nonzero; lia). apply Z.mod_mod. apply Z.pow_nonzero; lia.
Qed.

Lemma u32_inj_near a b : u32 a = u32 b -> - M32 < a - b < M32 -> a = b.
Proof.
  unfold u32, M32. intros H Hn.
  assert (E : (a - b) mod 2 ^ 32 = 0).
  { rewrite Zminus_mod, H, Z.sub_diag. reflexivity. }
  apply Z.mod_divide in E; [|lia]. destruct E as [c Hc].
  assert (c = 0) by nia. lia.
Qed.

Lemma mod_cap_inj c p q : 0 < c -> p mod c = q mod c -> - c < p - q < c -> p = q.
Proof.
  intros Hc H Hn.
  assert (E : (p - q) mod c = 0) by (rewrite Zminus_mod, H, Z.sub_diag; apply Z.mod_0_l; lia).
  apply Z.mod_divide in E; [|lia]. destruct E as [d Hd]. assert (d = 0) by nia. lia.
Qed.

Lemma u32_succ a : u32 (u32 a + 1) = u32 (a + 1).
Proof. unfold u32. rewrite Zplus_mod_idemp_l. reflexivity. Qed.
Lemma u32_add_l a b : u32 (u32 a + b) = u32 (a + b).
Proof. unfold u32. rewrite Zplus_mod_idemp_l. reflexivity. Qed.

Lemma slot_index_lt k r p : 1 <= k <= 31 -> cap r = 2 ^ k -> Z.of_nat (length (slots r)) = cap r ->
  (Z.to_nat (p mod cap r) < length (slots r))%nat.
Proof.
  intros Hk Hc Hl. destruct (cap_bounds k Hk) as [[H2 _] _].
  pose proof (Z.mod_pos_bound p (cap r) ltac:(lia)). lia.
Qed.

Lemma index_ne c p q : 0 < c -> p <> q -> - c < p - q < c -> Z.to_nat (p mod c) <> Z.to_nat (q mod c).
Proof.
  intros Hc Hne Hn E.
  pose proof (Z.mod_pos_bound p c Hc). pose proof (Z.mod_pos_bound q c Hc).
  apply Hne, (mod_cap_inj c); auto. lia.
Qed.

Lemma push_spec k r q v : Inv k r q ->
  exists r' b, push r v = Some (r', b) /\
    (b = true <-> Z.of_nat (length q) < cap r) /\
    (b = true -> Inv k r' (q ++ [v])) /\ (b = false -> r' = r).
Proof.
  intros [Hk Hc Hl Hh Hq Hf Hu Hfr].
  destruct (cap_bounds k Hk) as [[H2 H31] HM].
  unfold push, slot_index.
  rewrite Hc, (u32_mod_cap k _ Hk), <- Hc.
  destruct (Z.eq_dec (Z.of_nat (length q)) (cap r)) as [Efull|Enf].
  - (* full: the slot of tl is the slot of hd, published for hd *)
    assert (Hq0 : (0 < length q)%nat) by lia.
    specialize (Hu 0%nat Hq0). unfold val_at in Hu. rewrite Z.add_0_r in Hu.
    assert (Em : tl r mod cap r = hd r mod cap r).
    { rewrite Hq, Efull. rewrite <- (Z.mul_1_l (cap r)) at 1. apply Z.mod_add. lia. }
    rewrite Em, Hu.
    destruct (u32 (tl r) =? u32 (hd r + 1)) eqn:E.
    + apply Z.eqb_eq in E. apply u32_inj_near in E; [lia|]. unfold M32. rewrite Hq, Efull. lia.
    + exists r, false. repeat split; try discriminate; try lia; auto.
  - assert (Hlt : Z.of_nat (length q) < cap r) by lia.
    destruct (Hfr (tl r) ltac:(lia)) as [x Hx]. unfold val_at in Hx. rewrite Hx, Z.eqb_refl.
    eexists _, true. split; [reflexivity|]. split; [tauto|]. split; [|discriminate]. intros _.
    assert (Hi : (Z.to_nat (tl r mod cap r) < length (slots r))%nat) by (eapply slot_index_lt; eauto).
    constructor; cbn [slots hd tl cap]; auto.
    + rewrite upd_length; auto.
    + rewrite app_length; cbn [length]; lia.
    + rewrite app_length; cbn [length]; lia.
    + intros j Hj. rewrite app_length in Hj; cbn [length] in Hj. unfold val_at; cbn [slots hd cap].
      destruct (Nat.eq_dec j (length q)) as [->|Hne].
      * rewrite <- Hq, nth_error_upd_eq by auto. rewrite app_nth2, Nat.sub_diag by lia. cbn [nth].
        rewrite u32_succ. reflexivity.
      * rewrite nth_error_upd_ne. 2:{ apply index_ne; lia. }
        rewrite app_nth1 by lia. apply Hu. lia.
    + intros p Hp. unfold val_at; cbn [slots cap]. rewrite nth_error_upd_ne. 2:{ apply index_ne; lia. }
      apply Hfr. lia.
Qed.

Lemma pop_spec k r q : Inv k r q ->
  exists r' o, pop r = Some (r', o) /\
    match q with
    | [] => o = None /\ r' = r
    | x :: q' => o = Some x /\ Inv k r' q'
    end.
Proof.
  intros [Hk Hc Hl Hh Hq Hf Hu Hfr].
  destruct (cap_bounds k Hk) as [[H2 H31] HM].
  unfold pop, slot_index.
  rewrite Hc, (u32_mod_cap k _ Hk), <- Hc.
  destruct q as [|x q'].
  - (* empty: slot of hd is free for hd *)
    cbn [length] in *. destruct (Hfr (hd r) ltac:(lia)) as [y Hy]. unfold val_at in Hy. rewrite Hy.
    destruct (u32 (u32 (hd r) + 1) =? u32 (hd r)) eqn:E.
    + apply Z.eqb_eq in E. rewrite u32_succ in E. apply u32_inj_near in E; [lia|]. unfold M32; lia.
    + eexists _, _. split; [reflexivity|]. auto.
  - pose proof (Hu 0%nat ltac:(cbn [length]; lia)) as H0. unfold val_at in H0. rewrite Z.add_0_r in H0.
    cbn [nth] in H0. rewrite H0, u32_succ, Z.eqb_refl.
    eexists _, _. split; [reflexivity|]. split; [reflexivity|].
    assert (Hi : (Z.to_nat (hd r mod cap r) < length (slots r))%nat) by (eapply slot_index_lt; eauto).
    cbn [length] in *.
    constructor; cbn [slots hd tl cap]; auto; try lia.
    + rewrite upd_length; auto.
    + intros j Hj. unfold val_at; cbn [slots hd cap].
      rewrite nth_error_upd_ne. 2:{ apply index_ne; lia. }
      specialize (Hu (S j) ltac:(lia)). unfold val_at in Hu. cbn [nth] in Hu.
      replace (hd r + 1 + Z.of_nat j) with (hd r + Z.of_nat (S j)) by lia. exact Hu.
    + intros p Hp. unfold val_at; cbn [slots cap].
      destruct (Z.eq_dec p (hd r + cap r)) as [->|Hne].
      * replace ((hd r + cap r) mod cap r) with (hd r mod cap r).
        2:{ rewrite <- (Z.mul_1_l (cap r)) at 2. symmetry. apply Z.mod_add. lia. }
        rewrite nth_error_upd_eq by auto. eexists. f_equal. f_equal.
        rewrite u32_add_l. f_equal. lia.
      * rewrite nth_error_upd_ne. 2:{ apply index_ne; lia. }
        apply Hfr. lia.
Qed.

(* ---- refinement to a bounded FIFO for operation sequences of any length ---- *)
Inductive op := Push (v : Z) | Pop.
Inductive out := OPush (b : bool) | OPop (o : option Z).

Definition step (r : ring) (o : op) : option (ring * out) :=
  match o with
  | Push v => match push r v with Some (r', b) => Some (r', OPush b) | None => None end
  | Pop => match pop r with Some (r', x) => Some (r', OPop x) | None => None end
  end.
Fixpoint run (r : ring) (ops : list op) : option (ring * list out) :=
  match ops with
  | [] => Some (r, [])
  | o :: t => match step r o with
              | None => None
              | Some (r', x) => match run r' t with None => None | Some (r'', xs) => Some (r'', x :: xs) end
              end
  end.

Definition fstep (c : Z) (q : list Z) (o : op) : list Z * out :=
  match o with
  | Push v => if Z.of_nat (length q) <? c then (q ++ [v], OPush true) else (q, OPush false)
  | Pop => match q with [] => (q, OPop None) | x :: q' => (q', OPop (Some x)) end
  end.
Fixpoint frun (c : Z) (q : list Z) (ops : list op) : list Z * list out :=
  match ops with
  | [] => (q, [])
  | o :: t => let '(q', x) := fstep c q o in let '(q'', xs) := frun c q' t in (q'', x :: xs)
  end.

Theorem syncring_seq_refines_fifo k : forall ops r q, Inv k r q ->
  exists r', run r ops = Some (r', snd (frun (cap r) q ops)) /\ Inv k r' (fst (frun (cap r) q ops)) /\ cap r' = cap r.
Proof.
  induction ops as [|o ops IH]; intros r q HI.
  - exists r. cbn [run frun fst snd]. auto.
  - cbn [run frun]. destruct o as [v|]; cbn [step fstep].
    + destruct (push_spec k r q v HI) as (r1 & b & E & Hb & Ht & Hf). rewrite E.
      destruct (Z.of_nat (length q) <? cap r) eqn:El.
      * apply Z.ltb_lt in El. assert (b = true) by tauto. subst b.
        assert (Hc1 : cap r1 = cap r) by (rewrite (inv_cap _ _ _ (Ht eq_refl)), (inv_cap _ _ _ HI); reflexivity).
        destruct (IH r1 (q ++ [v]) (Ht eq_refl)) as (r' & Er & HI' & Hc'). rewrite Hc1 in *. rewrite Er.
        destruct (frun (cap r) (q ++ [v]) ops) as [q'' xs] eqn:Ef. cbn [fst snd] in *.
        exists r'. split; [reflexivity|split; assumption].
      * apply Z.ltb_ge in El. assert (b = false) by (destruct b; auto; lia). subst b. rewrite (Hf eq_refl) in *.
        destruct (IH r q HI) as (r' & Er & HI' & Hc'). rewrite Er.
        destruct (frun (cap r) q ops) as [q'' xs] eqn:Ef. cbn [fst snd] in *. exists r'. auto.
    + destruct (pop_spec k r q HI) as (r1 & x & E & Hm). rewrite E. destruct q as [|y q'].
      * destruct Hm as [-> ->]. destruct (IH r [] HI) as (r' & Er & HI' & Hc'). rewrite Er.
        destruct (frun (cap r) [] ops) as [q'' xs] eqn:Ef. cbn [fst snd] in *. exists r'. auto.
      * destruct Hm as [-> HI1].
        assert (Hc1 : cap r1 = cap r) by (rewrite (inv_cap _ _ _ HI1), (inv_cap _ _ _ HI); reflexivity).
        destruct (IH r1 q' HI1) as (r' & Er & HI' & Hc'). rewrite Hc1 in *. rewrite Er.
        destruct (frun (cap r) q' ops) as [q'' xs] eqn:Ef. cbn [fst snd] in *. exists r'. split; [reflexivity|split; assumption].
Qed.

(* the invariant does not care where the counters are: states far beyond 2^32 satisfy it, so the theorem
   above is about them too (non-vacuity across the wrap) *)
Definition fresh_at (k : Z) (n : Z) : ring :=
  {| slots := map (fun i => (None, u32 (n + ((Z.of_nat i - n) mod 2 ^ k)))) (seq 0 (Z.to_nat (2 ^ k)));
     hd := n; tl := n; cap := 2 ^ k |}.
Example wrap_state_ok : exists r, Inv 1 r [] /\ hd r = 2 ^ 32 + 5 /\ slots r = [(None, u32 (2^32+6)); (None, u32 (2^32+5))].
Proof.
  exists {| slots := [(None, u32 (2^32+6)); (None, u32 (2^32+5))]; hd := 2^32+5; tl := 2^32+5; cap := 2 |}.
  split; [|split; reflexivity].
  constructor; cbn [slots hd tl cap length].
  - lia.
  - reflexivity.
  - reflexivity.
  - vm_compute; discriminate.
  - reflexivity.
  - vm_compute; discriminate.
  - intros j Hj. inversion Hj.
  - intros p Hp. assert (p = 2 ^ 32 + 5 \/ p = 2 ^ 32 + 6) as [-> | ->] by lia;
      unfold val_at; cbn [slots cap]; vm_compute; eexists; reflexivity.
Qed.
Print Assumptions syncring_seq_refines_fifo.
