From Coq Require Import List ZArith Lia Bool Arith.
Import ListNotations.
Require Import SyncList_full_proto.

(* C11, race freedom of the non-atomic accesses (node.value is read and cleared by the popper that won the
   head CAS; it is written by the pusher before the node is linked): in every reachable state
   (1) no two goroutines are inside the read/clear window of the same node, and
   (2) the node a pusher has just linked lies beyond head, so no popper's window is on it. *)
Theorem synclist_race_free n sched : let c := run (init n) sched in
  (forall a b p1 p2 m, a <> b -> nth_error (ths c) a = Some p1 -> nth_error (ths c) b = Some p2 ->
     owns p1 = Some m -> owns p2 <> Some m) /\
  (forall a b p1 p2 m k v, nth_error (ths c) a = Some p1 -> nth_error (ths c) b = Some p2 ->
     owns p1 = Some m -> (p2 = PushAdd k v \/ p2 = PushStoreTail k v) -> (m < k)%nat).
Proof.
  cbv zeta. destruct (run_inv sched (init n) (init_inv n)) as [Hht _ _ _ _ _ _ Hu Ht _]. split; [exact Hu|].
  intros a b p1 p2 m k v Ha Hb Ho Hp. rewrite Forall_forall in Ht.
  pose proof (Ht p1 (nth_error_In _ _ Ha)) as T1. pose proof (Ht p2 (nth_error_In _ _ Hb)) as T2.
  assert (Hm : (m <= head (sh (run (init n) sched)))%nat).
  { destruct p1; cbn [owns] in Ho; try discriminate; inversion Ho; subst; cbn [tassert] in T1; tauto. }
  destruct Hp as [-> | ->]; cbn [tassert] in T2; lia.
Qed.
Print Assumptions synclist_race_free.
