From Coq Require Import List Arith Lia Bool.
Import ListNotations.
Require Import DList_heap_proto.

(* listz.DList.move (doubly_list.go:242-252): unlink e, relink it after `at`, in the order of the code.
   It is pointer for pointer remove followed by insert (the cleared links of remove are overwritten, len and
   owner do not change), so the ring theorems of DList_heap_proto carry over. *)
Definition move (h : heap) (e at_ : nat) : option heap :=
  if e =? at_ then Some h else
  match prev h e, next h e with
  | Some p, Some n =>
      let next1 := fupd (next h) p (Some n) in          (* e.prev.next = e.next *)
      let prev1 := fupd (prev h) n (Some p) in          (* e.next.prev = e.prev *)
      let prev2 := fupd prev1 e (Some at_) in           (* e.prev = at *)
      match next1 at_ with
      | None => None
      | Some nx =>
          let next2 := fupd next1 e (Some nx) in        (* e.next = at.next *)
          let next3 := fupd next2 at_ (Some e) in       (* e.prev.next = e *)
          let prev3 := fupd prev2 nx (Some e) in        (* e.next.prev = e *)
          Some {| next := next3; prev := prev3; owner := owner h; len := len h |}
      end
  | _, _ => None
  end.

Definition heq (h1 h2 : heap) : Prop := forall x, next h1 x = next h2 x /\ prev h1 x = prev h2 x.
Lemma links_heq h1 h2 a l b : heq h1 h2 -> links h2 a l b -> links h1 a l b.
Proof. intros H. apply links_frame; intros x _; apply H. Qed.
Lemma cyc_heq h1 h2 l : heq h1 h2 -> cyc h2 l -> cyc h1 l.
Proof. intros H. destruct l as [|x t]; cbn [cyc]; auto. apply links_heq; auto. Qed.

Lemma fupd_twice {A} (f : nat -> A) i x y j : fupd (fupd f i x) i y j = fupd f i y j.
Proof. unfold fupd. destruct (Nat.eqb j i); reflexivity. Qed.

(* move = remove; insert — on the pointers *)
Lemma move_as_remove_insert h e at_ h1 h2 : e <> at_ ->
  remove h e = Some h1 -> insert h1 e at_ = Some h2 ->
  exists hm, move h e at_ = Some hm /\ heq hm h2 /\ len hm = len h /\ owner hm = owner h.
Proof.
  intros Hne Hr Hi. unfold move. destruct (Nat.eqb_spec e at_); [contradiction|].
  unfold remove in Hr. destruct (prev h e) as [p|]; [|discriminate]. destruct (next h e) as [n'|]; [|discriminate].
  inversion Hr; subst h1; clear Hr. unfold insert in Hi. cbn [next prev owner len] in Hi.
  rewrite (fupd_ne _ e at_) in Hi by auto.
  destruct (fupd (next h) p (Some n') at_) as [nx|] eqn:En; [|discriminate]. inversion Hi; subst h2; clear Hi.
  eexists. split; [reflexivity|]. split; [|split; reflexivity].
  intros x. cbn [next prev]. split.
  - unfold fupd at 1 4. destruct (Nat.eqb x at_); [reflexivity|]. apply eq_sym, fupd_twice.
  - unfold fupd at 1 4. destruct (Nat.eqb x nx); [reflexivity|]. apply eq_sym, fupd_twice.
Qed.

(* the ring after a move: e leaves its place (ring rotated so that e is last) and lands right after `at`
   (what is left, rotated so that `at` is last) *)
Theorem move_spec h M p e M2 at_ :
  cyc h ((M ++ [p]) ++ [e]) -> NoDup ((M ++ [p]) ++ [e]) ->
  (forall hh, cyc hh (M ++ [p]) <-> cyc hh (M2 ++ [at_])) -> NoDup (M2 ++ [at_]) -> ~ In e (M2 ++ [at_]) ->
  exists hm, move h e at_ = Some hm /\ cyc hm ((M2 ++ [at_]) ++ [e]) /\ len hm = len h /\ owner hm = owner h.
Proof.
  intros Hc Hnd Hrot Hnd2 Hnin.
  destruct (remove_end h M p e Hc Hnd) as (h1 & Hr & Hc1 & _).
  apply Hrot in Hc1. destruct (insert_end h1 M2 at_ e Hc1 Hnd2 Hnin) as (h2 & Hi & Hc2 & _).
  assert (Hne : e <> at_) by (intros ->; apply Hnin; apply in_app_iff; right; left; reflexivity).
  destruct (move_as_remove_insert h e at_ h1 h2 Hne Hr Hi) as (hm & Hm & Hq & Hl & Ho).
  exists hm. split; [exact Hm|]. split; [eapply cyc_heq; eauto|auto].
Qed.
Print Assumptions move_spec.
