From Coq Require Import List Arith Lia Bool.
Import ListNotations.

(* Heap-level model of listz.DList: next/prev pointers as maps from node ids, id 0 is the sentinel root. *)
Record heap := { next : nat -> option nat; prev : nat -> option nat; owner : nat -> bool; len : nat }.

Definition fupd {A} (f : nat -> A) (i : nat) (x : A) : nat -> A := fun j => if Nat.eqb j i then x else f j.
Lemma fupd_eq {A} (f : nat -> A) i x : fupd f i x i = x.
Proof. unfold fupd. rewrite Nat.eqb_refl. reflexivity. Qed.
Lemma fupd_ne {A} (f : nat -> A) i j x : j <> i -> fupd f i x j = f j.
Proof. unfold fupd. intros H. destruct (Nat.eqb_spec j i); [contradiction|reflexivity]. Qed.

(* l.insert(e, at) — doubly_list.go:215-223, in the order of the code *)
Definition insert (h : heap) (e at_ : nat) : option heap :=
  match next h at_ with
  | None => None                                   (* at.next nil: would dereference nil *)
  | Some nx =>
      let prev1 := fupd (prev h) e (Some at_) in        (* e.prev = at *)
      let next1 := fupd (next h) e (Some nx) in         (* e.next = at.next *)
      let next2 := fupd next1 at_ (Some e) in           (* e.prev.next = e *)
      let prev2 := fupd prev1 nx (Some e) in            (* e.next.prev = e *)
      Some {| next := next2; prev := prev2; owner := fupd (owner h) e true; len := S (len h) |}
  end.

(* l.remove(e) — doubly_list.go:231-238 *)
Definition remove (h : heap) (e : nat) : option heap :=
  match prev h e, next h e with
  | Some p, Some n =>
      let next1 := fupd (next h) p (Some n) in          (* e.prev.next = e.next *)
      let prev1 := fupd (prev h) n (Some p) in          (* e.next.prev = e.prev *)
      Some {| next := fupd next1 e None; prev := fupd prev1 e None; owner := fupd (owner h) e false; len := pred (len h) |}
  | _, _ => None
  end.

(* ---- chains ---- *)
Fixpoint links (h : heap) (a : nat) (l : list nat) (b : nat) : Prop :=
  match l with
  | [] => next h a = Some b /\ prev h b = Some a
  | x :: t => next h a = Some x /\ prev h x = Some a /\ links h x t b
  end.
(* a closed chain through all of l, starting and ending at its head *)
Definition cyc (h : heap) (l : list nat) : Prop := match l with [] => True | x :: t => links h x t x end.

Lemma links_app h a L1 m L2 b : links h a (L1 ++ m :: L2) b <-> links h a L1 m /\ links h m L2 b.
Proof.
  revert a; induction L1 as [|x L1 IH]; intros a; cbn [app links].
  - tauto.
  - rewrite IH. tauto.
Qed.

Lemma cyc_rot h A y B x : cyc h (x :: A ++ y :: B) <-> cyc h (y :: B ++ x :: A).
Proof. cbn [cyc]. rewrite !links_app. tauto. Qed.

(* a chain only looks at next of its sources and prev of its targets *)
Lemma links_frame h h' a l b :
  (forall x, x = a \/ In x l -> next h' x = next h x) ->
  (forall x, x = b \/ In x l -> prev h' x = prev h x) ->
  links h a l b -> links h' a l b.
Proof.
  revert a; induction l as [|x t IH]; intros a Hn Hp; cbn [links].
  - intros [H1 H2]. rewrite Hn, Hp by auto. auto.
  - intros (H1 & H2 & H3). rewrite Hn by auto. rewrite Hp by (right; left; reflexivity). repeat split; auto.
    apply IH; auto.
    + intros y [->|Hy]; apply Hn; right; [left; reflexivity|right; exact Hy].
    + intros y [->|Hy]; apply Hp; [left; reflexivity|right; right; exact Hy].
Qed.

(* ---- insert: with the ring rotated so that at_ is last, e is appended ---- *)
Lemma insert_end h M at_ e :
  cyc h (M ++ [at_]) -> NoDup (M ++ [at_]) -> ~ In e (M ++ [at_]) ->
  exists h', insert h e at_ = Some h' /\ cyc h' ((M ++ [at_]) ++ [e]) /\ len h' = S (len h) /\
    (forall i, owner h' i = if Nat.eqb i e then true else owner h i).
Proof.
  intros Hc Hnd He. unfold insert.
  assert (Hx : exists x, next h at_ = Some x /\ hd at_ M = x).
  { destruct M as [|x M']; cbn [app cyc links hd] in *; [exists at_; tauto|].
    exists x. split; auto. apply links_app in Hc. destruct Hc as [_ Hc]. cbn [links] in Hc. tauto. }
  destruct Hx as (x & Hx & Hhd). rewrite Hx. eexists. split; [reflexivity|]. split; [|split; [reflexivity|]].
  2:{ intros i. cbn [owner]. unfold fupd. reflexivity. }
  assert (Hea : e <> at_) by (intros ->; apply He; apply in_app_iff; right; left; reflexivity).
  destruct M as [|m M']; cbn [app hd] in *.
  - (* ring is just [at_] *)
    subst x. cbn [cyc links next prev]. rewrite fupd_eq, fupd_eq.
    rewrite (fupd_ne _ at_ e) by auto. rewrite fupd_eq. rewrite (fupd_ne _ _ _ _ Hea), fupd_eq. auto.
  - subst x. cbn [cyc] in *. rewrite <- app_assoc. cbn [app]. apply links_app.
    apply links_app in Hc. destruct Hc as [Hc1 Hc2]. cbn [links] in Hc2.
    assert (Hem : e <> m) by (intros ->; apply He; left; reflexivity).
    assert (Hma : m <> at_) by (inversion Hnd as [|? ? Hnin _]; subst; intros ->; apply Hnin; apply in_app_iff; right; left; reflexivity).
    split.
    + eapply links_frame; [| |exact Hc1]; cbn [next prev].
      * intros y Hy. assert (y <> at_ /\ y <> e).
        { split; intros ->.
          - destruct Hy as [E|Hy]; [congruence|]. inversion Hnd as [|? ? _ Hnd']; subst.
            apply NoDup_remove_2 in Hnd'. apply Hnd'. rewrite app_nil_r. exact Hy.
          - apply He. destruct Hy as [->|Hy]; [left; reflexivity|right; apply in_app_iff; left; exact Hy]. }
        rewrite fupd_ne by tauto. rewrite fupd_ne by tauto. reflexivity.
      * intros y Hy. assert (y <> m /\ y <> e).
        { split; intros ->.
          - destruct Hy as [E|Hy]; [congruence|]. inversion Hnd as [|? ? Hnin _]; subst. apply Hnin. apply in_app_iff. left; exact Hy.
          - apply He. destruct Hy as [->|Hy]; [right; apply in_app_iff; right; left; reflexivity|right; apply in_app_iff; left; exact Hy]. }
        rewrite fupd_ne by tauto. rewrite fupd_ne by tauto. reflexivity.
    + cbn [links next prev]. rewrite fupd_eq. rewrite (fupd_ne _ m e) by auto. rewrite fupd_eq.
      rewrite (fupd_ne _ at_ e) by auto. rewrite fupd_eq. rewrite fupd_eq. auto.
Qed.

(* ---- remove: with the ring rotated so that e is last ---- *)
Lemma nodup_last {A} (l : list A) z : NoDup (l ++ [z]) -> NoDup l /\ forall y, In y l -> y <> z.
Proof.
  intros H. split.
  - apply NoDup_remove_1 in H. rewrite app_nil_r in H. exact H.
  - intros y Hy ->. apply NoDup_remove_2 in H. apply H. rewrite app_nil_r. exact Hy.
Qed.

Lemma remove_end h M p e :
  cyc h ((M ++ [p]) ++ [e]) -> NoDup ((M ++ [p]) ++ [e]) ->
  exists h', remove h e = Some h' /\ cyc h' (M ++ [p]) /\ len h' = pred (len h) /\
    next h' e = None /\ prev h' e = None /\ owner h' e = false /\
    (forall i, i <> e -> owner h' i = owner h i).
Proof.
  intros Hc Hnd. unfold remove.
  destruct (nodup_last _ _ Hnd) as [Hnd1 N1]. destruct (nodup_last _ _ Hnd1) as [Hnd2 N2].
  assert (Hep : e <> p) by (intros ->; apply (N1 p); [apply in_app_iff; right; left|]; reflexivity).
  destruct M as [|m M']; cbn [app] in *.
  - cbn [cyc links] in Hc. destruct Hc as (H1 & H2 & H3 & H4). rewrite H2, H3.
    eexists. split; [reflexivity|]. cbn [cyc links next prev owner len].
    rewrite !fupd_eq. rewrite (fupd_ne _ e p) by auto. rewrite fupd_eq. rewrite (fupd_ne _ e p) by auto. rewrite fupd_eq.
    repeat split; auto. intros i Hi. apply fupd_ne; auto.
  - cbn [cyc] in Hc. rewrite <- app_assoc in Hc. cbn [app] in Hc. apply links_app in Hc. destruct Hc as [Hc1 Hc2].
    cbn [links] in Hc2. destruct Hc2 as (H1 & H2 & H3 & H4). rewrite H2, H3.
    assert (Hem : e <> m) by (intros ->; apply (N1 m); [left|]; reflexivity).
    assert (Hmp : m <> p) by (apply N2; left; reflexivity).
    assert (N3 : forall y, In y (M' ++ [p]) -> y <> m) by (inversion Hnd1 as [|? ? Hnin _]; subst; intros y Hy ->; contradiction).
    eexists. split; [reflexivity|]. cbn [owner len next prev].
    rewrite !fupd_eq. split; [|repeat split; auto; intros i Hi; apply fupd_ne; auto].
    cbn [cyc]. apply links_app. split.
    + eapply links_frame; [| |exact Hc1]; cbn [next prev].
      * intros y Hy.
        assert (y <> e) by (apply N1; destruct Hy as [->|Hy]; [left; reflexivity|right; apply in_app_iff; left; exact Hy]).
        assert (y <> p) by (apply N2; destruct Hy as [->|Hy]; [left; reflexivity|right; exact Hy]).
        rewrite fupd_ne by auto. rewrite fupd_ne by auto. reflexivity.
      * intros y Hy.
        assert (y <> e) by (apply N1; destruct Hy as [->|Hy]; [right; apply in_app_iff; right; left; reflexivity|right; apply in_app_iff; left; exact Hy]).
        assert (y <> m) by (apply N3; destruct Hy as [->|Hy]; [apply in_app_iff; right; left; reflexivity|apply in_app_iff; left; exact Hy]).
        rewrite fupd_ne by auto. rewrite fupd_ne by auto. reflexivity.
    + cbn [links next prev].
      rewrite (fupd_ne _ e p) by auto. rewrite fupd_eq. rewrite (fupd_ne _ e m) by auto. rewrite fupd_eq. auto.
Qed.
Print Assumptions insert_end.
Print Assumptions remove_end.
