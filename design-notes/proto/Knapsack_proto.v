From Coq Require Import List ZArith Lia Bool Arith Sorted.
Import ListNotations.

(* Model of algz.Knapsack (dp.go:118-149): table of (score, chosen indices) per capacity,
   inner loop from maxWeight down to w, updating the table in place. *)
Record cell := { score : Z; sel : list nat }.
Definition d0 : cell := {| score := 0; sel := [] |}.

Fixpoint upd (l : list cell) (i : nat) (x : cell) : list cell :=
  match l, i with
  | [], _ => []
  | _ :: t, O => x :: t
  | h :: t, S j => h :: upd t j x
  end.
Lemma upd_length l i x : length (upd l i x) = length l.
Proof. revert i; induction l as [|a l IH]; intros [|i]; cbn [upd length]; auto. Qed.
Lemma nth_upd_eq l i x : i < length l -> nth i (upd l i x) d0 = x.
Proof. revert i; induction l as [|a l IH]; intros [|i] H; cbn [upd nth length] in *; try lia; auto; apply IH; lia. Qed.
Lemma nth_upd_ne l i j x : i <> j -> nth j (upd l i x) d0 = nth j l d0.
Proof. revert i j; induction l as [|a l IH]; intros [|i] [|j] H; cbn [upd nth]; auto; try lia; apply IH; lia. Qed.

Definition item := (nat * Z)%type.             (* weight, value *)

Definition cell_step (w : nat) (v : Z) (idx : nat) (dp : list cell) (i : nat) : list cell :=
  let a := nth (i - w) dp d0 in
  let b := nth i dp d0 in
  if (score b <? score a + v)%Z then upd dp i {| score := (score a + v)%Z; sel := sel a ++ [idx] |} else dp.

(* for i := W; i >= w; i-- *)
Definition inner (W w : nat) (v : Z) (idx : nat) (dp : list cell) : list cell :=
  fold_left (cell_step w v idx) (rev (seq w (S W - w))) dp.

Fixpoint outer (W : nat) (items : list item) (idx : nat) (dp : list cell) : list cell :=
  match items with
  | [] => dp
  | (w, v) :: t => outer W t (S idx) (inner W w v idx dp)
  end.
Definition knapsack (W : nat) (items : list item) : list nat :=
  sel (nth W (outer W items 0 (repeat d0 (S W))) d0).

(* ---- specification vocabulary ---- *)
Section Spec.
Variable items : list item.
Definition wt (i : nat) : nat := fst (nth i items (0, 0%Z)).
Definition vl (i : nat) : Z := snd (nth i items (0, 0%Z)).
Definition weight (s : list nat) : nat := fold_right (fun i a => wt i + a) 0 s.
Definition value (s : list nat) : Z := fold_right (fun i a => (vl i + a)%Z) 0%Z s.

(* a selection among the first k items: strictly increasing indices below k (each item at most once) *)
Definition valid (k c : nat) (s : list nat) : Prop :=
  StronglySorted lt s /\ Forall (fun i => i < k) s /\ weight s <= c.

Lemma weight_app a b : weight (a ++ b) = weight a + weight b.
Proof. induction a; cbn [app weight fold_right] in *; [reflexivity|]. unfold weight in *. lia. Qed.
Lemma value_app a b : value (a ++ b) = (value a + value b)%Z.
Proof. induction a; cbn [app value fold_right] in *; [reflexivity|]. unfold value in *. lia. Qed.

Lemma sorted_snoc s k : StronglySorted lt s -> Forall (fun i => i < k) s -> StronglySorted lt (s ++ [k]).
Proof.
  induction s as [|a s IH]; intros Hs Hk; cbn [app].
  - repeat constructor.
  - inversion Hs; subst. inversion Hk; subst. constructor; [apply IH; auto|].
    apply Forall_app. split; auto.
Qed.

(* a valid selection for k+1 either avoids item k or ends with it *)
Lemma valid_split k c s : valid (S k) c s ->
  valid k c s \/ exists s', s = s' ++ [k] /\ valid k (c - wt k) s' /\ wt k <= c.
Proof.
  intros (Hs & Hk & Hw). destruct (in_dec Nat.eq_dec k s) as [Hin|Hnin].
  - right. destruct (exists_last (l := s)) as (s' & x & ->); [intros ->; contradiction|].
    assert (x = k).
    { apply in_app_iff in Hin. destruct Hin as [Hin | [<- | []]]; auto.
      (* k in s' but x after it and x <= k: contradiction with strict sortedness *)
      assert (Hx : x < S k) by (rewrite Forall_forall in Hk; apply Hk; apply in_app_iff; right; left; reflexivity).
      assert (k < x).
      { clear -Hs Hin. induction s' as [|a s' IH]; [contradiction|]. cbn [app] in Hs. inversion Hs; subst.
        destruct Hin as [-> | Hin]; [|apply IH; auto].
        rewrite Forall_forall in H2. apply H2. apply in_app_iff. right. left. reflexivity. }
      lia. }
    subst x. exists s'. split; [reflexivity|]. rewrite weight_app in Hw. cbn [weight fold_right] in Hw.
    split; [|lia]. repeat split.
    + clear -Hs. induction s' as [|a s' IH]; [constructor|]. cbn [app] in Hs. inversion Hs; subst. constructor; [apply IH; auto|].
      apply Forall_app in H2. tauto.
    + apply Forall_forall. intros i Hi.
      assert (i < k \/ i = k) by (rewrite Forall_forall in Hk; specialize (Hk i ltac:(apply in_app_iff; left; exact Hi)); lia).
      destruct H as [H | ->]; auto. exfalso.
      clear -Hs Hi. induction s' as [|a s' IH]; [contradiction|]. cbn [app] in Hs. inversion Hs; subst.
      destruct Hi as [-> | Hi]; [|apply IH; auto].
      rewrite Forall_forall in H2. specialize (H2 k ltac:(apply in_app_iff; right; left; reflexivity)). lia.
    + lia.
  - left. repeat split; auto. apply Forall_forall. intros i Hi.
    assert (i < S k) by (rewrite Forall_forall in Hk; apply Hk; auto).
    assert (i <> k) by (intros ->; contradiction). lia.
Qed.

(* table invariant after the first k items *)
Definition table_ok (W k : nat) (dp : list cell) : Prop :=
  length dp = S W /\
  forall c, c <= W ->
    let x := nth c dp d0 in
    valid k c (sel x) /\ value (sel x) = score x /\ (forall s, valid k c s -> (value s <= score x)%Z).

Lemma valid_mono k c s : valid k c s -> valid (S k) c s.
Proof. intros (H1 & H2 & H3). repeat split; auto. eapply Forall_impl; [|exact H2]. cbn beta. intros; lia. Qed.
End Spec.

(* what one round writes into cell c *)
Definition newcell (w : nat) (v : Z) (k : nat) (old : list cell) (c : nat) : cell :=
  let a := nth (c - w) old d0 in let b := nth c old d0 in
  if (score b <? score a + v)%Z then {| score := (score a + v)%Z; sel := sel a ++ [k] |} else b.

(* the descending in-place loop reads only cells it has not overwritten yet *)
Lemma inner_fold W w v k old : forall L T,
  StronglySorted gt L -> length T = S W -> (forall i, In i L -> i <= W) ->
  (forall c, (exists i, In i L /\ c <= i) -> nth c T d0 = nth c old d0) ->
  let R := fold_left (cell_step w v k) L T in
  length R = S W /\ (forall c, In c L -> nth c R d0 = newcell w v k old c) /\ (forall c, ~ In c L -> nth c R d0 = nth c T d0).
Proof.
  induction L as [|i L IH]; intros T Hs Hlen HW Hold; cbn [fold_left].
  - repeat split; auto. intros c [].
  - inversion Hs as [|? ? Hs' Hgt]; subst.
    assert (Hi : i <= W) by (apply HW; left; reflexivity).
    assert (E1 : nth (i - w) T d0 = nth (i - w) old d0) by (apply Hold; exists i; split; [left; reflexivity|lia]).
    assert (E2 : nth i T d0 = nth i old d0) by (apply Hold; exists i; split; [left; reflexivity|lia]).
    set (T1 := cell_step w v k T i).
    assert (HT1 : length T1 = S W /\ nth i T1 d0 = newcell w v k old i /\ forall c, c <> i -> nth c T1 d0 = nth c T d0).
    { unfold T1, cell_step, newcell. rewrite E1, E2.
      destruct (score (nth i old d0) <? score (nth (i - w) old d0) + v)%Z.
      - rewrite upd_length. split; auto. split; [apply nth_upd_eq; lia|]. intros c Hc. apply nth_upd_ne; auto.
      - split; auto. }
    destruct HT1 as (L1 & L2 & L3).
    destruct (IH T1 Hs' L1) as (R1 & R2 & R3).
    + intros j Hj. apply HW. right; auto.
    + intros c (j & Hj & Hcj). rewrite Forall_forall in Hgt. specialize (Hgt j Hj).
      rewrite L3 by lia. apply Hold. exists j. split; [right; auto|auto].
    + split; [exact R1|]. split.
      * intros c [E|Hc]; [subst c|apply R2; auto].
        rewrite R3; auto. intros Hin. rewrite Forall_forall in Hgt. specialize (Hgt i Hin). lia.
      * intros c Hc. rewrite R3 by (intros H; apply Hc; right; auto). apply L3. intros ->. apply Hc. left; reflexivity.
Qed.

Lemma desc_sorted w n : StronglySorted gt (rev (seq w n)).
Proof.
  revert w; induction n as [|n IH]; intros w; cbn [seq rev]; [constructor|].
  rewrite <- seq_shift. (* seq (S w) n = map S (seq w n) *)
  assert (G : forall l x, StronglySorted gt l -> Forall (fun y => y > x) l -> StronglySorted gt (l ++ [x])).
  { induction l as [|a l IHl]; intros x Hs Hx; cbn [app]; [repeat constructor|].
    inversion Hs; subst. inversion Hx; subst. constructor; [apply IHl; auto|]. apply Forall_app. split; auto. }
  rewrite seq_shift. apply G; [apply IH|]. apply Forall_forall. intros y Hy. rewrite <- in_rev in Hy. apply in_seq in Hy. lia.
Qed.

Section Round.
Variable items : list item.
Variables W k w : nat.
Variable v : Z.
Hypothesis Hitem : nth k items (0, 0%Z) = (w, v).

Lemma round_ok old : table_ok items W k old -> table_ok items W (S k) (inner W w v k old).
Proof.
  intros [Hlen Hok]. unfold inner.
  destruct (inner_fold W w v k old (rev (seq w (S W - w))) old) as (R1 & R2 & R3); auto.
  - apply desc_sorted.
  - intros i Hi. rewrite <- in_rev in Hi. apply in_seq in Hi. lia.
  - split; [exact R1|]. intros c Hc.
    assert (Hwt : wt items k = w) by (unfold wt; rewrite Hitem; reflexivity).
    assert (Hvl : vl items k = v) by (unfold vl; rewrite Hitem; reflexivity).
    destruct (le_lt_dec w c) as [Hwc|Hcw].
    + rewrite R2 by (rewrite <- in_rev; apply in_seq; lia). unfold newcell.
      destruct (Hok c Hc) as (Vc & Ec & Oc). destruct (Hok (c - w) ltac:(lia)) as (Va & Ea & Oa). cbv zeta in *.
      destruct (Z.ltb_spec (score (nth c old d0)) (score (nth (c - w) old d0) + v)) as [Hlt|Hge]; cbn [sel score].
      * split; [|split].
        -- destruct Va as (S1 & S2 & S3). repeat split.
           ++ apply sorted_snoc; auto.
           ++ apply Forall_app. split; [eapply Forall_impl; [|exact S2]; cbn beta; intros; lia|repeat constructor].
           ++ rewrite weight_app. cbn [weight fold_right]. lia.
        -- rewrite value_app. cbn [value fold_right]. lia.
        -- intros s Hs. destruct (valid_split items k c s Hs) as [Hv|(s' & -> & Hv' & _)].
           ++ specialize (Oc s Hv). lia.
           ++ rewrite Hwt in Hv'. specialize (Oa s' Hv'). rewrite value_app. cbn [value fold_right]. lia.
      * split; [apply valid_mono; auto|]. split; [exact Ec|].
        intros s Hs. destruct (valid_split items k c s Hs) as [Hv|(s' & -> & Hv' & _)].
        -- apply Oc; auto.
        -- rewrite Hwt in Hv'. specialize (Oa s' Hv'). rewrite value_app. cbn [value fold_right]. lia.
    + rewrite R3 by (intros Hin; rewrite <- in_rev in Hin; apply in_seq in Hin; lia).
      destruct (Hok c Hc) as (Vc & Ec & Oc). cbv zeta in *.
      split; [apply valid_mono; auto|]. split; [exact Ec|].
      intros s Hs. destruct (valid_split items k c s Hs) as [Hv|(s' & -> & _ & Hle)]; [apply Oc; auto|].
      rewrite Hwt in Hle. lia.
Qed.
End Round.

Lemma outer_ok items W : forall rest k dp,
  (forall j, j < length rest -> nth (k + j) items (0, 0%Z) = nth j rest (0, 0%Z)) ->
  table_ok items W k dp -> table_ok items W (k + length rest) (outer W rest k dp).
Proof.
  induction rest as [|[w v] rest IH]; intros k dp Hnth Hok; cbn [outer length].
  - rewrite Nat.add_0_r. exact Hok.
  - replace (k + S (length rest)) with (S k + length rest) by lia. apply IH.
    + intros j Hj. replace (S k + j) with (k + S j) by lia. rewrite Hnth by (cbn [length]; lia). reflexivity.
    + apply round_ok; auto. specialize (Hnth 0 ltac:(cbn [length]; lia)). rewrite Nat.add_0_r in Hnth. exact Hnth.
Qed.

Lemma init_ok items W : table_ok items W 0 (repeat d0 (S W)).
Proof.
  split; [apply repeat_length|]. intros c Hc.
  assert (E : nth c (repeat d0 (S W)) d0 = d0) by (apply nth_repeat). rewrite E. cbn [sel score d0].
  split; [repeat split; [constructor|constructor|cbn; lia]|]. split; [reflexivity|].
  intros s (_ & Hk & _). destruct s as [|i s]; [cbn; lia|]. inversion Hk; subst. lia.
Qed.

(* C18, Knapsack: each item at most once, within the limit, and no feasible selection is worth more *)
Theorem knapsack_optimal items W :
  let r := knapsack W items in
  valid items (length items) W r /\ forall s, valid items (length items) W s -> (value items s <= value items r)%Z.
Proof.
  cbv zeta. unfold knapsack.
  pose proof (outer_ok items W items 0 (repeat d0 (S W)) ltac:(intros; reflexivity) (init_ok items W)) as [_ H].
  cbn [Nat.add] in H. destruct (H W (le_n _)) as (Hv & He & Ho). cbv zeta in *.
  split; [exact Hv|]. intros s Hs. rewrite He. apply Ho. exact Hs.
Qed.
Print Assumptions knapsack_optimal.
