From Coq Require Import List ZArith Lia Bool.
Import ListNotations.
Local Open Scope Z_scope.
Arguments Z.mul : simpl never.
Arguments Z.add : simpl never.
Arguments Z.sub : simpl never.
Arguments Z.div : simpl never.
Arguments Z.modulo : simpl never.

(* Model of unicode/utf8: EncodeRune and DecodeRune(InString) with Go's accept ranges. *)
Definition RuneError : Z := 65533.
Definition valid_scalar (r : Z) : Prop := (0 <= r < 55296) \/ (57344 <= r <= 1114111).

Definition encode (r : Z) : list Z :=
  if r <? 128 then [r]
  else if r <? 2048 then [192 + r / 64; 128 + r mod 64]
  else if r <? 65536 then [224 + r / 4096; 128 + (r / 64) mod 64; 128 + r mod 64]
  else [240 + r / 262144; 128 + (r / 4096) mod 64; 128 + (r / 64) mod 64; 128 + r mod 64].

Definition cont (b : Z) : bool := (128 <=? b) && (b <=? 191).
Definition inr (lo hi b : Z) : bool := (lo <=? b) && (b <=? hi).

(* returns (rune, width); on any malformed prefix: (RuneError, 1); on empty input (RuneError, 0) *)
Definition decode (s : list Z) : Z * nat :=
  match s with
  | [] => (RuneError, 0%nat)
  | b0 :: t =>
      if b0 <? 128 then (b0, 1%nat)
      else if inr 194 223 b0 then
        match t with
        | b1 :: _ => if cont b1 then ((b0 mod 32) * 64 + b1 mod 64, 2%nat) else (RuneError, 1%nat)
        | _ => (RuneError, 1%nat)
        end
      else if inr 224 239 b0 then
        match t with
        | b1 :: b2 :: _ =>
            let lo := if b0 =? 224 then 160 else 128 in
            let hi := if b0 =? 237 then 159 else 191 in
            if inr lo hi b1 && cont b2 then ((b0 mod 16) * 4096 + (b1 mod 64) * 64 + b2 mod 64, 3%nat) else (RuneError, 1%nat)
        | _ => (RuneError, 1%nat)
        end
      else if inr 240 244 b0 then
        match t with
        | b1 :: b2 :: b3 :: _ =>
            let lo := if b0 =? 240 then 144 else 128 in
            let hi := if b0 =? 244 then 143 else 191 in
            if inr lo hi b1 && cont b2 && cont b3
            then ((b0 mod 8) * 262144 + (b1 mod 64) * 4096 + (b2 mod 64) * 64 + b3 mod 64, 4%nat) else (RuneError, 1%nat)
        | _ => (RuneError, 1%nat)
        end
      else (RuneError, 1%nat)
  end.

Ltac arith := Z.div_mod_to_equations; lia.

Theorem decode_encode r t : valid_scalar r -> decode (encode r ++ t) = (r, length (encode r)).
Proof.
  intros Hv. unfold encode.
  destruct (Z.ltb_spec r 128) as [H1|H1].
  - cbn [app decode]. destruct (Z.ltb_spec r 128); [reflexivity|lia].
  - destruct (Z.ltb_spec r 2048) as [H2|H2].
    + cbn [app decode length]. 
      assert (B0 : 194 <= 192 + r / 64 <= 223) by arith.
      assert (B1 : 128 <= 128 + r mod 64 <= 191) by arith.
      destruct (Z.ltb_spec (192 + r / 64) 128); [lia|].
      unfold inr, cont.
      destruct (Z.leb_spec 194 (192 + r / 64)); [|lia]. destruct (Z.leb_spec (192 + r / 64) 223); [|lia]. cbn [andb].
      destruct (Z.leb_spec 128 (128 + r mod 64)); [|lia]. destruct (Z.leb_spec (128 + r mod 64) 191); [|lia]. cbn [andb].
      f_equal. arith.
    + destruct (Z.ltb_spec r 65536) as [H3|H3].
      * cbn [app decode length].
        assert (B0 : 224 <= 224 + r / 4096 <= 239) by arith.
        assert (B1 : 128 <= 128 + (r / 64) mod 64 <= 191) by arith.
        assert (B2 : 128 <= 128 + r mod 64 <= 191) by arith.
        destruct (Z.ltb_spec (224 + r / 4096) 128); [lia|].
        unfold inr, cont.
        destruct (Z.leb_spec 194 (224 + r / 4096)); [|lia]. destruct (Z.leb_spec (224 + r / 4096) 223); [lia|]. cbn [andb].
        destruct (Z.leb_spec 224 (224 + r / 4096)); [|lia]. destruct (Z.leb_spec (224 + r / 4096) 239); [|lia]. cbn [andb].
        assert (L : (if 224 + r / 4096 =? 224 then 160 else 128) <= 128 + (r / 64) mod 64).
        { destruct (Z.eqb_spec (224 + r / 4096) 224); [|lia]. arith. }
        assert (U : 128 + (r / 64) mod 64 <= (if 224 + r / 4096 =? 237 then 159 else 191)).
        { destruct (Z.eqb_spec (224 + r / 4096) 237); [|lia]. destruct Hv; arith. }
        destruct (Z.leb_spec (if 224 + r / 4096 =? 224 then 160 else 128) (128 + (r / 64) mod 64)); [|lia].
        destruct (Z.leb_spec (128 + (r / 64) mod 64) (if 224 + r / 4096 =? 237 then 159 else 191)); [|lia]. cbn [andb].
        destruct (Z.leb_spec 128 (128 + r mod 64)); [|lia]. destruct (Z.leb_spec (128 + r mod 64) 191); [|lia]. cbn [andb].
        f_equal. arith.
      * cbn [app decode length].
        assert (Hr : r <= 1114111) by (destruct Hv; lia).
        assert (B0 : 240 <= 240 + r / 262144 <= 244) by arith.
        assert (B1 : 128 <= 128 + (r / 4096) mod 64 <= 191) by arith.
        assert (B2 : 128 <= 128 + (r / 64) mod 64 <= 191) by arith.
        assert (B3 : 128 <= 128 + r mod 64 <= 191) by arith.
        destruct (Z.ltb_spec (240 + r / 262144) 128); [lia|].
        unfold inr, cont.
        destruct (Z.leb_spec 194 (240 + r / 262144)); [|lia]. destruct (Z.leb_spec (240 + r / 262144) 223); [lia|]. cbn [andb].
        destruct (Z.leb_spec 224 (240 + r / 262144)); [|lia]. destruct (Z.leb_spec (240 + r / 262144) 239); [lia|]. cbn [andb].
        destruct (Z.leb_spec 240 (240 + r / 262144)); [|lia]. destruct (Z.leb_spec (240 + r / 262144) 244); [|lia]. cbn [andb].
        assert (L : (if 240 + r / 262144 =? 240 then 144 else 128) <= 128 + (r / 4096) mod 64).
        { destruct (Z.eqb_spec (240 + r / 262144) 240); [|lia]. arith. }
        assert (U : 128 + (r / 4096) mod 64 <= (if 240 + r / 262144 =? 244 then 143 else 191)).
        { destruct (Z.eqb_spec (240 + r / 262144) 244); [|lia]. arith. }
        destruct (Z.leb_spec (if 240 + r / 262144 =? 240 then 144 else 128) (128 + (r / 4096) mod 64)); [|lia].
        destruct (Z.leb_spec (128 + (r / 4096) mod 64) (if 240 + r / 262144 =? 244 then 143 else 191)); [|lia]. cbn [andb].
        destruct (Z.leb_spec 128 (128 + (r / 64) mod 64)); [|lia]. destruct (Z.leb_spec (128 + (r / 64) mod 64) 191); [|lia]. cbn [andb].
        destruct (Z.leb_spec 128 (128 + r mod 64)); [|lia]. destruct (Z.leb_spec (128 + r mod 64) 191); [|lia]. cbn [andb].
        f_equal. arith.
Qed.

(* decoding always consumes at least one byte of non-empty input and at most four: cursors always advance *)
Lemma decode_width s : s <> [] -> (1 <= snd (decode s) <= 4)%nat /\ (snd (decode s) <= length s)%nat.
Proof.
  intros Hs. destruct s as [|b0 t]; [congruence|]. cbn [decode].
  destruct (b0 <? 128); [cbn; lia|].
  destruct (inr 194 223 b0).
  - destruct t as [|b1 t]; [cbn; lia|]. destruct (cont b1); cbn; lia.
  - destruct (inr 224 239 b0).
    + destruct t as [|b1 [|b2 t]]; try (cbn; lia).
      match goal with |- context [if ?c then _ else _] => destruct c end; cbn; lia.
    + destruct (inr 240 244 b0); [|cbn; lia].
      destruct t as [|b1 [|b2 [|b3 t]]]; try (cbn; lia).
      match goal with |- context [if ?c then _ else _] => destruct c end; cbn; lia.
Qed.
Print Assumptions decode_encode.
