From Coq Require Import List ZArith Lia Bool.
Import ListNotations.
Local Open Scope Z_scope.
Arguments Z.mul : simpl never.
Arguments Z.add : simpl never.
Arguments Z.sub : simpl never.
Arguments Z.div : simpl never.
Arguments Z.modulo : simpl never.
Arguments Z.pow : simpl never.

(* ---- randz.IdGenerator: id = (ms & (2^41-1)) << randBit | rnd ---- *)
Definition clamp_bits (rb : Z) : Z := if rb <=? 1 then 16 else if 22 <? rb then 22 else rb.
Definition id_of (ms rnd rb : Z) : Z := (ms mod 2 ^ 41) * 2 ^ (clamp_bits rb) + rnd.   (* disjoint bits: | is + *)

Lemma clamp_range rb : 2 <= clamp_bits rb <= 22.
Proof. unfold clamp_bits. destruct (Z.leb_spec rb 1); [lia|]. destruct (Z.ltb_spec 22 rb); lia. Qed.

Theorem id_layout ms rnd rb : 0 <= rnd < 2 ^ clamp_bits rb ->
  0 <= id_of ms rnd rb < 2 ^ 63 /\
  id_of ms rnd rb / 2 ^ clamp_bits rb = ms mod 2 ^ 41 /\
  id_of ms rnd rb mod 2 ^ clamp_bits rb = rnd.
Proof.
  intros Hr. pose proof (clamp_range rb) as Hc. unfold id_of.
  set (b := clamp_bits rb) in *. set (t := ms mod 2 ^ 41).
  assert (Ht : 0 <= t < 2 ^ 41) by (apply Z.mod_pos_bound; apply Z.pow_pos_nonneg; lia).
  assert (Hb : 0 < 2 ^ b) by (apply Z.pow_pos_nonneg; lia).
  assert (Hb22 : 2 ^ b <= 2 ^ 22) by (apply Z.pow_le_mono_r; lia).
  assert (H63 : 2 ^ 41 * 2 ^ 22 = 2 ^ 63) by reflexivity.
  split; [|split].
  - split; [nia|]. assert (t * 2 ^ b + rnd < (t + 1) * 2 ^ b) by nia. assert ((t + 1) * 2 ^ b <= 2 ^ 41 * 2 ^ 22) by nia. lia.
  - rewrite Z.div_add_l by lia. rewrite Z.div_small by lia. lia.
  - rewrite Z.add_comm, Z.mod_add by lia. apply Z.mod_small. lia.
Qed.

(* ids taken at least a millisecond apart (within the 41-bit range) are increasing, whatever the random parts *)
Theorem id_monotone ms1 ms2 r1 r2 rb : 0 <= ms1 < ms2 -> ms2 < 2 ^ 41 ->
  0 <= r1 < 2 ^ clamp_bits rb -> 0 <= r2 < 2 ^ clamp_bits rb -> id_of ms1 r1 rb < id_of ms2 r2 rb.
Proof.
  intros H1 H2 Hr1 Hr2. unfold id_of. rewrite !Z.mod_small by lia.
  pose proof (clamp_range rb). assert (0 < 2 ^ clamp_bits rb) by (apply Z.pow_pos_nonneg; lia). nia.
Qed.

(* ---- randz.CountGenerator.Generate / Min / Max over rules sorted by period ---- *)
Record rule := { period : Z; end_max : Z; interval : Z; int_max : Z }.
Definition get_rand (hn mx : Z) : Z := if mx =? 0 then 0 else hn mod mx + 1.

(* the loop of Generate with the multiplier/end increment chosen by f/g (Generate: hashed; Min: 1; Max: the maxima) *)
Fixpoint walk (f g : rule -> Z) (rules : list rule) (diff count last : Z) : Z :=
  match rules with
  | [] => count
  | r :: t => if diff <? period r then (diff - last) / interval r * f r + count
              else walk f g t diff (count + (period r - last) / interval r * f r + g r) (period r)
  end.
Definition generate (hn : Z) (rules : list rule) (diff : Z) : Z :=
  if diff <=? 0 then 0 else walk (fun r => get_rand hn (int_max r)) (fun r => get_rand hn (end_max r)) rules diff 0 0.
Definition gmin (rules : list rule) (diff : Z) : Z := if diff <=? 0 then 0 else walk (fun _ => 1) (fun _ => 1) rules diff 0 0.
Definition gmax (rules : list rule) (diff : Z) : Z := if diff <=? 0 then 0 else walk int_max end_max rules diff 0 0.

Definition positive (r : rule) : Prop := 0 < period r /\ 0 < end_max r /\ 0 < interval r /\ 0 < int_max r.
Fixpoint sorted_from (last : Z) (rules : list rule) : Prop :=
  match rules with [] => True | r :: t => last <= period r /\ sorted_from (period r) t end.

Lemma get_rand_range hn mx : 0 < mx -> 1 <= get_rand hn mx <= mx.
Proof. intros H. unfold get_rand. destruct (Z.eqb_spec mx 0); [lia|]. pose proof (Z.mod_pos_bound hn mx H). lia. Qed.

(* pointwise comparison of two walks whose multipliers are ordered *)
Lemma walk_le (f1 g1 f2 g2 : rule -> Z) : forall rules diff c1 c2 last,
  Forall positive rules -> sorted_from last rules -> last <= diff -> c1 <= c2 ->
  (forall r, positive r -> 0 <= f1 r <= f2 r /\ 0 <= g1 r <= g2 r) ->
  walk f1 g1 rules diff c1 last <= walk f2 g2 rules diff c2 last.
Proof.
  induction rules as [|r t IH]; intros diff c1 c2 last Hp Hs Hd Hc Hfg; cbn [walk]; [lia|].
  inversion Hp as [|? ? Hr Ht]; subst. destruct Hs as [Hl Hs]. destruct (Hfg r Hr) as [Hf Hg]. destruct Hr as (P1 & P2 & P3 & P4).
  destruct (Z.ltb_spec diff (period r)).
  - assert (0 <= (diff - last) / interval r) by (apply Z.div_pos; lia). nia.
  - apply IH; auto; try lia.
    assert (0 <= (period r - last) / interval r) by (apply Z.div_pos; lia). nia.
Qed.

Theorem count_bounds hn rules diff : Forall positive rules -> sorted_from 0 rules ->
  gmin rules diff <= generate hn rules diff <= gmax rules diff.
Proof.
  intros Hp Hs. unfold gmin, generate, gmax. destruct (Z.leb_spec diff 0); [lia|]. split.
  - apply walk_le; auto; try lia. intros r (P1 & P2 & P3 & P4).
    pose proof (get_rand_range hn (int_max r) P4). pose proof (get_rand_range hn (end_max r) P2). lia.
  - apply walk_le; auto; try lia. intros r (P1 & P2 & P3 & P4).
    pose proof (get_rand_range hn (int_max r) P4). pose proof (get_rand_range hn (end_max r) P2). lia.
Qed.

(* non-decreasing in the elapsed time *)
Lemma walk_mono (f g : rule -> Z) : (forall r, positive r -> 0 <= f r /\ 0 <= g r) ->
  forall rules d1 d2 count last, Forall positive rules -> sorted_from last rules -> last <= d1 <= d2 ->
  walk f g rules d1 count last <= walk f g rules d2 count last.
Proof.
  intros Hfg. induction rules as [|r t IH]; intros d1 d2 count last Hp Hs Hd; cbn [walk]; [lia|].
  inversion Hp as [|? ? Hr Ht]; subst. destruct Hs as [Hl Hs]. destruct (Hfg r Hr) as [Hf Hg]. destruct Hr as (P1 & P2 & P3 & P4).
  destruct (Z.ltb_spec d1 (period r)); destruct (Z.ltb_spec d2 (period r)); try lia.
  - assert ((d1 - last) / interval r <= (d2 - last) / interval r) by (apply Z.div_le_mono; lia). nia.
  - (* d1 still inside this period, d2 beyond it: the full-period amount dominates, later rules only add *)
    assert (Hge : forall rs c l, Forall positive rs -> sorted_from l rs -> l <= d2 -> c <= walk f g rs d2 c l).
    { induction rs as [|r' t' IH']; intros c l Hp' Hs' Hl'; cbn [walk]; [lia|].
      inversion Hp' as [|? ? Hr' Ht']; subst. destruct Hs' as [Hl2 Hs2]. destruct (Hfg r' Hr') as [Hf' Hg']. destruct Hr' as (Q1 & Q2 & Q3 & Q4).
      destruct (Z.ltb_spec d2 (period r')).
      - assert (0 <= (d2 - l) / interval r') by (apply Z.div_pos; lia). nia.
      - assert (0 <= (period r' - l) / interval r') by (apply Z.div_pos; lia).
        eapply Z.le_trans; [|apply IH'; auto; lia]. nia. }
    assert ((d1 - last) / interval r <= (period r - last) / interval r) by (apply Z.div_le_mono; lia).
    eapply Z.le_trans; [|apply Hge; auto; lia]. nia.
  - apply IH; auto. lia.
Qed.

Theorem count_monotone hn rules d1 d2 : Forall positive rules -> sorted_from 0 rules -> d1 <= d2 ->
  generate hn rules d1 <= generate hn rules d2.
Proof.
  intros Hp Hs Hd. unfold generate. destruct (Z.leb_spec d1 0); destruct (Z.leb_spec d2 0); try lia.
  - (* 0 <= anything generated *)
    assert (G : forall rs c l, Forall positive rs -> sorted_from l rs -> l <= d2 -> 0 <= c ->
                0 <= walk (fun r => get_rand hn (int_max r)) (fun r => get_rand hn (end_max r)) rs d2 c l).
    { induction rs as [|r t IH]; intros c l Hp' Hs' Hl Hc; cbn [walk]; [lia|].
      inversion Hp' as [|? ? Hr Ht]; subst. destruct Hs' as [Hl2 Hs2]. destruct Hr as (Q1 & Q2 & Q3 & Q4).
      pose proof (get_rand_range hn (int_max r) Q4). pose proof (get_rand_range hn (end_max r) Q2).
      destruct (Z.ltb_spec d2 (period r)).
      - assert (0 <= (d2 - l) / interval r) by (apply Z.div_pos; lia). nia.
      - assert (0 <= (period r - l) / interval r) by (apply Z.div_pos; lia). apply IH; auto; nia. }
    apply G; auto; lia.
  - apply walk_mono; auto; try lia. intros r (P1 & P2 & P3 & P4).
    pose proof (get_rand_range hn (int_max r) P4). pose proof (get_rand_range hn (end_max r) P2). lia.
Qed.
Print Assumptions id_layout.
Print Assumptions id_monotone.
Print Assumptions count_bounds.
Print Assumptions count_monotone.
