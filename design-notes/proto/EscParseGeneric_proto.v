From Coq Require Import List ZArith Lia Bool Arith.
Import ListNotations.
Require Import OctalCodec_proto.
Local Open Scope Z_scope.
Arguments Z.mul : simpl never.
Arguments Z.add : simpl never.
Arguments Z.sub : simpl never.

(* One index-level model for strz.OctalParse, HexParse and UnicodeParse (enc.go:100-267): they differ only in
   the escape width W, the prefix (\ , \x , \U), the digit base and value bound, and what a value is turned into.
   None = the Go code would panic. *)
Section Esc.
Variable W P : nat.                          (* bytes per escape, bytes of prefix *)
Variable prefix : list Z.
Variable base maxv : Z.
Variable emit : Z -> option (list Z).        (* None: value rejected (n > utf8.MaxRune): i += W, nothing flushed *)
Hypothesis P_pos : (1 <= P)%nat.
Hypothesis P_lt_W : (P < W)%nat.
Hypothesis prefix_len : length prefix = P.
Hypothesis prefix_bs : nth 0 prefix 0 = 92.
Hypothesis emit_len : forall v bs, emit v = Some bs -> (1 <= length bs <= W)%nat.

(* src[i] != '\\' || src[i+1] != 'x' ... : all prefix bytes present at i (indices are in range: len-i >= W) *)
Definition pfx_ok (src : list Z) (i : nat) : option bool :=
  match slice src i (i + P) with None => None | Some p => Some (if list_eq_dec Z.eq_dec p prefix then true else false) end.

Fixpoint gparse (fuel : nat) (src : list Z) (i f : nat) (out : list Z) : option (list Z) :=
  match fuel with
  | O => None
  | S fu =>
      let n := length src in
      if (n <=? i)%nat then finish src f out
      else if (n - i <? W)%nat then finish src f out
      else match pfx_ok src i with
           | None => None
           | Some false => gparse fu src (S i) f out
           | Some true =>
               match slice src (i + P) (i + W) with
               | None => None
               | Some ds =>
                   let '(v, j, ok) := pu base maxv 0 0%nat ds in
                   if negb ok then gparse fu src (i + P + j) f out
                   else match emit v with
                        | None => gparse fu src (i + W) f out
                        | Some bs =>
                            match (if (f <? i)%nat
                                   then match slice src f i with None => None | Some lit => copy_into n out lit end
                                   else Some out) with
                            | None => None
                            | Some out1 =>
                                if (length out1 + length bs <=? n)%nat            (* dst[e] = ..., EncodeRune(dst[e:], ..) *)
                                then gparse fu src (i + W) (i + W) (out1 ++ bs)
                                else None
                            end
                        end
               end
           end
  end.
Definition esc_parse (src : list Z) : option (list Z) := gparse (S (length src)) src 0 0 [].

Lemma gparse_total src : forall fuel i f out,
  (f <= i <= length src)%nat -> (length out <= f)%nat -> (length src - i < fuel)%nat ->
  exists r, gparse fuel src i f out = Some r /\ (length r <= length src)%nat.
Proof.
  induction fuel as [|fu IH]; intros i f out Hi Ho Hf; [lia|]. cbn [gparse].
  assert (Hfin : exists r, finish src f out = Some r /\ (length r <= length src)%nat).
  { unfold finish. destruct (Nat.ltb_spec f (length src)) as [H|H]; [|exists out; split; auto; lia].
    destruct (slice_some src f (length src)) as [tl Ht]; [lia|]. rewrite Ht. unfold copy_into.
    destruct (Nat.leb_spec (length out) (length src)); [|lia]. eexists. split; [reflexivity|].
    rewrite app_length, firstn_length. lia. }
  destruct (Nat.leb_spec (length src) i); [exact Hfin|].
  destruct (Nat.ltb_spec (length src - i) W); [exact Hfin|].
  unfold pfx_ok. destruct (slice_some src i (i + P)) as [p Hp]; [lia|]. rewrite Hp.
  destruct (list_eq_dec Z.eq_dec p prefix); [|apply IH; lia].
  destruct (slice_some src (i + P) (i + W)) as [ds Hds]; [lia|]. rewrite Hds.
  pose proof (slice_length _ _ _ _ Hds) as Hl.
  destruct (pu base maxv 0 0%nat ds) as [[v j] ok] eqn:Ep. pose proof (pu_index _ _ _ _ _ _ _ _ Ep) as Hj.
  destruct ok; cbn [negb]; [|apply IH; lia].
  destruct (emit v) as [bs|] eqn:Ee; [|apply IH; lia]. pose proof (emit_len _ _ Ee) as Hbs.
  assert (Hout1 : exists out1, (if (f <? i)%nat then match slice src f i with None => None | Some lit => copy_into (length src) out lit end else Some out) = Some out1 /\ (length out1 <= i)%nat).
  { destruct (Nat.ltb_spec f i) as [Hfi|Hfi]; [|exists out; split; auto; lia].
    destruct (slice_some src f i) as [lit Hlit]; [lia|]. rewrite Hlit. pose proof (slice_length _ _ _ _ Hlit).
    unfold copy_into. destruct (Nat.leb_spec (length out) (length src)); [|lia]. eexists. split; [reflexivity|].
    rewrite app_length, firstn_length. lia. }
  destruct Hout1 as (out1 & -> & Hl1). destruct (Nat.leb_spec (length out1 + length bs) (length src)); [|lia].
  apply IH; try lia. rewrite app_length. lia.
Qed.

(* every input: a result, never longer than the input, never a panic *)
Theorem esc_parse_total src : exists out, esc_parse src = Some out /\ (length out <= length src)%nat.
Proof. unfold esc_parse. apply gparse_total; cbn [length]; lia. Qed.

(* input without a backslash comes back unchanged *)
Lemma slice_hd src i p : slice src i (i + P) = Some p -> nth_error src i = Some (nth 0 p 0).
Proof.
  unfold slice. destruct (Nat.leb_spec i (i + P)); [|lia]. destruct (Nat.leb_spec (i + P) (length src)); [|discriminate]. cbn [andb].
  intros E. injection E as E'. subst p. replace (i + P - i)%nat with P by lia. destruct P as [|P']; [lia|].
  destruct (skipn i src) as [|x t] eqn:Es.
  - pose proof (skipn_length i src) as Hl. rewrite Es in Hl. cbn [length] in Hl. lia.
  - cbn [firstn nth]. rewrite <- (firstn_skipn i src) at 1. rewrite nth_error_app2 by (rewrite firstn_length; lia).
    rewrite firstn_length, Nat.min_l by lia. rewrite Nat.sub_diag, Es. reflexivity.
Qed.
Lemma gparse_no_backslash src : Forall (fun c => c <> 92) src -> forall fuel i,
  (i <= length src)%nat -> (length src - i < fuel)%nat -> gparse fuel src i 0 [] = Some src.
Proof.
  intros Hnb. induction fuel as [|fu IH]; intros i Hi Hf; [lia|]. cbn [gparse].
  assert (Hfin : finish src 0 [] = Some src).
  { unfold finish. destruct (Nat.ltb_spec 0 (length src)) as [H|H].
    - unfold slice, copy_into. cbn [Nat.leb andb skipn length app]. rewrite Nat.leb_refl. cbn [andb]. rewrite !Nat.sub_0_r, firstn_all, firstn_all. reflexivity.
    - destruct src; [reflexivity|cbn in H; lia]. }
  destruct (Nat.leb_spec (length src) i); [exact Hfin|].
  destruct (Nat.ltb_spec (length src - i) W); [exact Hfin|].
  unfold pfx_ok. destruct (slice_some src i (i + P)) as [p Hp]; [lia|]. rewrite Hp.
  destruct (list_eq_dec Z.eq_dec p prefix) as [E|_]; [|apply IH; lia].
  exfalso. apply slice_hd in Hp. rewrite E, prefix_bs in Hp. rewrite Forall_forall in Hnb. apply (Hnb 92); auto. eapply nth_error_In; eauto.
Qed.
Theorem esc_parse_no_backslash src : Forall (fun c => c <> 92) src -> esc_parse src = Some src.
Proof. intros H. unfold esc_parse. apply gparse_no_backslash; auto; lia. Qed.
End Esc.

(* the three instances *)
Definition octal := esc_parse 4 1 [92] 8 255 (fun v => Some [v mod 256]).
Definition hex := esc_parse 4 2 [92; 120] 16 255 (fun v => Some [v mod 256]).
(* utf8.EncodeRune, with surrogates written as U+FFFD like the library does *)
Definition utf8_enc (v : Z) : list Z :=
  if v <? 128 then [v]
  else if v <? 2048 then [192 + v / 64; 128 + v mod 64]
  else if (55296 <=? v) && (v <=? 57343) then [239; 191; 189]
  else if v <? 65536 then [224 + v / 4096; 128 + (v / 64) mod 64; 128 + v mod 64]
  else [240 + v / 262144; 128 + (v / 4096) mod 64; 128 + (v / 64) mod 64; 128 + v mod 64].
Definition unicode := esc_parse 10 2 [92; 85] 16 4294967295 (fun v => if 1114111 <? v then None else Some (utf8_enc v)).

Lemma utf8_enc_len v : (1 <= length (utf8_enc v) <= 4)%nat.
Proof. unfold utf8_enc. repeat match goal with |- context [if ?c then _ else _] => destruct c end; cbn [length]; lia. Qed.

Theorem hex_parse_total src : exists out, hex src = Some out /\ (length out <= length src)%nat.
Proof. apply esc_parse_total; try reflexivity; try lia. intros v bs E. inversion E. cbn [length]. lia. Qed.
Theorem unicode_parse_total src : exists out, unicode src = Some out /\ (length out <= length src)%nat.
Proof.
  apply esc_parse_total; try reflexivity; try lia. intros v bs E. destruct (1114111 <? v); [discriminate|]. inversion E.
  pose proof (utf8_enc_len v). lia.
Qed.
Theorem hex_parse_no_backslash src : Forall (fun c => c <> 92) src -> hex src = Some src.
Proof. apply esc_parse_no_backslash; try reflexivity; lia. Qed.
Theorem unicode_parse_no_backslash src : Forall (fun c => c <> 92) src -> unicode src = Some src.
Proof. apply esc_parse_no_backslash; try reflexivity; lia. Qed.

(* the generic model at the octal parameters is the octal model of OctalCodec_proto, on examples *)
Example octal_agrees : map octal [[92;49;50;51;97]; [92;55;55;55]; [92;92;48;52;49]; [120;92;48]] =
                       map octal_parse [[92;49;50;51;97]; [92;55;55;55]; [92;92;48;52;49]; [120;92;48]].
Proof. vm_compute. reflexivity. Qed.
(* "\x41\x4Zq" -> "A\x4Zq";  "\U0001F600" -> F0 9F 98 80;  "\U00110000" (too large) is kept verbatim *)
Example hex_example : hex [92;120;52;49;92;120;52;90;113] = Some [65;92;120;52;90;113].
Proof. vm_compute. reflexivity. Qed.
Example unicode_example : unicode [92;85;48;48;48;49;70;54;48;48] = Some [240;159;152;128].
Proof. vm_compute. reflexivity. Qed.
Example unicode_too_large : unicode [92;85;48;48;49;49;48;48;48;48] = Some [92;85;48;48;49;49;48;48;48;48].
Proof. vm_compute. reflexivity. Qed.
Print Assumptions hex_parse_total.
Print Assumptions unicode_parse_total.
Print Assumptions unicode_parse_no_backslash.
