From Coq Require Import List Arith Lia Bool.
Import ListNotations.

(* Event model of goz.Limiter: a token channel of capacity n and a WaitGroup. *)
Inductive tstate := Pending | Running | Finished.
Inductive ev :=
| Submit (i : nat)          (* Go(fn): l.c <- token; l.w.Add(1); go Recover(fn, handler, l.done) *)
| Return (i : nat)          (* fn returned *)
| Panic (i : nat) (v : nat) (* fn panicked with value v: recover() hands v to the handler *)
| Cleanup (i : nat)         (* l.done(): l.w.Done(); <-l.c *)
| WaitReturn.               (* l.w.Wait() returns *)

Record st := { limit : nat; tokens : nat; wg : nat; tasks : nat -> tstate; in_cleanup : nat -> bool;
               handled : list (nat * nat); waits_ok : bool }.

Definition set {A} (f : nat -> A) (i : nat) (x : A) : nat -> A := fun j => if Nat.eqb j i then x else f j.

(* None = the event is not enabled in this state (the real system cannot produce it) *)
Definition step (s : st) (e : ev) : option st :=
  match e with
  | Submit i =>
      match tasks s i with
      | Pending => if tokens s <? limit s
                   then Some {| limit := limit s; tokens := S (tokens s); wg := S (wg s); tasks := set (tasks s) i Running;
                                in_cleanup := in_cleanup s; handled := handled s; waits_ok := waits_ok s |}
                   else None                                    (* the send on the channel blocks *)
      | _ => None
      end
  | Return i =>
      match tasks s i with
      | Running => if in_cleanup s i then None else
                   Some {| limit := limit s; tokens := tokens s; wg := wg s; tasks := tasks s; in_cleanup := set (in_cleanup s) i true;
                           handled := handled s; waits_ok := waits_ok s |}
      | _ => None
      end
  | Panic i v =>
      match tasks s i with
      | Running => if in_cleanup s i then None else
                   Some {| limit := limit s; tokens := tokens s; wg := wg s; tasks := tasks s; in_cleanup := set (in_cleanup s) i true;
                           handled := handled s ++ [(i, v)]; waits_ok := waits_ok s |}
      | _ => None
      end
  | Cleanup i =>
      match tasks s i with
      | Running => if in_cleanup s i
                   then Some {| limit := limit s; tokens := pred (tokens s); wg := pred (wg s); tasks := set (tasks s) i Finished;
                                in_cleanup := set (in_cleanup s) i false; handled := handled s; waits_ok := waits_ok s |}
                   else None
      | _ => None
      end
  | WaitReturn => if wg s =? 0 then Some s else None
  end.

Fixpoint accepts (s : st) (tr : list ev) : option st :=
  match tr with [] => Some s | e :: t => match step s e with None => None | Some s' => accepts s' t end end.

Definition new_limiter (n : nat) : st :=
  {| limit := if n <? 1 then 3 else n; tokens := 0; wg := 0; tasks := fun _ => Pending; in_cleanup := fun _ => false;
     handled := []; waits_ok := true |}.

(* ---- invariant: tokens = wg = number of Running tasks (counted over any finite universe of ids) ---- *)
Definition running (s : st) (ids : list nat) : nat := length (filter (fun i => match tasks s i with Running => true | _ => false end) ids).

Lemma running_set s ids i x (s' : st) :
  NoDup ids -> tasks s' = set (tasks s) i x ->
  running s' ids + (if existsb (Nat.eqb i) ids then match tasks s i with Running => 1 | _ => 0 end else 0)
  = running s ids + (if existsb (Nat.eqb i) ids then match x with Running => 1 | _ => 0 end else 0).
Proof.
  intros Hnd E. unfold running. rewrite E. clear E s'. induction ids as [|a ids IH]; cbn [filter existsb length]; [reflexivity|].
  inversion Hnd as [|? ? Hnin Hnd']; subst. specialize (IH Hnd').
  unfold set at 1. destruct (Nat.eqb_spec a i) as [->|Hne].
  - rewrite Nat.eqb_refl. cbn [orb].
    assert (Hex : existsb (Nat.eqb i) ids = false).
    { apply not_true_is_false. intros H. apply existsb_exists in H. destruct H as (y & Hy & Ey). apply Nat.eqb_eq in Ey. subst. contradiction. }
    rewrite Hex in IH. destruct x, (tasks s i); cbn [length]; lia.
  - destruct (Nat.eqb_spec i a); [congruence|]. cbn [orb]. destruct (tasks s a); cbn [length]; lia.
Qed.

Record Inv (ids : list nat) (s : st) : Prop := {
  i_tok : tokens s = running s ids;
  i_wg : wg s = running s ids;
  i_lim : tokens s <= limit s;
  i_dom : forall i, ~ In i ids -> tasks s i = Pending
}.

Lemma existsb_in i ids : In i ids -> existsb (Nat.eqb i) ids = true.
Proof. intros H. apply existsb_exists. exists i. split; auto. apply Nat.eqb_refl. Qed.

Lemma step_inv ids s e s' : NoDup ids -> (forall i, (e = Submit i) -> In i ids) -> Inv ids s -> step s e = Some s' -> Inv ids s'.
Proof.
  intros Hnd Hsub [Ht Hw Hl Hd] Hs. destruct e as [i|i|i v|i|]; cbn [step] in Hs.
  - destruct (tasks s i) eqn:Ei; try discriminate. destruct (Nat.ltb_spec (tokens s) (limit s)); [|discriminate].
    inversion Hs; subst; clear Hs. pose proof (Hsub i eq_refl) as Hin.
    pose proof (running_set s ids i Running {| limit := limit s; tokens := S (tokens s); wg := S (wg s); tasks := set (tasks s) i Running;
      in_cleanup := in_cleanup s; handled := handled s; waits_ok := waits_ok s |} Hnd eq_refl) as R.
    rewrite (existsb_in _ _ Hin), Ei in R. constructor; cbn [tokens wg limit tasks]; try lia.
    intros j Hj. unfold set. destruct (Nat.eqb_spec j i); [subst; contradiction|]. apply Hd; auto.
  - destruct (tasks s i) eqn:Ei; try discriminate. destruct (in_cleanup s i); [discriminate|]. inversion Hs; subst; clear Hs.
    constructor; cbn [tokens wg limit tasks]; auto.
  - destruct (tasks s i) eqn:Ei; try discriminate. destruct (in_cleanup s i); [discriminate|]. inversion Hs; subst; clear Hs.
    constructor; cbn [tokens wg limit tasks]; auto.
  - destruct (tasks s i) eqn:Ei; try discriminate. destruct (in_cleanup s i); [|discriminate]. inversion Hs; subst; clear Hs.
    assert (Hin : In i ids) by (destruct (in_dec Nat.eq_dec i ids); auto; rewrite (Hd i) in Ei by auto; discriminate).
    pose proof (running_set s ids i Finished {| limit := limit s; tokens := pred (tokens s); wg := pred (wg s); tasks := set (tasks s) i Finished;
      in_cleanup := set (in_cleanup s) i false; handled := handled s; waits_ok := waits_ok s |} Hnd eq_refl) as R.
    rewrite (existsb_in _ _ Hin), Ei in R. constructor; cbn [tokens wg limit tasks]; try lia.
    intros j Hj. unfold set. destruct (Nat.eqb_spec j i); [subst; contradiction|]. apply Hd; auto.
  - destruct (wg s =? 0); [|discriminate]. inversion Hs; subst. constructor; auto.
Qed.

Lemma init_inv ids n : Inv ids (new_limiter n).
Proof.
  assert (R : running (new_limiter n) ids = 0) by (unfold running; induction ids; cbn; auto).
  constructor; cbn [new_limiter tokens wg limit tasks]; rewrite ?R; auto; lia.
Qed.

(* C19: at no instant are more than `limit` submitted functions running; Wait returns only when none is *)
Theorem limiter_bound ids n tr s :
  NoDup ids -> (forall i, In (Submit i) tr -> In i ids) -> accepts (new_limiter n) tr = Some s ->
  running s ids <= limit s /\ limit s = (if n <? 1 then 3 else n).
Proof.
  intros Hnd Hsub Hacc.
  assert (G : forall tr s0, Inv ids s0 -> (forall i, In (Submit i) tr -> In i ids) -> accepts s0 tr = Some s ->
              Inv ids s /\ limit s = limit s0).
  { induction tr0 as [|e t IH]; intros s0 HI Hs Ha; cbn [accepts] in Ha.
    - inversion Ha; subst. auto.
    - destruct (step s0 e) as [s1|] eqn:E; [|discriminate].
      assert (Hl : limit s1 = limit s0).
      { destruct e; cbn [step] in E; repeat match type of E with context [match ?x with _ => _ end] => destruct x; try discriminate end;
          inversion E; subst; reflexivity. }
      destruct (IH s1) as [HI' Hl']; auto.
      + eapply step_inv; eauto. intros i ->. apply Hs. left; reflexivity.
      + intros i Hi. apply Hs. right; auto.
      + split; auto. congruence. }
  destruct (G tr (new_limiter n) (init_inv ids n) Hsub Hacc) as [[Ht _ Hl _] HL]. split; [lia|exact HL].
Qed.
Print Assumptions limiter_bound.
