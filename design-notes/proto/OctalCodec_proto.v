From Coq Require Import List ZArith Lia Bool Arith.
Import ListNotations.
Local Open Scope Z_scope.
Arguments Z.mul : simpl never.
Arguments Z.add : simpl never.
Arguments Z.sub : simpl never.
Arguments Z.modulo : simpl never.
Arguments Z.div : simpl never.
Arguments Z.of_nat : simpl never.

(* Index-level model of strz.OctalParse (enc.go:100-133). None = the Go code would panic. *)
Definition digit (c : Z) : option Z :=
  if (48 <=? c) && (c <=? 57) then Some (c - 48)
  else let l := Z.lor c 32 in if (97 <=? l) && (l <=? 122) then Some (l - 97 + 10) else None.

(* parseUint(s, base, bitSize) : (n, index of first bad digit, ok); 8 or fewer digits never reach the 64-bit cutoff *)
Fixpoint pu (base maxv n : Z) (j : nat) (ds : list Z) : Z * nat * bool :=
  match ds with
  | [] => (n, j, true)
  | c :: t =>
      match digit c with
      | None => (0, j, false)
      | Some dg => if base <=? dg then (0, j, false)
                   else let n1 := n * base + dg in
                        if maxv <? n1 then (maxv, j, false) else pu base maxv n1 (S j) t
      end
  end.

Definition slice (l : list Z) (a b : nat) : option (list Z) :=        (* l[a:b], cap = len *)
  if (a <=? b)%nat && (b <=? length l)%nat then Some (firstn (b - a) (skipn a l)) else None.

(* e += copy(dst[e:], chunk) with len(dst) = n: dst[e:] panics if e > n, copy truncates silently *)
Definition copy_into (n : nat) (out chunk : list Z) : option (list Z) :=
  if (length out <=? n)%nat then Some (out ++ firstn (n - length out) chunk) else None.

Definition finish (src : list Z) (f : nat) (out : list Z) : option (list Z) :=
  if (f <? length src)%nat
  then match slice src f (length src) with None => None | Some tl => copy_into (length src) out tl end
  else Some out.

Fixpoint oparse (fuel : nat) (src : list Z) (i f : nat) (out : list Z) : option (list Z) :=
  match fuel with
  | O => None
  | S fu =>
      let n := length src in
      if (n <=? i)%nat then finish src f out
      else if (n - i <? 4)%nat then finish src f out
      else match nth_error src i with
           | None => None
           | Some c =>
               if negb (c =? 92) then oparse fu src (S i) f out
               else match slice src (i + 1) (i + 4) with
                    | None => None
                    | Some ds =>
                        let '(v, j, ok) := pu 8 255 0 0%nat ds in
                        if negb ok then oparse fu src (i + 1 + j) f out
                        else match (if (f <? i)%nat
                                    then match slice src f i with None => None | Some lit => copy_into n out lit end
                                    else Some out) with
                             | None => None
                             | Some out1 =>
                                 if (length out1 <? n)%nat           (* dst[e] = byte(n) *)
                                 then oparse fu src (i + 4) (i + 4) (out1 ++ [v mod 256])
                                 else None
                             end
                    end
           end
  end.
Definition octal_parse (src : list Z) : option (list Z) := oparse (S (length src)) src 0 0 [].

Lemma pu_index base maxv : forall ds n j v j' ok, pu base maxv n j ds = (v, j', ok) -> (j <= j' <= j + length ds)%nat.
Proof.
  induction ds as [|c t IH]; intros n j v j' ok H; cbn [pu length] in *.
  - inversion H; subst. lia.
  - destruct (digit c); [|inversion H; subst; lia].
    destruct (base <=? z); [inversion H; subst; lia|].
    destruct (maxv <? n * base + z); [inversion H; subst; lia|]. apply IH in H. lia.
Qed.

Lemma slice_length l a b x : slice l a b = Some x -> length x = (b - a)%nat.
Proof.
  unfold slice. destruct ((a <=? b)%nat && (b <=? length l)%nat) eqn:E; [|discriminate].
  apply andb_prop in E. destruct E as [E1 E2]. apply Nat.leb_le in E1, E2. intros H; inversion H; subst.
  rewrite firstn_length, skipn_length. lia.
Qed.
Lemma slice_some l a b : (a <= b <= length l)%nat -> exists x, slice l a b = Some x.
Proof.
  intros H. unfold slice. destruct (Nat.leb_spec a b); [|lia]. destruct (Nat.leb_spec b (length l)); [|lia]. cbn. eauto.
Qed.

(* totality and the length bound, for every input *)
Lemma oparse_total src : forall fuel i f out,
  (f <= i <= length src)%nat -> (length out <= f)%nat -> (length src - i < fuel)%nat ->
  exists r, oparse fuel src i f out = Some r /\ (length r <= length src)%nat.
Proof.
  induction fuel as [|fu IH]; intros i f out Hi Ho Hf; [lia|]. cbn [oparse].
  assert (Hfin : exists r, finish src f out = Some r /\ (length r <= length src)%nat).
  { unfold finish. destruct (Nat.ltb_spec f (length src)) as [H|H]; [|exists out; split; auto; lia].
    destruct (slice_some src f (length src)) as [tl Ht]; [lia|]. rewrite Ht. unfold copy_into.
    destruct (Nat.leb_spec (length out) (length src)); [|lia]. eexists. split; [reflexivity|].
    rewrite app_length, firstn_length. lia. }
  destruct (Nat.leb_spec (length src) i); [exact Hfin|].
  destruct (Nat.ltb_spec (length src - i) 4); [exact Hfin|].
  destruct (nth_error src i) as [c|] eqn:Ec; [|apply nth_error_None in Ec; lia].
  destruct (c =? 92); cbn [negb].
  - destruct (slice_some src (i + 1) (i + 4)) as [ds Hds]; [lia|]. rewrite Hds.
    pose proof (slice_length _ _ _ _ Hds) as Hl.
    destruct (pu 8 255 0 0%nat ds) as [[v j] ok] eqn:Ep. pose proof (pu_index _ _ _ _ _ _ _ _ Ep) as Hj.
    destruct ok; cbn [negb].
    + assert (Hout1 : exists out1, (if (f <? i)%nat then match slice src f i with None => None | Some lit => copy_into (length src) out lit end else Some out) = Some out1 /\ (length out1 <= i)%nat).
      { destruct (Nat.ltb_spec f i) as [Hfi|Hfi]; [|exists out; split; auto; lia].
        destruct (slice_some src f i) as [lit Hlit]; [lia|]. rewrite Hlit. pose proof (slice_length _ _ _ _ Hlit).
        unfold copy_into. destruct (Nat.leb_spec (length out) (length src)); [|lia]. eexists. split; [reflexivity|].
        rewrite app_length, firstn_length. lia. }
      destruct Hout1 as (out1 & -> & Hl1). destruct (Nat.ltb_spec (length out1) (length src)); [|lia].
      apply IH; try lia. rewrite app_length. cbn [length]. lia.
    + apply IH; lia.
  - apply IH; lia.
Qed.

Theorem octal_parse_total src : exists out, octal_parse src = Some out /\ (length out <= length src)%nat.
Proof. unfold octal_parse. apply oparse_total; cbn [length]; lia. Qed.

(* input without a backslash comes back unchanged *)
Lemma oparse_no_backslash src : Forall (fun c => c <> 92) src -> forall fuel i,
  (i <= length src)%nat -> (length src - i < fuel)%nat -> oparse fuel src i 0 [] = Some src.
Proof.
  intros Hnb. induction fuel as [|fu IH]; intros i Hi Hf; [lia|]. cbn [oparse].
  assert (Hfin : finish src 0 [] = Some src).
  { unfold finish. destruct (Nat.ltb_spec 0 (length src)) as [H|H].
    - unfold slice, copy_into. cbn [Nat.leb andb skipn length app]. rewrite Nat.leb_refl. cbn [andb]. rewrite !Nat.sub_0_r, firstn_all, firstn_all. reflexivity.
    - destruct src; [reflexivity|cbn in H; lia]. }
  destruct (Nat.leb_spec (length src) i); [exact Hfin|].
  destruct (Nat.ltb_spec (length src - i) 4); [exact Hfin|].
  destruct (nth_error src i) as [c|] eqn:Ec; [|apply nth_error_None in Ec; lia].
  assert (c <> 92) by (rewrite Forall_forall in Hnb; apply Hnb; eapply nth_error_In; eauto).
  destruct (Z.eqb_spec c 92); [contradiction|]. cbn [negb]. apply IH; lia.
Qed.
Theorem octal_parse_no_backslash src : Forall (fun c => c <> 92) src -> octal_parse src = Some src.
Proof. intros H. unfold octal_parse. apply oparse_no_backslash; auto; lia. Qed.
Print Assumptions octal_parse_total.
Print Assumptions octal_parse_no_backslash.

(* ---- OctalFormat and the round trip ---- *)
Definition esc (b : Z) : list Z := [92; 48 + b / 64; 48 + (b / 8) mod 8; 48 + b mod 8].
Definition octal_format (bs : list Z) : list Z := concat (map esc bs).

Definition byte_range : list Z := map Z.of_nat (seq 0 256).
Lemma pu_esc_sweep : forallb (fun b => match pu 8 255 0 0%nat (tl (esc b)) with (v, j, ok) => (v =? b) && Nat.eqb j 3 && ok end) byte_range = true.
Proof. vm_compute. reflexivity. Qed.
Lemma pu_esc b : 0 <= b < 256 -> pu 8 255 0 0%nat (tl (esc b)) = (b, 3%nat, true).
Proof.
  intros Hb. pose proof pu_esc_sweep as H. rewrite forallb_forall in H.
  assert (Hin : In b byte_range).
  { unfold byte_range. apply in_map_iff. exists (Z.to_nat b). split; [lia|]. apply in_seq. lia. }
  specialize (H b Hin). destruct (pu 8 255 0 0%nat (tl (esc b))) as [[v j] ok].
  apply andb_prop in H. destruct H as [H Hok]. apply andb_prop in H. destruct H as [Hv Hj].
  apply Z.eqb_eq in Hv. apply Nat.eqb_eq in Hj. subst. reflexivity.
Qed.

Lemma slice_app_mid (A B C : list Z) : slice (A ++ B ++ C) (length A) (length A + length B) = Some B.
Proof.
  unfold slice. rewrite !app_length.
  destruct (Nat.leb_spec (length A) (length A + length B)); [|lia].
  destruct (Nat.leb_spec (length A + length B) (length A + (length B + length C))); [|lia]. cbn [andb].
  rewrite skipn_app, skipn_all, Nat.sub_diag. cbn [skipn app].
  replace (length A + length B - length A)%nat with (length B) by lia.
  rewrite firstn_app, firstn_all, Nat.sub_diag. cbn [firstn]. rewrite app_nil_r. reflexivity.
Qed.

Lemma oparse_roundtrip : forall rest fuel A out,
  Forall (fun b => 0 <= b < 256) rest -> (length out <= length A)%nat -> (4 * length rest < fuel)%nat ->
  oparse fuel (A ++ octal_format rest) (length A) (length A) out = Some (out ++ rest).
Proof.
  induction rest as [|b rest IH]; intros fuel A out Hb Ho Hf.
  - destruct fuel; [lia|]. unfold octal_format. cbn [map concat oparse]. rewrite app_nil_r.
    rewrite Nat.leb_refl. unfold finish. rewrite Nat.ltb_irrefl, app_nil_r. reflexivity.
  - destruct fuel as [|fu]; [lia|]. inversion Hb as [|? ? Hb0 Hbr]; subst.
    unfold octal_format. cbn [map concat]. fold (octal_format rest).
    set (src := A ++ esc b ++ octal_format rest).
    assert (Hlen : length src = (length A + 4 + length (octal_format rest))%nat) by (unfold src; rewrite !app_length; cbn [esc length]; lia).
    cbn [oparse]. fold src.
    destruct (Nat.leb_spec (length src) (length A)); [lia|].
    destruct (Nat.ltb_spec (length src - length A) 4); [lia|].
    assert (E0 : nth_error src (length A) = Some 92).
    { unfold src. rewrite nth_error_app2 by lia. rewrite Nat.sub_diag. reflexivity. }
    rewrite E0. cbn [Z.eqb negb Pos.eqb].
    assert (E1 : slice src (length A + 1) (length A + 4) = Some (tl (esc b))).
    { unfold src. change (esc b ++ octal_format rest) with ([92%Z] ++ tl (esc b) ++ octal_format rest).
      rewrite app_assoc. replace (length A + 1)%nat with (length (A ++ [92%Z])) by (rewrite app_length; cbn; lia).
      replace (length A + 4)%nat with (length (A ++ [92%Z]) + length (tl (esc b)))%nat by (rewrite app_length; cbn; lia).
      apply slice_app_mid. }
    rewrite E1, (pu_esc b Hb0). cbn [negb]. rewrite Nat.ltb_irrefl.
    destruct (Nat.ltb_spec (length out) (length src)); [|lia].
    rewrite (Z.mod_small b 256) by lia.
    replace src with ((A ++ esc b) ++ octal_format rest) by (unfold src; rewrite app_assoc; reflexivity).
    replace (length A + 4)%nat with (length (A ++ esc b)) by (rewrite app_length; cbn [esc length]; lia).
    rewrite IH; auto.
    + rewrite <- app_assoc. reflexivity.
    + rewrite !app_length. cbn [length esc]. lia.
    + cbn [length] in Hf. lia.
Qed.

Theorem octal_roundtrip bs : Forall (fun b => 0 <= b < 256) bs -> octal_parse (octal_format bs) = Some bs.
Proof.
  intros H. unfold octal_parse. apply (oparse_roundtrip bs (S (length (octal_format bs))) [] [] H); cbn [length]; try lia.
  assert (length (octal_format bs) = (4 * length bs)%nat).
  { unfold octal_format. induction bs as [|b t IHt]; cbn [map concat length]; [reflexivity|].
    rewrite app_length. inversion H; subst. rewrite IHt by auto. cbn [esc length]. lia. }
  lia.
Qed.
Print Assumptions octal_roundtrip.
