From Coq Require Import List Arith Lia Bool Permutation.
Import ListNotations.

(* slicez.FilterInPlace (slices.go:181-190): swap-to-front partition on one array. *)
Section InPlace.
Variable A : Type.
Variable d : A.
Variable p : A -> bool.

Fixpoint upd (l : list A) (i : nat) (x : A) : list A :=
  match l, i with [], _ => [] | _ :: t, O => x :: t | h :: t, S j => h :: upd t j x end.
Definition swap (s : list A) (i j : nat) : list A := upd (upd s i (nth j s d)) j (nth i s d).

(* for i := range s { if p(s[i]) { s[remain], s[i] = s[i], s[remain]; remain++ } } *)
Fixpoint loop (n : nat) (s : list A) (i remain : nat) : list A * nat :=
  match n with
  | O => (s, remain)
  | S n' => if p (nth i s d) then loop n' (swap s remain i) (S i) (S remain) else loop n' s (S i) remain
  end.
Definition filter_in_place (s : list A) : list A * list A :=     (* (returned prefix, whole array afterwards) *)
  let '(s', r) := loop (length s) s 0 0 in (firstn r s', s').

Lemma upd_app_r (a b : list A) i x : upd (a ++ b) (length a + i) x = a ++ upd b i x.
Proof. induction a as [|h a IH]; cbn [app length upd Nat.add]; [reflexivity|]. f_equal. apply IH. Qed.
Lemma nth_app_r (a b : list A) i : nth (length a + i) (a ++ b) d = nth i b d.
Proof. rewrite app_nth2 by lia. f_equal. lia. Qed.

(* swapping the first of a block of rejected elements with the element right after the block *)
Lemma swap_block (K X R : list A) (d1 x : A) :
  swap (K ++ d1 :: X ++ x :: R) (length K) (length K + S (length X)) = K ++ x :: X ++ d1 :: R.
Proof.
  unfold swap.
  replace (nth (length K + S (length X)) (K ++ d1 :: X ++ x :: R) d) with x.
  2:{ rewrite nth_app_r. cbn [nth]. rewrite <- (Nat.add_0_r (length X)). rewrite (nth_app_r X (x :: R) 0). reflexivity. }
  replace (nth (length K) (K ++ d1 :: X ++ x :: R) d) with d1.
  2:{ rewrite <- (Nat.add_0_r (length K)). rewrite nth_app_r. reflexivity. }
  rewrite <- (Nat.add_0_r (length K)) at 1. rewrite upd_app_r. cbn [upd].
  rewrite upd_app_r. cbn [upd]. f_equal. f_equal.
  rewrite <- (Nat.add_0_r (length X)). rewrite upd_app_r. reflexivity.
Qed.
Lemma swap_same (s : list A) i : i < length s -> swap s i i = s.
Proof.
  unfold swap. revert i; induction s as [|h s IH]; intros [|i] H; cbn [length] in H; try lia; cbn [upd nth]; [reflexivity|].
  f_equal. apply IH. lia.
Qed.

(* invariant: array = kept (in original order) ++ rejected-so-far (some order) ++ untouched rest *)
Lemma loop_spec : forall rest K X, exists X',
  loop (length rest) (K ++ X ++ rest) (length K + length X) (length K) =
    (K ++ filter p rest ++ X', length K + length (filter p rest)) /\
  Permutation X' (X ++ filter (fun a => negb (p a)) rest).
Proof.
  induction rest as [|x rest IH]; intros K X.
  - exists X. cbn [loop length filter app]. rewrite !app_nil_r, Nat.add_0_r. split; [reflexivity|apply Permutation_refl].
  - cbn [length loop].
    replace (nth (length K + length X) (K ++ X ++ x :: rest) d) with x.
    2:{ rewrite app_assoc. rewrite <- app_length. rewrite <- (Nat.add_0_r (length (K ++ X))). rewrite nth_app_r. reflexivity. }
    cbn [filter]. destruct (p x) eqn:Ep; cbn [negb].
    + destruct X as [|d1 X0].
      * cbn [app length]. rewrite Nat.add_0_r. rewrite swap_same by (rewrite app_length; cbn; lia).
        specialize (IH (K ++ [x]) []). destruct IH as (X' & E & P). exists X'.
        rewrite app_length in E. cbn [length app] in E. rewrite Nat.add_0_r in E.
        rewrite <- app_assoc in E. cbn [app] in E. replace (length K + 1) with (S (length K)) in E by lia.
        rewrite E. split; [|exact P]. rewrite <- app_assoc. cbn [app length]. f_equal. lia.
      * cbn [length app]. rewrite swap_block.
        specialize (IH (K ++ [x]) (X0 ++ [d1])). destruct IH as (X' & E & P). exists X'.
        rewrite !app_length in E. cbn [length] in E.
        replace (K ++ x :: X0 ++ d1 :: rest) with ((K ++ [x]) ++ (X0 ++ [d1]) ++ rest) by (rewrite <- !app_assoc; reflexivity).
        replace (S (length K + S (length X0))) with (length K + 1 + (length X0 + 1)) by lia.
        replace (S (length K)) with (length K + 1) by lia. rewrite E. split.
        -- rewrite <- app_assoc. cbn [app length]. f_equal. lia.
        -- eapply Permutation_trans; [exact P|].
           change (d1 :: X0 ++ filter (fun a : A => negb (p a)) rest) with ((d1 :: X0) ++ filter (fun a : A => negb (p a)) rest).
           apply Permutation_app_tail. apply Permutation_sym. apply Permutation_cons_append.
    + specialize (IH K (X ++ [x])). destruct IH as (X' & E & P). exists X'.
      rewrite app_length in E. cbn [length] in E.
      replace (K ++ X ++ x :: rest) with (K ++ (X ++ [x]) ++ rest) by (rewrite <- !app_assoc; reflexivity).
      replace (S (length K + length X)) with (length K + (length X + 1)) by lia. rewrite E. split; [reflexivity|].
      eapply Permutation_trans; [exact P|]. rewrite <- app_assoc. reflexivity.
Qed.

(* C14: the returned prefix is exactly the selected elements in their original order; the argument
   array is a permutation of its original content *)
Theorem filter_in_place_spec s :
  fst (filter_in_place s) = filter p s /\ Permutation (snd (filter_in_place s)) s.
Proof.
  unfold filter_in_place. destruct (loop_spec s [] []) as (X' & E & P). cbn [app length Nat.add] in E. rewrite E.
  cbn [fst snd app]. split.
  - rewrite firstn_app, firstn_all, Nat.sub_diag. cbn [firstn]. apply app_nil_r.
  - cbn [app] in P. eapply Permutation_trans; [apply Permutation_app_head; exact P|].
    clear. induction s as [|a s IH]; cbn [filter]; [constructor|]. destruct (p a); cbn [negb app].
    + constructor. exact IH.
    + eapply Permutation_trans; [apply Permutation_sym, Permutation_middle|]. constructor. exact IH.
Qed.
End InPlace.
Print Assumptions filter_in_place_spec.
