From Coq Require Import List ZArith Lia Bool Arith.
Import ListNotations.
Require Import OctalCodec_proto Utf16Parse_proto Utf8_proto.
Local Open Scope Z_scope.
Arguments Z.of_nat : simpl never.
Arguments Z.mul : simpl never.
Arguments Z.add : simpl never.
Arguments Z.sub : simpl never.
Arguments Z.div : simpl never.
Arguments Z.modulo : simpl never.

(* Utf16Parse(Utf16Format(s)) = s for every valid UTF-8 string s (given as the scalar values it encodes). *)
Definition hexd (n : Z) : Z := if n <? 10 then 48 + n else 55 + n.
Definition hex4 (v : Z) : list Z := [hexd (v / 4096); hexd ((v / 256) mod 16); hexd ((v / 16) mod 16); hexd (v mod 16)].
Definition hi_s (r : Z) : Z := 55296 + (r - 65536) / 1024.            (* utf16.EncodeRune *)
Definition lo_s (r : Z) : Z := 56320 + (r - 65536) mod 1024.
Definition esc16 (r : Z) : list Z :=
  if r <? 65536 then [92; 117] ++ hex4 r else ([92; 117] ++ hex4 (hi_s r)) ++ [92; 117] ++ hex4 (lo_s r).
Definition utf16_format (rs : list Z) : list Z := concat (map esc16 rs).

Definition enc1 (r : Z) : list Z := if (0 <=? r) && (r <? 65536) then encode r else [0].
Definition enc2 (a b : Z) : list Z :=
  let r := 65536 + (a - 55296) * 1024 + (b - 56320) in if (65536 <=? r) && (r <=? 1114111) then encode r else [0;0;0;0].
Lemma enc1_len r : (1 <= length (enc1 r) <= 3)%nat.
Proof. unfold enc1, encode. destruct ((0 <=? r) && (r <? 65536)) eqn:E; [|cbn; lia]. apply andb_prop in E. destruct E as [_ E]. apply Z.ltb_lt in E.
  destruct (r <? 128); [cbn; lia|]. destruct (r <? 2048); [cbn; lia|]. destruct (Z.ltb_spec r 65536); [cbn; lia|lia]. Qed.
Lemma enc2_len a b : length (enc2 a b) = 4%nat.
Proof. unfold enc2. cbv zeta. destruct ((65536 <=? _) && (_ <=? 1114111)) eqn:E; [|reflexivity]. apply andb_prop in E. destruct E as [E _]. apply Z.leb_le in E.
  unfold encode. destruct (Z.ltb_spec (65536 + (a - 55296) * 1024 + (b - 56320)) 128); [lia|]. destruct (Z.ltb_spec (65536 + (a - 55296) * 1024 + (b - 56320)) 2048); [lia|].
  destruct (Z.ltb_spec (65536 + (a - 55296) * 1024 + (b - 56320)) 65536); [lia|]. reflexivity. Qed.
Notation uparse := (uparse enc1 enc2).

(* four formatted digits parse back to the value: 16-value sweep per digit, then arithmetic *)
Lemma digit_hexd n : 0 <= n < 16 -> digit (hexd n) = Some n.
Proof.
  intros H. assert (F : forallb (fun k => match digit (hexd (Z.of_nat k)) with Some m => m =? Z.of_nat k | None => false end) (seq 0 16) = true) by (vm_compute; reflexivity).
  rewrite forallb_forall in F. specialize (F (Z.to_nat n) ltac:(apply in_seq; lia)). rewrite Z2Nat.id in F by lia.
  destruct (digit (hexd n)) as [m|]; [|discriminate]. apply Z.eqb_eq in F. subst. reflexivity.
Qed.
Lemma pu_hex4 v : 0 <= v < 65536 -> pu 16 65535 0 0%nat (hex4 v) = (v, 4%nat, true).
Proof.
  intros Hv. unfold hex4.
  assert (D3 : 0 <= v / 4096 < 16) by (Z.div_mod_to_equations; lia).
  assert (D2 : 0 <= (v / 256) mod 16 < 16) by (Z.div_mod_to_equations; lia).
  assert (D1 : 0 <= (v / 16) mod 16 < 16) by (Z.div_mod_to_equations; lia).
  assert (D0 : 0 <= v mod 16 < 16) by (Z.div_mod_to_equations; lia).
  cbn [pu]. rewrite !digit_hexd by assumption.
  assert (E : ((0 * 16 + v / 4096) * 16 + (v / 256) mod 16) * 16 + (v / 16) mod 16 = v / 16) by (Z.div_mod_to_equations; lia).
  assert (E1 : (0 * 16 + v / 4096) * 16 + (v / 256) mod 16 = v / 256) by (Z.div_mod_to_equations; lia).
  assert (E0 : v / 16 * 16 + v mod 16 = v) by (Z.div_mod_to_equations; lia).
  destruct (Z.leb_spec 16 (v / 4096)); [lia|]. destruct (Z.ltb_spec 65535 (0 * 16 + v / 4096)); [lia|].
  destruct (Z.leb_spec 16 ((v / 256) mod 16)); [lia|]. rewrite E1. destruct (Z.ltb_spec 65535 (v / 256)); [Z.div_mod_to_equations; lia|].
  destruct (Z.leb_spec 16 ((v / 16) mod 16)); [lia|].
  assert (E2 : v / 256 * 16 + (v / 16) mod 16 = v / 16) by (Z.div_mod_to_equations; lia). rewrite E2.
  destruct (Z.ltb_spec 65535 (v / 16)); [Z.div_mod_to_equations; lia|].
  destruct (Z.leb_spec 16 (v mod 16)); [lia|]. rewrite E0. destruct (Z.ltb_spec 65535 v); [lia|]. reflexivity.
Qed.

Lemma is_u_at A rest : is_u (A ++ 92 :: 117 :: rest) (length A) = Some true.
Proof.
  unfold is_u. rewrite nth_error_app2 by lia. rewrite Nat.sub_diag. cbn [nth_error].
  rewrite nth_error_app2 by lia. replace (length A + 1 - length A)%nat with 1%nat by lia. reflexivity.
Qed.
Lemma slice_digits A (ds rest : list Z) : length ds = 4%nat ->
  slice (A ++ 92 :: 117 :: ds ++ rest) (length A + 2) (length A + 6) = Some ds.
Proof.
  intros Hd. set (bu := [92; 117] : list Z). change (A ++ 92 :: 117 :: ds ++ rest) with (A ++ bu ++ ds ++ rest). rewrite app_assoc.
  replace (length A + 2)%nat with (length (A ++ bu)) by (rewrite app_length; reflexivity).
  replace (length A + 6)%nat with (length (A ++ bu) + length ds)%nat by (rewrite app_length, Hd; unfold bu; cbn [length]; lia).
  apply slice_app_mid.
Qed.

(* one escape of a BMP scalar *)
Lemma step_bmp A r rest out fuel : 0 <= r < 65536 -> ~ (55296 <= r < 57344) -> (length out <= length A)%nat ->
  uparse (S fuel) (A ++ esc16 r ++ rest) (length A) (length A) out =
  uparse fuel (A ++ esc16 r ++ rest) (length A + 6) (length A + 6) (out ++ encode r).
Proof.
  intros Hr Hs Ho. unfold esc16. destruct (Z.ltb_spec r 65536); [|lia]. rewrite <- app_assoc. cbn [app].
  set (src := A ++ 92 :: 117 :: hex4 r ++ rest).
  assert (Hlen : length src = (length A + 6 + length rest)%nat) by (unfold src; rewrite app_length; cbn [length]; rewrite app_length; cbn [hex4 length]; lia).
  cbn [Utf16Parse_proto.uparse]. fold src.
  destruct (Nat.leb_spec (length src) (length A)); [lia|]. destruct (Nat.ltb_spec (length src - length A) 6); [lia|].
  unfold src at 1. rewrite is_u_at. unfold src at 1. rewrite slice_digits by reflexivity. rewrite pu_hex4 by lia. cbn [negb].
  unfold flush. rewrite Nat.ltb_irrefl.
  replace ((r <? 55296) || (57344 <=? r)) with true by (symmetry; apply orb_true_iff; destruct (Z.ltb_spec r 55296); [left; reflexivity|right; apply Z.leb_le; lia]).
  unfold write. replace (enc1 r) with (encode r) by (unfold enc1; destruct (Z.leb_spec 0 r); [|lia]; destruct (Z.ltb_spec r 65536); [reflexivity|lia]).
  assert (Hl : (length (encode r) <= 3)%nat).
  { pose proof (enc1_len r) as E. unfold enc1 in E. destruct (Z.leb_spec 0 r); [|lia]. destruct (Z.ltb_spec r 65536); [|lia]. cbn [andb] in E. lia. }
  destruct (Nat.leb_spec (length out + length (encode r)) (length src)); [reflexivity|lia].
Qed.

(* a surrogate pair for a supplementary scalar *)
Lemma step_pair A r rest out fuel : 65536 <= r <= 1114111 -> (length out <= length A)%nat ->
  uparse (S fuel) (A ++ esc16 r ++ rest) (length A) (length A) out =
  uparse fuel (A ++ esc16 r ++ rest) (length A + 12) (length A + 12) (out ++ encode r).
Proof.
  intros Hr Ho. unfold esc16. destruct (Z.ltb_spec r 65536); [lia|].
  assert (Hh : 55296 <= hi_s r < 56320) by (unfold hi_s; Z.div_mod_to_equations; lia).
  assert (Hl : 56320 <= lo_s r < 57344) by (unfold lo_s; Z.div_mod_to_equations; lia).
  rewrite <- !app_assoc. cbn [app].
  set (src := A ++ 92 :: 117 :: hex4 (hi_s r) ++ 92 :: 117 :: hex4 (lo_s r) ++ rest).
  assert (Hlen : length src = (length A + 12 + length rest)%nat).
  { unfold src. rewrite app_length. cbn [length]. rewrite app_length. cbn [length]. rewrite app_length. cbn [hex4 length]. lia. }
  cbn [Utf16Parse_proto.uparse]. fold src.
  destruct (Nat.leb_spec (length src) (length A)); [lia|]. destruct (Nat.ltb_spec (length src - length A) 6); [lia|].
  unfold src at 1. rewrite is_u_at. unfold src at 1. rewrite slice_digits by reflexivity. rewrite pu_hex4 by lia. cbn [negb].
  unfold flush. rewrite Nat.ltb_irrefl.
  destruct (Z.ltb_spec (hi_s r) 55296); [lia|]. destruct (Z.leb_spec 57344 (hi_s r)); [lia|]. cbn [orb].
  destruct (Z.leb_spec 55296 (hi_s r)); [|lia]. destruct (Z.ltb_spec (hi_s r) 56320); [|lia]. cbn [andb].
  destruct (Nat.ltb_spec (length src - (length A + 6)) 6); [lia|].
  (* the second escape sits at offset |A| + 6 *)
  assert (Esrc : src = (A ++ 92 :: 117 :: hex4 (hi_s r)) ++ 92 :: 117 :: hex4 (lo_s r) ++ rest) by (unfold src; rewrite <- app_assoc; reflexivity).
  assert (El : length (A ++ 92 :: 117 :: hex4 (hi_s r)) = (length A + 6)%nat) by (rewrite app_length; cbn [length hex4]; lia).
  rewrite Esrc at 1. rewrite <- El at 1. rewrite is_u_at.
  rewrite Esrc at 1. rewrite <- El at 1 2. rewrite slice_digits by reflexivity. rewrite pu_hex4 by lia. cbn [negb].
  destruct (Z.leb_spec 56320 (lo_s r)); [|lia]. destruct (Z.ltb_spec (lo_s r) 57344); [|lia]. cbn [andb].
  unfold write. rewrite enc2_len.
  assert (E2 : enc2 (hi_s r) (lo_s r) = encode r).
  { unfold enc2. cbv zeta. assert (Er : 65536 + (hi_s r - 55296) * 1024 + (lo_s r - 56320) = r) by (unfold hi_s, lo_s; Z.div_mod_to_equations; lia).
    rewrite Er. destruct (Z.leb_spec 65536 r); [|lia]. destruct (Z.leb_spec r 1114111); [|lia]. reflexivity. }
  rewrite E2. destruct (Nat.leb_spec (length out + 4) (length src)); [|lia].
  rewrite ?El. replace (length A + 6 + 6)%nat with (length A + 12)%nat by lia. reflexivity.
Qed.

Lemma esc16_len r : 0 <= r -> length (esc16 r) = if r <? 65536 then 6%nat else 12%nat.
Proof. intros H. unfold esc16. destruct (r <? 65536); reflexivity. Qed.

Lemma roundtrip_go : forall rs fuel A out,
  Forall valid_scalar rs -> (length out <= length A)%nat -> (length rs < fuel)%nat ->
  uparse fuel (A ++ utf16_format rs) (length A) (length A) out = Some (out ++ concat (map encode rs)).
Proof.
  induction rs as [|r rs IH]; intros fuel A out Hv Ho Hf; (destruct fuel as [|fu]; [lia|]).
  - unfold utf16_format. cbn [map concat]. rewrite !app_nil_r. cbn [Utf16Parse_proto.uparse]. rewrite Nat.leb_refl.
    unfold finish. rewrite Nat.ltb_irrefl. reflexivity.
  - inversion Hv as [|? ? Hr Hvr]; subst. unfold utf16_format. cbn [map concat]. fold (utf16_format rs).
    assert (Hr0 : 0 <= r <= 1114111) by (destruct Hr; lia).
    destruct (Z.ltb_spec r 65536) as [Hb|Hb].
    + rewrite step_bmp by (auto; destruct Hr; lia).
      rewrite app_assoc. replace (length A + 6)%nat with (length (A ++ esc16 r)) by (rewrite app_length, esc16_len by lia; destruct (Z.ltb_spec r 65536); lia).
      rewrite IH; auto.
      * rewrite <- app_assoc. reflexivity.
      * rewrite !app_length. rewrite esc16_len by lia. destruct (Z.ltb_spec r 65536); [|lia].
        pose proof (enc1_len r) as E. unfold enc1 in E. destruct (Z.leb_spec 0 r); [|lia]. destruct (Z.ltb_spec r 65536); [|lia]. cbn [andb] in E. lia.
      * cbn [length] in Hf. lia.
    + rewrite step_pair by (auto; lia).
      rewrite app_assoc. replace (length A + 12)%nat with (length (A ++ esc16 r)) by (rewrite app_length, esc16_len by lia; destruct (Z.ltb_spec r 65536); lia).
      rewrite IH; auto.
      * rewrite <- app_assoc. reflexivity.
      * rewrite !app_length. rewrite esc16_len by lia. destruct (Z.ltb_spec r 65536); [lia|].
        assert (length (encode r) = 4%nat); [|lia]. unfold encode. destruct (Z.ltb_spec r 128); [lia|]. destruct (Z.ltb_spec r 2048); [lia|]. destruct (Z.ltb_spec r 65536); [lia|reflexivity].
      * cbn [length] in Hf. lia.
Qed.

Theorem utf16_roundtrip rs : Forall valid_scalar rs ->
  utf16_parse enc1 enc2 (utf16_format rs) = Some (concat (map encode rs)).
Proof.
  intros H. unfold utf16_parse. apply (roundtrip_go rs _ [] [] H); cbn [length]; try lia.
  assert (length rs <= length (utf16_format rs))%nat; [|lia].
  unfold utf16_format. clear -H. induction rs as [|r t IHt]; cbn [map concat length]; [lia|]. inversion H as [|? ? Hr Ht]; subst.
  rewrite app_length, esc16_len by (destruct Hr; lia). specialize (IHt Ht). destruct (r <? 65536); lia.
Qed.
Print Assumptions utf16_roundtrip.
