From Coq Require Import List ZArith Lia Bool Arith.
Import ListNotations.
Local Open Scope Z_scope.

(* ---- executable step model of listz.SyncList (fixed order: AddLen before StoreTail if [fixed]) ---- *)
Inductive pc :=
| Idle
| PushLoadTail (v : Z)
| PushLoadNext (v : Z) (t : nat)
| PushCas (v : Z) (t : nat) (nx : option nat)
| PushA (n : nat)            (* first step after a successful link *)
| PushB (n : nat)            (* second step after a successful link *)
| PushYield (v : Z)
| PopLoadHead
| PopLoadTail (h : nat)
| PopLoadNext (h : nat)
| PopCas (h : nat) (nx : option nat)
| PopTake (nx : nat)
| PopDec (v : option Z).

Inductive op := OpPush (v : Z) | OpPop.

Record shared := { vals : list (option Z); head : nat; tail : nat; len : Z }.

Definition next_of (s : shared) (i : nat) : option nat :=
  if Nat.ltb (S i) (length (vals s)) then Some (S i) else None.

Section Order.
Variable fixed : bool.  (* true: count, then publish tail; false: the code as found *)

Definition storeTail s n := {| vals := vals s; head := head s; tail := n; len := len s |}.
Definition addLen s d := {| vals := vals s; head := head s; tail := tail s; len := len s + d |}.

(* one atomic step of a thread at [p]; [o] is the op it starts if Idle *)
Definition tstep (s : shared) (p : pc) (o : op) : shared * pc :=
  match p with
  | Idle => match o with OpPush v => (s, PushLoadTail v) | OpPop => (s, PopLoadHead) end
  | PushLoadTail v => (s, PushLoadNext v (tail s))
  | PushLoadNext v t => (s, PushCas v t (next_of s t))
  | PushCas v t nx =>
      match nx with
      | Some _ => (s, PushYield v)
      | None => match next_of s t with
                | None => ({| vals := vals s ++ [Some v]; head := head s; tail := tail s; len := len s |},
                           PushA (length (vals s)))
                | Some _ => (s, PushYield v)
                end
      end
  | PushA n => if fixed then (addLen s 1, PushB n) else (storeTail s n, PushB n)
  | PushB n => if fixed then (storeTail s n, Idle) else (addLen s 1, Idle)
  | PushYield v => (s, PushLoadTail v)
  | PopLoadHead => (s, PopLoadTail (head s))
  | PopLoadTail h => if Nat.eqb h (tail s) then (s, Idle) else (s, PopLoadNext h)
  | PopLoadNext h => (s, PopCas h (next_of s h))
  | PopCas h nx =>
      if Nat.eqb (head s) h then
        match nx with
        | Some n => ({| vals := vals s; head := n; tail := tail s; len := len s |}, PopTake n)
        | None => (s, Idle) (* would be a nil dereference in Go; shown unreachable *)
        end
      else (s, Idle)
  | PopTake n => (s, PopDec (nth n (vals s) None))
  | PopDec _ => (addLen s (-1), Idle)
  end.

Record config := { sh : shared; ths : list pc }.

Fixpoint upd {A} (l : list A) (i : nat) (x : A) : list A :=
  match l, i with
  | [], _ => []
  | _ :: t, O => x :: t
  | h :: t, S j => h :: upd t j x
  end.

Definition step (c : config) (e : nat * op) : config :=
  let '(i, o) := e in
  match nth_error (ths c) i with
  | None => c
  | Some p => let '(s', p') := tstep (sh c) p o in {| sh := s'; ths := upd (ths c) i p' |}
  end.

Definition run (c : config) (sched : list (nat * op)) : config := fold_left step sched c.
Definition init (n : nat) : config :=
  {| sh := {| vals := [None]; head := 0; tail := 0; len := 0 |}; ths := repeat Idle n |}.
End Order.

(* ---- the code as found: Len() can be negative ---- *)
Example len_negative_refuted :
  exists sched, len (sh (run false (init 2) sched)) = -1.
Proof.
  exists [(0%nat, OpPush 7); (0%nat, OpPop); (0%nat, OpPop); (0%nat, OpPop); (0%nat, OpPop) (* link, store tail *);
          (1%nat, OpPop); (1%nat, OpPop); (1%nat, OpPop); (1%nat, OpPop); (1%nat, OpPop); (1%nat, OpPop); (1%nat, OpPop)].
  vm_compute. reflexivity.
Qed.

(* ---- the repaired order: invariant for every number of threads, every schedule ---- *)
Definition weight (p : pc) : Z :=
  match p with PushB _ => 1 | PopTake _ => 1 | PopDec _ => 1 | _ => 0 end.
Fixpoint sumw (l : list pc) : Z := match l with [] => 0 | p :: t => weight p + sumw t end.

Definition linked (p : pc) : bool := match p with PushA _ | PushB _ => true | _ => false end.
Fixpoint nlinked (l : list pc) : Z := match l with [] => 0 | p :: t => (if linked p then 1 else 0) + nlinked t end.

(* per-thread assertion, stable under growth of head/tail/vals *)
Definition assert (s : shared) (p : pc) : Prop :=
  match p with
  | PushLoadNext _ t => (t <= tail s)%nat
  | PushCas _ t _ => (t <= tail s)%nat
  | PushA n | PushB n => n = S (tail s) /\ S n = length (vals s)
  | PopLoadTail h => (h <= head s)%nat
  | PopLoadNext h => (h <= head s)%nat /\ (h = head s -> (h < tail s)%nat)
  | PopCas h nx => (h <= head s)%nat /\ (h = head s -> (h < tail s)%nat /\ nx = Some (S h))
  | _ => True
  end.

Definition Inv (c : config) : Prop :=
  let s := sh c in
  (head s <= tail s)%nat /\
  (S (tail s) + Z.to_nat (nlinked (ths c)) = length (vals s))%nat /\
  0 <= nlinked (ths c) <= 1 /\
  len s = Z.of_nat (tail s) - Z.of_nat (head s) + sumw (ths c) /\
  Forall (assert s) (ths c).

Arguments Z.add : simpl never.
Arguments Z.sub : simpl never.
Arguments Z.of_nat : simpl never.
Lemma sumw_upd l i p q : nth_error l i = Some p -> sumw (upd l i q) = sumw l - weight p + weight q.
Proof.
  revert i; induction l as [|a l IH]; intros [|i] H; cbn [upd sumw nth_error] in *; try discriminate.
  - inversion H; subst; lia.
  - rewrite (IH _ H); lia.
Qed.
Lemma nlinked_upd l i p q : nth_error l i = Some p ->
  nlinked (upd l i q) = nlinked l - (if linked p then 1 else 0) + (if linked q then 1 else 0).
Proof.
  revert i; induction l as [|a l IH]; intros [|i] H; cbn [upd nlinked nth_error] in *; try discriminate.
  - inversion H; subst; destruct (linked p), (linked q); lia.
  - rewrite (IH _ H); lia.
Qed.
Lemma sumw_nonneg l : 0 <= sumw l.
Proof. induction l as [|a l IH]; cbn [sumw]; [lia|]. destruct a; cbn [weight]; lia. Qed.
Lemma nlinked_nonneg l : 0 <= nlinked l.
Proof. induction l as [|a l IH]; cbn [nlinked]; [lia|]. destruct (linked a); lia. Qed.
Lemma nlinked_in l p : In p l -> linked p = true -> 1 <= nlinked l.
Proof.
  induction l as [|a l IH]; cbn [nlinked In]; [tauto|]. intros [->|H] Hl.
  - rewrite Hl. pose proof (nlinked_nonneg l). lia.
  - specialize (IH H Hl). destruct (linked a); lia.
Qed.
Lemma Forall_upd {A} (P : A -> Prop) l i x : Forall P l -> P x -> Forall P (upd l i x).
Proof.
  intros H; revert i; induction H as [|a l Ha Hl IH]; intros [|i] Hx; simpl; constructor; auto.
Qed.

(* monotone growth preserves every assertion of a thread that did not move, except those tied to tail *)
Definition grows (s s' : shared) : Prop :=
  (head s <= head s')%nat /\ (tail s <= tail s')%nat /\ (length (vals s) <= length (vals s'))%nat.


Lemma Forall_upd_others {A} (P : A -> Prop) l i x :
  (forall j q, j <> i -> nth_error l j = Some q -> P q) -> P x -> Forall P (upd l i x).
Proof.
  revert i; induction l as [|a l IH]; intros [|i] H Hx; cbn [upd]; constructor; auto.
  - apply Forall_forall. intros q Hq. apply In_nth_error in Hq as [j Hj]. apply (H (S j)); [lia|exact Hj].
  - apply (H 0%nat); [lia|reflexivity].
  - apply IH; auto. intros j q Hj Hq. apply (H (S j)); [lia|exact Hq].
Qed.
Lemma linked_two l i j p q : i <> j -> nth_error l i = Some p -> nth_error l j = Some q ->
  linked p = true -> linked q = true -> 2 <= nlinked l.
Proof.
  revert i j; induction l as [|a l IH]; intros [|i] [|j] Hij Hi Hj Hp Hq; cbn [nth_error nlinked] in *;
    try discriminate; try lia.
  - inversion Hi; subst. rewrite Hp. pose proof (nlinked_in l q (nth_error_In _ _ Hj) Hq). lia.
  - inversion Hj; subst. rewrite Hq. pose proof (nlinked_in l p (nth_error_In _ _ Hi) Hp). lia.
  - assert (i <> j) by lia. specialize (IH _ _ H Hi Hj Hp Hq). destruct (linked a); lia.
Qed.

Theorem step_inv c e : Inv c -> Inv (step true c e).
Proof.
  destruct e as [i o]. unfold step. destruct (nth_error (ths c) i) as [p|] eqn:Hi; [|auto].
  destruct c as [s l]; unfold Inv at 1; cbn [sh ths] in *. intros (Hht & Hlen & Hone & Hcnt & Hall).
  assert (Hget : forall j q, nth_error l j = Some q -> assert s q)
    by (intros j q Hq; rewrite Forall_forall in Hall; apply Hall; eapply nth_error_In; eauto).
  pose proof (Hget _ _ Hi) as Hp.
  assert (Hin : In p l) by (eapply nth_error_In; eauto).
  assert (Huniq : forall j q, j <> i -> nth_error l j = Some q -> linked p = true -> linked q = false).
  { intros j q Hj Hq Hl. destruct (linked q) eqn:E; [|reflexivity].
    pose proof (linked_two _ _ _ _ _ Hj Hq Hi E Hl). lia. }
  unfold Inv; cbn [sh ths].
  destruct p; cbn [tstep assert linked] in *.
  all: try (destruct o).
  all: repeat match goal with
         | |- context [let '(_, _) := (if ?b then _ else _) in _] => destruct b eqn:?
         | |- context [match ?x with Some _ => _ | None => _ end] => destruct x eqn:?
         end; cbn [sh ths vals head tail len addLen storeTail].
  all: rewrite ?(sumw_upd _ _ _ _ Hi), ?(nlinked_upd _ _ _ _ Hi); cbn [weight linked].
  all: try (pose proof (nlinked_in _ _ Hin eq_refl)).
  all: unfold next_of in *.
  all: repeat match goal with H : (if ?b then _ else _) = _ |- _ => destruct b eqn:?; try discriminate end.
  all: repeat match goal with
         | H : Nat.ltb _ _ = true |- _ => apply Nat.ltb_lt in H
         | H : Nat.ltb _ _ = false |- _ => apply Nat.ltb_ge in H
         | H : Nat.eqb _ _ = true |- _ => apply Nat.eqb_eq in H
         | H : Nat.eqb _ _ = false |- _ => apply Nat.eqb_neq in H
         | H : Some _ = Some _ |- _ => inversion H; subst; clear H
         end.
  all: rewrite ?app_length; cbn [length].
  all: repeat match goal with
         | H : _ /\ _ |- _ => destruct H
         | H : ?x = ?y -> _ |- _ => let E := fresh in assert (E : x = y) by lia; specialize (H E); clear E
         | H : Some _ = Some _ |- _ => inversion H; subst; clear H
         end.
  all: repeat match goal with |- _ /\ _ => split end.
  all: try lia.
  all: try solve [
        apply Forall_upd_others; cbn [assert vals head tail len addLen storeTail];
        [ intros j q Hj Hq; pose proof (Hget _ _ Hq) as Hq';
          try (pose proof (Huniq _ _ Hj Hq eq_refl));
          pose proof (nth_error_In _ _ Hq) as Hqin;
          destruct q; cbn [assert linked vals head tail len addLen storeTail] in *;
          try (pose proof (nlinked_in _ _ Hqin eq_refl));
          rewrite ?app_length; cbn [length];
          try tauto; try discriminate; try lia; try (intuition (try lia; try congruence))
        | repeat match goal with |- context [if ?b then _ else _] => destruct b eqn:? end;
          repeat match goal with
          | H : Nat.ltb _ _ = true |- _ => apply Nat.ltb_lt in H
          | H : Nat.ltb _ _ = false |- _ => apply Nat.ltb_ge in H end;
          rewrite ?app_length; cbn [length];
          try tauto; try lia; try (intuition (try lia; try congruence)) ] ].
Qed.

Lemma init_inv n : Inv (init n).
Proof.
  unfold Inv, init; cbn [sh ths vals head tail len length].
  assert (Hs : sumw (repeat Idle n) = 0) by (clear; induction n as [|n IH]; cbn [repeat sumw weight]; lia).
  assert (Hl : nlinked (repeat Idle n) = 0) by (clear; induction n as [|n IH]; cbn [repeat nlinked linked]; lia).
  rewrite Hs, Hl. repeat split; try (cbn; lia). apply Forall_forall. intros p Hp. apply repeat_spec in Hp. subst. exact I.
Qed.

Theorem run_inv sched : forall c, Inv c -> Inv (run true c sched).
Proof. induction sched as [|e sched IH]; intros c H; cbn [run fold_left]; [exact H|]. apply IH, step_inv, H. Qed.

(* C11, Len clause, repaired order: for every number of threads and every schedule *)
Theorem len_sane n sched :
  let s := sh (run true (init n) sched) in
  0 <= Z.of_nat (tail s) - Z.of_nat (head s) <= len s.
Proof.
  cbv zeta. destruct (run_inv sched (init n) (init_inv n)) as (Hht & _ & _ & Hcnt & _).
  pose proof (sumw_nonneg (ths (run true (init n) sched))). lia.
Qed.
Print Assumptions len_sane.
