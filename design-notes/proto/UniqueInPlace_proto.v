From Coq Require Import List Arith Lia Bool Permutation.
Import ListNotations.

(* slicez.UniqueInPlace / UniqueByKeyInPlace (slices.go:112-166): the swap-to-front partition of FilterInPlace_proto
   with a predicate that carries state (the seen-map and uniqueCount). *)
Section InPlace.
Variable A : Type.
Variable d : A.
Variable St : Type.
Variable step : St -> A -> St * bool.

(* what a plain left-to-right pass keeps / rejects *)
Fixpoint kept (st : St) (l : list A) : list A :=
  match l with [] => [] | x :: t => let '(st', b) := step st x in if b then x :: kept st' t else kept st' t end.
Fixpoint rejected (st : St) (l : list A) : list A :=
  match l with [] => [] | x :: t => let '(st', b) := step st x in if b then rejected st' t else x :: rejected st' t end.

Fixpoint upd (l : list A) (i : nat) (x : A) : list A :=
  match l, i with [], _ => [] | _ :: t, O => x :: t | h :: t, S j => h :: upd t j x end.
Definition swap (s : list A) (i j : nat) : list A := upd (upd s i (nth j s d)) j (nth i s d).

(* for i := range s { <update state with s[i]>; if <new> { s[remain], s[i] = s[i], s[remain]; remain++ } } *)
Fixpoint loop (n : nat) (st : St) (s : list A) (i remain : nat) : list A * nat :=
  match n with
  | O => (s, remain)
  | S n' => let '(st', b) := step st (nth i s d) in
            if b then loop n' st' (swap s remain i) (S i) (S remain) else loop n' st' s (S i) remain
  end.
Definition in_place (st0 : St) (s : list A) : list A * list A :=     (* (returned prefix, whole array afterwards) *)
  let '(s', r) := loop (length s) st0 s 0 0 in (firstn r s', s').

Lemma upd_app_r (a b : list A) i x : upd (a ++ b) (length a + i) x = a ++ upd b i x.
Proof. induction a as [|h a IH]; cbn [app length upd Nat.add]; [reflexivity|]. f_equal. apply IH. Qed.
Lemma nth_app_r (a b : list A) i : nth (length a + i) (a ++ b) d = nth i b d.
Proof. rewrite app_nth2 by lia. f_equal. lia. Qed.

(* swapping the first of a block of rejected elements with the element right after the block *)
Lemma swap_block (K X R : list A) (d1 x : A) :
  swap (K ++ d1 :: X ++ x :: R) (length K) (length K + S (length X)) = K ++ x :: X ++ d1 :: R.
Proof.
  unfold swap.
  replace (nth (length K + S (length X)) (K ++ d1 :: X ++ x :: R) d) with x.
  2:{ rewrite nth_app_r. cbn [nth]. rewrite <- (Nat.add_0_r (length X)). rewrite (nth_app_r X (x :: R) 0). reflexivity. }
  replace (nth (length K) (K ++ d1 :: X ++ x :: R) d) with d1.
  2:{ rewrite <- (Nat.add_0_r (length K)). rewrite nth_app_r. reflexivity. }
  rewrite <- (Nat.add_0_r (length K)) at 1. rewrite upd_app_r. cbn [upd].
  rewrite upd_app_r. cbn [upd]. f_equal. f_equal.
  rewrite <- (Nat.add_0_r (length X)). rewrite upd_app_r. reflexivity.
Qed.
Lemma swap_same (s : list A) i : i < length s -> swap s i i = s.
Proof.
  unfold swap. revert i; induction s as [|h s IH]; intros [|i] H; cbn [length] in H; try lia; cbn [upd nth]; [reflexivity|].
  f_equal. apply IH. lia.
Qed.

(* invariant: array = kept (in original order) ++ rejected-so-far (some order) ++ untouched rest *)
Lemma loop_spec : forall rest st K X, exists X',
  loop (length rest) st (K ++ X ++ rest) (length K + length X) (length K) =
    (K ++ kept st rest ++ X', length K + length (kept st rest)) /\
  Permutation X' (X ++ rejected st rest).
Proof.
  induction rest as [|x rest IH]; intros st K X.
  - exists X. cbn [loop length kept rejected app]. rewrite !app_nil_r, Nat.add_0_r. split; [reflexivity|apply Permutation_refl].
  - cbn [length loop].
    replace (nth (length K + length X) (K ++ X ++ x :: rest) d) with x.
    2:{ rewrite app_assoc. rewrite <- app_length. rewrite <- (Nat.add_0_r (length (K ++ X))). rewrite nth_app_r. reflexivity. }
    cbn [kept rejected]. destruct (step st x) as [st' b] eqn:Ep. destruct b.
    + destruct X as [|d1 X0].
      * cbn [app length]. rewrite Nat.add_0_r. rewrite swap_same by (rewrite app_length; cbn; lia).
        specialize (IH st' (K ++ [x]) []). destruct IH as (X' & E & P). exists X'.
        rewrite app_length in E. cbn [length app] in E. rewrite Nat.add_0_r in E.
        rewrite <- app_assoc in E. cbn [app] in E. replace (length K + 1) with (S (length K)) in E by lia.
        rewrite E. split; [|exact P]. rewrite <- app_assoc. cbn [app length]. f_equal. lia.
      * cbn [length app]. rewrite swap_block.
        specialize (IH st' (K ++ [x]) (X0 ++ [d1])). destruct IH as (X' & E & P). exists X'.
        rewrite !app_length in E. cbn [length] in E.
        replace (K ++ x :: X0 ++ d1 :: rest) with ((K ++ [x]) ++ (X0 ++ [d1]) ++ rest) by (rewrite <- !app_assoc; reflexivity).
        replace (S (length K + S (length X0))) with (length K + 1 + (length X0 + 1)) by lia.
        replace (S (length K)) with (length K + 1) by lia. rewrite E. split.
        -- rewrite <- app_assoc. cbn [app length]. f_equal. lia.
        -- eapply Permutation_trans; [exact P|].
           change (d1 :: X0 ++ rejected st' rest) with ((d1 :: X0) ++ rejected st' rest).
           apply Permutation_app_tail. apply Permutation_sym. apply Permutation_cons_append.
    + specialize (IH st' K (X ++ [x])). destruct IH as (X' & E & P). exists X'.
      rewrite app_length in E. cbn [length] in E.
      replace (K ++ X ++ x :: rest) with (K ++ (X ++ [x]) ++ rest) by (rewrite <- !app_assoc; reflexivity).
      replace (S (length K + length X)) with (length K + (length X + 1)) by lia. rewrite E. split; [reflexivity|].
      eapply Permutation_trans; [exact P|]. rewrite <- app_assoc. reflexivity.
Qed.

(* C14: the returned prefix is what a plain pass would keep, in the original order; the argument
   array is a permutation of its original content *)
Theorem in_place_spec st0 s :
  fst (in_place st0 s) = kept st0 s /\ Permutation (snd (in_place st0 s)) s.
Proof.
  unfold in_place. destruct (loop_spec s st0 [] []) as (X' & E & P). cbn [app length Nat.add] in E. rewrite E.
  cbn [fst snd app]. split.
  - rewrite firstn_app, firstn_all, Nat.sub_diag. cbn [firstn]. apply app_nil_r.
  - cbn [app] in P. eapply Permutation_trans; [apply Permutation_app_head; exact P|].
    clear. revert st0. induction s as [|a s IH]; intros st0; cbn [kept rejected]; [constructor|].
    destruct (step st0 a) as [st' b]. destruct b; cbn [app].
    + constructor. apply IH.
    + eapply Permutation_trans; [apply Permutation_sym, Permutation_middle|]. constructor. apply IH.
Qed.
End InPlace.

(* ---- the len(seen) trick: "seen[k] = {}; if uniqueCount < len(seen) { keep; uniqueCount = len(seen) }" ---- *)
Section Unique.
Variable T K : Type.
Variable key : T -> K.
Variable keq : forall a b : K, {a = b} + {a <> b}.
Definition memb (k : K) (l : list K) : bool := if in_dec keq k l then true else false.
Definition ustate := (list K * nat)%type.                         (* the map's key set, uniqueCount *)
Definition ustep (st : ustate) (v : T) : ustate * bool :=
  let '(seen, cnt) := st in
  let seen' := if memb (key v) seen then seen else key v :: seen in
  if cnt <? length seen' then ((seen', length seen'), true) else ((seen', cnt), false).

(* first occurrence of every key, in order *)
Fixpoint firsts (seen : list K) (l : list T) : list T :=
  match l with
  | [] => []
  | v :: t => if memb (key v) seen then firsts seen t else v :: firsts (key v :: seen) t
  end.

Theorem unique_kept : forall l seen, kept T ustate ustep (seen, length seen) l = firsts seen l.
Proof.
  induction l as [|v t IH]; intros seen; cbn [kept firsts]; [reflexivity|]. unfold ustep at 1.
  destruct (memb (key v) seen).
  - rewrite Nat.ltb_irrefl. apply IH.
  - cbn [length]. destruct (Nat.ltb_spec (length seen) (S (length seen))); [|lia]. f_equal. apply (IH (key v :: seen)).
Qed.

Lemma firsts_spec : forall l seen,
  NoDup (map key (firsts seen l)) /\ (forall v, In v (firsts seen l) -> In v l /\ ~ In (key v) seen) /\
  (forall v, In v l -> In (key v) seen \/ In (key v) (map key (firsts seen l))).
Proof.
  induction l as [|v t IH]; intros seen; cbn [firsts]; [cbn [map]; split; [constructor|split; intros ? []]|].
  unfold memb. destruct (in_dec keq (key v) seen) as [Hin|Hin].
  - destruct (IH seen) as (A & B & C). repeat split; auto.
    + right. apply B; auto.
    + apply B; auto.
    + intros w [<-|Hw]; auto.
  - destruct (IH (key v :: seen)) as (A & B & C). cbn [map]. repeat split.
    + constructor; auto. intros H. apply in_map_iff in H. destruct H as (w & Ew & Hw). apply B in Hw. destruct Hw as [_ Hw]. apply Hw. left. auto.
    + destruct H as [<-|H]; [left; reflexivity|right; apply B; auto].
    + destruct H as [<-|H]; auto. apply B in H. intros H'. apply (proj2 H). right; auto.
    + intros w [<-|Hw]; [right; left; reflexivity|]. destruct (C w Hw) as [[E|H]|H]; auto; right; [left; auto|right; auto].
Qed.

(* UniqueByKeyInPlace: returned prefix = first occurrences; array permuted *)
Corollary unique_in_place (d : T) (s : list T) :
  fst (in_place T d ustate ustep ([], 0) s) = firsts [] s /\ Permutation (snd (in_place T d ustate ustep ([], 0) s)) s.
Proof. destruct (in_place_spec T d ustate ustep ([], 0) s) as [H1 H2]. split; auto. rewrite H1. apply (unique_kept s []). Qed.
End Unique.
Print Assumptions unique_in_place.
Print Assumptions firsts_spec.
