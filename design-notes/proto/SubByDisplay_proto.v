From Coq Require Import List ZArith Lia Bool Arith.
Import ListNotations.

(* strz.SubByDisplay (strs.go:131-152). `for i, v := range s` yields, per decoding step, the rune v and consumes
   w bytes: w = RuneLen(v) for a well-formed rune, but w = 1 with v = U+FFFD for a byte that is not valid UTF-8. *)
Definition step := (nat * Z)%type.                       (* bytes consumed, rune *)
Definition rune_len (v : Z) : nat :=
  if (v <? 128)%Z then 1 else if (v <? 2048)%Z then 2 else if (v <? 65536)%Z then 3 else 4.
Definition disp (v : Z) : nat := if (v <? 128)%Z then 1 else 2.
Definition bytes (rs : list step) : nat := fold_right (fun x a => fst x + a) 0 rs.

(* None = s[:end] with end > len(s): panic *)
Definition cut (total e : nat) : option nat := if e <=? total then Some e else None.

(* as found: end += utf8.RuneLen(v) *)
Fixpoint loop_found (rs : list step) (limit dpl e : nat) : nat :=
  match rs with
  | [] => e
  | (w, v) :: t => let dpl' := dpl + disp v in if limit <? dpl' then e else loop_found t limit dpl' (e + rune_len v)
  end.
Definition sub_by_display_found (rs : list step) (limit : nat) : option nat :=
  if bytes rs <=? limit then Some (bytes rs) else cut (bytes rs) (loop_found rs limit 0 0).

(* repaired: return s[:i] at the byte index of the first rune that does not fit *)
Fixpoint loop_fixed (rs : list step) (limit dpl i : nat) : nat :=
  match rs with
  | [] => i
  | (w, v) :: t => let dpl' := dpl + disp v in if limit <? dpl' then i else loop_fixed t limit dpl' (i + w)
  end.
Definition sub_by_display_fixed (rs : list step) (limit : nat) : option nat :=
  if bytes rs <=? limit then Some (bytes rs) else cut (bytes rs) (loop_fixed rs limit 0 0).

Definition invalid_byte : step := (1, 65533%Z).
Example sub_by_display_refuted : sub_by_display_found (repeat invalid_byte 5) 4 = None.      (* "\xff\xff\xff\xff\xff", 4 *)
Proof. reflexivity. Qed.
Example sub_by_display_fixed_ok : sub_by_display_fixed (repeat invalid_byte 5) 4 = Some 2.
Proof. reflexivity. Qed.

Lemma loop_fixed_bound : forall rs limit dpl i, i <= loop_fixed rs limit dpl i <= i + bytes rs.
Proof.
  induction rs as [|[w v] t IH]; intros limit dpl i; cbn [loop_fixed bytes fold_right fst]; [lia|].
  destruct (limit <? dpl + disp v); [lia|]. specialize (IH limit (dpl + disp v) (i + w)). unfold bytes in *. lia.
Qed.

(* never panics, on any byte string *)
Theorem sub_by_display_total rs limit : sub_by_display_fixed rs limit <> None.
Proof.
  unfold sub_by_display_fixed, cut. destruct (bytes rs <=? limit); [discriminate|].
  pose proof (loop_fixed_bound rs limit 0 0). destruct (Nat.leb_spec (loop_fixed rs limit 0 0) (bytes rs)); [discriminate|lia].
Qed.

(* and returns the longest prefix of whole runes whose display width fits *)
Definition width (rs : list step) : nat := fold_right (fun x a => disp (snd x) + a) 0 rs.
Theorem loop_fixed_spec : forall rs limit dpl i,
  exists k, loop_fixed rs limit dpl i = i + bytes (firstn k rs) /\ dpl + width (firstn k rs) <= Nat.max limit dpl /\
            (k < length rs -> limit < dpl + width (firstn (S k) rs)).
Proof.
  induction rs as [|[w v] t IH]; intros limit dpl i; cbn [loop_fixed].
  - exists 0. cbn. split; [lia|split; lia].
  - destruct (Nat.ltb_spec limit (dpl + disp v)).
    + exists 0. cbn [firstn bytes width fold_right length snd]. split; [lia|]. split; [lia|]. intros _. lia.
    + destruct (IH limit (dpl + disp v) (i + w)) as (k & E & Hw & Hn). exists (S k).
      cbn [firstn bytes width fold_right fst snd length]. unfold bytes, width in *. split; [lia|]. split; [lia|].
      intros Hk. specialize (Hn ltac:(lia)). cbn [firstn fold_right snd] in *. lia.
Qed.
Print Assumptions sub_by_display_total.
Print Assumptions loop_fixed_spec.
