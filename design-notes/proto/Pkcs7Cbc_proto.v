From Coq Require Import List ZArith Lia Bool Arith.
Import ListNotations.

(* cryptz/aes.go: PKCS#7 padding and CBC, over an abstract 16-byte block cipher *)
Definition block := list Z.
Definition BS : nat := 16.

Section Cipher.
Variable E D : list Z -> block -> block.                  (* key -> block -> block; crypto/aes in the real code *)
Hypothesis D_E : forall k b, length b = BS -> D k (E k b) = b.
Hypothesis E_len : forall k b, length b = BS -> length (E k b) = BS.

Definition xor (a b : block) : block := map (fun '(x, y) => Z.lxor x y) (combine a b).
Lemma xor_len a b : length a = BS -> length b = BS -> length (xor a b) = BS.
Proof. intros Ha Hb. unfold xor. rewrite map_length, combine_length. lia. Qed.
Lemma xor_cancel a b : length a = length b -> xor (xor a b) b = a.
Proof.
  revert b; induction a as [|x a IH]; intros [|y b] H; cbn in *; try lia; auto.
  f_equal; [|apply IH; lia]. rewrite Z.lxor_assoc, Z.lxor_nilpotent, Z.lxor_0_r. reflexivity.
Qed.

(* ---- PKCS#7 ---- *)
(* prePadPatterns[n] = n copies of byte n; paddingLen = BlockSize - (len & 15) *)
Definition pad_len (n : nat) : nat := BS - (n mod BS).
Definition pad (p : list Z) : list Z := p ++ repeat (Z.of_nat (pad_len (length p))) (pad_len (length p)).

(* pkcs7UnPadding (aes.go:211-222) on a non-empty buffer; None = the Go code would panic, Some None = error *)
Definition unpad (d : list Z) : option (option nat) :=
  match d with
  | [] => None                                                     (* data[len(data)-1] on empty: panic *)
  | _ =>
      let n := Z.to_nat (last d 0%Z) in
      if (BS <? n)%nat || (n =? 0)%nat then Some None                          (* "invalid padding length" *)
      else if (length d <? n)%nat then None                                    (* data[len-n:] out of range: panic *)
      else if forallb (fun x => Z.eqb x (Z.of_nat n)) (skipn (length d - n) d)
           then Some (Some (length d - n)) else Some None
  end.

Lemma pad_len_range n : 1 <= pad_len n <= BS.
Proof. unfold pad_len, BS. pose proof (Nat.mod_upper_bound n 16 ltac:(lia)). lia. Qed.
Lemma pad_length p : length (pad p) mod BS = 0 /\ BS <= length (pad p).
Proof.
  unfold pad. rewrite app_length, repeat_length. unfold pad_len, BS.
  pose proof (Nat.mod_upper_bound (length p) 16 ltac:(lia)).
  pose proof (Nat.div_mod (length p) 16 ltac:(lia)) as Edm. split; [|lia].
  replace (length p + (16 - length p mod 16)) with ((length p / 16 + 1) * 16) by lia. apply Nat.mod_mul. lia.
Qed.

Lemma last_app_repeat (p : list Z) x n : 0 < n -> last (p ++ repeat x n) 0%Z = x.
Proof.
  intros H. destruct n; [lia|]. replace (S n) with (n + 1) by lia. rewrite repeat_app, app_assoc. cbn [repeat].
  apply last_last.
Qed.

(* unpadding a padded buffer gives back the length, for every plaintext incl. empty and block-aligned ones *)
Theorem unpad_pad p : unpad (pad p) = Some (Some (length p)).
Proof.
  pose proof (pad_len_range (length p)) as R.
  assert (Hlast : last (pad p) 0%Z = Z.of_nat (pad_len (length p))) by (unfold pad; apply last_app_repeat; lia).
  assert (Hl : length (pad p) = length p + pad_len (length p)) by (unfold pad; rewrite app_length, repeat_length; reflexivity).
  assert (Hne : pad p <> []) by (intros Hnil; rewrite Hnil in Hl; cbn [length] in Hl; lia).
  unfold unpad. destruct (pad p) as [|a t] eqn:Ep; [congruence|]. rewrite <- Ep in *. cbv zeta. rewrite Hlast, Nat2Z.id, Hl.
  destruct (Nat.ltb_spec BS (pad_len (length p))); [lia|]. destruct (Nat.eqb_spec (pad_len (length p)) 0); [lia|]. cbn [orb].
  destruct (Nat.ltb_spec (length p + pad_len (length p)) (pad_len (length p))); [lia|].
  replace (length p + pad_len (length p) - pad_len (length p)) with (length p) by lia.
  unfold pad. rewrite skipn_app, skipn_all, Nat.sub_diag. cbn [skipn app].
  assert (F : forallb (fun x => Z.eqb x (Z.of_nat (pad_len (length p)))) (repeat (Z.of_nat (pad_len (length p))) (pad_len (length p))) = true).
  { apply forallb_forall. intros x Hx. apply repeat_spec in Hx. subst. apply Z.eqb_refl. }
  rewrite F. reflexivity.
Qed.

(* unpadding never panics on a buffer CBC decryption can hand it (non-empty multiple of 16), and
   accepts exactly the correctly padded ones *)
Lemma all_eq_repeat (c : Z) l : (forall z, In z l -> z = c) -> l = repeat c (length l).
Proof.
  induction l as [|z l IH]; intros H; [reflexivity|]. cbn [length repeat]. rewrite (H z) by (left; reflexivity).
  f_equal. apply IH. intros w Hw. apply H. right; auto.
Qed.

Theorem unpad_total_sound d : d <> [] -> BS <= length d ->
  exists r, unpad d = Some r /\
    forall n, r = Some n -> exists k, 1 <= k <= BS /\ n + k = length d /\ skipn n d = repeat (Z.of_nat k) k.
Proof.
  intros Hne Hlen. unfold unpad. destruct d as [|a t] eqn:Ed; [congruence|]. rewrite <- Ed in *. clear Ed a t. cbv zeta.
  set (k := Z.to_nat (last d 0%Z)).
  destruct ((BS <? k) || (k =? 0)) eqn:E1; [exists None; split; [reflexivity|intros n Hn; discriminate]|].
  apply orb_false_iff in E1. destruct E1 as [E1 E2]. apply Nat.ltb_ge in E1. apply Nat.eqb_neq in E2.
  destruct (Nat.ltb_spec (length d) k); [lia|].
  destruct (forallb (fun x => Z.eqb x (Z.of_nat k)) (skipn (length d - k) d)) eqn:F;
    [|exists None; split; [reflexivity|intros n Hn; discriminate]].
  eexists. split; [reflexivity|]. intros n Hn. inversion Hn; subst n. exists k. repeat split; try lia.
  rewrite forallb_forall in F.
  assert (Hs : length (skipn (length d - k) d) = k) by (rewrite skipn_length; lia).
  rewrite (all_eq_repeat (Z.of_nat k) (skipn (length d - k) d)) at 1; [rewrite Hs; reflexivity|].
  intros z Hz. apply Z.eqb_eq. apply F. exact Hz.
Qed.

(* ---- CBC (NIST SP 800-38A) over the padded plaintext ---- *)
Fixpoint chunks (n : nat) (l : list Z) (fuel : nat) : list block :=
  match fuel with
  | O => []
  | S f => match l with [] => [] | _ => firstn n l :: chunks n (skipn n l) f end
  end.

Fixpoint cbc_enc (k : list Z) (prev : block) (bs : list block) : list block :=
  match bs with [] => [] | b :: t => let c := E k (xor b prev) in c :: cbc_enc k c t end.
Fixpoint cbc_dec (k : list Z) (prev : block) (cs : list block) : list block :=
  match cs with [] => [] | c :: t => xor (D k c) prev :: cbc_dec k c t end.

Theorem cbc_roundtrip k : forall bs iv, length iv = BS -> Forall (fun b => length b = BS) bs ->
  cbc_dec k iv (cbc_enc k iv bs) = bs.
Proof.
  induction bs as [|b t IH]; intros iv Hiv Hbs; cbn [cbc_enc cbc_dec]; [reflexivity|].
  inversion Hbs as [|? ? Hb Ht]; subst. f_equal.
  - rewrite D_E by (apply xor_len; auto). apply xor_cancel. lia.
  - apply IH; auto. apply E_len. apply xor_len; auto.
Qed.
End Cipher.

(* the hypotheses are satisfiable: a toy cipher *)
Definition toyE (_ : list Z) (b : block) : block := map (fun x => Z.lxor x 90) b.
Example toy_cipher_ok : forall k b, length b = BS -> toyE k (toyE k b) = b /\ length (toyE k b) = BS.
Proof.
  intros k b Hb. unfold toyE. split; [|rewrite map_length; exact Hb]. rewrite map_map. rewrite <- (map_id b) at 2. apply map_ext. intros x.
  rewrite Z.lxor_assoc, Z.lxor_nilpotent, Z.lxor_0_r. reflexivity.
Qed.
Print Assumptions unpad_pad.
Print Assumptions unpad_total_sound.
Print Assumptions cbc_roundtrip.
