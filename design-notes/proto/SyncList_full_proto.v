From Coq Require Import List ZArith Lia Bool Arith.
Import ListNotations.
Local Open Scope Z_scope.
Arguments Z.add : simpl never.
Arguments Z.sub : simpl never.
Arguments Z.of_nat : simpl never.

(* listz.SyncList with the repaired order (count, then publish the tail). Nodes are numbered in link order. *)
Inductive lin_ev := LPush (v : Z) | LPop (v : Z) | LEmpty.
Fixpoint replay (l : list lin_ev) (q0 : list Z) : option (list Z) :=
  match l with
  | [] => Some q0
  | LPush v :: t => replay t (q0 ++ [v])
  | LPop v :: t => match q0 with x :: q' => if x =? v then replay t q' else None | [] => None end
  | LEmpty :: t => match q0 with [] => replay t [] | _ => None end
  end.
Lemma replay_app l1 l2 q0 : replay (l1 ++ l2) q0 = match replay l1 q0 with Some q1 => replay l2 q1 | None => None end.
Proof.
  revert q0; induction l1 as [|e l1 IH]; intros q0; cbn [app replay]; auto. destruct e; auto.
  - destruct q0 as [|x q']; auto. destruct (x =? v); auto.
  - destruct q0; auto.
Qed.

Record shared := { vals : list (option Z); head : nat; tail : nat; len : Z; q : list Z; lin : list lin_ev }.

Inductive pc :=
| Idle
| PushLoadTail (v : Z) | PushLoadNext (v : Z) (t : nat) | PushCas (v : Z) (t : nat) (nx : option nat)
| PushAdd (n : nat) (v : Z) | PushStoreTail (n : nat) (v : Z) | PushYield (v : Z)
| PopLoadHead | PopLoadTail (h : nat) | PopLoadNext (h : nat) | PopCas (h : nat) (nx : option nat)
| PopRead (n : nat) (gv : Z) | PopClear (n : nat) (gv : Z) (val : option Z) | PopDec (n : nat) (gv : Z) (val : option Z).

Inductive op := OpPush (v : Z) | OpPop.
Inductive res := RPush | RPop (o : option Z) (claimed : Z) | RPopEmpty.

Definition next_of (s : shared) (i : nat) : option nat := if (S i <? length (vals s))%nat then Some (S i) else None.
Fixpoint upd {A} (l : list A) (i : nat) (x : A) : list A :=
  match l, i with [], _ => [] | _ :: t, O => x :: t | h :: t, S j => h :: upd t j x end.

Definition tstep (s : shared) (p : pc) (o : op) : shared * pc * option res :=
  match p with
  | Idle => match o with OpPush v => (s, PushLoadTail v, None) | OpPop => (s, PopLoadHead, None) end
  | PushLoadTail v => (s, PushLoadNext v (tail s), None)
  | PushLoadNext v t => (s, PushCas v t (next_of s t), None)
  | PushCas v t nx =>
      match nx with
      | Some _ => (s, PushYield v, None)
      | None => match next_of s t with
                | None => ({| vals := vals s ++ [Some v]; head := head s; tail := tail s; len := len s; q := q s; lin := lin s |},
                           PushAdd (length (vals s)) v, None)
                | Some _ => (s, PushYield v, None)
                end
      end
  | PushAdd n v => ({| vals := vals s; head := head s; tail := tail s; len := len s + 1; q := q s; lin := lin s |}, PushStoreTail n v, None)
  | PushStoreTail n v =>                                  (* linearisation point of Push *)
      ({| vals := vals s; head := head s; tail := n; len := len s; q := q s ++ [v]; lin := lin s ++ [LPush v] |}, Idle, Some RPush)
  | PushYield v => (s, PushLoadTail v, None)
  | PopLoadHead => (s, PopLoadTail (head s), None)
  | PopLoadTail h =>
      if Nat.eqb h (tail s)                               (* linearisation point of an empty Pop *)
      then ({| vals := vals s; head := head s; tail := tail s; len := len s; q := q s; lin := lin s ++ [LEmpty] |}, Idle, Some RPopEmpty)
      else (s, PopLoadNext h, None)
  | PopLoadNext h => (s, PopCas h (next_of s h), None)
  | PopCas h nx =>
      if Nat.eqb (head s) h
      then match nx with
           | Some n => ({| vals := vals s; head := n; tail := tail s; len := len s; q := List.tl (q s);
                           lin := lin s ++ [LPop (nth 0 (q s) 0)] |}, PopRead n (nth 0 (q s) 0), None)   (* LP of Pop *)
           | None => (s, Idle, None)
           end
      else (s, Idle, None)                                (* CAS failed: returns false; another Pop overlapped *)
  | PopRead n gv => (s, PopClear n gv (nth n (vals s) None), None)
  | PopClear n gv val => ({| vals := upd (vals s) n None; head := head s; tail := tail s; len := len s; q := q s; lin := lin s |},
                          PopDec n gv val, None)
  | PopDec n gv val => ({| vals := vals s; head := head s; tail := tail s; len := len s - 1; q := q s; lin := lin s |},
                        Idle, Some (RPop val gv))
  end.

Record config := { sh : shared; ths : list pc; hist : list (nat * res) }.
Definition step (c : config) (e : nat * op) : config :=
  let '(i, o) := e in
  match nth_error (ths c) i with
  | None => c
  | Some p => let '(s', p', r) := tstep (sh c) p o in
              {| sh := s'; ths := upd (ths c) i p'; hist := match r with Some x => hist c ++ [(i, x)] | None => hist c end |}
  end.
Definition run (c : config) (sched : list (nat * op)) : config := fold_left step sched c.
Definition init (n : nat) : config :=
  {| sh := {| vals := [None]; head := 0; tail := 0; len := 0; q := []; lin := [] |}; ths := repeat Idle n; hist := [] |}.

(* ---- invariant ---- *)
Definition wlen (p : pc) : Z := match p with PushStoreTail _ _ | PopRead _ _ | PopClear _ _ _ | PopDec _ _ _ => 1 | _ => 0 end.
Fixpoint sumw (l : list pc) : Z := match l with [] => 0 | p :: t => wlen p + sumw t end.
Definition linked (p : pc) : bool := match p with PushAdd _ _ | PushStoreTail _ _ => true | _ => false end.
Fixpoint nlinked (l : list pc) : Z := match l with [] => 0 | p :: t => (if linked p then 1 else 0) + nlinked t end.
Definition owns (p : pc) : option nat := match p with PopRead n _ | PopClear n _ _ => Some n | _ => None end.

Definition tassert (s : shared) (p : pc) : Prop :=
  match p with
  | PushLoadNext _ t | PushCas _ t _ => (t <= tail s)%nat
  | PushAdd n v | PushStoreTail n v => n = S (tail s) /\ S n = length (vals s) /\ nth n (vals s) None = Some v
  | PopLoadTail h => (h <= head s)%nat
  | PopLoadNext h => (h <= head s)%nat /\ (h = head s -> (h < tail s)%nat)
  | PopCas h nx => (h <= head s)%nat /\ (h = head s -> (h < tail s)%nat /\ nx = Some (S h))
  | PopRead n gv => (n <= head s)%nat /\ nth n (vals s) None = Some gv
  | PopClear n gv val => (n <= head s)%nat /\ val = Some gv
  | PopDec n gv val => val = Some gv
  | _ => True
  end.

Definition res_ok (r : nat * res) : Prop := match snd r with RPop v g => v = Some g | _ => True end.

Record Inv (c : config) : Prop := {
  i_ht : (head (sh c) <= tail (sh c))%nat;
  i_len : (S (tail (sh c)) + Z.to_nat (nlinked (ths c)) = length (vals (sh c)))%nat;
  i_one : 0 <= nlinked (ths c) <= 1;
  i_q : length (q (sh c)) = (tail (sh c) - head (sh c))%nat;
  i_vals : forall j, (j < length (q (sh c)))%nat -> nth (S (head (sh c)) + j) (vals (sh c)) None = Some (nth j (q (sh c)) 0);
  i_cnt : len (sh c) = Z.of_nat (tail (sh c)) - Z.of_nat (head (sh c)) + sumw (ths c);
  i_lin : replay (lin (sh c)) [] = Some (q (sh c));
  i_uniq : forall a b p1 p2 n, a <> b -> nth_error (ths c) a = Some p1 -> nth_error (ths c) b = Some p2 ->
             owns p1 = Some n -> owns p2 <> Some n;
  i_t : Forall (tassert (sh c)) (ths c);
  i_h : Forall res_ok (hist c)
}.

(* ---- list bookkeeping ---- *)
Lemma sumw_upd l i p p' : nth_error l i = Some p -> sumw (upd l i p') = sumw l - wlen p + wlen p'.
Proof.
  revert i; induction l as [|a l IH]; intros [|i] H; cbn [upd sumw nth_error] in *; try discriminate.
  - inversion H; subst; lia.
  - rewrite (IH _ H); lia.
Qed.
Lemma nlinked_upd l i p p' : nth_error l i = Some p ->
  nlinked (upd l i p') = nlinked l - (if linked p then 1 else 0) + (if linked p' then 1 else 0).
Proof.
  revert i; induction l as [|a l IH]; intros [|i] H; cbn [upd nlinked nth_error] in *; try discriminate.
  - inversion H; subst; destruct (linked p), (linked p'); lia.
  - rewrite (IH _ H); lia.
Qed.
Lemma sumw_nonneg l : 0 <= sumw l.
Proof. induction l as [|a l IH]; cbn [sumw]; [lia|]. destruct a; cbn [wlen]; lia. Qed.
Lemma nlinked_nonneg l : 0 <= nlinked l.
Proof. induction l as [|a l IH]; cbn [nlinked]; [lia|]. destruct (linked a); lia. Qed.
Lemma nlinked_in l p : In p l -> linked p = true -> 1 <= nlinked l.
Proof.
  induction l as [|a l IH]; cbn [nlinked In]; [tauto|]. intros [->|H] Hl.
  - rewrite Hl. pose proof (nlinked_nonneg l). lia.
  - specialize (IH H Hl). destruct (linked a); lia.
Qed.
Lemma linked_two l i j p q0 : i <> j -> nth_error l i = Some p -> nth_error l j = Some q0 ->
  linked p = true -> linked q0 = true -> 2 <= nlinked l.
Proof.
  revert i j; induction l as [|a l IH]; intros [|i] [|j] Hij Hi Hj Hp Hq; cbn [nth_error nlinked] in *; try discriminate; try lia.
  - inversion Hi; subst. rewrite Hp. pose proof (nlinked_in l q0 (nth_error_In _ _ Hj) Hq). lia.
  - inversion Hj; subst. rewrite Hq. pose proof (nlinked_in l p (nth_error_In _ _ Hi) Hp). lia.
  - assert (i <> j) by lia. specialize (IH _ _ H Hi Hj Hp Hq). destruct (linked a); lia.
Qed.
Lemma Forall_upd_others {A} (P : A -> Prop) l i x :
  (forall j y, j <> i -> nth_error l j = Some y -> P y) -> P x -> Forall P (upd l i x).
Proof.
  revert i; induction l as [|a l IH]; intros [|i] H Hx; cbn [upd]; constructor; auto.
  - apply Forall_forall. intros y Hy. apply In_nth_error in Hy as [j Hj]. apply (H (S j)); [lia|exact Hj].
  - apply (H 0%nat); [lia|reflexivity].
  - apply IH; auto. intros j y Hj Hy. apply (H (S j)); [lia|exact Hy].
Qed.
Lemma upd_length {A} (l : list A) i x : length (upd l i x) = length l.
Proof. revert i; induction l as [|a l IH]; intros [|i]; cbn [upd length]; auto. Qed.
Lemma nth_upd_ne {A} (l : list A) i j x dflt : i <> j -> nth j (upd l i x) dflt = nth j l dflt.
Proof. revert i j; induction l as [|a l IH]; intros [|i] [|j] H; cbn [upd nth]; auto; try lia; apply IH; lia. Qed.
Lemma nth_error_upd_cases {A} (l : list A) i j x y :
  nth_error (upd l i x) j = Some y -> (j = i /\ y = x) \/ (j <> i /\ nth_error l j = Some y).
Proof.
  revert i j; induction l as [|a l IH]; intros [|i] [|j] H; cbn [upd nth_error] in *; try discriminate.
  - inversion H; subst. left; auto.
  - right. split; [lia|exact H].
  - right. split; [lia|exact H].
  - apply IH in H. destruct H as [[-> ->]|[Hne H]]; [left; auto|right; split; [lia|exact H]].
Qed.

Definition push_hist (h : list (nat * res)) (i : nat) (r : option res) : list (nat * res) :=
  match r with Some x => h ++ [(i, x)] | None => h end.

(* uniqueness of pop owners survives when the moved thread owns nothing new *)
Definition Uniq (l : list pc) : Prop :=
  forall a b p1 p2 n, a <> b -> nth_error l a = Some p1 -> nth_error l b = Some p2 -> owns p1 = Some n -> owns p2 <> Some n.
Lemma Uniq_same l i p p' : Uniq l -> nth_error l i = Some p -> (owns p' = None \/ owns p' = owns p) -> Uniq (upd l i p').
Proof.
  intros HU Hi Ho a b p1 p2 n Hab H1 H2 Hf1 Hf2.
  apply nth_error_upd_cases in H1. apply nth_error_upd_cases in H2.
  destruct H1 as [[-> ->]|[Ha H1]]; destruct H2 as [[-> ->]|[Hb H2]]; try lia.
  - destruct Ho as [Ho|Ho]; [congruence|]. rewrite Ho in Hf1. exact (HU i b p p2 n Hab Hi H2 Hf1 Hf2).
  - destruct Ho as [Ho|Ho]; [congruence|]. rewrite Ho in Hf2. exact (HU a i p1 p n Hab H1 Hi Hf1 Hf2).
  - exact (HU a b p1 p2 n Hab H1 H2 Hf1 Hf2).
Qed.
Lemma Uniq_new l i p' n : Uniq l -> owns p' = Some n ->
  (forall j pj, j <> i -> nth_error l j = Some pj -> owns pj <> Some n) -> Uniq (upd l i p').
Proof.
  intros HU Ho Hnew a b p1 p2 m Hab H1 H2 Hf1 Hf2.
  apply nth_error_upd_cases in H1. apply nth_error_upd_cases in H2.
  destruct H1 as [[-> ->]|[Ha H1]]; destruct H2 as [[-> ->]|[Hb H2]]; try lia.
  - rewrite Ho in Hf1. inversion Hf1; subst. exact (Hnew b p2 Hb H2 Hf2).
  - rewrite Ho in Hf2. inversion Hf2; subst. exact (Hnew a p1 Ha H1 Hf1).
  - exact (HU a b p1 p2 m Hab H1 H2 Hf1 Hf2).
Qed.

Ltac other_threads HT :=
  apply Forall_upd_others; [intros j pj Hj Hpj;
    let Hq := fresh "Hq" in
    assert (Hq : tassert _ pj) by (rewrite Forall_forall in HT; apply HT; eapply nth_error_In; eauto) | ].

Theorem step_inv c e : Inv c -> Inv (step c e).
Proof.
  destruct e as [i o]. unfold step. destruct (nth_error (ths c) i) as [p|] eqn:Hi; [|auto].
  intros [Hht Hlen Hone Hq Hvals Hcnt Hlin Huniq HT HH].
  assert (Hp : tassert (sh c) p) by (rewrite Forall_forall in HT; apply HT; eapply nth_error_In; eauto).
  assert (Hin : In p (ths c)) by (eapply nth_error_In; eauto).
  pose proof (sumw_upd (ths c) i p) as SW. pose proof (nlinked_upd (ths c) i p) as NL. specialize (SW ltac:(idtac) Hi) || idtac.
  destruct c as [s l h]. cbn [sh ths hist] in *.
  destruct p; cbn [tstep].
  - (* Idle *)
    destruct o; constructor; cbn [sh ths hist]; auto; try (rewrite (nlinked_upd _ _ _ _ Hi)); try (rewrite (sumw_upd _ _ _ _ Hi)); cbn [linked wlen]; try lia.
    all: try (eapply Uniq_same; eauto; left; reflexivity).
    all: other_threads HT; auto; try exact I.
  - (* PushLoadTail *)
    constructor; cbn [sh ths hist]; auto; try (rewrite (nlinked_upd _ _ _ _ Hi)); try (rewrite (sumw_upd _ _ _ _ Hi)); cbn [linked wlen]; try lia.
    + eapply Uniq_same; eauto; left; reflexivity.
    + other_threads HT; auto. cbn [tassert]. lia.
  - (* PushLoadNext *)
    constructor; cbn [sh ths hist]; auto; try (rewrite (nlinked_upd _ _ _ _ Hi)); try (rewrite (sumw_upd _ _ _ _ Hi)); cbn [linked wlen]; try lia.
    + eapply Uniq_same; eauto; left; reflexivity.
    + other_threads HT; auto.
  - (* PushCas *)
    cbn [tassert] in Hp.
    assert (Hlocal : Inv {| sh := s; ths := upd l i (PushYield v); hist := h |}).
    { constructor; cbn [sh ths hist]; auto; try (rewrite (nlinked_upd _ _ _ _ Hi)); try (rewrite (sumw_upd _ _ _ _ Hi)); cbn [linked wlen]; try lia.
      - eapply Uniq_same; eauto; left; reflexivity.
      - other_threads HT; auto; try exact I. }
    destruct nx; [exact Hlocal|]. unfold next_of. destruct (Nat.ltb_spec (S t) (length (vals s))) as [Hlt|Hge]; [exact Hlocal|].
    (* the link succeeds: nobody else is linked, t is the tail *)
    assert (Hnl : nlinked l = 0) by lia. assert (Ht : t = tail s) by lia.
    constructor; cbn [sh ths hist vals head tail len q lin]; auto;
      try (rewrite (nlinked_upd _ _ _ _ Hi)); try (rewrite (sumw_upd _ _ _ _ Hi)); cbn [linked wlen]; try lia.
    + rewrite app_length. cbn [length]. lia.
    + intros j Hj. rewrite app_nth1 by lia. apply Hvals; auto.
    + eapply Uniq_same; eauto; left; reflexivity.
    + other_threads HT.
      * destruct pj; cbn [tassert vals head tail] in *; auto; try lia.
        all: try (exfalso; pose proof (nlinked_in l _ (nth_error_In _ _ Hpj) eq_refl); lia).
        all: try (destruct Hq0 as [H1 H2]; split; auto; rewrite app_nth1; auto; lia).
      * cbn [tassert vals tail]. rewrite app_length. cbn [length]. repeat split; try lia.
        rewrite app_nth2 by lia. rewrite Nat.sub_diag. reflexivity.
  - (* PushAdd *)
    cbn [tassert] in Hp.
    constructor; cbn [sh ths hist vals head tail len q lin]; auto;
      try (rewrite (nlinked_upd _ _ _ _ Hi)); try (rewrite (sumw_upd _ _ _ _ Hi)); cbn [linked wlen]; try lia.
    + eapply Uniq_same; eauto; left; reflexivity.
    + other_threads HT; auto.
  - (* PushStoreTail: publish *)
    cbn [tassert] in Hp. destruct Hp as (Hn & HSn & Hv).
    assert (Hnl : nlinked l = 1) by (pose proof (nlinked_in l _ Hin eq_refl); lia).
    constructor; cbn [sh ths hist vals head tail len q lin push_hist]; auto;
      try (rewrite (nlinked_upd _ _ _ _ Hi)); try (rewrite (sumw_upd _ _ _ _ Hi)); cbn [linked wlen]; try lia.
    + rewrite app_length. cbn [length]. lia.
    + intros j Hj. rewrite app_length in Hj. cbn [length] in Hj.
      destruct (Nat.eq_dec j (length (q s))) as [->|Hne].
      * rewrite app_nth2 by lia. rewrite Nat.sub_diag. cbn [nth]. rewrite <- Hv. f_equal. lia.
      * rewrite app_nth1 by lia. apply Hvals. lia.
    + rewrite replay_app, Hlin. reflexivity.
    + eapply Uniq_same; eauto; left; reflexivity.
    + other_threads HT.
      * destruct pj; cbn [tassert vals head tail] in *; auto; try lia.
        all: try (exfalso; pose proof (linked_two l _ _ _ _ Hj Hpj Hi eq_refl eq_refl); lia).
        all: try (destruct Hq0 as [H1 H2]; split; auto; intros E; specialize (H2 E); lia).
        all: try (destruct Hq0 as [H1 H2]; split; auto; intros E; specialize (H2 E); destruct H2; split; auto; lia).
      * exact I.
    + apply Forall_app; split; auto; repeat constructor.
  - (* PushYield *)
    constructor; cbn [sh ths hist]; auto; try (rewrite (nlinked_upd _ _ _ _ Hi)); try (rewrite (sumw_upd _ _ _ _ Hi)); cbn [linked wlen]; try lia.
    + eapply Uniq_same; eauto; left; reflexivity.
    + other_threads HT; auto; try exact I.
  - (* PopLoadHead *)
    constructor; cbn [sh ths hist]; auto; try (rewrite (nlinked_upd _ _ _ _ Hi)); try (rewrite (sumw_upd _ _ _ _ Hi)); cbn [linked wlen]; try lia.
    + eapply Uniq_same; eauto; left; reflexivity.
    + other_threads HT; auto. cbn [tassert]. lia.
  - (* PopLoadTail *)
    cbn [tassert] in Hp. destruct (Nat.eqb_spec h0 (tail s)) as [E|E].
    + (* empty: head = tail at this instant *)
      assert (Hemp : q s = []) by (destruct (q s); [reflexivity|cbn [length] in Hq; lia]).
      constructor; cbn [sh ths hist vals head tail len q lin push_hist]; auto;
        try (rewrite (nlinked_upd _ _ _ _ Hi)); try (rewrite (sumw_upd _ _ _ _ Hi)); cbn [linked wlen]; try lia.
      * rewrite replay_app, Hlin, Hemp. reflexivity.
      * eapply Uniq_same; eauto; left; reflexivity.
      * other_threads HT; auto; try exact I.
      * apply Forall_app; split; auto; repeat constructor.
    + constructor; cbn [sh ths hist]; auto; try (rewrite (nlinked_upd _ _ _ _ Hi)); try (rewrite (sumw_upd _ _ _ _ Hi)); cbn [linked wlen]; try lia.
      * eapply Uniq_same; eauto; left; reflexivity.
      * other_threads HT; auto. cbn [tassert]. split; auto. lia.
  - (* PopLoadNext *)
    cbn [tassert] in Hp. destruct Hp as [H1 H2].
    constructor; cbn [sh ths hist]; auto; try (rewrite (nlinked_upd _ _ _ _ Hi)); try (rewrite (sumw_upd _ _ _ _ Hi)); cbn [linked wlen]; try lia.
    + eapply Uniq_same; eauto; left; reflexivity.
    + other_threads HT; auto. cbn [tassert]. split; auto. intros E. specialize (H2 E). split; auto.
      unfold next_of. destruct (Nat.ltb_spec (S h0) (length (vals s))); [reflexivity|lia].
  - (* PopCas *)
    cbn [tassert] in Hp. destruct Hp as [H1 H2].
    assert (Hlocal : Inv {| sh := s; ths := upd l i Idle; hist := h |}).
    { constructor; cbn [sh ths hist]; auto; try (rewrite (nlinked_upd _ _ _ _ Hi)); try (rewrite (sumw_upd _ _ _ _ Hi)); cbn [linked wlen]; try lia.
      - eapply Uniq_same; eauto; left; reflexivity.
      - other_threads HT; auto; try exact I. }
    destruct (Nat.eqb_spec (head s) h0) as [E|E]; [|exact Hlocal]. symmetry in E. destruct (H2 E) as [Hlt ->]. subst h0.
    assert (Hq1 : (1 <= length (q s))%nat) by lia.
    destruct (q s) as [|g q'] eqn:Eq; [cbn [length] in Hq1; lia|]. cbn [nth List.tl].
    constructor; cbn [sh ths hist vals head tail len q lin push_hist]; auto;
      try (rewrite (nlinked_upd _ _ _ _ Hi)); try (rewrite (sumw_upd _ _ _ _ Hi)); cbn [linked wlen]; try lia.
    + cbn [length] in Hq. lia.
    + intros j Hj. specialize (Hvals (S j) ltac:(cbn [length]; lia)). cbn [nth] in Hvals. rewrite <- Hvals. f_equal. lia.
    + rewrite replay_app, Hlin. cbn [replay]. rewrite Z.eqb_refl. reflexivity.
    + eapply Uniq_new; eauto; [reflexivity|]. intros j pj Hj Hpj Ho.
      assert (Hqj : tassert s pj) by (rewrite Forall_forall in HT; apply HT; eapply nth_error_In; eauto).
      destruct pj; cbn [owns] in Ho; try discriminate; inversion Ho; subst; cbn [tassert] in Hqj; lia.
    + other_threads HT.
      * destruct pj; cbn [tassert vals head tail] in *; auto; try lia; try (intuition lia).
      * cbn [tassert vals head]. split; [lia|]. specialize (Hvals 0%nat ltac:(cbn [length]; lia)). cbn [nth] in Hvals.
        rewrite <- Hvals. f_equal. lia.
  - (* PopRead *)
    cbn [tassert] in Hp. destruct Hp as [H1 H2].
    constructor; cbn [sh ths hist]; auto; try (rewrite (nlinked_upd _ _ _ _ Hi)); try (rewrite (sumw_upd _ _ _ _ Hi)); cbn [linked wlen]; try lia.
    + eapply Uniq_same; eauto; right; reflexivity.
    + other_threads HT; auto. cbn [tassert]. split; auto.
  - (* PopClear *)
    cbn [tassert] in Hp. destruct Hp as [H1 H2].
    constructor; cbn [sh ths hist vals head tail len q lin]; auto;
      try (rewrite (nlinked_upd _ _ _ _ Hi)); try (rewrite (sumw_upd _ _ _ _ Hi)); cbn [linked wlen]; try lia.
    + rewrite upd_length. lia.
    + intros j Hj. rewrite nth_upd_ne by lia. apply Hvals; auto.
    + eapply Uniq_same; eauto; left; reflexivity.
    + other_threads HT.
      * destruct pj; cbn [tassert vals head tail] in *; auto; try lia.
        all: try (destruct Hq0 as (A & B & C); rewrite upd_length; repeat split; auto; rewrite nth_upd_ne by lia; exact C).
        all: try (destruct Hq0 as [A B]; split; auto; rewrite nth_upd_ne; auto;
                  intros ->; exact (Huniq i j _ _ _ ltac:(auto) Hi Hpj eq_refl eq_refl)).
      * cbn [tassert]. exact H2.
  - (* PopDec *)
    cbn [tassert] in Hp.
    constructor; cbn [sh ths hist vals head tail len q lin push_hist]; auto;
      try (rewrite (nlinked_upd _ _ _ _ Hi)); try (rewrite (sumw_upd _ _ _ _ Hi)); cbn [linked wlen]; try lia.
    + eapply Uniq_same; eauto; left; reflexivity.
    + other_threads HT; auto; try exact I.
    + apply Forall_app; split; auto; repeat constructor; exact Hp.
Qed.

Lemma init_inv n : Inv (init n).
Proof.
  assert (Hs : sumw (repeat Idle n) = 0) by (induction n as [|n IH]; cbn [repeat sumw wlen]; lia).
  assert (Hl : nlinked (repeat Idle n) = 0) by (clear; induction n as [|n IH]; cbn [repeat nlinked linked]; lia).
  constructor; cbn [init sh ths hist vals head tail len q lin length]; rewrite ?Hs, ?Hl; auto; try (cbn; lia).
  all: try (intros a b p1 p2 m _ Ha _ Ho; apply nth_error_In, repeat_spec in Ha; subst; discriminate).
  all: try (intros j Hj; exfalso; cbn [length] in Hj; lia).
  all: try (apply Forall_forall; intros p Hp; apply repeat_spec in Hp; subst; exact I).
Qed.
Lemma run_inv sched : forall c, Inv c -> Inv (run c sched).
Proof. induction sched as [|e t IH]; intros c H; cbn [run fold_left]; auto. apply IH, step_inv, H. Qed.

(* C11 on the repaired order, for every number of goroutines and every schedule *)
Theorem synclist_linearizable n sched : let c := run (init n) sched in
  (* operations in the order of their linearisation points form a legal run of an unbounded FIFO
     (push at its tail store, pop at its head CAS, empty pop at its tail load) ending in content q *)
  replay (lin (sh c)) [] = Some (q (sh c)) /\
  (* every successful Pop returns the value the log recorded for it *)
  (forall i v g, In (i, RPop v g) (hist c) -> v = Some g) /\
  (* Len() is never negative and never below the number of values that can be popped *)
  0 <= Z.of_nat (length (q (sh c))) <= len (sh c).
Proof.
  cbv zeta. destruct (run_inv sched (init n) (init_inv n)) as [Hht _ _ Hq _ Hcnt Hlin _ _ HH].
  split; [exact Hlin|]. split.
  - intros i v g Hin. rewrite Forall_forall in HH. apply (HH _ Hin).
  - pose proof (sumw_nonneg (ths (run (init n) sched))). lia.
Qed.

(* at quiescence Len() is exact *)
Theorem synclist_len_exact n sched : let c := run (init n) sched in
  Forall (fun p => p = Idle) (ths c) -> len (sh c) = Z.of_nat (length (q (sh c))).
Proof.
  cbv zeta. intros Hidle. destruct (run_inv sched (init n) (init_inv n)) as [Hht _ _ Hq _ Hcnt _ _ _ _].
  assert (sumw (ths (run (init n) sched)) = 0).
  { induction (ths (run (init n) sched)) as [|p l IH]; [reflexivity|]. inversion Hidle; subst. cbn [sumw wlen]. rewrite IH; auto. }
  lia.
Qed.
Print Assumptions synclist_linearizable.
Print Assumptions synclist_len_exact.
