From Coq Require Import List ZArith Lia Bool Arith.
Import ListNotations.
Local Open Scope Z_scope.

(* setz.RoaringBitmapIter.Next/Value (roaring_bitmap.go:129-147). A bucket is (high key, the values its
   container's own iterator yields, in order); the outer iterator walks the buckets. *)
Definition bucket := (Z * list Z)%type.
Record it := { nodes : list bucket; inner : option (list Z) }.      (* inner = what is left of the current inner iterator *)

Section Iter.
Variable reset : bool.          (* true: the repaired code sets i.iter = nil when the node advances *)

(* one call of Next(): Some (value, state') if it returned true, None if it returned false *)
Fixpoint next (fuel : nat) (s : it) : option (Z * it) :=
  match fuel with
  | O => None
  | S f =>
      match nodes s with
      | [] => None
      | (k, vs) :: rest =>
          let cur := match inner s with None => vs | Some r => r end in     (* if i.iter == nil { i.iter = node.Value().Iter() } *)
          match cur with
          | v :: r => Some (k * 65536 + v, {| nodes := nodes s; inner := Some r |})
          | [] => next f {| nodes := rest; inner := if reset then None else Some [] |}
          end
      end
  end.

Fixpoint drain (fuel : nat) (s : it) : list Z :=
  match fuel with
  | O => []
  | S f => match next (S (length (nodes s))) s with
           | None => []
           | Some (v, s') => v :: drain f s'
           end
  end.
End Iter.

Definition all_values (bs : list bucket) : list Z := flat_map (fun '(k, vs) => map (fun v => k * 65536 + v) vs) bs.
Definition iter_all (reset : bool) (bs : list bucket) : list Z :=
  drain reset (S (length (all_values bs))) {| nodes := bs; inner := None |}.

(* the iterator as found stops after the first bucket *)
Example iter_refuted : iter_all false [(0, [1]); (1, [4464]); (2, [8928])] = [1]
                     /\ all_values [(0, [1]); (1, [4464]); (2, [8928])] = [1; 70000; 140000].
Proof. split; reflexivity. Qed.

(* what the repaired iterator still has to yield from a given state *)
Definition pending (s : it) : list Z :=
  match nodes s with
  | [] => []
  | (k, vs) :: rest => map (fun v => k * 65536 + v) (match inner s with None => vs | Some r => r end) ++ all_values rest
  end.

Lemma next_spec : forall ns inn fuel, (length ns < fuel)%nat ->
  (pending {| nodes := ns; inner := inn |} = [] -> next true fuel {| nodes := ns; inner := inn |} = None) /\
  (forall v t, pending {| nodes := ns; inner := inn |} = v :: t ->
     exists s', next true fuel {| nodes := ns; inner := inn |} = Some (v, s') /\ pending s' = t /\ (length (nodes s') <= length ns)%nat).
Proof.
  induction ns as [|[k vs] rest IH]; intros inn fuel Hf.
  - destruct fuel; [cbn in Hf; lia|]. split; [reflexivity|]. intros v t H. discriminate.
  - destruct fuel as [|f]; [cbn in Hf; lia|]. cbn [next nodes inner]. unfold pending; cbn [nodes inner].
    destruct (match inn with None => vs | Some r => r end) as [|v0 r] eqn:Ecur.
    + cbn [map app]. specialize (IH None f ltac:(cbn [length] in Hf; lia)). destruct IH as [IH1 IH2].
      assert (Hp : pending {| nodes := rest; inner := None |} = all_values rest).
      { unfold pending; cbn [nodes inner]. destruct rest as [|[k2 vs2] r2]; reflexivity. }
      rewrite Hp in IH1, IH2. split; [exact IH1|].
      intros v t E. destruct (IH2 v t E) as (s' & E1 & E2 & E3). exists s'. repeat split; auto. cbn [length]. lia.
    + cbn [map app]. split; [intros H; discriminate|]. intros v t E. inversion E; subst.
      eexists. split; [reflexivity|]. split; [|cbn [nodes length]; lia]. unfold pending; cbn [nodes inner]. reflexivity.
Qed.

Lemma drain_spec : forall fuel s, (length (pending s) < fuel)%nat -> drain true fuel s = pending s.
Proof.
  induction fuel as [|f IH]; intros s Hf; [lia|]. cbn [drain].
  destruct s as [ns inn]. destruct (next_spec ns inn (S (length ns)) ltac:(lia)) as [H1 H2]. cbn [nodes].
  destruct (pending {| nodes := ns; inner := inn |}) as [|v t] eqn:Ep.
  - rewrite H1; reflexivity.
  - destruct (H2 v t eq_refl) as (s' & E & Hp & _). rewrite E. f_equal. rewrite IH; [exact Hp|]. rewrite Hp. cbn [length] in Hf. lia.
Qed.

(* C03, Iter: every member exactly once, bucket by bucket in key order, each bucket in its container's order *)
Theorem iter_enumerates bs : iter_all true bs = all_values bs.
Proof.
  unfold iter_all. rewrite drain_spec.
  - unfold pending; cbn [nodes inner]. destruct bs as [|[k vs] rest]; reflexivity.
  - assert (E : pending {| nodes := bs; inner := None |} = all_values bs)
      by (unfold pending; cbn [nodes inner]; destruct bs as [|[k vs] rest]; reflexivity).
    rewrite E. lia.
Qed.
Print Assumptions iter_enumerates.
