Require Import OctalCodec_proto.
From Coq Require Import List ZArith Lia Bool Arith.
Import ListNotations.
Local Open Scope Z_scope.
Arguments Z.of_nat : simpl never.

(* strz.Utf16Parse (enc.go:317-383), index level; None = the Go code would panic.
   The UTF-8 encoder is abstract: only its length matters for totality (1..3 bytes for one unit, 4 for a pair). *)
Section U16.
Variable enc1 : Z -> list Z.            (* utf8.EncodeRune of a BMP code unit (surrogates excluded by the caller) *)
Variable enc2 : Z -> Z -> list Z.       (* utf8.EncodeRune(utf16.DecodeRune(hi, lo)) *)
Hypothesis enc1_len : forall r, (1 <= length (enc1 r) <= 3)%nat.
Hypothesis enc2_len : forall a b, length (enc2 a b) = 4%nat.

(* e += utf8.EncodeRune(dst[e:], r): panics if dst[e:] is too short *)
Definition write (n : nat) (out bytes : list Z) : option (list Z) :=
  if (length out + length bytes <=? n)%nat then Some (out ++ bytes) else None.
Definition flush (src : list Z) (n f i : nat) (out : list Z) : option (list Z) :=
  if (f <? i)%nat then match slice src f i with None => None | Some lit => copy_into n out lit end else Some out.
Definition is_u (src : list Z) (i : nat) : option bool :=
  match nth_error src i, nth_error src (i + 1) with
  | Some c0, Some c1 => Some ((c0 =? 92) && (c1 =? 117))
  | _, _ => None
  end.

Fixpoint uparse (fuel : nat) (src : list Z) (i f : nat) (out : list Z) : option (list Z) :=
  match fuel with
  | O => None
  | S fu =>
      let n := length src in
      if (n <=? i)%nat then finish src f out
      else if (n - i <? 6)%nat then finish src f out
      else match is_u src i with
           | None => None
           | Some false => uparse fu src (S i) f out
           | Some true =>
               match slice src (i + 2) (i + 6) with
               | None => None
               | Some ds =>
                   let '(n1, j, ok) := pu 16 65535 0 0%nat ds in
                   if negb ok then uparse fu src (i + 2 + j) f out
                   else match flush src n f i out with
                        | None => None
                        | Some out1 =>
                            let f1 := if (f <? i)%nat then i else f in
                            if (n1 <? 55296) || (57344 <=? n1) then
                              match write n out1 (enc1 n1) with None => None | Some out2 => uparse fu src (i + 6) (i + 6) out2 end
                            else if (55296 <=? n1) && (n1 <? 56320) then
                              let i2 := (i + 6)%nat in
                              if (n - i2 <? 6)%nat then finish src f1 out1                       (* break *)
                              else match is_u src i2 with
                                   | None => None
                                   | Some false => uparse fu src (S i2) f1 out1
                                   | Some true =>
                                       match slice src (i2 + 2) (i2 + 6) with
                                       | None => None
                                       | Some ds2 =>
                                           let '(n2, j2, ok2) := pu 16 65535 0 0%nat ds2 in
                                           if negb ok2 then uparse fu src (i2 + 2 + j2) f1 out1
                                           else if (56320 <=? n2) && (n2 <? 57344) then
                                                  match write n out1 (enc2 n1 n2) with
                                                  | None => None
                                                  | Some out2 => uparse fu src (i2 + 6) (i2 + 6) out2
                                                  end
                                                else uparse fu src (i2 + 6) f1 out1              (* falls to the last i += 6 *)
                                       end
                                   end
                            else uparse fu src (i + 6) f1 out1                                    (* a lone low surrogate *)
                        end
               end
           end
  end.
Definition utf16_parse (src : list Z) : option (list Z) := uparse (S (length src)) src 0 0 [].

Lemma finish_total src f out : (f <= length src)%nat -> (length out <= f)%nat ->
  exists r, finish src f out = Some r /\ (length r <= length src)%nat.
Proof.
  intros Hf Ho. unfold finish. destruct (Nat.ltb_spec f (length src)) as [H|H]; [|exists out; split; auto; lia].
  destruct (slice_some src f (length src)) as [tl Ht]; [lia|]. rewrite Ht. unfold copy_into.
  destruct (Nat.leb_spec (length out) (length src)); [|lia]. eexists. split; [reflexivity|].
  rewrite app_length, firstn_length. lia.
Qed.
Lemma is_u_some src i : (i + 1 < length src)%nat -> exists b, is_u src i = Some b.
Proof.
  intros H. unfold is_u. destruct (nth_error src i) eqn:E0; [|apply nth_error_None in E0; lia].
  destruct (nth_error src (i + 1)) eqn:E1; [|apply nth_error_None in E1; lia]. eauto.
Qed.
Lemma flush_total src f i out : (f <= i <= length src)%nat -> (length out <= f)%nat ->
  exists o, flush src (length src) f i out = Some o /\ (length o <= i)%nat.
Proof.
  intros Hi Ho. unfold flush. destruct (Nat.ltb_spec f i); [|exists out; split; auto; lia].
  destruct (slice_some src f i) as [lit Hl]; [lia|]. rewrite Hl. pose proof (slice_length _ _ _ _ Hl).
  unfold copy_into. destruct (Nat.leb_spec (length out) (length src)); [|lia]. eexists. split; [reflexivity|].
  rewrite app_length, firstn_length. lia.
Qed.

(* for every input: no panic, and never more output than input *)
Lemma uparse_total src : forall fuel i f out,
  (f <= i <= length src)%nat -> (length out <= f)%nat -> (length src - i < fuel)%nat ->
  exists r, uparse fuel src i f out = Some r /\ (length r <= length src)%nat.
Proof.
  induction fuel as [|fu IH]; intros i f out Hi Ho Hf; [lia|]. cbn [uparse].
  destruct (Nat.leb_spec (length src) i); [apply finish_total; lia|].
  destruct (Nat.ltb_spec (length src - i) 6); [apply finish_total; lia|].
  destruct (is_u_some src i ltac:(lia)) as [b Hb]. rewrite Hb. destruct b; [|apply IH; lia].
  destruct (slice_some src (i + 2) (i + 6)) as [ds Hds]; [lia|]. rewrite Hds. pose proof (slice_length _ _ _ _ Hds) as Hl.
  destruct (pu 16 65535 0 0%nat ds) as [[n1 j] ok] eqn:Ep. pose proof (pu_index _ _ _ _ _ _ _ _ Ep) as Hj.
  destruct ok; cbn [negb]; [|apply IH; lia].
  destruct (flush_total src f i out ltac:(lia) Ho) as (out1 & Ef & Hl1). rewrite Ef.
  assert (Hf1 : (let f1 := if (f <? i)%nat then i else f in f1 <= i /\ length out1 <= i /\ (length out1 <= f1))%nat).
  { cbv zeta. destruct (Nat.ltb_spec f i); [lia|]. assert (f = i) by lia. subst.
    unfold flush in Ef. rewrite Nat.ltb_irrefl in Ef. inversion Ef; subst. lia. }
  cbv zeta in Hf1. destruct Hf1 as (Hf1a & Hf1b & Hf1c).
  destruct ((n1 <? 55296) || (57344 <=? n1)).
  - unfold write. pose proof (enc1_len n1). destruct (Nat.leb_spec (length out1 + length (enc1 n1)) (length src)); [|lia].
    apply IH; try lia. rewrite app_length. lia.
  - destruct ((55296 <=? n1) && (n1 <? 56320)); [|apply IH; lia].
    destruct (Nat.ltb_spec (length src - (i + 6)) 6); [apply finish_total; lia|].
    destruct (is_u_some src (i + 6) ltac:(lia)) as [b2 Hb2]. rewrite Hb2. destruct b2; [|apply IH; lia].
    destruct (slice_some src (i + 6 + 2) (i + 6 + 6)) as [ds2 Hds2]; [lia|]. rewrite Hds2. pose proof (slice_length _ _ _ _ Hds2) as Hl2.
    destruct (pu 16 65535 0 0%nat ds2) as [[n2 j2] ok2] eqn:Ep2. pose proof (pu_index _ _ _ _ _ _ _ _ Ep2) as Hj2.
    destruct ok2; cbn [negb]; [|apply IH; lia].
    destruct ((56320 <=? n2) && (n2 <? 57344)); [|apply IH; lia].
    unfold write. rewrite enc2_len. destruct (Nat.leb_spec (length out1 + 4) (length src)); [|lia].
    apply IH; try lia. rewrite app_length, enc2_len. lia.
Qed.

Theorem utf16_parse_total src : exists out, utf16_parse src = Some out /\ (length out <= length src)%nat.
Proof. unfold utf16_parse. apply uparse_total; cbn [length]; lia. Qed.
End U16.
Print Assumptions utf16_parse_total.
