From Coq Require Import List ZArith Lia Bool Arith.
Import ListNotations.
Require Import Ring_plain_proto.
Local Open Scope Z_scope.
Arguments Z.add : simpl never.
Arguments Z.sub : simpl never.
Arguments Z.mul : simpl never.
Arguments Z.modulo : simpl never.
Arguments Z.of_nat : simpl never.
Arguments Z.to_nat : simpl never.

(* ringz.Ring.Len / Recap / PushWithExpand (ring.go:94-143) *)
Definition gocopy (dst src : list Z) : list Z :=                   (* copy(dst, src): min(len) elements *)
  firstn (length dst) src ++ skipn (length src) dst.
Definition live (r : ring) : list Z :=
  let h := Z.to_nat (head r) in let t := Z.to_nat (tail r) in
  if head r <=? tail r then firstn (S t - h) (skipn h (vals r))      (* r.values[head:tail+1] *)
  else skipn h (vals r) ++ firstn (S t) (vals r).                    (* r.values[head:], r.values[:tail+1] *)

Definition recap (r : ring) (c : Z) : ring * bool :=
  if (c <=? 0) || (c =? cap r) then (r, false) else
  let l := len r in
  if c <? l then (r, false) else
  let nv := repeat 0 (Z.to_nat c) in
  if is_empty r then ({| vals := nv; head := -1; tail := -1; cap := c |}, true) else
  let nv' :=
    if head r <=? tail r then gocopy nv (firstn (S (Z.to_nat (tail r)) - Z.to_nat (head r)) (skipn (Z.to_nat (head r)) (vals r)))
    else let part1 := skipn (Z.to_nat (head r)) (vals r) in
         let n := Nat.min (length nv) (length part1) in
         let nv1 := gocopy nv part1 in
         firstn n nv1 ++ gocopy (skipn n nv1) (firstn (S (Z.to_nat (tail r))) (vals r)) in
  ({| vals := nv'; head := 0; tail := l - 1; cap := c |}, true).

Lemma nth_firstn (l : list Z) n j : nth j (firstn n l) 0 = if (j <? n)%nat then nth j l 0 else 0.
Proof.
  revert n j; induction l as [|a l IH]; intros [|n] [|j]; cbn [firstn nth]; auto.
  - destruct (S j <? S n)%nat; reflexivity.
  - rewrite IH. reflexivity.
Qed.
Lemma nth_skipn (l : list Z) n j : nth j (skipn n l) 0 = nth (n + j) l 0.
Proof. revert l; induction n as [|n IH]; intros [|a l]; cbn [skipn nth Nat.add]; auto. destruct j; reflexivity. Qed.

Theorem len_spec r q : Inv r q -> len r = Z.of_nat (length q).
Proof.
  intros (Hc & Hl & Hq & Hm). unfold len, is_empty. destruct q as [|x q].
  - destruct Hm as [-> _]. reflexivity.
  - destruct Hm as (Hh & Ht & _). destruct (Z.eqb_spec (head r) (-1)) as [E1|_]; [lia|].
    set (n := Z.of_nat (length (x :: q))) in *. assert (Hn : 1 <= n <= cap r) by (unfold n in *; cbn [length] in *; lia).
    destruct (Z_lt_le_dec (head r + n - 1) (cap r)) as [Hlt|Hge].
    + rewrite Z.mod_small in Ht by lia. destruct (Z.leb_spec (head r) (tail r)); lia.
    + rewrite mod_small_shift in Ht by lia. destruct (Z.leb_spec (head r) (tail r)); lia.
Qed.

(* the live region read out in order is the queue, whatever the rotation *)
Lemma live_is_queue r q : Inv r q -> q <> [] -> live r = q.
Proof.
  intros (Hc & Hl & Hq & Hm) Hne. destruct q as [|x q]; [congruence|]. destruct Hm as (Hh & Ht & Hn).
  set (n := length (x :: q)) in *. assert (Hn1 : (1 <= n)%nat) by (unfold n; cbn [length]; lia).
  unfold live. apply (nth_ext _ _ 0 0).
  - destruct (Z_lt_le_dec (head r + Z.of_nat n - 1) (cap r)) as [Hlt|Hge].
    + rewrite Z.mod_small in Ht by lia. destruct (Z.leb_spec (head r) (tail r)); [|lia].
      rewrite firstn_length, skipn_length. lia.
    + rewrite mod_small_shift in Ht by lia. destruct (Z.leb_spec (head r) (tail r)); [lia|].
      rewrite app_length, firstn_length, skipn_length. lia.
  - intros j Hj. 
    destruct (Z_lt_le_dec (head r + Z.of_nat n - 1) (cap r)) as [Hlt|Hge].
    + rewrite Z.mod_small in Ht by lia. destruct (Z.leb_spec (head r) (tail r)); [|lia].
      rewrite firstn_length, skipn_length in Hj.
      rewrite nth_firstn. destruct (Nat.ltb_spec j (S (Z.to_nat (tail r)) - Z.to_nat (head r))); [|lia].
      rewrite nth_skipn. rewrite <- (Hn j) by lia. f_equal. rewrite Z.mod_small by lia. lia.
    + rewrite mod_small_shift in Ht by lia. destruct (Z.leb_spec (head r) (tail r)); [lia|].
      rewrite app_length, firstn_length, skipn_length in Hj.
      destruct (Nat.lt_ge_cases j (length (vals r) - Z.to_nat (head r))) as [Hj1|Hj1].
      * rewrite app_nth1 by (rewrite skipn_length; lia). rewrite nth_skipn. rewrite <- (Hn j) by lia. f_equal. rewrite Z.mod_small by lia. lia.
      * rewrite app_nth2 by (rewrite skipn_length; lia). rewrite skipn_length.
        rewrite nth_firstn. destruct (Nat.ltb_spec (j - (length (vals r) - Z.to_nat (head r))) (S (Z.to_nat (tail r)))); [|lia].
        rewrite <- (Hn j) by lia. f_equal. rewrite mod_small_shift by lia. lia.
Qed.

Lemma gocopy_fits dst src : (length src <= length dst)%nat -> gocopy dst src = src ++ skipn (length src) dst.
Proof. intros H. unfold gocopy. rewrite firstn_all2 by lia. reflexivity. Qed.

Lemma skipn_repeat a b : skipn a (repeat 0 b) = repeat 0 (b - a).
Proof. revert a. induction b as [|b IH]; intros [|a]; cbn [repeat skipn Nat.sub]; auto. Qed.

(* the new buffer is the live region followed by zeros, in both layouts *)
Lemma recap_buffer r (c : nat) : (length (live r) <= c)%nat -> (length (vals r) = Z.to_nat (cap r)) -> 0 <= head r -> 0 <= tail r < cap r ->
  (if head r <=? tail r then gocopy (repeat 0 c) (firstn (S (Z.to_nat (tail r)) - Z.to_nat (head r)) (skipn (Z.to_nat (head r)) (vals r)))
    else let part1 := skipn (Z.to_nat (head r)) (vals r) in
         let n := Nat.min (length (repeat 0 c)) (length part1) in
         let nv1 := gocopy (repeat 0 c) part1 in
         firstn n nv1 ++ gocopy (skipn n nv1) (firstn (S (Z.to_nat (tail r))) (vals r)))
  = live r ++ repeat 0 (c - length (live r)).
Proof.
  intros Hfit Hlen Hh Ht. unfold live in *. destruct (Z.leb_spec (head r) (tail r)).
  - rewrite gocopy_fits by (rewrite repeat_length; auto). f_equal.
    apply skipn_repeat.
  - cbv zeta. rewrite app_length in Hfit. set (p1 := skipn (Z.to_nat (head r)) (vals r)) in *. set (p2 := firstn (S (Z.to_nat (tail r))) (vals r)) in *.
    rewrite repeat_length, Nat.min_r by lia. rewrite gocopy_fits by (rewrite repeat_length; lia).
    rewrite firstn_app, Nat.sub_diag, firstn_all. cbn [firstn]. rewrite app_nil_r, <- app_assoc. f_equal.
    rewrite skipn_app, skipn_all, Nat.sub_diag, skipn_O. cbn [app].
    rewrite skipn_repeat. rewrite gocopy_fits by (rewrite repeat_length; lia). f_equal. rewrite skipn_repeat. f_equal. rewrite app_length. lia.
Qed.

Theorem recap_spec r q c : Inv r q ->
  let ok := (0 <? c) && negb (c =? cap r) && (Z.of_nat (length q) <=? c) in
  snd (recap r c) = ok /\ Inv (fst (recap r c)) q /\ cap (fst (recap r c)) = (if ok then c else cap r).
Proof.
  intros HI. pose proof (len_spec r q HI) as Hlen. cbv zeta. unfold recap.
  destruct (Z.leb_spec c 0) as [Hc0|Hc0]; cbn [orb].
  - destruct (Z.ltb_spec 0 c); [lia|]. cbn [andb fst snd]. auto.
  - destruct (Z.ltb_spec 0 c); [|lia]. cbn [andb]. destruct (Z.eqb_spec c (cap r)) as [Ec|Ec]; cbn [negb andb fst snd]; [auto|].
    rewrite Hlen. destruct (Z.ltb_spec c (Z.of_nat (length q))) as [Hs|Hs].
    + destruct (Z.leb_spec (Z.of_nat (length q)) c); [lia|]. cbn [fst snd]. auto.
    + destruct (Z.leb_spec (Z.of_nat (length q)) c); [|lia].
      pose proof HI as (Hc & Hl & Hq & Hm). unfold is_empty. destruct q as [|x q].
      * destruct Hm as [Hh Ht]. rewrite Hh, Z.eqb_refl. cbn [fst snd]. repeat split; auto; cbn [vals head tail cap length]; try lia.
        rewrite repeat_length. lia.
      * pose proof (live_is_queue r (x :: q) HI ltac:(discriminate)) as Hlive.
        destruct Hm as (Hh & Ht & Hn). destruct (Z.eqb_spec (head r) (-1)) as [E1|_]; [lia|]. cbn [fst snd]. split; [reflexivity|]. split; [|reflexivity].
        assert (Htl : 0 <= tail r < cap r) by (rewrite Ht; apply Z.mod_pos_bound; lia).
        assert (HB := recap_buffer r (Z.to_nat c)). cbv zeta in HB. rewrite HB; try lia.
        2:{ rewrite Hlive. lia. }
        clear HB.
        rewrite Hlive. unfold Inv; cbn [vals head tail cap]. split; [lia|]. split; [rewrite app_length, repeat_length; lia|]. split; [lia|].
        split; [lia|]. split; [rewrite Z.mod_small; cbn [length] in *; lia|].
        intros j Hj. rewrite Z.mod_small by lia. replace (Z.to_nat (0 + Z.of_nat j)) with j by lia. apply app_nth1. auto.
Qed.
Print Assumptions recap_spec.

(* PushWithExpand: if full, double; then Push — never fails, content and order preserved *)
Definition push_expand (r : ring) (v : Z) : ring :=
  let r1 := if is_full r then fst (recap r (cap r * 2)) else r in fst (push r1 v).
Theorem push_expand_spec r q v : Inv r q -> Inv (push_expand r v) (q ++ [v]).
Proof.
  intros HI. unfold push_expand. pose proof (full_iff r q HI) as Hf. pose proof HI as (Hc & _ & Hq & _).
  destruct (is_full r) eqn:Ef.
  - assert (E : Z.of_nat (length q) = cap r) by (apply Hf; reflexivity).
    destruct (recap_spec r q (cap r * 2) HI) as (R1 & R2 & R3). cbv zeta in *.
    replace ((0 <? cap r * 2) && negb (cap r * 2 =? cap r) && (Z.of_nat (length q) <=? cap r * 2)) with true in *.
    2:{ symmetry. destruct (Z.ltb_spec 0 (cap r * 2)); [|lia]. destruct (Z.eqb_spec (cap r * 2) (cap r)); [lia|].
        destruct (Z.leb_spec (Z.of_nat (length q)) (cap r * 2)); [reflexivity|lia]. }
    destruct (push_spec _ q v R2) as [_ P]. rewrite R3 in P. destruct (Z.eqb_spec (Z.of_nat (length q)) (cap r * 2)); [lia|]. exact P.
  - destruct (push_spec r q v HI) as [_ P]. destruct (Z.eqb_spec (Z.of_nat (length q)) (cap r)) as [E|_]; [|exact P].
    apply Hf in E. congruence.
Qed.
Print Assumptions push_expand_spec.
