From Coq Require Import List Arith Lia Bool.
Import ListNotations.
Require Import SubRunes_proto.

(* strz.Mask (strs.go:11-52): keep the first `start` and last `end` runes, replace what lies between. *)
Section Mask.
Variable sz : list nat -> nat.
Hypothesis sz_pos : forall r, r <> [] -> 1 <= sz r <= length r.
Notation runes := (runes sz).

(* the index loop: for i < len(str) { if count == start {startIndex = i} else if count == end {endIndex = i}; i += width; count++ } *)
Fixpoint idx_go (s : list nat) (start end_ : nat) (fuel i count si ei : nat) : option (nat * nat) :=
  match fuel with
  | O => None
  | S f =>
      if i <? length s then
        let si' := if count =? start then i else si in
        let ei' := if count =? start then ei else if count =? end_ then i else ei in
        idx_go s start end_ f (i + sz (skipn i s)) (S count) si' ei'
      else Some (si, ei)
  end.

Definition mask (str msk : list nat) (start end_ : nat) : option (list nat) :=
  let l := length (runes str) in
  if l <=? start + end_ then Some str else                                     (* ml <= 0 *)
  let ml := l - start - end_ in
  let msk' := if length (runes msk) =? 1 then concat (repeat msk ml) else msk in
  if ml =? l then Some msk' else
  match idx_go str start (l - end_) (S (length str)) 0 0 0 0 with
  | None => None
  | Some (si, ei) =>
      let ei' := if ei =? 0 then length str else ei in
      if (si <=? length str) && (ei' <=? length str)                           (* str[:startIndex], str[endIndex:] *)
      then Some (firstn si str ++ msk' ++ skipn ei' str) else None
  end.

Definition off (cs : list (list nat)) (k : nat) : nat := length (concat (firstn k cs)).

Lemma chunks_nonempty : forall fuel r, Forall (fun c => c <> []) (chunks sz fuel r).
Proof.
  induction fuel as [|f IH]; intros r; cbn [chunks]; [constructor|]. destruct r as [|a r']; [constructor|]. constructor; [|apply IH].
  pose proof (sz_pos (a :: r') ltac:(discriminate)) as H. intros E. apply (f_equal (@length nat)) in E. rewrite firstn_length in E. cbn [length] in *. lia.
Qed.
Lemma off_pos cs k : Forall (fun c => c <> []) cs -> 1 <= k -> cs <> [] -> 0 < off cs k.
Proof.
  intros Hne Hk Hcs. destruct cs as [|c cs']; [congruence|]. destruct k as [|k']; [lia|]. unfold off. cbn [firstn concat]. rewrite app_length.
  inversion Hne; subst. destruct c; [congruence|cbn [length]; lia].
Qed.

Lemma idx_go_spec s start end_ : forall rs ps fuel,
  s = concat ps ++ concat rs -> runes (concat rs) = rs -> length (concat rs) < fuel -> start < end_ ->
  idx_go s start end_ fuel (length (concat ps)) (length ps)
         (if start <? length ps then off ps start else 0) (if end_ <? length ps then off ps end_ else 0)
  = Some (if start <? length (ps ++ rs) then off (ps ++ rs) start else 0,
          if end_ <? length (ps ++ rs) then off (ps ++ rs) end_ else 0).
Proof.
  induction rs as [|r rs' IH]; intros ps fuel Hs Hr Hf Hse; (destruct fuel as [|f]; [lia|]); cbn [idx_go].
  - cbn [concat] in Hs. rewrite app_nil_r in Hs. rewrite app_nil_r. rewrite Hs, Nat.ltb_irrefl. reflexivity.
  - set (R := concat (r :: rs')) in *.
    assert (HRne : R <> []) by (intros E; rewrite E in Hr; discriminate).
    rewrite (runes_cons sz sz_pos R HRne) in Hr. injection Hr as Er Ers.
    assert (Hlr : length r = sz R) by (rewrite <- Er at 1; rewrite firstn_length; pose proof (sz_pos R HRne); lia).
    pose proof (sz_pos R HRne) as Hsz.
    assert (Hi : length (concat ps) < length s) by (rewrite Hs, app_length; destruct R; [congruence|cbn [length]; lia]).
    destruct (Nat.ltb_spec (length (concat ps)) (length s)); [|lia].
    assert (Hsk : skipn (length (concat ps)) s = R) by (rewrite Hs; apply skipn_len_app).
    rewrite Hsk, <- Hlr.
    replace (ps ++ r :: rs') with ((ps ++ [r]) ++ rs') by (rewrite <- app_assoc; reflexivity).
    replace (length (concat ps) + length r) with (length (concat (ps ++ [r]))) by (rewrite concat_snoc, app_length; reflexivity).
    replace (S (length ps)) with (length (ps ++ [r])) by (rewrite app_length; cbn [length]; lia).
    assert (Hoff : forall k, k <= length ps -> off (ps ++ [r]) k = off ps k)
      by (intros k Hk; unfold off; rewrite firstn_app; replace (k - length ps) with 0 by lia; cbn [firstn]; rewrite app_nil_r; reflexivity).
    assert (Hoffn : off ps (length ps) = length (concat ps)) by (unfold off; rewrite firstn_all; reflexivity).
    rewrite <- (IH (ps ++ [r]) f).
    + f_equal.
      * rewrite app_length. cbn [length]. destruct (Nat.eqb_spec (length ps) start) as [E|E].
        -- destruct (Nat.ltb_spec start (length ps + 1)); [|lia]. rewrite Hoff by lia. rewrite <- E. symmetry. exact Hoffn.
        -- destruct (Nat.ltb_spec start (length ps)), (Nat.ltb_spec start (length ps + 1)); try lia; try reflexivity; apply eq_sym, Hoff; lia.
      * rewrite app_length. cbn [length]. destruct (Nat.eqb_spec (length ps) start) as [E|E].
        -- destruct (Nat.ltb_spec end_ (length ps)); [lia|]. destruct (Nat.ltb_spec end_ (length ps + 1)); [lia|]. reflexivity.
        -- destruct (Nat.eqb_spec (length ps) end_) as [E2|E2].
           ++ destruct (Nat.ltb_spec end_ (length ps + 1)); [|lia]. rewrite Hoff by lia. rewrite <- E2. symmetry. exact Hoffn.
           ++ destruct (Nat.ltb_spec end_ (length ps)), (Nat.ltb_spec end_ (length ps + 1)); try lia; try reflexivity; apply eq_sym, Hoff; lia.
    + rewrite concat_snoc, <- app_assoc. exact Hs.
    + assert (Hcr : skipn (sz R) R = concat rs') by (rewrite <- Hlr; unfold R; cbn [concat]; apply skipn_len_app).
      rewrite <- Hcr. exact Ers.
    + unfold R in Hf. cbn [concat] in Hf. rewrite app_length in Hf. lia.
    + exact Hse.
Qed.

(* never out of range; the result is: first `start` runes, the mask, last `end` runes *)
Theorem mask_spec str msk start end_ :
  let cs := runes str in let l := length cs in
  mask str msk start end_ =
    Some (if l <=? start + end_ then str
          else let ml := l - start - end_ in
               let msk' := if length (runes msk) =? 1 then concat (repeat msk ml) else msk in
               concat (firstn start cs) ++ msk' ++ concat (skipn (l - end_) cs)).
Proof.
  cbv zeta. unfold mask. set (cs := runes str). set (l := length cs).
  assert (Hc : concat cs = str) by (apply chunks_concat; auto).
  destruct (Nat.leb_spec l (start + end_)) as [Hle|Hgt]; [reflexivity|].
  set (msk' := if length (runes msk) =? 1 then concat (repeat msk (l - start - end_)) else msk).
  destruct (Nat.eqb_spec (l - start - end_) l) as [E|E].
  - assert (start = 0 /\ end_ = 0) as [-> ->] by lia. cbn [firstn concat app]. rewrite Nat.sub_0_r. unfold l. rewrite skipn_all. cbn [concat]. rewrite app_nil_r. reflexivity.
  - pose proof (idx_go_spec str start (l - end_) cs [] (S (length str))) as G. cbn [concat app length] in G.
    replace (start <? 0) with false in G by (symmetry; apply Nat.ltb_ge; lia).
    replace (l - end_ <? 0) with false in G by (symmetry; apply Nat.ltb_ge; lia).
    rewrite G; [| symmetry; exact Hc | rewrite Hc; reflexivity | rewrite Hc; lia | lia]. fold l.
    destruct (Nat.ltb_spec start l); [|lia].
    assert (Hdec : forall k, str = concat (firstn k cs) ++ concat (skipn k cs))
      by (intros k; rewrite <- concat_app, firstn_skipn; symmetry; exact Hc).
    assert (Hoff_le : forall k, off cs k <= length str) by (intros k; unfold off; rewrite (Hdec k), app_length; lia).
    assert (Hsplit : forall k, firstn (off cs k) str = concat (firstn k cs) /\ skipn (off cs k) str = concat (skipn k cs)).
    { intros k. unfold off. rewrite (Hdec k). split; [apply firstn_len_app|apply skipn_len_app]. }
    destruct (Nat.ltb_spec (l - end_) l) as [Hel|Hel].
    + (* end > 0: the second index was recorded in the loop and is positive *)
      assert (Hpos : 0 < off cs (l - end_)).
      { apply off_pos; [apply chunks_nonempty|lia|]. intros Ecs. unfold l in Hgt. rewrite Ecs in Hgt. cbn [length] in Hgt. lia. }
      destruct (Nat.eqb_spec (off cs (l - end_)) 0); [lia|].
      destruct (Nat.leb_spec (off cs start) (length str)); [|pose proof (Hoff_le start); lia].
      destruct (Nat.leb_spec (off cs (l - end_)) (length str)); [|pose proof (Hoff_le (l - end_)); lia]. cbn [andb].
      destruct (Hsplit start) as [-> _]. destruct (Hsplit (l - end_)) as [_ ->]. reflexivity.
    + (* end = 0: endIndex stayed 0 and becomes len(str) *)
      rewrite Nat.eqb_refl. destruct (Nat.leb_spec (off cs start) (length str)); [|pose proof (Hoff_le start); lia].
      rewrite Nat.leb_refl. cbn [andb]. destruct (Hsplit start) as [-> _]. rewrite skipn_all.
      replace (l - end_) with l by lia. unfold l. rewrite skipn_all. reflexivity.
Qed.
End Mask.
Print Assumptions mask_spec.
