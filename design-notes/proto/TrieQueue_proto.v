From Coq Require Import List Arith Lia Bool.
Import ListNotations.

(* algz.trieNodeQueue (trie.go:407-461): growable ring of node pointers used by BuildFailureLinks.
   Counters are below 2^32 (fewer than 2^32 pushes), so uint32 arithmetic is plain arithmetic here. *)
Record q := { nodes : list nat; hd : nat; tl : nat; cp : nat }.

Fixpoint upd (l : list nat) (i : nat) (x : nat) : list nat :=
  match l, i with [], _ => [] | _ :: t, O => x :: t | h :: t, S j => h :: upd t j x end.
Lemma upd_length l i x : length (upd l i x) = length l.
Proof. revert i; induction l as [|a l IH]; intros [|i]; cbn [upd length]; auto. Qed.
Lemma nth_upd l i j x : i < length l -> nth j (upd l i x) 0 = if Nat.eqb j i then x else nth j l 0.
Proof. revert i j; induction l as [|a l IH]; intros [|i] [|j] H; cbn [upd nth length Nat.eqb] in *; try lia; auto. apply IH; lia. Qed.

Definition gocopy (dst src : list nat) : list nat := firstn (length dst) src ++ skipn (length src) dst.

Definition grow (s : q) : q :=
  let tailPos := (tl s - 1) mod cp s in
  let headPos := hd s mod cp s in
  let c2 := cp s * 2 in
  let nw := repeat 0 c2 in
  let nw' := if headPos <? tailPos then gocopy nw (firstn (S tailPos - headPos) (skipn headPos (nodes s)))
             else let p1 := skipn headPos (nodes s) in
                  let n := Nat.min (length nw) (length p1) in
                  let nw1 := gocopy nw p1 in
                  firstn n nw1 ++ gocopy (skipn n nw1) (firstn (S tailPos) (nodes s)) in
  {| nodes := nw'; hd := 0; tl := tl s - hd s; cp := c2 |}.
Definition push (s : q) (x : nat) : q :=
  let s1 := if tl s - hd s =? cp s then grow s else s in
  {| nodes := upd (nodes s1) (tl s1 mod cp s1) x; hd := hd s1; tl := S (tl s1); cp := cp s1 |}.
Definition pop (s : q) : q * option nat :=
  if hd s =? tl s then (s, None) else ({| nodes := nodes s; hd := S (hd s); tl := tl s; cp := cp s |}, Some (nth (hd s mod cp s) (nodes s) 0)).

(* the queue is created with Init(10) and only ever doubles: cap >= 2 (with cap = 1 the two-part copy of
   grow would duplicate the element into the unused half — harmless, but not the buffer described below) *)
Definition Inv (s : q) (l : list nat) : Prop :=
  2 <= cp s /\ length (nodes s) = cp s /\ hd s + length l = tl s /\ length l <= cp s /\
  forall j, j < length l -> nth ((hd s + j) mod cp s) (nodes s) 0 = nth j l 0.

Lemma nth_firstn (l : list nat) n j : nth j (firstn n l) 0 = if j <? n then nth j l 0 else 0.
Proof.
  revert n j; induction l as [|a l IH]; intros [|n] [|j]; cbn [firstn nth]; auto.
  - destruct (S j <? S n); reflexivity.
  - rewrite IH. reflexivity.
Qed.
Lemma nth_skipn (l : list nat) n j : nth j (skipn n l) 0 = nth (n + j) l 0.
Proof. revert l; induction n as [|n IH]; intros [|a l]; cbn [skipn nth Nat.add]; auto. destruct j; reflexivity. Qed.
Lemma skipn_repeat a b : skipn a (repeat 0 b) = repeat 0 (b - a).
Proof. revert a. induction b as [|b IH]; intros [|a]; cbn [repeat skipn Nat.sub]; auto. Qed.
Lemma gocopy_fits dst src : length src <= length dst -> gocopy dst src = src ++ skipn (length src) dst.
Proof. intros H. unfold gocopy. rewrite firstn_all2 by lia. reflexivity. Qed.
Lemma mod_wrap a c : 0 < c -> c <= a < 2 * c -> a mod c = a - c.
Proof. intros Hc Ha. symmetry. apply (Nat.mod_unique a c 1); lia. Qed.

(* a full ring, read from head around to tail-1, is the queue; the grown buffer starts with it *)
Lemma grow_spec s l : Inv s l -> length l = cp s -> Inv (grow s) l /\ cp (grow s) = 2 * cp s.
Proof.
  intros (Hc & Hn & Ht & Hle & Hnth) Hfull. split; [|unfold grow; cbn [cp]; lia].
  set (c := cp s) in *. set (h := hd s mod c).
  assert (Hh : h < c) by (apply Nat.mod_upper_bound; lia).
  assert (Htp : (tl s - 1) mod c = (h + c - 1) mod c).
  { replace (tl s - 1) with (hd s + (c - 1)) by lia. replace (h + c - 1) with (h + (c - 1)) by lia. unfold h. rewrite Nat.add_mod_idemp_l by lia. reflexivity. }
  (* element j of the queue sits at (h + j) mod c *)
  assert (Hq : forall j, j < c -> nth ((h + j) mod c) (nodes s) 0 = nth j l 0).
  { intros j Hj. rewrite <- Hnth by lia. unfold h. rewrite Nat.add_mod_idemp_l by lia. reflexivity. }
  assert (Hbuf : nodes (grow s) = l ++ repeat 0 c).
  { unfold grow. cbn [nodes]. fold c. fold h. rewrite Htp.
    destruct (Nat.eq_dec h 0) as [Eh|Eh].
    - rewrite Eh. replace ((0 + c - 1) mod c) with (c - 1) by (rewrite Nat.mod_small; lia).
      destruct (Nat.ltb_spec 0 (c - 1)) as [Hlt|Hge].
      + cbn [skipn]. replace (S (c - 1) - 0) with c by lia. rewrite (firstn_all2 (nodes s)) by lia.
        rewrite gocopy_fits by (rewrite repeat_length; lia). rewrite skipn_repeat, Hn. replace (c * 2 - c) with c by lia. f_equal.
        apply (nth_ext _ _ 0 0); [lia|]. intros j Hj. rewrite <- Hq by lia. rewrite Eh. cbn [Nat.add]. rewrite Nat.mod_small by lia. reflexivity.
      + lia.
    - replace ((h + c - 1) mod c) with (h - 1) by (rewrite mod_wrap; lia).
      destruct (Nat.ltb_spec h (h - 1)); [lia|]. cbv zeta.
      set (p1 := skipn h (nodes s)). set (p2 := firstn (S (h - 1)) (nodes s)).
      assert (L1 : length p1 = c - h) by (unfold p1; rewrite skipn_length; lia).
      assert (L2 : length p2 = h) by (unfold p2; rewrite firstn_length; lia).
      rewrite repeat_length, Nat.min_r by lia. rewrite gocopy_fits by (rewrite repeat_length; lia).
      rewrite firstn_app, Nat.sub_diag, firstn_all. cbn [firstn]. rewrite app_nil_r.
      rewrite skipn_app, skipn_all, Nat.sub_diag, skipn_O. cbn [app]. rewrite skipn_repeat.
      rewrite gocopy_fits by (rewrite repeat_length; lia). rewrite skipn_repeat, app_assoc. f_equal.
      + apply (nth_ext _ _ 0 0); [rewrite app_length; lia|]. intros j Hj. rewrite app_length in Hj.
        destruct (Nat.lt_ge_cases j (c - h)) as [Hj1|Hj1].
        * rewrite app_nth1 by lia. unfold p1. rewrite nth_skipn. rewrite <- Hq by lia. rewrite Nat.mod_small by lia. reflexivity.
        * rewrite app_nth2 by lia. unfold p2. rewrite nth_firstn. destruct (Nat.ltb_spec (j - length p1) (S (h - 1))); [|lia].
          rewrite <- Hq by lia. rewrite mod_wrap by lia. f_equal. lia.
      + f_equal. lia. }
  unfold Inv. rewrite Hbuf. unfold grow. cbn [hd tl cp]. fold c.
  split; [lia|]. split; [rewrite app_length, repeat_length; lia|]. split; [lia|]. split; [lia|].
  intros j Hj. cbn [Nat.add]. rewrite Nat.mod_small by lia. apply app_nth1. auto.
Qed.

Theorem push_spec s l x : Inv s l -> Inv (push s x) (l ++ [x]).
Proof.
  intros HI. unfold push.
  assert (G : exists s1, (if tl s - hd s =? cp s then grow s else s) = s1 /\ Inv s1 l /\ length l < cp s1).
  { pose proof HI as (Hc & Hn & Ht & Hle & Hnth). destruct (Nat.eqb_spec (tl s - hd s) (cp s)) as [E|E].
    - destruct (grow_spec s l HI ltac:(lia)) as [G1 G2]. exists (grow s). split; [reflexivity|split; [exact G1|lia]].
    - exists s. split; [reflexivity|split; [exact HI|lia]]. }
  destruct G as (s1 & -> & (Hc & Hn & Ht & Hle & Hnth) & Hlt).
  unfold Inv. cbn [nodes hd tl cp]. rewrite upd_length, app_length. cbn [length].
  assert (Hm : tl s1 mod cp s1 < cp s1) by (apply Nat.mod_upper_bound; lia).
  split; [lia|]. split; [lia|]. split; [lia|]. split; [lia|].
  intros j Hj. rewrite nth_upd by lia. rewrite <- Ht.
  destruct (Nat.eq_dec j (length l)) as [->|Hne].
  - rewrite Nat.eqb_refl. rewrite app_nth2, Nat.sub_diag by lia. reflexivity.
  - rewrite app_nth1 by lia. destruct (Nat.eqb_spec ((hd s1 + j) mod cp s1) ((hd s1 + length l) mod cp s1)) as [E|_]; [|apply Hnth; lia].
    exfalso. (* two positions less than cap apart cannot collide modulo cap *)
    assert (Hd : (hd s1 + length l) = (hd s1 + j) + (length l - j)) by lia.
    pose proof (Nat.div_mod (hd s1 + j) (cp s1) ltac:(lia)) as D1. pose proof (Nat.div_mod (hd s1 + length l) (cp s1) ltac:(lia)) as D2.
    rewrite <- E in D2. assert (cp s1 * ((hd s1 + length l) / cp s1) = cp s1 * ((hd s1 + j) / cp s1) + (length l - j)) by lia.
    assert ((hd s1 + length l) / cp s1 > (hd s1 + j) / cp s1 \/ (hd s1 + length l) / cp s1 <= (hd s1 + j) / cp s1) by lia. nia.
Qed.

Theorem pop_spec s l : Inv s l ->
  match l with
  | [] => pop s = (s, None)
  | x :: r => snd (pop s) = Some x /\ Inv (fst (pop s)) r
  end.
Proof.
  intros (Hc & Hn & Ht & Hle & Hnth). unfold pop. destruct l as [|x r]; cbn [length] in *.
  - destruct (Nat.eqb_spec (hd s) (tl s)); [reflexivity|lia].
  - destruct (Nat.eqb_spec (hd s) (tl s)); [lia|]. cbn [fst snd]. split.
    + f_equal. specialize (Hnth 0 ltac:(lia)). rewrite Nat.add_0_r in Hnth. exact Hnth.
    + unfold Inv. cbn [nodes hd tl cp]. repeat split; auto; try lia.
      intros j Hj. specialize (Hnth (S j) ltac:(lia)). replace (S (hd s) + j) with (hd s + S j) by lia. exact Hnth.
Qed.
Print Assumptions push_spec.
Print Assumptions pop_spec.
