From Coq Require Import List Arith Lia Bool.
Import ListNotations.
Require Import SubRunes_proto.

(* algz.Trie.ReplaceWithMask after mergeScopes (trie.go:132-155) at the rune level.
   sz is the width the decoder reports at a position (1..remaining; 1 for an invalid byte); the scopes come from
   find(), whose offsets are sums of such widths, so they sit on rune boundaries of the text. *)
Section Mask.
Variable sz : list nat -> nat.
Hypothesis sz_pos : forall r, r <> [] -> 1 <= sz r <= length r.
(* the decoder looks only at the bytes of the rune it reports: cutting the text after that rune changes nothing *)
Hypothesis sz_local : forall r x, r <> [] -> sz (r ++ x) <= length r -> sz r = sz (r ++ x).
Notation runes := (runes sz).

Definition slice (l : list nat) (a b : nat) : option (list nat) :=
  if (a <=? b) && (b <=? length l) then Some (firstn (b - a) (skipn a l)) else None.

(* for _, v := range scopes { write text[begin:v.start]; num := RuneCount(text[v.start:v.stop]); num times mask; begin = v.stop };
   write text[begin:] *)
Fixpoint mask_go (text mask : list nat) (begin : nat) (m : list (nat * nat)) (out : list nat) : option (list nat) :=
  match m with
  | [] => match slice text begin (length text) with Some s => Some (out ++ s) | None => None end
  | (a, b) :: t =>
      match slice text begin a, slice text a b with
      | Some s, Some cov => mask_go text mask b t (out ++ s ++ concat (repeat mask (length (runes cov))))
      | _, _ => None
      end
  end.

(* byte offset of rune index k *)
Definition off (cs : list (list nat)) (k : nat) : nat := length (concat (firstn k cs)).

(* rune-index scopes: increasing, disjoint, non-empty, inside the text *)
Fixpoint good (from n : nat) (m : list (nat * nat)) : Prop :=
  match m with [] => from <= n | (a, b) :: t => from <= a /\ a < b /\ good b n t end.
Definition coveredb (m : list (nat * nat)) (i : nat) : bool := existsb (fun '(a, b) => (a <=? i) && (i <? b)) m.
(* the specification: rune i becomes the mask if some scope covers it, and stays as it is otherwise *)
Fixpoint mask_spec (mask : list nat) (m : list (nat * nat)) (i : nat) (cs : list (list nat)) : list (list nat) :=
  match cs with [] => [] | c :: t => (if coveredb m i then mask else c) :: mask_spec mask m (S i) t end.

(* ---- runes of an aligned piece of the text are the corresponding runes of the text ---- *)
Lemma runes_prefix : forall mid rest, runes (concat mid ++ rest) = mid ++ runes rest -> Forall (fun c => c <> []) mid -> runes (concat mid) = mid.
Proof.
  induction mid as [|c mid IH]; intros rest H Hne; [reflexivity|]. inversion Hne as [|? ? Hc Hne']; subst.
  cbn [concat] in *. rewrite <- app_assoc in H.
  assert (Hn1 : c ++ concat mid ++ rest <> []) by (destruct c; [congruence|discriminate]).
  assert (Hn2 : c ++ concat mid <> []) by (destruct c; [congruence|discriminate]).
  rewrite (runes_cons sz sz_pos _ Hn1) in H. cbn [app] in H. injection H as H1 H2.
  assert (Hsz : sz (c ++ concat mid ++ rest) = length c).
  { apply (f_equal (@length nat)) in H1. rewrite firstn_length in H1. pose proof (sz_pos _ Hn1). lia. }
  assert (Hsz' : sz (c ++ concat mid) = length c).
  { rewrite <- Hsz. rewrite (app_assoc c (concat mid) rest). apply sz_local; auto. rewrite <- app_assoc, Hsz, app_length. lia. }
  rewrite (runes_cons sz sz_pos _ Hn2), Hsz', firstn_len_app, skipn_len_app. f_equal.
  apply (IH rest); auto. rewrite Hsz, skipn_len_app in H2. exact H2.
Qed.

Lemma runes_split cs k : runes (concat cs) = cs -> Forall (fun c => c <> []) cs ->
  runes (concat (skipn k cs)) = skipn k cs.
Proof.
  revert cs. induction k as [|k IH]; intros cs H Hne; [exact H|]. destruct cs as [|c cs]; [reflexivity|]. cbn [skipn].
  inversion Hne as [|? ? Hc Hne']; subst. apply IH; auto. cbn [concat] in H.
  assert (Hn1 : c ++ concat cs <> []) by (destruct c; [congruence|discriminate]).
  rewrite (runes_cons sz sz_pos _ Hn1) in H. injection H as H1 H2.
  assert (Hsz : sz (c ++ concat cs) = length c).
  { apply (f_equal (@length nat)) in H1. rewrite firstn_length in H1. pose proof (sz_pos _ Hn1). lia. }
  rewrite Hsz, skipn_len_app in H2. exact H2.
Qed.

Lemma runes_mid cs a b : runes (concat cs) = cs -> Forall (fun c => c <> []) cs -> a <= b <= length cs ->
  runes (concat (firstn (b - a) (skipn a cs))) = firstn (b - a) (skipn a cs).
Proof.
  intros H Hne Hab. pose proof (runes_split cs a H Hne) as Hs.
  assert (Hne' : Forall (fun c => c <> []) (skipn a cs)).
  { rewrite Forall_forall in *. intros c Hc. apply Hne. rewrite <- (firstn_skipn a cs). apply in_or_app. right; auto. }
  set (R := skipn a cs) in *. rewrite <- (firstn_skipn (b - a) R) in Hs. rewrite concat_app in Hs.
  apply (runes_prefix _ (concat (skipn (b - a) R))).
  - rewrite Hs at 1. f_equal. symmetry.
    assert (Hs2 : runes (concat R) = R) by (rewrite <- (firstn_skipn (b - a) R), concat_app; exact Hs).
    apply (runes_split R (b - a) Hs2 Hne').
  - rewrite Forall_forall in *. intros c Hc. apply Hne'. rewrite <- (firstn_skipn (b - a) R). apply in_or_app. left; auto.
Qed.

Lemma slice_off cs a b : a <= b <= length cs ->
  slice (concat cs) (off cs a) (off cs b) = Some (concat (firstn (b - a) (skipn a cs))).
Proof.
  intros Hab. unfold slice, off.
  assert (E : firstn b cs = firstn a cs ++ firstn (b - a) (skipn a cs)).
  { rewrite <- (firstn_skipn a cs) at 1. rewrite firstn_app, firstn_length, Nat.min_l by lia.
    rewrite firstn_firstn, Nat.min_r by lia. reflexivity. }
  assert (E2 : concat cs = concat (firstn a cs) ++ concat (firstn (b - a) (skipn a cs)) ++ concat (skipn b cs)).
  { rewrite <- (firstn_skipn b cs) at 1. rewrite concat_app, E, concat_app, <- app_assoc. reflexivity. }
  rewrite E, concat_app, app_length. rewrite E2.
  generalize (concat (firstn a cs)) as A. generalize (concat (firstn (b - a) (skipn a cs))) as B. generalize (concat (skipn b cs)) as C.
  intros C B A. rewrite !app_length.
  destruct (Nat.leb_spec (length A) (length A + length B)); [|lia].
  destruct (Nat.leb_spec (length A + length B) (length A + (length B + length C))); [|lia].
  cbn [andb]. rewrite skipn_len_app. replace (length A + length B - length A) with (length B) by lia.
  rewrite firstn_len_app. reflexivity.
Qed.

Lemma mask_spec_uncovered mask m : forall cs i, (forall j, i <= j < i + length cs -> coveredb m j = false) -> mask_spec mask m i cs = cs.
Proof.
  induction cs as [|c cs IH]; intros i H; cbn [mask_spec]; [reflexivity|]. rewrite H by (cbn [length]; lia). f_equal.
  apply IH. intros j Hj. apply H. cbn [length]. lia.
Qed.
Lemma mask_spec_covered mask m : forall cs i, (forall j, i <= j < i + length cs -> coveredb m j = true) ->
  mask_spec mask m i cs = repeat mask (length cs).
Proof.
  induction cs as [|c cs IH]; intros i H; cbn [mask_spec length repeat]; [reflexivity|]. rewrite H by (cbn [length]; lia). f_equal.
  apply IH. intros j Hj. apply H. cbn [length]. lia.
Qed.
Lemma mask_spec_app mask m a b i : mask_spec mask m i (a ++ b) = mask_spec mask m i a ++ mask_spec mask m (i + length a) b.
Proof.
  revert i; induction a as [|c a IH]; intros i; cbn [app mask_spec length]; [rewrite Nat.add_0_r; reflexivity|].
  rewrite IH. replace (i + S (length a)) with (S i + length a) by lia. reflexivity.
Qed.

Lemma skipn_skipn {A} x y (l : list A) : skipn x (skipn y l) = skipn (x + y) l.
Proof.
  revert l; induction y as [|y IH]; intros l; [rewrite Nat.add_0_r; reflexivity|].
  destruct l as [|a l]; [rewrite !skipn_nil; reflexivity|]. cbn [skipn]. rewrite IH. replace (x + S y) with (S (x + y)) by lia. reflexivity.
Qed.

Lemma good_bound from n m : good from n m -> from <= n.
Proof. revert from; induction m as [|[a b] t IH]; cbn [good]; intros from H; [exact H|]. destruct H as (H1 & H2 & H3). apply IH in H3. lia. Qed.
Lemma good_not_before from n m : good from n m -> forall j, j < from -> coveredb m j = false.
Proof.
  revert from; induction m as [|[a b] t IH]; intros from H j Hj; [reflexivity|]. cbn [good] in H. destruct H as (H1 & H2 & H3).
  cbn [coveredb existsb]. destruct (Nat.leb_spec a j); [lia|]. cbn [andb orb]. apply (IH b); auto. lia.
Qed.

(* the whole loop: never out of range, and rune for rune the specification; in particular the rune count is kept *)
Theorem mask_go_spec cs mask : runes (concat cs) = cs -> Forall (fun c => c <> []) cs ->
  forall m from out, good from (length cs) m ->
  mask_go (concat cs) mask (off cs from) (map (fun '(a, b) => (off cs a, off cs b)) m) out
  = Some (out ++ concat (mask_spec mask m from (skipn from cs))).
Proof.
  intros Hr Hne. induction m as [|[a b] t IH]; intros from out Hg; cbn [map mask_go good] in *.
  - assert (Hlen : length (concat cs) = off cs (length cs)) by (unfold off; rewrite firstn_all; reflexivity).
    rewrite Hlen, slice_off by lia. rewrite mask_spec_uncovered by reflexivity.
    rewrite firstn_all2 by (rewrite skipn_length; lia). reflexivity.
  - destruct Hg as (H1 & H2 & H3). pose proof (good_bound _ _ _ H3) as Hb.
    rewrite slice_off by lia. rewrite slice_off by lia. rewrite runes_mid by (auto; lia).
    rewrite IH by auto. f_equal. rewrite <- !app_assoc. f_equal.
    (* split the remaining runes into: before the scope, inside it, after it *)
    assert (Es : skipn from cs = firstn (a - from) (skipn from cs) ++ firstn (b - a) (skipn a cs) ++ skipn b cs).
    { rewrite <- (firstn_skipn (a - from) (skipn from cs)) at 1. f_equal. rewrite skipn_skipn. replace (a - from + from) with a by lia.
      rewrite <- (firstn_skipn (b - a) (skipn a cs)) at 1. f_equal. rewrite skipn_skipn. f_equal. lia. }
    replace (mask_spec mask ((a, b) :: t) from (skipn from cs))
      with (mask_spec mask ((a, b) :: t) from (firstn (a - from) (skipn from cs) ++ firstn (b - a) (skipn a cs) ++ skipn b cs))
      by (rewrite <- Es; reflexivity).
    rewrite !mask_spec_app, !concat_app.
    assert (L1 : length (firstn (a - from) (skipn from cs)) = a - from) by (rewrite firstn_length, skipn_length; lia).
    assert (L2 : length (firstn (b - a) (skipn a cs)) = b - a) by (rewrite firstn_length, skipn_length; lia).
    rewrite L1, L2. replace (from + (a - from)) with a by lia. replace (a + (b - a)) with b by lia.
    f_equal; [|f_equal].
    + f_equal. symmetry. apply mask_spec_uncovered. rewrite L1. intros j Hj. cbn [coveredb existsb].
      destruct (Nat.leb_spec a j); [lia|]. cbn [andb orb]. apply (good_not_before b _ t H3). lia.
    + f_equal. symmetry. rewrite <- L2 at 2. apply mask_spec_covered. rewrite L2. intros j Hj. cbn [coveredb existsb].
      destruct (Nat.leb_spec a j); [|lia]. destruct (Nat.ltb_spec j b); [|lia]. reflexivity.
    + (* beyond b only the later scopes matter *)
      f_equal. clear -H2 H3. generalize (skipn b cs) as rest. intros rest.
      assert (G : forall rest i, b <= i -> mask_spec mask ((a, b) :: t) i rest = mask_spec mask t i rest).
      { induction rest0 as [|c r IHr]; intros i Hi; cbn [mask_spec]; [reflexivity|]. rewrite IHr by lia. f_equal.
        cbn [coveredb existsb]. destruct (Nat.ltb_spec i b); [lia|]. rewrite andb_false_r. reflexivity. }
      symmetry. apply G. lia.
Qed.

Corollary mask_rune_count cs mask m : runes (concat cs) = cs -> Forall (fun c => c <> []) cs -> good 0 (length cs) m ->
  exists out, mask_go (concat cs) mask 0 (map (fun '(a, b) => (off cs a, off cs b)) m) [] = Some (concat out) /\
              length out = length cs /\ out = mask_spec mask m 0 cs.
Proof.
  intros Hr Hne Hg. exists (mask_spec mask m 0 cs). split; [|split; [|reflexivity]].
  - pose proof (mask_go_spec cs mask Hr Hne m 0 [] Hg) as H. unfold off in H at 1. cbn [firstn concat length skipn app] in H. exact H.
  - clear. generalize 0. induction cs as [|c cs IH]; intros i; cbn [mask_spec length]; auto.
Qed.
End Mask.
Print Assumptions mask_go_spec.
Print Assumptions mask_rune_count.
