From Coq Require Import List Arith Lia Bool.
Import ListNotations.

(* strz.Sub (strs.go:100-136): one pass that counts runes and remembers byte offsets.
   sz gives the byte width the loop advances by at a position (1 for bytes < 0x80, else what
   utf8.DecodeRuneInString reports, which is 1 for an invalid byte): always 1..len. *)
Section Sub.
Variable sz : list nat -> nat.
Hypothesis sz_pos : forall r, r <> [] -> 1 <= sz r <= length r.

Inductive out := Ret (b : list nat) | Stuck.

(* len: None is the argument -1; Some n with n >= 1 (0 returns "" before the loop) *)
Fixpoint go (s : list nat) (start : nat) (len : option nat) (fuel : nat) (i count : nat) (begin : option nat) : out :=
  match fuel with
  | O => Stuck
  | S f =>
      if i <? length s then
        let step b := go s start len f (i + sz (skipn i s)) (S count) b in
        if count =? start then
          match len with None => Ret (skipn i s) | Some _ => step (Some i) end
        else match begin, len with
             | Some b, Some n => if start + n =? count then Ret (firstn (i - b) (skipn b s)) else step begin
             | _, _ => step begin
             end
      else Ret (match begin with None => [] | Some b => skipn b s end)
  end.
Definition sub (s : list nat) (start : nat) (len : option nat) : out :=
  match len with Some 0 => Ret [] | _ => match s with [] => Ret s | _ => go s start len (S (length s)) 0 0 None end end.

(* the runes of a byte string, as the loop sees them *)
Fixpoint chunks (fuel : nat) (r : list nat) : list (list nat) :=
  match fuel with
  | O => []
  | S f => match r with [] => [] | _ => firstn (sz r) r :: chunks f (skipn (sz r) r) end
  end.
Definition runes (r : list nat) := chunks (length r) r.

Lemma chunks_concat : forall fuel r, length r <= fuel -> concat (chunks fuel r) = r.
Proof.
  induction fuel as [|f IH]; intros r Hr; [destruct r; cbn in *; [reflexivity|lia]|].
  cbn [chunks]. destruct r as [|a r']; [reflexivity|]. cbn [concat].
  pose proof (sz_pos (a :: r') ltac:(discriminate)) as Hs. rewrite IH by (rewrite skipn_length; cbn [length] in *; lia). apply firstn_skipn.
Qed.
Lemma chunks_fuel2 : forall f1 f2 r, length r <= f1 -> length r <= f2 -> chunks f1 r = chunks f2 r.
Proof.
  induction f1 as [|f1 IH]; intros f2 r H1 H2.
  - destruct r; [destruct f2; reflexivity|cbn in H1; lia].
  - destruct r as [|a r']; [destruct f2; reflexivity|]. destruct f2 as [|f2]; [cbn in H2; lia|].
    pose proof (sz_pos (a :: r') ltac:(discriminate)) as Hs. cbn [chunks]. f_equal.
    apply IH; rewrite skipn_length; cbn [length] in *; lia.
Qed.
Lemma chunks_fuel fuel r : length r <= fuel -> chunks fuel r = chunks (length r) r.
Proof. intros H. apply chunks_fuel2; lia. Qed.
Lemma runes_cons r : r <> [] -> runes r = firstn (sz r) r :: runes (skipn (sz r) r).
Proof.
  intros Hr. unfold runes. destruct r as [|a r']; [congruence|].
  pose proof (sz_pos (a :: r') ltac:(discriminate)) as Hs. change (length (a :: r')) with (S (length r')) at 1. cbn [chunks]. f_equal.
  apply chunks_fuel. rewrite skipn_length. cbn [length] in *. lia.
Qed.

Definition want (start : nat) (len : option nat) (cs : list (list nat)) : list nat :=
  concat (match len with None => skipn start cs | Some n => firstn n (skipn start cs) end).

Lemma concat_snoc (ps : list (list nat)) r : concat (ps ++ [r]) = concat ps ++ r.
Proof. rewrite concat_app. cbn [concat]. rewrite app_nil_r. reflexivity. Qed.
Lemma skipn_len_app {A} (a b : list A) : skipn (length a) (a ++ b) = b.
Proof. rewrite skipn_app, Nat.sub_diag, skipn_all. reflexivity. Qed.
Lemma firstn_len_app {A} (a b : list A) : firstn (length a) (a ++ b) = a.
Proof. rewrite firstn_app, Nat.sub_diag, firstn_all. cbn [firstn]. apply app_nil_r. Qed.

(* loop invariant: ps = the runes already passed, rs = those still ahead *)
Lemma go_spec s start len : forall rs ps fuel,
  s = concat ps ++ concat rs -> runes (concat rs) = rs -> length (concat rs) < fuel ->
  match len with Some n => 1 <= n /\ length ps <= start + n | None => length ps <= start end ->
  go s start len fuel (length (concat ps)) (length ps) (if start <? length ps then Some (length (concat (firstn start ps))) else None)
  = Ret (want start len (ps ++ rs)).
Proof.
  induction rs as [|r rs' IH]; intros ps fuel Hs Hr Hf Hinv; (destruct fuel as [|f]; [lia|]); cbn [go].
  - cbn [concat] in Hs. rewrite app_nil_r in Hs. rewrite app_nil_r. rewrite Hs, Nat.ltb_irrefl. f_equal. unfold want.
    destruct (Nat.ltb_spec start (length ps)) as [Hlt|Hge].
    + destruct len as [n|]; [|lia]. destruct Hinv as [Hn Hc].
      rewrite <- (firstn_skipn start ps) at 2. rewrite concat_app, skipn_len_app.
      rewrite firstn_all2 by (rewrite skipn_length; lia). reflexivity.
    + rewrite skipn_all2 by lia. destruct len; [rewrite firstn_nil|]; reflexivity.
  - set (R := concat (r :: rs')) in *.
    assert (HRne : R <> []) by (intros E; rewrite E in Hr; discriminate).
    rewrite (runes_cons R HRne) in Hr. injection Hr as Er Ers.
    assert (HR : R = r ++ concat rs') by reflexivity.
    assert (Hlr : length r = sz R) by (rewrite <- Er at 1; rewrite firstn_length; pose proof (sz_pos R HRne); lia).
    pose proof (sz_pos R HRne) as Hsz.
    assert (Hi : length (concat ps) < length s) by (rewrite Hs, app_length; destruct R; [congruence|cbn [length]; lia]).
    destruct (Nat.ltb_spec (length (concat ps)) (length s)); [|lia].
    assert (Hsk : skipn (length (concat ps)) s = R) by (rewrite Hs; apply skipn_len_app).
    rewrite Hsk, <- Hlr.
    assert (Hnext : forall b, match len with Some n => 1 <= n /\ S (length ps) <= start + n | None => S (length ps) <= start end ->
              b = (if start <? S (length ps) then Some (length (concat (firstn start (ps ++ [r])))) else None) ->
              go s start len f (length (concat ps) + length r) (S (length ps)) b = Ret (want start len (ps ++ r :: rs'))).
    { intros b Hinv' ->. replace (ps ++ r :: rs') with ((ps ++ [r]) ++ rs') by (rewrite <- app_assoc; reflexivity).
      replace (length (concat ps) + length r) with (length (concat (ps ++ [r]))) by (rewrite concat_snoc, app_length; reflexivity).
      replace (S (length ps)) with (length (ps ++ [r])) by (rewrite app_length; cbn [length]; lia).
      apply IH.
      - rewrite concat_snoc, <- app_assoc. exact Hs.
      - assert (Hcr : skipn (sz R) R = concat rs') by (rewrite <- Hlr; unfold R; cbn [concat]; apply skipn_len_app).
        rewrite <- Hcr. exact Ers.
      - rewrite HR, app_length in Hf. lia.
      - rewrite app_length. cbn [length]. rewrite Nat.add_1_r. exact Hinv'. }
    destruct (Nat.eqb_spec (length ps) start) as [Ec|Ec].
    + (* count == start *)
      destruct len as [n|].
      * apply Hnext; [lia|]. destruct (Nat.ltb_spec start (S (length ps))); [|lia].
        rewrite <- Ec, firstn_len_app. reflexivity.
      * f_equal. unfold want. rewrite <- Ec, skipn_len_app. reflexivity.
    + destruct (Nat.ltb_spec start (length ps)) as [Hlt|Hge].
      * destruct len as [n|]; [|lia]. destruct Hinv as [Hn Hc].
        destruct (Nat.eqb_spec (start + n) (length ps)) as [E|E].
        -- f_equal. unfold want. rewrite skipn_app. replace (start - length ps) with 0 by lia. rewrite skipn_O.
           rewrite firstn_app. replace (n - length (skipn start ps)) with 0 by (rewrite skipn_length; lia). cbn [firstn]. rewrite app_nil_r.
           rewrite (firstn_all2 (skipn start ps)) by (rewrite skipn_length; lia).
           rewrite Hs. assert (Hsplit : concat ps = concat (firstn start ps) ++ concat (skipn start ps))
             by (rewrite <- concat_app, firstn_skipn; reflexivity).
           rewrite Hsplit. generalize (concat (firstn start ps)) as A. generalize (concat (skipn start ps)) as B. intros B A.
           rewrite <- app_assoc, skipn_len_app, app_length. replace (length A + length B - length A) with (length B) by lia.
           apply firstn_len_app.
        -- apply Hnext; [lia|]. destruct (Nat.ltb_spec start (S (length ps))); [|lia]. rewrite firstn_app. replace (start - length ps) with 0 by lia.
           cbn [firstn]. rewrite app_nil_r. reflexivity.
      * assert (Hb : (if start <? S (length ps) then Some (length (concat (firstn start (ps ++ [r])))) else None) = None)
          by (destruct (Nat.ltb_spec start (S (length ps))); [lia|reflexivity]).
        destruct len as [n|]; apply Hnext; auto; lia.
Qed.

Theorem sub_spec s start len :
  sub s start len = Ret (match len with Some 0 => [] | _ => want start len (runes s) end).
Proof.
  assert (Hnil : forall l, want start l (runes []) = []).
  { intros l. unfold want, runes. cbn [length chunks]. rewrite skipn_nil. destruct l; [rewrite firstn_nil|]; reflexivity. }
  assert (G : forall l, match l with Some n => 1 <= n | None => True end -> s <> [] ->
              go s start l (S (length s)) 0 0 None = Ret (want start l (runes s))).
  { intros l Hl Hne. assert (Hc : concat (runes s) = s) by (apply chunks_concat; lia).
    pose proof (go_spec s start l (runes s) [] (S (length s))) as G. cbn [concat app length firstn] in G.
    destruct (Nat.ltb_spec start 0); [lia|]. apply G; [symmetry; exact Hc|rewrite Hc; reflexivity|rewrite Hc; lia|].
    destruct l; lia. }
  unfold sub. destruct len as [[|n]|]; [reflexivity| |].
  - destruct s as [|a s'] eqn:Es; [rewrite Hnil; reflexivity|]. rewrite <- Es in *. apply G; [lia|rewrite Es; discriminate].
  - destruct s as [|a s'] eqn:Es; [rewrite Hnil; reflexivity|]. rewrite <- Es in *. apply G; [auto|rewrite Es; discriminate].
Qed.
End Sub.
Print Assumptions sub_spec.
