From Coq Require Import List ZArith Lia Bool Arith.
Import ListNotations.

(* cryptz.DecryptStreamTo: header read, then a stream cipher over whatever chunks the reader delivers. *)
Section Stream.
Variable ks : nat -> Z.                       (* keystream byte at absolute position (CTR under the derived key) *)
Variable B : nat.                             (* buffer size offered to each body Read; any positive value *)
Hypothesis B_pos : 0 < B.

Fixpoint xor_from (pos : nat) (bs : list Z) : list Z :=
  match bs with [] => [] | b :: t => Z.lxor b (ks pos) :: xor_from (S pos) t end.
Lemma xor_from_app pos a b : xor_from pos (a ++ b) = xor_from pos a ++ xor_from (pos + length a) b.
Proof.
  revert pos; induction a as [|x a IH]; intros pos; cbn [app xor_from length].
  - rewrite Nat.add_0_r. reflexivity.
  - rewrite IH. f_equal. f_equal. f_equal. lia.
Qed.

(* a reader is the list of chunks its successive Reads would return to a large enough buffer
   (chunks may be empty: a zero-length read without error); Read(p) returns at most len(p) bytes *)
Definition reader := list (list Z).
Definition read (r : reader) (n : nat) : list Z * reader :=
  match r with
  | [] => ([], [])
  | c :: t => if length c <=? n then (c, t) else (firstn n c, skipn n c :: t)
  end.

(* the header read as found: ONE Read of 16 bytes, error unless it returned exactly 16 without EOF *)
Definition header_as_found (r : reader) : option (list Z * reader) :=
  match r with
  | [] => None                                         (* n=0, io.EOF: "read header error" *)
  | _ => let '(c, r') := read r 16 in if length c =? 16 then Some (c, r') else None
  end.

(* repaired: io.ReadFull *)
Fixpoint read_full (fuel : nat) (r : reader) (need : nat) (acc : list Z) : option (list Z * reader) :=
  match need with
  | O => Some (acc, r)
  | _ => match fuel with
         | O => None
         | S f => match r with
                  | [] => None                          (* EOF before 16 bytes *)
                  | _ => let '(c, r') := read r need in read_full f r' (need - length c) (acc ++ c)
                  end
         end
  end.

Fixpoint copy_loop (fuel : nat) (r : reader) (pos : nat) (out : list Z) : option (list Z) :=
  match r with
  | [] => Some out                                      (* EOF *)
  | _ => match fuel with
         | O => None
         | S f => let '(c, r') := read r B in copy_loop f r' (pos + length c) (out ++ xor_from pos c)
         end
  end.

Definition decrypt_stream (hdr : reader -> option (list Z * reader)) (fuel : nat) (r : reader) : option (list Z) :=
  match hdr r with
  | None => None
  | Some (h, r') => copy_loop fuel r' 0 []                (* magic check and key derivation elided: they depend on h only *)
  end.

Lemma read_concat r n : 0 < n ->
   fst (read r n) ++ concat (snd (read r n)) = concat r /\ length (fst (read r n)) <= n /\
   (length (concat (snd (read r n))) + length (snd (read r n)) < length (concat r) + length r \/ r = []).
Proof.
  intros Hn. destruct r as [|ch t]; cbn [read]; [cbn; repeat split; auto; lia|].
  destruct (Nat.leb_spec (length ch) n); cbn [fst snd].
  - cbn [concat length]. repeat split; auto. left. rewrite app_length. lia.
  - cbn [concat]. rewrite app_assoc, firstn_skipn. repeat split; auto; [rewrite firstn_length; lia|].
    left. rewrite !app_length, skipn_length. cbn [length]. lia.
Qed.

Lemma copy_loop_unfold f r pos out : r <> [] ->
  copy_loop (S f) r pos out = copy_loop f (snd (read r B)) (pos + length (fst (read r B))) (out ++ xor_from pos (fst (read r B))).
Proof. intros H. destruct r as [|c t]; [congruence|]. cbn [copy_loop]. destruct (read (c :: t) B); reflexivity. Qed.

Lemma copy_loop_spec : forall fuel r pos out, length (concat r) + length r < fuel ->
  copy_loop fuel r pos out = Some (out ++ xor_from pos (concat r)).
Proof.
  induction fuel as [|f IH]; intros r pos out Hf; [lia|].
  destruct (list_eq_dec (list_eq_dec Z.eq_dec) r []) as [->|Hne].
  - cbn [copy_loop concat xor_from]. rewrite app_nil_r. reflexivity.
  - rewrite copy_loop_unfold by auto.
    pose proof (read_concat r B B_pos) as H. destruct (read r B) as [ch r']. cbn [fst snd] in *.
    destruct H as (E & _ & [Hd|Hd]); [|contradiction].
    rewrite IH by lia. rewrite <- E, xor_from_app, app_assoc. reflexivity.
Qed.

Lemma read_full_spec : forall fuel r need acc, length (concat r) + length r < fuel -> need <= length (concat r) ->
  exists r', read_full fuel r need acc = Some (acc ++ firstn need (concat r), r') /\ concat r' = skipn need (concat r).
Proof.
  induction fuel as [|f IH]; intros r need acc Hf Hn; [lia|].
  destruct need as [|need'].
  - exists r. cbn [read_full firstn skipn]. rewrite app_nil_r. auto.
  - set (need := S need') in *. cbn [read_full]. fold need.
    destruct r as [|c t] eqn:Er; [cbn in Hn; lia|]. rewrite <- Er in *.
    pose proof (read_concat r need ltac:(lia)) as H. destruct (read r need) as [ch r1]. cbn [fst snd] in H.
    destruct H as (E & Hl & [Hd|Hd]); [|subst; discriminate].
    destruct (IH r1 (need - length ch) (acc ++ ch)) as (r' & E1 & E2); [lia| |].
    + assert (length (concat r) = length ch + length (concat r1)) by (rewrite <- E, app_length; reflexivity). lia.
    + exists r'. rewrite E1. split.
      * f_equal. f_equal. rewrite <- app_assoc. f_equal. rewrite <- E.
        rewrite firstn_app. rewrite (firstn_all2 ch) by lia. reflexivity.
      * rewrite E2, <- E. rewrite skipn_app. rewrite (skipn_all2 ch) by lia. reflexivity.
Qed.

(* C09, stream half (repaired header read): whatever chunking the reader chooses, the output is the
   keystream applied to everything after the 16-byte header; shorter streams are an error, never a panic *)
Theorem stream_any_chunking r : let data := concat r in
  let fuel := S (length data + length r) in
  decrypt_stream (fun r => read_full fuel r 16 []) fuel r =
    if 16 <=? length data then Some (xor_from 0 (skipn 16 data)) else None.
Proof.
  cbv zeta. unfold decrypt_stream. destruct (Nat.leb_spec 16 (length (concat r))) as [H|H].
  - destruct (read_full_spec (S (length (concat r) + length r)) r 16 [] ltac:(lia) H) as (r' & E1 & E2).
    rewrite E1. rewrite copy_loop_spec.
    + rewrite E2. reflexivity.
    + assert (length (concat r') + length r' <= length (concat r) + length r).
      { (* crude: the remaining reader is no longer than what fuel allows *) 
        revert E1. generalize (S (length (concat r) + length r)) as fu. intros fu.
        assert (G : forall fu r need acc x r', read_full fu r need acc = Some (x, r') -> length (concat r') + length r' <= length (concat r) + length r).
        { induction fu0 as [|f IHf]; intros r0 need acc x r0' Hrf; destruct need as [|nd]; cbn [read_full] in Hrf; try discriminate.
          - inversion Hrf; subst; lia.
          - inversion Hrf; subst; lia.
          - destruct r0 as [|c t] eqn:Er0; [discriminate|]. rewrite <- Er0 in *.
            pose proof (read_concat r0 (S nd) ltac:(lia)) as Hrc. destruct (read r0 (S nd)) as [ch r1]. cbn [fst snd] in Hrc.
            destruct Hrc as (_ & _ & [Hd|Hd]); [|subst; discriminate]. apply IHf in Hrf. lia. }
        intros E1. apply G in E1. lia. }
      lia.
  - (* too short: ReadFull hits EOF first *)
    assert (G : forall fu r need acc, length (concat r) < need -> read_full fu r need acc = None).
    { induction fu as [|f IHf]; intros r0 need acc Hlt; destruct need as [|nd]; cbn [read_full]; try lia; auto.
      destruct r0 as [|c t] eqn:Er0; [reflexivity|]. rewrite <- Er0 in *.
      pose proof (read_concat r0 (S nd) ltac:(lia)) as Hrc. destruct (read r0 (S nd)) as [ch r1]. cbn [fst snd] in Hrc.
      destruct Hrc as (E & Hl & _). apply IHf. rewrite <- E, app_length in Hlt. lia. }
    rewrite G by lia. reflexivity.
Qed.
End Stream.

(* the header read as found fails on a legitimate stream delivered one byte at a time *)
Example stream_refuted :
  let data := repeat 7%Z 20 in
  decrypt_stream (fun _ => 0%Z) 4 header_as_found 100 (map (fun b => [b]) data) = None /\
  decrypt_stream (fun _ => 0%Z) 4 (fun r => read_full 100 r 16 []) 100 (map (fun b => [b]) data) <> None.
Proof. split; vm_compute; [reflexivity|discriminate]. Qed.
Print Assumptions stream_any_chunking.
