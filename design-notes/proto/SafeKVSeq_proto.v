From Coq Require Import List ZArith Lia Bool Arith.
Import ListNotations.
Local Open Scope Z_scope.

(* C12, the two named consequences, on the sequential map that SafeKV_linearize_proto reduces every
   concurrent run to (write sections applied whole, in unlock order). *)
Definition kv := list (Z * Z).
Fixpoint get (m : kv) (k : Z) : option Z := match m with [] => None | (a, b) :: t => if a =? k then Some b else get t k end.
Definition setnx (m : kv) (k v : Z) : kv * bool := match get m k with Some _ => (m, false) | None => ((k, v) :: m, true) end.
Definition setx (m : kv) (k v : Z) : kv * bool := match get m k with Some _ => ((k, v) :: m, true) | None => (m, false) end.

(* any number of SetNx calls on one key, in whatever order their sections committed *)
Fixpoint run_setnx (m : kv) (k : Z) (vs : list Z) : kv * list bool :=
  match vs with [] => (m, []) | v :: t => let '(m1, b) := setnx m k v in let '(m2, bs) := run_setnx m1 k t in (m2, b :: bs) end.

Lemma run_setnx_present : forall vs m k, get m k <> None -> snd (run_setnx m k vs) = repeat false (length vs).
Proof.
  induction vs as [|v t IH]; intros m k H; cbn [run_setnx snd length repeat]; [reflexivity|]. unfold setnx.
  destruct (get m k) eqn:E; [|congruence]. specialize (IH m k ltac:(congruence)). destruct (run_setnx m k t). cbn [snd] in *. f_equal. exact IH.
Qed.
(* exactly one of several SetNx calls on an absent key returns true: the one whose section committed first *)
Theorem setnx_unique m k v vs : get m k = None ->
  snd (run_setnx m k (v :: vs)) = true :: repeat false (length vs).
Proof.
  intros H. cbn [run_setnx]. unfold setnx at 1. rewrite H.
  assert (Hp : get ((k, v) :: m) k <> None) by (cbn [get]; rewrite Z.eqb_refl; discriminate).
  pose proof (run_setnx_present vs _ k Hp) as R. destruct (run_setnx ((k, v) :: m) k vs) as [m2 bs]. cbn [snd] in *. f_equal. exact R.
Qed.

(* SetX never creates a key: the key set only changes through keys that were already there *)
Theorem setx_never_creates m k v k' : get (fst (setx m k v)) k' <> None -> get m k' <> None.
Proof.
  unfold setx. destruct (get m k) eqn:E; cbn [fst]; auto. cbn [get]. destruct (Z.eqb_spec k k') as [->|_]; [congruence|auto].
Qed.
Print Assumptions setnx_unique.
Print Assumptions setx_never_creates.
