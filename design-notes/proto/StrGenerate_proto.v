From Coq Require Import List ZArith Lia Bool Arith.
Import ListNotations.
Local Open Scope Z_scope.

(* randz.StrGenerator.Generate (str.go:86-101): the random source is an input stream of Int63 values;
   the loop ends when n characters are written or (in the model) the stream is exhausted. *)
Record gen := { charset : list Z; bits : Z; mask : Z; imax : nat }.

(* one cache word, `remain` draws left in it; i+1 characters still to write *)
Fixpoint draw (g : gen) (remain : nat) (cache : Z) (need : nat) (acc : list Z) : list Z * nat :=
  match remain, need with
  | _, O => (acc, O)
  | O, _ => (acc, need)
  | S r, S k =>
      let idx := Z.land cache (mask g) in
      if idx <? Z.of_nat (length (charset g))
      then draw g r (Z.shiftr cache (bits g)) k (acc ++ [nth (Z.to_nat idx) (charset g) 0])
      else draw g r (Z.shiftr cache (bits g)) need acc
  end.
Fixpoint generate_go (g : gen) (stream : list Z) (need : nat) (acc : list Z) : option (list Z) :=
  match need with
  | O => Some acc
  | _ => match stream with
         | [] => None                                   (* the model's stream ran out: the real loop would keep drawing *)
         | w :: rest => let '(acc', need') := draw g (imax g) w need acc in generate_go g rest need' acc'
         end
  end.
(* Generate(n) draws one word before looking at n *)
Definition generate (g : gen) (stream : list Z) (n : nat) : option (list Z) :=
  match stream with [] => None | w :: rest =>
    let '(acc, need) := draw g (imax g) w n [] in generate_go g rest need acc end.

Lemma draw_spec g : forall remain cache need acc,
  0 <= mask g ->
  let '(acc', need') := draw g remain cache need acc in
  (need' <= need)%nat /\ exists new, acc' = acc ++ new /\ (length new = need - need')%nat /\ Forall (fun c => In c (charset g)) new.
Proof.
  induction remain as [|r IH]; intros cache need acc Hm; destruct need as [|k]; cbn [draw].
  1-3: (split; [lia|]; exists []; rewrite app_nil_r; split; [reflexivity|split; [cbn [length]; lia|constructor]]).
  destruct (Z.ltb_spec (Z.land cache (mask g)) (Z.of_nat (length (charset g)))) as [Hlt|Hge].
  - specialize (IH (Z.shiftr cache (bits g)) k (acc ++ [nth (Z.to_nat (Z.land cache (mask g))) (charset g) 0]) Hm).
    destruct (draw g r _ k _) as [acc' need']. destruct IH as (H1 & new & E & L & F). split; [lia|].
    exists (nth (Z.to_nat (Z.land cache (mask g))) (charset g) 0 :: new). rewrite E, <- app_assoc. repeat split; auto.
    + cbn [length]. lia.
    + constructor; auto. apply nth_In.
      assert (0 <= Z.land cache (mask g)) by (apply Z.land_nonneg; right; exact Hm). lia.
  - specialize (IH (Z.shiftr cache (bits g)) (S k) acc Hm). destruct (draw g r _ (S k) acc) as [acc' need']. exact IH.
Qed.

(* whatever the random words are: if Generate returns, it returns exactly n characters of the character set *)
Theorem generate_shape g : 0 <= mask g ->
  forall stream n out, generate g stream n = Some out -> length out = n /\ Forall (fun c => In c (charset g)) out.
Proof.
  intros Hm.
  assert (G : forall stream need acc out, generate_go g stream need acc = Some out ->
            exists new, out = acc ++ new /\ length new = need /\ Forall (fun c => In c (charset g)) new).
  { induction stream as [|w rest IH]; intros need acc out H; destruct need as [|k]; cbn [generate_go] in H; try discriminate.
    1,2: inversion H; subst; exists []; rewrite app_nil_r; repeat split; auto.
    pose proof (draw_spec g (imax g) w (S k) acc Hm) as D. destruct (draw g (imax g) w (S k) acc) as [acc' need'].
    destruct D as (D1 & new & -> & L & F). destruct (IH _ _ _ H) as (new2 & -> & L2 & F2).
    exists (new ++ new2). rewrite app_assoc. repeat split; auto; [rewrite app_length; lia|apply Forall_app; auto]. }
  intros stream n out H. unfold generate in H. destruct stream as [|w rest]; [discriminate|].
  pose proof (draw_spec g (imax g) w n [] Hm) as D. destruct (draw g (imax g) w n []) as [acc need].
  destruct D as (D1 & new & -> & L & F). destruct (G _ _ _ _ H) as (new2 & -> & L2 & F2). cbn [app].
  split; [rewrite app_length; lia|apply Forall_app; auto].
Qed.
Print Assumptions generate_shape.
