From Coq Require Import List ZArith Lia Bool.
Import ListNotations.
Local Open Scope Z_scope.
Arguments Z.mul : simpl never.
Arguments Z.add : simpl never.
Arguments Z.div : simpl never.
Arguments Z.modulo : simpl never.
Arguments Z.pow : simpl never.

(* The digit loop of strz.ParseUint / parseUint (std_strconv.go:82-113), on 64-bit words.           *)
(* Digits are already decoded and known to be < base (the syntax checks are a separate, easy layer). *)
Definition M64 : Z := 2 ^ 64.
Definition maxUint64 : Z := M64 - 1.
Definition w64 (x : Z) : Z := x mod M64.

Inductive outcome := Ok (n : Z) | Range (maxVal : Z).

Definition cutoff (base : Z) : Z := maxUint64 / base + 1.
Definition maxval (bits : Z) : Z := w64 (w64 (2 ^ bits) - 1).       (* uint64(1)<<uint(bitSize) - 1, as the machine computes it *)

Fixpoint loop (base bits : Z) (n : Z) (ds : list Z) : outcome :=
  match ds with
  | [] => Ok n
  | dgt :: t =>
      if cutoff base <=? n then Range (maxval bits)                    (* n*base overflows *)
      else let n' := w64 (n * base) in
           let n1 := w64 (n' + dgt) in
           if (n1 <? n') || (maxval bits <? n1) then Range (maxval bits) (* n+d overflows or exceeds maxVal *)
           else loop base bits n1 t
  end.

(* Specification: unbounded arithmetic, first prefix whose value exceeds 2^bits - 1 is a range error *)
Fixpoint spec (base bits : Z) (n : Z) (ds : list Z) : outcome :=
  match ds with
  | [] => Ok n
  | dgt :: t => let v := n * base + dgt in
                if 2 ^ bits - 1 <? v then Range (2 ^ bits - 1) else spec base bits v t
  end.

Lemma maxval_ok bits : 1 <= bits <= 64 -> maxval bits = 2 ^ bits - 1.
Proof.
  intros H. unfold maxval, w64, M64.
  destruct (Z.eq_dec bits 64) as [->|Hne].
  - rewrite Z.mod_same by lia. change (0 - 1) with (-1). reflexivity.
  - assert (0 < 2 ^ bits < 2 ^ 64).
    { split; [apply Z.pow_pos_nonneg; lia|apply Z.pow_lt_mono_r; lia]. }
    rewrite (Z.mod_small (2 ^ bits)) by lia. apply Z.mod_small. lia.
Qed.

Lemma cutoff_spec base n : 2 <= base -> 0 <= n -> (cutoff base <= n <-> M64 <= n * base).
Proof.
  intros Hb Hn. unfold cutoff, maxUint64.
  pose proof (Z.div_mod (M64 - 1) base ltac:(lia)) as E.
  pose proof (Z.mod_pos_bound (M64 - 1) base ltac:(lia)) as B.
  split; intros H; nia.
Qed.

Theorem loop_refines_spec base bits : 2 <= base <= 36 -> 1 <= bits <= 64 ->
  forall ds n, 0 <= n <= 2 ^ bits - 1 -> Forall (fun dgt => 0 <= dgt < base) ds ->
  loop base bits n ds = spec base bits n ds.
Proof.
  intros Hb Hbits. pose proof (maxval_ok bits Hbits) as HM.
  assert (Hp : 0 < 2 ^ bits <= M64).
  { unfold M64. split; [apply Z.pow_pos_nonneg; lia|apply Z.pow_le_mono_r; lia]. }
  assert (HM64 : M64 = 18446744073709551616) by reflexivity.
  induction ds as [|dgt t IH]; intros n Hn Hds; cbn [loop spec]; [reflexivity|].
  inversion Hds as [|? ? Hd Ht]; subst. rewrite HM.
  destruct (Z.leb_spec (cutoff base) n) as [Hc|Hc].
  - apply cutoff_spec in Hc; [|lia|lia].
    destruct (Z.ltb_spec (2 ^ bits - 1) (n * base + dgt)); [reflexivity|lia].
  - assert (Hnb : n * base < M64) by (destruct (Z_lt_le_dec (n * base) M64); auto; apply cutoff_spec in l; lia).
    assert (E1 : w64 (n * base) = n * base) by (unfold w64; apply Z.mod_small; nia).
    rewrite E1.
    destruct (Z_lt_le_dec (n * base + dgt) M64) as [Hs|Hs].
    + assert (E2 : w64 (n * base + dgt) = n * base + dgt) by (unfold w64; apply Z.mod_small; nia).
      rewrite E2. destruct (Z.ltb_spec (n * base + dgt) (n * base)) as [H1|H1]; [lia|]. cbn [orb].
      destruct (Z.ltb_spec (2 ^ bits - 1) (n * base + dgt)) as [H2|H2]; [reflexivity|].
      apply IH; auto. nia.
    + (* the addition wraps: caught by n1 < n *)
      assert (E2 : w64 (n * base + dgt) = n * base + dgt - M64).
      { unfold w64. symmetry. apply (Z.mod_unique _ _ 1); lia. }
      rewrite E2. destruct (Z.ltb_spec (n * base + dgt - M64) (n * base)) as [H1|H1]; [|lia]. cbn [orb].
      destruct (Z.ltb_spec (2 ^ bits - 1) (n * base + dgt)); [reflexivity|lia].
Qed.
Print Assumptions loop_refines_spec.

(* a one-character slip: cutoff without the +1 *)
Definition cutoff_bad (base : Z) : Z := maxUint64 / base.
Example slip_is_visible : exists n, cutoff_bad 10 <= n /\ n * 10 + 5 <= maxUint64.
Proof. exists 1844674407370955161. unfold cutoff_bad, maxUint64, M64. split; [vm_compute; discriminate|vm_compute; discriminate]. Qed.
