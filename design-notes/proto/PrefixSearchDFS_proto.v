From Coq Require Import List ZArith Lia Bool Arith.
Import ListNotations.

(* algz.Trie.PrefixSearch's enumeration loop (trie.go:206-233) after the F4a repair:
   frames carry the byte offset at which their rune is written; the shared buffer is truncated to it. *)
Inductive tr := Node (isEnd : bool) (kids : list (list Z * tr)).      (* a child: the bytes of its rune, and the subtree *)
Definition is_end (t : tr) := match t with Node e _ => e end.
Definition kids_of (t : tr) := match t with Node _ k => k end.

Record frame := { rn : list Z; off : nat; nd : tr }.

(* for len(stack) > 0 { pop; buf.Truncate(cur.depth); buf.WriteRune(cur.r); if isEnd {ret = append(ret, buf.String())};
                         for children { push {child.val, buf.Len(), child.node} } } *)
Fixpoint loop (fuel : nat) (stack : list frame) (buf : list Z) (ret : list (list Z)) : option (list (list Z)) :=
  match fuel with
  | O => None
  | S f =>
      match stack with
      | [] => Some ret
      | cur :: rest =>                                           (* the top of the stack is the head of the list *)
          let buf' := firstn (off cur) buf ++ rn cur in
          let ret' := if is_end (nd cur) then ret ++ [buf'] else ret in
          let pushed := rev (map (fun '(r, c) => {| rn := r; off := length buf'; nd := c |}) (kids_of (nd cur))) in
          loop f (pushed ++ rest) buf' ret'
      end
  end.

(* specification: pre-order with children taken last-to-first (the last pushed child is popped first) *)
Fixpoint words (t : tr) (prefix : list Z) {struct t} : list (list Z) :=
  match t with
  | Node e ks =>
      (if e then [prefix] else []) ++
      (fix go (l : list (list Z * tr)) : list (list Z) :=
         match l with
         | [] => []
         | (r, c) :: l' => go l' ++ words c (prefix ++ r)
         end) ks
  end.
Definition words_kids (ks : list (list Z * tr)) (prefix : list Z) : list (list Z) :=
  (fix go (l : list (list Z * tr)) : list (list Z) :=
     match l with [] => [] | (r, c) :: l' => go l' ++ words c (prefix ++ r) end) ks.
Lemma words_unfold e ks prefix : words (Node e ks) prefix = (if e then [prefix] else []) ++ words_kids ks prefix.
Proof. reflexivity. Qed.
Lemma words_kids_cons r c l prefix : words_kids ((r, c) :: l) prefix = words_kids l prefix ++ words c (prefix ++ r).
Proof. reflexivity. Qed.

Fixpoint size (t : tr) : nat :=
  match t with Node _ ks => S ((fix go (l : list (list Z * tr)) := match l with [] => 0 | (_, c) :: l' => size c + go l' end) ks) end.
Definition size_kids (ks : list (list Z * tr)) : nat :=
  (fix go (l : list (list Z * tr)) := match l with [] => 0 | (_, c) :: l' => size c + go l' end) ks.
Lemma size_unfold e ks : size (Node e ks) = S (size_kids ks).
Proof. reflexivity. Qed.

(* what a stack still has to produce, given the buffer: each frame's prefix is the first `off` bytes of the buffer *)
Fixpoint todo (stack : list frame) (buf : list Z) : list (list Z) :=
  match stack with [] => [] | f :: rest => words (nd f) (firstn (off f) buf ++ rn f) ++ todo rest buf end.
Fixpoint ssize (stack : list frame) : nat := match stack with [] => 0 | f :: rest => size (nd f) + ssize rest end.
(* offsets never exceed the offset of a frame above them, nor the buffer *)
Fixpoint mono (stack : list frame) (bound : nat) : Prop :=
  match stack with [] => True | f :: rest => off f <= bound /\ mono rest (off f) end.

Lemma firstn_le (l l' : list Z) o b : o <= b -> firstn b l' = firstn b l -> firstn o l' = firstn o l.
Proof.
  intros Ho H. assert (G : forall x : list Z, firstn o x = firstn o (firstn b x)) by (intros x; rewrite firstn_firstn; f_equal; lia).
  rewrite (G l'), (G l), H. reflexivity.
Qed.

Lemma todo_frame : forall stack buf buf' b, mono stack b -> firstn b buf' = firstn b buf -> todo stack buf' = todo stack buf.
Proof.
  induction stack as [|f rest IH]; intros buf buf' b Hm Hb; cbn [todo mono] in *; [reflexivity|].
  destruct Hm as [Ho Hm]. pose proof (firstn_le buf buf' (off f) b Ho Hb) as E.
  rewrite E. f_equal. apply (IH buf buf' (off f)); auto.
Qed.

Lemma mono_weaken : forall stack b b', mono stack b -> b <= b' -> mono stack b'.
Proof. destruct stack as [|f rest]; intros b b' H Hb; cbn [mono] in *; auto. destruct H; split; auto; lia. Qed.

(* pushing the children of a node (each with the new buffer length as its offset) *)
Lemma pushed_todo ks : forall (buf' : list Z) rest,
  todo (rev (map (fun '(r, c) => {| rn := r; off := length buf'; nd := c |}) ks) ++ rest) buf' =
  words_kids ks buf' ++ todo rest buf'.
Proof.
  induction ks as [|[r c] l IH]; intros buf' rest; [reflexivity|].
  cbn [map rev]. rewrite <- app_assoc. rewrite IH. cbn [app todo nd off rn]. rewrite firstn_all.
  rewrite words_kids_cons. rewrite <- app_assoc. reflexivity.
Qed.
Lemma ssize_app a b : ssize (a ++ b) = ssize a + ssize b.
Proof. induction a as [|x a IHa]; cbn [app ssize]; [reflexivity|rewrite IHa; lia]. Qed.
Lemma pushed_size ks (buf' : list Z) rest :
  ssize (rev (map (fun '(r, c) => {| rn := r; off := length buf'; nd := c |}) ks) ++ rest) = size_kids ks + ssize rest.
Proof.
  rewrite ssize_app. f_equal. induction ks as [|[r c] l IH]; [reflexivity|]. cbn [map rev]. rewrite ssize_app, IH. cbn [ssize nd].
  change (size_kids ((r, c) :: l)) with (size c + size_kids l). lia.
Qed.
Lemma pushed_mono ks (buf' : list Z) rest b : mono rest b -> b <= length buf' ->
  mono (rev (map (fun '(r, c) => {| rn := r; off := length buf'; nd := c |}) ks) ++ rest) (length buf').
Proof.
  intros Hr Hb. induction ks as [|[r c] l IH] using rev_ind.
  - cbn [map rev app]. eapply mono_weaken; eauto.
  - rewrite map_app, rev_app_distr. cbn [map rev app mono off]. split; [lia|exact IH].
Qed.

(* the repaired loop yields exactly the words below the frames on the stack, in the stack's order *)
Theorem loop_spec : forall fuel stack buf ret, ssize stack < fuel -> mono stack (length buf) ->
  loop fuel stack buf ret = Some (ret ++ todo stack buf).
Proof.
  induction fuel as [|f IH]; intros stack buf ret Hf Hm; [lia|]. cbn [loop].
  destruct stack as [|cur rest]; [cbn [todo]; rewrite app_nil_r; reflexivity|].
  cbn [mono ssize todo] in *. destruct Hm as [Ho Hm]. destruct (nd cur) as [e ks] eqn:En. cbn [is_end kids_of].
  set (buf' := firstn (off cur) buf ++ rn cur).
  assert (Hlen : off cur <= length buf') by (unfold buf'; rewrite app_length, firstn_length; lia).
  rewrite IH.
  - rewrite pushed_todo. rewrite words_unfold.
    assert (Et : todo rest buf' = todo rest buf).
    { apply (todo_frame rest buf buf' (off cur)); auto. unfold buf'. rewrite firstn_app, firstn_firstn.
      replace (Nat.min (off cur) (off cur)) with (off cur) by lia. rewrite firstn_length.
      replace (off cur - Nat.min (off cur) (length buf)) with 0 by lia. cbn [firstn]. apply app_nil_r. }
    rewrite Et. destruct e; rewrite <- ?app_assoc; reflexivity.
  - rewrite pushed_size. rewrite size_unfold in Hf. lia.
  - apply (pushed_mono ks buf' rest (off cur)); auto.
Qed.

(* PrefixSearch(key) from the node reached by key: push its children with offset len(key), run the loop *)
Theorem prefix_search_enumerates (key : list Z) (e : bool) (ks : list (list Z * tr)) :
  loop (S (size_kids ks)) (rev (map (fun '(r, c) => {| rn := r; off := length key; nd := c |}) ks)) key (if e then [key] else []) =
    Some (words (Node e ks) key).
Proof.
  pose proof (loop_spec (S (size_kids ks)) (rev (map (fun '(r, c) => {| rn := r; off := length key; nd := c |}) ks) ++ []) key (if e then [key] else [])) as H.
  rewrite app_nil_r in H. rewrite H.
  - pose proof (pushed_todo ks key []) as P. rewrite app_nil_r in P. rewrite P. cbn [todo]. rewrite app_nil_r. rewrite words_unfold. reflexivity.
  - pose proof (pushed_size ks key []) as S0. rewrite app_nil_r in S0. rewrite S0. cbn [ssize]. lia.
  - pose proof (pushed_mono ks key [] 0 I ltac:(lia)) as M. rewrite app_nil_r in M. exact M.
Qed.
Print Assumptions prefix_search_enumerates.
