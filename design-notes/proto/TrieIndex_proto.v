From Coq Require Import List ZArith Lia Bool Arith.
Import ListNotations.
Local Open Scope Z_scope.

(* algz.Trie.index (trie.go:361-378): exact-match bisection over the sorted child array, with the
   range pre-check; -1 when absent. Runes are Z; children are their val fields. *)
Fixpoint index_loop (fuel : nat) (c : list Z) (v : Z) (low high : nat) : Z :=
  match fuel with
  | O => -1
  | S f => if (low <? high)%nat then
             let mid := ((low + high) / 2)%nat in
             if nth mid c 0 =? v then Z.of_nat mid
             else if nth mid c 0 <? v then index_loop f c v (mid + 1) high else index_loop f c v low mid
           else -1
  end.
Definition index (c : list Z) (v : Z) : Z :=
  let high := length c in
  if (high =? 0)%nat || (v <? nth 0 c 0) || (nth (high - 1) c 0 <? v) then -1
  else index_loop (S high) c v 0 high.

Definition sorted (c : list Z) : Prop := forall i j, (i < j)%nat -> (j < length c)%nat -> nth i c 0 < nth j c 0.

Lemma index_loop_spec c v : sorted c -> forall fuel low high,
  (low <= high)%nat -> (high <= length c)%nat -> (high - low < fuel)%nat ->
  (forall i, (i < low)%nat -> nth i c 0 < v) -> (forall i, (high <= i)%nat -> (i < length c)%nat -> v < nth i c 0) ->
  let r := index_loop fuel c v low high in
  (0 <= r -> (Z.to_nat r < length c)%nat /\ nth (Z.to_nat r) c 0 = v) /\ (r = -1 -> ~ In v c) /\ (-1 <= r).
Proof.
  intros Hs. induction fuel as [|f IH]; intros low high H1 H2 H3 Hlo Hhi; [lia|]. cbn [index_loop].
  assert (Habsent : (low >= high)%nat -> ~ In v c).
  { intros Hge Hin. apply In_nth with (d := 0) in Hin. destruct Hin as (k & Hk & Ek).
    destruct (Nat.lt_ge_cases k low); [specialize (Hlo k ltac:(lia)); lia|specialize (Hhi k ltac:(lia) Hk); lia]. }
  destruct (Nat.ltb_spec low high) as [Hlt|Hge].
  - assert (Hm : (low <= (low + high) / 2 < high)%nat).
    { split; [apply Nat.div_le_lower_bound; lia | apply Nat.div_lt_upper_bound; lia]. }
    set (mid := ((low + high) / 2)%nat) in *.
    destruct (Z.eqb_spec (nth mid c 0) v) as [E|E].
    + cbv zeta. rewrite Nat2Z.id. repeat split; try lia.
    + destruct (Z.ltb_spec (nth mid c 0) v) as [Hc|Hc].
      * apply IH; try lia; auto. intros i Hi. destruct (Nat.eq_dec i mid) as [->|Hne]; auto.
        assert (nth i c 0 < nth mid c 0) by (apply Hs; lia). lia.
      * apply IH; try lia; auto. intros i Hi Hl. destruct (Nat.eq_dec i mid) as [->|Hne]; [lia|].
        assert (nth mid c 0 < nth i c 0) by (apply Hs; lia). lia.
  - cbv zeta. repeat split; try lia. intros _. apply Habsent. lia.
Qed.

Theorem index_spec c v : sorted c ->
  let r := index c v in
  (0 <= r -> (Z.to_nat r < length c)%nat /\ nth (Z.to_nat r) c 0 = v) /\ (r = -1 <-> ~ In v c) /\ (-1 <= r).
Proof.
  intros Hs. cbv zeta. unfold index.
  assert (Hout : forall k, (k < length c)%nat -> (v < nth 0 c 0 \/ nth (length c - 1) c 0 < v) -> nth k c 0 <> v).
  { intros k Hk [H|H] E.
    - destruct k; [lia|]. assert (nth 0 c 0 < nth (S k) c 0) by (apply Hs; lia). lia.
    - destruct (Nat.eq_dec k (length c - 1)) as [->|Hne]; [lia|]. assert (nth k c 0 < nth (length c - 1) c 0) by (apply Hs; lia). lia. }
  destruct (Nat.eqb_spec (length c) 0) as [E0|E0]; cbn [orb].
  - split; [lia|]. split; [|lia]. split; auto. intros _ Hin. destruct c; [contradiction|discriminate].
  - destruct (Z.ltb_spec v (nth 0 c 0)) as [Hlo|Hlo]; cbn [orb].
    + split; [lia|]. split; [|lia]. split; auto. intros _ Hin. apply In_nth with (d := 0) in Hin. destruct Hin as (k & Hk & Ek). apply (Hout k); auto.
    + destruct (Z.ltb_spec (nth (length c - 1) c 0) v) as [Hhi|Hhi].
      * split; [lia|]. split; [|lia]. split; auto. intros _ Hin. apply In_nth with (d := 0) in Hin. destruct Hin as (k & Hk & Ek). apply (Hout k); auto.
      * destruct (index_loop_spec c v Hs (S (length c)) 0%nat (length c)) as (A & B & C); try lia.
        split; [exact A|]. split; [|exact C]. split; [exact B|].
        intros Hnin. destruct (Z.eq_dec (index_loop (S (length c)) c v 0 (length c)) (-1)) as [|Hne]; auto.
        exfalso. apply Hnin. destruct (A ltac:(lia)) as [A1 A2]. rewrite <- A2. apply nth_In. auto.
Qed.
Print Assumptions index_spec.
